(* C18 - EBLIF files are read faithfully and survive write-then-read.
   Property theorems only; each is closed by [exact] of a lemma proved under Proofs/Blif*.v.
   Model: Fmt/Blif.v (documents, netlist value), BlifRead.v (reader), BlifWrite.v (writer),
   BlifSpec.v (WF, denote, supported, equiv).

   Status of the three clauses on the code as it is in /repo:
     well-formed and   proved for every accepted document, at full strength (C18_wf);
     self-contained
     reads faithfully  C18_sound_full is the statement, PROVED for every supported document
                       (C18_sound_full_holds): per declared model the instances (one per statement, in
                       order, definition, kind, .cname/.attr/.param/truth table), the connectivity (two
                       pins share a wire exactly when the file attaches them to the same net bit or to
                       net bits joined by .conn statements - any number of them, in any order relative
                       to the statements that use the nets, through any chain; bus bits x[3], unconn,
                       constants as plain names - exactly as the reader treats them), the library, the
                       port directions; undeclared definitions are leaf primitives.
                       Since the repair of the peeking loops of the reader (peek_statement) comment lines and
                       blank lines may stand anywhere, a trailing "# ..." ends a statement line in the
                       tokenizer, and the last model need not be closed by .end: the former refutations
                       C18_sound_refuted_header_gap / _comment_in_info are the positive Examples
                       C18_header_gap_repaired, C18_comment_in_info_repaired, C18_gaps_faithful,
                       C18_no_final_end_faithful.  [supported] still asks: .inputs lines before .outputs
                       lines before .clock lines before the other statements (hdr_sorted; the reader itself
                       takes them in any order: C18_outputs_first_reads), .latch with 2, 4 or 5 operands.
                       Since the repair of merge_wires (.conn a b lets wire a take the pins of wire b and
                       remembers that b stands for a, instead of inventing a cable a_i_b_j and throwing
                       both wires away) [supported] asks nothing of .conn any more: the conditions
                       conn_fresh (no operand spells an invented cable name), conns_last (every .conn
                       after the statements naming nets) and "no cable in two .conn" are gone, and the
                       former witnesses read faithfully (C18_conn_capture_repaired, C18_conn_chain_reads).
                       Since the repair of parse_name (the output net of .names is compared with the exact
                       word unconn, as the actuals of .subckt/.gate/.latch always were, instead of
                       `"unconn" in name`) a net whose name merely contains the text unconn is an ordinary
                       net everywhere: the .names driving it is called by it
                       (C18_names_unconn_substring_repaired);
     write-then-read   C18_full is the statement; REFUTED at full generality (C18_roundtrip_refuted: the
                       written file of a supported document is rejected on re-reading).
                       [roundtrippable] (BlifSpec) is the decidable side condition excluding the classes
                       of netlist on which it fails, each with its witness (theorems C18_roundtrip_excluded_...):
                       default names of the re-read colliding with written .cname, .conn moving a
                       top-level pin off the net named like its port, a primitive top model (.conn on a
                       bit of a bus is no longer among them: C18_roundtrip_conn_bus); definitions
                       instantiating themselves are excluded too (the composer does not terminate).
                       On that fragment the statement is C18_roundtrip_on_fragment: NOT proved in
                       general.  Proved: the boolean comparison decides the equivalence of the property
                       plus equality of the declared ports, so rt_check n = true certifies the round
                       trip of the netlist n (C18_roundtrip_checked); the correspondence run evaluates
                       roundtrippable and rt_check on every generated document and fails when a
                       roundtrippable netlist does not pass rt_check or does not round-trip through the
                       real composer and reader.  Example: a hierarchical document (C18_roundtrip_hier).
                       Proved in general, clause by clause: the reader and the grammar segment the
                       written file of a roundtrippable netlist into exactly the statements the writer
                       put there (C18_written_file_segmented); in every netlist the reader returns an
                       instance with a .cname is called by it (C18_cname_is_name); the INSTANCES clause
                       of the round trip (C18_roundtrip_instances): if the written file is a supported
                       document and is accepted, every written model comes back with the same instances
                       by name (kind, definition, .attr/.param, truth table, old .cname kept).
                       Missing for C18_roundtrip_on_fragment: acceptance of the written file (no
                       handler raises), supportedness of the written file (holds on every
                       roundtrippable netlist of the runs), the nets and ports clauses in general. *)
From Coq Require Import List Permutation.
From SV Require Import Base.Base Fmt.Blif Fmt.BlifRead Fmt.BlifWrite Fmt.BlifSpec
  Proofs.BlifWF Proofs.BlifExec Proofs.BlifSound Proofs.BlifC18 Proofs.BlifNetsFull Proofs.BlifRound Proofs.BlifRoundEx
  Proofs.BlifRoundSeg Proofs.BlifRoundCn Proofs.BlifRoundInst.

(* ---- well-formedness and self-containedness ---- *)
(* every accepted document, no restriction: model names distinct; every pin on a wire names a declared
   port bit of the model / of the instanced model; a pin is on one wire, once; every instance mirrors
   its definition; port and cable names distinct; no pin sits on a cable outside its model.
   (Before repair ececd91 of make_blackbox the last clause was refuted by every declared black box.) *)
Theorem C18_wf : forall d n, elab d = Ok n -> WF n.
Proof. exact wf_all. Qed.
Print Assumptions C18_wf.

(* the hypothesis holds for a flat design with buses, unconn, .names, .latch, instance data ... *)
Example C18_wf_example : exists n, elab doc_flat = Ok n /\ WF n /\
  length (b_models n) = 5 /\ exists m, find_model nm_top (b_models n) = Some m /\ length (m_insts m) = 4.
Proof. exact wf_example. Qed.
Print Assumptions C18_wf_example.

(* ... and for a design with a declared black box, which ends up as a leaf primitive *)
Example C18_wf_example_blackbox : exists n m, elab doc_blackbox = Ok n /\ WF n /\
  find_model i_ref_inv (b_models n) = Some m /\ m_lib m = LPrim /\ m_cables m = nil /\ length (m_ports m) = 2.
Proof. exact wf_example_blackbox. Qed.
Print Assumptions C18_wf_example_blackbox.

(* ---- the reader builds what the file says ---- *)
Definition C18_sound_full : Prop := forall d n, supported d = true -> elab d = Ok n -> denote d n.

(* proved part: for every supported document and every model it declares, the model exists, its
   instances are - in order - exactly the instance statements of its section with the named definition,
   the kind and the data that follows them, and every definition an instance names exists *)
Theorem C18_sound_instances : forall d n,
  supported d = true -> elab d = Ok n ->
  exists ss, grammar d = Some ss /\
    forall nm, In nm (model_names ss) ->
      (exists m, find_model nm (b_models n) = Some m) /\
      (forall m, find_model nm (b_models n) = Some m ->
         map isig_of_inst (m_insts m) = spec_insts nil (body_of nm nil ss)) /\
      (forall m x, find_model nm (b_models n) = Some m -> In x (m_insts m) ->
         exists r, find_model (i_ref x) (b_models n) = Some r).
Proof. exact sound_insts. Qed.
Print Assumptions C18_sound_instances.

(* all clauses: instances, connectivity, library, port directions, undeclared definitions *)
Theorem C18_sound_full_holds : C18_sound_full.
Proof. exact sound_full. Qed.
Print Assumptions C18_sound_full_holds.

(* the connectivity clause spelled out: in a declared model without .blackbox, two pin designators are
   on one wire of the netlist iff the statements of the section attach them to the same net bit, or
   to two net bits that the .conn statements of the section join ([same_bit]: the equivalence they
   generate - reflexive, symmetric, transitive) *)
Theorem C18_sound_nets : forall d n,
  supported d = true -> elab d = Ok n ->
  exists ss, grammar d = Some ss /\
    forall nm m, In nm (model_names ss) -> has_blackbox (body_of nm nil ss) = false ->
      find_model nm (b_models n) = Some m ->
      forall a b, same_wire m a b <->
        exists x y, In (a, x) (spec_attach 0 nil (body_of nm nil ss)) /\
                    In (b, y) (spec_attach 0 nil (body_of nm nil ss)) /\
                    same_bit (spec_conns (body_of nm nil ss)) x y.
Proof. exact sound_nets. Qed.
Print Assumptions C18_sound_nets.

(* the hypotheses hold for a hierarchical document with a declared sub-model, a declared black box,
   buses, unconn, .names, .latch, instance data and a .conn *)
Example C18_sound_full_example : supported doc_hier = true /\ exists n, elab doc_hier = Ok n /\ denote doc_hier n.
Proof. exact sound_full_example. Qed.
Print Assumptions C18_sound_full_example.

(* the supported subset is inhabited by the example documents *)
Example C18_supported_example : supported doc_flat = true /\ supported doc_blackbox = true.
Proof. exact (conj doc_flat_supported doc_blackbox_supported). Qed.
Print Assumptions C18_supported_example.

(* REPAIRED (were C18_sound_refuted_header_gap and C18_sound_refuted_comment_in_info, and the open findings
   header-gap-drops-ports, comment-splits-instance-info, missing-final-end, trailing-comment): the three places where
   the reader peeks at the next line - parse_model_ports, parse_instance_info, the truth-table loop of parse_name -
   look through peek_statement, which reads comment lines, skips blank lines and answers None at the end of the
   file; the tokenizer ends a statement line at a word starting with "#".  Model: cl_hdr / cl_info / cl_rows stay
   in their mode on a comment or blank line, classify_from closes the model at the end of input in every mode
   (SStop is no longer produced); the condition "no # in a statement line" is gone from [supported].
   The two refutation witnesses are supported documents, read as they stand: *)
Example C18_header_gap_repaired :
  supported doc_header_gap = true /\
  exists n m, elab doc_header_gap = Ok n /\ denote doc_header_gap n /\ find_model nm_top (b_models n) = Some m /\
    map (fun q => (p_name q, p_dir q)) (m_ports m) = gap_ports /\ same_wire m pin_a pin_i0.
Proof. exact header_gap_repaired. Qed.
Print Assumptions C18_header_gap_repaired.

Example C18_comment_in_info_repaired :
  supported doc_comment_in_info = true /\
  exists n m, elab doc_comment_in_info = Ok n /\ denote doc_comment_in_info n /\ find_model nm_top (b_models n) = Some m /\
    map i_cname (m_insts m) = u1_names /\ map i_name (m_insts m) = u1_names /\ b_comments n = info_comment.
Proof. exact comment_in_info_repaired. Qed.
Print Assumptions C18_comment_in_info_repaired.

(* comment lines and blank lines at every kind of line boundary (before and between the port lines, inside a
   truth table, between an instance statement and each of its .cname/.attr/.param), no final .end: supported,
   the netlist is what the file denotes, nothing is lost *)
Example C18_gaps_faithful :
  supported doc_gaps = true /\
  exists n m, elab doc_gaps = Ok n /\ denote doc_gaps n /\ find_model nm_top (b_models n) = Some m /\
    map i_cname (m_insts m) = gaps_cnames /\
    map (fun i => length (i_covers i)) (m_insts m) = (2 :: 0 :: nil) /\
    map (fun i => (length (i_attr i), length (i_param i))) (m_insts m) = ((0, 0) :: (1, 1) :: nil) /\
    length (m_ports m) = 4 /\ m_clock m = clock_a /\ m_lib m = LWork /\ length (b_comments n) = 7.
Proof. exact gaps_faithful. Qed.
Print Assumptions C18_gaps_faithful.

(* the end of the file closes the last model: after an instance statement, inside a truth table, in the header
   (before the repair the reader raised StopIteration on the first two) *)
Example C18_no_final_end_faithful :
  forall d, In d (doc_no_end_inst :: doc_no_end_rows :: doc_no_end_hdr :: nil) ->
  supported d = true /\ exists n, elab d = Ok n /\ denote d n /\ b_work n = (nm_top :: nil).
Proof. exact no_final_end_faithful. Qed.
Print Assumptions C18_no_final_end_faithful.

(* the repair in general, on the line classifier of the model: a comment line ("#" c) or a blank line inserted at
   ANY line boundary of an accepted document leaves it accepted, with the same statements and the comment at that
   place - whatever the reader was doing there (header, truth table, instance info, plain statements, outside
   a model); a blank line changes nothing at all of the netlist that is built *)
Theorem C18_comment_lines_transparent : forall d1 d2 l r,
  gap_line l -> classify (d1 ++ d2) = Ok r ->
  exists s1 s2, r = s1 ++ s2 /\ classify (d1 ++ l :: d2) = Ok (s1 ++ gap_stmts l ++ s2).
Proof. exact gap_insertion. Qed.
Print Assumptions C18_comment_lines_transparent.

Theorem C18_blank_line_irrelevant : forall d1 d2 n, elab (d1 ++ d2) = Ok n -> elab (d1 ++ nil :: d2) = Ok n.
Proof. exact blank_line_irrelevant. Qed.
Print Assumptions C18_blank_line_irrelevant.

(* REPAIRED (was the open finding C18-inout-outputs-first, surfaced by the any-order repair): a port named in an
   .outputs line and in a later .inputs line raised AssertionError (pin connected twice).  parse_input_ports now
   mirrors parse_output_ports (model: input_io / do_input): the port becomes INOUT and keeps its pin on its net -
   the same netlist as with the .inputs line first *)
Example C18_inout_outputs_first_repaired :
  exists n m n' m', elab doc_inout_outputs_first = Ok n /\ find_model nm_top (b_models n) = Some m /\
    elab doc_inout_inputs_first = Ok n' /\ find_model nm_top (b_models n') = Some m' /\
    port_dir nm_io m = DInout /\ port_dir nm_io m' = DInout /\
    (forall x, In x (dirs_of m) <-> In x (dirs_of m')) /\
    same_wire m pin_io pin_i0_A /\ same_wire m' pin_io pin_i0_A /\
    length (cable_pins (m_cables m)) = length (cable_pins (m_cables m')).
Proof. exact inout_outputs_first_repaired. Qed.
Print Assumptions C18_inout_outputs_first_repaired.

(* REPAIRED in the code (finding outputs-before-inputs-drops-inputs): .clock, .outputs, .inputs in this order are
   all read, both ports have their direction, the input reaches the gate.  The document stays outside [supported]:
   its conjunct hdr_sorted keeps the order .inputs* .outputs* .clock* (comments and blank lines anywhere), because
   the connectivity proof treats an .inputs line only before the first .outputs line of its section; the
   correspondence run compares model and reader on headers in every order *)
Example C18_outputs_first_reads :
  supported doc_outputs_first = false /\
  exists n m, elab doc_outputs_first = Ok n /\ find_model nm_top (b_models n) = Some m /\
    map (fun q => (p_name q, p_dir q)) (m_ports m) = of_ports /\
    m_clock m = clock_c /\ same_wire m pin_a pin_i0.
Proof. exact outputs_first_reads. Qed.
Print Assumptions C18_outputs_first_reads.

(* REPAIRED (was C18_sound_refuted_conn_capture: a .conn operand spelling the cable name a_0_b_0 that an
   earlier ".conn a b" gave the merged net captured that net).  The witness ".conn a b / .conn a_0_b_0 c" is
   a supported document now and is read as it stands: the port pins a and b share a wire, c sits with
   neither of them, and the model has the five cables the file names (a, b, c, y, a_0_b_0), none invented *)
Example C18_conn_capture_repaired :
  supported doc_conn_capture = true /\
  exists n m, elab doc_conn_capture = Ok n /\ find_model nm_top (b_models n) = Some m /\
    same_wire m pin_a pin_b /\ ~ same_wire m pin_a pin_c /\ ~ same_wire m pin_b pin_c /\
    length (m_cables m) = 5.
Proof. exact conn_capture_repaired. Qed.
Print Assumptions C18_conn_capture_repaired.

(* ... and, being supported, it falls under C18_sound_full_holds: the netlist is what the file denotes *)
Example C18_conn_capture_faithful :
  supported doc_conn_capture = true /\ exists n, elab doc_conn_capture = Ok n /\ denote doc_conn_capture n.
Proof. exact conn_capture_faithful. Qed.
Print Assumptions C18_conn_capture_faithful.

(* REPAIRED (was the open finding C18-names-unconn-substring: parse_name tested `"unconn" in name` on the
   output net of a .names, so a .names driving rx_unconnected or __vpr__unconn3 was given the default name
   logic-gate_<k>_instance_<j> instead of the name of the net it drives; .subckt/.gate/.latch compare with
   the exact word).  A document with such nets as operand and as output of .names, next to the placeholder
   itself, is supported and read faithfully: the instances are called y, __vpr__unconn3, INV_instance_0 and
   logic-gate_1_instance_0 (only the .names whose output IS unconn keeps a default name), open pins are
   recorded for the exact word only (O[0] of the gate, out[0] of the last .names), rx_unconnected sits on
   pin in_1 of the first .names, __vpr__unconn3 joins its port, the output of the second .names and pin I
   of the gate, and the model has the four cables the file names *)
Example C18_names_unconn_substring_repaired :
  supported doc_names_unconn = true /\
  exists n m, elab doc_names_unconn = Ok n /\ find_model nm_top (b_models n) = Some m /\
    denote doc_names_unconn n /\
    map i_name (m_insts m) = names_unconn_inst_names /\
    map i_unconn (m_insts m) = names_unconn_open /\
    same_wire m pin_rx pin_i0_in1 /\ same_wire m pin_vpr pin_i1_out /\ same_wire m pin_vpr pin_i2_I /\
    length (m_cables m) = 4.
Proof. exact names_unconn_substring_repaired. Qed.
Print Assumptions C18_names_unconn_substring_repaired.

(* REPAIRED by the same change (were the open findings conn-before-use and conn-same-net-twice, both excluded
   from [supported] by conns_last / "no cable in two .conn"): ".conn a b" ahead of the statement that uses
   net b, then ".conn b c", then ".conn c a" between two names of what is one net already.  The document is
   supported; the pins a, b, c and the instance pin attached to b share one wire, d has its own, and the
   model has the five cables the file names *)
Example C18_conn_chain_reads :
  supported doc_conn_chain = true /\
  exists n m, elab doc_conn_chain = Ok n /\ find_model nm_top (b_models n) = Some m /\
    same_wire m pin_a pin_c /\ same_wire m pin_b pin_i0 /\ ~ same_wire m pin_a pin_d /\ length (m_cables m) = 5.
Proof. exact conn_chain_reads. Qed.
Print Assumptions C18_conn_chain_reads.

Example C18_conn_chain_faithful :
  supported doc_conn_chain = true /\ exists n, elab doc_conn_chain = Ok n /\ denote doc_conn_chain n.
Proof. exact conn_chain_faithful. Qed.
Print Assumptions C18_conn_chain_faithful.

(* ---- write-then-read ---- *)
Definition C18_full : Prop := C18_roundtrip_statement.
(* = forall d n, elab d = Ok n -> exists n', elab (emit n) = Ok n' /\ equiv n n' *)

Theorem C18_roundtrip_refuted : ~ C18_full.
Proof. exact roundtrip_refuted. Qed.
Print Assumptions C18_roundtrip_refuted.

(* ---- write-then-read on the fragment ---- *)
(* the statement on the fragment (not proved in general; checked case by case, see below) *)
Definition C18_roundtrip_fragment : Prop := C18_roundtrip_on_fragment.
(* = forall d n, elab d = Ok n -> roundtrippable n = true ->
       exists n', elab (emit n) = Ok n' /\ equiv n n' /\ equiv_ports n n' /\ equiv_pins n n' *)

(* the verified checker: when the boolean comparison of a netlist with the re-read of its written file
   succeeds, the written file is accepted and gives a netlist with the same instances by name (kind,
   definition, .attr/.param, truth table, .cname), the same nets as sets of named pins, and the same
   declared ports, for the top model and every non-primitive model below it *)
Theorem C18_roundtrip_checked : forall n,
  rt_check n = true -> exists n', elab (emit n) = Ok n' /\ equiv n n' /\ equiv_ports n n' /\ equiv_pins n n'.
Proof. exact rt_check_sound. Qed.
Print Assumptions C18_roundtrip_checked.

(* the re-read netlist is exactly what the written file says, whenever the written file is a supported
   document (on every roundtrippable netlist of the correspondence runs it is) *)
Theorem C18_reread_faithful : forall n n',
  supported (emit n) = true -> elab (emit n) = Ok n' -> denote (emit n) n'.
Proof. exact reread_faithful. Qed.
Print Assumptions C18_reread_faithful.

Theorem C18_equiv_decided : forall n n', equiv_b n n' = true -> equiv n n' /\ equiv_ports n n' /\ equiv_pins n n'.
Proof. exact equiv_b_sound. Qed.
Print Assumptions C18_equiv_decided.

(* the fragment statement holds on a hierarchical document: declared sub-model with its own .names,
   declared black box with a bus port, unconn, .latch, .cname/.attr/.param, a .conn between inner nets *)
Example C18_roundtrip_hier :
  exists n n', elab doc_hier = Ok n /\ roundtrippable n = true /\ elab (emit n) = Ok n' /\ equiv n n' /\ equiv_ports n n' /\
    equiv_pins n n' /\ length (b_models n) = 5 /\ length (emit n) = 37.
Proof. exact roundtrip_hier. Qed.
Print Assumptions C18_roundtrip_hier.

Example C18_roundtrip_flat :
  exists n n', elab doc_flat = Ok n /\ roundtrippable n = true /\ elab (emit n) = Ok n' /\ equiv n n' /\ equiv_ports n n' /\ equiv_pins n n'.
Proof. exact roundtrip_flat. Qed.
Print Assumptions C18_roundtrip_flat.

(* what the side condition excludes, each class with a netlist on which C18_full fails *)
Theorem C18_roundtrip_excluded_default_names :
  exists n, elab doc_default_names = Ok n /\ roundtrippable n = false /\ ~ exists n', elab (emit n) = Ok n'.
Proof. exact rt_excluded_default_names. Qed.
Print Assumptions C18_roundtrip_excluded_default_names.

(* REPAIRED (was C18_roundtrip_excluded_conn_bus: .conn on a bit of a bus removed that wire, the later wires
   moved down and the written file was rejected).  Wires keep their positions now: the document is inside
   the fragment and round-trips *)
Example C18_roundtrip_conn_bus :
  exists n n', elab doc_conn_bus = Ok n /\ roundtrippable n = true /\ elab (emit n) = Ok n' /\ equiv n n' /\ equiv_ports n n' /\
    equiv_pins n n'.
Proof. exact roundtrip_conn_bus. Qed.
Print Assumptions C18_roundtrip_conn_bus.

Theorem C18_roundtrip_excluded_conn_port_net :
  exists n n', elab doc_conn_port_net = Ok n /\ roundtrippable n = false /\ elab (emit n) = Ok n' /\ ~ equiv n n'.
Proof. exact rt_excluded_conn_port_net. Qed.
Print Assumptions C18_roundtrip_excluded_conn_port_net.

Theorem C18_roundtrip_excluded_top_primitive :
  exists n n', elab doc_top_primitive = Ok n /\ roundtrippable n = false /\ elab (emit n) = Ok n' /\ ~ equiv n n'.
Proof. exact rt_excluded_top_primitive. Qed.
Print Assumptions C18_roundtrip_excluded_top_primitive.

(* ---- write-then-read, proved in general clause by clause ---- *)
(* the reader's own segmentation and the grammar agree on the written file, and both give the
   statements the writer emitted: no line of a written file is skipped, split or read in another mode *)
Theorem C18_written_file_segmented : forall n,
  roundtrippable n = true -> classify (emit n) = Ok (stmts_of n) /\ grammar (emit n) = Some (stmts_of n).
Proof. exact written_file_segmented. Qed.
Print Assumptions C18_written_file_segmented.

(* in every netlist the reader returns, an instance carrying a .cname is called by it *)
Theorem C18_cname_is_name : forall d n m i c,
  elab d = Ok n -> In m (b_models n) -> In i (m_insts m) -> i_cname i = Some c -> i_name i = Some c.
Proof. intros d n m i c H Hm Hi. exact (elab_CN d n H m Hm i Hi c). Qed.
Print Assumptions C18_cname_is_name.

(* the instances clause: for a roundtrippable netlist the reader returned, whose written file is a
   supported document and is accepted, every model the writer wrote exists after re-reading and has the
   same instances by name - kind, definition, .attr, .param, truth table, and the .cname it had *)
Theorem C18_roundtrip_instances : forall d n n',
  elab d = Ok n -> roundtrippable n = true -> supported (emit n) = true -> elab (emit n) = Ok n' ->
  forall nm, In nm (written_names n) ->
    exists m', find_model nm (b_models n') = Some m' /\
      (forall x i, inst_named (get_model nm (b_models n)) x i -> exists j, inst_named m' x j /\ same_data i j) /\
      (forall x j, inst_named m' x j -> exists i, inst_named (get_model nm (b_models n)) x i /\ same_data i j).
Proof. exact rt_instances_fragment. Qed.
Print Assumptions C18_roundtrip_instances.

(* its hypotheses hold for the hierarchical example *)
Example C18_roundtrip_instances_example :
  exists n n', elab doc_hier = Ok n /\ roundtrippable n = true /\ supported (emit n) = true /\ elab (emit n) = Ok n' /\
    length (written_names n) = 2.
Proof. exact rt_instances_example. Qed.
Print Assumptions C18_roundtrip_instances_example.
