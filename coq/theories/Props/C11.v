(* C11 - Hierarchical references enumerate each occurrence exactly once and are canonical.
   Property theorems only; each is closed by [exact] of a lemma proved under Proofs/Hier*.v.

   References are values (list of ids, item first, top instance last), so "two references to the
   same path are the same object with equal hash" has no counterpart here: it is a runtime residue
   of the weak flyweight table and is checked on the implementation only (harness/hier_check.py,
   `is` and hash()).

   WF s = Inv1a s (C01 containment) /\ Inv2a s (C02 reference sets) /\ WFk s (ids well-kinded and
   allocated) /\ acyclic s (no definition instantiates itself). is_rpath s t p: p is an instance
   path below t - each next instance is a child of the previous instance's reference definition. *)
From Coq Require Import List Arith Bool.
From SV Require Import Base.Base IR.State IR.NS IR.Ops Proofs.Inv1a Proofs.Inv2a Proofs.C01_lemmas
  Hier.Paths Hier.Enum Proofs.HierValid Proofs.HierEnum Proofs.HierC11 Proofs.HierOcc Proofs.HierOccItem
  Proofs.HierUniq Proofs.HierName.
Import ListNotations.

(* ---- the recursive instance enumeration returns exactly the paths below the top, each once ---- *)
Theorem C11_enum_instances_sound : forall s n t l p, WF s -> top s n = Some t ->
  get_hinstances_netlist s n true = Some l -> In p l -> is_rpath s t p /\ p <> [t].
Proof. exact enum_instances_sound. Qed.
Print Assumptions C11_enum_instances_sound.

Theorem C11_enum_instances_complete : forall s n t l p, WF s -> top s n = Some t ->
  get_hinstances_netlist s n true = Some l -> is_rpath s t p -> p <> [t] -> In p l.
Proof. exact enum_instances_complete. Qed.
Print Assumptions C11_enum_instances_complete.

Theorem C11_enum_instances_nodup : forall s n t l, WF s -> top s n = Some t ->
  get_hinstances_netlist s n true = Some l -> NoDup l.
Proof. exact enum_instances_nodup. Qed.
Print Assumptions C11_enum_instances_nodup.

(* the three in one, together with termination: the fuel the model gives the walk (number of
   allocated ids + 1) is enough in every acyclic heap *)
Theorem C11_enum_instances : forall s n t,
  Inv1a s -> WFk s -> acyclic s -> top s n = Some t ->
  exists l, get_hinstances_netlist s n true = Some l /\ NoDup l /\
            (forall p, In p l <-> (is_rpath s t p /\ p <> [t])).
Proof. exact enum_instances_spec. Qed.
Print Assumptions C11_enum_instances.

Theorem C11_fuel_sufficient : forall s keep t, WFk s -> acyclic s ->
  walk s keep (depth_fuel s) [t] <> None.
Proof. exact walk_fuel_sufficient. Qed.
Print Assumptions C11_fuel_sufficient.

Theorem C11_enum_instances_nonrecursive : forall s n t,
  Inv1a s -> top s n = Some t ->
  exists l, get_hinstances_netlist s n false = Some l /\ NoDup l /\
            (forall p, In p l <-> exists c, child s c t /\ p = [c; t]).
Proof. exact enum_instances_nonrec_spec. Qed.
Print Assumptions C11_enum_instances_nonrecursive.

(* ---- per port / pin / cable / wire occurrence (recursive on and off) ---- *)
Theorem C11_enum_ports : forall s n t,
  Inv1a s -> WFk s -> acyclic s -> top s n = Some t -> is_valid s [t] = true ->
  exists l, get_hports_netlist s n true = Some l /\ NoDup l /\
    (forall h, In h l <-> exists q x p, h = q :: x :: p /\ is_rpath s t (x :: p) /\ In q (ports_of s x)).
Proof. exact enum_ports_spec. Qed.
Print Assumptions C11_enum_ports.

Theorem C11_enum_pins : forall s n t,
  Inv1a s -> WFk s -> acyclic s -> top s n = Some t -> is_valid s [t] = true ->
  exists l, get_hpins_netlist s n true = Some l /\ NoDup l /\
    (forall h, In h l <-> exists i q x p, h = i :: q :: x :: p /\ is_rpath s t (x :: p) /\
                                         In q (ports_of s x) /\ In i (kids s RPins q)).
Proof. exact enum_pins_spec. Qed.
Print Assumptions C11_enum_pins.

Theorem C11_enum_cables : forall s n t,
  Inv1a s -> WFk s -> acyclic s -> top s n = Some t -> is_valid s [t] = true ->
  exists l, get_hcables_netlist s n true = Some l /\ NoDup l /\
    (forall h, In h l <-> exists c x p, h = c :: x :: p /\ is_rpath s t (x :: p) /\ In c (cables_of s x)).
Proof. exact enum_cables_spec. Qed.
Print Assumptions C11_enum_cables.

Theorem C11_enum_wires : forall s n t,
  Inv1a s -> WFk s -> acyclic s -> top s n = Some t -> is_valid s [t] = true ->
  exists l, get_hwires_netlist s n true = Some l /\ NoDup l /\
    (forall h, In h l <-> exists w c x p, h = w :: c :: x :: p /\ is_rpath s t (x :: p) /\
                                         In c (cables_of s x) /\ In w (kids s RWires c)).
Proof. exact enum_wires_spec. Qed.
Print Assumptions C11_enum_wires.

Theorem C11_enum_ports_nonrecursive : forall s n t,
  Inv1a s -> top s n = Some t -> is_valid s [t] = true ->
  exists l, get_hports_netlist s n false = Some l /\ NoDup l /\
    (forall h, In h l <-> exists q, h = [q; t] /\ In q (ports_of s t)).
Proof. exact enum_ports_nonrec_spec. Qed.
Print Assumptions C11_enum_ports_nonrecursive.

Theorem C11_enum_wires_nonrecursive : forall s n t,
  Inv1a s -> top s n = Some t -> is_valid s [t] = true ->
  exists l, get_hwires_netlist s n false = Some l /\ NoDup l /\
    (forall h, In h l <-> exists w c, h = [w; c; t] /\ In c (cables_of s t) /\ In w (kids s RWires c)).
Proof. exact enum_wires_nonrec_spec. Qed.
Print Assumptions C11_enum_wires_nonrecursive.

(* ---- a reference reports valid in agreement with the current netlist, after any edit ---- *)
(* in ANY heap (no hypothesis): is_valid decides the reference relation as read through the back
   pointers item.parent / .definition / .cable / .port and Definition.references *)
Theorem C11_is_valid_any_state : forall s h, is_valid s h = true <-> is_href_up s h.
Proof. exact is_valid_iff_up. Qed.
Print Assumptions C11_is_valid_any_state.

(* when containers and back pointers agree, that is the occurrence relation read downwards *)
Theorem C11_is_valid_iff : forall s h, Inv1a s -> Inv2a s -> WFk s ->
  (is_valid s h = true <-> is_href s h).
Proof. exact is_valid_iff. Qed.
Print Assumptions C11_is_valid_iff.

(* ... which is the case after every history of API calls *)
Theorem C11_is_valid_after_any_history : forall ops h,
  never_stuck ops init -> WFk (run ops init) ->
  (is_valid (run ops init) h = true <-> is_href (run ops init) h).
Proof. exact is_valid_after_any_history. Qed.
Print Assumptions C11_is_valid_after_any_history.

Theorem C11_enumerated_instances_are_valid : forall s n t l p, WF s -> top s n = Some t -> is_root s t ->
  get_hinstances_netlist s n true = Some l -> In p l -> is_valid s p = true.
Proof. exact enum_instances_valid. Qed.
Print Assumptions C11_enumerated_instances_are_valid.

(* the hypotheses are satisfiable *)
Example C11_hypotheses_satisfiable :
  exists s, WF s /\ exists n t, top s n = Some t /\ is_root s t /\ sub s t <> [].
Proof. exact WF_satisfiable. Qed.

Example C11_valid_reference_example :
  exists s h, Inv1a s /\ Inv2a s /\ WFk s /\ is_valid s h = true /\ length h = 3.
Proof. exact is_valid_example. Qed.

(* ------------------------------------------------------------------------------------------ *)
(* ---- occurrences of an element: HRef.get_all_hrefs_of_item / get_all_hrefs_of_instances ---- *)

(* the kernel: for ANY collection of instances, the upward marking + downward search from every top
   instance the marking has reached terminates with the fuel it is given and returns, without
   duplicates, exactly the valid instance paths (below the top instance of whichever netlist) that
   end in one of the instances. Nothing is assumed about what the instances reference: the top
   instances are found from where the instances sit. *)
Theorem C11_hrefs_of_instances : forall s insts,
  Inv1a s -> Inv2a s -> WFk s -> acyclic s ->
  exists l, hrefs_of_instances s insts = Some l /\ NoDup l /\
            (forall p, In p l <-> ((exists t, is_path s t p) /\ exists x, hd_error p = Some x /\ In x insts)).
Proof. exact hrefs_of_instances_spec. Qed.
Print Assumptions C11_hrefs_of_instances.

(* the same kernel with a netlist handed in (second argument of get_all_hrefs_of_instances): exactly
   the instance paths below the top instance of THAT netlist that end in one of the instances *)
Theorem C11_hrefs_of_instances_in_netlist : forall s insts n t,
  Inv1a s -> Inv2a s -> WFk s -> acyclic s -> top s n = Some t ->
  exists l, hrefs_of_instances_in s insts n = Some l /\ NoDup l /\
            (forall p, In p l <-> (is_rpath s t p /\ exists x, hd_error p = Some x /\ In x insts)).
Proof. exact hrefs_of_instances_in_spec. Qed.
Print Assumptions C11_hrefs_of_instances_in_netlist.

(* asking for the occurrences of an element returns exactly the references that end in it, each
   once - in every well-formed heap, for every instance (with or without a reference), port, pin,
   cable and wire (whether or not the owning definition is in a library), over all netlists *)
Definition C11_occurrences : Prop := forall s e l,
  WF s ->
  (kind_of s e = Some KInstance \/ kind_of s e = Some KPort \/ kind_of s e = Some KPin \/
   kind_of s e = Some KCable \/ kind_of s e = Some KWire) ->
  hrefs_of_item s (QId e) = Some l ->
  NoDup l /\ (forall h, In h l <-> occ s e h).

Theorem C11_occurrences_holds : C11_occurrences.
Proof.
  intros s e l W K E. destruct (occ_item s W e K) as (l' & E' & N & S).
  rewrite E in E'. inversion E'; subst l'. split; assumption.
Qed.
Print Assumptions C11_occurrences_holds.

(* ... and the query answers (never runs out of fuel, never dereferences None) *)
Theorem C11_occurrences_total : forall s e,
  WF s ->
  (kind_of s e = Some KInstance \/ kind_of s e = Some KPort \/ kind_of s e = Some KPin \/
   kind_of s e = Some KCable \/ kind_of s e = Some KWire) ->
  exists l, hrefs_of_item s (QId e) = Some l /\ NoDup l /\ (forall h, In h l <-> occ s e h).
Proof. intros s e W. exact (occ_item s W e). Qed.
Print Assumptions C11_occurrences_total.

(* the statement as first written (one netlist n with top instance t below which every occurrence
   hangs; for an instance: its reference is a definition of n). It was FALSE of the code before the
   repair of get_all_hrefs_of_instances, which looked the netlist up through
   reference.library.netlist of the first instance (findings C11-definition-outside-library and
   C11-instance-without-reference); it is now an instance of C11_occurrences_holds - none of its
   hypotheses about n and t is needed. *)
Definition C11_occurrences_full : Prop := forall s n t e l,
  WF s -> top s n = Some t -> is_root s t ->
  (kind_of s e = Some KInstance \/ kind_of s e = Some KPort \/ kind_of s e = Some KPin \/
   kind_of s e = Some KCable \/ kind_of s e = Some KWire) ->
  (kind_of s e = Some KInstance -> root_netlist s e = Some n) ->
  (forall h, occ s e h -> exists p, is_path s t p /\ exists q, h = q ++ p) ->
  hrefs_of_item s (QId e) = Some l ->
  NoDup l /\ (forall h, In h l <-> occ s e h).

Theorem C11_occurrences_full_holds : C11_occurrences_full.
Proof. intros s n t e l W _ _ K _ _ E. exact (C11_occurrences_holds s e l W K E). Qed.
Print Assumptions C11_occurrences_full_holds.

(* the former witnesses, now answered: a port of a definition that was never added to a library
   (instantiated below the top), and an instance without a reference *)
Example C11_occurrences_outside_library :
  WF w_state /\ owner_def w_state 4 = Some 3 /\ def_netlist w_state 3 = None /\ drefs w_state 3 = [5] /\
  occ w_state 4 [4; 5; 6] /\
  hrefs_of_item w_state (QId 4) = Some [[4; 5; 6]] /\
  hrefs_of_item w_state (QId 5) = Some [[5; 6]].
Proof. exact occurrences_outside_library. Qed.

Example C11_occurrences_without_reference :
  never_stuck nr_ops init /\ kind_of nr_state 3 = Some KInstance /\ iref nr_state 3 = None /\
  is_valid nr_state [3; 4] = true /\
  get_hinstances_netlist nr_state 0 true = Some [[3; 4]] /\
  hrefs_of_item nr_state (QId 3) = Some [[3; 4]].
Proof. exact occurrences_without_reference. Qed.

(* "every occurrence hangs below t" (a hypothesis of the uniqueness theorems below) holds in
   particular when t is the only top instance of the heap *)
Theorem C11_single_top_under : forall s t e, (forall t', is_root s t' -> t' = t) ->
  forall h, occ s e h -> exists p, is_path s t p /\ exists q, h = q ++ p.
Proof. exact under_single_root. Qed.
Print Assumptions C11_single_top_under.

(* a definition: the valid instance paths that end in one of its instances *)
Theorem C11_occurrences_of_definition : forall s d,
  WF s -> kind_of s d = Some KDefinition ->
  exists l, hrefs_of_item s (QId d) = Some l /\ NoDup l /\
            (forall p, In p l <-> exists x p' t, p = x :: p' /\ is_path s t p /\ iref s x = Some d).
Proof. intros s d W. exact (occ_definition s W d). Qed.
Print Assumptions C11_occurrences_of_definition.

(* an outer pin (instance x, inner pin i of port q): one pin reference per occurrence of x; they are
   valid references when q is a port of the definition x references *)
Theorem C11_occurrences_of_outer_pin : forall s x i q,
  WF s -> par s RPins i = Some q ->
  exists l, hrefs_of_item s (QOuter x i) = Some l /\ NoDup l /\
            (forall h, In h l <-> exists p' t, h = i :: q :: x :: p' /\ is_path s t (x :: p')).
Proof. intros s x i q W. exact (occ_outer_pin s W x i q). Qed.
Print Assumptions C11_occurrences_of_outer_pin.

Theorem C11_outer_pin_references_valid : forall s t x i q p',
  WF s -> par s RPins i = Some q -> In q (ports_of s x) -> is_path s t (x :: p') ->
  is_href s (i :: q :: x :: p').
Proof. intros s t x i q p' W. exact (outer_pin_refs_valid s W t x i q p'). Qed.
Print Assumptions C11_outer_pin_references_valid.

Example C11_occurrences_hypotheses_satisfiable :
  exists s e l, WF s /\ kind_of s e = Some KPin /\
    hrefs_of_item s (QId e) = Some l /\ l = [[5; 4; 6; 7]].
Proof. exact occ_item_example. Qed.

(* ------------------------------------------------------------------------------------------ *)
(* ---- is_unique ---- *)

(* the statement as first written: unique exactly when the deepest instance of the reference has a
   single occurrence. FALSE of the model and of the code (C11_unique_full_refuted): occurrences
   below the top instance of ANOTHER netlist (which instantiates a definition of this one) are
   not seen by the climb, which only looks for instances of the path itself. *)
Definition C11_unique_full : Prop := forall s h x rest,
  WF s -> is_href s h -> chain_instances s h = x :: rest ->
  is_unique s (depth_fuel s) h = Some true <->
  (forall p1 p2, occ s x p1 -> occ s x p2 -> p1 = p2).

Theorem C11_unique_full_refuted : ~ C11_unique_full.
Proof. exact unique_full_refuted. Qed.
Print Assumptions C11_unique_full_refuted.

(* what is_unique decides, without further hypothesis: the instance path of the reference is the
   only instance path from ITS OWN top instance t to its deepest instance x *)
Theorem C11_unique_paths : forall s h x rest, WF s -> is_href s h -> chain_instances s h = x :: rest ->
  exists t pre, h = pre ++ [t] /\ is_root s t /\
    (is_unique s (depth_fuel s) h = Some true <->
     forall p1 p2, is_rpath s t p1 -> is_rpath s t p2 ->
                   hd_error p1 = Some x -> hd_error p2 = Some x -> p1 = p2).
Proof. exact unique_paths. Qed.
Print Assumptions C11_unique_paths.

(* the corrected statement: when every occurrence of x hangs below the top instance t of the
   reference (one netlist), unique = "x occurs once in the elaborated design" *)
Definition C11_unique_corrected : Prop := forall s h x rest t pre,
  WF s -> is_href s h -> chain_instances s h = x :: rest -> h = pre ++ [t] ->
  (forall h', occ s x h' -> exists p, is_path s t p /\ exists q, h' = q ++ p) ->
  (is_unique s (depth_fuel s) h = Some true <->
   forall p1 p2, occ s x p1 -> occ s x p2 -> p1 = p2).

Theorem C11_unique_holds : C11_unique_corrected.
Proof. exact unique_occ. Qed.
Print Assumptions C11_unique_holds.

(* is_unique always answers (the climbs never run out of the fuel they are given) *)
Theorem C11_is_unique_total : forall s h, WF s -> is_unique s (depth_fuel s) h <> None.
Proof. intros s h W. exact (is_unique_total s W h). Qed.
Print Assumptions C11_is_unique_total.

(* the wording of the property: every instance along the path sits in a definition instantiated
   once => unique. The converse fails even inside one netlist (a second instantiation in a
   definition that nothing instantiates is ignored): C11_unique_not_only_if. *)
Theorem C11_unique_when_single : forall s h, WF s -> is_href s h ->
  (forall c d, In c (chain_instances s h) -> par s RChildren c = Some d -> length (drefs s d) <= 1) ->
  is_unique s (depth_fuel s) h = Some true.
Proof. exact unique_when_single. Qed.
Print Assumptions C11_unique_when_single.

Example C11_unique_not_only_if :
  let s := run v_ops init in
  never_stuck v_ops init /\ is_valid s [6; 5; 8] = true /\
  is_unique s (depth_fuel s) [6; 5; 8] = Some true /\
  par s RChildren 6 = Some 3 /\ length (drefs s 3) = 2.
Proof. exact unique_not_only_if. Qed.

Example C11_unique_hypotheses_satisfiable :
  exists s h x rest t pre, WF s /\ is_href s h /\ chain_instances s h = x :: rest /\ h = pre ++ [t] /\
    under s t x /\ is_unique s (depth_fuel s) h = Some true /\ length h = 3.
Proof. exact unique_occ_example. Qed.

(* ------------------------------------------------------------------------------------------ *)
(* ---- name ---- *)

(* name: slash-joined names of the chain below the top, plus [index] for members of array bundles *)
Definition C11_name_full : Prop := forall s h t p,
  WF s -> is_path s t (p ++ [t]) -> h = p ++ [t] ->
  (forall x, In x p -> exists nm, name_get s x = Some nm) ->
  href_name s h = join_names (map (name_get s) (rev p)).

Theorem C11_name_holds : C11_name_full.
Proof. intros s h t p W Hp Eh _. exact (name_instance_path s h t p W Hp Eh). Qed.
Print Assumptions C11_name_holds.

(* ... and then the code does not raise *)
Theorem C11_name_never_raises : forall s h t p,
  WF s -> is_path s t (p ++ [t]) -> h = p ++ [t] ->
  (forall x, In x p -> exists nm, name_get s x = Some nm) ->
  exists nm, href_name s h = Some nm.
Proof. exact name_never_raises. Qed.
Print Assumptions C11_name_never_raises.

Theorem C11_name_port_cable : forall s q p t,
  kind_of s q = Some KPort \/ kind_of s q = Some KCable ->
  href_name s (q :: p ++ [t]) = join_names (map (name_get s) (rev (q :: p))).
Proof. exact name_port_cable. Qed.
Print Assumptions C11_name_port_cable.

(* a wire (pin): the name of its cable (port) reference, plus "[lower_index + position]" when the
   bundle is an array; the bundle look-up of the code cannot fail *)
Theorem C11_name_wire : forall s w c p t, Inv1a s ->
  kind_of s w = Some KWire -> In w (kids s RWires c) ->
  exists k, nth_error (kids s RWires c) k = Some w /\
    href_name s (w :: c :: p ++ [t]) =
    with_suffix (join_names (map (name_get s) (rev (c :: p)))) (index_text s RWires c k).
Proof. exact name_wire. Qed.
Print Assumptions C11_name_wire.

Theorem C11_name_pin : forall s i q p t, Inv1a s ->
  kind_of s i = Some KPin -> In i (kids s RPins q) ->
  exists k, nth_error (kids s RPins q) k = Some i /\
    href_name s (i :: q :: p ++ [t]) =
    with_suffix (join_names (map (name_get s) (rev (q :: p)))) (index_text s RPins q k).
Proof. exact name_pin. Qed.
Print Assumptions C11_name_pin.

Example C11_name_example :
  (is_valid n_state [6; 4; 7; 8] = true) /\
  (href_name n_state [6; 4; 7; 8] = Some n_wire_name) /\      (* "u1/bus[1]" *)
  (href_name n_state [4; 7; 8] = Some n_cable_name) /\        (* "u1/bus" *)
  (href_name n_state [7; 8] = Some n_inst_name) /\ (href_name n_state [8] = Some []).
Proof. exact name_example. Qed.

(* ------------------------------------------------------------------------------------------ *)
(* ---- the property as a whole ---- *)

(* as first written: its occurrence clause now holds (C11_occurrences_full_holds); it is still
   refuted through its uniqueness clause (cross-netlist instantiation, see C11_unique_full) *)
Definition C11_full : Prop :=
  (forall s n t, Inv1a s -> WFk s -> acyclic s -> top s n = Some t ->
     exists l, get_hinstances_netlist s n true = Some l /\ NoDup l /\
               (forall p, In p l <-> (is_rpath s t p /\ p <> [t])))
  /\ (forall s h, Inv1a s -> Inv2a s -> WFk s -> (is_valid s h = true <-> is_href s h))
  /\ C11_occurrences_full /\ C11_unique_full /\ C11_name_full.

Theorem C11_full_refuted : ~ C11_full.
Proof. intros (_ & _ & _ & H & _). exact (C11_unique_full_refuted H). Qed.
Print Assumptions C11_full_refuted.

(* with the occurrence clause at full strength (no hypothesis beyond WF) and the corrected
   uniqueness clause: proved *)
Definition C11_corrected : Prop :=
  (forall s n t, Inv1a s -> WFk s -> acyclic s -> top s n = Some t ->
     exists l, get_hinstances_netlist s n true = Some l /\ NoDup l /\
               (forall p, In p l <-> (is_rpath s t p /\ p <> [t])))
  /\ (forall s h, Inv1a s -> Inv2a s -> WFk s -> (is_valid s h = true <-> is_href s h))
  /\ C11_occurrences /\ C11_unique_corrected /\ C11_name_full.

Theorem C11_corrected_holds : C11_corrected.
Proof.
  split; [exact enum_instances_spec|]. split; [exact is_valid_iff|].
  split; [exact C11_occurrences_holds|]. split; [exact C11_unique_holds|exact C11_name_holds].
Qed.
Print Assumptions C11_corrected_holds.
