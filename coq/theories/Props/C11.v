(* C11 - Hierarchical references enumerate each occurrence exactly once and are canonical.
   Property theorems only; each is closed by [exact] of a lemma proved under Proofs/Hier*.v.

   References are values (list of ids, item first, top instance last), so "two references to the
   same path are the same object with equal hash" has no counterpart here: it is a runtime residue
   of the weak flyweight table and is checked on the implementation only (harness/hier_check.py,
   `is` and hash()).

   WF s = Inv1a s (C01 containment) /\ Inv2a s (C02 reference sets) /\ WFk s (ids well-kinded and
   allocated) /\ acyclic s (no definition instantiates itself). is_rpath s t p: p is an instance
   path below t - each next instance is a child of the previous instance's reference definition. *)
From Coq Require Import List Arith Bool.
From SV Require Import Base.Base IR.State IR.NS IR.Ops Proofs.Inv1a Proofs.Inv2a Proofs.C01_lemmas
  Hier.Paths Hier.Enum Proofs.HierValid Proofs.HierEnum Proofs.HierC11.
Import ListNotations.

(* ---- the recursive instance enumeration returns exactly the paths below the top, each once ---- *)
Theorem C11_enum_instances_sound : forall s n t l p, WF s -> top s n = Some t ->
  get_hinstances_netlist s n true = Some l -> In p l -> is_rpath s t p /\ p <> [t].
Proof. exact enum_instances_sound. Qed.
Print Assumptions C11_enum_instances_sound.

Theorem C11_enum_instances_complete : forall s n t l p, WF s -> top s n = Some t ->
  get_hinstances_netlist s n true = Some l -> is_rpath s t p -> p <> [t] -> In p l.
Proof. exact enum_instances_complete. Qed.
Print Assumptions C11_enum_instances_complete.

Theorem C11_enum_instances_nodup : forall s n t l, WF s -> top s n = Some t ->
  get_hinstances_netlist s n true = Some l -> NoDup l.
Proof. exact enum_instances_nodup. Qed.
Print Assumptions C11_enum_instances_nodup.

(* the three in one, together with termination: the fuel the model gives the walk (number of
   allocated ids + 1) is enough in every acyclic heap *)
Theorem C11_enum_instances : forall s n t,
  Inv1a s -> WFk s -> acyclic s -> top s n = Some t ->
  exists l, get_hinstances_netlist s n true = Some l /\ NoDup l /\
            (forall p, In p l <-> (is_rpath s t p /\ p <> [t])).
Proof. exact enum_instances_spec. Qed.
Print Assumptions C11_enum_instances.

Theorem C11_fuel_sufficient : forall s keep t, WFk s -> acyclic s ->
  walk s keep (depth_fuel s) [t] <> None.
Proof. exact walk_fuel_sufficient. Qed.
Print Assumptions C11_fuel_sufficient.

Theorem C11_enum_instances_nonrecursive : forall s n t,
  Inv1a s -> top s n = Some t ->
  exists l, get_hinstances_netlist s n false = Some l /\ NoDup l /\
            (forall p, In p l <-> exists c, child s c t /\ p = [c; t]).
Proof. exact enum_instances_nonrec_spec. Qed.
Print Assumptions C11_enum_instances_nonrecursive.

(* ---- per port / pin / cable / wire occurrence (recursive on and off) ---- *)
Theorem C11_enum_ports : forall s n t,
  Inv1a s -> WFk s -> acyclic s -> top s n = Some t -> is_valid s [t] = true ->
  exists l, get_hports_netlist s n true = Some l /\ NoDup l /\
    (forall h, In h l <-> exists q x p, h = q :: x :: p /\ is_rpath s t (x :: p) /\ In q (ports_of s x)).
Proof. exact enum_ports_spec. Qed.
Print Assumptions C11_enum_ports.

Theorem C11_enum_pins : forall s n t,
  Inv1a s -> WFk s -> acyclic s -> top s n = Some t -> is_valid s [t] = true ->
  exists l, get_hpins_netlist s n true = Some l /\ NoDup l /\
    (forall h, In h l <-> exists i q x p, h = i :: q :: x :: p /\ is_rpath s t (x :: p) /\
                                         In q (ports_of s x) /\ In i (kids s RPins q)).
Proof. exact enum_pins_spec. Qed.
Print Assumptions C11_enum_pins.

Theorem C11_enum_cables : forall s n t,
  Inv1a s -> WFk s -> acyclic s -> top s n = Some t -> is_valid s [t] = true ->
  exists l, get_hcables_netlist s n true = Some l /\ NoDup l /\
    (forall h, In h l <-> exists c x p, h = c :: x :: p /\ is_rpath s t (x :: p) /\ In c (cables_of s x)).
Proof. exact enum_cables_spec. Qed.
Print Assumptions C11_enum_cables.

Theorem C11_enum_wires : forall s n t,
  Inv1a s -> WFk s -> acyclic s -> top s n = Some t -> is_valid s [t] = true ->
  exists l, get_hwires_netlist s n true = Some l /\ NoDup l /\
    (forall h, In h l <-> exists w c x p, h = w :: c :: x :: p /\ is_rpath s t (x :: p) /\
                                         In c (cables_of s x) /\ In w (kids s RWires c)).
Proof. exact enum_wires_spec. Qed.
Print Assumptions C11_enum_wires.

Theorem C11_enum_ports_nonrecursive : forall s n t,
  Inv1a s -> top s n = Some t -> is_valid s [t] = true ->
  exists l, get_hports_netlist s n false = Some l /\ NoDup l /\
    (forall h, In h l <-> exists q, h = [q; t] /\ In q (ports_of s t)).
Proof. exact enum_ports_nonrec_spec. Qed.
Print Assumptions C11_enum_ports_nonrecursive.

Theorem C11_enum_wires_nonrecursive : forall s n t,
  Inv1a s -> top s n = Some t -> is_valid s [t] = true ->
  exists l, get_hwires_netlist s n false = Some l /\ NoDup l /\
    (forall h, In h l <-> exists w c, h = [w; c; t] /\ In c (cables_of s t) /\ In w (kids s RWires c)).
Proof. exact enum_wires_nonrec_spec. Qed.
Print Assumptions C11_enum_wires_nonrecursive.

(* ---- a reference reports valid in agreement with the current netlist, after any edit ---- *)
(* in ANY heap (no hypothesis): is_valid decides the reference relation as read through the back
   pointers item.parent / .definition / .cable / .port and Definition.references *)
Theorem C11_is_valid_any_state : forall s h, is_valid s h = true <-> is_href_up s h.
Proof. exact is_valid_iff_up. Qed.
Print Assumptions C11_is_valid_any_state.

(* when containers and back pointers agree, that is the occurrence relation read downwards *)
Theorem C11_is_valid_iff : forall s h, Inv1a s -> Inv2a s -> WFk s ->
  (is_valid s h = true <-> is_href s h).
Proof. exact is_valid_iff. Qed.
Print Assumptions C11_is_valid_iff.

(* ... which is the case after every history of API calls *)
Theorem C11_is_valid_after_any_history : forall ops h,
  never_stuck ops init -> WFk (run ops init) ->
  (is_valid (run ops init) h = true <-> is_href (run ops init) h).
Proof. exact is_valid_after_any_history. Qed.
Print Assumptions C11_is_valid_after_any_history.

Theorem C11_enumerated_instances_are_valid : forall s n t l p, WF s -> top s n = Some t -> is_root s t ->
  get_hinstances_netlist s n true = Some l -> In p l -> is_valid s p = true.
Proof. exact enum_instances_valid. Qed.
Print Assumptions C11_enumerated_instances_are_valid.

(* the hypotheses are satisfiable *)
Example C11_hypotheses_satisfiable :
  exists s, WF s /\ exists n t, top s n = Some t /\ is_root s t /\ sub s t <> [].
Proof. exact WF_satisfiable. Qed.

Example C11_valid_reference_example :
  exists s h, Inv1a s /\ Inv2a s /\ WFk s /\ is_valid s h = true /\ length h = 3.
Proof. exact is_valid_example. Qed.

(* ---- not proved in Coq (checked by the correspondence run and the independent path enumeration
        of harness/hier_oracles.py on every generated netlist): ---- *)

(* asking for the occurrences of an element returns exactly the references that end in it
   (HRef.get_all_hrefs_of_item: upward bound set, downward search); the code assumes that the
   instances it is handed have a reference inside the netlist *)
Definition C11_occurrences_full : Prop := forall s n t e l,
  WF s -> top s n = Some t -> is_root s t ->
  (kind_of s e = Some KInstance \/ kind_of s e = Some KPort \/ kind_of s e = Some KPin \/
   kind_of s e = Some KCable \/ kind_of s e = Some KWire) ->
  (kind_of s e = Some KInstance -> root_netlist s e = Some n) ->
  (forall h, occ s e h -> exists p, is_path s t p /\ exists q, h = q ++ p) ->
  hrefs_of_item s (QId e) = Some l ->
  NoDup l /\ (forall h, In h l <-> occ s e h).

(* is_unique: valid, and the deepest instance of the reference has exactly one occurrence *)
Definition C11_unique_full : Prop := forall s h x rest,
  WF s -> is_href s h -> chain_instances s h = x :: rest ->
  is_unique s (depth_fuel s) h = Some true <->
  (forall p1 p2, occ s x p1 -> occ s x p2 -> p1 = p2).

(* name: slash-joined names of the chain below the top, plus [index] for members of array bundles *)
Definition C11_name_full : Prop := forall s h t p,
  WF s -> is_path s t (p ++ [t]) -> h = p ++ [t] ->
  (forall x, In x p -> exists nm, name_get s x = Some nm) ->
  href_name s h = join_names (map (name_get s) (rev p)).

Definition C11_full : Prop :=
  (forall s n t, Inv1a s -> WFk s -> acyclic s -> top s n = Some t ->
     exists l, get_hinstances_netlist s n true = Some l /\ NoDup l /\
               (forall p, In p l <-> (is_rpath s t p /\ p <> [t])))
  /\ (forall s h, Inv1a s -> Inv2a s -> WFk s -> (is_valid s h = true <-> is_href s h))
  /\ C11_occurrences_full /\ C11_unique_full /\ C11_name_full.
