(* C02 - Instances mirror their definition: reference sets and outer pins track all edits.
   Property theorems only. *)
From Coq Require Import List.
From SV Require Import Base.Base IR.State IR.NS IR.Ops Proofs.Inv2a Proofs.InvP Proofs.InvW Proofs.C01_full.

(* at every prefix of every history (any ops, arguments, outcomes) ... *)
Theorem C02_reachable : forall ops, Inv (run ops init).
Proof. exact reachable_inv. Qed.
Print Assumptions C02_reachable.

Theorem C02_step : forall s o, Inv s -> Inv (fst (step s o)) /\ snd (step s o) <> Some XStuck.
Proof. exact step_inv. Qed.
Print Assumptions C02_step.

(* ... an instance is in the reference set of the definition it references and of no other *)
Theorem C02_reference_sets : forall s, Inv s ->
  (forall n d, In n (drefs s d) <-> iref s n = Some d) /\ (forall d, NoDup (drefs s d)).
Proof. intros s H. split; [exact (inv_reference_sets s H)|exact (i2_nodup s (inv_r s H))]. Qed.
Print Assumptions C02_reference_sets.

(* ... and carries exactly one outer pin per inner pin its definition currently has *)
Theorem C02_outer_pins : forall s, Inv s ->
  (forall n i, In i (keys s n) <->
     (exists d p, iref s n = Some d /\ par s RPorts p = Some d /\ par s RPins i = Some p)) /\
  (forall n, NoDup (keys s n)).
Proof. intros s H. split; [exact (inv_outer_pins s H)|exact (inv_outer_pins_once s H)]. Qed.
Print Assumptions C02_outer_pins.

(* outer pins that disappear were taken off their wire: no wire lists an outer pin that the
   instance does not carry *)
Theorem C02_no_dropped_pin_on_wire : forall s, Inv s ->
  forall w n i, In (POut n i) (wpins s w) -> In i (keys s n).
Proof. exact inv_no_dropped_pin_on_wire. Qed.
Print Assumptions C02_no_dropped_pin_on_wire.

(* the reference-set clause alone (kept from the first proof round) *)
Theorem C02_reference_sets_step : forall s o,
  Inv2a s -> snd (step s o) <> Some XStuck -> Inv2a (fst (step s o)).
Proof. exact step_inv2a. Qed.
Print Assumptions C02_reference_sets_step.

(* Not yet a theorem: "re-pointing an instance to a shape-compatible definition keeps every
   connection on the corresponding pin" (position-wise statement about rekey); it is checked on the
   implementation by the MirrorPins oracle and by the correspondence of instance pin maps. *)
Definition C02_repoint_full : Prop := forall s x d d' k,
  Inv s -> iref s x = Some d -> same_shape s d d' = true ->
  snd (op_set_reference s x (Some d')) = None ->
  forall c n, nth_error (pin_pairs s d d') k = Some (c, n) ->
  pin_wire (fst (op_set_reference s x (Some d'))) (POut x n) = pin_wire s (POut x c).
