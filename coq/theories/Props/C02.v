(* C02 - Instances mirror their definition. Property theorems only. *)
From Coq Require Import List.
From SV Require Import Base.Base IR.State IR.NS IR.Ops Proofs.Inv2a.

(* reference-set clause: an instance referencing d is in d's reference set and in no other;
   preserved by every op with any arguments and any outcome except the stuck one *)
Theorem C02_reference_sets_step : forall s o,
  Inv2a s -> snd (step s o) <> Some XStuck -> Inv2a (fst (step s o)).
Proof. exact step_inv2a. Qed.
Print Assumptions C02_reference_sets_step.

Theorem C02_reference_sets_init : Inv2a init.
Proof. exact inv2a_init. Qed.
Print Assumptions C02_reference_sets_init.

(* the full statement (outer pins = inner pins of the definition, dropped pins leave their wire
   first, re-pointing keeps connections by position) is checked by the correspondence run and
   the Inv2 oracle on the implementation; its Coq proof is not finished: *)
Definition C02_full : Prop := forall s o,
  Inv2a s ->
  (forall n i, (exists ow, assoc i (ipins s n) = Some ow) <->
               (exists d p, iref s n = Some d /\ par s RPorts p = Some d /\ par s RPins i = Some p)) ->
  snd (step s o) <> Some XStuck ->
  let s' := fst (step s o) in
  forall n i, (exists ow, assoc i (ipins s' n) = Some ow) <->
              (exists d p, iref s' n = Some d /\ par s' RPorts p = Some d /\ par s' RPins i = Some p).
