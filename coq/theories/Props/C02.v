(* C02 - Instances mirror their definition: reference sets and outer pins track all edits.
   Property theorems only. *)
From Coq Require Import List.
From SV Require Import Base.Base IR.State IR.NS IR.Ops Proofs.Inv2a Proofs.InvP Proofs.InvW Proofs.C01_full Proofs.Repoint.
Import ListNotations.

(* at every prefix of every history (any ops, arguments, outcomes) ... *)
Theorem C02_reachable : forall ops, Inv (run ops init).
Proof. exact reachable_inv. Qed.
Print Assumptions C02_reachable.

Theorem C02_step : forall s o, Inv s -> Inv (fst (step s o)) /\ snd (step s o) <> Some XStuck.
Proof. exact step_inv. Qed.
Print Assumptions C02_step.

(* ... an instance is in the reference set of the definition it references and of no other *)
Theorem C02_reference_sets : forall s, Inv s ->
  (forall n d, In n (drefs s d) <-> iref s n = Some d) /\ (forall d, NoDup (drefs s d)).
Proof. intros s H. split; [exact (inv_reference_sets s H)|exact (i2_nodup s (inv_r s H))]. Qed.
Print Assumptions C02_reference_sets.

(* ... and carries exactly one outer pin per inner pin its definition currently has *)
Theorem C02_outer_pins : forall s, Inv s ->
  (forall n i, In i (keys s n) <->
     (exists d p, iref s n = Some d /\ par s RPorts p = Some d /\ par s RPins i = Some p)) /\
  (forall n, NoDup (keys s n)).
Proof. intros s H. split; [exact (inv_outer_pins s H)|exact (inv_outer_pins_once s H)]. Qed.
Print Assumptions C02_outer_pins.

(* outer pins that disappear were taken off their wire: no wire lists an outer pin that the
   instance does not carry *)
Theorem C02_no_dropped_pin_on_wire : forall s, Inv s ->
  forall w n i, In (POut n i) (wpins s w) -> In i (keys s n).
Proof. exact inv_no_dropped_pin_on_wire. Qed.
Print Assumptions C02_no_dropped_pin_on_wire.

(* the reference-set clause alone (kept from the first proof round) *)
Theorem C02_reference_sets_step : forall s o,
  Inv2a s -> snd (step s o) <> Some XStuck -> Inv2a (fst (step s o)).
Proof. exact step_inv2a. Qed.
Print Assumptions C02_reference_sets_step.

(* re-pointing an instance to a shape-compatible definition keeps every connection on the
   corresponding pin: the outer pin for the k-th pin of the new definition reports the wire the outer
   pin for the k-th pin of the old definition reported; every other pin reports what it reported;
   and every wire lists the same pins at the same positions, each outer pin of the instance replaced
   by its counterpart *)
Theorem C02_repoint_full : forall s x d d' k,
  Inv s -> iref s x = Some d -> same_shape s d d' = true ->
  snd (op_set_reference s x (Some d')) = None ->
  forall c n, nth_error (pin_pairs s d d') k = Some (c, n) ->
  pin_wire (fst (op_set_reference s x (Some d'))) (POut x n) = pin_wire s (POut x c).
Proof.
  intros s x d d' k HI Hr Hs Hn c n Hk.
  apply (proj1 (repoint_spec s x d d' HI Hr Hs Hn)). apply (nth_error_In _ _ Hk).
Qed.
Print Assumptions C02_repoint_full.

Theorem C02_repoint_wires : forall s x d d',
  Inv s -> iref s x = Some d -> same_shape s d d' = true ->
  snd (op_set_reference s x (Some d')) = None ->
  (forall q, (forall i, q <> POut x i) ->
     pin_wire (fst (op_set_reference s x (Some d'))) q = pin_wire s q) /\
  (forall w, wpins (fst (op_set_reference s x (Some d'))) w =
             map (repoint_pin x (pin_pairs s d d')) (wpins s w)).
Proof. intros s x d d' HI Hr Hs Hn. apply (proj2 (repoint_spec s x d d' HI Hr Hs Hn)). Qed.
Print Assumptions C02_repoint_wires.

(* non-vacuity: in the sample history the instance 5 (of definition 0, outer pin for inner pin 2
   on wire 7) is re-pointed to a second two-pin definition; its first outer pin stays on wire 7 *)
Example C02_repoint_sample :
  let ops := sample_ops ++ [ONew KDefinition None []; OCreate RPorts 8 None [] 2 None] in
  let s := run ops init in
  same_shape s 0 8 = true /\ snd (op_set_reference s 5 (Some 8)) = None /\
  pin_pairs s 0 8 = [(2, 10); (3, 11)] /\
  pin_wire (fst (op_set_reference s 5 (Some 8))) (POut 5 10) = Some 7 /\
  wpins (fst (op_set_reference s 5 (Some 8))) 7 = [POut 5 10; PIn 3].
Proof. vm_compute. repeat split. Qed.

(* the same invariant (reference sets exact, outer-pin tables mirroring the referenced definition) over
   histories that mix editing calls with completed Definition.clone, uniquify and flatten runs *)
From SV Require Import Xform.Clone Xform.Xform Proofs.XHistory.
Theorem C02_mixed_histories : forall l u f x', xrun l (mkX init u f) = Some x' ->
  Inv2a (st x') /\ InvK (st x').
Proof. intros l u f x' E. pose proof (xrun_inv l u f x' E) as H. split; [apply (inv_r _ H)|apply (inv_k _ H)]. Qed.
Print Assumptions C02_mixed_histories.

(* ... and over histories in which clone() is called on ANY element (netlist, library, definition, port,
   cable, wire, pin, instance), mixed with editing calls, uniquify and flatten (Proofs/XHistAll.v) *)
From Coq Require Import NArith.
From SV Require Import Proofs.CloneNetInv Proofs.XHistAll.
Theorem C02_all_mixed_histories : forall l u f x', xrun_all l (mkX init u f) = Some x' ->
  Inv2a (st x') /\ InvK (st x').
Proof. intros l u f x' E. pose proof (xrun_all_inv l u f x' E) as H. split; [apply (inv_r _ H)|apply (inv_k _ H)]. Qed.
Print Assumptions C02_all_mixed_histories.

(* non-vacuity: edits, Netlist.clone, Library.clone, Port.clone, an edit of the copy (a new instance 39 of the copied
   leaf definition 15 in the copied top definition 22), uniquify of the copy (instance 23 gets its own definition 40,
   whose child 43 is registered with 15); the reference sets and the outer-pin table of the new instance follow *)
Example C02_all_mixed_sample :
  let ops := (ONew KNetlist None nil :: OCreate RLibs 0 None nil 0 None :: OCreate RDefs 1 (Some (76%N :: nil)) nil 0 None ::
              OCreate RPorts 2 (Some (112%N :: nil)) nil 1 None :: OCreate RDefs 1 (Some (77%N :: nil)) nil 0 None ::
              OCreate RChildren 5 (Some (105%N :: nil)) nil 0 (Some 2) :: OCreate RCables 5 (Some (99%N :: nil)) nil 1 None ::
              OConnect 8 (POut 6 4) None :: OCreate RDefs 1 (Some (84%N :: nil)) nil 0 None ::
              OCreate RChildren 9 (Some (97%N :: nil)) nil 0 (Some 5) :: OCreate RChildren 9 (Some (98%N :: nil)) nil 0 (Some 5) ::
              OSetTop 0 (TopDef 9) :: nil) in
  let h := (map YEdit ops ++ YClone 0 :: YClone 1 :: YClone 3 ::
            YEdit (OCreate RChildren 22 (Some (110%N :: nil)) nil 0 (Some 15)) :: YUniquify 20 13 :: nil)%list in
  match xrun_all h (mkX init 0 0) with
  | Some x => next (st x) = 44 /\ drefs (st x) 2 = (6 :: nil) /\ drefs (st x) 15 = (21 :: 39 :: 43 :: nil) /\ iref (st x) 39 = Some 15 /\
              ipins (st x) 39 = ((17, None) :: nil) /\ drefs (st x) 18 = (24 :: nil) /\ iref (st x) 23 = Some 40 /\
              drefs (st x) 5 = (10 :: 11 :: nil) /\ kids (st x) RChildren 22 = (23 :: 24 :: 39 :: nil)
  | None => False
  end.
Proof. vm_compute. repeat split. Qed.
