(* C08 - Uniquify makes every non-leaf instance unique without changing the design. Property theorems only. *)
From Coq Require Import List ZArith String.
From SV Require Import Base.Base IR.State IR.NS IR.Ops Xform.Clone Xform.Xform Proofs.Inv1a Proofs.Inv2a Proofs.Fresh Proofs.RefK Proofs.NsInv Proofs.InvW Proofs.FieldT Proofs.XformInv Proofs.UniqInv Proofs.CloneFull Proofs.UniqFull Proofs.NsSlot Proofs.CloneData Proofs.UniqElab Proofs.UniqNames Xform.Strs.
Import ListNotations.

(* "running uniquify again changes nothing": when every instance met by the breadth-first walk
   is already unique (or a leaf), the walk returns the state it was given, for any fuel *)
Theorem C08_unique_is_fixpoint : forall fuel x queue,
  uniq_clean fuel (st x) queue = true -> uniq_loop fuel x queue = (x, None).
Proof. exact uniquify_fixpoint. Qed.
Print Assumptions C08_unique_is_fixpoint.

(* "the netlist stays well-formed": in every state reachable by editing calls, with any counter
   values and any fuel, a uniquify run that completes leaves every container listing exactly the
   elements that name it as parent, once (the containment invariant of C01), and every definition
   listing exactly the instances that reference it, once (the reference-set invariant of C02), and
   every member of a container having the kind its relation asks for (typing) -
   through every Definition.clone, rename, add_definition and reference change of the walk *)
Theorem C08_keeps_well_formed : forall ops u f fuel n x',
  uniquify fuel (mkX (run ops init) u f) n = (x', None) -> Inv1a (st x') /\ Inv2a (st x') /\ InvT (st x').
Proof. exact uniquify_reachable. Qed.
Print Assumptions C08_keeps_well_formed.

(* ... and the whole structural invariant of the editing API (C01 + C02: containment, reference sets,
   every wire lists exactly the pins that report it, every instance's outer-pin table mirrors the
   ports of the definition it references): after a completed uniquify every theorem about editing
   calls applies again. The proof goes through the faithfulness of Definition._clone: the memo is an
   injective map, each copied pin / wire / instance carries the image of its source's wire pointer /
   pin list / outer-pin table, nothing else changes (Proofs/CloneMemo, CloneRR, CloneFaith, CloneInvP). *)
Theorem C08_keeps_full_invariant : forall ops u f fuel n x',
  uniquify fuel (mkX (run ops init) u f) n = (x', None) -> Inv (st x').
Proof. exact uniquify_reachable_inv. Qed.
Print Assumptions C08_keeps_full_invariant.

Theorem C08_keeps_full_invariant_from : forall fuel x n x',
  Inv (st x) /\ InvT (st x) /\ Fresh (st x) /\ FT (st x) /\ RefK (st x) ->
  uniquify fuel x n = (x', None) ->
  Inv (st x') /\ InvT (st x') /\ Fresh (st x') /\ FT (st x') /\ RefK (st x').
Proof. exact uniquify_full_inv. Qed.
Print Assumptions C08_keeps_full_invariant_from.

(* "makes every non-leaf instance unique": in every state reachable by editing calls whose top
   definition is instantiated only by the (parentless) top instance, after a completed uniquify the walk
   from the top finds every instance it meets already unique - its definition is a leaf or is referenced
   by that instance alone - with the same fuel; so running uniquify again changes nothing
   (C08_unique_is_fixpoint applies). Proofs/UniqFull.v: the walk keeps "processed instances are settled,
   and the container of every walked instance is the top definition or the solely-referenced definition
   of a processed instance", which is what stops a later clone from adding a second reference. *)
Theorem C08_makes_unique : forall ops u f fuel n t dtop x',
  let s := run ops init in
  top s n = Some t -> iref s t = Some dtop -> (forall i, iref s i = Some dtop -> i = t) -> par s RChildren t = None ->
  uniquify fuel (mkX s u f) n = (x', None) ->
  uniq_clean fuel (st x') (kids (st x') RChildren dtop) = true.
Proof.
  intros ops u f fuel n t dtop x' s Ht Hr Hs Hp E.
  apply (uniquify_makes_unique dtop t fuel (mkX s u f) n x' (reachable_uf ops) Ht Hr Hs Hp E).
Qed.
Print Assumptions C08_makes_unique.

Theorem C08_idempotent : forall ops u f fuel n t dtop x',
  let s := run ops init in
  top s n = Some t -> iref s t = Some dtop -> (forall i, iref s i = Some dtop -> i = t) -> par s RChildren t = None ->
  uniquify fuel (mkX s u f) n = (x', None) ->
  uniq_loop fuel x' (kids (st x') RChildren dtop) = (x', None).
Proof.
  intros ops u f fuel n t dtop x' s Ht Hr Hs Hp E. apply uniquify_fixpoint.
  apply (uniquify_makes_unique dtop t fuel (mkX s u f) n x' (reachable_uf ops) Ht Hr Hs Hp E).
Qed.
Print Assumptions C08_idempotent.

(* the same as a step invariant, from any state that satisfies it *)
Theorem C08_keeps_well_formed_from : forall fuel x n x',
  Inv1a (st x) /\ Inv2a (st x) /\ Fresh (st x) /\ RefK (st x) /\ InvT (st x) ->
  uniquify fuel x n = (x', None) ->
  Inv1a (st x') /\ Inv2a (st x') /\ Fresh (st x') /\ RefK (st x') /\ InvT (st x').
Proof. exact uniquify_inv. Qed.
Print Assumptions C08_keeps_well_formed_from.

(* non-vacuity: a top cell with two instances of one non-leaf cell; uniquify completes, clones the
   cell once (the copy is inserted right after the original), re-points the first instance, and
   the result is clean while the start was not *)
Example C08_sample :
  let ops := [ ONew KNetlist None []; OCreate RLibs 0 None [] 0 None; OCreate RDefs 1 None [] 0 None;
               OCreate RPorts 2 None [] 1 None; OCreate RDefs 1 None [] 0 None; OCreate RChildren 5 None [] 0 (Some 2);
               OCreate RCables 5 None [] 1 None; OConnect 8 (POut 6 4) None;
               OCreate RDefs 1 None [] 0 None; OCreate RChildren 9 None [] 0 (Some 5); OCreate RChildren 9 None [] 0 (Some 5);
               OSetTop 0 (TopDef 9) ] in
  let s := run ops init in
  let r := uniquify 20 (mkX s 0 0) 0 in
  let s' := st (fst r) in
  snd r = None /\ next s = 13 /\ next s' = 17 /\ kids s' RDefs 1 = [2; 5; 13; 9] /\
  iref s' 10 = Some 13 /\ iref s' 11 = Some 5 /\ drefs s' 5 = [11] /\ drefs s' 13 = [10] /\ drefs s' 2 = [6; 16] /\
  uniq_clean 20 s (kids s RChildren 9) = false /\ uniq_clean 20 s' (kids s' RChildren 9) = true /\
  top s 0 = Some 12 /\ iref s 12 = Some 9 /\ drefs s 9 = [12] /\ par s RChildren 12 = None.
Proof. vm_compute. repeat split. Qed.

(* ---- "the elaborated (flattened) design - leaf instances, their hierarchical names and connectivity -
   is the same as before" ----
   Proofs/UniqElab.v defines the identifier-free unfolding [unfold depth s d] of a definition: its ports
   (user data = dictionary without the '.NS' entry, direction / downto / scalar / lower index, number of
   pins), its cables (user data, attributes, and for each wire in order the list of its pins written
   positionally: DIn k = k-th pin of the definition's own ports, DOut c k = k-th port pin of the definition
   instantiated by the c-th child), its child instances in order (user data, hence names, and the
   unfolding of the definition each instantiates, to the given depth), and for a leaf cell its name.
   Equal unfoldings = same tree of named instances down to the named leaf cells, same wiring at every level. *)

(* (a) Definition.clone: the copy unfolds exactly like the original, and no existing definition unfolds differently *)
Theorem C08_clone_same_unfolding : forall ops d,
  let s := run ops init in
  d < next s -> kind_of s d = Some KDefinition -> snd (fst (clone_definition s d)) = None ->
  forall depth,
    (forall e, e < next s -> unfold depth (fst (fst (clone_definition s d))) e = unfold depth s e) /\
    unfold depth (fst (fst (clone_definition s d))) (snd (clone_definition s d)) = unfold depth s d.
Proof. intros ops d s Hd Hk Hc. apply (clone_unfold s d (reachable_uf ops) Hd Hk Hc). Qed.
Print Assumptions C08_clone_same_unfolding.

(* (b) one completed round of _make_instance_unique on an instance of a non-leaf definition (clone the
   definition, rename the copy, add it to the library right after the original, re-point the instance):
   every definition that existed before the round unfolds as before, to every depth - the container of
   the re-pointed instance included, because the copy unfolds like the original and the re-keyed outer
   pins sit at the positions of the old ones. From any state satisfying the invariants of the API. *)
Theorem C08_round_same_elaboration : forall x inst d x',
  UF (st x) -> iref (st x) inst = Some d -> inst < next (st x) -> is_leaf_def (st x) d = false ->
  make_instance_unique x inst = (x', None) ->
  forall depth e, e < next (st x) -> unfold depth (st x') e = unfold depth (st x) e.
Proof. intros x inst d x' U Ei Hi Hl E. apply (round_unfold x inst d U Ei Hi Hl x' E). Qed.
Print Assumptions C08_round_same_elaboration.

(* (c) a completed uniquify, any fuel, from any state satisfying the invariants: every definition that
   existed before - in particular the top definition - has the same unfolding afterwards, to every depth *)
Theorem C08_same_elaboration_from : forall fuel x n x',
  UF (st x) -> uniquify fuel x n = (x', None) ->
  forall depth e, e < next (st x) -> unfold depth (st x') e = unfold depth (st x) e.
Proof. exact uniquify_same_unfold. Qed.
Print Assumptions C08_same_elaboration_from.

Theorem C08_same_elaboration : forall ops u f fuel n x' t dtop,
  let s := run ops init in
  top s n = Some t -> iref s t = Some dtop -> uniquify fuel (mkX s u f) n = (x', None) ->
  forall depth, unfold depth (st x') dtop = unfold depth s dtop.
Proof.
  intros ops u f fuel n x' t dtop s Ht Hr E depth.
  apply (uniquify_same_unfold_top fuel (mkX s u f) n x' t dtop (reachable_uf ops) Ht Hr E).
Qed.
Print Assumptions C08_same_elaboration.

(* ---- "new definitions get fresh, non-colliding names" ----
   LT n0 s: the name table of every library l < n0 that has one is exactly the names of its definitions
   (a consequence of the C10 invariant NsInv, hence true in every reachable state); PL n0 s: libraries
   that hold definitions are older than n0. One completed round adds the copy d' = next s to the library
   of the original; if the original is named nm the copy is named nm_sdn_unique_<counter> and the counter
   advances; if the library has a name table, NO definition of the library carried that name at the moment
   of the addition (the namespace manager was asked and its table is exact); the names of all other
   definitions are unchanged; the table invariant holds again. *)
Theorem C08_round_fresh_name : forall n0 x inst d x',
  UF (st x) -> iref (st x) inst = Some d -> inst < next (st x) -> n0 <= next (st x) -> LT n0 (st x) -> PL n0 (st x) ->
  make_instance_unique x inst = (x', None) ->
  LT n0 (st x') /\ PL n0 (st x') /\
  exists lib, par (st x) RDefs d = Some lib /\ par (st x') RDefs (next (st x)) = Some lib /\
    (forall c, In c (kids (st x') RDefs lib) <-> c = next (st x) \/ In c (kids (st x) RDefs lib)) /\
    (forall l, l <> lib -> kids (st x') RDefs l = kids (st x) RDefs l) /\
    (forall l c, In c (kids (st x) RDefs l) -> get_str (st x') c str_NAME = get_str (st x) c str_NAME) /\
    match get_str (st x) d str_NAME with
    | Some nm => get_str (st x') (next (st x)) str_NAME = Some (nm ++ str_uniq ++ dec (uniq_ctr x)) /\
                 uniq_ctr x' = S (uniq_ctr x) /\
                 (nstab (st x) lib <> None -> forall c, In c (kids (st x) RDefs lib) ->
                    get_str (st x) c str_NAME <> Some (nm ++ str_uniq ++ dec (uniq_ctr x)))
    | None => get_str (st x') (next (st x)) str_NAME = None /\ uniq_ctr x' = uniq_ctr x
    end.
Proof. intros n0 x inst d x' U Ei Hi Hn HL HP E. apply (round_names n0 x inst d U Ei Hi Hn HL HP x' E). Qed.
Print Assumptions C08_round_fresh_name.

(* what happens on a clash: when the library has a name table and already holds a definition named
   nm_sdn_unique_<counter>, the round does NOT complete - add_definition raises (ValueError) after the
   clone has been made and renamed; C08_name_clash_sample shows the outcome and the debris *)
Theorem C08_name_clash_raises : forall n0 x inst d lib nm c,
  UF (st x) -> iref (st x) inst = Some d -> inst < next (st x) -> n0 <= next (st x) -> LT n0 (st x) -> PL n0 (st x) ->
  par (st x) RDefs d = Some lib -> get_str (st x) d str_NAME = Some nm -> nstab (st x) lib <> None ->
  In c (kids (st x) RDefs lib) -> get_str (st x) c str_NAME = Some (nm ++ str_uniq ++ dec (uniq_ctr x)) ->
  snd (make_instance_unique x inst) <> None.
Proof. exact round_clash. Qed.
Print Assumptions C08_name_clash_raises.

(* a COMPLETED uniquify never produced a duplicate: in every state reachable by editing calls, with any
   counter values and fuel, after a completed run no library (that has a name table) holds two definitions
   with one name; and every definition the run added (identifier >= next s) that has a name is named
   <something>_sdn_unique_<k> with k between the counter before and after the run *)
Theorem C08_fresh_names : forall ops u f fuel n x',
  let s := run ops init in
  uniquify fuel (mkX s u f) n = (x', None) ->
  (forall l t c1 c2 v, l < next s -> nstab (st x') l = Some t ->
     In c1 (kids (st x') RDefs l) -> In c2 (kids (st x') RDefs l) ->
     get_str (st x') c1 str_NAME = Some v -> get_str (st x') c2 str_NAME = Some v -> c1 = c2) /\
  u <= uniq_ctr x' /\
  (forall l c v, In c (kids (st x') RDefs l) -> next s <= c -> get_str (st x') c str_NAME = Some v ->
     exists nm k, v = nm ++ str_uniq ++ dec k /\ u <= k /\ k < uniq_ctr x').
Proof.
  intros ops u f fuel n x' s E.
  assert (HL : LT (next s) s) by (apply lt_of_nsinv; apply (NsInv.reachable_nsinv ops)).
  destruct (uniquify_names fuel (mkX s u f) n x' (reachable_uf ops) HL E) as [L [C A]]. cbn [st uniq_ctr] in *.
  split; [|split; [exact C|exact A]].
  intros l t c1 c2 v Hl Ht H1 H2 E1 E2. apply (lt_unique _ _ l t c1 c2 v L Hl Ht H1 H2 E1 E2).
Qed.
Print Assumptions C08_fresh_names.

(* non-vacuity of (a)-(c) and of the name theorems: library "work" with the leaf cell INV (port A), the
   cell mid (port P, cable n joining P and the pin A of its child u : INV) and the cell top with two
   instances m1, m2 of mid joined by the cable t; uniquify completes, adds mid_sdn_unique_0 right after
   mid, the counter goes from 0 to 1, and the unfolding of top to depth 4 (down to the leaf INV) is the same *)
Definition c08_design : list op :=
  [ ONew KNetlist None []; OCreate RLibs 0 (Some (s2l "work"%string)) [] 0 None;
    OCreate RDefs 1 (Some (s2l "INV"%string)) [] 0 None; OCreate RPorts 2 (Some (s2l "A"%string)) [] 1 None;
    OCreate RDefs 1 (Some (s2l "mid"%string)) [] 0 None; OCreate RChildren 5 (Some (s2l "u"%string)) [] 0 (Some 2);
    OCreate RCables 5 (Some (s2l "n"%string)) [] 1 None; OConnect 8 (POut 6 4) None;
    OCreate RPorts 5 (Some (s2l "P"%string)) [] 1 None; OConnect 8 (PIn 10) None;
    OCreate RDefs 1 (Some (s2l "top"%string)) [] 0 None; OCreate RChildren 11 (Some (s2l "m1"%string)) [] 0 (Some 5);
    OCreate RChildren 11 (Some (s2l "m2"%string)) [] 0 (Some 5);
    OCreate RCables 11 (Some (s2l "t"%string)) [] 1 None; OConnect 15 (POut 12 10) None; OConnect 15 (POut 13 10) None;
    OSetTop 0 (TopDef 11) ].

Example C08_elaboration_sample :
  let s := run c08_design init in
  let r := uniquify 20 (mkX s 0 0) 0 in
  let s' := st (fst r) in
  snd r = None /\ next s = 17 /\ top s 0 = Some 16 /\ iref s 16 = Some 11 /\
  kids s' RDefs 1 = [2; 5; 17; 11] /\ iref s' 12 = Some 17 /\ iref s' 13 = Some 5 /\
  map (fun c => get_str s' c str_NAME) (kids s' RDefs 1) =
    [Some (s2l "INV"%string); Some (s2l "mid"%string); Some (s2l "mid_sdn_unique_0"%string); Some (s2l "top"%string)] /\
  uniq_ctr (fst r) = 1 /\
  unfold 4 s' 11 = unfold 4 s 11 /\ unfold 3 s' 17 = unfold 3 s 5 /\
  (* the wire of top joins the first port pin of its first and of its second child; the wire of mid joins
     the first port pin of its first child and its own first pin *)
  match unfold 2 s 11 with
  | TDef None [] [(_, _, [[DOut 0 0; DOut 1 0]])] [(_, Some (TDef None [_] [(_, _, [[DOut 0 0; DIn 0]])] [_])); _] => True
  | _ => False
  end /\
  is_leaf_def s 5 = false /\ leaf_name s 2 = Some (s2l "INV"%string).
Proof. vm_compute. repeat split. Qed.

(* a clone of "mid" alone: the copy (17) unfolds like mid *)
Example C08_clone_unfold_sample :
  let s := run c08_design init in
  let r := clone_definition s 5 in
  5 < next s /\ kind_of s 5 = Some KDefinition /\ snd (fst r) = None /\ snd r = 17 /\
  unfold 3 (fst (fst r)) 17 = unfold 3 s 5 /\ unfold 3 s 5 <> TCut.
Proof. vm_compute. repeat split; try discriminate. repeat constructor. Qed.

(* the clash: the same design with a definition already named mid_sdn_unique_0 in the library and the
   counter at 0 (a fresh process): uniquify ends with ValueError; the copy of mid (18) has been made, is
   in no library, and its child (23) is registered with the leaf cell INV next to the original child (6);
   m1 still instantiates mid. The same happens in the implementation (reproducer in the report). *)
Example C08_name_clash_sample :
  let s := run (c08_design ++ [OCreate RDefs 1 (Some (s2l "mid_sdn_unique_0"%string)) [] 0 None]) init in
  let r := uniquify 20 (mkX s 0 0) 0 in
  let s' := st (fst r) in
  next s = 18 /\ snd r = Some (XE XValue) /\ next s' = 24 /\ kids s' RDefs 1 = [2; 5; 11; 17] /\
  par s' RDefs 18 = None /\ drefs s' 2 = [6; 23] /\ iref s' 12 = Some 5 /\
  get_str s' 18 str_NAME = Some (s2l "mid_sdn_unique_0"%string).
Proof. vm_compute. repeat split. Qed.

(* so "uniquify gives new definitions fresh names" does not hold unconditionally: the module counter
   restarts at 0 in every process and the suffix is never checked against the library before the clone is
   made; a netlist that already contains <name>_sdn_unique_<k> (for instance one written after an earlier
   uniquify) makes a later run raise mid-way. Stated and refuted from the computed witness. *)
Definition C08_never_clashes : Prop := forall ops u f fuel n,
  snd (uniquify fuel (mkX (run ops init) u f) n) <> Some (XE XValue).
Theorem C08_never_clashes_refuted : ~ C08_never_clashes.
Proof.
  intro H.
  apply (H (c08_design ++ [OCreate RDefs 1 (Some (s2l "mid_sdn_unique_0"%string)) [] 0 None]) 0 0 20 0).
  vm_compute. reflexivity.
Qed.
Print Assumptions C08_never_clashes_refuted.

(* The uniqueness clause without the two side conditions of C08_makes_unique (top definition
   referenced by the top instance only; top instance parentless) is kept here as first written; it is
   proved above under those conditions, which hold for every netlist whose top was set from a
   definition. The clauses "same elaborated design" and "fresh names" are proved above
   (C08_same_elaboration, C08_fresh_names, with the clash outcome C08_name_clash_raises); they are also
   checked on every run by the correspondence of the uniquify model with the implementation and by the
   union-find elaboration oracle. *)
Definition C08_full : Prop := forall fuel x n x',
  uniquify fuel x n = (x', None) ->
  forall t d, top (st x') n = Some t -> iref (st x') t = Some d ->
  uniq_clean fuel (st x') (kids (st x') RChildren d) = true.
