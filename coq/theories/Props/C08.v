(* C08 - Uniquify makes every non-leaf instance unique without changing the design. Property theorems only. *)
From Coq Require Import List ZArith String.
From SV Require Import Base.Base IR.State IR.NS IR.Ops Xform.Clone Xform.Xform Proofs.Inv1a Proofs.Inv2a Proofs.Fresh Proofs.RefK Proofs.NsInv Proofs.InvW Proofs.FieldT Proofs.XformInv Proofs.UniqInv Proofs.CloneFull Proofs.UniqFull Proofs.NsSlot Proofs.CloneData Proofs.UniqElab Proofs.UniqFresh Proofs.UniqNames Xform.Strs.
Import ListNotations.

(* "running uniquify again changes nothing": when every instance met by the breadth-first walk
   is already unique (or a leaf), the walk returns the state it was given, for any fuel *)
Theorem C08_unique_is_fixpoint : forall fuel x queue,
  uniq_clean fuel (st x) queue = true -> uniq_loop fuel x queue = (x, None).
Proof. exact uniquify_fixpoint. Qed.
Print Assumptions C08_unique_is_fixpoint.

(* "the netlist stays well-formed": in every state reachable by editing calls, with any counter
   values and any fuel, a uniquify run that completes leaves every container listing exactly the
   elements that name it as parent, once (the containment invariant of C01), and every definition
   listing exactly the instances that reference it, once (the reference-set invariant of C02), and
   every member of a container having the kind its relation asks for (typing) -
   through every Definition.clone, rename, add_definition and reference change of the walk *)
Theorem C08_keeps_well_formed : forall ops u f fuel n x',
  uniquify fuel (mkX (run ops init) u f) n = (x', None) -> Inv1a (st x') /\ Inv2a (st x') /\ InvT (st x').
Proof. exact uniquify_reachable. Qed.
Print Assumptions C08_keeps_well_formed.

(* ... and the whole structural invariant of the editing API (C01 + C02: containment, reference sets,
   every wire lists exactly the pins that report it, every instance's outer-pin table mirrors the
   ports of the definition it references): after a completed uniquify every theorem about editing
   calls applies again. The proof goes through the faithfulness of Definition._clone: the memo is an
   injective map, each copied pin / wire / instance carries the image of its source's wire pointer /
   pin list / outer-pin table, nothing else changes (Proofs/CloneMemo, CloneRR, CloneFaith, CloneInvP). *)
Theorem C08_keeps_full_invariant : forall ops u f fuel n x',
  uniquify fuel (mkX (run ops init) u f) n = (x', None) -> Inv (st x').
Proof. exact uniquify_reachable_inv. Qed.
Print Assumptions C08_keeps_full_invariant.

Theorem C08_keeps_full_invariant_from : forall fuel x n x',
  Inv (st x) /\ InvT (st x) /\ Fresh (st x) /\ FT (st x) /\ RefK (st x) ->
  uniquify fuel x n = (x', None) ->
  Inv (st x') /\ InvT (st x') /\ Fresh (st x') /\ FT (st x') /\ RefK (st x').
Proof. exact uniquify_full_inv. Qed.
Print Assumptions C08_keeps_full_invariant_from.

(* "makes every non-leaf instance unique": in every state reachable by editing calls whose top
   definition is instantiated only by the (parentless) top instance, after a completed uniquify the walk
   from the top finds every instance it meets already unique - its definition is a leaf or is referenced
   by that instance alone - with the same fuel; so running uniquify again changes nothing
   (C08_unique_is_fixpoint applies). Proofs/UniqFull.v: the walk keeps "processed instances are settled,
   and the container of every walked instance is the top definition or the solely-referenced definition
   of a processed instance", which is what stops a later clone from adding a second reference. *)
Theorem C08_makes_unique : forall ops u f fuel n t dtop x',
  let s := run ops init in
  top s n = Some t -> iref s t = Some dtop -> (forall i, iref s i = Some dtop -> i = t) -> par s RChildren t = None ->
  uniquify fuel (mkX s u f) n = (x', None) ->
  uniq_clean fuel (st x') (kids (st x') RChildren dtop) = true.
Proof.
  intros ops u f fuel n t dtop x' s Ht Hr Hs Hp E.
  apply (uniquify_makes_unique dtop t fuel (mkX s u f) n x' (reachable_uf ops) Ht Hr Hs Hp E).
Qed.
Print Assumptions C08_makes_unique.

Theorem C08_idempotent : forall ops u f fuel n t dtop x',
  let s := run ops init in
  top s n = Some t -> iref s t = Some dtop -> (forall i, iref s i = Some dtop -> i = t) -> par s RChildren t = None ->
  uniquify fuel (mkX s u f) n = (x', None) ->
  uniq_loop fuel x' (kids (st x') RChildren dtop) = (x', None).
Proof.
  intros ops u f fuel n t dtop x' s Ht Hr Hs Hp E. apply uniquify_fixpoint.
  apply (uniquify_makes_unique dtop t fuel (mkX s u f) n x' (reachable_uf ops) Ht Hr Hs Hp E).
Qed.
Print Assumptions C08_idempotent.

(* the same as a step invariant, from any state that satisfies it *)
Theorem C08_keeps_well_formed_from : forall fuel x n x',
  Inv1a (st x) /\ Inv2a (st x) /\ Fresh (st x) /\ RefK (st x) /\ InvT (st x) ->
  uniquify fuel x n = (x', None) ->
  Inv1a (st x') /\ Inv2a (st x') /\ Fresh (st x') /\ RefK (st x') /\ InvT (st x').
Proof. exact uniquify_inv. Qed.
Print Assumptions C08_keeps_well_formed_from.

(* non-vacuity: a top cell with two instances of one non-leaf cell; uniquify completes, clones the
   cell once (the copy is inserted right after the original), re-points the first instance, and
   the result is clean while the start was not *)
Example C08_sample :
  let ops := [ ONew KNetlist None []; OCreate RLibs 0 None [] 0 None; OCreate RDefs 1 None [] 0 None;
               OCreate RPorts 2 None [] 1 None; OCreate RDefs 1 None [] 0 None; OCreate RChildren 5 None [] 0 (Some 2);
               OCreate RCables 5 None [] 1 None; OConnect 8 (POut 6 4) None;
               OCreate RDefs 1 None [] 0 None; OCreate RChildren 9 None [] 0 (Some 5); OCreate RChildren 9 None [] 0 (Some 5);
               OSetTop 0 (TopDef 9) ] in
  let s := run ops init in
  let r := uniquify 20 (mkX s 0 0) 0 in
  let s' := st (fst r) in
  snd r = None /\ next s = 13 /\ next s' = 17 /\ kids s' RDefs 1 = [2; 5; 13; 9] /\
  iref s' 10 = Some 13 /\ iref s' 11 = Some 5 /\ drefs s' 5 = [11] /\ drefs s' 13 = [10] /\ drefs s' 2 = [6; 16] /\
  uniq_clean 20 s (kids s RChildren 9) = false /\ uniq_clean 20 s' (kids s' RChildren 9) = true /\
  top s 0 = Some 12 /\ iref s 12 = Some 9 /\ drefs s 9 = [12] /\ par s RChildren 12 = None.
Proof. vm_compute. repeat split. Qed.

(* ---- "the elaborated (flattened) design - leaf instances, their hierarchical names and connectivity -
   is the same as before" ----
   Proofs/UniqElab.v defines the identifier-free unfolding [unfold depth s d] of a definition: its ports
   (user data = dictionary without the '.NS' entry, direction / downto / scalar / lower index, number of
   pins), its cables (user data, attributes, and for each wire in order the list of its pins written
   positionally: DIn k = k-th pin of the definition's own ports, DOut c k = k-th port pin of the definition
   instantiated by the c-th child), its child instances in order (user data, hence names, and the
   unfolding of the definition each instantiates, to the given depth), and for a leaf cell its name.
   Equal unfoldings = same tree of named instances down to the named leaf cells, same wiring at every level. *)

(* (a) Definition.clone: the copy unfolds exactly like the original, and no existing definition unfolds differently *)
Theorem C08_clone_same_unfolding : forall ops d,
  let s := run ops init in
  d < next s -> kind_of s d = Some KDefinition -> snd (fst (clone_definition s d)) = None ->
  forall depth,
    (forall e, e < next s -> unfold depth (fst (fst (clone_definition s d))) e = unfold depth s e) /\
    unfold depth (fst (fst (clone_definition s d))) (snd (clone_definition s d)) = unfold depth s d.
Proof. intros ops d s Hd Hk Hc. apply (clone_unfold s d (reachable_uf ops) Hd Hk Hc). Qed.
Print Assumptions C08_clone_same_unfolding.

(* (b) one completed round of _make_instance_unique on an instance of a non-leaf definition (clone the
   definition, rename the copy, add it to the library right after the original, re-point the instance):
   every definition that existed before the round unfolds as before, to every depth - the container of
   the re-pointed instance included, because the copy unfolds like the original and the re-keyed outer
   pins sit at the positions of the old ones. From any state satisfying the invariants of the API. *)
Theorem C08_round_same_elaboration : forall x inst d x',
  UF (st x) -> iref (st x) inst = Some d -> inst < next (st x) -> is_leaf_def (st x) d = false ->
  make_instance_unique x inst = (x', None) ->
  forall depth e, e < next (st x) -> unfold depth (st x') e = unfold depth (st x) e.
Proof. intros x inst d x' U Ei Hi Hl E. apply (round_unfold x inst d U Ei Hi Hl x' E). Qed.
Print Assumptions C08_round_same_elaboration.

(* (c) a completed uniquify, any fuel, from any state satisfying the invariants: every definition that
   existed before - in particular the top definition - has the same unfolding afterwards, to every depth *)
Theorem C08_same_elaboration_from : forall fuel x n x',
  UF (st x) -> uniquify fuel x n = (x', None) ->
  forall depth e, e < next (st x) -> unfold depth (st x') e = unfold depth (st x) e.
Proof. exact uniquify_same_unfold. Qed.
Print Assumptions C08_same_elaboration_from.

Theorem C08_same_elaboration : forall ops u f fuel n x' t dtop,
  let s := run ops init in
  top s n = Some t -> iref s t = Some dtop -> uniquify fuel (mkX s u f) n = (x', None) ->
  forall depth, unfold depth (st x') dtop = unfold depth s dtop.
Proof.
  intros ops u f fuel n x' t dtop s Ht Hr E depth.
  apply (uniquify_same_unfold_top fuel (mkX s u f) n x' t dtop (reachable_uf ops) Ht Hr E).
Qed.
Print Assumptions C08_same_elaboration.

(* ---- "new definitions get fresh, non-colliding names" ----
   When the cell has a name or an EDIF identifier, _make_instance_unique asks _get_unique_name_modifier for
   the first counter value k, counting up from the module counter, such that - when the cell has a name nm -
   no definition of the library carries the name nm_sdn_unique_<k> and - when the cell has an EDIF
   identifier - none carries, without case, the identifier <identifier>_sdn_unique_<k> (Xform.fresh_ctr).
   The module counter is left at k + 1. (A cell with an identifier and no name used to be copied without
   renaming: finding C08-uniquify-unnamed-identifier, repaired.)
   LT n0 s: the name table, and under the EDIF policy the identifier table, of every library l < n0 that
   has one is exactly the names (case-folded identifiers) of its definitions (a consequence of the C10
   invariant NsInv, hence true in every reachable state); PL n0 s: libraries that hold definitions are
   older than n0. One completed round adds the copy d' = next s to the library of the original; if the
   original has a name or an identifier, the copy carries name_sdn_unique_<k> (when the original is named)
   and <identifier>_sdn_unique_<k> (when it has an identifier) for a k >= the counter and the counter
   becomes k + 1; NO definition of the library carried that name, none carried the new identifier up to
   case, and every candidate between the counter and k was in use (k is the first free one); a cell with
   neither gives a copy with neither and leaves the counter alone; the names and identifiers of all other
   definitions are unchanged; the table invariant holds again. *)
Theorem C08_round_fresh_name : forall n0 x inst d x',
  UF (st x) -> iref (st x) inst = Some d -> inst < next (st x) -> n0 <= next (st x) -> LT n0 (st x) -> PL n0 (st x) ->
  make_instance_unique x inst = (x', None) ->
  LT n0 (st x') /\ PL n0 (st x') /\
  exists lib, par (st x) RDefs d = Some lib /\ par (st x') RDefs (next (st x)) = Some lib /\
    (forall c, In c (kids (st x') RDefs lib) <-> c = next (st x) \/ In c (kids (st x) RDefs lib)) /\
    (forall l, l <> lib -> kids (st x') RDefs l = kids (st x) RDefs l) /\
    (forall l c, In c (kids (st x) RDefs l) ->
       get_str (st x') c str_NAME = get_str (st x) c str_NAME /\ ident_key (st x') c = ident_key (st x) c) /\
    if orb (is_some (get_str (st x) d str_NAME)) (is_some (get_str (st x) d str_IDENT)) then
      exists k, uniq_ctr x <= k /\ uniq_ctr x' = S k /\
                 get_str (st x') (next (st x)) str_NAME = option_map (fun nm => nm ++ str_uniq ++ dec k) (get_str (st x) d str_NAME) /\
                 ident_key (st x') (next (st x)) = option_map (fun i => lower (i ++ str_uniq ++ dec k)) (get_str (st x) d str_IDENT) /\
                 (forall nm c, get_str (st x) d str_NAME = Some nm -> In c (kids (st x) RDefs lib) ->
                    get_str (st x) c str_NAME <> Some (nm ++ str_uniq ++ dec k)) /\
                 (forall i c w, get_str (st x) d str_IDENT = Some i -> In c (kids (st x) RDefs lib) ->
                    get_str (st x) c str_IDENT = Some w -> lower w <> lower (i ++ str_uniq ++ dec k)) /\
                 (forall j, uniq_ctr x <= j -> j < k ->
                    suffix_taken (st x) (kids (st x) RDefs lib) (get_str (st x) d str_NAME) (get_str (st x) d str_IDENT)
                                 (str_uniq ++ dec j) = true)
    else get_str (st x') (next (st x)) str_NAME = None /\ ident_key (st x') (next (st x)) = None /\ uniq_ctr x' = uniq_ctr x.
Proof. intros n0 x inst d x' U Ei Hi Hn HL HP E. apply (round_names n0 x inst d U Ei Hi Hn HL HP x' E). Qed.
Print Assumptions C08_round_fresh_name.

(* the search for the counter value never gives up: two candidates per definition of the library plus one
   always contain a free one (a definition blocks at most one candidate by its name and one by its
   identifier; str(k) is injective) - the Python loop [while True] terminates, and the model's out-of-fuel
   outcome of the search is never an outcome of a round *)
Theorem C08_suffix_search_total : forall s defs nm idv k, fresh_ctr (fresh_fuel defs) s defs nm idv k <> None.
Proof. exact fresh_ctr_total. Qed.
Print Assumptions C08_suffix_search_total.

Theorem C08_round_never_out_of_fuel : forall x inst, snd (make_instance_unique x inst) <> Some XOutOfFuel.
Proof. exact round_never_out_of_fuel. Qed.
Print Assumptions C08_round_never_out_of_fuel.

(* a round NEVER fails because of the name or the identifier of the copy (the repaired defects
   C08-uniquify-name-clash and C08-uniquify-unnamed-identifier).
   make_instance_unique is: Definition.clone, the renaming block, add_definition, the reference change
   (C08_round_shape, by computation); ns_add_conflict is the naming test of NamespaceManager.add, the only
   way add_definition can refuse a parentless definition offered to a library for its name or identifier
   (C08_add_refused_exactly_by_conflict). In every round of every run of uniquify started in a state
   reachable by editing calls - with any counter values, any fuel, whether or not the run completes, and
   whatever names and identifiers the library already holds (uniq_rounds lists the states in which the walk
   enters _make_instance_unique) - once the cell has been copied and the copy renamed, that test passes for
   the copy - of a cell with a name, with an EDIF identifier, with both, or with neither (no hypothesis on
   the cell any more): add_definition is not refused by the name/identifier check. *)
Theorem C08_round_shape : forall x inst,
  make_instance_unique x inst =
  match iref (st x) inst with
  | None => (x, Some XAttr)
  | Some d =>
      match par (st x) RDefs d with
      | None => (x, Some XAttr)
      | Some lib =>
          let '(r, d') := clone_definition (st x) d in
          liftR x r (fun x1 =>
            match rename_block x1 lib d d' with
            | (x5, Some e) => (x5, Some e)
            | (x5, None) =>
                liftR x5 (op_add (st x5) RDefs lib d' (Some (S (index_of d (kids (st x) RDefs lib))))) (fun x6 =>
                liftR x6 (op_set_reference (st x6) inst (Some d')) (fun x7 => (x7, None)))
            end)
      end
  end.
Proof. exact make_instance_unique_unfold. Qed.
Print Assumptions C08_round_shape.

Theorem C08_add_refused_exactly_by_conflict : forall s lib c pos,
  kind_of s lib = Some KLibrary -> kind_of s c = Some KDefinition -> par s RDefs c = None ->
  ns_add_conflict s lib c KDefinition = true -> op_add s RDefs lib c pos = (s, Some XValue).
Proof. exact op_add_refused_by_name. Qed.
Print Assumptions C08_add_refused_exactly_by_conflict.

Theorem C08_add_never_refused_by_name : forall ops u f fuel n t dtop xr i d lib x5,
  let s := run ops init in
  top s n = Some t -> iref s t = Some dtop ->
  In (xr, i) (uniq_rounds fuel (mkX s u f) (kids s RChildren dtop)) ->
  iref (st xr) i = Some d -> par (st xr) RDefs d = Some lib ->
  snd (fst (clone_definition (st xr) d)) = None ->
  rename_block (mkX (fst (fst (clone_definition (st xr) d))) (uniq_ctr xr) (flat_ctr xr)) lib d (next (st xr)) = (x5, None) ->
  ns_add_conflict (st x5) lib (next (st xr)) KDefinition = false.
Proof.
  intros ops u f fuel n t dtop xr i d lib x5 s Ht Hr Hin Hri Hp Hc Hnb.
  assert (HL : LT (next s) s) by (apply lt_of_nsinv; apply (NsInv.reachable_nsinv ops)).
  apply (uniquify_add_never_refused_by_name fuel (mkX s u f) n t dtop xr i d lib x5 (reachable_uf ops) HL Ht Hr Hin Hri Hp Hc Hnb).
Qed.
Print Assumptions C08_add_never_refused_by_name.

(* the same for one round from any state with the invariants *)
Theorem C08_round_add_never_refused_by_name : forall n0 x inst d lib x5,
  UF (st x) -> iref (st x) inst = Some d -> inst < next (st x) -> n0 <= next (st x) -> LT n0 (st x) -> PL n0 (st x) ->
  par (st x) RDefs d = Some lib -> snd (fst (clone_definition (st x) d)) = None ->
  rename_block (mkX (fst (fst (clone_definition (st x) d))) (uniq_ctr x) (flat_ctr x)) lib d (next (st x)) = (x5, None) ->
  ns_add_conflict (st x5) lib (next (st x)) KDefinition = false.
Proof. intros n0 x inst d lib x5 U Ei Hi Hn HL HP. apply (round_add_check n0 x inst d U Ei Hi Hn HL HP lib x5). Qed.
Print Assumptions C08_round_add_never_refused_by_name.

(* a COMPLETED uniquify never produced a duplicate: in every state reachable by editing calls, with any
   counter values and fuel, after a completed run no library (that has a name table) holds two definitions
   with one name; and every definition the run added (identifier >= next s) that has a name is named
   <something>_sdn_unique_<k> with k between the counter before and after the run *)
Theorem C08_fresh_names : forall ops u f fuel n x',
  let s := run ops init in
  uniquify fuel (mkX s u f) n = (x', None) ->
  (forall l t c1 c2 v, l < next s -> nstab (st x') l = Some t ->
     In c1 (kids (st x') RDefs l) -> In c2 (kids (st x') RDefs l) ->
     get_str (st x') c1 str_NAME = Some v -> get_str (st x') c2 str_NAME = Some v -> c1 = c2) /\
  u <= uniq_ctr x' /\
  (forall l c v, In c (kids (st x') RDefs l) -> next s <= c -> get_str (st x') c str_NAME = Some v ->
     exists nm k, v = nm ++ str_uniq ++ dec k /\ u <= k /\ k < uniq_ctr x').
Proof.
  intros ops u f fuel n x' s E.
  assert (HL : LT (next s) s) by (apply lt_of_nsinv; apply (NsInv.reachable_nsinv ops)).
  destruct (uniquify_names fuel (mkX s u f) n x' (reachable_uf ops) HL E) as [L [C A]]. cbn [st uniq_ctr] in *.
  split; [|split; [exact C|exact A]].
  intros l t c1 c2 v Hl Ht H1 H2 E1 E2. apply (lt_unique _ _ l t c1 c2 v L Hl Ht H1 H2 E1 E2).
Qed.
Print Assumptions C08_fresh_names.

(* ... and, under the EDIF policy, no two definitions of a library whose identifiers differ only in case *)
Theorem C08_fresh_identifiers : forall ops u f fuel n x',
  let s := run ops init in
  uniquify fuel (mkX s u f) n = (x', None) ->
  forall l t c1 c2 v1 v2, l < next s -> nstab (st x') l = Some t -> ns_pol t = PolEdif ->
    In c1 (kids (st x') RDefs l) -> In c2 (kids (st x') RDefs l) ->
    get_str (st x') c1 str_IDENT = Some v1 -> get_str (st x') c2 str_IDENT = Some v2 -> lower v1 = lower v2 -> c1 = c2.
Proof.
  intros ops u f fuel n x' s E l t c1 c2 v1 v2 Hl Ht Hp H1 H2 E1 E2 Hv.
  assert (HL : LT (next s) s) by (apply lt_of_nsinv; apply (NsInv.reachable_nsinv ops)).
  destruct (uniquify_names fuel (mkX s u f) n x' (reachable_uf ops) HL E) as [L _]. cbn [st] in L.
  apply (lt_unique_ident _ _ l t c1 c2 v1 v2 L Hl Ht Hp H1 H2 E1 E2 Hv).
Qed.
Print Assumptions C08_fresh_identifiers.

(* non-vacuity of (a)-(c) and of the name theorems: library "work" with the leaf cell INV (port A), the
   cell mid (port P, cable n joining P and the pin A of its child u : INV) and the cell top with two
   instances m1, m2 of mid joined by the cable t; uniquify completes, adds mid_sdn_unique_0 right after
   mid, the counter goes from 0 to 1, and the unfolding of top to depth 4 (down to the leaf INV) is the same *)
Definition c08_design : list op :=
  [ ONew KNetlist None []; OCreate RLibs 0 (Some (s2l "work"%string)) [] 0 None;
    OCreate RDefs 1 (Some (s2l "INV"%string)) [] 0 None; OCreate RPorts 2 (Some (s2l "A"%string)) [] 1 None;
    OCreate RDefs 1 (Some (s2l "mid"%string)) [] 0 None; OCreate RChildren 5 (Some (s2l "u"%string)) [] 0 (Some 2);
    OCreate RCables 5 (Some (s2l "n"%string)) [] 1 None; OConnect 8 (POut 6 4) None;
    OCreate RPorts 5 (Some (s2l "P"%string)) [] 1 None; OConnect 8 (PIn 10) None;
    OCreate RDefs 1 (Some (s2l "top"%string)) [] 0 None; OCreate RChildren 11 (Some (s2l "m1"%string)) [] 0 (Some 5);
    OCreate RChildren 11 (Some (s2l "m2"%string)) [] 0 (Some 5);
    OCreate RCables 11 (Some (s2l "t"%string)) [] 1 None; OConnect 15 (POut 12 10) None; OConnect 15 (POut 13 10) None;
    OSetTop 0 (TopDef 11) ].

Example C08_elaboration_sample :
  let s := run c08_design init in
  let r := uniquify 20 (mkX s 0 0) 0 in
  let s' := st (fst r) in
  snd r = None /\ next s = 17 /\ top s 0 = Some 16 /\ iref s 16 = Some 11 /\
  kids s' RDefs 1 = [2; 5; 17; 11] /\ iref s' 12 = Some 17 /\ iref s' 13 = Some 5 /\
  map (fun c => get_str s' c str_NAME) (kids s' RDefs 1) =
    [Some (s2l "INV"%string); Some (s2l "mid"%string); Some (s2l "mid_sdn_unique_0"%string); Some (s2l "top"%string)] /\
  uniq_ctr (fst r) = 1 /\
  unfold 4 s' 11 = unfold 4 s 11 /\ unfold 3 s' 17 = unfold 3 s 5 /\
  (* the wire of top joins the first port pin of its first and of its second child; the wire of mid joins
     the first port pin of its first child and its own first pin *)
  match unfold 2 s 11 with
  | TDef None [] [(_, _, [[DOut 0 0; DOut 1 0]])] [(_, Some (TDef None [_] [(_, _, [[DOut 0 0; DIn 0]])] [_])); _] => True
  | _ => False
  end /\
  is_leaf_def s 5 = false /\ leaf_name s 2 = Some (s2l "INV"%string).
Proof. vm_compute. repeat split. Qed.

(* a clone of "mid" alone: the copy (17) unfolds like mid *)
Example C08_clone_unfold_sample :
  let s := run c08_design init in
  let r := clone_definition s 5 in
  5 < next s /\ kind_of s 5 = Some KDefinition /\ snd (fst r) = None /\ snd r = 17 /\
  unfold 3 (fst (fst r)) 17 = unfold 3 s 5 /\ unfold 3 s 5 <> TCut.
Proof. vm_compute. repeat split; try discriminate. repeat constructor. Qed.

(* the history that used to clash (finding C08-uniquify-name-clash, now repaired): the same design with a
   definition already named mid_sdn_unique_0 in the library and the counter at 0 (a fresh process). uniquify
   completes: the copy of mid (18) takes the next free name mid_sdn_unique_1, is placed right after mid, m1
   is re-pointed to it, the counter ends at 2, no copy is left outside the library, every instance met by
   the walk is unique afterwards and the top unfolds as before. The implementation does the same (replayed
   on every run: harness/xform_check.py clash_witness, corpus/py/c08-uniquify-name-clash.py). *)
Definition c08_clash_design : list op :=
  c08_design ++ [OCreate RDefs 1 (Some (s2l "mid_sdn_unique_0"%string)) [] 0 None].

Example C08_name_clash_repaired_sample :
  let s := run c08_clash_design init in
  let r := uniquify 20 (mkX s 0 0) 0 in
  let s' := st (fst r) in
  next s = 18 /\ snd r = None /\ next s' = 24 /\ kids s' RDefs 1 = [2; 5; 18; 11; 17] /\
  par s' RDefs 18 = Some 1 /\ drefs s' 2 = [6; 23] /\ iref s' 12 = Some 18 /\ iref s' 13 = Some 5 /\
  drefs s' 5 = [13] /\ drefs s' 18 = [12] /\ uniq_ctr (fst r) = 2 /\
  map (fun c => get_str s' c str_NAME) (kids s' RDefs 1) =
    [Some (s2l "INV"%string); Some (s2l "mid"%string); Some (s2l "mid_sdn_unique_1"%string); Some (s2l "top"%string);
     Some (s2l "mid_sdn_unique_0"%string)] /\
  uniq_clean 20 s' (kids s' RChildren 11) = true /\ unfold 4 s' 11 = unfold 4 s 11.
Proof. vm_compute. repeat split. Qed.

(* the hypotheses of C08_add_never_refused_by_name on that history: the walk enters _make_instance_unique
   once, on m1 (12), in the start state (C08_add_never_refused_sample_round); mid (5) is named and sits in library 1; the clone and the renaming
   complete; the naming test of add_definition passes although the library holds mid_sdn_unique_0 *)
Example C08_add_never_refused_sample :
  let s := run c08_clash_design init in
  let x := mkX s 0 0 in
  top s 0 = Some 16 /\ iref s 16 = Some 11 /\ map snd (uniq_rounds 20 x (kids s RChildren 11)) = [12] /\
  iref s 12 = Some 5 /\ par s RDefs 5 = Some 1 /\ get_str s 5 str_NAME = Some (s2l "mid"%string) /\
  snd (fst (clone_definition s 5)) = None /\
  snd (rename_block (mkX (fst (fst (clone_definition s 5))) 0 0) 1 5 18) = None /\
  ns_add_conflict (st (fst (rename_block (mkX (fst (fst (clone_definition s 5))) 0 0) 1 5 18))) 1 18 KDefinition = false /\
  (* while the name the unrepaired code would have used is refused *)
  name_taken s (kids s RDefs 1) (s2l "mid_sdn_unique_0"%string) = true.
Proof. vm_compute. repeat split. Qed.

Example C08_add_never_refused_sample_round :
  let s := run c08_clash_design init in
  let x := mkX s 0 0 in
  In (x, 12) (uniq_rounds 20 x (kids s RChildren 11)).
Proof.
  intros s x. assert (Hk : kids s RChildren 11 = [12; 13]) by (vm_compute; reflexivity). rewrite Hk.
  apply (uniq_rounds_head 19 x 12 [13]). vm_compute. reflexivity.
Qed.

(* under the EDIF policy identifiers count too, without case: mid carries the identifier Mid; the library
   already holds a cell "other" with the identifier MID_SDN_unique_0 (blocks k = 0 by identifier) and a cell
   named mid_sdn_unique_1 (blocks k = 1 by name); the copy becomes mid_sdn_unique_2 / Mid_sdn_unique_2 and
   the counter ends at 3 *)
Definition c08_edif_design : list op :=
  [ OSetPolicy PolEdif; ONew KNetlist None []; OCreate RLibs 0 (Some (s2l "work"%string)) [(str_IDENT, VStr (s2l "work"%string))] 0 None;
    OCreate RDefs 1 (Some (s2l "INV"%string)) [(str_IDENT, VStr (s2l "INV"%string))] 0 None;
    OCreate RDefs 1 (Some (s2l "mid"%string)) [(str_IDENT, VStr (s2l "Mid"%string))] 0 None;
    OCreate RChildren 3 (Some (s2l "u"%string)) [(str_IDENT, VStr (s2l "u"%string))] 0 (Some 2);
    OCreate RDefs 1 (Some (s2l "top"%string)) [(str_IDENT, VStr (s2l "top"%string))] 0 None;
    OCreate RChildren 5 (Some (s2l "m1"%string)) [(str_IDENT, VStr (s2l "m1"%string))] 0 (Some 3);
    OCreate RChildren 5 (Some (s2l "m2"%string)) [(str_IDENT, VStr (s2l "m2"%string))] 0 (Some 3);
    OSetTop 0 (TopDef 5);
    OCreate RDefs 1 (Some (s2l "other"%string)) [(str_IDENT, VStr (s2l "MID_SDN_unique_0"%string))] 0 None;
    OCreate RDefs 1 (Some (s2l "mid_sdn_unique_1"%string)) [(str_IDENT, VStr (s2l "x"%string))] 0 None ].

Example C08_edif_identifier_sample :
  let s := run c08_edif_design init in
  let r := uniquify 20 (mkX s 0 0) 0 in
  let s' := st (fst r) in
  snd r = None /\ next s = 11 /\ kids s' RDefs 1 = [2; 3; 11; 5; 9; 10] /\ uniq_ctr (fst r) = 3 /\
  match nstab s 1 with Some t => ns_pol t = PolEdif | None => False end /\
  get_str s' 11 str_NAME = Some (s2l "mid_sdn_unique_2"%string) /\ get_str s' 11 str_IDENT = Some (s2l "Mid_sdn_unique_2"%string) /\
  iref s' 6 = Some 11 /\ iref s' 7 = Some 3.
Proof. vm_compute. repeat split. Qed.

(* the history of the repaired finding C08-uniquify-unnamed-identifier: a cell that carries an EDIF
   identifier but no name, in a library under the EDIF policy, instantiated twice. _make_instance_unique
   used to rename the copy only [if instance.reference.name is not None], so the copy (9) kept the
   identifier "mid", the naming test of add_definition refused it and uniquify ended with ValueError, the
   copy outside every library with its child (10) registered with LEAF. Now the suffix search also runs
   for a cell without a name and the identifier gets the suffix: uniquify completes, the copy carries the
   identifier mid_sdn_unique_0 and no name, sits right after the cell in the library, instance a (6)
   references it, the counter ends at 1, every instance met by the walk is unique, the top unfolds as
   before. The implementation does the same (replayed on every run: harness/xform_check.py
   unnamed_identifier_witness, corpus/py/c08-uniquify-unnamed-cell.py). *)
Definition c08_unnamed_design : list op :=
  [ OSetPolicy PolEdif; ONew KNetlist (Some (s2l "n"%string)) []; OCreate RLibs 0 (Some (s2l "work"%string)) [] 0 None;
    OCreate RDefs 1 (Some (s2l "LEAF"%string)) [] 0 None;
    OCreate RDefs 1 None [(str_IDENT, VStr (s2l "mid"%string))] 0 None;
    OCreate RChildren 3 (Some (s2l "u"%string)) [] 0 (Some 2);
    OCreate RDefs 1 (Some (s2l "top"%string)) [] 0 None;
    OCreate RChildren 5 (Some (s2l "a"%string)) [] 0 (Some 3);
    OCreate RChildren 5 (Some (s2l "b"%string)) [] 0 (Some 3);
    OSetTop 0 (TopDef 5) ].

Example C08_unnamed_cell_with_identifier_sample :
  let s := run c08_unnamed_design init in
  let r := uniquify 20 (mkX s 0 0) 0 in
  let s' := st (fst r) in
  get_str s 3 str_NAME = None /\ get_str s 3 str_IDENT = Some (s2l "mid"%string) /\
  match nstab s 1 with Some t => ns_pol t = PolEdif | None => False end /\
  snd r = None /\ next s = 9 /\ next s' = 11 /\ kids s' RDefs 1 = [2; 3; 9; 5] /\ par s' RDefs 9 = Some 1 /\
  drefs s' 2 = [4; 10] /\ iref s' 6 = Some 9 /\ iref s' 7 = Some 3 /\ drefs s' 3 = [7] /\ drefs s' 9 = [6] /\
  get_str s' 9 str_NAME = None /\ get_str s' 9 str_IDENT = Some (s2l "mid_sdn_unique_0"%string) /\
  get_str s' 3 str_IDENT = Some (s2l "mid"%string) /\ uniq_ctr (fst r) = 1 /\
  uniq_clean 20 s' (kids s' RChildren 5) = true /\ unfold 3 s' 5 = unfold 3 s 5 /\
  (* the naming test of add_definition passes for the renamed copy; the identifier the unrepaired code
     left on the copy is in use *)
  ns_add_conflict (st (fst (rename_block (mkX (fst (fst (clone_definition s 3))) 0 0) 1 3 9))) 1 9 KDefinition = false /\
  ident_taken s (kids s RDefs 1) (s2l "mid"%string) = true.
Proof. vm_compute. repeat split. Qed.

(* the hypotheses of C08_add_never_refused_by_name on that history: the walk enters _make_instance_unique
   on instance a (6) in the start state; the cell (3) has no name *)
Example C08_unnamed_cell_round :
  let s := run c08_unnamed_design init in
  let x := mkX s 0 0 in
  top s 0 = Some 8 /\ iref s 8 = Some 5 /\ In (x, 6) (uniq_rounds 20 x (kids s RChildren 5)) /\
  iref s 6 = Some 3 /\ par s RDefs 3 = Some 1 /\ snd (fst (clone_definition s 3)) = None /\
  snd (rename_block (mkX (fst (fst (clone_definition s 3))) 0 0) 1 3 9) = None.
Proof.
  intros s x. split; [vm_compute; reflexivity|]. split; [vm_compute; reflexivity|].
  split; [|vm_compute; repeat split].
  assert (Hk : kids s RChildren 5 = [6; 7]) by (vm_compute; reflexivity). rewrite Hk.
  apply (uniq_rounds_head 19 x 6 [7]). vm_compute. reflexivity.
Qed.

(* The uniqueness clause without the two side conditions of C08_makes_unique (top definition
   referenced by the top instance only; top instance parentless) is kept here as first written; it is
   proved above under those conditions, which hold for every netlist whose top was set from a
   definition. The clauses "same elaborated design" and "fresh names" are proved above
   (C08_same_elaboration, C08_fresh_names, C08_add_never_refused_by_name); they are also
   checked on every run by the correspondence of the uniquify model with the implementation and by the
   union-find elaboration oracle. *)
Definition C08_full : Prop := forall fuel x n x',
  uniquify fuel x n = (x', None) ->
  forall t d, top (st x') n = Some t -> iref (st x') t = Some d ->
  uniq_clean fuel (st x') (kids (st x') RChildren d) = true.
