(* C08 - Uniquify makes every non-leaf instance unique without changing the design. Property theorems only. *)
From Coq Require Import List.
From SV Require Import Base.Base IR.State IR.NS IR.Ops Xform.Clone Xform.Xform Proofs.Inv1a Proofs.Inv2a Proofs.Fresh Proofs.RefK Proofs.NsInv Proofs.InvW Proofs.FieldT Proofs.XformInv Proofs.UniqInv Proofs.CloneFull Proofs.UniqFull.
Import ListNotations.

(* "running uniquify again changes nothing": when every instance met by the breadth-first walk
   is already unique (or a leaf), the walk returns the state it was given, for any fuel *)
Theorem C08_unique_is_fixpoint : forall fuel x queue,
  uniq_clean fuel (st x) queue = true -> uniq_loop fuel x queue = (x, None).
Proof. exact uniquify_fixpoint. Qed.
Print Assumptions C08_unique_is_fixpoint.

(* "the netlist stays well-formed": in every state reachable by editing calls, with any counter
   values and any fuel, a uniquify run that completes leaves every container listing exactly the
   elements that name it as parent, once (the containment invariant of C01), and every definition
   listing exactly the instances that reference it, once (the reference-set invariant of C02), and
   every member of a container having the kind its relation asks for (typing) -
   through every Definition.clone, rename, add_definition and reference change of the walk *)
Theorem C08_keeps_well_formed : forall ops u f fuel n x',
  uniquify fuel (mkX (run ops init) u f) n = (x', None) -> Inv1a (st x') /\ Inv2a (st x') /\ InvT (st x').
Proof. exact uniquify_reachable. Qed.
Print Assumptions C08_keeps_well_formed.

(* ... and the whole structural invariant of the editing API (C01 + C02: containment, reference sets,
   every wire lists exactly the pins that report it, every instance's outer-pin table mirrors the
   ports of the definition it references): after a completed uniquify every theorem about editing
   calls applies again. The proof goes through the faithfulness of Definition._clone: the memo is an
   injective map, each copied pin / wire / instance carries the image of its source's wire pointer /
   pin list / outer-pin table, nothing else changes (Proofs/CloneMemo, CloneRR, CloneFaith, CloneInvP). *)
Theorem C08_keeps_full_invariant : forall ops u f fuel n x',
  uniquify fuel (mkX (run ops init) u f) n = (x', None) -> Inv (st x').
Proof. exact uniquify_reachable_inv. Qed.
Print Assumptions C08_keeps_full_invariant.

Theorem C08_keeps_full_invariant_from : forall fuel x n x',
  Inv (st x) /\ InvT (st x) /\ Fresh (st x) /\ FT (st x) /\ RefK (st x) ->
  uniquify fuel x n = (x', None) ->
  Inv (st x') /\ InvT (st x') /\ Fresh (st x') /\ FT (st x') /\ RefK (st x').
Proof. exact uniquify_full_inv. Qed.
Print Assumptions C08_keeps_full_invariant_from.

(* "makes every non-leaf instance unique": in every state reachable by editing calls whose top
   definition is instantiated only by the (parentless) top instance, after a completed uniquify the walk
   from the top finds every instance it meets already unique - its definition is a leaf or is referenced
   by that instance alone - with the same fuel; so running uniquify again changes nothing
   (C08_unique_is_fixpoint applies). Proofs/UniqFull.v: the walk keeps "processed instances are settled,
   and the container of every walked instance is the top definition or the solely-referenced definition
   of a processed instance", which is what stops a later clone from adding a second reference. *)
Theorem C08_makes_unique : forall ops u f fuel n t dtop x',
  let s := run ops init in
  top s n = Some t -> iref s t = Some dtop -> (forall i, iref s i = Some dtop -> i = t) -> par s RChildren t = None ->
  uniquify fuel (mkX s u f) n = (x', None) ->
  uniq_clean fuel (st x') (kids (st x') RChildren dtop) = true.
Proof.
  intros ops u f fuel n t dtop x' s Ht Hr Hs Hp E.
  apply (uniquify_makes_unique dtop t fuel (mkX s u f) n x' (reachable_uf ops) Ht Hr Hs Hp E).
Qed.
Print Assumptions C08_makes_unique.

Theorem C08_idempotent : forall ops u f fuel n t dtop x',
  let s := run ops init in
  top s n = Some t -> iref s t = Some dtop -> (forall i, iref s i = Some dtop -> i = t) -> par s RChildren t = None ->
  uniquify fuel (mkX s u f) n = (x', None) ->
  uniq_loop fuel x' (kids (st x') RChildren dtop) = (x', None).
Proof.
  intros ops u f fuel n t dtop x' s Ht Hr Hs Hp E. apply uniquify_fixpoint.
  apply (uniquify_makes_unique dtop t fuel (mkX s u f) n x' (reachable_uf ops) Ht Hr Hs Hp E).
Qed.
Print Assumptions C08_idempotent.

(* the same as a step invariant, from any state that satisfies it *)
Theorem C08_keeps_well_formed_from : forall fuel x n x',
  Inv1a (st x) /\ Inv2a (st x) /\ Fresh (st x) /\ RefK (st x) /\ InvT (st x) ->
  uniquify fuel x n = (x', None) ->
  Inv1a (st x') /\ Inv2a (st x') /\ Fresh (st x') /\ RefK (st x') /\ InvT (st x').
Proof. exact uniquify_inv. Qed.
Print Assumptions C08_keeps_well_formed_from.

(* non-vacuity: a top cell with two instances of one non-leaf cell; uniquify completes, clones the
   cell once (the copy is inserted right after the original), re-points the first instance, and
   the result is clean while the start was not *)
Example C08_sample :
  let ops := [ ONew KNetlist None []; OCreate RLibs 0 None [] 0 None; OCreate RDefs 1 None [] 0 None;
               OCreate RPorts 2 None [] 1 None; OCreate RDefs 1 None [] 0 None; OCreate RChildren 5 None [] 0 (Some 2);
               OCreate RCables 5 None [] 1 None; OConnect 8 (POut 6 4) None;
               OCreate RDefs 1 None [] 0 None; OCreate RChildren 9 None [] 0 (Some 5); OCreate RChildren 9 None [] 0 (Some 5);
               OSetTop 0 (TopDef 9) ] in
  let s := run ops init in
  let r := uniquify 20 (mkX s 0 0) 0 in
  let s' := st (fst r) in
  snd r = None /\ next s = 13 /\ next s' = 17 /\ kids s' RDefs 1 = [2; 5; 13; 9] /\
  iref s' 10 = Some 13 /\ iref s' 11 = Some 5 /\ drefs s' 5 = [11] /\ drefs s' 13 = [10] /\ drefs s' 2 = [6; 16] /\
  uniq_clean 20 s (kids s RChildren 9) = false /\ uniq_clean 20 s' (kids s' RChildren 9) = true /\
  top s 0 = Some 12 /\ iref s 12 = Some 9 /\ drefs s 9 = [12] /\ par s RChildren 12 = None.
Proof. vm_compute. repeat split. Qed.

(* The uniqueness clause without the two side conditions of C08_makes_unique (top definition
   referenced by the top instance only; top instance parentless) is kept here as first written; it is
   proved above under those conditions, which hold for every netlist whose top was set from a
   definition. The remaining clauses (same elaborated design, fresh names) are checked on every run by
   the correspondence of the uniquify model with the implementation and by the union-find elaboration
   oracle. *)
Definition C08_full : Prop := forall fuel x n x',
  uniquify fuel x n = (x', None) ->
  forall t d, top (st x') n = Some t -> iref (st x') t = Some d ->
  uniq_clean fuel (st x') (kids (st x') RChildren d) = true.
