(* C08 - Uniquify makes every non-leaf instance unique without changing the design. Property theorems only. *)
From Coq Require Import List.
From SV Require Import Base.Base IR.State IR.NS IR.Ops Xform.Clone Xform.Xform Proofs.XformInv.

(* "running uniquify again changes nothing": when every instance met by the breadth-first walk
   is already unique (or a leaf), the walk returns the state it was given, for any fuel *)
Theorem C08_unique_is_fixpoint : forall fuel x queue,
  uniq_clean fuel (st x) queue = true -> uniq_loop fuel x queue = (x, None).
Proof. exact uniquify_fixpoint. Qed.
Print Assumptions C08_unique_is_fixpoint.

(* Full statement (same elaborated design, all non-leaf instances unique, fresh names): checked on
   every run by the correspondence of the uniquify model (BFS over Definition.clone + add_definition
   + rename + reference change) with the implementation and by the union-find elaboration oracle;
   the Coq proof is not finished. *)
Definition C08_full : Prop := forall fuel x n x',
  uniquify fuel x n = (x', None) ->
  forall t d, top (st x') n = Some t -> iref (st x') t = Some d ->
  uniq_clean fuel (st x') (kids (st x') RChildren d) = true.
