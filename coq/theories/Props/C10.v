(* C10 - Sibling names stay unique and exact-name lookup agrees with a scan. Property theorems only. *)
From Coq Require Import List NArith.
Import ListNotations.
From SV Require Import Base.Base IR.State IR.NS Proofs.Ident.

(* the legality test applied to EDIF.identifier accepts exactly the legal EDIF identifiers *)
Theorem C10_identifier_legal : forall s, check_edif_identifier s = true <-> legal_identifier s.
Proof. exact check_edif_identifier_spec. Qed.
Print Assumptions C10_identifier_legal.

(* a rename accepted by a namespace is found by exact lookup afterwards; identifiers under any
   letter case *)
Theorem C10_lookup_after_rename : forall t ek e old v,
  ns_lookup (ns_update t ek e str_NAME old v) ek str_NAME v = Some e.
Proof. exact lookup_after_update_name. Qed.
Print Assumptions C10_lookup_after_rename.

Theorem C10_lookup_identifier_caseless : forall t ek e old v v',
  ns_pol t = PolEdif -> lower v' = lower v ->
  ns_lookup (ns_update t ek e str_IDENT old v) ek str_IDENT v' = Some e.
Proof. exact lookup_after_update_ident. Qed.
Print Assumptions C10_lookup_identifier_caseless.

(* never refused because of an element that was removed: removal erases the entry, for
   identifiers whatever their letter case (the repaired defect) *)
Theorem C10_no_ghost_name : forall t ek o,
  ns_lookup (ns_remove t ek str_NAME (Some o)) ek str_NAME o = None.
Proof. exact lookup_after_remove_name. Qed.
Print Assumptions C10_no_ghost_name.

Theorem C10_no_ghost_identifier : forall t ek o v',
  ns_pol t = PolEdif -> lower v' = lower o ->
  ns_lookup (ns_remove t ek str_IDENT (Some o)) ek str_IDENT v' = None.
Proof. exact lookup_after_remove_ident. Qed.
Print Assumptions C10_no_ghost_identifier.

(* a naming conflict is reported exactly when another element owns the name *)
Theorem C10_conflict_iff : forall t ek e v,
  ns_no_conflict t ek e str_NAME v = false <-> exists x, sassoc v (ns_names t ek) = Some x /\ x <> e.
Proof. exact no_conflict_iff_name. Qed.
Print Assumptions C10_conflict_iff.

(* ---- the history invariant: in every state reachable by any sequence of public editing calls,
   every table of the namespace manager is exactly the names (and, under the EDIF policy, the
   case-folded identifiers) of the children of its scope ---- *)
From SV Require Import IR.Ops Proofs.InvW Proofs.Fresh Proofs.NsInv.

Theorem C10_tables_exact : forall ops, NsInv (run ops init).
Proof. intro ops. apply (reachable_nsinv ops). Qed.
Print Assumptions C10_tables_exact.

Theorem C10_step : forall s o, Inv s -> InvT s -> Fresh s -> NsInv s -> NsInv (fst (step s o)).
Proof. exact step_nsinv. Qed.
Print Assumptions C10_step.

(* names stay unique in every scope that carries a policy, after any history *)
Theorem C10_names_unique : forall ops p t r c1 c2 v,
  let s := run ops init in
  nstab s p = Some t -> ns_rel r = true -> In c1 (kids s r p) -> In c2 (kids s r p) ->
  get_str s c1 str_NAME = Some v -> get_str s c2 str_NAME = Some v -> c1 = c2.
Proof. intros ops p t r c1 c2 v s. apply names_unique. apply (reachable_nsinv ops). Qed.
Print Assumptions C10_names_unique.

(* under the EDIF policy identifiers stay unique up to letter case *)
Theorem C10_identifiers_unique : forall ops p t r c1 c2 v1 v2,
  let s := run ops init in
  nstab s p = Some t -> ns_pol t = PolEdif -> ns_rel r = true -> In c1 (kids s r p) -> In c2 (kids s r p) ->
  get_str s c1 str_IDENT = Some v1 -> get_str s c2 str_IDENT = Some v2 -> lower v1 = lower v2 -> c1 = c2.
Proof. intros ops p t r c1 c2 v1 v2 s. apply idents_unique. apply (reachable_nsinv ops). Qed.
Print Assumptions C10_identifiers_unique.

(* asking a parent for a child by exact name returns precisely what a linear scan finds *)
Theorem C10_lookup_is_scan : forall ops p t r v,
  let s := run ops init in
  nstab s p = Some t -> ns_rel r = true ->
  fast_lookup s p (rel_child r) str_NAME v = scan_lookup s (kids s r p) str_NAME v.
Proof. intros ops p t r v s. apply lookup_is_scan_name. apply (reachable_nsinv ops). Qed.
Print Assumptions C10_lookup_is_scan.

(* a rename is refused for a conflict exactly when another present sibling carries the name -
   never because of an element that was removed, renamed or un-named earlier *)
Theorem C10_refused_exactly : forall ops p t r e v,
  let s := run ops init in
  nstab s p = Some t -> ns_rel r = true ->
  (ns_no_conflict t (rel_child r) e str_NAME v = false <->
   exists x, In x (kids s r p) /\ x <> e /\ get_str s x str_NAME = Some v).
Proof. intros ops p t r e v s. apply rename_conflict_iff. apply (reachable_nsinv ops). Qed.
Print Assumptions C10_refused_exactly.

(* non-vacuity: a library with two definitions under the EDIF policy; the table answers *)
Example C10_sample :
  let ops := [OSetPolicy PolEdif; ONew KLibrary (Some [76%N]) [];
              OCreate RDefs 0 (Some [97%N]) [] 0 None; OCreate RDefs 0 (Some [98%N]) [] 0 None;
              OCreate RDefs 0 (Some [97%N]) [] 0 None] in
  let s := run ops init in
  kids s RDefs 0 = [1; 2] /\ fast_lookup s 0 KDefinition str_NAME [98%N] = Some 2 /\
  scan_lookup s (kids s RDefs 0) str_NAME [98%N] = Some 2.
Proof. vm_compute. repeat split. Qed.

(* legal form: after any history, an element that carries the EDIF policy stores only a legal
   EDIF identifier (accepted edits are exactly those passing the legality test above) *)
From SV Require Import Proofs.NsLegal.
Theorem C10_stored_identifiers_legal : forall ops e v,
  let s := run ops init in
  elem_pol s e = Some PolEdif -> get_str s e str_IDENT = Some v -> legal_identifier v.
Proof.
  intros ops e v s Hp Hv. apply check_edif_identifier_spec. apply (reachable_legal ops e v Hp Hv).
Qed.
Print Assumptions C10_stored_identifiers_legal.

(* "... or by cloning": in every state reachable by editing calls, after a completed clone() of a
   definition that carries a naming policy, every namespace table - those of the original design and
   the one of the copy, rebuilt when the policy is re-applied to the detached copy - is exactly the
   names (identifiers) of the children of its scope; so uniqueness, lookup = scan and exact refusal
   (the corollaries above, which only use the invariant) hold on the result. Typing and containment
   are kept as well, so the invariant continues to hold under further editing calls (C10_step). *)
From SV Require Import Xform.Clone Proofs.Inv1a Proofs.CloneNs.
Theorem C10_clone_definition_tables_exact : forall ops d,
  let s := run ops init in
  d < next s -> has_key s d str_NS = true -> snd (fst (clone_definition s d)) = None ->
  let s' := fst (fst (clone_definition s d)) in NsInv s' /\ InvT s' /\ Inv1a s'.
Proof. exact clone_definition_nsinv. Qed.
Print Assumptions C10_clone_definition_tables_exact.

(* non-vacuity: a cell "e" with a child "i" and a cable "c" is cloned; the copy (9) answers lookups
   for its own cable (10) and child (12), the original (5) for its own (7, 6) *)
Example C10_clone_sample :
  let ops := [ ONew KNetlist None []; OCreate RLibs 0 None [] 0 None; OCreate RDefs 1 (Some [100%N]) [] 0 None;
               OCreate RPorts 2 (Some [97%N]) [] 1 None; OCreate RDefs 1 (Some [101%N]) [] 0 None;
               OCreate RChildren 5 (Some [105%N]) [] 0 (Some 2); OCreate RCables 5 (Some [99%N]) [] 1 None;
               OConnect 8 (POut 6 4) None ] in
  let s := run ops init in
  let r := clone_definition s 5 in
  let s' := fst (fst r) in
  next s = 9 /\ has_key s 5 str_NS = true /\ snd (fst r) = None /\ snd r = 9 /\
  fast_lookup s' 9 KCable str_NAME [99%N] = Some 10 /\ fast_lookup s' 9 KInstance str_NAME [105%N] = Some 12 /\
  fast_lookup s' 5 KCable str_NAME [99%N] = Some 7 /\ fast_lookup s' 5 KInstance str_NAME [105%N] = Some 6 /\
  scan_lookup s' (kids s' RCables 9) str_NAME [99%N] = Some 10.
Proof. vm_compute. repeat split. Qed.

(* the same after a completed Library.clone and after a completed Netlist.clone (of a library / netlist that
   carries a naming policy): every namespace table - those of the original design, untouched, and those of
   the copy: one per copied netlist, library and definition, created empty when the copies are constructed
   and rebuilt from the copy's children when the policy is re-applied to the detached copy at the end of
   clone() - is exactly the names (identifiers) of the children of its scope. Proofs/CloneNsLib.v. *)
From SV Require Import Proofs.CloneNetInv Proofs.CloneNsLib.
Theorem C10_clone_library_tables_exact : forall ops l,
  let s := run ops init in
  kind_of s l = Some KLibrary -> has_key s l str_NS = true -> snd (fst (clone_library s l)) = None ->
  let s' := fst (fst (clone_library s l)) in NsInv s' /\ InvT s' /\ Inv1a s'.
Proof. exact clone_library_nsinv. Qed.
Print Assumptions C10_clone_library_tables_exact.

Theorem C10_clone_netlist_tables_exact : forall ops (n : id),
  let s := run ops init in
  kind_of s n = Some KNetlist -> Closed s n -> has_key s n str_NS = true -> snd (fst (clone_netlist s n)) = None ->
  let s' := fst (fst (clone_netlist s n)) in NsInv s' /\ InvT s' /\ Inv1a s'.
Proof. exact clone_netlist_nsinv. Qed.
Print Assumptions C10_clone_netlist_tables_exact.

(* non-vacuity: a library "w" with cells "d" (port "a") and "e" (cable "c", child "i" of "d"), "e" the top cell.
   The copy of the library (10) answers lookups for its cells (11, 14), which answer for their own port, cable and
   child; the copy of the netlist (10) answers for its library (11), that for its cells (12, 15), those for theirs;
   the originals answer as before *)
Example C10_clone_library_netlist_sample :
  let ops := [ ONew KNetlist None []; OCreate RLibs 0 (Some [119%N]) [] 0 None; OCreate RDefs 1 (Some [100%N]) [] 0 None;
               OCreate RPorts 2 (Some [97%N]) [] 1 None; OCreate RDefs 1 (Some [101%N]) [] 0 None;
               OCreate RChildren 5 (Some [105%N]) [] 0 (Some 2); OCreate RCables 5 (Some [99%N]) [] 1 None;
               OConnect 8 (POut 6 4) None; OSetTop 0 (TopDef 5) ] in
  let s := run ops init in
  let sl := fst (fst (clone_library s 1)) in
  let sn := fst (fst (clone_netlist s 0)) in
  next s = 10 /\ kind_of s 1 = Some KLibrary /\ has_key s 1 str_NS = true /\ snd (fst (clone_library s 1)) = None /\ snd (clone_library s 1) = 10 /\
  kind_of s 0 = Some KNetlist /\ Closed s 0 /\ has_key s 0 str_NS = true /\ snd (fst (clone_netlist s 0)) = None /\ snd (clone_netlist s 0) = 10 /\
  fast_lookup sl 10 KDefinition str_NAME [100%N] = Some 11 /\ fast_lookup sl 10 KDefinition str_NAME [101%N] = Some 14 /\
  fast_lookup sl 14 KCable str_NAME [99%N] = Some 15 /\ fast_lookup sl 14 KInstance str_NAME [105%N] = Some 17 /\
  fast_lookup sl 11 KPort str_NAME [97%N] = Some 12 /\ fast_lookup sl 1 KDefinition str_NAME [101%N] = Some 5 /\ fast_lookup sl 5 KCable str_NAME [99%N] = Some 7 /\
  fast_lookup sn 10 KLibrary str_NAME [119%N] = Some 11 /\ fast_lookup sn 11 KDefinition str_NAME [101%N] = Some 15 /\
  fast_lookup sn 15 KCable str_NAME [99%N] = Some 16 /\ fast_lookup sn 15 KInstance str_NAME [105%N] = Some 18 /\
  fast_lookup sn 12 KPort str_NAME [97%N] = Some 13 /\ fast_lookup sn 0 KLibrary str_NAME [119%N] = Some 1 /\
  fast_lookup sn 1 KDefinition str_NAME [101%N] = Some 5 /\ scan_lookup sn (kids sn RDefs 11) str_NAME [101%N] = Some 15.
Proof.
  cbv zeta. repeat (split; [vm_compute; reflexivity|]). split; [apply closedb_ok; vm_compute; reflexivity|].
  repeat (split; [vm_compute; reflexivity|]). vm_compute; reflexivity.
Qed.
