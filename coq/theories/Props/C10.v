(* C10 - Sibling names stay unique and exact-name lookup agrees with a scan. Property theorems only. *)
From Coq Require Import List.
From SV Require Import Base.Base IR.State IR.NS Proofs.Ident.

(* the legality test applied to EDIF.identifier accepts exactly the legal EDIF identifiers *)
Theorem C10_identifier_legal : forall s, check_edif_identifier s = true <-> legal_identifier s.
Proof. exact check_edif_identifier_spec. Qed.
Print Assumptions C10_identifier_legal.

(* a rename accepted by a namespace is found by exact lookup afterwards; identifiers under any
   letter case *)
Theorem C10_lookup_after_rename : forall t ek e old v,
  ns_lookup (ns_update t ek e str_NAME old v) ek str_NAME v = Some e.
Proof. exact lookup_after_update_name. Qed.
Print Assumptions C10_lookup_after_rename.

Theorem C10_lookup_identifier_caseless : forall t ek e old v v',
  ns_pol t = PolEdif -> lower v' = lower v ->
  ns_lookup (ns_update t ek e str_IDENT old v) ek str_IDENT v' = Some e.
Proof. exact lookup_after_update_ident. Qed.
Print Assumptions C10_lookup_identifier_caseless.

(* never refused because of an element that was removed: removal erases the entry, for
   identifiers whatever their letter case (the repaired defect) *)
Theorem C10_no_ghost_name : forall t ek o,
  ns_lookup (ns_remove t ek str_NAME (Some o)) ek str_NAME o = None.
Proof. exact lookup_after_remove_name. Qed.
Print Assumptions C10_no_ghost_name.

Theorem C10_no_ghost_identifier : forall t ek o v',
  ns_pol t = PolEdif -> lower v' = lower o ->
  ns_lookup (ns_remove t ek str_IDENT (Some o)) ek str_IDENT v' = None.
Proof. exact lookup_after_remove_ident. Qed.
Print Assumptions C10_no_ghost_identifier.

(* a naming conflict is reported exactly when another element owns the name *)
Theorem C10_conflict_iff : forall t ek e v,
  ns_no_conflict t ek e str_NAME v = false <-> exists x, sassoc v (ns_names t ek) = Some x /\ x <> e.
Proof. exact no_conflict_iff_name. Qed.
Print Assumptions C10_conflict_iff.
