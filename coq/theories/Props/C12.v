(* C12 - Cross-hierarchy tracing returns exactly the electrically connected net.
   Property theorems only; each is closed by [exact] of a lemma proved under Proofs/Hier*.v.

   A hierarchical wire is  wire :: cable :: instance path  (item first, top instance last).
   conn s t (Hier/Conn.v) = the least equivalence containing (hwire, hwire') for wire occurrences of
   the design below the top instance t, whenever an instance pin on hwire (outer side, in the
   parent) is the port pin attached to hwire' one level down.
   Hypotheses: Inv1a (C01 containment), Inv2a (C02 reference sets), WFk (well-kinded, allocated),
   WFc (pins and wires point at each other; a wire touches only port pins of its own definition and
   pins of that definition's children), acyclic, the top instance is a proper root (it may also be
   a child of a definition outside the design). All of them are evaluated (booleans inv1a_b, inv2a_b, wfk_b, wfc_b, acyclic_b) on every netlist of the correspondence run. *)
From Coq Require Import List Arith Bool.
From SV Require Import Base.Base IR.State Proofs.Inv1a Proofs.Inv2a Hier.Paths Hier.Enum Hier.Trace Hier.Conn
  Proofs.HierClosure Proofs.HierTrace Proofs.HierNarrow Proofs.HierTraceEx.
Import ListNotations.

(* ---- the generic closure: a work list with a visited set over a finite universe returns exactly
        the reachable set, each element once, when the fuel exceeds the number of start pins plus
        the pin slots of the universe ---- *)
Theorem C12_worklist_closure_correct :
  forall (A B : Type) (eqA : A -> A -> bool) (eqB : B -> B -> bool),
  (forall x y : A, eqA x y = true <-> x = y) -> (forall x y : B, eqB x y = true <-> x = y) ->
  forall (nb : A -> list B) (pins : B -> list A) (U : list B) (init : list A) (fuel : nat),
  NoDup U -> (forall b : B, reach A B nb pins init b -> In b U) ->
  length init + list_sum (map (fun b : B => length (pins b)) U) < fuel ->
  exists l : list B, wl_close A B eqA eqB nb pins fuel init nil = Some l /\ NoDup l /\
                     (forall b : B, In b l <-> reach A B nb pins init b).
Proof. exact worklist_closure_correct. Qed.
Print Assumptions C12_worklist_closure_correct.

(* ---- selection ALL from a hierarchical wire = its class under conn. The fuel handed to the
        closure by the model, computed from the universe of hierarchical wires of C11
        (all_hwires, complete and duplicate-free), is sufficient. ---- *)
Theorem C12_all : forall s t,
  Inv1a s -> Inv2a s -> WFk s -> WFc s -> is_root s t ->
  forall n U x, acyclic s -> top s n = Some t -> all_hwires s n = Some U -> hwire_occ s t x ->
  exists l, get_hwires_ALL s (pin_weight s U) x = Some l /\ (forall b, In b l <-> Conn.conn s t x b).
Proof. exact get_hwires_ALL_class. Qed.
Print Assumptions C12_all.

(* every member of a net yields the same answer *)
Theorem C12_symmetric : forall s t,
  Inv1a s -> Inv2a s -> WFk s -> WFc s -> is_root s t ->
  forall n U x y, acyclic s -> top s n = Some t -> all_hwires s n = Some U ->
  hwire_occ s t x -> Conn.conn s t x y ->
  exists lx ly, get_hwires_ALL s (pin_weight s U) x = Some lx /\
                get_hwires_ALL s (pin_weight s U) y = Some ly /\ (forall b, In b lx <-> In b ly).
Proof. exact get_hwires_ALL_symmetric. Qed.
Print Assumptions C12_symmetric.

(* selection ALL from a hierarchical pin = the class(es) of the wire(s) attached to it *)
Theorem C12_all_from_pin : forall s t,
  Inv1a s -> Inv2a s -> WFk s -> WFc s -> is_root s t ->
  forall n U a, acyclic s -> top s n = Some t -> all_hwires s n = Some U -> hpin_occ s t a ->
  exists l, get_hwires s SAll false (pin_weight s U) a = Some l /\
            (forall b, In b l <-> exists x, In x (nb_sel s SAll a) /\ Conn.conn s t x b).
Proof. exact get_hwires_ALL_pin. Qed.
Print Assumptions C12_all_from_pin.

(* the relation walked by the code (pins of a wire, wires of a pin) is conn on occurrences *)
Theorem C12_code_relation_is_conn : forall s t,
  Inv1a s -> WFc s ->
  forall x y, hwire_occ s t x -> (code_conn s x y <-> Conn.conn s t x y).
Proof. exact code_conn_iff_conn. Qed.
Print Assumptions C12_code_relation_is_conn.

(* ---- narrow selections: exactly the wire attached on that side of a hierarchical pin ---- *)
Theorem C12_inside : forall s t, Inv1a s -> Inv2a s -> WFk s -> is_root s t ->
  forall usum i q x p, hpin_occ s t (i :: q :: x :: p) ->
  exists l, get_hwires s SInside false usum (i :: q :: x :: p) = Some l /\
            (forall b, In b l <-> exists w c, ipwire s i = Some w /\ par s RWires w = Some c /\
                                             b = w :: c :: x :: p).
Proof. exact get_hwires_INSIDE_pin. Qed.
Print Assumptions C12_inside.

Theorem C12_outside : forall s t, Inv1a s -> Inv2a s -> WFk s -> is_root s t ->
  forall usum i q x x' p', hpin_occ s t (i :: q :: x :: x' :: p') ->
  exists l, get_hwires s SOutside false usum (i :: q :: x :: x' :: p') = Some l /\
            (forall b, In b l <-> exists w c, assoc i (ipins s x) = Some (Some w) /\
                                             par s RWires w = Some c /\ b = w :: c :: x' :: p').
Proof. exact get_hwires_OUTSIDE_pin. Qed.
Print Assumptions C12_outside.

(* a pin of the top instance has nothing outside, even if the top instance is a wired child of a
   definition that is not part of the design *)
Theorem C12_outside_top : forall s t, Inv1a s -> Inv2a s -> WFk s -> is_root s t ->
  forall usum i q, hpin_occ s t [i; q; t] -> get_hwires s SOutside false usum [i; q; t] = Some [].
Proof. exact get_hwires_OUTSIDE_top_pin. Qed.
Print Assumptions C12_outside_top.

(* when the top instance is not itself a child, every crossing that touches the design lies in it *)
Theorem C12_conn_unrestricted_when_top_standalone : forall s t, Inv1a s -> WFc s ->
  forall b b', par s RChildren t = None -> hlink s b b' -> (hwire_occ s t b \/ hwire_occ s t b') ->
  hlink_occ s t b b'.
Proof. exact hlink_occ_standalone. Qed.
Print Assumptions C12_conn_unrestricted_when_top_standalone.

(* ---- pins of a hierarchical wire: exactly the pin occurrences (port pins at the same level,
        pins of sub-instances one level down) whose inside or outside wire it is ---- *)
Theorem C12_pins_of_wire : forall s t, Inv1a s -> Inv2a s -> WFk s -> is_root s t -> WFc s ->
  forall x, hwire_occ s t x ->
  exists l, get_hpins s false x = Some l /\
            (forall a, In a l <-> (hpin_occ s t a /\ In x (nb_sel s SAll a))).
Proof. exact get_hpins_of_hwire. Qed.
Print Assumptions C12_pins_of_wire.

(* the hypotheses are satisfiable by a design with a net that crosses an instance boundary, and the
   theorem applies to it *)
Example C12_hypotheses_satisfiable_example :
  exists s t n U x y,
    Inv1a s /\ Inv2a s /\ WFk s /\ WFc s /\ acyclic s /\ par s RChildren t = None /\ is_root s t /\
    top s n = Some t /\ all_hwires s n = Some U /\ hwire_occ s t x /\ Conn.conn s t x y /\ x <> y.
Proof. exact C12_hypotheses_satisfiable. Qed.

(* ---- full statement: also for port and cable starts (unions over their pins / wires) and for
        get_hcables; these two are covered by the correspondence run and the union-find oracle,
        not by a Coq proof ---- *)
Definition C12_full : Prop := forall s t,
  Inv1a s -> Inv2a s -> WFk s -> WFc s -> is_root s t ->
  forall n U, acyclic s -> top s n = Some t -> all_hwires s n = Some U ->
  (forall x, hwire_occ s t x ->
     exists l, get_hwires_ALL s (pin_weight s U) x = Some l /\ (forall b, In b l <-> Conn.conn s t x b))
  /\ (forall a, hpin_occ s t a ->
     exists l, get_hwires s SAll false (pin_weight s U) a = Some l /\
               (forall b, In b l <-> exists x, In x (nb_sel s SAll a) /\ Conn.conn s t x b))
  /\ (forall q x p, is_rpath s t (x :: p) -> In q (ports_of s x) ->
     exists l, get_hwires s SAll false (pin_weight s U) (q :: x :: p) = Some l /\
               (forall b, In b l <-> exists i y, In i (kids s RPins q) /\
                                                 In y (nb_sel s SAll (i :: q :: x :: p)) /\ Conn.conn s t y b))
  /\ (forall c x p, is_rpath s t (x :: p) -> In c (cables_of s x) ->
     exists l, get_hwires s SAll false (pin_weight s U) (c :: x :: p) = Some l /\
               (forall b, In b l <-> exists w, In w (kids s RWires c) /\ Conn.conn s t (w :: c :: x :: p) b))
  /\ (forall x, hwire_occ s t x ->
     exists l, get_hcables s SAll false (pin_weight s U) x = Some l /\
               (forall k, In k l <-> exists b, Conn.conn s t x b /\ k = tl b)).
