(* C12 - Cross-hierarchy tracing returns exactly the electrically connected net.
   Property theorems only; each is closed by [exact] of a lemma proved under Proofs/Hier*.v.

   A hierarchical wire is  wire :: cable :: instance path  (item first, top instance last).
   conn s t (Hier/Conn.v) = the least equivalence containing (hwire, hwire') for wire occurrences of
   the design below the top instance t, whenever an instance pin on hwire (outer side, in the
   parent) is the port pin attached to hwire' one level down.
   Hypotheses: Inv1a (C01 containment), Inv2a (C02 reference sets), WFk (well-kinded, allocated),
   WFc (pins and wires point at each other; a wire touches only port pins of its own definition and
   pins of that definition's children), acyclic, the top instance is a proper root (it may also be
   a child of a definition outside the design). All of them are evaluated (booleans inv1a_b, inv2a_b, wfk_b, wfc_b, acyclic_b) on every netlist of the correspondence run.

   Contents: generic closure; selection ALL from wire / pin / port / cable starts (get_hwires and
   get_hcables), symmetric; absence of duplicates (any heap, any selection, any object searched);
   get_hcables = the cables of get_hwires (any heap, any selection); the narrow selections INSIDE /
   OUTSIDE / BOTH from pin / wire / port / cable starts; pins of a wire; the full statement C12_full
   with its proof C12_full_holds, and C12_full_nodup_holds ("each once" in every conjunct). *)
From Coq Require Import List Arith NArith Bool.
From SV Require Import Base.Base IR.State Proofs.Inv1a Proofs.Inv2a Hier.Paths Hier.Enum Hier.Trace Hier.Conn
  Proofs.HierClosure Proofs.HierTrace Proofs.HierNarrow Proofs.HierTraceEx
  Proofs.HierTracePort Proofs.HierTraceCable Proofs.HierCables Proofs.HierNarrowStarts Proofs.HierCablesEx
  Hier.TraceRoots Proofs.HierRoots.
Import ListNotations.

(* ---- the generic closure: a work list with a visited set over a finite universe returns exactly
        the reachable set, each element once, when the fuel exceeds the number of start pins plus
        the pin slots of the universe ---- *)
Theorem C12_worklist_closure_correct :
  forall (A B : Type) (eqA : A -> A -> bool) (eqB : B -> B -> bool),
  (forall x y : A, eqA x y = true <-> x = y) -> (forall x y : B, eqB x y = true <-> x = y) ->
  forall (nb : A -> list B) (pins : B -> list A) (U : list B) (init : list A) (fuel : nat),
  NoDup U -> (forall b : B, reach A B nb pins init b -> In b U) ->
  length init + list_sum (map (fun b : B => length (pins b)) U) < fuel ->
  exists l : list B, wl_close A B eqA eqB nb pins fuel init nil = Some l /\ NoDup l /\
                     (forall b : B, In b l <-> reach A B nb pins init b).
Proof. exact worklist_closure_correct. Qed.
Print Assumptions C12_worklist_closure_correct.

(* ---- selection ALL from a hierarchical wire = its class under conn. The fuel handed to the
        closure by the model, computed from the universe of hierarchical wires of C11
        (all_hwires, complete and duplicate-free), is sufficient. ---- *)
Theorem C12_all : forall s t,
  Inv1a s -> Inv2a s -> WFk s -> WFc s -> is_root s t ->
  forall n U x, acyclic s -> top s n = Some t -> all_hwires s n = Some U -> hwire_occ s t x ->
  exists l, get_hwires_ALL s (pin_weight s U) x = Some l /\ (forall b, In b l <-> Conn.conn s t x b).
Proof. exact get_hwires_ALL_class. Qed.
Print Assumptions C12_all.

(* every member of a net yields the same answer *)
Theorem C12_symmetric : forall s t,
  Inv1a s -> Inv2a s -> WFk s -> WFc s -> is_root s t ->
  forall n U x y, acyclic s -> top s n = Some t -> all_hwires s n = Some U ->
  hwire_occ s t x -> Conn.conn s t x y ->
  exists lx ly, get_hwires_ALL s (pin_weight s U) x = Some lx /\
                get_hwires_ALL s (pin_weight s U) y = Some ly /\ (forall b, In b lx <-> In b ly).
Proof. exact get_hwires_ALL_symmetric. Qed.
Print Assumptions C12_symmetric.

(* selection ALL from a hierarchical pin = the class(es) of the wire(s) attached to it *)
Theorem C12_all_from_pin : forall s t,
  Inv1a s -> Inv2a s -> WFk s -> WFc s -> is_root s t ->
  forall n U a, acyclic s -> top s n = Some t -> all_hwires s n = Some U -> hpin_occ s t a ->
  exists l, get_hwires s SAll false (pin_weight s U) a = Some l /\
            (forall b, In b l <-> exists x, In x (nb_sel s SAll a) /\ Conn.conn s t x b).
Proof. exact get_hwires_ALL_pin. Qed.
Print Assumptions C12_all_from_pin.

(* the relation walked by the code (pins of a wire, wires of a pin) is conn on occurrences *)
Theorem C12_code_relation_is_conn : forall s t,
  Inv1a s -> WFc s ->
  forall x y, hwire_occ s t x -> (code_conn s x y <-> Conn.conn s t x y).
Proof. exact code_conn_iff_conn. Qed.
Print Assumptions C12_code_relation_is_conn.

(* ---- narrow selections: exactly the wire attached on that side of a hierarchical pin ---- *)
Theorem C12_inside : forall s t, Inv1a s -> Inv2a s -> WFk s -> is_root s t ->
  forall usum i q x p, hpin_occ s t (i :: q :: x :: p) ->
  exists l, get_hwires s SInside false usum (i :: q :: x :: p) = Some l /\
            (forall b, In b l <-> exists w c, ipwire s i = Some w /\ par s RWires w = Some c /\
                                             b = w :: c :: x :: p).
Proof. exact get_hwires_INSIDE_pin. Qed.
Print Assumptions C12_inside.

Theorem C12_outside : forall s t, Inv1a s -> Inv2a s -> WFk s -> is_root s t ->
  forall usum i q x x' p', hpin_occ s t (i :: q :: x :: x' :: p') ->
  exists l, get_hwires s SOutside false usum (i :: q :: x :: x' :: p') = Some l /\
            (forall b, In b l <-> exists w c, assoc i (ipins s x) = Some (Some w) /\
                                             par s RWires w = Some c /\ b = w :: c :: x' :: p').
Proof. exact get_hwires_OUTSIDE_pin. Qed.
Print Assumptions C12_outside.

(* a pin of the top instance has nothing outside, even if the top instance is a wired child of a
   definition that is not part of the design *)
Theorem C12_outside_top : forall s t, Inv1a s -> Inv2a s -> WFk s -> is_root s t ->
  forall usum i q, hpin_occ s t [i; q; t] -> get_hwires s SOutside false usum [i; q; t] = Some [].
Proof. exact get_hwires_OUTSIDE_top_pin. Qed.
Print Assumptions C12_outside_top.

(* when the top instance is not itself a child, every crossing that touches the design lies in it *)
Theorem C12_conn_unrestricted_when_top_standalone : forall s t, Inv1a s -> WFc s ->
  forall b b', par s RChildren t = None -> hlink s b b' -> (hwire_occ s t b \/ hwire_occ s t b') ->
  hlink_occ s t b b'.
Proof. exact hlink_occ_standalone. Qed.
Print Assumptions C12_conn_unrestricted_when_top_standalone.

(* ---- pins of a hierarchical wire: exactly the pin occurrences (port pins at the same level,
        pins of sub-instances one level down) whose inside or outside wire it is ---- *)
Theorem C12_pins_of_wire : forall s t, Inv1a s -> Inv2a s -> WFk s -> is_root s t -> WFc s ->
  forall x, hwire_occ s t x ->
  exists l, get_hpins s false x = Some l /\
            (forall a, In a l <-> (hpin_occ s t a /\ In x (nb_sel s SAll a))).
Proof. exact get_hpins_of_hwire. Qed.
Print Assumptions C12_pins_of_wire.

(* the hypotheses are satisfiable by a design with a net that crosses an instance boundary, and the
   theorem applies to it *)
Example C12_hypotheses_satisfiable_example :
  exists s t n U x y,
    Inv1a s /\ Inv2a s /\ WFk s /\ WFc s /\ acyclic s /\ par s RChildren t = None /\ is_root s t /\
    top s n = Some t /\ all_hwires s n = Some U /\ hwire_occ s t x /\ Conn.conn s t x y /\ x <> y.
Proof. exact C12_hypotheses_satisfiable. Qed.

(* ---- PORT and CABLE starts, selection ALL: the union over the pins of the port / the wires of the
        cable of the classes above, each wire occurrence once ---- *)
Theorem C12_all_from_port : forall s t,
  Inv1a s -> Inv2a s -> WFk s -> WFc s -> is_root s t ->
  forall n U q x p, acyclic s -> top s n = Some t -> all_hwires s n = Some U ->
  is_rpath s t (x :: p) -> In q (ports_of s x) ->
  exists l, get_hwires s SAll false (pin_weight s U) (q :: x :: p) = Some l /\ NoDup l /\
            (forall b, In b l <-> exists i y, In i (kids s RPins q) /\
                                              In y (nb_sel s SAll (i :: q :: x :: p)) /\ Conn.conn s t y b).
Proof. exact get_hwires_ALL_port. Qed.
Print Assumptions C12_all_from_port.

Theorem C12_all_from_cable : forall s t,
  Inv1a s -> Inv2a s -> WFk s -> WFc s -> is_root s t ->
  forall n U c x p, acyclic s -> top s n = Some t -> all_hwires s n = Some U ->
  is_rpath s t (x :: p) -> In c (cables_of s x) ->
  exists l, get_hwires s SAll false (pin_weight s U) (c :: x :: p) = Some l /\ NoDup l /\
            (forall b, In b l <-> exists w, In w (kids s RWires c) /\ Conn.conn s t (w :: c :: x :: p) b).
Proof. exact get_hwires_ALL_cable. Qed.
Print Assumptions C12_all_from_cable.

(* ---- no duplicates: in ANY heap, for every selection, every object searched (instances
        included) and every fuel, an answer of get_hwires / get_hcables never repeats a reference;
        get_hpins likewise from a pin / port / cable / wire start ---- *)
Theorem C12_hwires_no_duplicates : forall s x r usum obj l,
  get_hwires s x r usum obj = Some l -> NoDup l.
Proof. exact get_hwires_nodup. Qed.
Print Assumptions C12_hwires_no_duplicates.

Theorem C12_hcables_no_duplicates : forall s x r usum obj l,
  get_hcables s x r usum obj = Some l -> NoDup l.
Proof. exact get_hcables_nodup. Qed.
Print Assumptions C12_hcables_no_duplicates.

Theorem C12_hpins_no_duplicates : forall s r obj l, Inv1a s -> head_not_instance s obj ->
  get_hpins s r obj = Some l -> NoDup l.
Proof. exact get_hpins_nodup. Qed.
Print Assumptions C12_hpins_no_duplicates.

(* ---- get_hcables: in ANY heap, for every selection, from a pin / port / cable / wire start,
        get_hcables stops exactly when get_hwires does and returns exactly the cables of the wires
        get_hwires returns (tl b = the reference of wire b without its first item), each once ---- *)
Theorem C12_hcables_are_cables_of_hwires : forall s x r usum obj lw, head_not_instance s obj ->
  get_hwires s x r usum obj = Some lw ->
  exists lc, get_hcables s x r usum obj = Some lc /\ NoDup lc /\
             (forall k, In k lc <-> exists b, In b lw /\ k = tl b).
Proof. exact get_hcables_of_get_hwires. Qed.
Print Assumptions C12_hcables_are_cables_of_hwires.

Theorem C12_hcables_stops_iff_hwires : forall s x r usum obj, head_not_instance s obj ->
  (get_hcables s x r usum obj = None <-> get_hwires s x r usum obj = None).
Proof. exact get_hcables_stops_iff_get_hwires. Qed.
Print Assumptions C12_hcables_stops_iff_hwires.

(* selection ALL: the cables of the connected wire occurrences, from each kind of start *)
Theorem C12_hcables_from_wire : forall s t,
  Inv1a s -> Inv2a s -> WFk s -> WFc s -> is_root s t ->
  forall n U x, acyclic s -> top s n = Some t -> all_hwires s n = Some U -> hwire_occ s t x ->
  exists l, get_hcables s SAll false (pin_weight s U) x = Some l /\ NoDup l /\
            (forall k, In k l <-> exists b, Conn.conn s t x b /\ k = tl b).
Proof. exact get_hcables_ALL_wire. Qed.
Print Assumptions C12_hcables_from_wire.

Theorem C12_hcables_from_pin : forall s t,
  Inv1a s -> Inv2a s -> WFk s -> WFc s -> is_root s t ->
  forall n U a, acyclic s -> top s n = Some t -> all_hwires s n = Some U -> hpin_occ s t a ->
  exists l, get_hcables s SAll false (pin_weight s U) a = Some l /\ NoDup l /\
            (forall k, In k l <-> exists x b, In x (nb_sel s SAll a) /\ Conn.conn s t x b /\ k = tl b).
Proof. exact get_hcables_ALL_pin. Qed.
Print Assumptions C12_hcables_from_pin.

Theorem C12_hcables_from_port : forall s t,
  Inv1a s -> Inv2a s -> WFk s -> WFc s -> is_root s t ->
  forall n U q x p, acyclic s -> top s n = Some t -> all_hwires s n = Some U ->
  is_rpath s t (x :: p) -> In q (ports_of s x) ->
  exists l, get_hcables s SAll false (pin_weight s U) (q :: x :: p) = Some l /\ NoDup l /\
            (forall k, In k l <-> exists i y b, In i (kids s RPins q) /\
                                                In y (nb_sel s SAll (i :: q :: x :: p)) /\
                                                Conn.conn s t y b /\ k = tl b).
Proof. exact get_hcables_ALL_port. Qed.
Print Assumptions C12_hcables_from_port.

Theorem C12_hcables_from_cable : forall s t,
  Inv1a s -> Inv2a s -> WFk s -> WFc s -> is_root s t ->
  forall n U c x p, acyclic s -> top s n = Some t -> all_hwires s n = Some U ->
  is_rpath s t (x :: p) -> In c (cables_of s x) ->
  exists l, get_hcables s SAll false (pin_weight s U) (c :: x :: p) = Some l /\ NoDup l /\
            (forall k, In k l <-> exists w b, In w (kids s RWires c) /\
                                              Conn.conn s t (w :: c :: x :: p) b /\ k = tl b).
Proof. exact get_hcables_ALL_cable. Qed.
Print Assumptions C12_hcables_from_cable.

(* the hypotheses of the port / cable / get_hcables theorems are satisfiable by a design with a
   two-bit port and a two-wire cable whose bits belong to two nets, each crossing an instance
   boundary: four wire occurrences from the port and from the cable, two cable occurrences *)
Example C12_port_cable_hypotheses_satisfiable_example :
  exists s t n U q x p c x' p' lp lc lk,
    Inv1a s /\ Inv2a s /\ WFk s /\ WFc s /\ acyclic s /\ is_root s t /\
    top s n = Some t /\ all_hwires s n = Some U /\
    is_rpath s t (x :: p) /\ In q (ports_of s x) /\ length (kids s RPins q) = 2 /\
    is_rpath s t (x' :: p') /\ In c (cables_of s x') /\ length (kids s RWires c) = 2 /\
    get_hwires s SAll false (pin_weight s U) (q :: x :: p) = Some lp /\ length lp = 4 /\
    get_hwires s SAll false (pin_weight s U) (c :: x' :: p') = Some lc /\ length lc = 4 /\
    get_hcables s SAll false (pin_weight s U) (q :: x :: p) = Some lk /\ length lk = 2.
Proof. exact C12_port_cable_hypotheses_satisfiable. Qed.

(* ---- narrow selections from wire / port / cable starts ----
   INSIDE from a hierarchical wire: the wire itself and nothing else (equality of lists);
   OUTSIDE: exactly the wire occurrences ONE boundary crossing away (down through an instance pin
   on the wire, or up through a port pin of the enclosing instance), never the wire itself;
   BOTH: the wire and the occurrences one crossing away. Ports: the union over the pins of the port
   of the wire on the selected side; cables: the union over the wires of the cable. *)
Theorem C12_inside_from_wire : forall s t, Inv1a s -> Inv2a s -> WFk s -> is_root s t ->
  forall usum x, hwire_occ s t x -> get_hwires s SInside false usum x = Some [x].
Proof. exact get_hwires_INSIDE_wire. Qed.
Print Assumptions C12_inside_from_wire.

Theorem C12_outside_from_wire : forall s t, Inv1a s -> Inv2a s -> WFk s -> is_root s t -> WFc s ->
  forall usum x, hwire_occ s t x ->
  exists l, get_hwires s SOutside false usum x = Some l /\ NoDup l /\
            (forall b, In b l <-> (hlink_occ s t x b \/ hlink_occ s t b x)).
Proof. exact get_hwires_OUTSIDE_wire. Qed.
Print Assumptions C12_outside_from_wire.

Theorem C12_outside_from_wire_excludes_start : forall s t,
  Inv1a s -> Inv2a s -> WFk s -> is_root s t -> WFc s ->
  forall usum x l, hwire_occ s t x -> get_hwires s SOutside false usum x = Some l -> ~ In x l.
Proof. exact get_hwires_OUTSIDE_wire_excludes_start. Qed.
Print Assumptions C12_outside_from_wire_excludes_start.

Theorem C12_both_from_wire : forall s t, Inv1a s -> Inv2a s -> WFk s -> is_root s t -> WFc s ->
  forall usum x, hwire_occ s t x ->
  exists l, get_hwires s SBoth false usum x = Some l /\ NoDup l /\
            (forall b, In b l <-> (b = x \/ hlink_occ s t x b \/ hlink_occ s t b x)).
Proof. exact get_hwires_BOTH_wire. Qed.
Print Assumptions C12_both_from_wire.

Theorem C12_inside_from_port : forall s t, Inv1a s -> Inv2a s -> WFk s -> is_root s t ->
  forall usum q x p, is_rpath s t (x :: p) -> In q (ports_of s x) ->
  exists l, get_hwires s SInside false usum (q :: x :: p) = Some l /\ NoDup l /\
            (forall b, In b l <-> exists i w c, In i (kids s RPins q) /\ ipwire s i = Some w /\
                                                par s RWires w = Some c /\ b = w :: c :: x :: p).
Proof. exact get_hwires_INSIDE_port. Qed.
Print Assumptions C12_inside_from_port.

Theorem C12_outside_from_port : forall s t, Inv1a s -> Inv2a s -> WFk s -> is_root s t ->
  forall usum q x x' p', is_rpath s t (x :: x' :: p') -> In q (ports_of s x) ->
  exists l, get_hwires s SOutside false usum (q :: x :: x' :: p') = Some l /\ NoDup l /\
            (forall b, In b l <-> exists i w c, In i (kids s RPins q) /\
                                                assoc i (ipins s x) = Some (Some w) /\
                                                par s RWires w = Some c /\ b = w :: c :: x' :: p').
Proof. exact get_hwires_OUTSIDE_port. Qed.
Print Assumptions C12_outside_from_port.

Theorem C12_inside_from_cable : forall s t, Inv1a s -> Inv2a s -> WFk s -> is_root s t ->
  forall usum c x p, is_rpath s t (x :: p) -> In c (cables_of s x) ->
  exists l, get_hwires s SInside false usum (c :: x :: p) = Some l /\ NoDup l /\
            (forall b, In b l <-> exists w, In w (kids s RWires c) /\ b = w :: c :: x :: p).
Proof. exact get_hwires_INSIDE_cable. Qed.
Print Assumptions C12_inside_from_cable.

Theorem C12_outside_from_cable : forall s t, Inv1a s -> Inv2a s -> WFk s -> is_root s t -> WFc s ->
  forall usum c x p, is_rpath s t (x :: p) -> In c (cables_of s x) ->
  exists l, get_hwires s SOutside false usum (c :: x :: p) = Some l /\ NoDup l /\
            (forall b, In b l <-> exists w, In w (kids s RWires c) /\
                                            (hlink_occ s t (w :: c :: x :: p) b \/
                                             hlink_occ s t b (w :: c :: x :: p))).
Proof. exact get_hwires_OUTSIDE_cable. Qed.
Print Assumptions C12_outside_from_cable.

(* satisfiable: a wire occurrence with a crossing; OUTSIDE returns the other side only, from either
   side; INSIDE the wire itself; OUTSIDE from a two-bit port of a sub-instance gives two wires *)
Example C12_narrow_starts_hypotheses_satisfiable_example :
  exists s t x b q x0 x1 p lp,
    Inv1a s /\ Inv2a s /\ WFk s /\ WFc s /\ is_root s t /\
    hwire_occ s t x /\ hlink_occ s t x b /\
    get_hwires s SOutside false 0 x = Some [b] /\ get_hwires s SOutside false 0 b = Some [x] /\
    get_hwires s SInside false 0 x = Some [x] /\
    is_rpath s t (x0 :: x1 :: p) /\ In q (ports_of s x0) /\
    get_hwires s SOutside false 0 (q :: x0 :: x1 :: p) = Some lp /\ length lp = 2.
Proof. exact C12_narrow_starts_hypotheses_satisfiable. Qed.

(* ---- full statement: wire, pin, port and cable starts (unions over their pins / wires) and
        get_hcables; proved below (C12_full_holds), and with the absence of duplicates added to
        every conjunct (C12_full_nodup_holds) ---- *)
Definition C12_full : Prop := forall s t,
  Inv1a s -> Inv2a s -> WFk s -> WFc s -> is_root s t ->
  forall n U, acyclic s -> top s n = Some t -> all_hwires s n = Some U ->
  (forall x, hwire_occ s t x ->
     exists l, get_hwires_ALL s (pin_weight s U) x = Some l /\ (forall b, In b l <-> Conn.conn s t x b))
  /\ (forall a, hpin_occ s t a ->
     exists l, get_hwires s SAll false (pin_weight s U) a = Some l /\
               (forall b, In b l <-> exists x, In x (nb_sel s SAll a) /\ Conn.conn s t x b))
  /\ (forall q x p, is_rpath s t (x :: p) -> In q (ports_of s x) ->
     exists l, get_hwires s SAll false (pin_weight s U) (q :: x :: p) = Some l /\
               (forall b, In b l <-> exists i y, In i (kids s RPins q) /\
                                                 In y (nb_sel s SAll (i :: q :: x :: p)) /\ Conn.conn s t y b))
  /\ (forall c x p, is_rpath s t (x :: p) -> In c (cables_of s x) ->
     exists l, get_hwires s SAll false (pin_weight s U) (c :: x :: p) = Some l /\
               (forall b, In b l <-> exists w, In w (kids s RWires c) /\ Conn.conn s t (w :: c :: x :: p) b))
  /\ (forall x, hwire_occ s t x ->
     exists l, get_hcables s SAll false (pin_weight s U) x = Some l /\
               (forall k, In k l <-> exists b, Conn.conn s t x b /\ k = tl b)).

Theorem C12_full_holds : C12_full.
Proof. exact C12_full_proof. Qed.
Print Assumptions C12_full_holds.

(* the same with "each once" in every conjunct, and get_hcables from every kind of start *)
Definition C12_full_nodup : Prop := forall s t,
  Inv1a s -> Inv2a s -> WFk s -> WFc s -> is_root s t ->
  forall n U, acyclic s -> top s n = Some t -> all_hwires s n = Some U ->
  (forall x, hwire_occ s t x ->
     (exists l, get_hwires_ALL s (pin_weight s U) x = Some l /\ NoDup l /\
                (forall b, In b l <-> Conn.conn s t x b)) /\
     (exists l, get_hcables s SAll false (pin_weight s U) x = Some l /\ NoDup l /\
                (forall k, In k l <-> exists b, Conn.conn s t x b /\ k = tl b)))
  /\ (forall a, hpin_occ s t a ->
     (exists l, get_hwires s SAll false (pin_weight s U) a = Some l /\ NoDup l /\
                (forall b, In b l <-> exists x, In x (nb_sel s SAll a) /\ Conn.conn s t x b)) /\
     (exists l, get_hcables s SAll false (pin_weight s U) a = Some l /\ NoDup l /\
                (forall k, In k l <-> exists x b, In x (nb_sel s SAll a) /\ Conn.conn s t x b /\ k = tl b)))
  /\ (forall q x p, is_rpath s t (x :: p) -> In q (ports_of s x) ->
     (exists l, get_hwires s SAll false (pin_weight s U) (q :: x :: p) = Some l /\ NoDup l /\
                (forall b, In b l <-> exists i y, In i (kids s RPins q) /\
                                                  In y (nb_sel s SAll (i :: q :: x :: p)) /\ Conn.conn s t y b)) /\
     (exists l, get_hcables s SAll false (pin_weight s U) (q :: x :: p) = Some l /\ NoDup l /\
                (forall k, In k l <-> exists i y b, In i (kids s RPins q) /\
                                                    In y (nb_sel s SAll (i :: q :: x :: p)) /\
                                                    Conn.conn s t y b /\ k = tl b)))
  /\ (forall c x p, is_rpath s t (x :: p) -> In c (cables_of s x) ->
     (exists l, get_hwires s SAll false (pin_weight s U) (c :: x :: p) = Some l /\ NoDup l /\
                (forall b, In b l <-> exists w, In w (kids s RWires c) /\ Conn.conn s t (w :: c :: x :: p) b)) /\
     (exists l, get_hcables s SAll false (pin_weight s U) (c :: x :: p) = Some l /\ NoDup l /\
                (forall k, In k l <-> exists w b, In w (kids s RWires c) /\
                                                  Conn.conn s t (w :: c :: x :: p) b /\ k = tl b))).

Theorem C12_full_nodup_holds : C12_full_nodup.
Proof. exact C12_full_nodup_proof. Qed.
Print Assumptions C12_full_nodup_holds.

(* ==== the remaining roots (Hier/TraceRoots.v, Proofs/HierRoots.v): a COLLECTION of roots, each a
        hierarchical reference, a netlist, a library, a definition, an instance or a plain port / cable /
        pin / wire; `recursive`; `patterns`: pat = "some pattern selects this name" (name map: absolute
        patterns by lookup), dpat = "some pattern matches this name" (references found directly, since
        fix 1630eaa of the former finding C13-K6; dm = the resulting test on a reference, direct_match).
        An entry of the work list is (marked bypass?, reference). ==== *)

(* in ANY heap, for every selection, recursive flag, patterns and collection of roots, an answer never
   repeats a reference *)
Theorem C12_roots_hwires_no_duplicates : forall s x r pat dpat usum roots l,
  get_hwires_roots s x r pat dpat usum roots = Some l -> NoDup l.
Proof. exact get_hwires_roots_nodup. Qed.

Theorem C12_roots_hcables_no_duplicates : forall s x r pat dpat usum roots l,
  get_hcables_roots s x r pat dpat usum roots = Some l -> NoDup l.
Proof. exact get_hcables_roots_nodup. Qed.

Theorem C12_roots_hpins_no_duplicates : forall s r pat dpat roots l,
  get_hpins_roots s r pat dpat roots = Some l -> NoDup l.
Proof. exact get_hpins_roots_nodup. Qed.

Theorem C12_roots_hports_no_duplicates : forall s r pat dpat roots l,
  get_hports_roots s r pat dpat roots = Some l -> NoDup l.
Proof. exact get_hports_roots_nodup. Qed.

(* netlist root, INSIDE (the default selection), recursive: every hierarchical wire of the design below
   the top instance (the enumeration of C11) whose name relative to the top the patterns select, each
   once. With the default pattern that is every hierarchical wire that has a name. *)
Theorem C12_roots_netlist_recursive : forall s n t pat dpat usum,
  Inv1a s -> WFk s -> acyclic s ->
  kind_of s n = Some KNetlist -> top s n = Some t -> is_valid s [t] = true ->
  exists l, get_hwires_roots s SInside true pat dpat usum [RObj (QId n)] = Some l /\ NoDup l /\
    (forall h, In h l <->
       (exists w c x p, h = w :: c :: x :: p /\ is_rpath s t (x :: p) /\
                        In c (cables_of s x) /\ In w (kids s RWires c)) /\
       name_ok s pat (0, h) = true).
Proof. exact get_hwires_roots_netlist_recursive. Qed.

(* netlist root, any `recursive`: the model of the collection agrees with the netlist query of C11 *)
Theorem C12_roots_netlist_is_C11_enumeration : forall s n t r pat dpat usum l0,
  kind_of s n = Some KNetlist -> top s n = Some t -> is_valid s [t] = true ->
  get_hwires_netlist s n r = Some l0 ->
  exists l, get_hwires_roots s SInside r pat dpat usum [RObj (QId n)] = Some l /\ NoDup l /\
            (forall h, In h l <-> In h l0 /\ name_ok s pat (0, h) = true).
Proof. exact get_hwires_roots_netlist_INSIDE. Qed.

(* a reference to a hierarchical instance that goes through the name map (handed in as a reference),
   INSIDE, in any heap: the wires of its cell (and below it when recursive) whose name RELATIVE TO
   THAT INSTANCE the patterns select *)
Theorem C12_roots_instance_reference_inside : forall s r pat dm usum it rest l0,
  is_valid s (it :: rest) = true -> kind_of s it = Some KInstance ->
  hwires_below s r (it :: rest) = Some l0 ->
  exists l, get_hwires_entries s SInside r pat dm usum [(false, it :: rest)] = Some l /\ NoDup l /\
            (forall h, In h l <-> In h l0 /\ name_ok s pat (length rest, h) = true).
Proof. exact get_hwires_entries_INSIDE_href. Qed.

(* selection ALL over any collection: what the entries yield directly, and the connectivity classes of
   the wires on either side of every pin they hand to the closure - each once. ONE closure serves the
   whole collection; a reference is kept when the pattern test dm accepts it (filter law; before fix
   1630eaa the patterns played no part). *)
Theorem C12_roots_all_collection : forall s t,
  Inv1a s -> WFk s -> WFc s ->
  forall n U r pat dm es y st nm,
  acyclic s -> top s n = Some t -> all_hwires s n = Some U ->
  collect (hw_entry s SAll r) es = Some (y, st, nm) ->
  (forall a, In a st -> hpin_occ s t a) ->
  exists l, get_hwires_entries s SAll r pat dm (pin_weight s U) es = Some l /\ NoDup l /\
            (forall b, In b l <-> dm b = true /\
                                  (In b y \/
                                   exists a x, In a st /\ In x (nb_sel s SAll a) /\ Conn.conn s t x b)).
Proof. exact get_hwires_entries_ALL. Qed.

(* union law: searching two collections at once = the union of the two answers *)
Theorem C12_roots_all_union : forall s t,
  Inv1a s -> WFk s -> WFc s ->
  forall n U r pat dm es1 es2 y1 st1 nm1 y2 st2 nm2,
  acyclic s -> top s n = Some t -> all_hwires s n = Some U ->
  collect (hw_entry s SAll r) es1 = Some (y1, st1, nm1) -> (forall a, In a st1 -> hpin_occ s t a) ->
  collect (hw_entry s SAll r) es2 = Some (y2, st2, nm2) -> (forall a, In a st2 -> hpin_occ s t a) ->
  exists l1 l2 l,
    get_hwires_entries s SAll r pat dm (pin_weight s U) es1 = Some l1 /\
    get_hwires_entries s SAll r pat dm (pin_weight s U) es2 = Some l2 /\
    get_hwires_entries s SAll r pat dm (pin_weight s U) (es1 ++ es2) = Some l /\ NoDup l /\
    (forall b, In b l <-> In b l1 \/ In b l2).
Proof. exact get_hwires_entries_ALL_union. Qed.

(* a hierarchical instance (marked or not: an Instance / Definition / Library root reaches it marked, a
   reference or the netlist unmarked), selection ALL: every wire at or below it, and the nets of the
   wires attached - inside or outside - to every pin at or below it, filtered by the pattern test dm;
   ps = the instance paths at or below it *)
Theorem C12_roots_all_instance : forall s t,
  Inv1a s -> Inv2a s -> WFk s -> WFc s -> is_root s t ->
  forall n U r pat dm bp x p,
  acyclic s -> top s n = Some t -> all_hwires s n = Some U -> is_rpath s t (x :: p) ->
  exists l ps, walk s keep_all (depth_fuel s) (x :: p) = Some ps /\
    (forall q, In q ps <-> HierEnum.ext s keep_all (x :: p) q) /\
    get_hwires_entries s SAll r pat dm (pin_weight s U) [(bp, x :: p)] = Some l /\ NoDup l /\
    (forall b, In b l <-> dm b = true /\
       ((exists q, In q ps /\ In b (hwires_at s q)) \/
        (exists q a y, In q ps /\ In a (hpins_at s q) /\ In y (nb_sel s SAll a) /\ Conn.conn s t y b))).
Proof. exact get_hwires_ALL_instance. Qed.

(* the hypotheses are satisfiable: ex3 (a two-bit port crossed by two nets), the sub-instance as a
   marked entry hands two pin occurrences to the closure; the netlist-root hypotheses hold on ex3 *)
Example C12_roots_hypotheses_satisfiable_example :
  exists s t n U x p,
    Inv1a s /\ Inv2a s /\ WFk s /\ WFc s /\ acyclic s /\ is_root s t /\ top s n = Some t /\
    all_hwires s n = Some U /\ is_rpath s t (x :: p) /\ p <> [] /\
    exists y st, collect (hw_entry s SAll false) [(true, x :: p)] = Some (y, st, []) /\ length st = 2 /\
                 (forall a, In a st -> hpin_occ s t a).
Proof. exact roots_hypotheses_satisfiable. Qed.

Example C12_roots_netlist_hypotheses_satisfiable_example :
  kind_of ex3 0 = Some KNetlist /\ top ex3 0 = Some 14 /\ is_valid ex3 [14] = true /\
  Inv1a ex3 /\ WFk ex3 /\ acyclic ex3.
Proof. exact netlist_root_hypotheses_satisfiable. Qed.

(* concrete answers on ex3 (vm_compute, Proofs/HierRoots.v): netlist root recursive / flat, a pattern
   honoured from the netlist and - since fix 1630eaa - from an Instance root (full names) and from a
   reference to a non-top instance under ALL (names relative to it), a collection of three roots *)
Example C12_roots_example_netlist :
  get_hwires_roots ex3 SInside true pat_any pat_any ex3_u [RObj (QId 0)]
  = Some [[12; 11; 14]; [13; 11; 14]; [7; 6; 10; 14]; [8; 6; 10; 14]].
Proof. exact ex3_roots_netlist_recursive. Qed.

Example C12_roots_example_pattern_honoured_from_netlist :
  get_hwires_roots ex3 SInside true (pat_exact name_1) (pat_exact name_1) ex3_u [RObj (QId 0)] = Some [[13; 11; 14]].
Proof. exact ex3_roots_netlist_pattern. Qed.

(* regression: the former witness of finding C13-K6 (the pattern "[1]" was ignored from the Instance
   root 10: both wires of its cell came back). The wires are called "/[0]" "/[1]" in full: nothing *)
Example C12_roots_example_pattern_from_instance_regression :
  get_hwires_roots ex3 SInside false (pat_exact name_1) (pat_exact name_1) ex3_u [RObj (QId 10)] = Some [].
Proof. exact ex3_roots_instance_pattern_regression. Qed.

Example C12_roots_example_pattern_honoured_from_instance :
  get_hwires_roots ex3 SInside false (pat_exact name_s1) (pat_exact name_s1) ex3_u [RObj (QId 10)]
  = Some [[8; 6; 10; 14]].
Proof. exact ex3_roots_instance_pattern. Qed.

Example C12_roots_example_pattern_relative_to_instance_reference :
  exists l, get_hwires_roots ex3 SAll false (pat_exact name_1) (pat_exact name_1) ex3_u [RHref [10; 14]] = Some l /\
            length l = 2 /\ In [8; 6; 10; 14] l /\ In [13; 11; 14] l.
Proof. exact ex3_roots_href_all_pattern. Qed.

Example C12_roots_example_collection :
  exists l, get_hwires_roots ex3 SInside true pat_any pat_any ex3_u [RHref [10; 14]; RObj (QId 0); RObj (QId 7)] = Some l /\
            length l = 4 /\ NoDup l.
Proof. exact ex3_roots_collection. Qed.

(* the collection model restricted to ONE reference that is not an instance is the single-reference
   model of Hier/Trace.v followed by the pattern test on the references found (any heap, any selection
   / patterns / mark); with patterns that accept everything (the default) the answers are equal: every
   theorem above about wire / pin / port / cable starts speaks about get_hwires_roots [RHref ..] too *)
Theorem C12_roots_single_reference_agrees : forall s x r pat dpat usum obj,
  head_not_instance s obj ->
  get_hwires_roots s x r pat dpat usum [RHref obj]
  = option_map (filter (direct_match s dpat [RHref obj])) (get_hwires s x r usum obj).
Proof. exact get_hwires_roots_href_single. Qed.

Theorem C12_roots_single_reference_agrees_default_patterns : forall s x r pat dm usum bp obj,
  head_not_instance s obj -> (forall h, dm h = true) ->
  get_hwires_entries s x r pat dm usum [(bp, obj)] = get_hwires s x r usum obj.
Proof. exact get_hwires_entries_single_all. Qed.

Theorem C12_roots_all_from_wire_reference : forall s t,
  Inv1a s -> Inv2a s -> WFk s -> WFc s -> is_root s t ->
  forall n U pat dpat x, acyclic s -> top s n = Some t -> all_hwires s n = Some U -> hwire_occ s t x ->
  exists l, get_hwires_roots s SAll false pat dpat (pin_weight s U) [RHref x] = Some l /\
            (forall b, In b l <-> Conn.conn s t x b /\ direct_match s dpat [RHref x] b = true).
Proof. exact get_hwires_roots_ALL_wire. Qed.

(* ---- YIELD ORDER where the design determines it (one netlist / instance-reference root through the
        name map: get_ordered, compared with the implementation as a LIST on every run). The pattern
        loop yields each reference once, and exactly the registered references whose name some pattern
        selects - the ordered answer has the elements of the (unordered) collection model ---- *)
Theorem C12_order_pattern_loop_no_duplicates : forall ab mt pats regs,
  NoDup (pattern_loop ab mt pats regs).
Proof. exact pattern_loop_nodup. Qed.

Theorem C12_order_pattern_loop_elements : forall ab mt pats regs h,
  In h (pattern_loop ab mt pats regs) <->
  exists nm, In (nm, h) regs /\ pat_sel ab mt pats nm = true.
Proof. exact pattern_loop_In. Qed.

Theorem C12_order_answer_elements : forall s k r ab mt pats obj l,
  get_ordered s k r ab mt pats obj = Some (Some l) -> is_valid s obj = true ->
  exists regs nms, registrations s k r obj = Some regs /\
    all_some (map (rel_name s (pred (length obj))) regs) = Some nms /\ NoDup l /\
    (forall h, In h l <-> exists nm, In (nm, h) (combine nms regs) /\ pat_sel ab mt pats nm = true).
Proof. exact get_ordered_elements. Qed.

Example C12_order_example :
  get_ordered ex3 OWires true (fun _ => false) (fun _ _ => true) [[42%N]] [14]
  = Some (Some [[12; 11; 14]; [13; 11; 14]; [7; 6; 10; 14]; [8; 6; 10; 14]]).
Proof. exact ex3_ordered. Qed.

(* an Instance handed in as a plain element (INSIDE, not recursive): the wires of its cell at every
   occurrence of the instance - the valid instance paths ending in it, below the top instance of
   whichever netlist (the occurrences of C11_hrefs_of_instances) - whose FULL hierarchical name some
   pattern matches, each once (filter law; before fix 1630eaa: whatever the patterns, finding C13-K6) *)
Theorem C12_roots_instance_element : forall s x pat dpat usum,
  Inv1a s -> Inv2a s -> WFk s -> acyclic s -> kind_of s x = Some KInstance ->
  exists l, get_hwires_roots s SInside false pat dpat usum [RObj (QId x)] = Some l /\ NoDup l /\
    (forall h, In h l <->
       (exists p, (exists t, is_path s t p) /\ hd_error p = Some x /\ In h (hwires_at s p)) /\
       name_ok s dpat (0, h) = true).
Proof. exact get_hwires_roots_instance_element. Qed.

Example C12_roots_instance_element_hypotheses_satisfiable_example :
  Inv1a ex3 /\ Inv2a ex3 /\ WFk ex3 /\ acyclic ex3 /\ kind_of ex3 10 = Some KInstance /\
  get_hwires_roots ex3 SInside false pat_any pat_any ex3_u [RObj (QId 10)] = Some [[7; 6; 10; 14]; [8; 6; 10; 14]].
Proof. exact ex3_instance_element_hypotheses. Qed.

(* ---- kept as a statement, not proved: (a) from a hierarchical instance with selection ALL the answer is
        saturated - it is exactly the union of the connectivity classes of the wires at or below the
        instance and of the wires attached outside to its own pins (C12_roots_all_instance gives the
        answer as "wires at or below + classes of the wires on the pins at or below"; missing: every
        crossing of a wire at or below goes through a pin at or below, i.e. hpins_of_hwire of those wires
        lie in the start list); (b) Definition / Library roots, and Instance roots with `recursive`, tied to C11's occurrence
        theorem (proved: the Instance root, not recursive - C12_roots_instance_element); (c) the yield ORDER (not determined by the design
        for most roots: hpin_search and the expansion of Definition / Instance roots are Python sets). ---- *)
Definition C12_roots_full : Prop := forall s t,
  Inv1a s -> Inv2a s -> WFk s -> WFc s -> is_root s t ->
  forall n U r pat dm bp x p,
  acyclic s -> top s n = Some t -> all_hwires s n = Some U -> is_rpath s t (x :: p) ->
  exists l, get_hwires_entries s SAll r pat dm (pin_weight s U) [(bp, x :: p)] = Some l /\ NoDup l /\
    (forall b, In b l <-> dm b = true /\
       ((exists q w, HierEnum.ext s keep_all (x :: p) q /\ In w (hwires_at s q) /\ Conn.conn s t w b) \/
        (exists a y, In a (hpins_at s (x :: p)) /\ In y (nb_sel s SAll a) /\ Conn.conn s t y b))).
Print Assumptions C12_roots_hwires_no_duplicates.
Print Assumptions C12_roots_hcables_no_duplicates.
Print Assumptions C12_roots_hpins_no_duplicates.
Print Assumptions C12_roots_hports_no_duplicates.
Print Assumptions C12_roots_netlist_recursive.
Print Assumptions C12_roots_netlist_is_C11_enumeration.
Print Assumptions C12_roots_instance_reference_inside.
Print Assumptions C12_roots_all_collection.
Print Assumptions C12_roots_all_union.
Print Assumptions C12_roots_all_instance.
Print Assumptions C12_roots_hypotheses_satisfiable_example.
Print Assumptions C12_roots_example_collection.
Print Assumptions C12_roots_single_reference_agrees.
Print Assumptions C12_roots_all_from_wire_reference.
Print Assumptions C12_order_pattern_loop_elements.
Print Assumptions C12_order_answer_elements.
Print Assumptions C12_roots_instance_element.
Print Assumptions C12_roots_single_reference_agrees_default_patterns.
Print Assumptions C12_roots_example_pattern_relative_to_instance_reference.
