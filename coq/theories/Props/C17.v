(* C17 - EDIF export gives every object a legal, case-insensitively unique identifier.
   Property theorems only (statements; proofs are in Proofs/Names*.v). Model: Names/Edifify.v,
   tied to spydrnet/composers/edif/edifify_names.py and composer.py by harness/names_check.py.

   Verdict: REFUTED at full strength on the faithful model, by LENGTH only (witnesses below, each
   replayed on the implementation by the harness):
     - a name of 256 letters (or 250 letters + "_sdn_1_") gets a 256-character identifier, one
       more than an identifier without '&' may have;
     - a name ending in _sdn_<250 digits>_ gets an identifier that begins with '_'.
   (Until the repair cd45bba of /repo the property was also refuted by "Ab" / "AB": the comparison
   with the siblings was case-sensitive. The model follows the repaired code; that witness is now
   the Example C17_case_twins_get_distinct_identifiers.)
   What holds for EVERY scope (any code points, any length): C17_all_but_length - the assignment
   completes with fuel 2*siblings+2, keeps names, gives every sibling an identifier made of legal
   characters (so legality is exactly "does not begin with '_' and is short enough"), flags a rename
   exactly when identifier and name differ, makes the identifiers pairwise different ignoring case
   and different, ignoring case, from every other sibling's name. With names short enough that
   nothing is cut the identifiers are also legal: C17_partial = the full conclusion.
   Not modelled: non-ASCII names (str.isalpha/isalnum/lower are Unicode-aware); the identifiers of
   the single nets of multi-wire cables (<identifier>_<index>_, built at output time without any
   check - covered by the end-to-end oracle only). *)
From Coq Require Import List NArith.
From SV Require Import Base.Base IR.State IR.NS Proofs.Ident Names.Edifify
  Proofs.NamesDec Proofs.NamesSuffix Proofs.NamesFuel Proofs.NamesChars Proofs.NamesAssign
  Proofs.NamesLegal Proofs.NamesWitness.
Import ListNotations.

(* the statement at full strength: for every scope of non-empty ASCII names without identifiers,
   the writer's pre-pass completes, keeps length and names, gives every sibling a legal identifier,
   flags a rename exactly when identifier and name differ, makes identifiers pairwise different
   ignoring case, and different, ignoring case, from the other siblings' names *)
Definition C17_full : Prop :=
  forall objs, fresh_scope objs ->
  exists out, assign_all objs = Ok out /\
    length out = length objs /\
    (forall j, name_at out j = name_at objs j) /\
    (forall j, j < length objs ->
       exists r, ident_at out j = Some r /\ legal_identifier r /\
                 (rename_at out j = Some true <-> Some r <> name_at objs j)) /\
    idents_pairwise (fun a b => lower a <> lower b) out /\
    (forall j j' r n, j <> j' -> ident_at out j = Some r -> name_at objs j' = Some n -> lower n <> lower r).

Theorem C17_refuted : ~ C17_full.
Proof. exact c17_refuted. Qed.
Print Assumptions C17_refuted.

Theorem C17_refuted_by_length :
  fresh_scope w_len /\
  exists r, assign_all w_len = Ok [mkSib (repeat 97%N 256) (Some r) false] /\
            length r = 256 /\ ~ legal_identifier r.
Proof. exact c17_refuted_by_length. Qed.
Print Assumptions C17_refuted_by_length.

Theorem C17_refuted_by_suffix_length :
  exists out, assign_all w_len2 = Ok out /\ all_assigned_legal out = false /\
    forallb (fun e => match s_ident e with Some r => Nat.eqb (length r) 256 | None => false end) out = true.
Proof. exact c17_refuted_by_suffix_length. Qed.
Print Assumptions C17_refuted_by_suffix_length.

Theorem C17_refuted_by_giant_suffix :
  exists r, make_valid (fuel_for [fresh w_giant]) 0 [fresh w_giant] w_giant = Ok r /\
            hd 0%N r = 95%N /\ check_edif_identifier r = false.
Proof. exact c17_refuted_by_giant_suffix. Qed.
Print Assumptions C17_refuted_by_giant_suffix.

(* everything but the length, for EVERY fresh scope *)
Theorem C17_all_but_length : forall objs,
  fresh_scope objs -> exists out, assign_all objs = Ok out /\ c17_post_with made objs out.
Proof. exact c17_all_but_length. Qed.
Print Assumptions C17_all_but_length.

(* the full conclusion under the hypothesis that excludes the witnesses: names short enough that
   no truncation occurs (D = digits the counter may need) *)
Theorem C17_partial : forall objs D,
  fresh_scope objs ->
  (forall j n, name_at objs j = Some n -> length n + 8 + S D <= 255) ->
  (N.of_nat (fuel_for objs) < 10 ^ N.of_nat (S D))%N ->
  exists out, assign_all objs = Ok out /\ c17_post objs out.
Proof. exact c17_partial. Qed.
Print Assumptions C17_partial.

Example C17_partial_applies :
  fresh_scope w_ok /\
  (forall j n, name_at w_ok j = Some n -> length n + 8 + 2 <= 255) /\
  (N.of_nat (fuel_for w_ok) < 10 ^ N.of_nat 2)%N /\
  assign_all w_ok =
    Ok [mkSib [97; 45; 98]%N (Some ([97; 95; 98]%N ++ str_sdn ++ [49; 95]%N)) true;
        mkSib [97; 95; 98]%N (Some ([97; 95; 98]%N ++ str_sdn ++ [50; 95]%N)) true;
        mkSib [65; 95; 66]%N (Some ([97; 95; 98]%N ++ str_sdn ++ [51; 95]%N)) true;
        mkSib [49; 120]%N (Some [38; 49; 120]%N) true].
Proof. exact c17_partial_applies. Qed.

(* the former witness "Ab" / "AB" *)
Example C17_case_twins_get_distinct_identifiers :
  assign_all w_case = Ok [mkSib [65; 98]%N (Some ([97; 98]%N ++ str_sdn ++ [49; 95]%N)) true;
                          mkSib [65; 66]%N (Some ([97; 98]%N ++ str_sdn ++ [50; 95]%N)) true].
Proof. exact w_case_result. Qed.

(* (a) termination: for every name, every sibling list (names and pre-assigned identifiers of any
   form, including x_sdn_N_) and every position, fuel 2*siblings+2 is enough *)
Theorem C17_fuel_sufficient : forall fuel i objs name,
  2 * length objs + 2 <= fuel -> make_valid fuel i objs name <> OutOfFuel.
Proof. exact make_valid_fuel. Qed.
Print Assumptions C17_fuel_sufficient.

Example C17_fuel_sufficient_applies :
  2 * length w_fuel + 2 <= fuel_for w_fuel /\ make_valid (fuel_for w_fuel) 0 w_fuel [97%N] <> OutOfFuel.
Proof. exact fuel_theorem_applies. Qed.

Example C17_fuel_siblings_plus_2_not_enough :
  make_valid (length w_fuel + 2) 0 w_fuel [97%N] = OutOfFuel /\
  make_valid (fuel_for w_fuel) 0 w_fuel [97%N] = Ok (a_sdn 56).
Proof. exact fuel_siblings_plus_2_not_enough. Qed.

(* the counter is printed injectively and read back exactly *)
Theorem C17_counter_printing : forall a b, dec a = dec b -> a = b.
Proof. exact dec_inj. Qed.
Print Assumptions C17_counter_printing.

Theorem C17_suffix_found : forall b n,
  sdn_suffix (b ++ sfx n) = Some (mkMatch (length b) (6 + length (dec n)) n).
Proof. exact sdn_suffix_sfx. Qed.
Print Assumptions C17_suffix_found.

(* the assignment of a whole scope completes (no fuel exhaustion, no IndexError) ... *)
Theorem C17_assignment_completes : forall objs,
  names_nonempty objs -> exists out, assign_all objs = Ok out.
Proof. exact assign_all_total. Qed.
Print Assumptions C17_assignment_completes.

(* ... keeps length and names ... *)
Theorem C17_names_kept : forall objs out,
  assign_all objs = Ok out -> length out = length objs /\ forall j, name_at out j = name_at objs j.
Proof. exact assign_all_names. Qed.
Print Assumptions C17_names_kept.

(* ... gives every sibling an identifier ... *)
Theorem C17_every_sibling_identified : forall objs out j,
  assign_all objs = Ok out -> j < length objs -> exists r, ident_at out j = Some r.
Proof. exact assign_all_assigned. Qed.
Print Assumptions C17_every_sibling_identified.

(* ... and, per position: a pre-assigned identifier is left alone; a new one consists of legal
   characters, is the value make_valid computed against the then-current siblings, carries the
   rename flag iff it differs from the name (d), and its lower-casing differs from every other
   sibling's name ignoring case (c, the comparison the code makes) *)
Theorem C17_per_sibling : forall objs out,
  assign_all objs = Ok out -> forall j, post_at objs out j.
Proof. exact assign_all_post. Qed.
Print Assumptions C17_per_sibling.

(* (b) universal part: characters *)
Theorem C17_characters : forall fuel i objs name r,
  make_valid fuel i objs name = Ok r -> made r.
Proof. exact make_valid_made. Qed.
Print Assumptions C17_characters.

(* (b) hence: legal exactly when it does not begin with '_' and is short enough *)
Theorem C17_legal_iff : forall r,
  made r -> (legal_identifier r <-> hd 0%N r <> 95%N /\ length_ok r).
Proof. exact made_legal_iff. Qed.
Print Assumptions C17_legal_iff.

Theorem C17_identifier_check : forall s, check_edif_identifier s = true <-> legal_identifier s.
Proof. exact check_edif_identifier_spec. Qed.
Print Assumptions C17_identifier_check.

(* (b) positive part: nothing is cut => legal, whatever the siblings *)
Theorem C17_legal_when_nothing_is_cut : forall fuel D i objs name r,
  length name + 8 + S D <= 255 -> (N.of_nat fuel < 10 ^ N.of_nat (S D))%N ->
  make_valid fuel i objs name = Ok r -> legal_identifier r.
Proof. exact make_valid_legal_short. Qed.
Print Assumptions C17_legal_when_nothing_is_cut.

(* (c): for EVERY scope (any names, any lengths, pre-assigned identifiers allowed as long as they
   differ among themselves ignoring case) the identifiers end up pairwise different ignoring case *)
Theorem C17_distinct : forall objs out,
  idents_pairwise (fun a b => lower a <> lower b) objs ->
  assign_all objs = Ok out ->
  idents_pairwise (fun a b => lower a <> lower b) out.
Proof. exact assign_all_distinct. Qed.
Print Assumptions C17_distinct.

(* the returned identifier is free, ignoring case, among the other siblings' names and identifiers *)
Theorem C17_conflict_free : forall i objs fuel c r,
  conflicts_fix fuel i c objs = Ok r -> conflicts_good i (lower r) objs = true.
Proof. exact conflicts_fix_post. Qed.
Print Assumptions C17_conflict_free.
