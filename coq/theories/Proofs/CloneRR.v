(* C07, faithfulness of Definition._clone (phase two): the three loops that redirect the pointers
   of the copy through the memo rewrite exactly the wire pointer of every copied pin, the pin list of
   every copied wire and the outer-pin table of every copied instance, once, and nothing else. *)
From Coq Require Import List Arith Bool Lia.
From RecordUpdate Require Import RecordSet.
From SV Require Import Base.Base IR.State IR.NS IR.Ops Xform.Clone Proofs.AssocX Proofs.Frame Proofs.Inv1a
  Proofs.InvW Proofs.Fresh Proofs.NsInv Proofs.CloneInv Proofs.CloneMemo.
Import ListNotations RecordSetNotations.

(* fields that the redirect loops never touch *)
Record rsame (s s' : state) : Prop := mkRs {
  rs_kind : kind_of s' = kind_of s; rs_next : next s' = next s; rs_kids : kids s' = kids s;
  rs_iref : iref s' = iref s; rs_drefs : drefs s' = drefs s
}.
Lemma rs_refl s : rsame s s. Proof. constructor; reflexivity. Qed.
Lemma rs_trans a b c : rsame a b -> rsame b c -> rsame a c. Proof. intros [] []. constructor; congruence. Qed.

(* ---- pins ---- *)
Definition pin_step (m : memo) (s : state) (i' : id) : R :=
  match mwire m (ipwire s i') with Some o => ret (set_ipwire s i' o) | None => raise s XAssert end.

Lemma pin_rr_fold m : forall l s sF, fold_idsR (pin_step m) l s = (sF, None) -> NoDup l ->
  rsame s sF /\ wpins sF = wpins s /\ ipins sF = ipins s /\ par sF = par s /\
  (forall y, In y l -> mwire m (ipwire s y) = Some (ipwire sF y)) /\ (forall y, ~ In y l -> ipwire sF y = ipwire s y).
Proof.
  induction l as [|x l IH]; intros s sF E Hnd; cbn [fold_idsR] in E.
  - injection E as <-. split; [apply rs_refl|]. repeat split; try reflexivity. intros y [].
  - unfold pin_step at 1 in E. destruct (mwire m (ipwire s x)) as [o|] eqn:Ex; cbn [bindR ret raise] in E; [|discriminate].
    inversion Hnd as [|? ? Hnx Hndl]; subst.
    destruct (IH _ _ E Hndl) as [Rs [W [I [P [A B]]]]].
    split; [eapply rs_trans; [|exact Rs]; constructor; reflexivity|]. split; [rewrite W; reflexivity|]. split; [rewrite I; reflexivity|].
    split; [rewrite P; reflexivity|]. split.
    + intros y [<-|Hy].
      * rewrite (B x Hnx). cbn. rewrite upd_same. exact Ex.
      * rewrite <- (A y Hy). cbn. unfold upd. replace (Nat.eqb y x) with false; [reflexivity|].
        symmetry. apply Nat.eqb_neq. intros ->. apply Hnx. exact Hy.
    + intros y Hy. rewrite (B y (fun H => Hy (or_intror H))). cbn. unfold upd.
      replace (Nat.eqb y x) with false; [reflexivity|]. symmetry. apply Nat.eqb_neq. intros ->. apply Hy. left. reflexivity.
Qed.

Lemma port_rr_unfold m s p' : port_rr m s p' = fold_idsR (pin_step m) (kids s RPins p') s.
Proof. reflexivity. Qed.

Lemma port_phase m a : forall L s sF,
  fold_idsR (fun s p' => port_rr m (set_par s RPorts p' (Some a)) p') L s = (sF, None) ->
  NoDup (flat_map (kids s RPins) L) ->
  rsame s sF /\ wpins sF = wpins s /\ ipins sF = ipins s /\
  (forall y, In y (flat_map (kids s RPins) L) -> mwire m (ipwire s y) = Some (ipwire sF y)) /\
  (forall y, ~ In y (flat_map (kids s RPins) L) -> ipwire sF y = ipwire s y).
Proof.
  induction L as [|p' L IH]; intros s sF E Hnd; cbn [fold_idsR] in E.
  - injection E as <-. split; [apply rs_refl|]. repeat split; try reflexivity. intros y [].
  - rewrite port_rr_unfold in E. change (kids (set_par s RPorts p' (Some a)) RPins p') with (kids s RPins p') in E.
    destruct (fold_idsR (pin_step m) (kids s RPins p') (set_par s RPorts p' (Some a))) as [s1 [e|]] eqn:E1; cbn [bindR] in E; [discriminate|].
    cbn [flat_map] in Hnd.
    destruct (pin_rr_fold m _ _ _ E1 (nodup_app_l _ _ Hnd)) as [Rs1 [W1 [I1 [_ [A1 B1]]]]].
    assert (Hk1 : kids s1 = kids s) by (rewrite (rs_kids _ _ Rs1); reflexivity).
    rewrite <- Hk1 in Hnd. destruct (IH s1 sF E (nodup_app_r _ _ Hnd)) as [Rs2 [W2 [I2 [A2 B2]]]]. rewrite Hk1 in *.
    split; [eapply rs_trans; [|exact Rs2]; eapply rs_trans; [|exact Rs1]; constructor; reflexivity|].
    split; [rewrite W2, W1; reflexivity|]. split; [rewrite I2, I1; reflexivity|]. cbn [flat_map]. split.
    + intros y Hy. apply in_app_or in Hy as [Hy|Hy].
      * rewrite (B2 y (fun H => nodup_app_disj _ _ y Hnd Hy H)). apply (A1 y Hy).
      * rewrite <- (A2 y Hy). rewrite (B1 y (fun H => nodup_app_disj _ _ y Hnd H Hy)). reflexivity.
    + intros y Hy. rewrite (B2 y (fun H => Hy (in_or_app _ _ _ (or_intror H)))).
      apply (B1 y (fun H => Hy (in_or_app _ _ _ (or_introl H)))).
Qed.

(* ---- wires ---- *)
Definition wire_step (m : memo) (s : state) (w' : id) : R :=
  match map_opt (mpin s m) (wpins s w') with Some l => ret (set_wpins s w' l) | None => raise s XAssert end.

Lemma mpin_ext s s' m p : ipins s' = ipins s -> mpin s' m p = mpin s m p.
Proof. intro H. destruct p; cbn; rewrite ?H; reflexivity. Qed.
Lemma map_opt_ext {A B} (f g : A -> option B) l : (forall x, f x = g x) -> map_opt f l = map_opt g l.
Proof. intro H. induction l as [|x l IH]; cbn; [reflexivity|]. rewrite H, IH. reflexivity. Qed.

Lemma wire_rr_fold m : forall l s sF, fold_idsR (wire_step m) l s = (sF, None) -> NoDup l ->
  rsame s sF /\ ipwire sF = ipwire s /\ ipins sF = ipins s /\ par sF = par s /\
  (forall y, In y l -> map_opt (mpin s m) (wpins s y) = Some (wpins sF y)) /\ (forall y, ~ In y l -> wpins sF y = wpins s y).
Proof.
  induction l as [|x l IH]; intros s sF E Hnd; cbn [fold_idsR] in E.
  - injection E as <-. split; [apply rs_refl|]. repeat split; try reflexivity. intros y [].
  - unfold wire_step at 1 in E. destruct (map_opt (mpin s m) (wpins s x)) as [o|] eqn:Ex; cbn [bindR ret raise] in E; [|discriminate].
    inversion Hnd as [|? ? Hnx Hndl]; subst.
    destruct (IH _ _ E Hndl) as [Rs [W [I [P [A B]]]]].
    split; [eapply rs_trans; [|exact Rs]; constructor; reflexivity|]. split; [rewrite W; reflexivity|]. split; [rewrite I; reflexivity|].
    split; [rewrite P; reflexivity|]. split.
    + intros y [<-|Hy].
      * rewrite (B x Hnx). cbn. rewrite upd_same. exact Ex.
      * rewrite <- (A y Hy). cbn. unfold upd. replace (Nat.eqb y x) with false.
        -- apply map_opt_ext. intro q. symmetry. apply mpin_ext. reflexivity.
        -- symmetry. apply Nat.eqb_neq. intros ->. apply Hnx. exact Hy.
    + intros y Hy. rewrite (B y (fun H => Hy (or_intror H))). cbn. unfold upd.
      replace (Nat.eqb y x) with false; [reflexivity|]. symmetry. apply Nat.eqb_neq. intros ->. apply Hy. left. reflexivity.
Qed.

Lemma cable_rr_unfold m s c' : cable_rr m s c' = fold_idsR (wire_step m) (kids s RWires c') s.
Proof. reflexivity. Qed.

Lemma cable_phase m a : forall L s sF,
  fold_idsR (fun s c' => cable_rr m (set_par s RCables c' (Some a)) c') L s = (sF, None) ->
  NoDup (flat_map (kids s RWires) L) ->
  rsame s sF /\ ipwire sF = ipwire s /\ ipins sF = ipins s /\
  (forall y, In y (flat_map (kids s RWires) L) -> map_opt (mpin s m) (wpins s y) = Some (wpins sF y)) /\
  (forall y, ~ In y (flat_map (kids s RWires) L) -> wpins sF y = wpins s y).
Proof.
  induction L as [|p' L IH]; intros s sF E Hnd; cbn [fold_idsR] in E.
  - injection E as <-. split; [apply rs_refl|]. repeat split; try reflexivity. intros y [].
  - rewrite cable_rr_unfold in E. change (kids (set_par s RCables p' (Some a)) RWires p') with (kids s RWires p') in E.
    destruct (fold_idsR (wire_step m) (kids s RWires p') (set_par s RCables p' (Some a))) as [s1 [e|]] eqn:E1; cbn [bindR] in E; [discriminate|].
    cbn [flat_map] in Hnd.
    destruct (wire_rr_fold m _ _ _ E1 (nodup_app_l _ _ Hnd)) as [Rs1 [W1 [I1 [_ [A1 B1]]]]].
    assert (Hk1 : kids s1 = kids s) by (rewrite (rs_kids _ _ Rs1); reflexivity).
    rewrite <- Hk1 in Hnd. destruct (IH s1 sF E (nodup_app_r _ _ Hnd)) as [Rs2 [W2 [I2 [A2 B2]]]]. rewrite Hk1 in *.
    assert (Hi1 : ipins s1 = ipins s) by (rewrite I1; reflexivity).
    split; [eapply rs_trans; [|exact Rs2]; eapply rs_trans; [|exact Rs1]; constructor; reflexivity|].
    split; [rewrite W2, W1; reflexivity|]. split; [rewrite I2, I1; reflexivity|]. cbn [flat_map]. split.
    + intros y Hy. apply in_app_or in Hy as [Hy|Hy].
      * rewrite (B2 y (fun H => nodup_app_disj _ _ y Hnd Hy H)). rewrite <- (A1 y Hy).
        apply map_opt_ext. intro q. symmetry. apply mpin_ext. reflexivity.
      * rewrite <- (A2 y Hy). rewrite (B1 y (fun H => nodup_app_disj _ _ y Hnd H Hy)).
        apply map_opt_ext. intro q. symmetry. apply mpin_ext. exact Hi1.
    + intros y Hy. rewrite (B2 y (fun H => Hy (in_or_app _ _ _ (or_intror H)))).
      apply (B1 y (fun H => Hy (in_or_app _ _ _ (or_introl H)))).
Qed.

(* ---- instances ---- *)
Definition imap (m : memo) (kv : id * option id) : option (id * option id) :=
  option_map (fun o => (fst kv, o)) (mwire m (snd kv)).

Lemma inst_phase m a : forall L s sF,
  fold_idsR (fun s x' => inst_rr_def m (set_par s RChildren x' (Some a)) x') L s = (sF, None) -> NoDup L ->
  rsame s sF /\ ipwire sF = ipwire s /\ wpins sF = wpins s /\
  (forall y, In y L -> map_opt (imap m) (ipins s y) = Some (ipins sF y)) /\ (forall y, ~ In y L -> ipins sF y = ipins s y).
Proof.
  induction L as [|x L IH]; intros s sF E Hnd; cbn [fold_idsR] in E.
  - injection E as <-. split; [apply rs_refl|]. repeat split; try reflexivity. intros y [].
  - unfold inst_rr_def at 1 in E. change (ipins (set_par s RChildren x (Some a)) x) with (ipins s x) in E.
    fold (imap m) in E. destruct (map_opt (imap m) (ipins s x)) as [o|] eqn:Ex; cbn [bindR ret raise] in E; [|discriminate].
    inversion Hnd as [|? ? Hnx Hndl]; subst.
    destruct (IH _ _ E Hndl) as [Rs [W [P [A B]]]].
    split; [eapply rs_trans; [|exact Rs]; constructor; reflexivity|]. split; [rewrite W; reflexivity|]. split; [rewrite P; reflexivity|]. split.
    + intros y [<-|Hy].
      * rewrite (B x Hnx). cbn. rewrite upd_same. exact Ex.
      * rewrite <- (A y Hy). cbn. unfold upd. replace (Nat.eqb y x) with false; [reflexivity|].
        symmetry. apply Nat.eqb_neq. intros ->. apply Hnx. exact Hy.
    + intros y Hy. rewrite (B y (fun H => Hy (or_intror H))). cbn. unfold upd.
      replace (Nat.eqb y x) with false; [reflexivity|]. symmetry. apply Nat.eqb_neq. intros ->. apply Hy. left. reflexivity.
Qed.
