(* Engine `verilog`, document-level reader: every netlist value the reader returns is well-formed and
   self-contained (Fmt/VSpec.v wf_nv), for ALL documents. From the structural invariant of Proofs/VElabInv.v. *)
From Coq Require Import List ZArith Bool Arith Lia.
From SV Require Import Base.Base Fmt.VBits Fmt.VTop Fmt.VDoc Fmt.VElab Fmt.VSpec
  Proofs.VerilogLists Proofs.VerilogGrow Proofs.VElabBase Proofs.VElabInv.
Import ListNotations.

(* ---------- lists ---------- *)
Lemma in_number {A} (l : list A) k x : In (k, x) (number l) <-> nth_error l k = Some x.
Proof.
  unfold number. assert (G : forall a, In (k, x) (combine (seq a (length l)) l) <-> (a <= k)%nat /\ nth_error l (k - a) = Some x).
  { induction l as [|y l IH]; intro a; cbn.
    - split; [intros []|]. intros [_ H]. destruct (k - a)%nat; discriminate.
    - rewrite IH. split.
      + intros [E|[Hl Hn]].
        * inversion E; subst. split; [lia|]. rewrite Nat.sub_diag. reflexivity.
        * split; [lia|]. replace (k - a)%nat with (S (k - S a)) by lia. exact Hn.
      + intros [Hl Hn]. destruct (Nat.eq_dec a k) as [->|Hne].
        * left. rewrite Nat.sub_diag in Hn. cbn in Hn. inversion Hn. reflexivity.
        * right. split; [lia|]. replace (k - a)%nat with (S (k - S a)) in Hn by lia. exact Hn. }
  rewrite G. rewrite Nat.sub_0_r. split; [intros [_ H]; exact H|intro H; split; [lia|exact H]].
Qed.

Lemma number_fst_nodup {A} (l : list A) : NoDup (map fst (number l)).
Proof.
  unfold number. assert (E : map fst (combine (seq 0 (length l)) l) = seq 0 (length l)).
  { generalize 0%nat. induction l as [|y l IH]; intro a; cbn; [reflexivity|]. rewrite IH. reflexivity. }
  rewrite E. apply seq_NoDup.
Qed.

Lemma NoDup_map_fst {A B} (l : list (A * B)) : NoDup (map fst l) -> NoDup l.
Proof.
  induction l as [|[a b] l IH]; cbn; intro H; [constructor|]. inversion H as [|? ? Hn Hd]; subst.
  constructor; [|apply IH; exact Hd]. intro X. apply Hn. apply in_map_iff. exists (a, b). split; [reflexivity|exact X].
Qed.

Lemma number_nodup {A} (l : list A) : NoDup (number l).
Proof. apply NoDup_map_fst. apply number_fst_nodup. Qed.

Lemma NoDup_flat_map_intro {A B} (f : A -> list B) l :
  NoDup l -> (forall x, In x l -> NoDup (f x)) -> (forall x y e, In x l -> In y l -> In e (f x) -> In e (f y) -> x = y) ->
  NoDup (flat_map f l).
Proof.
  induction l as [|a l IH]; intros Hd Hf Hx; cbn; [constructor|].
  inversion Hd as [|? ? Hn Hd']; subst.
  apply NoDup_app_intro.
  - apply Hf. left. reflexivity.
  - apply IH; [exact Hd'|intros x Hin; apply Hf; right; exact Hin|].
    intros x y e Hi Hj. apply Hx; right; assumption.
  - intros e He Hin. apply in_flat_map in Hin. destruct Hin as (y & Hy & Hey).
    assert (a = y) by (apply (Hx a y e); [left; reflexivity|right; exact Hy|exact He|exact Hey]). subst. contradiction.
Qed.

Lemma NoDup_map_inj_in {A B} (f : A -> B) l : NoDup l -> (forall x y, In x l -> In y l -> f x = f y -> x = y) -> NoDup (map f l).
Proof.
  induction l as [|a l IH]; intros Hd Hf; cbn; [constructor|]. inversion Hd as [|? ? Hn Hd']; subst.
  constructor.
  - intro X. apply in_map_iff in X. destruct X as (y & E & Hy).
    assert (y = a) by (apply Hf; [right; exact Hy|left; reflexivity|exact E]). subst. contradiction.
  - apply IH; [exact Hd'|]. intros x y Hx Hy. apply Hf; right; assumption.
Qed.

Lemma nodup_fst_functional {A B} (l : list (A * B)) a b c : NoDup (map fst l) -> In (a, b) l -> In (a, c) l -> b = c.
Proof.
  induction l as [|[x y] l IH]; cbn; intros Hd H1 H2; [contradiction|]. inversion Hd as [|? ? Hn Hd']; subst.
  destruct H1 as [E1|H1], H2 as [E2|H2].
  - congruence.
  - inversion E1; subst. exfalso. apply Hn. apply in_map_iff. exists (a, c). split; [reflexivity|exact H2].
  - inversion E2; subst. exfalso. apply Hn. apply in_map_iff. exists (a, b). split; [reflexivity|exact H1].
  - apply IH; assumption.
Qed.

Lemma nodup_map_nth {A B} (f : A -> B) l i j x y :
  NoDup (map f l) -> nth_error l i = Some x -> nth_error l j = Some y -> f x = f y -> i = j.
Proof.
  intros Hd Hi Hj E. apply (proj1 (NoDup_nth_error (map f l)) Hd).
  - rewrite map_length. apply nth_error_Some. congruence.
  - rewrite !nth_error_map, Hi, Hj. cbn. f_equal. exact E.
Qed.

(* ---------- labels ---------- *)
Lemma port_label_inj ps i j pi pj : named_distinct ps -> nth_error ps i = Some pi -> nth_error ps j = Some pj ->
  port_label i pi = port_label j pj -> i = j.
Proof.
  intros Hd Hi Hj. unfold port_label. destruct (ep_name pi) as [n|] eqn:Ni, (ep_name pj) as [m|] eqn:Nj; intro E; inversion E; subst.
  - eapply Hd; eassumption.
  - reflexivity.
Qed.

Lemma pin_bit_inj ps pk ord pk' ord' lb i :
  named_distinct ps ->
  pin_bit ps pk ord = Some (lb, i) -> pin_bit ps pk' ord' = Some (lb, i) -> pk = pk' /\ ord = ord'.
Proof.
  intros Hd. unfold pin_bit.
  destruct (nth_error ps pk) as [p|] eqn:Ep; [|discriminate]. destruct (index_of ord _) as [k|] eqn:Ek; [|discriminate].
  destruct (nth_error ps pk') as [p'|] eqn:Ep'; [|discriminate]. destruct (index_of ord' _) as [k'|] eqn:Ek'; [|discriminate].
  intros H1 H2. inversion H1; subst. inversion H2 as [[L B]].
  assert (pk' = pk) by (eapply port_label_inj; eassumption). subst pk'.
  rewrite Ep in Ep'. inversion Ep'; subst p'. split; [reflexivity|].
  assert (k' = k) by lia. subst k'. apply index_of_some in Ek, Ek'. congruence.
Qed.

Lemma pin_bit_label_in ps pk ord lb i : pin_bit ps pk ord = Some (lb, i) ->
  label_in lb i (map (fun kp => {| np_label := port_label (fst kp) (snd kp); np_dir := ep_dir (snd kp);
                                   np_width := length (b_items (ep_b (snd kp))); np_lower := b_lo (ep_b (snd kp)) |}) (number ps)).
Proof.
  unfold pin_bit. destruct (nth_error ps pk) as [p|] eqn:Ep; [|discriminate]. destruct (index_of ord _) as [k|] eqn:Ek; [|discriminate].
  intro H. inversion H; subst.
  exists {| np_label := port_label pk p; np_dir := ep_dir p; np_width := length (b_items (ep_b p)); np_lower := b_lo (ep_b p) |}.
  split; [|split; [reflexivity|]].
  - apply in_map_iff. exists (pk, p). split; [reflexivity|]. apply in_number. exact Ep.
  - cbn. apply index_of_lt in Ek. lia.
Qed.

(* ---------- pins -> endpoints ---------- *)
Lemma ref_ports_distinct s n : Inv s -> named_distinct (ref_ports s (RName n)).
Proof.
  intro I. cbn. destruct (find_def n s) as [k|].
  - apply (di_pnames _ (get_def_dinv k s I)).
  - intros i j pi pj m Hi; destruct i; discriminate.
Qed.

Lemma pin_endpoint_inj s d p1 p2 e : Inv s -> DInv d ->
  pin_endpoint s d p1 = Some e -> pin_endpoint s d p2 = Some e -> p1 = p2.
Proof.
  intros I DI H1 H2.
  destruct p1 as [pk ord|ii pk ord], p2 as [pk' ord'|ii' pk' ord']; cbn in H1, H2.
  - destruct (pin_bit (ed_ports d) pk ord) as [[lb i]|] eqn:E1; [|discriminate].
    destruct (pin_bit (ed_ports d) pk' ord') as [[lb' i']|] eqn:E2; [|discriminate].
    inversion H1; subst. inversion H2; subst.
    destruct (pin_bit_inj _ _ _ _ _ _ _ (di_pnames d DI) E1 E2). subst. reflexivity.
  - destruct (pin_bit (ed_ports d) pk ord) as [[lb i]|]; [|discriminate]. inversion H1; subst.
    destruct (nth_error (ed_insts d) ii') as [x|]; [|discriminate]. destruct (is_assign _); [discriminate|].
    destruct (pin_bit _ pk' ord') as [[? ?]|]; discriminate.
  - destruct (pin_bit (ed_ports d) pk' ord') as [[lb i]|]; [|discriminate]. inversion H2; subst.
    destruct (nth_error (ed_insts d) ii) as [x|]; [|discriminate]. destruct (is_assign _); [discriminate|].
    destruct (pin_bit _ pk ord) as [[? ?]|]; discriminate.
  - destruct (nth_error (ed_insts d) ii) as [x|] eqn:X; [|discriminate].
    destruct (nth_error (ed_insts d) ii') as [x'|] eqn:X'; [|discriminate].
    destruct (ei_ref x) as [n|w] eqn:R; cbn in H1; [|discriminate].
    destruct (ei_ref x') as [n'|w'] eqn:R'; cbn in H2; [|discriminate].
    destruct (pin_bit _ pk ord) as [[lb i]|] eqn:E1; [|discriminate].
    destruct (pin_bit _ pk' ord') as [[lb' i']|] eqn:E2; [|discriminate].
    inversion H1; subst. inversion H2 as [[Hn Hl Hi]]. subst lb' i'.
    assert (ii = ii') by (eapply (nodup_map_nth ei_name); [apply (di_inames d DI)|exact X|exact X'|congruence]). subst ii'.
    rewrite X in X'. inversion X'; subst x'. rewrite R in R'. inversion R'; subst n'.
    destruct (pin_bit_inj _ _ _ _ _ _ _ (ref_ports_distinct s n I) E1 E2). subst. reflexivity.
Qed.

Lemma in_wire_endpoints s d w e : In e (wire_endpoints s d w) <-> exists p, In (p, w) (ed_conn d) /\ pin_endpoint s d p = Some e.
Proof.
  unfold wire_endpoints. rewrite in_flat_map. split.
  - intros ([p w'] & Hin & He). cbn in He. destruct (wire_eqb w' w) eqn:E; [|contradiction].
    apply wire_eqb_spec in E. subst. destruct (pin_endpoint s d p) as [e'|] eqn:P; [|contradiction].
    destruct He as [<-|[]]. exists p. split; assumption.
  - intros (p & Hin & He). exists (p, w). split; [exact Hin|]. cbn. rewrite (proj2 (wire_eqb_spec w w) eq_refl), He. left. reflexivity.
Qed.

Lemma wire_endpoints_nodup s d w : Inv s -> DInv d -> NoDup (wire_endpoints s d w).
Proof.
  intros I DI. unfold wire_endpoints.
  assert (G : forall l, NoDup (map fst l) -> (forall c, In c l -> In c (ed_conn d)) ->
              NoDup (flat_map (fun c : epin * ewire => if wire_eqb (snd c) w then match pin_endpoint s d (fst c) with Some e => [e] | None => [] end else []) l)).
  { induction l as [|[p v] l IH]; cbn; intros Hd Hs; [constructor|]. inversion Hd as [|? ? Hn Hd']; subst.
    apply NoDup_app_intro.
    - destruct (wire_eqb v w); [|constructor]. destruct (pin_endpoint s d p); [constructor; [intros []|constructor]|constructor].
    - apply IH; [exact Hd'|]. intros c Hc. apply Hs. right. exact Hc.
    - intros e He Hin. destruct (wire_eqb v w); [|contradiction]. destruct (pin_endpoint s d p) as [e'|] eqn:P; [|contradiction].
      destruct He as [<-|[]]. apply in_flat_map in Hin. destruct Hin as ([q u] & Hq & He). cbn in He.
      destruct (wire_eqb u w); [|contradiction]. destruct (pin_endpoint s d q) as [e''|] eqn:Q; [|contradiction].
      destruct He as [<-|[]]. assert (p = q) by (eapply pin_endpoint_inj; eassumption). subst q.
      apply Hn. apply in_map_iff. exists (p, u). split; [reflexivity|exact Hq]. }
  apply G; [apply (di_conn d DI)|auto].
Qed.

(* ---------- nets ---------- *)
Definition all_wires (d : edef) : list ewire :=
  flat_map (fun kc => map (fun ko => (fst kc, snd ko)) (number (b_items (ec_b (snd kc))))) (number (ed_cables d)).

Lemma flat_map_snd_opt {A K B} (key : A -> K) (g : A -> list B) l :
  flat_map snd (flat_map (fun x => match g x with [] => [] | _ => [(key x, g x)] end) l) = flat_map g l.
Proof.
  induction l as [|a l IH]; [reflexivity|]. cbn [flat_map]. rewrite flat_map_app, IH. f_equal.
  destruct (g a); cbn; [reflexivity|rewrite app_nil_r; reflexivity].
Qed.

Lemma cable_nets_alt s d ck c :
  cable_nets s d ck c = flat_map (fun ko => match wire_endpoints s d (ck, snd ko) with [] => []
                                            | _ => [((ec_name c, (b_lo (ec_b c) + Z.of_nat (fst ko))%Z), wire_endpoints s d (ck, snd ko))] end)
                                 (number (b_items (ec_b c))).
Proof.
  unfold cable_nets. apply flat_map_ext. intro ko. destruct (wire_endpoints s d (ck, snd ko)); reflexivity.
Qed.

Lemma flat_map_snd_cable_nets s d ck c :
  flat_map snd (cable_nets s d ck c) = flat_map (fun ko => wire_endpoints s d (ck, snd ko)) (number (b_items (ec_b c))).
Proof.
  rewrite cable_nets_alt.
  apply (flat_map_snd_opt (fun ko => (ec_name c, (b_lo (ec_b c) + Z.of_nat (fst ko))%Z)) (fun ko => wire_endpoints s d (ck, snd ko))).
Qed.

Lemma flat_map_flat_map {A B C} (f : B -> list C) (g : A -> list B) l : flat_map f (flat_map g l) = flat_map (fun x => flat_map f (g x)) l.
Proof. induction l as [|a l IH]; cbn; [reflexivity|]. rewrite flat_map_app, IH. reflexivity. Qed.

Lemma flat_map_map {A B C} (f : B -> list C) (g : A -> B) l : flat_map f (map g l) = flat_map (fun x => f (g x)) l.
Proof. induction l as [|a l IH]; cbn; [reflexivity|]. rewrite IH. reflexivity. Qed.

Lemma nets_endpoints s d :
  flat_map snd (flat_map (fun kc => cable_nets s d (fst kc) (snd kc)) (number (ed_cables d))) = flat_map (wire_endpoints s d) (all_wires d).
Proof.
  unfold all_wires. rewrite !flat_map_flat_map. apply flat_map_ext. intros [ck c]. cbn.
  rewrite flat_map_snd_cable_nets, flat_map_map. reflexivity.
Qed.

Lemma all_wires_nodup d : DInv d -> NoDup (all_wires d).
Proof.
  intro DI. unfold all_wires. apply NoDup_flat_map_intro.
  - apply number_nodup.
  - intros [ck c] Hin. apply in_number in Hin. cbn.
    apply NoDup_map_inj_in; [apply number_nodup|].
    intros [k o] [k' o'] Hk Hk' E. cbn in E. inversion E; subst. apply in_number in Hk, Hk'.
    assert (W : wfb (ec_b c)) by (eapply (proj1 (Forall_forall _ _) (di_cables d DI)); eapply nth_error_In; exact Hin).
    destruct W as (_ & Nd & _). f_equal. eapply (proj1 (NoDup_nth_error _) Nd); [apply nth_error_Some; congruence|congruence].
  - intros [ck c] [ck' c'] w Hx Hy Hw Hw'. cbn in Hw, Hw'. apply in_map_iff in Hw, Hw'.
    destruct Hw as (ko & E & _), Hw' as (ko' & E' & _). subst w. inversion E'; subst ck'.
    apply in_number in Hx, Hy. rewrite Hx in Hy. inversion Hy. reflexivity.
Qed.

Lemma nets_once s d : Inv s -> DInv d -> NoDup (flat_map snd (nd_nets (abs_def s d))).
Proof.
  intros I DI. cbn [nd_nets abs_def]. rewrite nets_endpoints.
  apply NoDup_flat_map_intro.
  - apply all_wires_nodup. exact DI.
  - intros w _. apply wire_endpoints_nodup; assumption.
  - intros w1 w2 e _ _ H1 H2. apply in_wire_endpoints in H1, H2. destruct H1 as (p1 & C1 & E1), H2 as (p2 & C2 & E2).
    assert (p1 = p2) by (eapply pin_endpoint_inj; eassumption). subst p2.
    eapply nodup_fst_functional; [apply (di_conn d DI)|exact C1|exact C2].
Qed.

Lemma in_cable_nets s d ck c r eps : In (r, eps) (cable_nets s d ck c) ->
  exists k o, nth_error (b_items (ec_b c)) k = Some o /\ r = (ec_name c, (b_lo (ec_b c) + Z.of_nat k)%Z) /\
              eps = wire_endpoints s d (ck, o) /\ eps <> [].
Proof.
  unfold cable_nets. intro H. apply in_flat_map in H. destruct H as ([k o] & Hko & H). cbn in H.
  destruct (wire_endpoints s d (ck, o)) as [|e l] eqn:E; [contradiction|]. destruct H as [H|[]]. inversion H; subst.
  exists k, o. apply in_number in Hko. split; [exact Hko|]. split; [reflexivity|]. split; [symmetry; exact E|discriminate].
Qed.

Lemma nets_keys s d : DInv d -> NoDup (map fst (nd_nets (abs_def s d))).
Proof.
  intro DI. cbn [nd_nets abs_def]. rewrite flat_map_concat_map, concat_map, map_map, <- flat_map_concat_map.
  apply NoDup_flat_map_intro.
  - apply number_nodup.
  - intros [ck c] Hin. cbn. unfold cable_nets. rewrite flat_map_concat_map, concat_map, map_map, <- flat_map_concat_map.
    apply NoDup_flat_map_intro.
    + apply number_nodup.
    + intros [k o] _. cbn. destruct (wire_endpoints s d (ck, o)); cbn; [constructor|constructor; [intros []|constructor]].
    + intros [k o] [k' o'] key Hk Hk' H1 H2. cbn in H1, H2.
      destruct (wire_endpoints s d (ck, o)); [contradiction|]. destruct (wire_endpoints s d (ck, o')); [contradiction|].
      cbn in H1, H2. destruct H1 as [<-|[]]. destruct H2 as [E|[]]. inversion E. assert (k' = k) by lia. subst.
      apply in_number in Hk, Hk'. congruence.
  - intros [ck c] [ck' c'] key Hx Hy H1 H2. cbn in H1, H2. apply in_map_iff in H1, H2.
    destruct H1 as ([r eps] & E1 & H1), H2 as ([r' eps'] & E2 & H2). cbn in E1, E2. subst r r'.
    apply in_cable_nets in H1, H2. destruct H1 as (k & o & _ & E1 & _), H2 as (k' & o' & _ & E2 & _). subst key. inversion E2 as [[En Ei]].
    apply in_number in Hx, Hy.
    assert (ck = ck') by (eapply (nodup_map_nth ec_name); [apply (di_cnames d DI)|exact Hx|exact Hy|exact En]). subst ck'.
    rewrite Hx in Hy. inversion Hy. reflexivity.
Qed.

(* ---------- bits of cables ---------- *)
Lemma cable_bit_ok s d ck c k : nth_error (ed_cables d) ck = Some c -> (k < length (b_items (ec_b c)))%nat ->
  bit_ok (abs_def s d) (ec_name c, (b_lo (ec_b c) + Z.of_nat k)%Z).
Proof.
  intros Hc Hk.
  exists {| nc_name := ec_name c; nc_width := length (b_items (ec_b c)); nc_lower := b_lo (ec_b c); nc_type := vtype_or_wire (ec_type c); nc_attrs := ec_attrs c |}.
  split; [|split; [reflexivity|cbn; lia]].
  cbn [nd_cables abs_def]. apply in_map_iff. exists c. split; [reflexivity|eapply nth_error_In; exact Hc].
Qed.

Lemma wire_label_ok s d w r : wire_label d w = Some r -> bit_ok (abs_def s d) r.
Proof.
  unfold wire_label. destruct (nth_error (ed_cables d) (fst w)) as [c|] eqn:C; [|discriminate].
  destruct (index_of (snd w) _) as [k|] eqn:K; [|discriminate]. intro H. inversion H; subst.
  eapply cable_bit_ok; [exact C|eapply index_of_lt; exact K].
Qed.

Lemma pin_label_ok s d p : obit_ok (abs_def s d) (pin_label d p).
Proof.
  unfold pin_label. destruct (pin_wire p d) as [w|]; [|exact I].
  destruct (wire_label d w) as [r|] eqn:W; [|exact I]. cbn. eapply wire_label_ok. exact W.
Qed.

(* ---------- instances ---------- *)
Lemma in_abs_insts s d ni : In ni (nd_insts (abs_def s d)) <->
  exists i n, In i (ed_insts d) /\ ei_ref i = RName n /\ ni = {| ni_name := ei_name i; ni_ref := n; ni_params := ei_params i; ni_attrs := ei_attrs i |}.
Proof.
  cbn [nd_insts abs_def]. rewrite in_flat_map. split.
  - intros (i & Hi & H). destruct (ei_ref i) as [n|w] eqn:R; [|contradiction]. destruct H as [<-|[]]. exists i, n. auto.
  - intros (i & n & Hi & R & ->). exists i. split; [exact Hi|]. rewrite R. left. reflexivity.
Qed.

Lemma abs_inst_names_nodup s d : DInv d -> NoDup (map ni_name (nd_insts (abs_def s d))).
Proof.
  intro DI. cbn [nd_insts abs_def]. assert (H := di_inames d DI). revert H.
  induction (ed_insts d) as [|i l IH]; cbn; intro H; [constructor|]. inversion H as [|? ? Hn Hd]; subst.
  destruct (ei_ref i) as [n|w]; cbn; [|apply IH; exact Hd].
  constructor; [|apply IH; exact Hd]. intro X. apply Hn. apply in_map_iff in X. destruct X as (ni & E & Hin).
  apply in_flat_map in Hin. destruct Hin as (j & Hj & Hin). destruct (ei_ref j); [|contradiction]. destruct Hin as [<-|[]].
  cbn in E. rewrite <- E. apply in_map. exact Hj.
Qed.

(* ---------- the theorem ---------- *)
Lemma abs_def_wf s n d : Inv s -> nv_defs n = map (abs_def s) (st_defs s) -> In d (st_defs s) -> wf_def n (abs_def s d).
Proof.
  intros I Hn Hd.
  assert (DI : DInv d) by (eapply (proj1 (Forall_forall _ _) (iv_defs s I)); exact Hd).
  constructor.
  - (* references *)
    intros ni Hni. apply in_abs_insts in Hni. destruct Hni as (i & m & Hi & R & ->). cbn.
    assert (X : In m (names s)).
    { apply (iv_refs s I d m Hd). unfold drefs. rewrite <- R. apply in_map. exact Hi. }
    apply in_map_iff in X. destruct X as (d0 & E & Hd0). exists (abs_def s d0). split; [rewrite Hn; apply in_map; exact Hd0|exact E].
  - (* net bits *)
    intros r eps Hr. cbn [nd_nets abs_def] in Hr. apply in_flat_map in Hr. destruct Hr as ([ck c] & Hc & Hr). cbn in Hr.
    apply in_number in Hc. apply in_cable_nets in Hr. destruct Hr as (k & o & Ho & -> & _ & Hne).
    split; [|exact Hne]. eapply cable_bit_ok; [exact Hc|apply nth_error_Some; congruence].
  - (* endpoints *)
    intros r eps e Hr He. cbn [nd_nets abs_def] in Hr. apply in_flat_map in Hr. destruct Hr as ([ck c] & Hc & Hr). cbn in Hr.
    apply in_cable_nets in Hr. destruct Hr as (k & o & Ho & _ & -> & _).
    apply in_wire_endpoints in He. destruct He as (p & _ & He).
    destruct p as [pk ord|ii pk ord]; cbn in He.
    + destruct (pin_bit (ed_ports d) pk ord) as [[lb i]|] eqn:P; [|discriminate]. inversion He; subst. cbn.
      apply (pin_bit_label_in _ _ _ _ _ P).
    + destruct (nth_error (ed_insts d) ii) as [x|] eqn:X; [|discriminate].
      destruct (ei_ref x) as [m|w] eqn:R; cbn in He; [|discriminate].
      destruct (find_def m s) as [j|] eqn:F; [|destruct pk; discriminate].
      destruct (pin_bit _ pk ord) as [[lb i]|] eqn:P; [|discriminate]. inversion He; subst. cbn.
      destruct (find_def_some _ _ _ F) as [Lj Nj].
      exists {| ni_name := ei_name x; ni_ref := m; ni_params := ei_params x; ni_attrs := ei_attrs x |}, (abs_def s (get_def j s)).
      split; [apply (proj2 (in_abs_insts s d _)); exists x, m; split; [eapply nth_error_In; exact X|split; [exact R|reflexivity]]|].
      split; [reflexivity|]. split; [rewrite Hn; apply in_map; apply get_def_in; exact Lj|]. split; [exact Nj|].
      apply (pin_bit_label_in _ _ _ _ _ P).
  - apply nets_once; assumption.
  - apply nets_keys; assumption.
  - (* port labels *)
    cbn [nd_ports abs_def]. rewrite map_map. cbn.
    apply NoDup_map_inj_in; [apply number_nodup|].
    intros [i pi] [j pj] Hi Hj E. cbn in E. apply in_number in Hi, Hj.
    assert (i = j) by (eapply port_label_inj; [apply (di_pnames d DI)|exact Hi|exact Hj|exact E]). subst. congruence.
  - cbn [nd_cables abs_def]. rewrite map_map. cbn. apply (di_cnames d DI).
  - apply abs_inst_names_nodup. exact DI.
  - intros p Hp. cbn [nd_ports abs_def] in Hp. apply in_map_iff in Hp. destruct Hp as ([k q] & <- & Hq). cbn.
    apply in_number in Hq. assert (W : wfb (ep_b q)) by (eapply (proj1 (Forall_forall _ _) (di_ports d DI)); eapply nth_error_In; exact Hq).
    destruct W as (L & _). lia.
  - intros c Hc. cbn [nd_cables abs_def] in Hc. apply in_map_iff in Hc. destruct Hc as (q & <- & Hq). cbn.
    assert (W : wfb (ec_b q)) by (eapply (proj1 (Forall_forall _ _) (di_cables d DI)); exact Hq). destruct W as (L & _). lia.
  - (* assigns *)
    intros prs oi Hp Hoi. cbn [nd_assigns abs_def] in Hp. unfold def_assigns in Hp. apply in_flat_map in Hp.
    destruct Hp as ([k i] & _ & Hp). cbn in Hp. destruct (ei_ref i) as [m|w]; [contradiction|]. destruct Hp as [<-|[]].
    apply in_map_iff in Hoi. destruct Hoi as (j & <- & _). cbn. split; apply pin_label_ok.
Qed.

Lemma final_top_declared doc s t0 : Inv s -> final_top doc s = Ok (Some t0) ->
  exists k, (k < length (st_defs s))%nat /\ t0 = ed_name (get_def k s).
Proof.
  intros I Ht. unfold final_top in Ht.
  assert (P : parsed_top s = Ok (Some t0) -> exists k, (k < length (st_defs s))%nat /\ t0 = ed_name (get_def k s)).
  { clear Ht. intro Ht. unfold parsed_top in Ht. destruct (st_tops s) as [[|t1 r]|] eqn:T; try discriminate.
    destruct (forallb _ r); [|discriminate]. inversion Ht; subst. exists t1. split; [|reflexivity].
    apply (iv_tops s I (t1 :: r) t1 T). left. reflexivity. }
  destruct (root_defs doc s) as [|k [|k2 l]] eqn:R; try (apply P; exact Ht).
  inversion Ht; subst. exists k. split; [|reflexivity].
  assert (Hk : In k (root_defs doc s)) by (rewrite R; left; reflexivity).
  unfold root_defs in Hk. apply filter_In in Hk. destruct Hk as [Hk _]. apply in_seq in Hk. lia.
Qed.

Theorem abs_state_wf doc s n : Inv s -> abs_state doc s = Ok n -> wf_nv n.
Proof.
  intros I H. unfold abs_state in H. apply bind_ok in H. destruct H as (t & Ht & H). inversion H; subst. clear H.
  split; [|split].
  - cbn. rewrite map_map. cbn. apply (iv_names s I).
  - cbn. intros t0 E. subst t. destruct (final_top_declared doc s t0 I Ht) as (t1 & Lt & ->).
    exists (abs_def s (get_def t1 s)). split; [|reflexivity]. apply in_map. apply get_def_in. exact Lt.
  - cbn. intros d Hd. apply in_map_iff in Hd. destruct Hd as (d0 & <- & Hd0). apply abs_def_wf; [exact I|reflexivity|exact Hd0].
Qed.

Theorem elab_wf doc n : elab doc = Ok n -> wf_nv n.
Proof.
  unfold elab. intro H. apply bind_ok in H. destruct H as (s & Hs & H). eapply abs_state_wf; [eapply run_inv; exact Hs|exact H].
Qed.
