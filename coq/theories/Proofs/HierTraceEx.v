(* C12: the hypotheses of get_hwires_ALL_class / get_hwires_ALL_symmetric (Proofs/HierTrace.v) are
   satisfiable by a concrete heap on which the answer is not trivial: a net that crosses one instance
   boundary.

     0 netlist, 1 library,
     2 definition B: 3 port q, 4 pin i of q, 5 cable c', 6 wire w' of c'   (i sits on w')
     7 definition A: 8 child instance n (of B), 9 cable c, 10 wire w of c   (the outer pin (n, i) sits on w)
     11 top instance t (of A)

   Hierarchical references are LEAF FIRST: the outer occurrence is [10; 9; 11], the inner one is
   [6; 5; 8; 11]; the two are linked by one [hlink]. *)
From Coq Require Import List Arith Bool Lia Relations.
From SV Require Import Base.Base IR.State Proofs.Inv1a Proofs.Inv2a Hier.Paths Hier.Enum Hier.Trace Hier.Conn
  Proofs.HierValid Proofs.HierEnum Proofs.HierClosure Proofs.HierTrace.
Import ListNotations.

Definition ex2 : state :=
  mkState 12
    (fun x => match x with
              | 0 => Some KNetlist | 1 => Some KLibrary
              | 2 => Some KDefinition | 3 => Some KPort | 4 => Some KPin
              | 5 => Some KCable | 6 => Some KWire
              | 7 => Some KDefinition | 8 => Some KInstance
              | 9 => Some KCable | 10 => Some KWire
              | 11 => Some KInstance
              | _ => None end)
    (fun r p => match r, p with
                | RLibs, 0 => [1]
                | RDefs, 1 => [2; 7]
                | RPorts, 2 => [3]
                | RPins, 3 => [4]
                | RCables, 2 => [5]
                | RWires, 5 => [6]
                | RChildren, 7 => [8]
                | RCables, 7 => [9]
                | RWires, 9 => [10]
                | _, _ => [] end)
    (fun r c => match r, c with
                | RLibs, 1 => Some 0
                | RDefs, 2 => Some 1 | RDefs, 7 => Some 1
                | RPorts, 3 => Some 2
                | RPins, 4 => Some 3
                | RCables, 5 => Some 2
                | RWires, 6 => Some 5
                | RChildren, 8 => Some 7
                | RCables, 9 => Some 7
                | RWires, 10 => Some 9
                | _, _ => None end)
    (fun w => match w with 6 => [PIn 4] | 10 => [POut 8 4] | _ => [] end)
    (fun i => match i with 4 => Some 6 | _ => None end)
    (fun x => match x with 8 => Some 2 | 11 => Some 7 | _ => None end)
    (fun d => match d with 2 => [8] | 7 => [11] | _ => [] end)
    (fun n => match n with 8 => [(4, Some 10)] | _ => [] end)
    (fun n => match n with 0 => Some 11 | _ => None end)
    (fun x => match x with 11 => true | _ => false end)
    (bdownto init) (bscalar init) (blower init) (pdir init) (data init) (nstab init)
    PolDefault [].

(* case analysis on an id up to the allocation bound of ex2 *)
Ltac id12 x := destruct x as [|[|[|[|[|[|[|[|[|[|[|[|x]]]]]]]]]]]].

Lemma ex2_inv1a : Inv1a ex2.
Proof.
  constructor.
  - intros r p x. split.
    + destruct r; cbn; id12 p; cbn; try contradiction;
        intro H; repeat destruct H as [<-|H]; try reflexivity; try contradiction.
    + destruct r; cbn; id12 x; cbn; try discriminate;
        intro H; injection H as <-; cbn; auto.
  - intros r p. destruct r; cbn; id12 p; cbn;
      repeat (constructor; cbn; try (intros [H|H]; [discriminate H|exact H]); try (intros []));
      try (intro H; exact H).
Qed.

Lemma ex2_inv2a : Inv2a ex2.
Proof.
  constructor.
  - intros n d. split.
    + cbn. id12 d; cbn; try contradiction;
        intro H; repeat destruct H as [<-|H]; try reflexivity; try contradiction.
    + cbn. id12 n; cbn; try discriminate; intro H; injection H as <-; cbn; auto.
  - intros d. cbn. id12 d; cbn;
      repeat (constructor; cbn; try (intros [H|H]; [discriminate H|exact H]); try (intros []));
      try (intro H; exact H).
Qed.

Lemma ex2_wfk : WFk ex2.
Proof.
  constructor.
  - intros r p c. destruct r; cbn; id12 p; cbn; try contradiction;
      intro H; repeat destruct H as [<-|H]; try reflexivity; try contradiction.
  - intros r p c. destruct r; cbn; id12 p; cbn; try contradiction;
      intros _; reflexivity.
  - intros x d. cbn. id12 x; cbn; try discriminate; reflexivity.
  - intros r p c. destruct r; cbn; id12 p; cbn; try contradiction;
      intro H; repeat destruct H as [<-|H]; try lia; try contradiction.
  - intros x d. cbn. id12 x; cbn; try discriminate; lia.
Qed.

(* the only parent/child pair of instances: n = 8 below t = 11 *)
Lemma ex2_child c x : child ex2 c x -> x = 11 /\ c = 8.
Proof.
  unfold child, sub. cbn.
  id12 x; cbn; try contradiction.
  intros [<-|[]]. split; reflexivity.
Qed.

Lemma ex2_acyclic : acyclic ex2.
Proof.
  intro x. constructor. intros c H. apply ex2_child in H as [-> ->].
  constructor. intros c' H'. apply ex2_child in H' as [E _]. discriminate.
Qed.

Lemma ex2_wfc : WFc ex2.
Proof.
  constructor.
  - (* wc_in *)
    intros i w. split.
    + cbn. id12 w; cbn; try contradiction; intros [H|[]]; try discriminate H.
      inversion H; subst. reflexivity.
    + cbn. id12 i; cbn; try discriminate. intro H; injection H as <-. cbn. left; reflexivity.
  - (* wc_out *)
    intros n i w. split.
    + cbn. id12 w; cbn; try contradiction; intros [H|[]]; try discriminate H.
      inversion H; subst. reflexivity.
    + cbn. id12 n; cbn; try discriminate.
      destruct i as [|[|[|[|[|i]]]]]; cbn; try discriminate.
      intro H; inversion H; subst. cbn. left; reflexivity.
  - (* wc_local_in *)
    intros i w c. cbn. id12 w; cbn; try contradiction; intros [H|[]]; try discriminate H.
    inversion H; subst. intro Hc; inversion Hc; subst.
    exists 2, 3. cbn. repeat split; reflexivity.
  - (* wc_local_out *)
    intros n i w c. cbn. id12 w; cbn; try contradiction; intros [H|[]]; try discriminate H.
    inversion H; subst. intro Hc; inversion Hc; subst.
    exists 7, 3, 2. cbn. repeat split; reflexivity.
Qed.

Lemma ex2_root : is_root ex2 11.
Proof. exists 0. split; reflexivity. Qed.

Lemma ex2_top_standalone : par ex2 RChildren 11 = None.
Proof. reflexivity. Qed.

Lemma ex2_occ_x : hwire_occ ex2 11 [10; 9; 11].
Proof.
  exists 10, 9, 11, []. split; [reflexivity|]. split; [apply rp_top|].
  split; cbn; left; reflexivity.
Qed.

(* the inner occurrence, one level down (n = 8 is a child of t = 11) *)
Lemma ex2_occ_y : hwire_occ ex2 11 [6; 5; 8; 11].
Proof.
  exists 6, 5, 8, [11]. split; [reflexivity|]. split.
  - apply rp_child; [apply rp_top|]. unfold child, sub. cbn. left; reflexivity.
  - split; cbn; left; reflexivity.
Qed.

Lemma ex2_link : hlink ex2 [10; 9; 11] [6; 5; 8; 11].
Proof. apply (hlink_intro ex2 8 4 [11] 10 9 6 5); cbn; auto. Qed.

Lemma ex2_conn : Conn.conn ex2 11 [10; 9; 11] [6; 5; 8; 11].
Proof. apply rst_step. split; [exact ex2_occ_x|]. split; [exact ex2_occ_y|exact ex2_link]. Qed.

Lemma ex2_universe : all_hwires ex2 0 = Some [[10; 9; 11]; [6; 5; 8; 11]].
Proof. vm_compute. reflexivity. Qed.

Example ex2_answer :
  get_hwires_ALL ex2 (pin_weight ex2 [[10; 9; 11]; [6; 5; 8; 11]]) [10; 9; 11]
  = Some [[10; 9; 11]; [6; 5; 8; 11]].
Proof. vm_compute. reflexivity. Qed.

(* the same net, asked from the inner occurrence *)
Example ex2_answer_inner :
  get_hwires_ALL ex2 (pin_weight ex2 [[10; 9; 11]; [6; 5; 8; 11]]) [6; 5; 8; 11]
  = Some [[6; 5; 8; 11]; [10; 9; 11]].
Proof. vm_compute. reflexivity. Qed.

Example C12_hypotheses_satisfiable :
  exists s t n U x y,
    Inv1a s /\ Inv2a s /\ WFk s /\ WFc s /\ acyclic s /\ par s RChildren t = None /\ is_root s t /\
    top s n = Some t /\ all_hwires s n = Some U /\ hwire_occ s t x /\ Conn.conn s t x y /\ x <> y.
Proof.
  exists ex2, 11, 0, [[10; 9; 11]; [6; 5; 8; 11]], [10; 9; 11], [6; 5; 8; 11].
  split; [exact ex2_inv1a|]. split; [exact ex2_inv2a|]. split; [exact ex2_wfk|].
  split; [exact ex2_wfc|]. split; [exact ex2_acyclic|]. split; [exact ex2_top_standalone|].
  split; [exact ex2_root|]. split; [reflexivity|]. split; [exact ex2_universe|].
  split; [exact ex2_occ_x|]. split; [exact ex2_conn|]. discriminate.
Qed.

(* the general theorems apply to the instance *)
Example ex2_class :
  exists l, get_hwires_ALL ex2 (pin_weight ex2 [[10; 9; 11]; [6; 5; 8; 11]]) [10; 9; 11] = Some l /\
            forall b, In b l <-> Conn.conn ex2 11 [10; 9; 11] b.
Proof.
  exact (get_hwires_ALL_class ex2 11 ex2_inv1a ex2_inv2a ex2_wfk ex2_wfc ex2_root
           0 _ _ ex2_acyclic eq_refl ex2_universe ex2_occ_x).
Qed.

Example ex2_symmetric :
  exists lx ly,
    get_hwires_ALL ex2 (pin_weight ex2 [[10; 9; 11]; [6; 5; 8; 11]]) [10; 9; 11] = Some lx /\
    get_hwires_ALL ex2 (pin_weight ex2 [[10; 9; 11]; [6; 5; 8; 11]]) [6; 5; 8; 11] = Some ly /\
    forall b, In b lx <-> In b ly.
Proof.
  exact (get_hwires_ALL_symmetric ex2 11 ex2_inv1a ex2_inv2a ex2_wfk ex2_wfc ex2_root
           0 _ _ _ ex2_acyclic eq_refl ex2_universe ex2_occ_x ex2_conn).
Qed.

(* consequence: on ex2 the class of the outer occurrence is exactly the two occurrences *)
Example ex2_conn_class : forall b,
  Conn.conn ex2 11 [10; 9; 11] b <-> b = [10; 9; 11] \/ b = [6; 5; 8; 11].
Proof.
  intro b. destruct ex2_class as (l & E & S). rewrite ex2_answer in E. inversion E; subst l.
  rewrite <- S. cbn. split; [intros [H|[H|[]]]; auto|intros [H|H]; auto].
Qed.

Print Assumptions ex2_wfc.
Print Assumptions C12_hypotheses_satisfiable.
Print Assumptions ex2_class.
Print Assumptions ex2_symmetric.
Print Assumptions ex2_conn_class.
Print Assumptions ex2_answer.
Print Assumptions ex2_answer_inner.
