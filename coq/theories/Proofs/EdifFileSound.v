(* Theorem (b) for the whole-file EDIF reader model: soundness against the declarative meaning
   [denote_file] of Fmt/EdifFileDenote.v.

     elab_file_sound_read : elab_file d = Ok n -> denote_file_with conn_read d n     (ALL documents)
       libraries / cells / ports / instances / properties / references / pin designators / top are
       what the document declares, and the cables of every cell are [read_nets] of the denoted nets;
     elab_file_sound      : supported d = true -> elab_file d = Ok n -> denote_file d n
       on documents whose cells satisfy [nets_ok] the cables are the MEANING of the nets
       ([denote_conn]: one cable per net / per bus, bit i on wire i - lower, gaps empty), through
       Proofs/EdifNetsDenote.v nets_sound.
   The cell-level statements are relative to any final library list F that resolves what the cell's
   context resolves ([env_ok], as in Proofs/EdifFileWf.v); [env_ok_final] discharges it for the
   library list the reader returns. *)
From Coq Require Import String.
From Coq Require Import List NArith ZArith Bool Arith Lia Permutation.
From SV Require Import Base.Base Fmt.EdifLex Fmt.EdifName Fmt.EdifCable Fmt.EdifBus Fmt.EdifNets Fmt.EdifNetsSpec
  Fmt.EdifFile Fmt.EdifFileSpec Fmt.EdifFileDenote Proofs.EdifNetsProofs Proofs.EdifFileNets Proofs.EdifFileWf Proofs.EdifNetsDenote.
Import ListNotations.

(* ---- loops over a processed prefix ---- *)
Lemma loop_pre {S} (step : S -> str -> list sexp -> result S) ae (Q : list sexp -> S -> Prop) :
  (forall pre a args s s', Q pre s -> step s (lower a) args = Ok s' -> Q (pre ++ [SList (Atom a :: args)]) s') ->
  (forall pre s, Q pre s -> Q (pre ++ [SList []]) s) ->
  forall l pre s s', Q pre s -> loop step ae s l = Ok s' -> Q (pre ++ l) s'.
Proof.
  intros Hstep Hempty l. induction l as [|x l IH]; intros pre s s' Hq H; cbn in H.
  - inversion H; subst. now rewrite app_nil_r.
  - replace (pre ++ x :: l) with ((pre ++ [x]) ++ l) by (rewrite <- app_assoc; reflexivity).
    destruct x as [a|a|[|[a|a|a] args]]; try discriminate.
    + destruct ae; [|discriminate]. eapply IH; [|exact H]. auto.
    + destruct (step s (lower a) args) as [s1|] eqn:E; [|discriminate]. eapply IH; [|exact H]. eauto.
Qed.

Lemma sel_app k a b : sel k (a ++ b) = sel k a ++ sel k b.
Proof.
  induction a as [|x a IH]; cbn; auto. destruct (kw_of x) as [[c args]|]; auto.
  destruct (kweq c k); cbn; now rewrite IH.
Qed.

Lemma sel_one k a args : sel k [SList (Atom a :: args)] = if kweq (lower a) k then [args] else [].
Proof. cbn. destruct (kweq (lower a) k); reflexivity. Qed.

Lemma sel_empty k : sel k [SList []] = [].
Proof. reflexivity. Qed.

Lemma Forall2_impl {A B} (R R' : A -> B -> Prop) xs ys : (forall a b, R a b -> R' a b) -> Forall2 R xs ys -> Forall2 R' xs ys.
Proof. intros H F. induction F; constructor; auto. Qed.

Lemma Forall2_snoc {A B} (R : A -> B -> Prop) xs ys x y : Forall2 R xs ys -> R x y -> Forall2 R (xs ++ [x]) (ys ++ [y]).
Proof. intros. apply Forall2_app; auto. Qed.

(* kweq on two different literal keywords *)
Lemma kweq_excl k (a b : string) : K a <> K b -> kweq k a = true -> kweq k b = false.
Proof.
  unfold kweq. intros Hne Ha. apply str_eqb_spec in Ha. subst. apply str_eqb_neq. exact Hne.
Qed.

(* ---- names ---- *)
Lemma parse_rename_decl l n : parse_rename l = Ok n -> decl_nd (SList l) (nm_ident n) (nm_orig n).
Proof.
  unfold parse_rename. intro H. destruct l as [|k [|[a| |] [|[|s|] [|]]]]; try discriminate.
  destruct (is_kw "rename" k) eqn:Ek; [|discriminate]. cbn in H.
  destruct (ident_tok_ok a && str_tok_ok s); [|discriminate].
  destruct (unescape_value s) as [v|] eqn:U; [|discriminate]. inversion H; subst; cbn. now constructor.
Qed.

Lemma parse_namedef_decl x n : parse_namedef x = Ok n -> decl_nd x (nm_ident n) (nm_orig n).
Proof.
  destruct x as [a|s|l]; cbn; try discriminate.
  - destruct (ident_tok_ok a); [|discriminate]. intro H; inversion H; subst; cbn. constructor.
  - apply parse_rename_decl.
Qed.

Lemma parse_elemname_decl x n : parse_elemname x = Ok n -> decl_nd x (nm_ident n) (nm_orig n).
Proof.
  unfold parse_elemname, legal. destruct (parse_namedef x) as [m|] eqn:E; [|discriminate].
  destruct (NS.check_edif_identifier _); [|discriminate]. intro H; inversion H; subst. now apply parse_namedef_decl.
Qed.

Lemma nm_name_display n : nm_name n = display (nm_ident n) (nm_orig n).
Proof. reflexivity. Qed.

Lemma place_name names idents n nm : place names idents n = Ok nm ->
  nm = display (nm_ident n) (nm_orig n) \/ nm = nm_ident n.
Proof. unfold place. intro H. inv_res H; inversion H; subst; auto. Qed.

(* ---- properties ---- *)
Lemma parse_typed_decl tv v : parse_typed tv = Ok v -> decl_value tv v.
Proof.
  unfold parse_typed. intro H. destruct tv as [| |[|[k| |] l]]; try discriminate.
  destruct (kweq (lower k) "boolean") eqn:E1.
  { destruct l as [|[| |[|[b| |] [|]]] [|]]; try discriminate.
    destruct (kweq (lower b) "true") eqn:Eb.
    - inversion H; subst. apply dv_bool; [exact E1|left; split; auto].
    - destruct (kweq (lower b) "false") eqn:Eb2; [|discriminate]. inversion H; subst. apply dv_bool; [exact E1|right; split; auto]. }
  destruct (kweq (lower k) "integer") eqn:E2.
  { destruct l as [|[a| |] [|]]; try discriminate. destruct (int_tok a) eqn:I; [|discriminate]. inversion H; subst.
    apply dv_int; auto. }
  destruct (kweq (lower k) "minomax"); [discriminate|].
  destruct (kweq (lower k) "number") eqn:E3.
  { destruct l as [|[a| |[|[e| |] ?]] ?]; try discriminate.
    - destruct l; [|discriminate]. destruct (int_tok a) eqn:I; [|discriminate]. inversion H; subst.
      apply dv_int; auto.
    - destruct (kweq (lower e) "e"); discriminate. }
  destruct (kweq (lower k) "point"); [discriminate|].
  destruct (kweq (lower k) "string") eqn:E4; [|discriminate].
  destruct l as [|[|s|] [|]]; try discriminate. destruct (str_tok_ok s); [|discriminate].
  destruct (unescape_value s) as [v'|] eqn:U; [|discriminate]. inversion H; subst.
  now apply dv_str.
Qed.

Lemma parse_property_denote args p : parse_property args = Ok p -> denote_prop args p.
Proof.
  unfold parse_property. intro H. destruct args as [|nd [|tv rest]]; try discriminate.
  destruct (parse_namedef nd) as [n|] eqn:N; [|discriminate]. destruct (parse_typed tv) as [v|] eqn:T; [|discriminate].
  destruct (loop prop_rest_step true false rest); [|discriminate]. inversion H; subst; cbn.
  exists nd, tv, rest. repeat split; cbn; [now apply parse_namedef_decl|now apply parse_typed_decl].
Qed.

(* ---- ports ---- *)
Lemma annot_not_direction k args u : annot_step k args = Ok u -> kweq k "direction" = false.
Proof.
  unfold annot_step. intro H. destruct (kweq k "direction") eqn:E; auto. exfalso.
  rewrite (kweq_excl k "direction" "property"), (kweq_excl k "direction" "comment"), (kweq_excl k "direction" "userdata") in H
    by (auto; intro X; vm_compute in X; discriminate). discriminate.
Qed.

Lemma port_loop_after rest : forall hd0 hd, fst hd0 = true -> loop port_step false hd0 rest = Ok hd ->
  hd = hd0 /\ sel "direction" rest = [].
Proof.
  induction rest as [|x rest IH]; intros hd0 hd Ht H; cbn in H.
  - inversion H; auto.
  - destruct x as [a|a|[|[a|a|a] args]]; try discriminate.
    destruct (port_step hd0 (lower a) args) as [h1|] eqn:E; [|discriminate].
    unfold port_step in E. destruct (kweq (lower a) "direction") eqn:D.
    + rewrite Ht in E. discriminate.
    + destruct (port_notimpl _); [discriminate|]. destruct (annot_step _ _); [|discriminate]. inversion E; subst.
      destruct (IH _ _ Ht H) as [-> Hs]. split; auto. cbn. now rewrite D.
Qed.

Lemma port_loop_dir rest : forall hd0 hd, fst hd0 = false -> snd hd0 = 0%N -> loop port_step false hd0 rest = Ok hd ->
  snd hd = dir_of rest.
Proof.
  induction rest as [|x rest IH]; intros hd0 hd Hf Hz H; cbn in H.
  - inversion H; subst. rewrite Hz. reflexivity.
  - destruct x as [a|a|[|[a|a|a] args]]; try discriminate.
    destruct (port_step hd0 (lower a) args) as [h1|] eqn:E; [|discriminate].
    unfold port_step in E. destruct (kweq (lower a) "direction") eqn:D.
    + rewrite Hf in E. destruct args as [|[d| |] [|]]; try discriminate.
      assert (Hh : fst h1 = true /\ snd h1 = (if kweq (lower d) "inout" then 3%N else if kweq (lower d) "input" then 1%N
                   else if kweq (lower d) "output" then 2%N else 0%N)).
      { destruct (kweq (lower d) "inout"); [inversion E; auto|]. destruct (kweq (lower d) "input"); [inversion E; auto|].
        destruct (kweq (lower d) "output"); [inversion E; auto|discriminate]. }
      destruct Hh as [H1 H2]. destruct (port_loop_after _ _ _ H1 H) as [-> Hs].
      unfold dir_of. cbn. rewrite D. exact H2.
    + destruct (port_notimpl _); [discriminate|]. destruct (annot_step _ _); [|discriminate]. inversion E; subst.
      rewrite (IH _ _ Hf Hz H). unfold dir_of. cbn. now rewrite D.
Qed.

Lemma parse_port_head_decl nd h : parse_port_head nd = Ok h ->
  decl_port_head nd (nm_ident (fst (fst h))) (nm_orig (fst (fst h))) (snd (fst h)) (snd h).
Proof.
  unfold parse_port_head. intro H. destruct nd as [a|s|[|k l]]; try discriminate.
  - destruct (parse_elemname (Atom a)) as [n|] eqn:E; [|discriminate]. inversion H; subst; cbn.
    constructor. now apply parse_elemname_decl.
  - destruct (is_kw "rename" k) eqn:Ek.
    + destruct (parse_rename (k :: l)) as [n|] eqn:E; [|discriminate]. unfold legal in H.
      destruct (NS.check_edif_identifier _); [|discriminate]. inversion H; subst; cbn.
      constructor. now apply parse_rename_decl.
    + destruct (is_kw "array" k) eqn:Ea; [|discriminate].
      destruct l as [|nd' [|[a| |] [|]]]; try discriminate.
      destruct (parse_elemname nd') as [n|] eqn:E; [|discriminate]. destruct (int_tok a) as [z|] eqn:I; [|discriminate].
      destruct (max_bits <? z)%Z; [discriminate|]. destruct (z <? 1)%Z eqn:Ez; [discriminate|]. inversion H; subst; cbn.
      apply Z.ltb_ge in Ez. apply dp_array; auto. now apply parse_elemname_decl.
Qed.

Lemma parse_port_denote ports args p : parse_port ports args = Ok p -> denote_port args p.
Proof.
  unfold parse_port. intro H. destruct args as [|nd rest]; [discriminate|].
  destruct (parse_port_head nd) as [h|] eqn:Hh; [|discriminate].
  destruct (loop port_step false (false, 0%N) rest) as [hd|] eqn:L; [|discriminate].
  destruct (place_strict _ _ _); [|discriminate]. inversion H; subst; cbn.
  exists nd, rest, (nm_orig (fst (fst h))). repeat split; cbn.
  - now apply parse_port_head_decl.
  - now apply (port_loop_dir rest (false, 0%N)).
Qed.

Lemma parse_interface_denote x ports : parse_interface x = Ok ports ->
  exists k items, x = SList (k :: items) /\ Forall2 denote_port (sel "port" items) ports.
Proof.
  unfold parse_interface. intro H. destruct x as [| |[|k items]]; try discriminate.
  destruct (is_kw "interface" k); [|discriminate].
  destruct (loop interface_step false ([], false) items) as [r|] eqn:L; [|discriminate]. inversion H; subst.
  exists k, items. split; auto.
  apply (loop_pre interface_step false (fun pre s => Forall2 denote_port (sel "port" pre) (fst s))) with (pre := []) in L; auto.
  - intros pre a args s s' Hq Hst. rewrite sel_app, sel_one. unfold interface_step in Hst.
    destruct (kweq (lower a) "port") eqn:E.
    + destruct (parse_port (fst s) args) as [p|] eqn:PP; [|discriminate]. inversion Hst; subst; cbn.
      apply Forall2_snoc; auto. eapply parse_port_denote; eauto.
    + rewrite app_nil_r. inv_res Hst; inversion Hst; subst; auto.
  - intros pre s Hq. now rewrite sel_app, sel_empty, app_nil_r.
  - constructor.
Qed.

(* ---- instances ---- *)
Lemma parse_nameref_atom x a : parse_nameref x = Ok a -> x = Atom a.
Proof. destruct x as [b| |]; cbn; try discriminate. intro H. inv_res H. now inversion H. Qed.

Lemma find_cell_some i cells C : find_cell i cells = Some C -> In C cells /\ lower (ce_ident C) = lower i.
Proof. unfold find_cell. intro H. apply find_some in H as [H1 H2]. split; auto. now apply ident_eqb_spec. Qed.

Lemma find_lib_some i libs L : find_lib i libs = Some L -> In L libs /\ lower (li_ident L) = lower i.
Proof. unfold find_lib. intro H. apply find_some in H as [H1 H2]. split; auto. now apply ident_eqb_spec. Qed.

Lemma parse_viewref_refers F cx vargs v : env_ok F cx -> parse_viewref cx vargs = Ok v ->
  refers F (cx_lib cx) (cx_cell cx) vargs (fst (fst v)) (snd (fst v)).
Proof.
  intros He H. pose proof (parse_viewref_resolves _ _ _ H) as Hres. apply He in Hres. destruct Hres as (D & HD & _).
  unfold parse_viewref in H.
  destruct vargs as [|vr [|x [|? ?]]]; try discriminate.
  - destruct (parse_nameref vr) as [vn|] eqn:V; [|discriminate]. apply parse_nameref_atom in V as ->.
    destruct (ident_eqb _ _); [|discriminate]. inversion H; subst; cbn. auto.
  - destruct x as [| |[|k [|cr lrs]]]; try discriminate.
    destruct (parse_nameref vr) as [vn|] eqn:V; [|discriminate]. apply parse_nameref_atom in V as ->.
    destruct (negb _); [discriminate|].
    destruct (parse_nameref cr) as [c|] eqn:Cn; [|discriminate]. apply parse_nameref_atom in Cn as ->.
    destruct lrs as [|[| |[|k2 [|l [|]]]] [|]]; try discriminate.
    + (* no libraryRef *)
      cbn in H. unfold find_cell in H. destruct (find _ (cx_cells cx)) as [C|] eqn:Fc; [|discriminate].
      destruct (view_ok _ _); [|discriminate]. inversion H; subst; cbn in *.
      apply find_some in Fc as [_ Fc]. apply ident_eqb_spec in Fc. repeat split; eauto.
    + destruct (is_kw "libraryref" k2); [|discriminate].
      destruct (parse_nameref l) as [ln|] eqn:Ln; [|discriminate]. apply parse_nameref_atom in Ln as ->.
      destruct (resolve_lib cx (Some ln)) as [lc|] eqn:R; [|discriminate].
      destruct (find_cell c (snd lc)) as [C|] eqn:Fc; [|discriminate].
      destruct (view_ok _ _); [|discriminate]. inversion H; subst; cbn in *.
      apply find_cell_some in Fc as [_ Fc].
      assert (Hl : lower (fst lc) = lower ln).
      { unfold resolve_lib in R. destruct (ident_eqb (cx_lib cx) ln) eqn:E.
        - inversion R; subst; cbn. now apply ident_eqb_spec.
        - destruct (find_lib ln (cx_libs cx)) as [L|] eqn:FL; [|discriminate]. inversion R; subst; cbn.
          now apply find_lib_some in FL as [_ FL]. }
      repeat split; eauto.
  - destruct x as [| |[|? [|? ?]]]; discriminate.
Qed.

Lemma inst_loop_props rest : forall ps0 ps, loop inst_step false ps0 rest = Ok ps ->
  exists ys, ps = ps0 ++ ys /\ Forall2 denote_prop (sel "property" rest) ys /\ sel "viewref" rest = [].
Proof.
  induction rest as [|x rest IH]; intros ps0 ps H; cbn in H.
  - inversion H; subst. exists []. rewrite app_nil_r. repeat split; constructor.
  - destruct x as [a|a|[|[a|a|a] args]]; try discriminate.
    destruct (inst_step ps0 (lower a) args) as [p1|] eqn:E; [|discriminate].
    destruct (IH _ _ H) as (ys & -> & Hf & Hv). unfold inst_step in E. cbn.
    destruct (kweq (lower a) "property") eqn:Ep.
    + destruct (parse_property args) as [p|] eqn:PP; [|discriminate]. inversion E; subst.
      exists (p :: ys). rewrite <- app_assoc. repeat split; auto.
      * constructor; auto. now apply parse_property_denote.
      * rewrite (kweq_excl (lower a) "property" "viewref"); auto. intro X; vm_compute in X; discriminate.
    + destruct (kweq (lower a) "comment") eqn:Ec; [|destruct (kweq (lower a) "userdata"); discriminate].
      destruct (chk_comment args); [|discriminate]. inversion E; subst.
      exists ys. repeat split; auto.
      rewrite (kweq_excl (lower a) "comment" "viewref"); auto. intro X; vm_compute in X; discriminate.
Qed.

Lemma parse_instance_denote F cx insts args ip : env_ok F cx -> parse_instance cx insts args = Ok ip ->
  denote_inst F (cx_lib cx) (cx_cell cx) args (fst ip).
Proof.
  intros He H. unfold parse_instance in H. destruct args as [|nd rest]; [discriminate|].
  destruct (parse_elemname nd) as [n|] eqn:N; [|discriminate].
  match type of H with (match ?X with _ => _ end) = _ => destruct X as [r|] eqn:R; [|discriminate] end.
  destruct (loop inst_step false [] (snd r)) as [props|] eqn:L; [|discriminate].
  destruct (place _ _ n) as [name|] eqn:Pl; [|discriminate]. inversion H; subst; cbn. clear H.
  exists nd, rest, (nm_orig n). split; auto. split; [now apply parse_elemname_decl|]. cbn.
  split; [eapply place_name; eauto|].
  destruct rest as [|x rest']; [discriminate|].
  destruct x as [?|?|[|[k|?|?] vargs]]; try discriminate.
  destruct (kweq (lower k) "viewref") eqn:Ek; [|destruct (kweq (lower k) "viewlist"); discriminate].
  destruct (parse_viewref cx vargs) as [v|] eqn:V; [|discriminate]. inversion R; subst; cbn in *.
  apply inst_loop_props in L as (ys & -> & Hp & Hv). cbn.
  rewrite Ek. rewrite (kweq_excl (lower k) "viewref" "property") by (auto; intro X; vm_compute in X; discriminate).
  split; auto. destruct v as [[li ci] ps]; cbn. exists li, ci. split; auto.
  apply (parse_viewref_refers F cx vargs (li, ci, ps)); auto.
Qed.

(* ---- pins ---- *)
Lemma parse_portref_target_decl tgt t : parse_portref_target tgt = Ok t -> decl_target tgt (fst t) (snd t).
Proof.
  unfold parse_portref_target. intro H. destruct tgt as [a|s|[|m margs]]; try discriminate.
  - destruct (parse_nameref (Atom a)) as [b|] eqn:E; [|discriminate]. apply parse_nameref_atom in E. inversion E; subst.
    inversion H; subst; cbn. constructor.
  - destruct (is_kw "member" m) eqn:Em; [|discriminate].
    destruct margs as [|nd [|[i| |] [|]]]; try discriminate.
    destruct (parse_namedef nd) as [n|] eqn:N; [|discriminate]. destruct (int_tok i) as [z|] eqn:I; [|discriminate].
    destruct (has_wild _); [discriminate|]. inversion H; subst; cbn.
    eapply dt_member; eauto. now apply parse_namedef_decl.
Qed.

Lemma resolve_port_pin ports pid z r : resolve_port ports pid z = Ok r -> port_pin ports pid z (fst r) (snd r).
Proof.
  unfold resolve_port, find_port. destruct (find _ ports) as [Q|] eqn:Fp; [|discriminate].
  destruct (py_index z (po_width Q)) as [k|] eqn:I; [|discriminate]. intro H; inversion H; subst; cbn.
  apply find_some in Fp as [Hin Hq]. apply ident_eqb_spec in Hq. exists Q. auto.
Qed.

Definition irel (insts : list einst) (o : option einst) (a : option str) : Prop :=
  match o, a with
  | None, None => True
  | Some ip, Some i => In ip insts /\ lower (in_ident (fst ip)) = lower i
  | _, _ => False
  end.

Lemma portref_loop_last insts rest : forall cur ti acc, irel insts cur acc ->
  loop (portref_step insts) true cur rest = Ok ti -> irel insts ti (last_instref rest acc).
Proof.
  induction rest as [|x rest IH]; intros cur ti acc Hr H; cbn in H.
  - inversion H; subst. exact Hr.
  - destruct x as [a|a|[|[a|a|a] args]]; try discriminate.
    + cbn. eapply IH; eauto.
    + destruct (portref_step insts cur (lower a) args) as [c1|] eqn:E; [|discriminate].
      unfold portref_step in E. destruct (kweq (lower a) "portref"); [discriminate|].
      destruct (kweq (lower a) "instanceref") eqn:Ei; [|destruct (kweq (lower a) "viewref"); discriminate].
      destruct args as [|x [|]]; try discriminate. destruct x as [nm|s|l]; [|cbn in E; discriminate|cbn in E; discriminate].
      destruct (parse_nameref (Atom nm)) as [b|] eqn:Nr; [|discriminate]. apply parse_nameref_atom in Nr. inversion Nr; subst.
      unfold find_inst in E. destruct (find _ insts) as [ip|] eqn:Fi; [|discriminate]. inversion E; subst.
      cbn [last_instref kw_of]. rewrite Ei. eapply IH; [|exact H]. cbn. apply find_some in Fi as [Hin Hq]. apply ident_eqb_spec in Hq. auto.
      destruct x; discriminate.
Qed.

Lemma parse_portref_denote F cx insts args p : Forall (einst_ok F) insts -> parse_portref cx insts args = Ok p ->
  denote_pin F (cx_ports cx) (map fst insts) args p.
Proof.
  intros Hi H. unfold parse_portref in H. destruct args as [|tgt rest]; [discriminate|].
  destruct (parse_portref_target tgt) as [t|] eqn:T; [|discriminate].
  destruct (loop (portref_step insts) true None rest) as [ti|] eqn:L; [|discriminate].
  apply (portref_loop_last insts rest None ti None I) in L.
  exists tgt, rest, (fst t), (snd t). split; auto. split; [now apply parse_portref_target_decl|].
  destruct ti as [ip|]; destruct (last_instref rest None) as [i|]; cbn in L; try contradiction.
  - destruct L as [Hin Hl]. destruct (in_ref (fst ip)) as [[li ci]|] eqn:R; [|discriminate].
    destruct (resolve_port (snd ip) (fst t) (snd t)) as [r|] eqn:RP; [|discriminate]. inversion H; subst.
    rewrite Forall_forall in Hi. destruct (Hi ip Hin li ci R) as (D & HD & HP).
    exists (fst ip), li, ci, D, (fst r), (snd r). repeat split; auto; [now apply in_map|].
    rewrite HP. now apply resolve_port_pin.
  - destruct (resolve_port (cx_ports cx) (fst t) (snd t)) as [r|] eqn:RP; [|discriminate]. inversion H; subst.
    exists (fst r), (snd r). split; auto. now apply resolve_port_pin.
Qed.

(* ---- nets ---- *)
Lemma joined_denote F cx insts cabs jargs w : Forall (einst_ok F) insts ->
  loop (joined_step cx insts cabs) false [] jargs = Ok w ->
  Forall2 (denote_pin F (cx_ports cx) (map fst insts)) (sel "portref" jargs) w.
Proof.
  intros Hi L.
  apply (loop_pre (joined_step cx insts cabs) false
           (fun pre w => Forall2 (denote_pin F (cx_ports cx) (map fst insts)) (sel "portref" pre) w)) with (pre := []) in L; auto.
  - intros pre a args s s' Hq Hst. rewrite sel_app, sel_one. unfold joined_step in Hst.
    destruct (kweq (lower a) "portref") eqn:E.
    + destruct (parse_portref cx insts args) as [p|] eqn:PP; [|discriminate].
      destruct (_ || _); [discriminate|]. inversion Hst; subst. apply Forall2_snoc; auto. eapply parse_portref_denote; eauto.
    + inv_res Hst.
  - intros pre s Hq. now rewrite sel_app, sel_empty, app_nil_r.
  - constructor.
Qed.

Lemma parse_net_denote F cx insts cabs args cabs' : Forall (einst_ok F) insts ->
  parse_net cx insts cabs args = Ok cabs' ->
  exists nt, denote_net F (cx_ports cx) (map fst insts) args nt /\ read_net cabs nt = Some cabs'.
Proof.
  intros Hi H. unfold parse_net in H.
  destruct args as [|nd [|x rest]]; try discriminate.
  destruct x as [| |[|j jargs]]; try discriminate.
  destruct (parse_elemname nd) as [n|] eqn:N; [|discriminate].
  destruct (is_kw "joined" j) eqn:Ej; [|discriminate]. cbn [negb] in H.
  destruct (loop (joined_step cx insts cabs) false [] jargs) as [w|] eqn:J; [|discriminate].
  destruct (loop net_step false tt rest); [|discriminate].
  destruct (big_index _ _); [discriminate|].
  destruct (read_net cabs (nm_ident n, nm_name n, w)) as [c'|] eqn:R; [|discriminate]. inversion H; subst.
  exists (nm_ident n, nm_name n, w). split; auto.
  exists nd, j, jargs, rest, (nm_orig n). repeat split; auto.
  - now apply parse_elemname_decl.
  - eapply joined_denote; eauto.
Qed.

Lemma denote_pin_incl F ports insts insts' args x : incl insts insts' ->
  denote_pin F ports insts args x -> denote_pin F ports insts' args x.
Proof.
  intros Hi (tgt & rest & p & z & E & T & H). exists tgt, rest, p, z. repeat split; auto.
  destruct (last_instref rest None); auto.
  destruct H as (I & li & ci & D & pi & k & H1 & H2 & H3). exists I, li, ci, D, pi, k. repeat split; auto; tauto.
Qed.

Lemma denote_net_incl F ports insts insts' args nt : incl insts insts' ->
  denote_net F ports insts args nt -> denote_net F ports insts' args nt.
Proof.
  intros Hi (nd & j & jargs & rest & o & E & Hj & Hd & Hn & Hp). exists nd, j, jargs, rest, o. repeat split; auto.
  eapply Forall2_impl; [|exact Hp]. intros a b. now apply denote_pin_incl.
Qed.

(* ---- contents ---- *)
Definition csound (F : list nvlib) (cx : ctx) (pre : list sexp) (s : cst) : Prop :=
  cinv F (cx_ports cx) s /\
  Forall2 (denote_inst F (cx_lib cx) (cx_cell cx)) (sel "instance" pre) (map fst (cs_insts s)) /\
  exists nets, Forall2 (denote_net F (cx_ports cx) (map fst (cs_insts s))) (sel "net" pre) nets /\
               read_nets [] nets = Some (cs_cabs s).

Lemma contents_sound F cx cargs c : env_ok F cx ->
  loop (contents_step cx) false (mkcst [] []) cargs = Ok c -> csound F cx cargs c.
Proof.
  intros He L.
  apply (loop_pre (contents_step cx) false (csound F cx)) with (pre := []) in L; auto.
  - intros pre a args s s' (Hc & Hi & nets & Hn & Hr) Hst.
    assert (Hc' : cinv F (cx_ports cx) s') by (eapply contents_step_ok; eauto).
    unfold csound. rewrite !sel_app, !sel_one. split; auto. unfold contents_step in Hst.
    destruct (kweq (lower a) "instance") eqn:E1.
    { destruct (parse_instance cx (cs_insts s) args) as [ip|] eqn:PI; [|discriminate]. inversion Hst; subst; cbn.
      rewrite (kweq_excl (lower a) "instance" "net") by (auto; intro X; vm_compute in X; discriminate).
      rewrite map_app, app_nil_r. cbn. split.
      - apply Forall2_snoc; auto. eapply parse_instance_denote; eauto.
      - exists nets. split; auto. eapply Forall2_impl; [|exact Hn]. intros x y. apply denote_net_incl. apply incl_appl, incl_refl. }
    destruct (kweq (lower a) "net") eqn:E2.
    { destruct (parse_net cx (cs_insts s) (cs_cabs s) args) as [c'|] eqn:PN; [|discriminate]. inversion Hst; subst; cbn.
      rewrite app_nil_r. split; auto.
      destruct Hc as [Hci _ _ _ _]. destruct (parse_net_denote F cx _ _ _ _ Hci PN) as (nt & Hd & Hrn).
      exists (nets ++ [nt]). split; [apply Forall2_snoc; auto|].
      rewrite read_nets_app, Hr. cbn. now rewrite Hrn. }
    rewrite !app_nil_r. inv_res Hst; inversion Hst; subst; eauto.
  - intros pre s Hq. unfold csound in *. now rewrite !sel_app, !sel_empty, !app_nil_r.
  - split; [apply cinv_nil|]. split; [constructor|]. exists []. split; [constructor|reflexivity].
Qed.

(* ---- view ---- *)
Definition vsound (cx : ctx) (cargs : list sexp) (c : cst) : Prop := forall F, env_ok F cx -> csound F cx cargs c.

Lemma parse_view_sound libs lib cells cell args v : parse_view libs lib cells cell args = Ok v ->
  exists vn vt k items rest vo, args = vn :: vt :: SList (k :: items) :: rest /\ decl_nd vn (fst (fst v)) vo /\
    Forall2 denote_port (sel "port" items) (snd (fst v)) /\
    vsound (mkctx libs lib cells cell (fst (fst v)) (snd (fst v)))
           (match sel "contents" rest with c :: _ => c | [] => [] end) (snd v).
Proof.
  unfold parse_view. intro H. destruct args as [|nd [|vt [|itf rest]]]; try discriminate.
  destruct (parse_namedef nd) as [n|] eqn:N; [|discriminate]. destruct (chk_viewtype vt); [|discriminate].
  destruct (parse_interface itf) as [ports|] eqn:PI; [|discriminate].
  destruct (loop _ false (false, None) rest) as [r|] eqn:L; [|discriminate]. inversion H; subst; cbn. clear H.
  apply parse_interface_denote in PI as (k & items & -> & Hp).
  exists nd, vt, k, items, rest, (nm_orig n). split; auto. split; [now apply parse_namedef_decl|]. split; auto.
  set (cx := mkctx libs lib cells cell (nm_ident n) ports) in *.
  apply (loop_pre (view_step cx) false
           (fun pre s => match snd s with
                         | None => sel "contents" pre = []
                         | Some c => exists cargs, sel "contents" pre = [cargs] /\ vsound cx cargs c end)) with (pre := []) in L; auto.
  - cbn in L. destruct (snd r) as [c|].
    + destruct L as (cargs & -> & Hv). exact Hv.
    + rewrite L. intros F He. split; [apply cinv_nil|]. split; [constructor|]. exists []. split; [constructor|reflexivity].
  - intros pre0 kw0 aa st st' Hq Hst. rewrite sel_app, sel_one. unfold view_step in Hst.
    destruct (kweq (lower kw0) "status") eqn:E1.
    { rewrite (kweq_excl (lower kw0) "status" "contents") by (auto; intro X; vm_compute in X; discriminate).
      rewrite app_nil_r. inv_res Hst; inversion Hst; subst; auto. }
    destruct (kweq (lower kw0) "contents") eqn:E2.
    { destruct (snd st); [discriminate|]. destruct (loop (contents_step cx) false (mkcst [] []) aa) as [c|] eqn:LC; [|discriminate].
      inversion Hst; subst; cbn. exists aa. rewrite Hq. split; auto. intros F He. now apply contents_sound. }
    rewrite app_nil_r. inv_res Hst; inversion Hst; subst; auto.
  - intros pre0 st Hq. now rewrite sel_app, sel_empty, app_nil_r.
  - reflexivity.
Qed.

(* ---- cells ---- *)
Definition cell_sound (libs : list nvlib) (lib : str) (cells : list nvcell) (args : list sexp) (C : nvcell) : Prop :=
  forall F, env_ok F (mkctx libs lib cells (ce_ident C) [] (ce_ports C)) -> denote_cell conn_read F lib args C.

Lemma parse_cell_sound libs lib cells args C : parse_cell libs lib cells args = Ok C -> cell_sound libs lib cells args C.
Proof.
  unfold parse_cell. intro H. destruct args as [|nd [|ct rest]]; try discriminate.
  destruct (parse_elemname nd) as [n|] eqn:N; [|discriminate]. destruct (chk_celltype ct); [|discriminate].
  destruct (loop _ false (false, None) rest) as [r|] eqn:L; [|discriminate].
  destruct (place _ _ n) as [name|] eqn:Pl; [|discriminate]. inversion H; subst; clear H.
  apply (loop_pre (cell_step libs lib cells (nm_ident n)) false
           (fun pre s => match snd s with
                         | None => sel "view" pre = []
                         | Some v => exists vargs post, sel "view" pre = vargs :: post /\
                                     parse_view libs lib cells (nm_ident n) vargs = Ok v end)) with (pre := []) in L; auto.
  - cbn in L. intros F He. exists nd, ct, rest, (nm_orig n). split; auto.
    destruct (snd r) as [v|].
    + destruct L as (vargs & post & Hs & PV). cbn in *. split; [now apply parse_elemname_decl|].
      split; [eapply place_name; eauto|]. unfold view_args. rewrite Hs.
      apply parse_view_sound in PV as (vn & vt & k & items & vrest & vo & -> & Hd & Hp & Hv).
      split; [exists vn, (vt :: SList (k :: items) :: vrest), (fst (fst v)), vo; auto|].
      unfold interface_items, contents_items. split; auto.
      destruct (Hv F) as (Hc & Hi & nets & Hn & Hr); [eapply env_ok_view; eauto|]. cbn in *. split; auto.
      exists nets. split; auto.
    + cbn. split; [now apply parse_elemname_decl|]. split; [eapply place_name; eauto|].
      unfold view_args. rewrite L. auto.
  - intros pre0 kw0 aa st st' Hq Hst. rewrite sel_app, sel_one. unfold cell_step in Hst.
    destruct (kweq (lower kw0) "status") eqn:E1.
    { rewrite (kweq_excl (lower kw0) "status" "view") by (auto; intro X; vm_compute in X; discriminate).
      rewrite app_nil_r. inv_res Hst; inversion Hst; subst; auto. }
    destruct (kweq (lower kw0) "view") eqn:E2.
    { destruct (snd st); [discriminate|]. destruct (parse_view libs lib cells (nm_ident n) aa) as [v|] eqn:PV; [|discriminate].
      inversion Hst; subst; cbn. exists aa, []. rewrite Hq. auto. }
    rewrite app_nil_r. inv_res Hst; inversion Hst; subst; auto.
  - intros pre0 st Hq. now rewrite sel_app, sel_empty, app_nil_r.
  - reflexivity.
Qed.

(* ---- lists built left to right, each element judged against the elements before it ---- *)
Inductive F2acc {A B} (R : list B -> A -> B -> Prop) : list B -> list A -> list B -> Prop :=
| F2a_nil acc : F2acc R acc [] []
| F2a_cons acc x y xs ys : R acc x y -> F2acc R (acc ++ [y]) xs ys -> F2acc R acc (x :: xs) (y :: ys).

Lemma F2acc_snoc {A B} (R : list B -> A -> B -> Prop) acc xs ys x y :
  F2acc R acc xs ys -> R (acc ++ ys) x y -> F2acc R acc (xs ++ [x]) (ys ++ [y]).
Proof.
  intro H. induction H as [acc|acc x0 y0 xs ys H0 H1 IH]; cbn; intro Hr.
  - rewrite app_nil_r in Hr. constructor; auto. constructor.
  - constructor; auto. apply IH. now rewrite <- app_assoc.
Qed.

Lemma F2acc_forall2 {A B} (R : list B -> A -> B -> Prop) (R' : A -> B -> Prop) acc xs ys :
  F2acc R acc xs ys ->
  (forall pre x y post, acc ++ ys = pre ++ y :: post -> R pre x y -> R' x y) -> Forall2 R' xs ys.
Proof.
  intro H. induction H as [acc|acc x0 y0 xs ys H0 H1 IH]; intro Hc; constructor.
  - exact (Hc acc x0 y0 ys eq_refl H0).
  - apply IH. intros pre x y post E. apply (Hc pre x y post). rewrite <- E, <- app_assoc. reflexivity.
Qed.

(* ---- libraries ---- *)
Definition lib_sound (libs : list nvlib) (args : list sexp) (L : nvlib) : Prop :=
  exists nd rest o, args = nd :: rest /\ decl_nd nd (li_ident L) o /\ li_name L = display (li_ident L) o /\
    F2acc (fun pre cargs C => cell_sound libs (li_ident L) pre cargs C) [] (sel "cell" rest) (li_cells L).

Lemma is_kw_sel_other (kw kw' : string) k l rest : K kw <> K kw' -> is_kw kw k = true ->
  sel kw' (SList (k :: l) :: rest) = sel kw' rest.
Proof.
  intros Hne Hk. destruct k as [a| |]; try discriminate. cbn in *. now rewrite (kweq_excl _ kw kw').
Qed.

Lemma parse_library_sound libs args L : parse_library libs args = Ok L -> lib_sound libs args L.
Proof.
  unfold parse_library. intro H. destruct args as [|nd [|el [|tech rest]]]; try discriminate.
  destruct (parse_elemname nd) as [n|] eqn:N; [|discriminate].
  destruct (chk_int_form "ediflevel" 1 el) eqn:El; [|discriminate].
  destruct (chk_technology tech) eqn:Te; [|discriminate].
  destruct (loop _ false (false, []) rest) as [r|] eqn:Lp; [|discriminate].
  destruct (place_strict _ _ n) eqn:Pl; [|discriminate]. inversion H; subst; cbn. clear H.
  exists nd, (el :: tech :: rest), (nm_orig n). split; auto. split; [now apply parse_elemname_decl|]. split; auto.
  assert (Hs : sel "cell" (el :: tech :: rest) = sel "cell" rest).
  { unfold chk_int_form in El. destruct el as [| |[|k l]]; try discriminate.
    destruct (is_kw "ediflevel" k) eqn:Ek; [|discriminate].
    rewrite (is_kw_sel_other "ediflevel" "cell") by (auto; intro X; vm_compute in X; discriminate).
    unfold chk_technology in Te. destruct tech as [| |[|k2 [|[| |[|k3 ?]] [|]]]]; try discriminate.
    destruct (is_kw "technology" k2) eqn:Ek2; [|discriminate].
    rewrite (is_kw_sel_other "technology" "cell") by (auto; intro X; vm_compute in X; discriminate). reflexivity. }
  rewrite Hs.
  apply (loop_pre (lib_step libs (nm_ident n)) false
           (fun pre s => F2acc (fun cpre cargs C => cell_sound libs (nm_ident n) cpre cargs C) [] (sel "cell" pre) (snd s)))
    with (pre := []) in Lp; auto.
  - intros pre0 kw0 aa st st' Hq Hst. rewrite sel_app, sel_one. unfold lib_step in Hst.
    destruct (kweq (lower kw0) "status") eqn:E1.
    { rewrite (kweq_excl (lower kw0) "status" "cell") by (auto; intro X; vm_compute in X; discriminate).
      rewrite app_nil_r. inv_res Hst; inversion Hst; subst; auto. }
    destruct (kweq (lower kw0) "cell") eqn:E2.
    { destruct (parse_cell libs (nm_ident n) (snd st) aa) as [C|] eqn:PC; [|discriminate]. inversion Hst; subst; cbn.
      apply F2acc_snoc; auto. cbn. now apply parse_cell_sound. }
    rewrite app_nil_r. inv_res Hst; inversion Hst; subst; auto.
  - intros pre0 st Hq. now rewrite sel_app, sel_empty, app_nil_r.
  - constructor.
Qed.

(* ---- assembly ---- *)
Lemma env_ok_final F lpre L lpost cpre C cpost : libs_good F -> F = lpre ++ L :: lpost ->
  li_cells L = cpre ++ C :: cpost -> env_ok F (mkctx lpre (li_ident L) cpre (ce_ident C) [] (ce_ports C)).
Proof.
  intros HF HFeq HCeq. pose proof HF as [Hd Hg].
  assert (HL : In L F) by (rewrite HFeq; apply in_or_app; right; now left).
  assert (HC : In C (li_cells L)) by (rewrite HCeq; apply in_or_app; right; now left).
  assert (NDL : NoDup (map li_ident F)) by (apply distinct_ci_nodup; exact Hd).
  assert (NDC : forall L', In L' F -> NoDup (map ce_ident (li_cells L'))).
  { intros L' HL'. apply distinct_ci_nodup. eapply libs_good_cells; eauto. }
  intros li ci ports [(-> & -> & ->)|[(-> & C' & HC' & <- & <-)|(L' & C' & HL' & <- & HC' & <- & <-)]]; cbn in *.
  - exists C. split; auto. apply lookup_cell_in; auto.
  - assert (In C' (li_cells L)) by (rewrite HCeq; apply in_or_app; now left).
    exists C'. split; auto. apply lookup_cell_in; auto.
  - assert (In L' F) by (rewrite HFeq; apply in_or_app; now left).
    exists C'. split; auto. apply lookup_cell_in; auto.
Qed.

Lemma lib_sound_denote F lpre L lpost largs : libs_good F -> F = lpre ++ L :: lpost ->
  lib_sound lpre largs L -> denote_lib conn_read F largs L.
Proof.
  intros HF HFeq (nd & rest & o & -> & Hd & Hn & Hc). exists nd, rest, o. repeat split; auto.
  eapply F2acc_forall2; [exact Hc|]. cbn. intros cpre cargs C cpost Heq Hs. apply Hs.
  eapply env_ok_final; eauto.
Qed.

(* ---- the design construct ---- *)
Definition denote_top_pre (args : list sexp) (t : nvtop) : Prop :=
  exists nd k1 x k2 y tl o, args = nd :: SList [k1; Atom x; SList [k2; Atom y]] :: tl /\
    is_kw "cellref" k1 = true /\ is_kw "libraryref" k2 = true /\
    decl_nd nd (tp_ident t) o /\ tp_name t = display (tp_ident t) o /\
    lower (tp_lib t) = lower y /\ lower (tp_cell t) = lower x.

Lemma parse_design_top libs dargs t : parse_design libs dargs = Ok t -> denote_top_pre dargs t.
Proof.
  intro H. unfold parse_design in H.
  destruct dargs as [|nd [|x0 tl]]; try discriminate.
  destruct x0 as [| |[|k1 [|cr [|[| |[|k2 [|lr [|]]]] [|]]]]]; try discriminate.
  destruct (parse_elemname nd) as [n|] eqn:N; [|discriminate].
  destruct (is_kw "cellref" k1) eqn:K1; [|discriminate]. cbn [negb] in H.
  destruct (parse_nameref cr) as [x|] eqn:X; [|discriminate]. apply parse_nameref_atom in X as ->.
  destruct (is_kw "libraryref" k2) eqn:K2; [|discriminate]. cbn [negb] in H.
  destruct (parse_nameref lr) as [y|] eqn:Y; [|discriminate]. apply parse_nameref_atom in Y as ->.
  destruct (find_lib y libs) as [L|] eqn:FL; [|discriminate].
  destruct (find_cell x (li_cells L)) as [C|] eqn:FC; [|discriminate].
  inversion H; subst; cbn.
  apply find_lib_some in FL as [_ FL]. apply find_cell_some in FC as [_ FC].
  exists nd, k1, x, k2, y, tl, (nm_orig n). repeat split; auto. now apply parse_elemname_decl.
Qed.

Lemma denote_top_final F dargs t : libs_good F -> denote_top_pre dargs t -> top_in F t -> denote_top F dargs t.
Proof.
  intros HF (nd & k1 & x & k2 & y & tl & o & E & K1 & K2 & Hd & Hn & Hl & Hc) Hin.
  exists nd, k1, x, k2, y, tl, o. repeat split; auto. now apply top_in_lookup.
Qed.

(* ---- the body ---- *)
Lemma lib_items_app a b : lib_items (a ++ b) = lib_items a ++ lib_items b.
Proof.
  induction a as [|x a IH]; cbn; auto. destruct (is_lib_item x); [destruct (kw_of x) as [[? ?]|]|]; cbn; now rewrite IH.
Qed.

Lemma lib_items_one a args : lib_items [SList (Atom a :: args)] =
  if kweq (lower a) "library" || kweq (lower a) "external" then [args] else [].
Proof. cbn. unfold is_lib_item. cbn. destruct (_ || _); reflexivity. Qed.

Definition bsound (pre : list sexp) (s : bst) : Prop :=
  F2acc lib_sound [] (lib_items pre) (bs_libs s) /\
  match sel "design" pre with
  | [] => bs_top s = None
  | [dargs] => exists t, bs_top s = Some t /\ denote_top_pre dargs t /\ top_in (bs_libs s) t
  | _ :: _ :: _ => False
  end.

Lemma body_sound l r : body l = Ok r -> bsound l r.
Proof.
  unfold body. intro H.
  apply (loop_pre body_step false bsound) with (pre := []) in H; auto.
  - intros pre a args s s' [Hf Hd] Hst. unfold bsound. rewrite lib_items_app, lib_items_one, sel_app, sel_one.
    unfold body_step in Hst.
    destruct (kweq (lower a) "status") eqn:E1.
    { rewrite (kweq_excl (lower a) "status" "library"), (kweq_excl (lower a) "status" "external"), (kweq_excl (lower a) "status" "design")
        by (auto; intro X; vm_compute in X; discriminate). cbn [orb]. rewrite !app_nil_r.
      destruct (bs_status s); [discriminate|]. destruct (chk_status args); [|discriminate]. inversion Hst; subst; cbn. auto. }
    destruct (kweq (lower a) "library" || kweq (lower a) "external") eqn:E2.
    { assert (Ed : kweq (lower a) "design" = false).
      { apply orb_true_iff in E2 as [E2|E2]; [apply (kweq_excl _ "library")|apply (kweq_excl _ "external")]; auto;
          intro X; vm_compute in X; discriminate. }
      rewrite Ed, app_nil_r.
      destruct (parse_library (bs_libs s) args) as [L|] eqn:PL; [|discriminate]. inversion Hst; subst; cbn. split.
      - apply F2acc_snoc; auto. cbn. now apply parse_library_sound.
      - destruct (sel "design" pre) as [|dargs [|? ?]]; auto.
        destruct Hd as (t & Ht & Hp & Hin). exists t. repeat split; auto. now apply top_in_app. }
    rewrite app_nil_r.
    destruct (kweq (lower a) "design") eqn:E3.
    { destruct (bs_top s) as [t0|] eqn:T0; [discriminate|].
      destruct (parse_design (bs_libs s) args) as [t|] eqn:PD; [|discriminate]. inversion Hst; subst; cbn. split; auto.
      destruct (sel "design" pre) as [|dargs [|? ?]].
      - cbn. exists t. repeat split; auto; [eapply parse_design_top; eauto|eapply parse_design_ok; eauto].
      - destruct Hd as (t1 & Ht1 & _). discriminate.
      - contradiction. }
    rewrite app_nil_r.
    destruct (kweq (lower a) "comment") eqn:E4; [|destruct (kweq (lower a) "userdata"); discriminate].
    destruct (chk_comment args); [|discriminate]. inversion Hst; subst. auto.
  - intros pre s Hq. unfold bsound in *. now rewrite lib_items_app, sel_app, sel_empty, !app_nil_r.
  - split; [constructor|reflexivity].
Qed.

Theorem elab_file_sound_read d n : elab_file d = Ok n -> denote_file_with conn_read d n.
Proof.
  unfold elab_file. intro E. destruct (negb (atoms_ascii d)); [discriminate|].
  destruct d as [| |[|e [|nd [|ver [|lvl [|km items]]]]]]; try discriminate.
  destruct (negb _); [discriminate|]. destruct (parse_elemname nd) as [nm|] eqn:N; [|discriminate].
  destruct (chk_int_form _ _ ver); [|discriminate]. destruct (chk_int_form _ _ lvl); [|discriminate].
  destruct (chk_keywordmap km); [|discriminate].
  destruct (body items) as [b|] eqn:B; [|discriminate]. inversion E; subst; cbn. clear E.
  pose proof (body_ok _ _ B) as [HG _].
  apply body_sound in B as [Hf Hd].
  exists e, nd, ver, lvl, km, items, (nm_orig nm). split; auto. cbn.
  split; [now apply parse_elemname_decl|]. split; auto. split.
  - eapply F2acc_forall2; [exact Hf|]. cbn. intros pre largs L post Heq Hs. eapply lib_sound_denote; eauto.
  - destruct (sel "design" items) as [|dargs [|? ?]]; auto.
    destruct Hd as (t & Ht & Hp & Hin). exists t. split; auto. now apply denote_top_final.
Qed.

(* ---- from what the reader does with the nets to their meaning, on supported documents ---- *)
Lemma compat_names {P} (a b a' b' : net P) : fst a = fst a' -> fst b = fst b' -> compat a b -> compat a' b'.
Proof.
  destruct a as [[ia na] pa], b as [[ib nb] pb], a' as [[ia' na'] pa'], b' as [[ib' nb'] pb']; cbn.
  intros E1 E2. inversion E1; inversion E2; subst. unfold compat, key_name, key_ident, n_index, n_ident, n_name. cbn. auto.
Qed.

Lemma nets_ok_names {P} (xs ys : list (net P)) : Forall2 (fun a b => fst a = fst b) xs ys -> nets_ok xs -> nets_ok ys.
Proof.
  unfold nets_ok. intro H. induction H as [|a b xs ys Hab Hr IH]; intro Hx; [constructor|].
  inversion Hx as [|? ? Hf Ho]; subst. constructor; auto.
  clear - Hab Hr Hf. induction Hr as [|c d xs ys Hcd Hr IH]; [constructor|].
  inversion Hf; subst. constructor; auto. eapply compat_names; eauto.
Qed.

Lemma decl_nd_names nd i o : decl_nd nd i o -> nd_names nd = (i, display i o).
Proof. intro H. inversion H as [|k a s v Hk U]; subst; cbn; [|rewrite U]; reflexivity. Qed.

Lemma denote_net_names F ports insts args nt : denote_net F ports insts args nt -> fst (net_names args) = fst nt.
Proof.
  intros (nd & j & jargs & rest & o & -> & _ & Hd & Hn & _). cbn. rewrite (decl_nd_names _ _ _ Hd). cbn.
  destruct nt as [[i nm] p]. cbn in *. now rewrite Hn.
Qed.

Lemma Forall2_map_l {A B C} (f : A -> C) (R : C -> B -> Prop) xs ys : Forall2 (fun a b => R (f a) b) xs ys -> Forall2 R (map f xs) ys.
Proof. intro H. induction H; cbn; constructor; auto. Qed.

Lemma Forall2_forallb {A B} (R R' : A -> B -> Prop) (f : A -> bool) xs ys :
  (forall a b, f a = true -> R a b -> R' a b) -> forallb f xs = true -> Forall2 R xs ys -> Forall2 R' xs ys.
Proof.
  intros Hi Hf H. induction H; constructor; cbn in Hf; apply andb_true_iff in Hf as [H1 H2]; auto.
Qed.

Lemma denote_cell_supported F lib cargs C : cell_nets_ok cargs = true ->
  denote_cell conn_read F lib cargs C -> denote_cell denote_conn F lib cargs C.
Proof.
  intros Hs (nd & ct & rest & o & -> & Hd & Hn & Hv). exists nd, ct, rest, o. repeat split; auto.
  cbn in Hs. destruct (view_args rest) as [vargs|]; auto.
  destruct Hv as (Hvn & Hp & Hi & nets & Hnets & Hr). repeat split; auto.
  exists nets. split; auto. apply nets_sound; auto.
  apply nets_okb_spec in Hs. eapply nets_ok_names; [|exact Hs].
  apply Forall2_map_l. eapply Forall2_impl; [|exact Hnets]. intros a b. apply denote_net_names.
Qed.

Theorem elab_file_sound d n : supported d = true -> elab_file d = Ok n -> denote_file d n.
Proof.
  intros Hs H. apply elab_file_sound_read in H.
  destruct H as (e & nd & ver & lvl & km & items & o & -> & Hd & Hn & Hl & Ht).
  exists e, nd, ver, lvl, km, items, o. repeat split; auto. cbn in Hs.
  eapply Forall2_forallb; [|exact Hs|exact Hl]. cbn.
  intros largs L Hls (lnd & rest & lo & -> & Hld & Hln & Hc). exists lnd, rest, lo. repeat split; auto.
  cbn in Hls. eapply Forall2_forallb; [|exact Hls|exact Hc]. intros cargs C. apply denote_cell_supported.
Qed.

Print Assumptions elab_file_sound.
