(* Namespace tables belong to allocated objects: in every state reachable by editing calls an
   identifier at or above the allocation counter has no namespace table. (A table is created only
   for an element whose kind is a container kind; every other table write replaces an existing
   table.) Needed to show that a clone starts from empty ground. *)
From Coq Require Import List Arith Bool Lia.
From RecordUpdate Require Import RecordSet.
From SV Require Import Base.Base IR.State IR.NS IR.Ops Proofs.AssocX Proofs.Frame Proofs.Inv1a Proofs.Inv2a
  Proofs.InvP Proofs.InvW Proofs.Fresh Proofs.NsInv.
Import ListNotations RecordSetNotations.

Definition TabK (s : state) : Prop := forall p, nstab s p <> None -> kind_of s p <> None.

Record nk (s s' : state) : Prop := mkNk {
  nk_kind : forall x, kind_of s x <> None -> kind_of s' x <> None;
  nk_tab : forall p, nstab s' p <> None -> nstab s p <> None \/ kind_of s' p <> None
}.
Lemma nk_refl s : nk s s. Proof. constructor; [auto|intros; left; assumption]. Qed.
Lemma nk_trans a b c : nk a b -> nk b c -> nk a c.
Proof.
  intros [A1 A2] [B1 B2]. constructor; [auto|]. intros p H. destruct (B2 p H) as [H1|H1]; [|right; exact H1].
  destruct (A2 p H1) as [H2|H2]; [left; exact H2|right; apply B1; exact H2].
Qed.
Lemma nk_same s s' : kind_of s' = kind_of s -> nstab s' = nstab s -> nk s s'.
Proof. intros A B. constructor; rewrite ?A, ?B; [auto|intros; left; assumption]. Qed.
Lemma nk_bind r f s : nk s (fst r) -> (forall s1, nk s1 (fst (f s1))) -> nk s (fst (r >>= f)).
Proof. destruct r as [s1 [x|]]; cbn; intros H1 H2; [exact H1|]. eapply nk_trans; [exact H1|apply H2]. Qed.
Lemma nk_guard b x s k : (forall s1, nk s1 (fst (k s1))) -> nk s (fst (guard b x s k)).
Proof. intro H. unfold guard. destruct b; [apply H|apply nk_refl]. Qed.
Lemma nk_fold_idsR f l : (forall s x, nk s (fst (f s x))) -> forall s, nk s (fst (fold_idsR f l s)).
Proof. intro H. induction l as [|x l IH]; intro s; cbn; [apply nk_refl|]. apply nk_bind; [apply H|apply IH]. Qed.
Lemma nk_fold_pairsR f l : (forall s x, nk s (fst (f s x))) -> forall s, nk s (fst (fold_pairsR f l s)).
Proof. intro H. induction l as [|x l IH]; intro s; cbn; [apply nk_refl|]. apply nk_bind; [apply H|apply IH]. Qed.
Lemma nk_fold_ids f l : (forall s x, nk s (f s x)) -> forall s, nk s (fold_ids f l s).
Proof. intro H. induction l as [|x l IH]; intro s; cbn; [apply nk_refl|]. eapply nk_trans; [apply H|apply IH]. Qed.
Lemma nk_fold_left {A} (f : state -> A -> state) l : (forall s x, nk s (f s x)) -> forall s, nk s (fold_left f l s).
Proof. intro H. induction l as [|x l IH]; intro s; cbn; [apply nk_refl|]. eapply nk_trans; [apply H|apply IH]. Qed.
Ltac nk_triv := apply nk_same; reflexivity.

(* a table written where one was, or where the kind is known *)
Lemma nk_set_tab_over s p t0 t : nstab s p = Some t0 -> nk s (set_nstab s p t).
Proof.
  intro H. constructor; [auto|]. intros q Hq. cbn in Hq. unfold upd in Hq.
  destruct (Nat.eqb q p) eqn:E; [apply Nat.eqb_eq in E; subst q; left; rewrite H; discriminate|left; exact Hq].
Qed.
Lemma nk_set_tab_none s p : nk s (set_nstab s p None).
Proof.
  constructor; [auto|]. intros q Hq. cbn in Hq. unfold upd in Hq.
  destruct (Nat.eqb q p); [contradiction|left; exact Hq].
Qed.

Lemma nk_drop_outer s n i : nk s (fst (drop_outer s n i)).
Proof. unfold drop_outer. destruct (assoc i (ipins s n)) as [[w|]|]; nk_triv. Qed.
Lemma nk_rekey s n cn : nk s (fst (rekey s n cn)).
Proof. unfold rekey. destruct cn. destruct (assoc _ _) as [[w|]|]; nk_triv. Qed.

Lemma nk_apply_namespace pl s e : nk s (apply_namespace pl s e).
Proof.
  unfold apply_namespace. apply nk_fold_left. intros s0 x.
  set (s1 := data_write (emit s0 (EDictSet x str_NS (VStr (pol_name pl)))) x str_NS (VStr (pol_name pl))).
  assert (H1 : nk s0 s1) by nk_triv.
  destruct (fresh_table pl s1 x) as [t|] eqn:Ef; [|exact H1].
  eapply nk_trans; [exact H1|]. constructor; [auto|]. intros q Hq. cbn in Hq. unfold upd in Hq.
  destruct (Nat.eqb q x) eqn:E; [|left; exact Hq]. apply Nat.eqb_eq in E; subst q.
  right. cbn. unfold fresh_table in Ef. intro Hn. change (kind_of s1 x) with (kind_of s0 x) in Ef. rewrite Hn in Ef. discriminate Ef.
Qed.

Lemma nk_drop_namespace s e : nk s (drop_namespace s e).
Proof.
  unfold drop_namespace. apply nk_fold_left. intros s0 x.
  destruct (negb (Nat.eqb x e) && has_key (set_nstab s0 x None) x str_NS); [|apply nk_set_tab_none].
  eapply nk_trans; [apply nk_set_tab_none|nk_triv].
Qed.

Lemma nk_ns_dictionary_set s e k v : nk s (fst (ns_dictionary_set s e k v)).
Proof.
  unfold ns_dictionary_set. destruct (str_eqb k str_NS).
  - destruct (match sassoc k (data s e) with Some v0 => val_eqb v0 v | None => false end); [apply nk_refl|].
    destruct (ns_parent s e); [apply nk_refl|]. destruct (pol_of_val v); [|apply nk_refl].
    destruct (is_compliant p s e); [apply nk_apply_namespace|apply nk_refl].
  - destruct (is_name_key k); [|apply nk_refl]. destruct v; try apply nk_refl.
    destruct (negb _); [apply nk_refl|]. destruct (ns_parent s e) as [p|]; [|apply nk_refl].
    destruct (kind_of s e) as [ek|]; [|apply nk_refl]. destruct (nstab s p) as [t|] eqn:Ht; [|apply nk_refl].
    destruct (ns_no_conflict t ek e k s0); [|apply nk_refl]. cbn [fst ret]. apply (nk_set_tab_over s p t). exact Ht.
Qed.

Lemma nk_ns_remove_key s e k : nk s (ns_remove_key s e k).
Proof.
  unfold ns_remove_key. destruct (ns_parent s e) as [p|]; [|apply nk_refl]. destruct (kind_of s e); [|apply nk_refl].
  destruct (nstab s p) as [t|] eqn:Ht; [|apply nk_refl]. apply (nk_set_tab_over s p t). exact Ht.
Qed.

Lemma nk_ns_dictionary_delete s e k : nk s (fst (ns_dictionary_delete s e k)).
Proof.
  unfold ns_dictionary_delete. destruct (str_eqb k str_NS).
  - destruct (ns_parent s e); [apply nk_refl|]. destruct (has_key s e str_NS); [apply nk_drop_namespace|apply nk_refl].
  - destruct (is_name_key k); [apply nk_ns_remove_key|apply nk_refl].
Qed.

Lemma nk_dict_set s e k v : nk s (fst (dict_set s e k v)).
Proof. unfold dict_set. apply nk_bind; [apply nk_ns_dictionary_set|intro; nk_triv]. Qed.
Lemma nk_dict_del s e k : nk s (fst (dict_del s e k)).
Proof. unfold dict_del. apply nk_bind; [apply nk_ns_dictionary_delete|]. intro s1. destruct (has_key _ e k); nk_triv. Qed.
Lemma nk_dict_pop s e k : nk s (fst (dict_pop s e k)).
Proof. unfold dict_pop. apply nk_bind; [apply nk_ns_dictionary_delete|]. intro s1. destruct (has_key _ e k); nk_triv. Qed.

Lemma nk_set_props e props : forall s, nk s (fst (set_props s e props)).
Proof. induction props as [|[k v] ps IH]; intro s; cbn [set_props]; [apply nk_refl|]. apply nk_bind; [apply nk_dict_set|apply IH]. Qed.

Lemma nk_ns_add s p c ck : nk s (fst (ns_add s p c ck)).
Proof.
  unfold ns_add. destruct (_ : bool); [apply nk_refl|].
  apply nk_bind.
  - destruct (sassoc str_NS (data s p)) as [pv|].
    + destruct (match sassoc str_NS (data s c) with Some cv => val_eqb cv pv | None => false end); [apply nk_refl|apply nk_dict_set].
    + destruct (has_key s c str_NS); [apply nk_dict_del|apply nk_refl].
  - intro s1. destruct (nstab s1 p) as [t|] eqn:Ht; [|apply nk_refl]. cbn [fst ret]. apply (nk_set_tab_over s1 p t). exact Ht.
Qed.

Lemma nk_ns_remove_child s p c ck : nk s (ns_remove_child s p c ck).
Proof. unfold ns_remove_child. destruct (nstab s p) as [t|] eqn:Ht; [|apply nk_refl]. apply (nk_set_tab_over s p t). exact Ht. Qed.

Lemma nk_alloc s k : nk s (s <| next := S (next s) |> <| kind_of ::= fun f => upd f (next s) (Some k) |>).
Proof.
  constructor; cbn; [|intros; left; assumption]. intros x Hx. unfold upd. destruct (Nat.eqb x (next s)); [discriminate|exact Hx].
Qed.

Lemma nk_construct s k nm props : nk s (fst (fst (construct s k nm props))).
Proof.
  unfold construct, alloc. cbn zeta beta iota.
  set (s0 := s <| next := S (next s) |> <| kind_of ::= fun f => upd f (next s) (Some k) |>).
  assert (T0 : nk s s0) by apply nk_alloc.
  destruct (has_data k); cbn [fst]; [|exact T0].
  eapply nk_trans; [exact T0|]. apply nk_bind; [apply nk_dict_set|]. intro s1.
  apply nk_bind; [destruct nm; [eapply nk_trans; [|apply nk_dict_set]; nk_triv|nk_triv]|].
  intro s3. apply nk_set_props.
Qed.

Lemma nk_add_post s r p c : nk s (add_post s r p c).
Proof.
  unfold add_post. destruct r; try apply nk_refl.
  - apply nk_fold_ids. intros s0 n. apply nk_fold_ids. intros; nk_triv.
  - destruct (par s RPorts p); [|apply nk_refl]. apply nk_fold_ids. intros; nk_triv.
Qed.

Lemma nk_op_add s r p c pos : nk s (fst (op_add s r p c pos)).
Proof.
  unfold op_add. repeat (apply nk_guard; intro).
  apply nk_bind; [destruct (ns_rel r); [apply nk_ns_add|apply nk_refl]|].
  intro sx. eapply nk_trans; [|apply nk_add_post]. nk_triv.
Qed.

Lemma nk_remove_core s r p c : nk s (fst (remove_core s r p c)).
Proof.
  unfold remove_core. apply nk_bind; [|intro; nk_triv].
  eapply nk_trans with (b := emit (if ns_rel r then ns_remove_child s p c (rel_child r) else s) (ERemove r p c)).
  - destruct (ns_rel r); [|nk_triv]. eapply nk_trans; [apply nk_ns_remove_child|nk_triv].
  - destruct r; try apply nk_refl.
    + apply nk_fold_idsR. intros s0 n. apply nk_fold_idsR. intros; apply nk_drop_outer.
    + destruct (par _ RPorts p); [|apply nk_refl]. apply nk_fold_idsR. intros; apply nk_drop_outer.
Qed.

Lemma nk_op_set_reference s x v : nk s (fst (op_set_reference s x v)).
Proof. pose proof (q3_op_set_reference s x v) as H. apply nk_same; [apply (q3_kind _ _ H)|apply (q3_tab _ _ H)]. Qed.

Lemma nk_create_items r p : forall n s, nk s (fst (create_items s r p n)).
Proof.
  induction n as [|n IH]; intro s; cbn [create_items]; [apply nk_refl|]. unfold alloc. cbn zeta.
  eapply nk_trans; [apply (nk_alloc s (rel_child r))|]. apply nk_bind; [apply nk_op_add|apply IH].
Qed.

Lemma tabk_nk s s' : nk s s' -> TabK s -> TabK s'.
Proof. intros [A B] H p Hp. destruct (B p Hp) as [H1|H1]; [apply A, (H p H1)|exact H1]. Qed.

Ltac vian := match goal with FT : TabK ?s |- _ => apply (tabk_nk s); [|exact FT] end.

Theorem step_tabk s o : TabK s -> TabK (fst (step s o)).
Proof.
  intros FT. destruct o; cbn [step].
  - vian. apply nk_construct.
  - vian. apply nk_guard. intro s1. unfold create_and_add.
    pose proof (nk_construct s1 (rel_child r) nm props) as Tc.
    destruct (construct s1 (rel_child r) nm props) as [res x]. cbn [fst] in Tc.
    apply nk_bind; [apply nk_bind; [exact Tc|intro; apply nk_op_add]|].
    intro s2. destruct r; try apply nk_refl; [apply nk_create_items|apply nk_create_items|apply nk_op_set_reference].
  - vian. apply nk_guard. intro. apply nk_create_items.
  - vian. apply nk_op_add.
  - vian. unfold op_remove. repeat (apply nk_guard; intro). apply nk_bind; [apply nk_remove_core|intro; nk_triv].
  - vian. unfold op_remove_from. repeat (apply nk_guard; intro). apply nk_bind; [apply nk_fold_idsR; intros; apply nk_remove_core|intro; nk_triv].
  - vian. unfold op_reorder. repeat (apply nk_guard; intro). nk_triv.
  - vian. unfold op_reorder_wire. repeat (apply nk_guard; intro). nk_triv.
  - vian. unfold op_connect. apply nk_guard. intro s1. destruct p as [i|n i|]; cbn; try apply nk_refl.
    + destruct (ipwire s1 i); cbn; [apply nk_refl|nk_triv].
    + destruct (assoc i (ipins s1 n)) as [[w0|]|]; cbn; try apply nk_refl. nk_triv.
  - vian. unfold op_disconnect. repeat (apply nk_guard; intro). destruct p; nk_triv.
  - vian. unfold op_disconnect_from. repeat (apply nk_guard; intro). cbn [fst ret].
    match goal with |- nk ?sx (set_wpins (fold_left ?f ?l ?sx) _ _) =>
      apply (nk_trans sx (fold_left f l sx)); [|nk_triv]; apply nk_fold_left; intros sq q; destruct q; nk_triv end.
  - vian. apply nk_op_set_reference.
  - vian. unfold op_set_top. apply nk_guard. intro s0.
    set (s1 := clear_old_top (emit s0 (ETop n a)) n).
    assert (T1 : nk s0 s1) by (unfold s1, clear_old_top; destruct (top _ n); nk_triv).
    destruct a as [x|d|].
    + eapply nk_trans; [exact T1|nk_triv].
    + pose proof (nk_construct s1 KInstance None []) as Tc.
      destruct (construct s1 KInstance None []) as [res t]. cbn [fst] in Tc.
      eapply nk_trans; [exact T1|]. apply nk_bind; [exact Tc|]. intro s2.
      apply nk_bind; [apply nk_op_set_reference|]. intro s3. cbn [fst ret].
      unfold clear_old_top. destruct (top _ n); nk_triv.
    + eapply nk_trans; [exact T1|nk_triv].
  - vian. apply nk_guard. intro s1. unfold op_set_name. destruct nm; [apply nk_dict_set|]. destruct (has_key s1 e str_NAME); [apply nk_dict_del|apply nk_refl].
  - vian. apply nk_guard. intro s1. unfold op_del_name. destruct (has_key s1 e str_NAME); [apply nk_dict_del|apply nk_refl].
  - vian. apply nk_guard. intro. apply nk_dict_set.
  - vian. apply nk_guard. intro. apply nk_dict_del.
  - vian. apply nk_guard. intro. apply nk_dict_pop.
  - vian. apply nk_guard. intro. nk_triv.
  - vian. repeat (apply nk_guard; intro). nk_triv.
  - vian. apply nk_guard. intro. nk_triv.
  - vian. apply nk_guard. intro. nk_triv.
  - vian. nk_triv.
Qed.

Lemma tabk_init : TabK init.
Proof. intros p H. exfalso. apply H. reflexivity. Qed.

Theorem reachable_tabk ops : TabK (run ops init).
Proof.
  assert (G : forall ops s, TabK s -> TabK (run ops s)).
  { induction ops0 as [|o ops0 IH]; intros s F; cbn [run fold_left]; [exact F|]. apply IH, step_tabk, F. }
  apply G, tabk_init.
Qed.

(* with freshness: no table at or above the counter *)
Lemma tab_none_above s p : TabK s -> Fresh s -> next s <= p -> nstab s p = None.
Proof.
  intros K F Hp. destruct (nstab s p) eqn:E; [|reflexivity]. exfalso.
  apply (K p); [rewrite E; discriminate|apply (f_kind _ F); exact Hp].
Qed.
