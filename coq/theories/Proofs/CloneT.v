(* Definition.clone keeps the typing of containment: every member of a container has the kind the
   relation asks for, for the original objects and for the copy. *)
From Coq Require Import List Arith Bool Lia.
From RecordUpdate Require Import RecordSet.
From SV Require Import Base.Base IR.State IR.NS IR.Ops Xform.Clone Proofs.AssocX Proofs.Frame Proofs.Inv1a
  Proofs.InvW Proofs.Fresh Proofs.NsInv Proofs.CloneInv Proofs.RefK Proofs.CloneRef.
Import ListNotations RecordSetNotations.

(* the containers allocated in [a, b) are correctly typed *)
Definition TFrag (a b : id) (s : state) : Prop :=
  forall r p c, a <= p < b -> In c (kids s r p) -> kind_of s c = Some (rel_child r) /\ kind_of s p = Some (rel_parent r).

Lemma tfrag_empty a s : TFrag a a s. Proof. intros r p c Hp. lia. Qed.

Lemma tfrag_join a b c s1 s2 :
  TFrag a b s1 -> Frag a b s1 -> b <= next s1 -> kpframe b s1 s2 -> KM s1 s2 -> TFrag b c s2 -> TFrag a c s2.
Proof.
  intros T1 F1 Hb Hf [_ Km] T2 r p x Hp Hin. destruct (Nat.lt_ge_cases p b) as [Hpb|Hpb]; [|apply T2; [lia|exact Hin]].
  destruct (Hf r p Hpb) as [Ek _]. rewrite Ek in Hin.
  assert (Hx : a <= x < b) by (apply (fg_kin _ _ _ F1 r p x); [lia|exact Hin]).
  rewrite !Km by lia. apply T1; [lia|exact Hin].
Qed.

Lemma clone_alloc_kind s k s1 x : clone_alloc s k = (s1, x) -> kind_of s1 x = Some k.
Proof.
  unfold clone_alloc, alloc. cbn zeta.
  set (sa := s <| next := S (next s) |> <| kind_of ::= fun f => upd f (next s) (Some k) |>).
  destruct (has_data k); intro E; injection E as <- <-.
  - pose proof (se_ns_create sa (next s)) as H. cbn. rewrite (se_kind _ _ H). cbn. apply upd_same.
  - cbn. apply upd_same.
Qed.

Definition KindSpec (f : SM -> id -> SM * id) (K : kind) : Prop :=
  forall s m x s' m' x', f (s, m) x = ((s', m'), x') -> kind_of s' x' = Some K.

Lemma pin_clone1_kind : KindSpec pin_clone1 KPin.
Proof.
  intros s m i s' m' i' E. unfold pin_clone1 in E. destruct (clone_alloc s KPin) as [s1 x] eqn:Ea.
  pose proof (clone_alloc_kind _ _ _ _ Ea) as H. injection E as <- <- <-. exact H.
Qed.
Lemma wire_clone1_kind : KindSpec wire_clone1 KWire.
Proof.
  intros s m i s' m' i' E. unfold wire_clone1 in E. destruct (clone_alloc s KWire) as [s1 x] eqn:Ea.
  pose proof (clone_alloc_kind _ _ _ _ Ea) as H. injection E as <- <- <-. exact H.
Qed.
Lemma inst_clone1_kind : KindSpec inst_clone1 KInstance.
Proof.
  intros s m i s' m' i' E. unfold inst_clone1 in E. destruct (clone_alloc s KInstance) as [s1 x] eqn:Ea.
  pose proof (clone_alloc_kind _ _ _ _ Ea) as H. injection E as <- <- <-. exact H.
Qed.

(* the members of a cloned list have the kind of their constructor, in the final state *)
Lemma clone_each_kinds f K : KindSpec f K -> KMf f ->
  (forall s m x s' m' x', f (s, m) x = ((s', m'), x') -> x' < next s') ->
  forall l s m s' m' l', clone_each f l (s, m) = ((s', m'), l') -> forall c, In c l' -> kind_of s' c = Some K.
Proof.
  intros Hk Hm Hlt. induction l as [|x l IH]; intros s m s' m' l' E c Hc; cbn [clone_each] in E.
  - injection E as <- <- <-. destruct Hc.
  - destruct (f (s, m) x) as [[s1 m1] x'] eqn:E1. destruct (clone_each f l (s1, m1)) as [[s2 m2] l2] eqn:E2.
    injection E as <- <- <-. destruct Hc as [<-|Hc]; [|apply (IH _ _ _ _ _ E2 c Hc)].
    destruct (km_clone_each f Hm _ _ _ _ _ _ E2) as [_ Km]. rewrite Km by (apply (Hlt _ _ _ _ _ _ E1)). apply (Hk _ _ _ _ _ _ E1).
Qed.

Lemma leaf_lt f : LeafSpec f -> forall s m x s' m' x', f (s, m) x = ((s', m'), x') -> x' < next s'.
Proof. intros Hf s m x s' m' x' E. destruct (Hf _ _ _ _ _ _ E) as [-> [-> _]]. lia. Qed.

Lemma kind_fold_set_par r p : forall L s, kind_of (fold_ids (fun s i => set_par s r i p) L s) = kind_of s.
Proof. induction L as [|c L IH]; intro s; cbn [fold_ids]; [reflexivity|]. rewrite IH. reflexivity. Qed.

(* a typed sibling of BundleSpec *)
Definition TSpec (f : SM -> id -> SM * id) (K : kind) : Prop :=
  forall s m x s' m' x', Above s -> ParLt s -> f (s, m) x = ((s', m'), x') ->
    kind_of s' x' = Some K /\ TFrag (next s) (next s') s'.

Lemma leaf_tspec f K : LeafSpec f -> KindSpec f K -> TSpec f K.
Proof.
  intros Hl Hk s m x s' m' x' Hab _ E. split; [apply (Hk _ _ _ _ _ _ E)|].
  destruct (Hl _ _ _ _ _ _ E) as [_ [_ [Hkd _]]]. intros r p c Hp Hin. rewrite Hkd in Hin.
  rewrite (proj1 (Hab r p ltac:(lia))) in Hin. destruct Hin.
Qed.

Lemma bundle_tspec (kd : kind) (rl : rel) (leaf : SM -> id -> SM * id) (srcitems : state -> id -> list id) :
  LeafSpec leaf -> KMf leaf -> KindSpec leaf (rel_child rl) -> rel_parent rl = kd ->
  forall s m p s' m' p',
  Above s -> ParLt s ->
  (let '(s1, x) := clone_alloc s kd in
   let '((s2, m2), items') := clone_each leaf (srcitems s1 p) (s1, (p, x) :: m) in
   let s3 := set_kids s2 rl x items' in
   let s4 := fold_ids (fun s i' => set_par s rl i' (Some x)) items' s3 in
   ((copy_data (copy_bundle s4 p x) p x, m2), x)) = ((s', m'), p') ->
  kind_of s' p' = Some kd /\ TFrag (next s) (next s') s'.
Proof.
  intros Hleaf Hkm Hlk Hrp s m p s' m' p' Hab Hpl E.
  destruct (clone_alloc s kd) as [s1 x] eqn:Ea. destruct (clone_alloc_kp s kd s1 x Ea) as [Hx [Hn1 [Hk1 Hp1]]].
  pose proof (clone_alloc_kind _ _ _ _ Ea) as Hkx.
  destruct (clone_each leaf (srcitems s1 p) (s1, (p, x) :: m)) as [[s2 m2] items'] eqn:Ee.
  destruct (clone_each_leaf leaf Hleaf _ _ _ _ _ _ Ee) as [Hit [Hn2 [Hk2 Hp2]]].
  pose proof (clone_each_kinds leaf _ Hlk Hkm (leaf_lt leaf Hleaf) _ _ _ _ _ _ Ee) as Hik.
  destruct (km_clone_each leaf Hkm _ _ _ _ _ _ Ee) as [_ Km2].
  destruct (fold_set_par_spec rl x items' (set_kids s2 rl x items')) as [Hk4 [Hn4 Hp4]].
  injection E as <- <- <-.
  set (sF := copy_data (copy_bundle (fold_ids (fun s i' => set_par s rl i' (Some x)) items' (set_kids s2 rl x items')) p x) p x).
  assert (Hkind : kind_of sF = kind_of s2) by (unfold sF; cbn; rewrite kind_fold_set_par; reflexivity).
  assert (Hkids : forall r y, kids sF r y = if rel_eqb r rl && Nat.eqb y x then items' else kids s r y).
  { intros r y. unfold sF. cbn. rewrite Hk4. cbn. rewrite kids_upd2_ns, Hk2, Hk1. reflexivity. }
  assert (Hkx2 : kind_of sF x = Some kd) by (rewrite Hkind, Km2 by (rewrite Hn1, Hx; lia); exact Hkx).
  split; [exact Hkx2|].
  intros r q c Hq Hin. rewrite Hkids in Hin. destruct (rel_eqb r rl) eqn:Er; cbn [andb] in Hin.
  - apply rel_eqb_spec in Er. subst r. destruct (Nat.eqb_spec q x) as [->|Hne].
    + split; [rewrite Hkind; apply Hik; exact Hin|rewrite Hrp; exact Hkx2].
    + rewrite (proj1 (Hab rl q ltac:(lia))) in Hin. destruct Hin.
  - rewrite (proj1 (Hab r q ltac:(lia))) in Hin. destruct Hin.
Qed.

Lemma port_clone1_tspec : TSpec port_clone1 KPort.
Proof.
  intros s m p s' m' p' Hab Hpl E.
  apply (bundle_tspec KPort RPins pin_clone1 (fun s1 p => kids s1 RPins p) pin_clone1_leaf km_pin_clone1 pin_clone1_kind eq_refl s m p s' m' p' Hab Hpl). exact E.
Qed.
Lemma cable_clone1_tspec : TSpec cable_clone1 KCable.
Proof.
  intros s m p s' m' p' Hab Hpl E.
  apply (bundle_tspec KCable RWires wire_clone1 (fun s1 p => kids s1 RWires p) wire_clone1_leaf km_wire_clone1 wire_clone1_kind eq_refl s m p s' m' p' Hab Hpl). exact E.
Qed.
Lemma inst_clone1_tspec : TSpec inst_clone1 KInstance.
Proof. apply leaf_tspec; [apply inst_clone1_leaf|apply inst_clone1_kind]. Qed.

Lemma clone_each_tspec f K : BundleSpec f -> KMf f -> TSpec f K -> forall l s m s' m' l',
  Above s -> ParLt s -> clone_each f l (s, m) = ((s', m'), l') ->
  TFrag (next s) (next s') s' /\ (forall c, In c l' -> kind_of s' c = Some K).
Proof.
  intros Hb Hm Ht. induction l as [|x l IH]; intros s m s' m' l' Hab Hpl E; cbn [clone_each] in E.
  - injection E as <- <- <-. split; [apply tfrag_empty|intros c []].
  - destruct (f (s, m) x) as [[s1 m1] x'] eqn:E1.
    destruct (Hb s m x s1 m1 x' Hab Hpl E1) as [A [B [C [D [P1 [Ab1 Pl1]]]]]].
    destruct (Ht s m x s1 m1 x' Hab Hpl E1) as [Kx T1].
    destruct (clone_each f l (s1, m1)) as [[s2 m2] l2] eqn:E2.
    destruct (IH s1 m1 s2 m2 l2 Ab1 Pl1 E2) as [T2 K2].
    destruct (clone_each_bundle f Hb _ _ _ _ _ _ Ab1 Pl1 E2) as [B2 [C2 _]].
    pose proof (km_clone_each f Hm _ _ _ _ _ _ E2) as Km.
    injection E as <- <- <-. split.
    + apply (tfrag_join (next s) (next s1) (next s2) s1 s2); try assumption. apply Nat.le_refl.
    + intros c [<-|Hc]; [|apply K2; exact Hc]. destruct Km as [_ Km]. rewrite Km by lia. exact Kx.
Qed.

Lemma km_rr_phase m4 a ports' cables' children' s5 :
  KM s5 (fst (fold_idsR (fun s p' => port_rr m4 (set_par s RPorts p' (Some a)) p') ports' s5 >>= fun s6 =>
              fold_idsR (fun s c' => cable_rr m4 (set_par s RCables c' (Some a)) c') cables' s6 >>= fun s7 =>
              fold_idsR (fun s x' => inst_rr_def m4 (set_par s RChildren x' (Some a)) x') children' s7)).
Proof.
  apply km_bind; [apply km_fold_idsR; intros s6 p'; eapply km_trans; [|apply km_port_rr]; apply km_same; reflexivity|].
  intro s6. apply km_bind; [apply km_fold_idsR; intros s7 c'; eapply km_trans; [|apply km_cable_rr]; apply km_same; reflexivity|].
  intro s7. apply km_fold_idsR. intros s8 x'. eapply km_trans; [|apply km_inst_rr_def]. apply km_same; reflexivity.
Qed.

(* ---- Definition._clone: the copy is correctly typed ---- *)
Lemma def_clone1_t s m d s' m' d' :
  Above s -> ParLt s -> def_clone1 (s, m) d = ((s', m', d'), None) ->
  kind_of s' d' = Some KDefinition /\ TFrag (next s) (next s') s'.
Proof.
  intros Hab Hpl E. unfold def_clone1 in E.
  destruct (clone_alloc s KDefinition) as [s1 x] eqn:Ea.
  destruct (clone_alloc_kp s KDefinition s1 x Ea) as [Hx [Hn1 [Hk1 Hp1]]].
  destruct (above_alloc s KDefinition s1 x Hab Hpl Ea) as [Ab1 Pl1].
  pose proof (clone_alloc_kind _ _ _ _ Ea) as Hkx.
  remember (next s) as a eqn:Ea0. subst x.
  remember (copy_data s1 d a) as s1c eqn:Es1c.
  assert (Ab1c : Above s1c) by (subst s1c; exact Ab1). assert (Pl1c : ParLt s1c) by (subst s1c; exact Pl1).
  assert (Hn1c : next s1c = S a) by (subst s1c; exact Hn1).
  assert (Hkxc : kind_of s1c a = Some KDefinition) by (subst s1c; exact Hkx).
  match type of E with context [clone_each port_clone1 ?l ?sm] => destruct (clone_each port_clone1 l sm) as [[s2 m2] ports'] eqn:E2 end.
  destruct (clone_each_bundle port_clone1 port_clone1_bundle _ _ _ _ _ _ Ab1c Pl1c E2) as [L2 [F2 [G2 [R2 [N2 [Ab2 Pl2]]]]]].
  destruct (clone_each_tspec port_clone1 KPort port_clone1_bundle km_port_clone1 port_clone1_tspec _ _ _ _ _ _ Ab1c Pl1c E2) as [T2 K2].
  pose proof (km_clone_each port_clone1 km_port_clone1 _ _ _ _ _ _ E2) as M2.
  match type of E with context [clone_each cable_clone1 ?l ?sm] => destruct (clone_each cable_clone1 l sm) as [[s3 m3] cables'] eqn:E3 end.
  destruct (clone_each_bundle cable_clone1 cable_clone1_bundle _ _ _ _ _ _ Ab2 Pl2 E3) as [L3 [F3 [G3 [R3 [N3 [Ab3 Pl3]]]]]].
  destruct (clone_each_tspec cable_clone1 KCable cable_clone1_bundle km_cable_clone1 cable_clone1_tspec _ _ _ _ _ _ Ab2 Pl2 E3) as [T3 K3].
  pose proof (km_clone_each cable_clone1 km_cable_clone1 _ _ _ _ _ _ E3) as M3.
  match type of E with context [clone_each inst_clone1 ?l ?sm] => destruct (clone_each inst_clone1 l sm) as [[s4 m4] children'] eqn:E4 end.
  destruct (clone_each_bundle inst_clone1 inst_clone1_bundle _ _ _ _ _ _ Ab3 Pl3 E4) as [L4 [F4 [G4 [R4 [N4 [Ab4 Pl4]]]]]].
  destruct (clone_each_tspec inst_clone1 KInstance inst_clone1_bundle km_inst_clone1 inst_clone1_tspec _ _ _ _ _ _ Ab3 Pl3 E4) as [T4 K4].
  pose proof (km_clone_each inst_clone1 km_inst_clone1 _ _ _ _ _ _ E4) as M4.
  rewrite Hn1c in *.
  assert (G23 : Frag (S a) (next s3) s3).
  { apply (frag_join (S a) (next s2) (next s3) s2 s3); try lia; try assumption; try reflexivity.
    intros r y Hy. apply (proj2 (Ab3 r y Hy)). }
  assert (T24 : TFrag (S a) (next s4) s4).
  { apply (tfrag_join (S a) (next s3) (next s4) s3 s4); try assumption; [|apply Nat.le_refl].
    apply (tfrag_join (S a) (next s2) (next s3) s2 s3); try assumption. apply Nat.le_refl. }
  assert (F14 : kpframe (S a) s1c s4).
  { eapply kpframe_trans; [exact F2|]. eapply kpframe_trans; [apply (kpframe_weaken (next s2)); [lia|exact F3]|apply (kpframe_weaken (next s3)); [lia|exact F4]]. }
  assert (M14 : KM s1c s4) by (eapply km_trans; [exact M2|eapply km_trans; eassumption]).
  assert (Ha4 : forall r, kids s4 r a = []).
  { intro r. destruct (F14 r a ltac:(lia)) as [Ek _]. rewrite Ek. subst s1c. cbn. rewrite Hk1. apply (proj1 (Hab r a ltac:(subst a; apply Nat.le_refl))). }
  assert (Hka4 : kind_of s4 a = Some KDefinition) by (destruct M14 as [_ Km]; rewrite Km by lia; exact Hkxc).
  assert (K2' : forall c, In c ports' -> kind_of s4 c = Some KPort).
  { intros c Hc. destruct (R2 c Hc) as [Hr _]. destruct M3 as [_ Km3]. destruct M4 as [_ Km4]. rewrite Km4, Km3 by lia. apply K2. exact Hc. }
  assert (K3' : forall c, In c cables' -> kind_of s4 c = Some KCable).
  { intros c Hc. destruct (R3 c Hc) as [Hr _]. destruct M4 as [_ Km4]. rewrite Km4 by lia. apply K3. exact Hc. }
  set (s5 := set_drefs (set_kids (set_kids (set_kids s4 RPorts a ports') RCables a cables') RChildren a children') a (drefs s4 d)) in *.
  assert (Hk5 : forall r y, kids s5 r y = if Nat.eqb y a then KK ports' cables' children' r else kids s4 r y).
  { intros r y. unfold s5. cbn. rewrite !kids_upd2_ns. unfold KK.
    destruct (Nat.eqb_spec y a) as [->|]; [|rewrite !andb_false_r; reflexivity].
    destruct r; cbn; rewrite ?andb_true_r; try reflexivity; apply Ha4. }
  set (rr := fold_idsR (fun s p' => port_rr m4 (set_par s RPorts p' (Some a)) p') ports' s5 >>= fun s6 =>
             fold_idsR (fun s c' => cable_rr m4 (set_par s RCables c' (Some a)) c') cables' s6 >>= fun s7 =>
             fold_idsR (fun s x' => inst_rr_def m4 (set_par s RChildren x' (Some a)) x') children' s7) in *.
  assert (Hrr : snd rr = None -> kids (fst rr) = kids s5 /\ next (fst rr) = next s5).
  { unfold rr.
    destruct (fold_idsR (fun s p' => port_rr m4 (set_par s RPorts p' (Some a)) p') ports' s5) as [s6 [e|]] eqn:Ef1; cbn [bindR fst snd]; [discriminate|].
    destruct (fold_rr_par_E (port_rr m4) RPorts a (kpsame_port_rr m4) ports' s5 s6 Ef1) as [K6 [N6 _]].
    destruct (fold_idsR (fun s c' => cable_rr m4 (set_par s RCables c' (Some a)) c') cables' s6) as [s7 [e|]] eqn:Ef2; cbn [bindR fst snd]; [discriminate|].
    destruct (fold_rr_par_E (cable_rr m4) RCables a (kpsame_cable_rr m4) cables' s6 s7 Ef2) as [K7 [N7 _]].
    destruct (fold_idsR (fun s x' => inst_rr_def m4 (set_par s RChildren x' (Some a)) x') children' s7) as [s8 [e|]] eqn:Ef3; cbn [fst snd]; [discriminate|].
    destruct (fold_rr_par_E (inst_rr_def m4) RChildren a (kpsame_inst_rr_def m4) children' s7 s8 Ef3) as [K8 [N8 _]].
    intros _. split; congruence. }
  pose proof (km_rr_phase m4 a ports' cables' children' s5) as [_ KmF]. fold rr in KmF.
  injection E as <- <- <- Esnd. change (snd rr = None) in Esnd. destruct (Hrr Esnd) as [KF NF].
  change (kind_of (fst rr) a = Some KDefinition /\ TFrag a (next (fst rr)) (fst rr)).
  assert (Hkeep : forall y, y < next s4 -> kind_of (fst rr) y = kind_of s4 y) by (intros y Hy; rewrite KmF by exact Hy; reflexivity).
  assert (HaF : kind_of (fst rr) a = Some KDefinition) by (rewrite Hkeep by lia; exact Hka4).
  split; [exact HaF|].
  intros r p c Hp Hin. rewrite NF in Hp. change (next s5) with (next s4) in Hp. rewrite KF, Hk5 in Hin.
  destruct (Nat.eqb_spec p a) as [->|Hne].
  - unfold KK in Hin. destruct r; try destruct Hin; (split; [|exact HaF]).
    + destruct (R2 c Hin) as [Hr _]. rewrite Hkeep by lia. apply K2'. exact Hin.
    + destruct (R3 c Hin) as [Hr _]. rewrite Hkeep by lia. apply K3'. exact Hin.
    + destruct (R4 c Hin) as [Hr _]. rewrite Hkeep by lia. apply K4. exact Hin.
  - assert (Hp' : S a <= p < next s4) by lia.
    assert (Hc : S a <= c < next s4).
    { assert (G24 : Frag (S a) (next s4) s4).
      { apply (frag_join (S a) (next s3) (next s4) s3 s4); try lia; try assumption; try reflexivity.
        intros r0 y Hy. apply (proj2 (Ab4 r0 y Hy)). }
      apply (fg_kin _ _ _ G24 r p c Hp' Hin). }
    rewrite !Hkeep by lia. apply (T24 r p c Hp' Hin).
Qed.

Lemma kind_reapply s c : kind_of (fst (reapply s c)) = kind_of s.
Proof.
  unfold reapply. destruct (sassoc str_NS (data s c)); [|reflexivity].
  pose proof (se_dict_del s c str_NS) as H1. destruct (dict_del s c str_NS) as [s1 [e|]]; cbn [bindR fst] in *; [apply (se_kind _ _ H1)|].
  rewrite (se_kind _ _ (se_dict_set s1 c str_NS v)). apply (se_kind _ _ H1).
Qed.

Lemma kind_register_child s x : kind_of (fst (register_child s x)) = kind_of s.
Proof. unfold register_child. destruct (iref s x); reflexivity. Qed.
Lemma kind_fold_register : forall L s, kind_of (fst (fold_idsR register_child L s)) = kind_of s.
Proof.
  induction L as [|x L IH]; intro s; cbn [fold_idsR]; [reflexivity|].
  pose proof (kind_register_child s x) as H. destruct (register_child s x) as [s1 [e|]]; cbn [bindR fst] in *; [exact H|].
  rewrite IH. exact H.
Qed.

(* Definition.clone keeps the typing of containment *)
Theorem clone_definition_invt s d :
  Inv1a s -> Fresh s -> InvT s -> snd (fst (clone_definition s d)) = None -> InvT (fst (fst (clone_definition s d))).
Proof.
  intros I1 F HT. pose proof (above_of_fresh s F) as Ab. pose proof (parlt_of_inv1a s I1 Ab) as Pl.
  unfold clone_definition. destruct (def_clone1 (s, []) d) as [[[s1 m1] d'] [e|]] eqn:E; cbn [fst snd]; [discriminate|].
  destruct (def_clone1_kp s [] d s1 m1 d' Ab Pl E) as [Hd' [Hn [Hf [Hg [Hpd [Ab1 Pl1]]]]]].
  destruct (def_clone1_t s [] d s1 m1 d' Ab Pl E) as [Hkd T1].
  destruct (km_def_clone1 _ _ _ _ _ _ _ E) as [_ Km].
  intros _.
  assert (K : kpsame s1 (fst (fold_idsR register_child (kids s1 RChildren d') s1 >>= fun s2 => reapply (set_drefs s2 d' []) d'))).
  { apply kpsame_bind; [apply kpsame_fold_idsR; intros; apply kpsame_register_child|].
    intro s2. eapply kpsame_trans; [|apply kpsame_reapply]. repeat split. }
  assert (Kd : kind_of (fst (fold_idsR register_child (kids s1 RChildren d') s1 >>= fun s2 => reapply (set_drefs s2 d' []) d')) = kind_of s1).
  { pose proof (kind_fold_register (kids s1 RChildren d') s1) as H.
    destruct (fold_idsR register_child (kids s1 RChildren d') s1) as [s2 [e|]]; cbn [bindR fst] in *; [exact H|].
    rewrite kind_reapply. exact H. }
  destruct K as [K1 [K2 K3]].
  assert (Hlt : forall r p c, In c (kids s r p) -> c < next s).
  { intros r p c Hc. apply (i1_kids _ I1) in Hc. destruct (Nat.lt_ge_cases c (next s)) as [H|H]; [exact H|].
    rewrite (proj2 (Ab r c H)) in Hc. discriminate. }
  intros r p c Hc. rewrite K1 in Hc. rewrite Kd.
  destruct (Nat.lt_ge_cases p (next s)) as [Hp|Hp].
  - destruct (Hf r p Hp) as [Ek _]. rewrite Ek in Hc. rewrite !Km by (try exact Hp; apply (Hlt r p c Hc)). apply HT. exact Hc.
  - destruct (Nat.lt_ge_cases p (next s1)) as [Hp1|Hp1]; [apply T1; [lia|exact Hc]|].
    rewrite (proj1 (Ab1 r p Hp1)) in Hc. destruct Hc.
Qed.
