(* get_wires, selection ALL: the second loop ("while pin_search") is a closure across hierarchy
   boundaries.  One step of the closure goes from a wire to the wires looked at for one of its pins
   (wire_adj).  The wires the second loop yields are exactly those reached from a candidate of a pending
   pin along a path of wires that were not yielded before (rounds_all_exact); from an empty in_yield that
   is the reflexive-transitive closure (rounds_all_closure); the loop stops within one round per wire of
   any finite universe of candidates (rounds_all_terminates), and the whole query is lifted on top of
   the first loop (query_wires_all_exact), whose yields and collected pins are named declaratively for
   every kind of root (query_wires_all_spec). *)
From Coq Require Import List Arith Bool Lia Relations.
From SV Require Import Base.Base IR.State IR.NS IR.Ops Proofs.Inv1a Proofs.Inv2a Proofs.InvW Proofs.AssocX
  Hier.Paths Hier.Enum Hier.Trace Proofs.KindD Query.Filter Query.Enum Query.EnumSpec
  Proofs.FieldT Proofs.QueryEnumWL Proofs.QueryEnumBase Proofs.QueryEnumView Proofs.QueryEnumPorts Proofs.QueryEnumPins
  Proofs.QueryEnumCables Proofs.QueryEnumWires Proofs.QueryEnumWiresSpec.
Import ListNotations.

(* ---- specification ---- *)

(* one step: w' is looked at for a pin of wire w (its own wire, and the wire on the other side of the
   pin: inside the instantiated definition / outside on every instance of the definition) *)
Definition wire_adj (s : state) (w w' : id) : Prop :=
  exists p, In p (wpins s w) /\ In w' (pin_cands s SAll p).

(* a step to a wire that was not yielded before *)
Definition adj_avoid (s : state) (iny : list id) (w w' : id) : Prop :=
  wire_adj s w w' /\ ~ In w' iny.

(* reached from a candidate of a pending pin *)
Definition closure_of (s : state) (pins : list pin) (w : id) : Prop :=
  exists p w0, In p pins /\ In w0 (pin_cands s SAll p) /\ clos_refl_trans id (wire_adj s) w0 w.

(* ... along wires that are not in in_yield *)
Definition reach_avoid (s : state) (iny : list id) (pins : list pin) (w : id) : Prop :=
  exists p w0, In p pins /\ In w0 (pin_cands s SAll p) /\ ~ In w0 iny /\
               clos_refl_trans id (adj_avoid s iny) w0 w.

Section All.
Variable s : state.

Lemma rt_mono (R1 R2 : id -> id -> Prop) : (forall a b, R1 a b -> R2 a b) ->
  forall a b, clos_refl_trans id R1 a b -> clos_refl_trans id R2 a b.
Proof.
  intros HR a b H. induction H as [a b H|a|a b c _ IH1 _ IH2]; [apply rt_step, HR, H|apply rt_refl|eapply rt_trans; eassumption].
Qed.

Lemma avoid_closure iny pins w : reach_avoid s iny pins w -> closure_of s pins w.
Proof.
  intros (p & w0 & Hp & Hc & _ & Hr). exists p, w0. split; [exact Hp|]. split; [exact Hc|].
  apply (rt_mono (adj_avoid s iny)); [intros a b [H _]; exact H|exact Hr].
Qed.

Lemma avoid_nil pins w : reach_avoid s [] pins w <-> closure_of s pins w.
Proof.
  split; [apply avoid_closure|]. intros (p & w0 & Hp & Hc & Hr). exists p, w0. split; [exact Hp|]. split; [exact Hc|].
  split; [intros []|].
  apply (rt_mono (wire_adj s)); [intros a b H; split; [exact H|intros []]|exact Hr].
Qed.

Lemma avoid_not_iny iny pins w : reach_avoid s iny pins w -> ~ In w iny.
Proof.
  intros (p & w0 & _ & _ & Hn & Hr). apply clos_rt_rtn1 in Hr. destruct Hr as [|b c [_ H] _]; [exact Hn|exact H].
Qed.

(* under the heap hypotheses the pins of a wire are the pins whose wire it is *)
Lemma wire_adj_iff (W : QWF s) w w' :
  wire_adj s w w' <-> exists p, pin_wire s p = Some w /\ In w' (pin_cands s SAll p).
Proof. split; intros (p & Hp & Hc); exists p; (split; [apply (wpins_pin_wire s W); exact Hp|exact Hc]). Qed.

(* ---- one pin, one round ---- *)
Lemma look_all ws : forall iny ys news iny' ys' news',
  look s SAll ws (iny, ys, news) = (iny', ys', news') ->
  exists add, iny' = add ++ iny /\ ys' = add ++ ys /\
    (forall w, In w add <-> In w ws /\ ~ In w iny) /\
    (forall p, In p news' <-> In p news \/ exists w, In w add /\ In p (wpins s w)).
Proof.
  induction ws as [|w0 ws IH]; intros iny ys news iny' ys' news' H; cbn [look] in H.
  - injection H as <- <- <-. exists []. split; [reflexivity|]. split; [reflexivity|]. split.
    + intro w. cbn. tauto.
    + intro p. split; [tauto|]. intros [H|(w & [] & _)]. exact H.
  - destruct (memb w0 iny) eqn:Em.
    + apply memb_In in Em. apply IH in H as (add & E1 & E2 & Ha & Hn). exists add. split; [exact E1|]. split; [exact E2|]. split; [|exact Hn].
      intro w. rewrite Ha. cbn. split; [tauto|]. intros [[<-|H] Hni]; [contradiction|tauto].
    + apply memb_false in Em. cbn [sel_all] in H. apply IH in H as (add & E1 & E2 & Ha & Hn). exists (add ++ [w0]).
      split; [rewrite <- app_assoc; exact E1|]. split; [rewrite <- app_assoc; exact E2|]. split.
      * intro w. rewrite in_app_iff, Ha. cbn. split.
        -- intros [[H Hni]|[<-|[]]]; [tauto|tauto].
        -- intros [[<-|H] Hni]; [right; left; reflexivity|].
           destruct (Nat.eq_dec w0 w) as [->|Hne]; [right; left; reflexivity|left; split; [exact H|intros [E|Hi]; [congruence|contradiction]]].
      * intro p. rewrite Hn, in_app_iff. split.
        -- intros [[H|H]|(w & Hw & H)]; [left; exact H|right; exists w0; split; [apply in_or_app; right; left; reflexivity|exact H]|].
           right. exists w. split; [apply in_or_app; left; exact Hw|exact H].
        -- intros [H|(w & Hw & H)]; [left; left; exact H|]. apply in_app_or in Hw as [Hw|[<-|[]]]; [right; exists w; auto|left; right; exact H].
Qed.

Lemma fold_look_all pins : forall iny ys news iny' ys' news',
  fold_left (fun st p => look s SAll (pin_cands s SAll p) st) pins (iny, ys, news) = (iny', ys', news') ->
  exists add, iny' = add ++ iny /\ ys' = add ++ ys /\
    (forall w, In w add <-> (exists q, In q pins /\ In w (pin_cands s SAll q)) /\ ~ In w iny) /\
    (forall p, In p news' <-> In p news \/ exists w, In w add /\ In p (wpins s w)).
Proof.
  induction pins as [|q0 pins IH]; intros iny ys news iny' ys' news' H; cbn [fold_left] in H.
  - injection H as <- <- <-. exists []. split; [reflexivity|]. split; [reflexivity|]. split.
    + intro w. cbn. split; [tauto|]. intros [(q & [] & _) _].
    + intro p. split; [tauto|]. intros [H|(w & [] & _)]. exact H.
  - destruct (look s SAll (pin_cands s SAll q0) (iny, ys, news)) as [[iny1 ys1] news1] eqn:E.
    apply look_all in E as (add1 & -> & -> & Ha1 & Hn1). apply IH in H as (add2 & -> & -> & Ha2 & Hn2).
    exists (add2 ++ add1). split; [apply app_assoc|]. split; [apply app_assoc|]. split.
    + intro w. rewrite in_app_iff, Ha2, Ha1, in_app_iff. split.
      * intros [[(q & Hq & H) Hni]|[H Hni]].
        -- split; [exists q; split; [right; exact Hq|exact H]|tauto].
        -- split; [exists q0; split; [left; reflexivity|exact H]|exact Hni].
      * intros [(q & [<-|Hq] & H) Hni]; [right; auto|].
        destruct (in_dec Nat.eq_dec w (pin_cands s SAll q0)) as [Hc|Hc]; [right; auto|].
        left. split; [exists q; auto|]. intros [Hi|Hi]; [apply Ha1 in Hi; tauto|contradiction].
    + intro p. rewrite Hn2, Hn1. split.
      * intros [[H|(w & Hw & H)]|(w & Hw & H)]; [left; exact H| |]; right; exists w; (split; [apply in_or_app; auto|exact H]).
      * intros [H|(w & Hw & H)]; [left; left; exact H|]. apply in_app_or in Hw as [Hw|Hw]; [right; exists w; auto|left; right; exists w; auto].
Qed.

(* ---- the second loop: exact characterisation ---- *)
Theorem rounds_all_exact fuel : forall pins iny ys res,
  rounds s SAll fuel pins iny ys = WOk res ->
  forall w, In w res <-> In w ys \/ reach_avoid s iny pins w.
Proof.
  induction fuel as [|f IH]; intros pins iny ys res H w; destruct pins as [|p0 pins]; cbn [rounds] in H; try discriminate H.
  - injection H as <-. rewrite <- in_rev. split; [tauto|]. intros [H|(p & w0 & [] & _)]. exact H.
  - injection H as <-. rewrite <- in_rev. split; [tauto|]. intros [H|(p & w0 & [] & _)]. exact H.
  - destruct (existsb (bad_search s SAll) (p0 :: pins)); [discriminate H|].
    destruct (fold_left (fun st p => look s SAll (pin_cands s SAll p) st) (p0 :: pins) (iny, ys, [])) as [[iny' ys'] news] eqn:E.
    apply fold_look_all in E as (add & -> & -> & Ha & Hn). rewrite (IH _ _ _ _ H w). clear IH H.
    set (P := p0 :: pins) in *.
    assert (Hpins : forall p, In p (dedup_pins_acc [] news) <-> exists w1, In w1 add /\ In p (wpins s w1)).
    { intro p. rewrite dedup_pins_In, Hn. cbn. split; [intros [[[]|H] _]; exact H|intro H; split; [right; exact H|tauto]]. }
    split.
    + intros [Hw|(p & w0 & Hp & Hc & Hni & Hr)].
      * apply in_app_or in Hw as [Hw|Hw]; [|left; exact Hw]. right. apply Ha in Hw as [(q & Hq & Hc) Hni].
        exists q, w. split; [exact Hq|]. split; [exact Hc|]. split; [exact Hni|apply rt_refl].
      * right. apply Hpins in Hp as (w1 & Hw1 & Hp). apply Ha in Hw1 as [(q & Hq & Hc1) Hni1].
        exists q, w1. split; [exact Hq|]. split; [exact Hc1|]. split; [exact Hni1|].
        eapply rt_trans; [apply rt_step; split; [exists p; split; [exact Hp|exact Hc]|intro Hi; apply Hni, in_or_app; right; exact Hi]|].
        apply (rt_mono (adj_avoid s (add ++ iny))); [|exact Hr]. intros a b [H Hb]. split; [exact H|].
        intro Hi. apply Hb, in_or_app. right. exact Hi.
    + intros [Hw|(p & w0 & Hp & Hc & Hni & Hr)]; [left; apply in_or_app; right; exact Hw|].
      assert (H0 : In w0 add) by (apply Ha; split; [exists p; auto|exact Hni]).
      assert (Hq : In w add \/ reach_avoid s (add ++ iny) (dedup_pins_acc [] news) w).
      { clear Hp Hc Hni. apply clos_rt_rtn1 in Hr. induction Hr as [|y z [(q & Hq & Hz) Hzi] _ IHr]; [left; exact H0|].
        destruct (in_dec Nat.eq_dec z add) as [Hza|Hza]; [left; exact Hza|right].
        assert (Hzn : ~ In z (add ++ iny)) by (intro Hi; apply in_app_or in Hi as [Hi|Hi]; contradiction).
        destruct IHr as [Hy|(p' & w' & Hp' & Hc' & Hni' & Hr')].
        - exists q, z. split; [apply Hpins; exists y; auto|]. split; [exact Hz|]. split; [exact Hzn|apply rt_refl].
        - exists p', w'. split; [exact Hp'|]. split; [exact Hc'|]. split; [exact Hni'|].
          eapply rt_trans; [exact Hr'|]. apply rt_step. split; [exists q; auto|exact Hzn]. }
      destruct Hq as [Hq|Hq]; [left; apply in_or_app; left; exact Hq|right; exact Hq].
Qed.

(* soundness: everything returned was yielded before or is in the closure of the pending pins *)
Theorem rounds_all_sound fuel pins iny ys res :
  rounds s SAll fuel pins iny ys = WOk res ->
  forall w, In w res -> In w (rev ys) \/ closure_of s pins w.
Proof.
  intros H w Hw. apply (rounds_all_exact fuel _ _ _ _ H) in Hw as [Hw|Hw]; [left; rewrite <- in_rev; exact Hw|right; apply (avoid_closure _ _ _ Hw)].
Qed.

(* nothing in in_yield is yielded again *)
Theorem rounds_all_fresh fuel pins iny res :
  rounds s SAll fuel pins iny [] = WOk res -> forall w, In w res -> ~ In w iny.
Proof.
  intros H w Hw. apply (rounds_all_exact fuel _ _ _ _ H) in Hw as [[]|Hw]. apply (avoid_not_iny _ _ _ Hw).
Qed.

(* from an empty in_yield: exactly the closure, each wire once *)
Theorem rounds_all_closure fuel pins res :
  rounds s SAll fuel pins [] [] = WOk res ->
  NoDup res /\ forall w, In w res <-> closure_of s pins w.
Proof.
  intro H. split.
  - apply (rounds_inv s SAll [] fuel _ _ _ _ H). repeat split; [constructor|intros z []|intros z []|intros z []].
  - intro w. rewrite (rounds_all_exact fuel _ _ _ _ H w), avoid_nil. cbn. tauto.
Qed.

End All.

Print Assumptions rounds_all_exact.
Print Assumptions rounds_all_sound.
Print Assumptions rounds_all_closure.

(* ---- termination: one round per wire of a finite universe of candidates ---- *)
Lemma filter_length_lt {A} (f g : A -> bool) (l : list A) :
  (forall u, f u = true -> g u = true) -> (exists a, In a l /\ g a = true /\ f a = false) ->
  length (filter f l) < length (filter g l).
Proof.
  intros Hfg. assert (Hle : forall m, length (filter f m) <= length (filter g m)).
  { induction m as [|u m IH]; cbn; [lia|]. destruct (f u) eqn:Ef; [rewrite (Hfg u Ef); cbn; lia|destruct (g u); cbn; lia]. }
  induction l as [|u l IH]; intros (a & Ha & Hg & Hf); [destruct Ha|]. destruct Ha as [->|Ha]; cbn.
  - rewrite Hg, Hf. cbn. specialize (Hle l). lia.
  - assert (IH' := IH (ex_intro _ a (conj Ha (conj Hg Hf)))). destruct (f u) eqn:Ef; [rewrite (Hfg u Ef); cbn; lia|destruct (g u); cbn; lia].
Qed.

Section Term.
Variable s : state.
Variable U : list id.
Hypothesis HU : forall p w, In w (pin_cands s SAll p) -> In w U.

(* the wires of the universe not yet in in_yield *)
Definition wires_left (iny : list id) : nat := length (filter (fun u => negb (memb u iny)) U).

Lemma wires_left_le iny : wires_left iny <= length U.
Proof. unfold wires_left. clear HU. induction U as [|u l IH]; cbn; [lia|]. destruct (negb (memb u iny)); cbn; lia. Qed.

Theorem rounds_all_fuel fuel : forall pins iny ys,
  wires_left iny < fuel -> rounds s SAll fuel pins iny ys <> WFuel.
Proof.
  induction fuel as [|f IH]; intros pins iny ys Hlt; [lia|]. destruct pins as [|p0 pins]; cbn [rounds]; [discriminate|].
  destruct (existsb (bad_search s SAll) (p0 :: pins)); [discriminate|].
  destruct (fold_left (fun st p => look s SAll (pin_cands s SAll p) st) (p0 :: pins) (iny, ys, [])) as [[iny' ys'] news] eqn:E.
  apply fold_look_all in E as (add & -> & -> & Ha & Hn). destruct add as [|a add].
  - assert (En : news = []).
    { destruct news as [|q news]; [reflexivity|]. exfalso. destruct (proj1 (Hn q) (or_introl eq_refl)) as [[]|(w & [] & _)]. }
    rewrite En. cbn [dedup_pins_acc]. destruct f; cbn; discriminate.
  - apply IH. assert (Hlt' : wires_left ((a :: add) ++ iny) < wires_left iny); [|lia]. unfold wires_left. apply filter_length_lt.
    + intros u Hu. apply negb_true_iff, memb_false in Hu. apply negb_true_iff, memb_false. intro Hi. apply Hu, in_or_app. right. exact Hi.
    + destruct (proj1 (Ha a) (or_introl eq_refl)) as [(q & _ & Hc) Hni]. exists a. split; [apply (HU q a Hc)|]. split.
      * apply negb_true_iff, memb_false. exact Hni.
      * apply negb_false_iff, memb_In. left. reflexivity.
Qed.

Theorem rounds_all_terminates pins iny ys : rounds s SAll (S (length U)) pins iny ys <> WFuel.
Proof. apply rounds_all_fuel. pose proof (wires_left_le iny). lia. Qed.
End Term.

(* under the heap hypotheses the allocated identifiers are such a universe *)
Lemma pin_wire_alloc s (W : QWF s) p w : pin_wire s p = Some w -> w < next s.
Proof.
  intro H. apply (wpins_pin_wire s W) in H. apply (q_alloc s W w KWire). apply (ft_p s (q_ft s W)). intro E. rewrite E in H. destruct H.
Qed.

Lemma pin_cands_alloc s (W : QWF s) p w : In w (pin_cands s SAll p) -> In w (seq 0 (next s)).
Proof.
  intro H. apply in_seq. split; [lia|]. cbn. cbn [pin_cands] in H. apply in_app_or in H as [H|H].
  - destruct (pin_wire s p) as [v|] eqn:E; [|destruct H]. destruct H as [<-|[]]. apply (pin_wire_alloc s W p v E).
  - destruct p as [i|n i|]; [| |destruct H].
    + unfold outer_wires in H. apply in_flat_map in H as (n & _ & H). destruct (pin_wire s (POut n i)) as [v|] eqn:E; [|destruct H].
      destruct H as [<-|[]]. apply (pin_wire_alloc s W _ v E).
    + destruct (ipwire s i) as [v|] eqn:E; [|destruct H]. destruct H as [<-|[]]. apply (pin_wire_alloc s W (PIn i) v E).
Qed.

Theorem rounds_all_terminates_qwf s (W : QWF s) pins iny ys : rounds s SAll (S (next s)) pins iny ys <> WFuel.
Proof.
  pose proof (rounds_all_terminates s (seq 0 (next s)) (pin_cands_alloc s W) pins iny ys) as H. rewrite seq_length in H. exact H.
Qed.

Print Assumptions rounds_all_terminates.
Print Assumptions rounds_all_terminates_qwf.

(* ---- completeness relative to the closure, when in_yield is closed up to the pending pins ---- *)
Section Complete.
Variable s : state.

(* every pin of a wire of in_yield is pending, or all the wires looked at for it are in in_yield *)
Definition closed_or_pending (pins : list pin) (iny : list id) : Prop :=
  forall w, In w iny -> forall p, In p (wpins s w) ->
    In p pins \/ forall w', In w' (pin_cands s SAll p) -> In w' iny.

Lemma avoid_closure_inv pins iny w : closed_or_pending pins iny ->
  (reach_avoid s iny pins w <-> closure_of s pins w /\ ~ In w iny).
Proof.
  intro HI. split; [intro H; split; [apply (avoid_closure s _ _ _ H)|apply (avoid_not_iny s _ _ _ H)]|].
  intros [(p & w0 & Hp & Hc & Hr) Hni].
  assert (Hq : In w iny \/ reach_avoid s iny pins w); [|destruct Hq as [Hq|Hq]; [contradiction|exact Hq]]. clear Hni.
  apply clos_rt_rtn1 in Hr. induction Hr as [|y z (q & Hq & Hz) _ IHr].
  - destruct (in_dec Nat.eq_dec w0 iny) as [Hi|Hi]; [left; exact Hi|right]. exists p, w0. split; [exact Hp|]. split; [exact Hc|]. split; [exact Hi|apply rt_refl].
  - destruct (in_dec Nat.eq_dec z iny) as [Hi|Hi]; [left; exact Hi|right]. destruct IHr as [Hy|(p' & w' & Hp' & Hc' & Hni' & Hr')].
    + destruct (HI y Hy q Hq) as [Hpq|Hall]; [|exfalso; apply Hi, Hall, Hz].
      exists q, z. split; [exact Hpq|]. split; [exact Hz|]. split; [exact Hi|apply rt_refl].
    + exists p', w'. split; [exact Hp'|]. split; [exact Hc'|]. split; [exact Hni'|].
      eapply rt_trans; [exact Hr'|]. apply rt_step. split; [exists q; auto|exact Hi].
Qed.

Theorem rounds_all_complete fuel pins iny ys res : closed_or_pending pins iny ->
  rounds s SAll fuel pins iny ys = WOk res ->
  forall w, In w res <-> In w ys \/ (closure_of s pins w /\ ~ In w iny).
Proof. intros HI H w. rewrite (rounds_all_exact s fuel _ _ _ _ H w), (avoid_closure_inv pins iny w HI). tauto. Qed.

Lemma closed_or_pending_nil pins : closed_or_pending pins [].
Proof. intros w []. Qed.
End Complete.

(* ---- the whole query, selection ALL, on top of what the first loop yields (l) ---- *)
Lemma reach_avoid_ext s iny iny' pins pins' w :
  (forall z, In z iny <-> In z iny') -> (forall p, In p pins <-> In p pins') ->
  reach_avoid s iny pins w -> reach_avoid s iny' pins' w.
Proof.
  intros Hi Hp (p & w0 & H1 & H2 & H3 & H4). exists p, w0. split; [apply Hp, H1|]. split; [exact H2|]. split; [rewrite <- Hi; exact H3|].
  apply (rt_mono (adj_avoid s iny)); [|exact H4]. intros a b [Ha Hb]. split; [exact Ha|rewrite <- Hi; exact Hb].
Qed.

Theorem query_wires_all_exact s cb fuel roots rec l res :
  wl_run (acts_wires s rec SAll) (bad_wires s SAll) fuel roots = WOk l ->
  query_wires s cb fuel roots rec SAll = WOk res ->
  NoDup res /\
  forall w, In w res <-> cb w = true /\ (In w (yielded l) \/ reach_avoid s (yielded l) (searched l) w).
Proof.
  intros El H. split; [apply (query_wires_NoDup s cb fuel roots rec SAll res H)|]. unfold query_wires in H. rewrite El in H.
  destruct (rounds s SAll fuel (dedup_pins_acc [] (searched l)) (dedup (yielded l)) []) as [y2| |] eqn:Er; try discriminate H.
  cbn [wmap] in H. injection H as <-. intro w. rewrite filter_In, in_app_iff, dedup_In, (rounds_all_exact s fuel _ _ _ _ Er w).
  assert (Hd : forall z, In z (dedup (yielded l)) <-> In z (yielded l)) by (intro z; apply dedup_In).
  assert (Hp : forall p, In p (dedup_pins_acc [] (searched l)) <-> In p (searched l)) by (intro p; rewrite dedup_pins_In; cbn; tauto).
  split.
  - intros [[Hy|[[]|Hr]] Hc]; (split; [exact Hc|]); [left; exact Hy|right]. apply (reach_avoid_ext s _ _ _ _ w Hd Hp Hr).
  - intros [Hc [Hy|Hr]]; (split; [|exact Hc]); [left; exact Hy|right; right].
    apply (reach_avoid_ext s (yielded l) _ (searched l) _ w); [intro z; symmetry; apply Hd|intro p; symmetry; apply Hp|exact Hr].
Qed.

(* soundness of the whole query: first-loop wires, or the closure of the pins the first loop collected *)
Corollary query_wires_all_sound s cb fuel roots rec l res :
  wl_run (acts_wires s rec SAll) (bad_wires s SAll) fuel roots = WOk l ->
  query_wires s cb fuel roots rec SAll = WOk res ->
  forall w, In w res -> cb w = true /\ (In w (yielded l) \/ closure_of s (searched l) w).
Proof.
  intros El H w Hw. apply (query_wires_all_exact s cb fuel roots rec l res El H) in Hw as [Hc [Hy|Hr]]; (split; [exact Hc|]); [left; exact Hy|right; apply (avoid_closure s _ _ _ Hr)].
Qed.

(* the whole query does not run out of fuel in the second loop when the first loop does not *)
Theorem query_wires_all_terminates s (W : QWF s) cb fuel roots rec l :
  next s < fuel ->
  wl_run (acts_wires s rec SAll) (bad_wires s SAll) fuel roots = WOk l ->
  query_wires s cb fuel roots rec SAll <> WFuel.
Proof.
  intros Hf El. unfold query_wires. rewrite El.
  pose proof (rounds_all_fuel s (seq 0 (next s)) (pin_cands_alloc s W) fuel (dedup_pins_acc [] (searched l)) (dedup (yielded l)) []) as H.
  destruct (rounds s SAll fuel (dedup_pins_acc [] (searched l)) (dedup (yielded l)) []); cbn [wmap]; try discriminate.
  exfalso. apply H; [|reflexivity]. pose proof (wires_left_le (seq 0 (next s)) (dedup (yielded l))) as Hle. rewrite seq_length in Hle. lia.
Qed.

Print Assumptions rounds_all_complete.
Print Assumptions query_wires_all_exact.
Print Assumptions query_wires_all_sound.
Print Assumptions query_wires_all_terminates.

(* ---- the first loop, selection ALL, from one root: declaratively ---- *)

(* what a definition root stands for: the wires inside everything it instantiates (whatever the
   recursive flag), and the inner pins of the ports of all these definitions *)
Definition all_def (s : state) (d : id) (o : wout) : Prop :=
  exists d', clos_refl_trans id (uses s) d d' /\
    ((exists w, o = WY w /\ wire_in_def s w d') \/
     (exists p i, par s RPorts p = Some d' /\ par s RPins i = Some p /\ o = WP (PIn i))).

Definition all_elem (s : state) (r : id) (o : wout) : Prop :=
  match kind_of s r with
  | Some KDefinition | Some KLibrary | Some KNetlist => exists d, scope_defs s r d /\ all_def s d o
  | Some KInstance => exists d, iref s r = Some d /\ all_def s d o
  | Some KPort => exists i, par s RPins i = Some r /\ o = WP (PIn i)
  | Some KPin => o = WP (PIn r)
  | Some KWire => exists q, o = WP q /\ pin_wire s q = Some r
  | Some KCable => exists w0 q, par s RWires w0 = Some r /\ o = WP q /\ pin_wire s q = Some w0
  | None => False
  end.

Definition all_item (s : state) (root : item) (o : wout) : Prop :=
  match root with
  | IE r => all_elem s r o
  | IO n i => o = WP (POut n i)
  | IDet => o = WP PDet
  | IH h => exists r, href_to s h r /\ all_elem s r o
  end.

(* the closure of the second loop over sets given as predicates *)
Definition reach_avoid_of (s : state) (Y : id -> Prop) (P : pin -> Prop) (w : id) : Prop :=
  exists p w0, P p /\ In w0 (pin_cands s SAll p) /\ ~ Y w0 /\
               clos_refl_trans id (fun a b => wire_adj s a b /\ ~ Y b) w0 w.

Definition reach_wires_all (s : state) (root : item) (w : id) : Prop :=
  all_item s root (WY w) \/
  reach_avoid_of s (fun z => all_item s root (WY z)) (fun p => all_item s root (WP p)) w.

Section AllSpec.
Variable s : state.
Hypothesis W : QWF s.
Variable rec : bool.
Notation AA := (acts_wires s rec SAll).
Notation EmA := (Emits (acts_wires s rec SAll)).
Notation usesS := (clos_refl_trans id (uses s)).

Definition port_pins (d : id) : list id := flat_map (fun p => kids s RPins p) (kids s RPorts d).

Lemma wa_def_view d : kind_of s d = Some KDefinition ->
  emits AA (IE d) = map WY (wires_of_def s d) ++ map (fun i => WP (PIn i)) (port_pins d) /\
  succs AA (IE d) = map IE (kids s RChildren d).
Proof.
  intro Hk. unfold emits, succs, wires_of_def, port_pins. cbn [acts_wires sel_ia sel_out sel_all]. rewrite Hk, orb_true_r, !flat_map_app.
  rewrite (emit_map_out WY), (succ_map_out WY), (emit_map_out (fun i => WP (PIn i))), (succ_map_out (fun i => WP (PIn i))).
  rewrite emit_push_ids, succ_push_ids, !app_nil_r. cbn [app]. split; reflexivity.
Qed.

Lemma wa_inst_view n : kind_of s n = Some KInstance ->
  emits AA (IE n) = [] /\ succs AA (IE n) = match iref s n with Some r => [IE r] | None => [] end.
Proof. intro Hk. unfold emits, succs. cbn [acts_wires]. rewrite Hk, emit_push_opt, succ_push_opt. split; reflexivity. Qed.

Lemma wa_reach d y : kind_of s d = Some KDefinition -> Reach AA (IE d) y ->
  (exists d', y = IE d' /\ kind_of s d' = Some KDefinition /\ usesS d d') \/
  (exists ch, y = IE ch /\ kind_of s ch = Some KInstance /\
              match iref s ch with Some r => usesS d r | None => True end).
Proof.
  intros Hk Hr.
  apply (reach_invariant AA (fun y =>
    (exists d', y = IE d' /\ kind_of s d' = Some KDefinition /\ usesS d d') \/
    (exists ch, y = IE ch /\ kind_of s ch = Some KInstance /\
                match iref s ch with Some r => usesS d r | None => True end)) (IE d)) in Hr; [exact Hr| |].
  - left. exists d. split; [reflexivity|split; [exact Hk|apply rt_refl]].
  - intros a b [(d' & -> & Hd' & Hs)|(ch & -> & Hc & Hm)] Hb.
    + rewrite (proj2 (wa_def_view d' Hd')) in Hb. apply in_map_iff in Hb as (ch & <- & Hch). right. exists ch. split; [reflexivity|].
      split; [apply (kid_kind s W _ _ _ Hch)|]. destruct (iref s ch) as [r|] eqn:Er'; [|exact I].
      eapply rt_trans; [exact Hs|apply rt_step]. exists ch. split; [apply (kids_par s W); exact Hch|exact Er'].
    + rewrite (proj2 (wa_inst_view ch Hc)) in Hb. destruct (iref s ch) as [r|] eqn:Er'; [|destruct Hb]. destruct Hb as [<-|[]].
      left. exists r. split; [reflexivity|split; [apply (iref_def_kind s W _ _ Er')|exact Hm]].
Qed.

Lemma wa_reach_def d d' : kind_of s d = Some KDefinition -> usesS d d' -> Reach AA (IE d) (IE d').
Proof.
  intros Hk Hs. apply clos_rt_rt1n in Hs. induction Hs as [d|d r d' (ch & Hp & Hr') _ IH]; [apply reach_refl|].
  apply (kids_par s W) in Hp.
  eapply reach_step; [apply step_succs; rewrite (proj2 (wa_def_view d Hk)); apply in_map; exact Hp|].
  eapply reach_step; [apply step_succs; rewrite (proj2 (wa_inst_view ch (kid_kind s W _ _ _ Hp))), Hr'; left; reflexivity|].
  apply IH. apply (iref_def_kind s W _ _ Hr').
Qed.

Lemma in_port_pins d i : In i (port_pins d) <-> exists p, par s RPorts p = Some d /\ par s RPins i = Some p.
Proof.
  unfold port_pins. rewrite in_flat_map. split; intros (p & H1 & H2); exists p; (split; apply (kids_par s W); assumption).
Qed.

Lemma wa_def d o : kind_of s d = Some KDefinition -> (EmA (IE d) o <-> all_def s d o).
Proof.
  intro Hk. unfold all_def. split.
  - intro H. apply emits_inv in H as (y & Hr & Ho). apply (wa_reach d y Hk) in Hr as [(d' & -> & Hd' & Hs)|(ch & -> & Hc & _)].
    + rewrite (proj1 (wa_def_view d' Hd')) in Ho. exists d'. split; [exact Hs|]. apply in_app_or in Ho as [Ho|Ho].
      * apply in_map_iff in Ho as (w & <- & Hw). left. exists w. split; [reflexivity|apply (in_wires_of_def s W); exact Hw].
      * apply in_map_iff in Ho as (i & <- & Hi). right. apply in_port_pins in Hi as (p & Hp & Hi). exists p, i. auto.
    + rewrite (proj1 (wa_inst_view ch Hc)) in Ho. destruct Ho.
  - intros (d' & Hs & Ho).
    assert (Hd' : kind_of s d' = Some KDefinition).
    { apply clos_rt_rtn1 in Hs. destruct Hs as [|a b (ch & _ & Hr') _]; [exact Hk|apply (iref_def_kind s W _ _ Hr')]. }
    eapply emits_at; [apply (wa_reach_def d d' Hk Hs)|]. rewrite (proj1 (wa_def_view d' Hd')). apply in_or_app.
    destruct Ho as [(w & -> & Hw)|(p & i & Hp & Hi & ->)].
    + left. apply in_map, (in_wires_of_def s W). exact Hw.
    + right. apply (in_map (fun i => WP (PIn i))), in_port_pins. exists p. auto.
Qed.

Lemma wa_wire r o : kind_of s r = Some KWire -> (EmA (IE r) o <-> exists q, o = WP q /\ pin_wire s q = Some r).
Proof.
  intro Hk.
  assert (Hs : succs AA (IE r) = []).
  { unfold succs. cbn [acts_wires]. rewrite Hk. induction (wpins s r) as [|a l IH]; cbn; [reflexivity|exact IH]. }
  rewrite (emits_leaf AA _ _ Hs). unfold emits. cbn [acts_wires]. rewrite Hk. split.
  - intro H. apply in_flat_map in H as (a & Ha & H). apply in_map_iff in Ha as (q & <- & Hq). destruct H as [<-|[]].
    exists q. split; [reflexivity|apply (wpins_pin_wire s W); exact Hq].
  - intros (q & -> & Hq). apply in_flat_map. exists (AOut (WP q)). split; [apply in_map_iff; exists q; split; [reflexivity|apply (wpins_pin_wire s W); exact Hq]|left; reflexivity].
Qed.

Lemma wa_through x0 (ys : list item) o :
  emits AA (IE x0) = [] -> succs AA (IE x0) = ys -> (EmA (IE x0) o <-> exists y, In y ys /\ EmA y o).
Proof. intros E1 E2. rewrite (emits_through AA _ _ E1), E2. tauto. Qed.

Lemma wa_elem r o : EmA (IE r) o <-> all_elem s r o.
Proof.
  unfold all_elem, scope_defs. destruct (kind_of s r) as [[]|] eqn:Hk.
  - (* netlist *)
    rewrite (wa_through r (map IE (kids s RLibs r)) o);
      [|unfold emits; cbn [acts_wires]; rewrite Hk; apply emit_push_ids|unfold succs; cbn [acts_wires]; rewrite Hk; apply succ_push_ids].
    split.
    + intros (y & Hy & H). apply in_map_iff in Hy as (l & <- & Hl). pose proof (kid_kind s W _ _ _ Hl) as Hkl.
      rewrite (wa_through l (map IE (kids s RDefs l)) o) in H;
        [|unfold emits; cbn [acts_wires]; rewrite Hkl; apply emit_push_ids|unfold succs; cbn [acts_wires]; rewrite Hkl; apply succ_push_ids].
      destruct H as (y & Hy & H). apply in_map_iff in Hy as (d & <- & Hd). apply (wa_def d o (kid_kind s W _ _ _ Hd)) in H.
      exists d. split; [exists l; split; apply (kids_par s W); assumption|exact H].
    + intros (d & (l & Hd & Hl) & H). apply (kids_par s W) in Hl, Hd. pose proof (kid_kind s W _ _ _ Hl) as Hkl.
      exists (IE l). split; [apply in_map; exact Hl|].
      rewrite (wa_through l (map IE (kids s RDefs l)) o);
        [|unfold emits; cbn [acts_wires]; rewrite Hkl; apply emit_push_ids|unfold succs; cbn [acts_wires]; rewrite Hkl; apply succ_push_ids].
      exists (IE d). split; [apply in_map; exact Hd|apply (wa_def d o (kid_kind s W _ _ _ Hd)); exact H].
  - (* library *)
    rewrite (wa_through r (map IE (kids s RDefs r)) o);
      [|unfold emits; cbn [acts_wires]; rewrite Hk; apply emit_push_ids|unfold succs; cbn [acts_wires]; rewrite Hk; apply succ_push_ids].
    split.
    + intros (y & Hy & H). apply in_map_iff in Hy as (d & <- & Hd). apply (wa_def d o (kid_kind s W _ _ _ Hd)) in H.
      exists d. split; [apply (kids_par s W); exact Hd|exact H].
    + intros (d & Hd & H). apply (kids_par s W) in Hd. exists (IE d). split; [apply in_map; exact Hd|apply (wa_def d o (kid_kind s W _ _ _ Hd)); exact H].
  - (* definition *)
    rewrite (wa_def r o Hk). split; [intro H; exists r; auto|intros (d & -> & H); exact H].
  - (* port *)
    rewrite (w_port s W rec SAll r o Hk). split; intros (i & Hi & ->); exists i; auto.
  - (* cable *)
    rewrite (wa_through r (map IE (kids s RWires r)) o);
      [|unfold emits; cbn [acts_wires]; rewrite Hk; apply emit_push_ids|unfold succs; cbn [acts_wires]; rewrite Hk; apply succ_push_ids].
    split.
    + intros (y & Hy & H). apply in_map_iff in Hy as (w0 & <- & Hw0). apply (wa_wire w0 o (kid_kind s W _ _ _ Hw0)) in H as (q & -> & Hq).
      exists w0, q. split; [apply (kids_par s W); exact Hw0|auto].
    + intros (w0 & q & Hw0 & -> & Hq). apply (kids_par s W) in Hw0. exists (IE w0). split; [apply in_map; exact Hw0|].
      apply (wa_wire w0 _ (kid_kind s W _ _ _ Hw0)). exists q. auto.
  - (* wire *) apply (wa_wire r o Hk).
  - (* pin *) apply (w_pin s rec SAll r o Hk).
  - (* instance *)
    rewrite (wa_through r (match iref s r with Some d => [IE d] | None => [] end) o);
      [|unfold emits; cbn [acts_wires]; rewrite Hk; apply emit_push_opt|unfold succs; cbn [acts_wires]; rewrite Hk; apply succ_push_opt].
    destruct (iref s r) as [d|] eqn:Er.
    + split.
      * intros (y & [<-|[]] & H). exists d. split; [reflexivity|apply (wa_def d o (iref_def_kind s W _ _ Er)); exact H].
      * intros (d0 & E & H). injection E as <-. exists (IE d). split; [left; reflexivity|apply (wa_def d o (iref_def_kind s W _ _ Er)); exact H].
    + split; [intros (y & [] & _)|intros (d0 & E & _); discriminate E].
  - split; [intro H; apply (w_none s rec SAll r o Hk H)|intros []].
Qed.

Lemma wa_item it o : EmA it o <-> all_item s it o.
Proof.
  rewrite (w_root s W rec SAll it o). destruct it as [r|n i| |h]; cbn [all_item]; [apply wa_elem|tauto|tauto|].
  split; intros (r & Hr & H); exists r; (split; [exact Hr|apply wa_elem; exact H]).
Qed.

Lemma reach_avoid_of_iff (Y : id -> Prop) (P : pin -> Prop) iny pins w :
  (forall z, In z iny <-> Y z) -> (forall p, In p pins <-> P p) ->
  (reach_avoid s iny pins w <-> reach_avoid_of s Y P w).
Proof.
  intros HY HP. split; intros (p & w0 & H1 & H2 & H3 & H4); exists p, w0.
  - split; [apply HP, H1|]. split; [exact H2|]. split; [rewrite <- HY; exact H3|].
    apply (rt_mono (adj_avoid s iny)); [|exact H4]. intros a b [Ha Hb]. split; [exact Ha|rewrite <- HY; exact Hb].
  - split; [apply HP, H1|]. split; [exact H2|]. split; [rewrite HY; exact H3|].
    apply (rt_mono (fun a b => wire_adj s a b /\ ~ Y b)); [|exact H4]. intros a b [Ha Hb]. split; [exact Ha|rewrite HY; exact Hb].
Qed.

(* get_wires, selection ALL, one root: the wires of the first loop, and what the closure reaches from
   the collected pins along wires the first loop did not yield; the recursive flag plays no role *)
Theorem query_wires_all_spec cb fuel it res :
  query_wires s cb fuel [it] rec SAll = WOk res ->
  NoDup res /\ forall w, In w res <-> reach_wires_all s it w /\ cb w = true.
Proof.
  intro H. assert (H' := H). unfold query_wires in H'.
  destruct (wl_run AA (bad_wires s SAll) fuel [it]) as [l| |] eqn:E; try discriminate H'. clear H'.
  pose proof (run_one AA _ fuel it l (plain_wires s rec SAll) E) as Hem.
  destruct (query_wires_all_exact s cb fuel [it] rec l res E H) as [Hnd Hex]. split; [exact Hnd|]. intro w. rewrite (Hex w).
  assert (HY : forall z, In z (yielded l) <-> all_item s it (WY z)).
  { intro z. rewrite <- wa_item, <- Hem. unfold yielded. rewrite in_flat_map. split.
    - intros (o & Ho & Hz). destruct o as [w'|q]; cbn in Hz; [|destruct Hz]. destruct Hz as [<-|[]]. exact Ho.
    - intro Ho. exists (WY z). split; [exact Ho|left; reflexivity]. }
  assert (HP : forall q, In q (searched l) <-> all_item s it (WP q)).
  { intro q. rewrite <- wa_item, <- Hem. unfold searched. rewrite in_flat_map. split.
    - intros (o & Ho & Hz). destruct o as [w'|q']; cbn in Hz; [destruct Hz|]. destruct Hz as [<-|[]]. exact Ho.
    - intro Ho. exists (WP q). split; [exact Ho|left; reflexivity]. }
  unfold reach_wires_all. rewrite (HY w), (reach_avoid_of_iff _ _ (yielded l) (searched l) w HY HP). tauto.
Qed.
End AllSpec.

(* the recursive flag and the fuel do not change the set of wires returned *)
Corollary query_wires_all_rec s (W : QWF s) cb f1 f2 rec1 rec2 it r1 r2 :
  query_wires s cb f1 [it] rec1 SAll = WOk r1 -> query_wires s cb f2 [it] rec2 SAll = WOk r2 ->
  forall w, In w r1 <-> In w r2.
Proof.
  intros H1 H2 w. rewrite (proj2 (query_wires_all_spec s W rec1 cb f1 it r1 H1) w), (proj2 (query_wires_all_spec s W rec2 cb f2 it r2 H2) w). tauto.
Qed.

(* one step of the closure, in the words of the specification of the other selections: from a wire to
   the wire on the inner or the outer side of one of its pins *)
Lemma pin_cands_all_iff s (W : QWF s) q w : In w (pin_cands s SAll q) <-> pin_wires s SAll q w.
Proof. exact (pin_cands_iff s W SBoth q w eq_refl). Qed.

Lemma wire_adj_spec s (W : QWF s) w w' :
  wire_adj s w w' <-> exists q, pin_wire s q = Some w /\ pin_wires s SAll q w'.
Proof.
  rewrite (wire_adj_iff s W). split; intros (q & Hq & H); exists q; (split; [exact Hq|apply (pin_cands_all_iff s W); exact H]).
Qed.

Print Assumptions query_wires_all_spec.
Print Assumptions query_wires_all_rec.
Print Assumptions wire_adj_spec.

(* ---- a concrete netlist: ALL crosses two hierarchy boundaries, BOTH one ---- *)
(* netlist 0; library 1: leaf cell 2 (port 3, pin 4; cable 17, wire 18 on pin 4), cell 5 "mid" (port 6,
   pin 7; cable 8, wire 9; children 10 and 11 of leaf; wire 9 joins pin 7 and pin 4 of child 10);
   library 12: cell 13 "top" (children 14 of mid and 15 of leaf; cable 19, wire 20 on pin 7 of child 14,
   wire 21 on pin 4 of child 15); top instance 16 *)
Definition exa_ops : list op :=
  [ ONew KNetlist None [];
    OCreate RLibs 0 None [] 0 None;
    OCreate RDefs 1 None [] 0 None;
    OCreate RPorts 2 None [] 1 None;
    OCreate RDefs 1 None [] 0 None;
    OCreate RPorts 5 None [] 1 None;
    OCreate RCables 5 None [] 1 None;
    OCreate RChildren 5 None [] 0 (Some 2);
    OCreate RChildren 5 None [] 0 (Some 2);
    OConnect 9 (PIn 7) None;
    OConnect 9 (POut 10 4) None;
    OCreate RLibs 0 None [] 0 None;
    OCreate RDefs 12 None [] 0 None;
    OCreate RChildren 13 None [] 0 (Some 5);
    OCreate RChildren 13 None [] 0 (Some 2);
    OSetTop 0 (TopDef 13);
    OCreate RCables 2 None [] 1 None;
    OConnect 18 (PIn 4) None;
    OCreate RCables 13 None [] 2 None;
    OConnect 20 (POut 14 7) None;
    OConnect 21 (POut 15 4) None ].
Definition exa : state := Ops.run exa_ops State.init.

Lemma exa_qwf : QWF exa.
Proof. apply reachable_qwf. Qed.

Example exa_wire_pins : map (wpins exa) [9; 18; 20; 21] = [[PIn 7; POut 10 4]; [PIn 4]; [POut 14 7]; [POut 15 4]].
Proof. vm_compute. reflexivity. Qed.

(* from wire 9: BOTH stops at the wires next to it, ALL goes on through the leaf cell to wire 21 *)
Example exa_wires_both : query_wires exa (fun _ => true) 100 [IE 9] false SBoth = WOk [9; 20; 18].
Proof. vm_compute. reflexivity. Qed.
Example exa_wires_all : query_wires exa (fun _ => true) 100 [IE 9] false SAll = WOk [9; 20; 18; 21].
Proof. vm_compute. reflexivity. Qed.
Example exa_wires_all_roots :
  map (fun r => query_wires exa (fun _ => true) 100 [r] false SAll) [IE 21; IE 5; IE 2; IO 15 4; IE 7; IE 13; IE 0] =
  [WOk [21; 18; 9; 20]; WOk [9; 18; 20; 21]; WOk [18; 9; 21; 20]; WOk [21; 18; 9; 20];
   WOk [9; 20; 18; 21]; WOk [20; 21; 18; 9]; WOk [20; 21; 18; 9]].
Proof. vm_compute. reflexivity. Qed.

(* the second loop alone, from the inner pin of mid, within the fuel of rounds_all_terminates_qwf *)
Example exa_rounds : rounds exa SAll (S (next exa)) [PIn 7] [] [] = WOk [9; 20; 18; 21].
Proof. vm_compute. reflexivity. Qed.

(* hence the closure of that pin is exactly these four wires *)
Example exa_closure w : closure_of exa [PIn 7] w <-> In w [9; 20; 18; 21].
Proof. symmetry. apply (proj2 (rounds_all_closure exa _ _ _ exa_rounds) w). Qed.

Print Assumptions exa_closure.

(* the specification of the whole query names the same four wires from wire 9 *)
Example exa_spec w : reach_wires_all exa (IE 9) w <-> In w [9; 20; 18; 21].
Proof.
  destruct (query_wires_all_spec exa exa_qwf false (fun _ => true) 100 (IE 9) _ exa_wires_all) as [_ H].
  rewrite (H w). tauto.
Qed.

Print Assumptions exa_spec.
