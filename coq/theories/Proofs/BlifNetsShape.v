(* EBLIF engine, connectivity clause of C18: the shape of the statement list of a supported document.
     - from the grammar: every statement other than a comment stands inside exactly one
       .model ... .end section ([closed]);
     - from the conjunct hdr_sorted of supported: in a section the .inputs lines come first, then the
       .outputs lines, then the .clock lines ([hdr_ss], [hdr_body]);
     - the library a section ends up in ([run_lib]); every instance statement lies in a section. *)
From Coq Require Import List Arith NArith Bool Lia Permutation.
From SV Require Import Base.Base Fmt.Blif Fmt.BlifRead Fmt.BlifSpec
  Proofs.BlifBase Proofs.BlifNetsBase Proofs.BlifNetsRel Proofs.BlifNetsSpec.
Import ListNotations.

(* ====================================================================== sections *)
Fixpoint closed (inside : bool) (ss : list stmt) : Prop :=
  match ss with
  | [] => inside = false
  | SModel _ :: r => inside = false /\ closed true r
  | SEnd :: r => inside = true /\ closed false r
  | SComment _ :: r => closed inside r
  | _ :: r => inside = true /\ closed true r
  end.

Definition g_inside (g : gmode) : bool := match g with GTop => false | GBody _ => true end.

Ltac break_match H :=
  repeat match type of H with
  | context [if ?b then _ else _] => destruct b
  | context [match ?r with _ => _ end] => destruct r
  end.

Lemma grammar_closed d : forall g ss, grammar_from g d = Some ss -> closed (g_inside g) ss.
Proof.
  induction d as [|l d IH]; intros g ss H; cbn [grammar_from] in H.
  - destruct g; inversion H; cbn; auto.
  - destruct (g_line g l) as [[s1 g']|] eqn:E1; [|discriminate].
    destruct (grammar_from g' d) as [rest|] eqn:E2; [|discriminate]. inversion H; subst ss. clear H.
    specialize (IH _ _ E2). unfold g_line in E1. destruct l as [|t toks]; [inversion E1; subst; exact IH|].
    destruct (str_eqb t k_hash); [inversion E1; subst; exact IH|].
    destruct g as [|rows].
    + break_match E1; try discriminate; inversion E1; subst; cbn; auto.
    + break_match E1; try discriminate; inversion E1; subst; cbn; auto.
Qed.

Lemma body_closed_nil nm ss : forall inside cur,
  closed inside ss -> ~ In nm (model_names ss) -> (inside = true -> cur <> nm) -> body_of nm cur ss = [].
Proof.
  induction ss as [|x r IH]; intros inside cur Hc Hn Hi; [reflexivity|]. rewrite body_of_cons.
  destruct x; cbn [closed model_names] in Hc, Hn;
    try (destruct Hc as [-> Hc]; rewrite (proj2 (str_eqb_false cur nm) (Hi eq_refl)); cbn [app];
         apply (IH true cur Hc Hn Hi)).
  - apply (IH inside cur Hc Hn Hi).
  - destruct Hc as [-> Hc]. apply (IH true nm0 Hc); [intro; apply Hn; right; assumption|].
    intros _ E. apply Hn. left. exact E.
  - destruct Hc as [-> Hc]. apply (IH false cur Hc Hn). discriminate.
Qed.

(* ====================================================================== header order *)
Fixpoint hdr_ss (ph : nat) (ss : list stmt) : Prop :=
  match ss with
  | [] => True
  | SComment _ :: r => hdr_ss ph r
  | SModel _ :: r => hdr_ss 0 r
  | SInputs _ :: r => ph = 0 /\ hdr_ss 0 r
  | SOutputs _ :: r => ph <= 1 /\ hdr_ss 1 r
  | SClock _ :: r => ph <= 2 /\ hdr_ss 2 r
  | _ :: r => hdr_ss 3 r
  end.

(* the reader takes the port lines of a header in any order (BlifRead.cl_hdr); the order is the explicit
   conjunct [hdr_sorted] of BlifSpec.supported *)
Lemma hdr_sorted_ss ss : forall ph, hdr_sorted ph ss = true -> hdr_ss ph ss.
Proof.
  induction ss as [|x r IH]; intros ph H; [exact I|].
  destruct x; cbn [hdr_sorted] in H; cbn [hdr_ss]; try (apply IH; exact H);
    apply andb_true_iff in H as [H1 H2]; (split; [|apply IH; exact H2]).
  - apply Nat.eqb_eq. exact H1.
  - apply Nat.leb_le. exact H1.
  - apply Nat.leb_le. exact H1.
Qed.

Fixpoint hdr_body (ph : nat) (b : list stmt) : Prop :=
  match b with
  | [] => True
  | SInputs _ :: r => ph = 0 /\ hdr_body 0 r
  | SOutputs _ :: r => ph <= 1 /\ hdr_body 1 r
  | SClock _ :: r => ph <= 2 /\ hdr_body 2 r
  | _ :: r => hdr_body 3 r
  end.

Lemma hdr_body_weaken ph b : hdr_body 3 b -> hdr_body ph b.
Proof. destruct b as [|x r]; [auto|]. destruct x; cbn; auto; intros [H _]; lia. Qed.

Lemma body_of_absent nm ss : forall cur, ~ In nm (model_names ss) -> cur <> nm -> body_of nm cur ss = [].
Proof.
  induction ss as [|x r IH]; intros cur Hn Hc; [reflexivity|]. rewrite body_of_cons.
  destruct x; cbn [model_names] in Hn; rewrite ?(proj2 (str_eqb_false cur nm) Hc); cbn [app]; try (apply IH; assumption).
  apply IH; [intro; apply Hn; right; assumption|intro E; apply Hn; left; exact E].
Qed.

Lemma hdr_body_of nm ss : forall ph cur,
  hdr_ss ph ss -> NoDup (model_names ss) -> (cur = nm -> ~ In nm (model_names ss)) ->
  hdr_body (if str_eqb cur nm then ph else 0) (body_of nm cur ss).
Proof.
  induction ss as [|x r IH]; intros ph cur Hh Hnd Hc; [exact I|]. rewrite body_of_cons.
  destruct x; cbn [hdr_ss model_names] in Hh, Hnd, Hc.
  - (* comment *) exact (IH ph cur Hh Hnd Hc).
  - (* .model *)
    inversion Hnd as [|? ? Hn1 Hn2]; subst.
    destruct (str_eqb cur nm) eqn:E.
    + apply str_eqb_spec in E. rewrite body_of_absent; [exact I| |].
      * intro Hin. apply (Hc E). right. exact Hin.
      * intro E2. apply (Hc E). left. exact E2.
    + specialize (IH 0 nm0 Hh Hn2). destruct (str_eqb nm0 nm) eqn:E2; apply IH; intro E3; subst; exact Hn1.
  - (* .inputs *) destruct Hh as [-> Hh]. specialize (IH 0 cur Hh Hnd Hc).
    destruct (str_eqb cur nm); cbn [app hdr_body]; auto.
  - destruct Hh as [Hp Hh]. specialize (IH 1 cur Hh Hnd Hc).
    destruct (str_eqb cur nm); cbn [app hdr_body]; auto.
  - destruct Hh as [Hp Hh]. specialize (IH 2 cur Hh Hnd Hc).
    destruct (str_eqb cur nm); cbn [app hdr_body]; auto.
  - specialize (IH 3 cur Hh Hnd Hc). destruct (str_eqb cur nm); cbn [app hdr_body]; auto.
  - specialize (IH 3 cur Hh Hnd Hc). destruct (str_eqb cur nm); cbn [app hdr_body]; auto.
  - specialize (IH 3 cur Hh Hnd Hc). destruct (str_eqb cur nm); cbn [app hdr_body]; auto.
  - specialize (IH 3 cur Hh Hnd Hc). destruct (str_eqb cur nm); cbn [app hdr_body]; auto.
  - specialize (IH 3 cur Hh Hnd Hc). destruct (str_eqb cur nm); cbn [app hdr_body]; auto.
  - specialize (IH 3 cur Hh Hnd Hc). destruct (str_eqb cur nm); cbn [app hdr_body]; auto.
  - specialize (IH 3 cur Hh Hnd Hc). destruct (str_eqb cur nm); cbn [app hdr_body]; auto.
  - specialize (IH 3 cur Hh Hnd Hc). destruct (str_eqb cur nm); cbn [app hdr_body]; auto.
  - specialize (IH 3 cur Hh Hnd Hc). destruct (str_eqb cur nm); cbn [app hdr_body]; auto.
  - (* .end *) specialize (IH 3 cur Hh Hnd Hc). destruct (str_eqb cur nm); [apply hdr_body_weaken|]; exact IH.
  - specialize (IH 3 cur Hh Hnd Hc). destruct (str_eqb cur nm); cbn [app hdr_body]; auto.
Qed.

(* ====================================================================== the library of a section *)
Definition lib_of (b : bool) : lib := if b then LPrim else LWork.

Lemma run_lib nm ss : forall inside cur st,
  closed inside ss -> NoDup (model_names ss) -> (nm = cur -> ~ In nm (model_names ss)) ->
  (In nm (model_names ss) -> n_bb st = false) ->
  n_lib (run_g nm cur ss st) =
  if mem nm (model_names ss) then lib_of (has_blackbox (body_of nm cur ss))
  else if str_eqb nm cur && inside then lib_of (n_bb st || has_blackbox (body_of nm cur ss))
  else n_lib st.
Proof.
  induction ss as [|x r IH]; intros inside cur st Hc Hnd Hcur Hbb.
  - cbn in Hc. subst inside. cbn. destruct (str_eqb nm cur); reflexivity.
  - cbn [run_g]. rewrite body_of_cons.
    assert (Hmem : forall l, mem nm l = true <-> In nm l).
    { intro l. unfold mem. rewrite existsb_exists. split; [intros [y [H1 H2]]; apply str_eqb_spec in H2; subst; exact H1|].
      intro H. exists nm. split; [exact H|apply str_eqb_refl]. }
    assert (Hvis : forall (Hx : match x with SModel _ | SEnd | SComment _ => False | _ => True end),
              inside = true /\ closed true r /\ model_names (x :: r) = model_names r /\
              next_c cur x = cur /\ step_g nm cur x st = (if str_eqb nm cur then step_n x st else st)).
    { intro Hx. destruct x; try contradiction; cbn in Hc; destruct Hc as [-> Hc]; auto. }
    destruct x; try (destruct (Hvis I) as [-> [Hc' [En [Ec Es]]]]; rewrite En in *; rewrite Ec, Es; clear Hvis;
      rewrite (str_eqb_sym cur nm); destruct (str_eqb nm cur) eqn:E;
      [apply str_eqb_spec in E; subst cur; rewrite (IH true nm _ Hc' Hnd Hcur);
         [|intro Hin; exfalso; exact (Hcur eq_refl Hin)];
         destruct (mem nm (model_names r)) eqn:Em; [apply Hmem in Em; exfalso; exact (Hcur eq_refl Em)|];
         rewrite str_eqb_refl; cbn [andb app];
         match goal with |- context [step_n ?y st] => pose proof (Fbb_step y st (body_of nm nm r)) as Hf end;
         unfold Fbb in Hf; rewrite Hf; reflexivity
      |cbn [app]; rewrite (IH true cur _ Hc' Hnd Hcur Hbb); rewrite E; cbn [andb]; reflexivity]).
    + (* comment *) cbn [closed model_names next_c step_g] in *. apply (IH inside cur st Hc Hnd Hcur Hbb).
    + (* .model *)
      cbn [closed model_names next_c step_g] in *. destruct Hc as [-> Hc]. inversion Hnd as [|? ? Hn1 Hn2]; subst.
      rewrite andb_false_r. destruct (str_eqb nm nm0) eqn:E.
      * apply str_eqb_spec in E. subst nm0. unfold mem. cbn [existsb]. rewrite str_eqb_refl. cbn [orb].
        rewrite (IH true nm (set_def st) Hc Hn2); [|intros _; exact Hn1|intro Hin; contradiction].
        destruct (mem nm (model_names r)) eqn:Em; [apply Hmem in Em; contradiction|].
        rewrite str_eqb_refl. cbn [andb set_def n_bb]. rewrite Hbb by (left; reflexivity). reflexivity.
      * unfold mem. cbn [existsb]. rewrite E. cbn [orb]. fold (mem nm (model_names r)).
        pose proof E as E'. apply str_eqb_false in E'.
        rewrite (IH true nm0 st Hc Hn2); [|intro E2; congruence|intro Hin; apply Hbb; right; exact Hin].
        rewrite E. cbn [andb]. reflexivity.
    + (* .end *)
      cbn [closed model_names next_c step_g] in *. destruct Hc as [-> Hc].
      destruct (str_eqb nm cur) eqn:E.
      * apply str_eqb_spec in E. subst cur. rewrite (IH false nm _ Hc Hnd Hcur); [|intro Hin; exfalso; exact (Hcur eq_refl Hin)].
        destruct (mem nm (model_names r)) eqn:Em; [apply Hmem in Em; exfalso; exact (Hcur eq_refl Em)|].
        rewrite str_eqb_refl. cbn [andb step_n n_lib].
        rewrite (body_closed_nil nm r false nm Hc (Hcur eq_refl)) by discriminate.
        cbn. rewrite orb_false_r. reflexivity.
      * rewrite (IH false cur st Hc Hnd Hcur Hbb). rewrite E. reflexivity.
Qed.

(* ====================================================================== every statement lies in a section *)
Definition visible (x : stmt) : Prop := match x with SModel _ | SEnd | SComment _ => False | _ => True end.

Lemma in_some_body x ss : forall inside cur,
  closed inside ss -> In x ss -> visible x ->
  (inside = true /\ In x (body_of cur cur ss)) \/ exists nm, In nm (model_names ss) /\ In x (body_of nm cur ss).
Proof.
  induction ss as [|y r IH]; intros inside cur Hc Hin Hv; [destruct Hin|].
  assert (Hvis : visible y -> inside = true /\ closed true r /\ model_names (y :: r) = model_names r /\
            forall nm, body_of nm cur (y :: r) = (if str_eqb cur nm then [y] else []) ++ body_of nm cur r).
  { intro Hy. destruct y; try contradiction; cbn in Hc; destruct Hc as [-> Hc]; auto. }
  destruct y; try (destruct (Hvis I) as [-> [Hc' [En Eb]]]; rewrite En; destruct Hin as [<-|Hin];
    [left; split; [reflexivity|]; rewrite Eb, str_eqb_refl; left; reflexivity|];
    destruct (IH true cur Hc' Hin Hv) as [[_ A]|[nm [A B]]];
    [left; split; [reflexivity|]; rewrite Eb; apply in_app_iff; right; exact A
    |right; exists nm; split; [exact A|]; rewrite Eb; apply in_app_iff; right; exact B]).
  - (* comment *) destruct Hin as [<-|Hin]; [destruct Hv|]. cbn [closed] in Hc. exact (IH inside cur Hc Hin Hv).
  - (* .model *) destruct Hin as [<-|Hin]; [destruct Hv|]. cbn [closed] in Hc. destruct Hc as [-> Hc].
    right. destruct (IH true nm Hc Hin Hv) as [[_ A]|[nm' [A B]]].
    + exists nm. split; [left; reflexivity|exact A].
    + exists nm'. split; [right; exact A|exact B].
  - (* .end *) destruct Hin as [<-|Hin]; [destruct Hv|]. cbn [closed] in Hc. destruct Hc as [-> Hc].
    destruct (IH false cur Hc Hin Hv) as [[A _]|[nm' [A B]]]; [discriminate|]. right. exists nm'. auto.
Qed.
