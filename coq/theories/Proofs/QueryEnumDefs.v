(* get_definitions: the candidates enumerated by the loop of Query/Enum.v (whose pushes depend on the
   set other_definitions) are exactly the elements named by the declarative specification
   Query/EnumSpec.v, for every kind of root, both selections and both settings of recursive
   (cands_definitions_spec). *)
From Coq Require Import List Arith Bool Lia Relations.
From SV Require Import Base.Base IR.State IR.NS IR.Ops Proofs.Inv1a Proofs.Inv2a Proofs.InvW
  Hier.Paths Hier.Enum Hier.Trace Proofs.KindD Query.Filter Query.Enum Query.EnumSpec
  Proofs.QueryEnumWL Proofs.QueryEnumBase Proofs.QueryEnumView.
Import ListNotations.

Section Defs.
Variable s : state.
Hypothesis W : QWF s.
Variables rec inside : bool.
Notation A := (acts_definitions s rec inside).
Notation R := (dir_uses s inside).

(* ---- the statements of each kind of item ---- *)
Lemma d_def d a : kind_of s d = Some KDefinition ->
  (In a (A (IE d)) <-> exists r, R d r /\ a = mark_def rec r [IE r]).
Proof.
  intro Hk. cbn [acts_definitions]. rewrite Hk. unfold dir_uses. destruct inside.
  - rewrite in_flat_map. split.
    + intros (c & Hc & Ha). destruct (iref s c) as [r|] eqn:Er; [|destruct Ha]. destruct Ha as [<-|[]].
      exists r. split; [exists c; split; [apply (kids_par s W); exact Hc|exact Er]|reflexivity].
    + intros (r & (c & Hc & Er) & ->). exists c. split; [apply (kids_par s W); exact Hc|]. rewrite Er. left. reflexivity.
  - rewrite in_flat_map. split.
    + intros (i & Hi & Ha). destruct (par s RChildren i) as [p|] eqn:Ep; [|destruct Ha]. destruct Ha as [<-|[]].
      exists p. split; [exists i; split; [exact Ep|apply (drefs_iref s W); exact Hi]|reflexivity].
    + intros (p & (i & Ep & Hi) & ->). exists i. split; [apply (drefs_iref s W); exact Hi|]. rewrite Ep. left. reflexivity.
Qed.

Definition inst_target (x d0 : id) : Prop := if inside then iref s x = Some d0 else par s RChildren x = Some d0.
Definition inst_pushes (d0 : id) : list item := if inside then map IE (kids s RChildren d0) else [IE d0].

Lemma d_inst x a : kind_of s x = Some KInstance ->
  (In a (A (IE x)) <-> exists d0, inst_target x d0 /\ a = mark_def rec d0 (inst_pushes d0)).
Proof.
  intro Hk. cbn [acts_definitions]. rewrite Hk. unfold inst_target, inst_pushes. destruct inside.
  - destruct (iref s x) as [r|]; cbn.
    + split; [intros [<-|[]]; exists r; auto|intros (d0 & E & ->); injection E as <-; left; reflexivity].
    + split; [intros []|intros (d0 & E & _); discriminate].
  - destruct (par s RChildren x) as [p|]; cbn.
    + split; [intros [<-|[]]; exists p; auto|intros (d0 & E & ->); injection E as <-; left; reflexivity].
    + split; [intros []|intros (d0 & E & _); discriminate].
Qed.

Lemma d_home x a :
  kind_of s x = Some KPort \/ kind_of s x = Some KCable ->
  (In a (A (IE x)) <-> exists d, home s x d /\ a = mark_def false d []).
Proof.
  intros [Hk|Hk]; cbn [acts_definitions]; unfold home; rewrite Hk.
  - destruct (par s RPorts x) as [d|]; cbn.
    + split; [intros [<-|[]]; exists d; auto|intros (d' & E & ->); injection E as <-; left; reflexivity].
    + split; [intros []|intros (d' & E & _); discriminate].
  - destruct (par s RCables x) as [d|]; cbn.
    + split; [intros [<-|[]]; exists d; auto|intros (d' & E & ->); injection E as <-; left; reflexivity].
    + split; [intros []|intros (d' & E & _); discriminate].
Qed.

Lemma R_kind d r : R d r -> kind_of s r = Some KDefinition.
Proof.
  unfold dir_uses. destruct inside; intros (c & H1 & H2); [apply (iref_def_kind s W _ _ H2)|apply (par_parent_kind s W _ _ _ H1)].
Qed.

(* ---- what is reached ---- *)
(* from a definition: definitions only, each some steps of R away *)
Lemma reach_def d y : kind_of s d = Some KDefinition -> Reach A (IE d) y ->
  exists d', y = IE d' /\ kind_of s d' = Some KDefinition /\ star R rec d d'.
Proof.
  intros Hk Hr.
  apply (reach_invariant A (fun y => exists d', y = IE d' /\ kind_of s d' = Some KDefinition /\ star R rec d d') (IE d)) in Hr; [exact Hr| |].
  - exists d. split; [reflexivity|split; [exact Hk|apply star_refl]].
  - intros a b (d' & -> & Hd' & Hs) Hb. unfold succs in Hb. apply in_flat_map in Hb as (ac & Hac & Hb).
    apply (d_def d' ac Hd') in Hac as (r & Hr' & ->). unfold mark_def in Hb. cbn [succ_of] in Hb.
    destruct (bool_cases rec) as [Er|Er]; rewrite Er in Hb; [|destruct Hb]. destruct Hb as [<-|[]].
    exists r. split; [reflexivity|split; [apply (R_kind d' r Hr')|eapply star_snoc; eassumption]].
Qed.

(* the marks of a definition item *)
Lemma marks_def d c : kind_of s d = Some KDefinition -> Marks A (IE d) c -> plus R rec d c.
Proof.
  intros Hk (y & os & ys & Hr & Ha). apply (reach_def d y Hk) in Hr as (d' & -> & Hd' & Hs).
  apply (d_def d' _ Hd') in Ha as (r & Hr' & E). unfold mark_def in E. injection E as -> _ _.
  apply star_cases in Hs as [[Er Hs]|[Er <-]]; unfold plus; rewrite Er; [|exact Hr'].
  apply t_split_r. exists d'. auto.
Qed.

Section Final.
(* a final state of a run from [it] *)
Variable st' : wst qout.
Variable it : item.
Hypothesis HD : Done A st' it.
Hypothesis HF : forall c, In c (w_marks st') -> Fired A st' [it] c.

Lemma done_def_marks d r : kind_of s d = Some KDefinition -> Done A st' (IE d) -> R d r -> In r (w_marks st').
Proof.
  intros Hk Hd Hr. apply done_inv in Hd as (_ & _ & D3). apply (D3 r [OOth r] (if rec then [IE r] else [])).
  apply (d_def d _ Hk). exists r. auto.
Qed.

(* when every reached item that marks c appends the definition item c: the marks are closed under R *)
Lemma closed_under_R :
  rec = true ->
  (forall x c os ys, Reach A it x -> In (AMark c os ys) (A x) -> kind_of s c = Some KDefinition /\ In (IE c) ys) ->
  forall c e, In c (w_marks st') -> R c e -> In e (w_marks st').
Proof.
  intros Er Hsh c e Hc Hce. destruct (HF c Hc) as (x0 & x & os & ys & [<-|[]] & Hr & Ha & _ & Hy).
  destruct (Hsh x c os ys Hr Ha) as [Hkc Hin]. rewrite Forall_forall in Hy.
  apply (done_def_marks c e Hkc (Hy _ Hin) Hce).
Qed.
End Final.


(* every mark statement records exactly its element *)
Lemma mark_shape y c os ys : In (AMark c os ys) (A y) -> os = [OOth c].
Proof.
  destruct y as [x|n i| |h]; cbn [acts_definitions].
  - destruct (kind_of s x) as [[]|] eqn:Hk; intro H.
    + apply in_push_ids in H as (z & _ & E). discriminate E.
    + destruct inside; [destruct H as [E|H]; [discriminate E|]; destruct rec; [|destruct H]|];
        apply in_push_ids in H as (z & _ & E); discriminate E.
    + assert (H' : In (AMark c os ys) (A (IE x))) by (cbn [acts_definitions]; rewrite Hk; exact H).
      apply (d_def x _ Hk) in H' as (r & _ & E). unfold mark_def in E. injection E as -> -> _. reflexivity.
    + assert (H' : In (AMark c os ys) (A (IE x))) by (cbn [acts_definitions]; rewrite Hk; exact H).
      apply (d_home x _ (or_introl Hk)) in H' as (r & _ & E). unfold mark_def in E. injection E as -> -> _. reflexivity.
    + assert (H' : In (AMark c os ys) (A (IE x))) by (cbn [acts_definitions]; rewrite Hk; exact H).
      apply (d_home x _ (or_intror Hk)) in H' as (r & _ & E). unfold mark_def in E. injection E as -> -> _. reflexivity.
    + apply in_push_opt in H as (z & _ & E). discriminate E.
    + apply in_push_opt in H as (z & _ & E). discriminate E.
    + assert (H' : In (AMark c os ys) (A (IE x))) by (cbn [acts_definitions]; rewrite Hk; exact H).
      apply (d_inst x _ Hk) in H' as (r & _ & E). unfold mark_def in E. injection E as -> -> _. reflexivity.
    + destruct H.
  - intros [E|[]]. discriminate E.
  - intros [].
  - intro H. apply in_push_opt in H as (z & _ & E). discriminate E.
Qed.

Lemma emits_oth_marks it e : Emits A it (OOth e) -> Marks A it e.
Proof.
  intros (y & a & Hr & Ha & Ho). destruct a as [z|o|c os ys]; cbn in Ho; [destruct Ho| |].
  - destruct Ho as [->|[]]. exfalso. destruct y as [x|n i| |h]; cbn [acts_definitions] in Ha.
    + destruct (kind_of s x) as [[]|] eqn:Hk.
      * apply in_push_ids in Ha as (z & _ & E). discriminate E.
      * destruct inside; [destruct Ha as [E|Ha]; [discriminate E|]; destruct rec; [|destruct Ha]|];
          apply in_push_ids in Ha as (z & _ & E); discriminate E.
      * assert (H' : In (AOut (OOth e)) (A (IE x))) by (cbn [acts_definitions]; rewrite Hk; exact Ha).
        apply (d_def x _ Hk) in H' as (r & _ & E). discriminate E.
      * assert (H' : In (AOut (OOth e)) (A (IE x))) by (cbn [acts_definitions]; rewrite Hk; exact Ha).
        apply (d_home x _ (or_introl Hk)) in H' as (r & _ & E). discriminate E.
      * assert (H' : In (AOut (OOth e)) (A (IE x))) by (cbn [acts_definitions]; rewrite Hk; exact Ha).
        apply (d_home x _ (or_intror Hk)) in H' as (r & _ & E). discriminate E.
      * apply in_push_opt in Ha as (z & _ & E). discriminate E.
      * apply in_push_opt in Ha as (z & _ & E). discriminate E.
      * assert (H' : In (AOut (OOth e)) (A (IE x))) by (cbn [acts_definitions]; rewrite Hk; exact Ha).
        apply (d_inst x _ Hk) in H' as (r & _ & E). discriminate E.
      * destruct Ha.
    + destruct Ha as [E|[]]. discriminate E.
    + destruct Ha.
    + apply in_push_opt in Ha as (z & _ & E). discriminate E.
  - pose proof (mark_shape y c os ys Ha) as ->. destruct Ho as [E|[]]. injection E as ->. exists y, [OOth e], ys. auto.
Qed.


(* ---- INSIDE / OUTSIDE read through the generic names ---- *)
Lemma ip_in d0 : inside = true -> inst_pushes d0 = map IE (kids s RChildren d0).
Proof. intro Hi. unfold inst_pushes. rewrite Hi. reflexivity. Qed.
Lemma ip_out d0 : inside = false -> inst_pushes d0 = [IE d0].
Proof. intro Hi. unfold inst_pushes. rewrite Hi. reflexivity. Qed.
Lemma R_in_child c e : inside = true ->
  (R c e <-> exists ch, In ch (kids s RChildren c) /\ inst_target ch e).
Proof.
  intro Hi. unfold dir_uses, inst_target. rewrite Hi. unfold uses.
  split; intros (ch & H1 & H2); exists ch; (split; [apply (kids_par s W); exact H1|exact H2]).
Qed.
Lemma tgt_kind x d0 : inst_target x d0 -> kind_of s d0 = Some KDefinition.
Proof.
  unfold inst_target. destruct inside; intro H; [apply (iref_def_kind s W _ _ H)|apply (par_parent_kind s W _ _ _ H)].
Qed.

(* ---- soundness: what an element can mark ---- *)
Lemma lib_acts l a : kind_of s l = Some KLibrary ->
  In a (A (IE l)) -> a = AOut (OPar l) /\ inside = true \/
                     exists d, In d (kids s RDefs l) /\ a = APush (IE d) /\ (inside = false \/ rec = true).
Proof.
  intro Hk. cbn [acts_definitions]. rewrite Hk. destruct inside.
  - intros [<-|H]; [left; auto|]. destruct rec; [|destruct H]. apply in_push_ids in H as (d & Hd & ->). right. exists d. auto.
  - intro H. apply in_push_ids in H as (d & Hd & ->). right. exists d. auto.
Qed.

Lemma sound_lib l c : kind_of s l = Some KLibrary -> Marks A (IE l) c ->
  (inside = false \/ rec = true) /\ exists d, par s RDefs d = Some l /\ plus R rec d c.
Proof.
  intros Hk H. apply marks_unfold in H as [(os & ys & H)|(y & (a & Ha & Hy) & H)].
  - apply (lib_acts l _ Hk) in H as [[E _]|(d & _ & E & _)]; discriminate E.
  - apply (lib_acts l _ Hk) in Ha as [[-> _]|(d & Hd & -> & Hc)]; [destruct Hy|]. cbn in Hy. destruct Hy as [<-|[]].
    split; [exact Hc|]. exists d. split; [apply (kids_par s W); exact Hd|]. apply marks_def; [apply (kid_kind s W _ _ _ Hd)|exact H].
Qed.

Lemma sound_net n c : kind_of s n = Some KNetlist -> Marks A (IE n) c ->
  (inside = false \/ rec = true) /\ exists l d, par s RLibs l = Some n /\ par s RDefs d = Some l /\ plus R rec d c.
Proof.
  intros Hk H. apply marks_unfold in H as [(os & ys & H)|(y & (a & Ha & Hy) & H)];
    cbn [acts_definitions] in *; rewrite Hk in *.
  - apply in_push_ids in H as (d & _ & E). discriminate E.
  - apply in_push_ids in Ha as (l & Hl & ->). cbn in Hy. destruct Hy as [<-|[]].
    apply (sound_lib l c (kid_kind s W _ _ _ Hl)) in H as (Hc & d & Hd & H). split; [exact Hc|].
    exists l, d. split; [apply (kids_par s W); exact Hl|auto].
Qed.

Lemma sound_home x c : kind_of s x = Some KPort \/ kind_of s x = Some KCable -> Marks A (IE x) c -> home s x c.
Proof.
  intros Hk H. apply marks_unfold in H as [(os & ys & H)|(y & (a & Ha & Hy) & H)].
  - apply (d_home x _ Hk) in H as (d & Hd & E). unfold mark_def in E. injection E as -> _ _. exact Hd.
  - apply (d_home x _ Hk) in Ha as (d & _ & ->). destruct Hy.
Qed.

Lemma sound_inst_out x c : kind_of s x = Some KInstance -> inside = false -> Marks A (IE x) c ->
  exists d0, inst_target x d0 /\ star R rec d0 c.
Proof.
  intros Hk Hi H. apply marks_unfold in H as [(os & ys & H)|(y & (a & Ha & Hy) & H)].
  - apply (d_inst x _ Hk) in H as (d0 & Hd & E). unfold mark_def in E. injection E as -> _ _. exists d0. split; [exact Hd|apply star_refl].
  - apply (d_inst x _ Hk) in Ha as (d0 & Hd & ->). unfold mark_def in Hy. cbn [succ_of] in Hy.
    destruct (bool_cases rec) as [Er|Er]; rewrite Er in Hy; [|destruct Hy]. rewrite (ip_out d0 Hi) in Hy. destruct Hy as [<-|[]].
    exists d0. split; [exact Hd|]. apply (marks_def d0 c (tgt_kind x d0 Hd)) in H.
    apply plus_cases in H as [[_ H]|[Er' _]]; [|congruence]. apply (star_rt _ _ _ _ Er). apply t_rt. exact H.
Qed.

Lemma reach_inst_in x y : kind_of s x = Some KInstance -> inside = true -> Reach A (IE x) y ->
  exists c', y = IE c' /\ kind_of s c' = Some KInstance /\
    (c' = x \/ rec = true /\ exists d0 dp, inst_target x d0 /\ par s RChildren c' = Some dp /\ star R rec d0 dp).
Proof.
  intros Hk Hi Hr.
  apply (reach_invariant A (fun y => exists c', y = IE c' /\ kind_of s c' = Some KInstance /\
    (c' = x \/ rec = true /\ exists d0 dp, inst_target x d0 /\ par s RChildren c' = Some dp /\ star R rec d0 dp)) (IE x)) in Hr; [exact Hr| |].
  - exists x. auto.
  - intros a b (c' & -> & Hc' & Hor) Hb. unfold succs in Hb. apply in_flat_map in Hb as (ac & Hac & Hb).
    apply (d_inst c' ac Hc') in Hac as (dc & Hdc & ->). unfold mark_def in Hb. cbn [succ_of] in Hb.
    destruct (bool_cases rec) as [Er|Er]; rewrite Er in Hb; [|destruct Hb]. rewrite (ip_in dc Hi) in Hb.
    apply in_map_iff in Hb as (ch & <- & Hch). exists ch. split; [reflexivity|]. split; [apply (kid_kind s W _ _ _ Hch)|].
    right. split; [exact Er|]. destruct Hor as [->|(_ & d0 & dp & Hd0 & Hdp & Hs)].
    + exists dc, dc. split; [exact Hdc|split; [apply (kids_par s W); exact Hch|apply star_refl]].
    + exists d0, dc. split; [exact Hd0|split; [apply (kids_par s W); exact Hch|]].
      eapply star_snoc; [exact Er|exact Hs|]. apply (R_in_child dp dc Hi). exists c'. split; [apply (kids_par s W); exact Hdp|exact Hdc].
Qed.

Lemma sound_inst_in x c : kind_of s x = Some KInstance -> inside = true -> Marks A (IE x) c ->
  exists d0, inst_target x d0 /\ star R rec d0 c.
Proof.
  intros Hk Hi (y & os & ys & Hr & Ha). apply (reach_inst_in x y Hk Hi) in Hr as (c' & -> & Hc' & Hor).
  apply (d_inst c' _ Hc') in Ha as (dc & Hdc & E). unfold mark_def in E. injection E as Ec _ _. subst dc.
  destruct Hor as [->|(Er & d0 & dp & Hd0 & Hdp & Hs)].
  - exists c. split; [exact Hdc|apply star_refl].
  - exists d0. split; [exact Hd0|]. eapply star_snoc; [exact Er|exact Hs|].
    apply (R_in_child dp c Hi). exists c'. split; [apply (kids_par s W); exact Hdp|exact Hdc].
Qed.

Lemma sound_elem x c : Marks A (IE x) c -> defsB_elem s rec inside x c.
Proof.
  intro H. unfold defsB_elem. destruct (kind_of s x) as [[]|] eqn:Hk.
  - apply (sound_net x c Hk) in H as (Hc & l & d & Hl & Hd & H). split; [exact Hc|]. exists d. split; [|exact H].
    unfold scope_defs. rewrite Hk. exists l. auto.
  - apply (sound_lib x c Hk) in H as (Hc & d & Hd & H). split; [exact Hc|]. exists d. split; [|exact H].
    unfold scope_defs. rewrite Hk. exact Hd.
  - apply marks_def; assumption.
  - apply sound_home; [left; exact Hk|exact H].
  - apply sound_home; [right; exact Hk|exact H].
  - unfold home. rewrite Hk. apply marks_unfold in H as [(os & ys & H)|(y & (a & Ha & Hy) & H)]; cbn [acts_definitions] in *; rewrite Hk in *.
    + apply in_push_opt in H as (z & _ & E). discriminate E.
    + apply in_push_opt in Ha as (z & Hz & ->). cbn in Hy. destruct Hy as [<-|[]].
      pose proof (par_parent_kind s W _ _ _ Hz) as Hkz. cbn [rel_parent] in Hkz.
      apply (sound_home z c (or_intror Hkz)) in H. unfold home in H. rewrite Hkz in H. exists z. auto.
  - unfold home. rewrite Hk. apply marks_unfold in H as [(os & ys & H)|(y & (a & Ha & Hy) & H)]; cbn [acts_definitions] in *; rewrite Hk in *.
    + apply in_push_opt in H as (z & _ & E). discriminate E.
    + apply in_push_opt in Ha as (z & Hz & ->). cbn in Hy. destruct Hy as [<-|[]].
      pose proof (par_parent_kind s W _ _ _ Hz) as Hkz. cbn [rel_parent] in Hkz.
      apply (sound_home z c (or_introl Hkz)) in H. unfold home in H. rewrite Hkz in H. exists z. auto.
  - destruct (bool_cases inside) as [Hi|Hi]; [apply (sound_inst_in x c Hk Hi H)|apply (sound_inst_out x c Hk Hi H)].
  - apply marks_unfold in H as [(os & ys & H)|(y & (a & Ha & Hy) & H)]; cbn [acts_definitions] in *; rewrite Hk in *; [destruct H|destruct Ha].
Qed.

(* ---- completeness: what the final state of a run from [it] (which hands over to x) contains ---- *)
Definition shape_ok (y : item) : Prop :=
  forall c os ys, In (AMark c os ys) (A y) -> kind_of s c = Some KDefinition /\ (rec = true -> In (IE c) ys).

Lemma shape_def_item d : kind_of s d = Some KDefinition -> shape_ok (IE d).
Proof.
  intros Hk c os ys H. apply (d_def d _ Hk) in H as (r & Hr & E). unfold mark_def in E. injection E as -> _ ->.
  split; [apply (R_kind d r Hr)|]. intros ->. left. reflexivity.
Qed.
Lemma shape_inst_out x : kind_of s x = Some KInstance -> inside = false -> shape_ok (IE x).
Proof.
  intros Hk Hi c os ys H. apply (d_inst x _ Hk) in H as (d0 & Hd & E). unfold mark_def in E. injection E as -> _ ->.
  split; [apply (tgt_kind x d0 Hd)|]. intros ->. rewrite (ip_out d0 Hi). left. reflexivity.
Qed.

(* items from which only definition items (and libraries below a netlist) are reached *)
Definition topdown (y : item) : Prop :=
  match y with
  | IE z => kind_of s z = Some KDefinition \/ kind_of s z = Some KLibrary \/ kind_of s z = Some KNetlist \/
            (kind_of s z = Some KInstance /\ inside = false)
  | _ => False
  end.

Lemma topdown_step a b : topdown a -> In b (succs A a) -> topdown b /\ (forall z, b = IE z -> kind_of s z <> Some KInstance).
Proof.
  destruct a as [z| | |]; cbn [topdown]; try contradiction. unfold succs. rewrite in_flat_map.
  intros [Hk|[Hk|[Hk|[Hk Hi]]]] (ac & Hac & Hb).
  - apply (d_def z _ Hk) in Hac as (r & Hr & ->). unfold mark_def in Hb. cbn [succ_of] in Hb.
    destruct rec; [|destruct Hb]. destruct Hb as [<-|[]]. pose proof (R_kind z r Hr) as Hkr. cbn. split; [left; exact Hkr|].
    intros z' E. injection E as <-. congruence.
  - apply (lib_acts z _ Hk) in Hac as [[-> _]|(d & Hd & -> & _)]; [destruct Hb|]. destruct Hb as [<-|[]].
    pose proof (kid_kind s W _ _ _ Hd) as Hkd. cbn. split; [left; exact Hkd|]. intros z' E. injection E as <-. cbn [rel_child] in Hkd. congruence.
  - cbn [acts_definitions] in Hac. rewrite Hk in Hac. apply in_push_ids in Hac as (l & Hl & ->). destruct Hb as [<-|[]].
    pose proof (kid_kind s W _ _ _ Hl) as Hkl. cbn. split; [right; left; exact Hkl|]. intros z' E. injection E as <-. cbn [rel_child] in Hkl. congruence.
  - apply (d_inst z _ Hk) in Hac as (d0 & Hd & ->). unfold mark_def in Hb. cbn [succ_of] in Hb.
    destruct rec; [|destruct Hb]. rewrite (ip_out d0 Hi) in Hb. destruct Hb as [<-|[]].
    pose proof (tgt_kind z d0 Hd) as Hkd. cbn. split; [left; exact Hkd|]. intros z' E. injection E as <-. congruence.
Qed.

Lemma topdown_reach x y : topdown (IE x) -> Reach A (IE x) y -> topdown y.
Proof.
  intros Hx Hr. apply (reach_invariant A topdown (IE x) y Hx); [|exact Hr]. intros a b Ha Hb. apply (topdown_step a b Ha Hb).
Qed.

Lemma topdown_shape y : topdown y -> shape_ok y.
Proof.
  destruct y as [z| | |]; cbn [topdown]; try contradiction. intros [Hk|[Hk|[Hk|[Hk Hi]]]].
  - apply shape_def_item, Hk.
  - intros c os ys H. apply (lib_acts z _ Hk) in H as [[E _]|(d & _ & E & _)]; discriminate E.
  - intros c os ys H. cbn [acts_definitions] in H. rewrite Hk in H. apply in_push_ids in H as (l & _ & E). discriminate E.
  - apply shape_inst_out; assumption.
Qed.

Section Complete.
Variable st' : wst qout.
Variable it : item.
Variable x : id.
Hypothesis HC : Chain A it x.
Hypothesis HD : Done A st' it.
Hypothesis HF : forall c, In c (w_marks st') -> Fired A st' [it] c.

Lemma DX : Done A st' (IE x).
Proof. apply (chain_done A st' it x HC HD). Qed.

Lemma fired_at c : In c (w_marks st') ->
  exists y os ys, Reach A (IE x) y /\ In (AMark c os ys) (A y) /\ Forall (Done A st') ys.
Proof.
  intro Hc. destruct (HF c Hc) as (x0 & y & os & ys & [<-|[]] & Hr & Ha & _ & Hy).
  destruct (chain_reach A it x y HC Hr) as [Hr'|(z & E)]; [exists y, os, ys; auto|].
  rewrite E in Ha. destruct Ha as [E'|[]]. discriminate E'.
Qed.

Lemma closure_topdown c e : topdown (IE x) -> rec = true -> In c (w_marks st') -> R c e -> In e (w_marks st').
Proof.
  intros Hx Er Hc Hce. destruct (fired_at c Hc) as (y & os & ys & Hr & Ha & Hy).
  destruct (topdown_shape y (topdown_reach x y Hx Hr) c os ys Ha) as [Hkc Hin]. rewrite Forall_forall in Hy.
  apply (done_def_marks st' c e Hkc (Hy _ (Hin Er)) Hce).
Qed.

Lemma closure_rt_topdown c e : topdown (IE x) -> rec = true -> In c (w_marks st') ->
  clos_refl_trans id R c e -> In e (w_marks st').
Proof.
  intros Hx Er Hc Hr. apply clos_rt_rtn1 in Hr. induction Hr as [|a b Hab _ IH]; [exact Hc|].
  apply (closure_topdown a b Hx Er IH Hab).
Qed.

(* everything R-reachable (in one or more steps) from a definition item that is done *)
Lemma comp_from_def d e : topdown (IE x) -> kind_of s d = Some KDefinition -> Done A st' (IE d) ->
  plus R rec d e -> In e (w_marks st').
Proof.
  intros Hx Hk Hd Hp. apply plus_cases in Hp as [[Er Hp]|[_ Hp]]; [|apply (done_def_marks st' d e Hk Hd Hp)].
  apply t_split_l in Hp as (c & Hdc & Hce). apply (closure_rt_topdown c e Hx Er); [|exact Hce].
  apply (done_def_marks st' d c Hk Hd Hdc).
Qed.

Lemma comp_inst_in e : kind_of s x = Some KInstance -> inside = true ->
  (exists d0, inst_target x d0 /\ star R rec d0 e) -> In e (w_marks st').
Proof.
  intros Hk Hi (d0 & Hd0 & Hs).
  assert (H0 : In d0 (w_marks st')).
  { pose proof DX as Hd. apply done_inv in Hd as (_ & _ & D3). apply (D3 d0 [OOth d0] (if rec then inst_pushes d0 else [])).
    apply (d_inst x _ Hk). exists d0. auto. }
  apply star_cases in Hs as [[Er Hs]|[_ <-]]; [|exact H0].
  apply clos_rt_rtn1 in Hs. induction Hs as [|a b Hab _ IH]; [exact H0|].
  destruct (fired_at a IH) as (y & os & ys & Hr & Ha & Hy).
  apply (reach_inst_in x y Hk Hi) in Hr as (c' & -> & Hc' & _).
  apply (d_inst c' _ Hc') in Ha as (dc & Hdc & E). unfold mark_def in E. injection E as Ec _ Ey. subst dc.
  rewrite Er, (ip_in a Hi) in Ey. subst ys. rewrite Forall_forall in Hy.
  apply (R_in_child a b Hi) in Hab as (ch & Hch & Ht).
  assert (Hdch : Done A st' (IE ch)) by (apply Hy, in_map, Hch).
  apply done_inv in Hdch as (_ & _ & D3). apply (D3 b [OOth b] (if rec then inst_pushes b else [])).
  apply (d_inst ch _ (kid_kind s W _ _ _ Hch)). exists b. auto.
Qed.

Lemma comp_elem e : defsB_elem s rec inside x e ->
  kind_of s x <> Some KPin -> kind_of s x <> Some KWire -> In e (w_marks st').
Proof.
  unfold defsB_elem, scope_defs. intros H Hnp Hnw. pose proof DX as Hd. destruct (kind_of s x) as [[]|] eqn:Hk; try contradiction; try congruence.
  - (* netlist *) destruct H as (Hc & d & (l & Hdl & Hl) & Hp).
    assert (Hx : topdown (IE x)) by (cbn; rewrite Hk; auto).
    apply (kids_par s W) in Hl, Hdl. apply done_inv in Hd as (D1 & _ & _).
    assert (Hl' : Done A st' (IE l)).
    { apply D1. cbn [acts_definitions]. rewrite Hk. apply in_push_ids. exists l. auto. }
    apply done_inv in Hl' as (D1' & _ & _).
    assert (Hd' : Done A st' (IE d)).
    { apply D1'. cbn [acts_definitions]. rewrite (kid_kind s W _ _ _ Hl). cbn [rel_child].
      destruct inside; [destruct Hc as [Hc|Hc]; [discriminate|]; rewrite Hc; right|]; apply in_push_ids; exists d; auto. }
    apply (comp_from_def d e Hx (kid_kind s W _ _ _ Hdl) Hd' Hp).
  - (* library *) destruct H as (Hc & d & Hdl & Hp).
    assert (Hx : topdown (IE x)) by (cbn; rewrite Hk; auto).
    apply (kids_par s W) in Hdl. apply done_inv in Hd as (D1 & _ & _).
    assert (Hd' : Done A st' (IE d)).
    { apply D1. cbn [acts_definitions]. rewrite Hk.
      destruct inside; [destruct Hc as [Hc|Hc]; [discriminate|]; rewrite Hc; right|]; apply in_push_ids; exists d; auto. }
    apply (comp_from_def d e Hx (kid_kind s W _ _ _ Hdl) Hd' Hp).
  - (* definition *) assert (Hx : topdown (IE x)) by (cbn; rewrite Hk; auto). apply (comp_from_def x e Hx Hk Hd H).
  - (* port *) apply done_inv in Hd as (_ & _ & D3). apply (D3 e [OOth e] []). apply (d_home x _ (or_introl Hk)). exists e.
    split; [exact H|reflexivity].
  - (* cable *) apply done_inv in Hd as (_ & _ & D3). apply (D3 e [OOth e] []). apply (d_home x _ (or_intror Hk)). exists e.
    split; [exact H|reflexivity].
  - (* instance *) destruct (bool_cases inside) as [Hi|Hi]; [apply (comp_inst_in e Hk Hi H)|].
    destruct H as (d0 & Hd0 & Hs). assert (Hx : topdown (IE x)) by (cbn; rewrite Hk; auto).
    assert (H0 : In d0 (w_marks st')).
    { apply done_inv in Hd as (_ & _ & D3). apply (D3 d0 [OOth d0] (if rec then inst_pushes d0 else [])).
      apply (d_inst x _ Hk). exists d0. auto. }
    apply star_cases in Hs as [[Er Hs]|[_ <-]]; [|exact H0]. apply (closure_rt_topdown d0 e Hx Er H0 Hs).
Qed.
End Complete.

(* ---- the first-stage parents: libraries only ---- *)
Lemma def_no_par d l : kind_of s d = Some KDefinition -> ~ Emits A (IE d) (OPar l).
Proof.
  intros Hk (y & a & Hr & Ha & Ho). apply (reach_def d y Hk) in Hr as (d' & -> & Hd' & _).
  apply (d_def d' _ Hd') in Ha as (r & _ & ->). cbn in Ho. destruct Ho as [E|[]]. discriminate E.
Qed.

Lemma lib_par l l' : kind_of s l = Some KLibrary -> Emits A (IE l) (OPar l') -> inside = true /\ l' = l.
Proof.
  intros Hk H. apply emits_unfold in H as [(a & Ha & Ho)|(y & (a & Ha & Hy) & H)].
  - apply (lib_acts l _ Hk) in Ha as [[-> Hi]|(d & _ & -> & _)]; [|destruct Ho]. destruct Ho as [E|[]]. injection E as <-. auto.
  - apply (lib_acts l _ Hk) in Ha as [[-> _]|(d & Hd & -> & _)]; [destruct Hy|]. destruct Hy as [<-|[]].
    exfalso. apply (def_no_par d l' (kid_kind s W _ _ _ Hd) H).
Qed.

Lemma par_sound x l : Emits A (IE x) (OPar l) -> inside = true /\ lib_scope s x l.
Proof.
  intro H. unfold lib_scope. destruct (kind_of s x) as [[]|] eqn:Hk.
  - apply emits_unfold in H as [(a & Ha & Ho)|(y & (a & Ha & Hy) & H)]; cbn [acts_definitions] in Ha; rewrite Hk in Ha;
      apply in_push_ids in Ha as (l0 & Hl0 & ->); [destruct Ho|]. destruct Hy as [<-|[]].
    apply (lib_par l0 l (kid_kind s W _ _ _ Hl0)) in H as [Hi ->]. split; [exact Hi|apply (kids_par s W); exact Hl0].
  - apply (lib_par x l Hk H).
  - exfalso. apply (def_no_par x l Hk H).
  - exfalso. apply emits_unfold in H as [(a & Ha & Ho)|(y & (a & Ha & Hy) & H)];
      apply (d_home x _ (or_introl Hk)) in Ha as (d & _ & ->); [destruct Ho as [E|[]]; discriminate E|destruct Hy].
  - exfalso. apply emits_unfold in H as [(a & Ha & Ho)|(y & (a & Ha & Hy) & H)];
      apply (d_home x _ (or_intror Hk)) in Ha as (d & _ & ->); [destruct Ho as [E|[]]; discriminate E|destruct Hy].
  - exfalso. apply emits_unfold in H as [(a & Ha & Ho)|(y & (a & Ha & Hy) & H)]; cbn [acts_definitions] in Ha; rewrite Hk in Ha;
      apply in_push_opt in Ha as (z & Hz & ->); [destruct Ho|]. destruct Hy as [<-|[]].
    pose proof (par_parent_kind s W _ _ _ Hz) as Hkz. cbn [rel_parent] in Hkz.
    apply emits_unfold in H as [(a & Ha & Ho)|(y & (a & Ha & Hy) & H)];
      apply (d_home z _ (or_intror Hkz)) in Ha as (d & _ & ->); [destruct Ho as [E|[]]; discriminate E|destruct Hy].
  - exfalso. apply emits_unfold in H as [(a & Ha & Ho)|(y & (a & Ha & Hy) & H)]; cbn [acts_definitions] in Ha; rewrite Hk in Ha;
      apply in_push_opt in Ha as (z & Hz & ->); [destruct Ho|]. destruct Hy as [<-|[]].
    pose proof (par_parent_kind s W _ _ _ Hz) as Hkz. cbn [rel_parent] in Hkz.
    apply emits_unfold in H as [(a & Ha & Ho)|(y & (a & Ha & Hy) & H)];
      apply (d_home z _ (or_introl Hkz)) in Ha as (d & _ & ->); [destruct Ho as [E|[]]; discriminate E|destruct Hy].
  - exfalso. destruct (bool_cases inside) as [Hi|Hi].
    + destruct H as (y & a & Hr & Ha & Ho). apply (reach_inst_in x y Hk Hi) in Hr as (c' & -> & Hc' & _).
      apply (d_inst c' _ Hc') in Ha as (dc & _ & ->). destruct Ho as [E|[]]. discriminate E.
    + apply emits_unfold in H as [(a & Ha & Ho)|(y & (a & Ha & Hy) & H)];
        apply (d_inst x _ Hk) in Ha as (d0 & Hd0 & ->); [destruct Ho as [E|[]]; discriminate E|].
      unfold mark_def in Hy. cbn [succ_of] in Hy. destruct (bool_cases rec) as [Er|Er]; rewrite Er in Hy; [|destruct Hy].
      rewrite (ip_out d0 Hi) in Hy. destruct Hy as [<-|[]].
      apply (def_no_par d0 l (tgt_kind x d0 Hd0) H).
  - exfalso. apply emits_unfold in H as [(a & Ha & Ho)|(y & (a & Ha & Hy) & H)]; cbn [acts_definitions] in Ha; rewrite Hk in Ha; destruct Ha.
Qed.

Lemma chain_owner it x : item_owner s it x -> Chain A it x.
Proof.
  destruct it as [y|n i| |h]; cbn [item_owner].
  - intros ->. apply chain_here.
  - intros ->. eapply chain_push; [reflexivity|apply chain_here].
  - intros [].
  - intro H. apply (href_item_iff s W) in H. eapply chain_push; [|apply chain_here]. cbn [acts_definitions]. rewrite H. reflexivity.
Qed.

Theorem cands_definitions_spec fuel it ps os :
  cands_definitions s fuel [it] rec inside = WOk (ps, os) ->
  (forall e, (exists p, In p ps /\ In e (kids s RDefs p)) <-> reachA_definitions s inside it e) /\
  (forall e, In e os <-> reachB_definitions s rec inside it e) /\ NoDup os.
Proof.
  unfold cands_definitions. intro H.
  destruct (wl_run A no_bad fuel [it]) as [l| |] eqn:E; try discriminate H. cbn in H. injection H as <- <-.
  apply run_marks in E as (st' & -> & HD & HM & HE).
  assert (Hoth : forall e, In e (dedup (oths (rev (w_outs st')))) <-> In (OOth e) (w_outs st')).
  { intro e. rewrite dedup_In, in_oths, <- in_rev. tauto. }
  assert (Hpar : forall p, In p (pars (rev (w_outs st'))) <-> In (OPar p) (w_outs st')).
  { intro p. rewrite in_pars, <- in_rev. tauto. }
  split; [|split]; [intro e|intro e|apply dedup_NoDup].
  - unfold reachA_definitions. split.
    + intros (p & Hp & He). apply Hpar, HE in Hp.
      assert (Hown : exists x, item_owner s it x /\ Chain A it x).
      { destruct it as [y|n i| |h]; cbn [item_owner].
        - exists y. split; [reflexivity|apply chain_here].
        - exists n. split; [reflexivity|apply chain_owner; reflexivity].
        - exfalso. apply emits_unfold in Hp as [(a & [] & _)|(y & (a & [] & _) & _)].
        - destruct (href_item s h) as [x|] eqn:Ex.
          + exists x. pose proof (proj1 (href_item_iff s W h x) Ex) as Hx. split; [exact Hx|apply chain_owner; exact Hx].
          + exfalso. apply emits_unfold in Hp as [(a & Ha & _)|(y & (a & Ha & _) & _)]; cbn [acts_definitions] in Ha; rewrite Ex in Ha; destruct Ha. }
      destruct Hown as (x & Hx & HC). apply (chain_emits A it x _ HC), par_sound in Hp as [Hi Hl].
      exists x. split; [exact Hx|]. split; [exact Hi|]. exists p. split; [exact Hl|apply (kids_par s W); exact He].
    + intros (x & Hx & Hi & l & Hl & He). exists l. split; [|apply (kids_par s W); exact He]. apply Hpar.
      pose proof (chain_done A st' it x (chain_owner it x Hx) HD) as Hd. unfold lib_scope in Hl.
      destruct (kind_of s x) as [[]|] eqn:Hk; try contradiction.
      * apply done_inv in Hd as (D1 & _ & _). apply (kids_par s W) in Hl.
        assert (Hdl : Done A st' (IE l)) by (apply D1; cbn [acts_definitions]; rewrite Hk; apply in_push_ids; exists l; auto).
        apply done_inv in Hdl as (_ & D2 & _). apply D2. cbn [acts_definitions]. rewrite (kid_kind s W _ _ _ Hl). cbn [rel_child].
        rewrite Hi. left. reflexivity.
      * subst l. apply done_inv in Hd as (_ & D2 & _). apply D2. cbn [acts_definitions]. rewrite Hk, Hi. left. reflexivity.
  - rewrite Hoth. unfold reachB_definitions. split.
    + intro Ho. apply HE, emits_oth_marks in Ho.
      assert (Hown : exists x, item_owner s it x /\ Chain A it x).
      { destruct it as [y|n i| |h]; cbn [item_owner].
        - exists y. split; [reflexivity|apply chain_here].
        - exists n. split; [reflexivity|apply chain_owner; reflexivity].
        - exfalso. apply marks_unfold in Ho as [(os & ys & [])|(y & (a & [] & _) & _)].
        - destruct (href_item s h) as [x|] eqn:Ex.
          + exists x. pose proof (proj1 (href_item_iff s W h x) Ex) as Hx. split; [exact Hx|apply chain_owner; exact Hx].
          + exfalso. apply marks_unfold in Ho as [(os & ys & Ha)|(y & (a & Ha & _) & _)]; cbn [acts_definitions] in Ha; rewrite Ex in Ha; destruct Ha. }
      destruct Hown as (x & Hx & HC). exists x. split; [exact Hx|]. apply sound_elem. apply (chain_marks A it x e HC). exact Ho.
    + intros (x & Hx & Hs). pose proof (chain_owner it x Hx) as HC.
      assert (Hf : forall c, In c (w_marks st') -> Fired A st' [it] c) by (intros c Hc; apply (HM c Hc)).
      assert (Hin : In e (w_marks st')).
      { destruct (kind_of s x) as [k|] eqn:Hk.
        - destruct k; try (apply (comp_elem st' it x HC HD Hf e Hs); congruence).
          + (* wire *) unfold defsB_elem, home in Hs. rewrite Hk in Hs. destruct Hs as (c & Hc & Hd).
            pose proof (par_parent_kind s W _ _ _ Hc) as Hkc. cbn [rel_parent] in Hkc.
            assert (HC' : Chain A it c) by (apply (chain_snoc A it x c HC); cbn [acts_definitions]; rewrite Hk, Hc; reflexivity).
            apply (comp_elem st' it c HC' HD Hf e); [|congruence|congruence]. unfold defsB_elem, home. rewrite Hkc. exact Hd.
          + (* pin *) unfold defsB_elem, home in Hs. rewrite Hk in Hs. destruct Hs as (c & Hc & Hd).
            pose proof (par_parent_kind s W _ _ _ Hc) as Hkc. cbn [rel_parent] in Hkc.
            assert (HC' : Chain A it c) by (apply (chain_snoc A it x c HC); cbn [acts_definitions]; rewrite Hk, Hc; reflexivity).
            apply (comp_elem st' it c HC' HD Hf e); [|congruence|congruence]. unfold defsB_elem, home. rewrite Hkc. exact Hd.
        - unfold defsB_elem in Hs. rewrite Hk in Hs. destruct Hs. }
      destruct (HM e Hin) as [(x0 & y & os & ys & _ & _ & Ha & Hos & _) _].
      pose proof (mark_shape y e os ys Ha) as ->. apply Hos. left. reflexivity.
Qed.
End Defs.
