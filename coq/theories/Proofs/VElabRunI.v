(* Engine `verilog`, document-level reader: the instances clause on the final value. Every instantiation in a module m
   (named or positional map, no typing hypothesis), followed in the body by items that are not port declarations, no
   later module re-declaring m: the value's definition of m has an instance of that name referencing that module. *)
From Coq Require Import List ZArith Bool Arith Lia Permutation.
From SV Require Import Base.Base Fmt.VBits Fmt.VTop Fmt.VDoc Fmt.VElab Fmt.VSpec Fmt.VSem
  Proofs.VerilogLists Proofs.VerilogGrow Proofs.VElabBase Proofs.VElabInv Proofs.VElabWf Proofs.VElabExpr Proofs.VElabConn
  Proofs.VElabAssign Proofs.VElabNets Proofs.VElabTop Proofs.VElabStable Proofs.VElabVis Proofs.VElabFrame Proofs.VElabFrameX
  Proofs.VElabDoc Proofs.VElabRun Proofs.VElabRunX.
Import ListNotations.
Open Scope Z_scope.

Definition has_inst (d : edef) (ii : nat) (i m : str) : Prop :=
  exists inst, nth_error (ed_insts d) ii = Some inst /\ ei_name inst = i /\ ei_ref inst = RName m.

Lemma has_inst_lmono d d' ii i m : lmono d d' -> has_inst d ii i m -> has_inst d' ii i m.
Proof.
  intros M (inst & Hi & Hn & Hr). destruct (lm_insts _ _ M ii inst Hi) as (i' & Hi' & R' & N'). exists i'. split; [exact Hi'|]. split; congruence.
Qed.

Lemma has_inst_value s d ii i m : has_inst d ii i m -> In (i, m) (map (fun ni => (ni_name ni, ni_ref ni)) (nd_insts (abs_def s d))).
Proof.
  intros (inst & Hi & Hn & Hr). apply in_map_iff. exists {| ni_name := ei_name inst; ni_ref := m; ni_params := ei_params inst; ni_attrs := ei_attrs inst |}.
  split; [cbn; rewrite Hn; reflexivity|]. cbn [nd_insts abs_def]. apply in_flat_map. exists inst. split; [eapply nth_error_In; exact Hi|].
  rewrite Hr. left. reflexivity.
Qed.

Lemma inst_item_creates cur m i params attrs conns s s' : Inv s -> (cur < length (st_defs s))%nat ->
  inst_item cur m i params attrs conns s = Ok s' -> exists ii, has_inst (get_def cur s') ii i m.
Proof.
  unfold inst_item. intros I Hc H.
  destruct (get_blackbox m s) as [s1 rk] eqn:G.
  destruct (get_blackbox_inv _ _ _ _ G I) as (I1 & _ & _ & L1).
  destruct (_ && _); [destruct (parents_of _ _); [destruct (forallb _ _)|]; discriminate|].
  set (s2 := elect_step cur rk s1) in *.
  assert (I2 : Inv s2) by (apply elect_step_inv; [exact I1|lia]).
  assert (D2 : st_defs s2 = st_defs s1) by (unfold s2, elect_step; destruct (st_tops s1); reflexivity).
  apply bind_ok in H. destruct H as ([d1 ii] & H1 & H).
  destruct (add_inst_dvstep _ _ _ _ H1) as (_ & _ & Hi1 & _).
  set (s3 := set_curinst (put_def cur d1 s2) (Some (cur, ii))) in *.
  apply bind_ok in H. destruct H as (s4 & H4 & H). inversion H; subst s'. clear H.
  assert (Hk : (cur < length (st_defs s2))%nat) by (rewrite D2; lia).
  assert (G3 : get_def cur s3 = d1) by (change (get_def cur s3) with (get_def cur (put_def cur d1 s2)); apply get_put_same; exact Hk).
  assert (A3 : AllD s3).
  { destruct (put_def_LS cur d1 s2 (add_inst_lstepd _ _ _ _ H1) (inv_alld s2 I2)) as [_ A]. exact A. }
  assert (V : LS s3 (upd_def cur (fun d => set_insts d (nth_upd ii (fun i0 => {| ei_name := ei_name i0; ei_ref := ei_ref i0;
                       ei_params := dict_add_new (ei_params i0) (dict_of params); ei_attrs := ei_attrs i0 |}) (ed_insts d))) s4)).
  { assert (V4 : LS s3 s4).
    { destruct conns as [l|l].
      - revert H4. apply fold_res_LS. intros x a b _. apply named_conn_LS.
      - inversion H4; subst s4. apply same_defs_LS. reflexivity. }
    eapply LS_trans; [exact V4|]. apply upd_def_LS. apply lstepd_of_dstep; [apply upd_inst_dstep; reflexivity|intros _; apply upd_inst_lmono; reflexivity]. }
  destruct (V A3) as [L _]. exists ii. eapply has_inst_lmono; [apply (ls_defs _ _ L cur)|].
  rewrite G3. eexists. split; [exact Hi1|]. split; reflexivity.
Qed.

Lemma post_modules_has_inst post : forall s s' cur ii i m' mname, Inv s -> (cur < length (st_defs s))%nat ->
  ed_name (get_def cur s) = mname -> Forall (fun m2 => vm_name m2 <> mname) post ->
  has_inst (get_def cur s) ii i m' -> fold_res module_decl post s = Ok s' -> has_inst (get_def cur s') ii i m' /\ Inv s'.
Proof.
  induction post as [|m2 post IH]; intros s s' cur ii i m' mname I Hc Nm F Sh H; cbn in H.
  - inversion H; subst. auto.
  - apply bind_ok in H. destruct H as (s1 & H1 & H). inversion F as [|? ? F1 F']; subst.
    destruct (module_decl_LSX m2 s s1 H1 (inv_alld s I)) as [LX A1].
    assert (C1 : cur <> snd (get_blackbox (vm_name m2) s)).
    { intro E. apply F1. symmetry. rewrite <- (get_blackbox_idx (vm_name m2) s cur Hc E). reflexivity. }
    destruct (lx_names _ _ _ LX) as (ex & N). destruct (names_prefix_get s s1 ex cur N Hc) as [Hc1 Nm1].
    eapply (IH s1 s' cur ii i m' (ed_name (get_def cur s))); try eassumption.
    + eapply module_decl_inv; eassumption.
    + eapply has_inst_lmono; [apply (lS_mono _ _ (lx_defs _ _ _ LX cur (fun E => C1 (eq_sym E))))|exact Sh].
Qed.

Theorem module_has_instance pre m post before m' i params attrs conns after n :
  elab (pre ++ m :: post) = Ok n -> vm_cell m = false ->
  vm_body m = before ++ IInst m' i params attrs conns :: after -> Forall not_port_decl after ->
  Forall (fun m2 => vm_name m2 <> vm_name m) post ->
  exists cur d, nth_error (nv_defs n) cur = Some d /\ In (i, m') (map (fun ni => (ni_name ni, ni_ref ni)) (nd_insts d)).
Proof.
  intros He C B NP FP. destruct (elab_defs _ _ He) as (sf & Hr & Hd).
  unfold run in Hr. fold st_init in Hr. apply bind_ok in Hr. destruct Hr as (s1b & H1 & H2).
  destruct (fold_res_app _ _ _ _ _ H1) as (s0 & Hpre & Hm). cbn in Hm. apply bind_ok in Hm. destruct Hm as (s1 & Hm & Hpost).
  destruct st_init_inv as [Ii VIi]. destruct (modules_inv pre _ _ Ii VIi Hpre) as [I0 VI0].
  destruct (module_decl_split m s0 s1 C Hm) as (s5 & cur & s6 & Ho & Hb & L6).
  destruct (module_open_inv m s0 s5 cur I0 VI0 Ho) as (I5 & VI5 & Hc5 & N5).
  rewrite B in Hb. destruct (fold_res_app _ _ _ _ _ Hb) as (s & Hbef & Hrest). cbn in Hrest.
  apply bind_ok in Hrest. destruct Hrest as (sA & HA & Haft). cbn [body_item] in HA.
  destruct (body_prefix_inv cur before s5 s I5 VI5 Hc5 Hbef) as (I & VI & Hc & N).
  destruct (inst_item_creates _ _ _ _ _ _ _ _ I Hc HA) as (ii & ShA).
  destruct (inst_item_inv _ _ _ _ _ _ _ _ HA I Hc) as [IA LA].
  assert (L1 : LS sA s1) by (eapply LS_trans; [eapply body_LS; [exact NP|exact Haft]|exact L6]).
  destruct (L1 (inv_alld sA IA)) as [Ls1 A1].
  pose proof (has_inst_lmono _ _ ii i m' (ls_defs _ _ Ls1 cur) ShA) as Sh1.
  assert (I1 : Inv s1) by (eapply module_decl_inv; eassumption).
  destruct (inst_item_LS _ _ _ _ _ _ _ _ HA (inv_alld s I)) as [LsA _].
  destruct (ls_names _ _ (lstep_trans _ _ _ LsA Ls1)) as (ex1 & N1). destruct (names_prefix_get s s1 ex1 cur N1 Hc) as [Hc1 Nm1].
  destruct (post_modules_has_inst post s1 s1b cur ii i m' (vm_name m) I1 Hc1 ltac:(congruence) FP Sh1 Hpost) as (Shb & Ib).
  destruct (run_tail_LS s1b sf H2 (inv_alld s1b Ib)) as [Lsf Af].
  pose proof (has_inst_lmono _ _ ii i m' (ls_defs _ _ Lsf cur) Shb) as Shf.
  assert (Hcf : (cur < length (st_defs sf))%nat).
  { destruct Shf as (inst & Hi & _). destruct (lt_dec cur (length (st_defs sf))) as [Hl|Hl]; [exact Hl|exfalso].
    unfold get_def in Hi. rewrite nth_overflow in Hi by lia. cbn in Hi. destruct ii; discriminate. }
  exists cur, (abs_def sf (get_def cur sf)). split; [apply Hd; exact Hcf|exact (has_inst_value sf _ ii i m' Shf)].
Qed.
