(* C07 independence: locality of the wire / pin calls, of the reference and top-instance setters,
   of the compound constructors, and the LOCALITY THEOREM for the whole step function. *)
From Coq Require Import List Arith NArith ZArith Bool Lia.
From RecordUpdate Require Import RecordSet.
From SV Require Import Base.Base IR.State IR.NS IR.Ops Proofs.AssocX Proofs.Frame Proofs.Locality Proofs.LocalityNs
  Proofs.LocalityStruct.
Import ListNotations RecordSetNotations.

Lemma pins_dedup_sub x l : In x (pins_dedup l) -> In x l.
Proof.
  induction l as [|y l IH]; cbn; [tauto|]. destruct (pin_memb y l); cbn; [auto|]. intros [H|H]; auto.
Qed.

Lemma set_add_In y x l : In y (set_add x l) -> y = x \/ In y l.
Proof.
  unfold set_add. destruct (memb x l); [auto|]. intro H. apply in_app_or in H as [H|[H|[]]]; auto.
Qed.

(* every argument object of the call lies in P; an outer pin (n, i) counts through its instance n *)
Definition op_in (P : id -> Prop) (o : op) : Prop :=
  match o with
  | ONew _ _ _ => True
  | OCreate r p _ _ _ ref => P p /\ (forall d, ref = Some d -> P d)
  | OCreateItems r p _ => P p
  | OAdd r p c _ => P p /\ P c
  | ORemove r p c => P p /\ P c
  | ORemoveFrom r p cs => P p /\ (forall c, In c cs -> P c)
  | OReorder r p l => P p
  | OReorderWire w l => P w
  | OConnect w p _ => P w /\ pin_in P p
  | ODisconnect w p => P w /\ pin_in P p
  | ODisconnectFrom w ps => P w /\ (forall p, In p ps -> pin_in P p)
  | OSetReference x v => P x /\ (forall d, v = Some d -> P d)
  | OSetTop n a => P n /\ match a with TopInst x => P x | TopDef d => P d | TopNone => True end
  | OSetName e _ | ODelName e | ODSet e _ _ | ODDel e _ | ODPop e _ => P e
  | OSetDownto b _ | OSetScalar b _ | OSetLower b _ => P b
  | OSetDirection p _ => P p
  | OSetPolicy _ => True
  end.

Section StepLoc.
Variable P : id -> Prop.

(* ---- wires and pins ---- *)
Lemma loc_set_pin_wire s p v : pin_in P p -> (forall w, v = Some w -> P w) -> Loc P s (set_pin_wire s p v).
Proof.
  intros Hp Hv. destruct p as [i|n i|]; cbn [set_pin_wire pin_in] in *; [| |apply loc_refl].
  - apply loc_set_ipwire; [exact Hp|intros _; exact Hv].
  - apply loc_set_ipins; [exact Hp|]. intros C j w H. apply In_assoc_set in H as [H|H]; [injection H as _ H; apply Hv; symmetry; exact H|].
    apply (rc_ipins _ _ C n j w Hp H).
Qed.

Lemma loc_op_reorder_wire s w l : P w -> Loc P s (fst (op_reorder_wire s w l)).
Proof.
  intro Hw. unfold op_reorder_wire, guard. destruct (is_kind _ _ _); [|apply loc_refl].
  destruct (pins_nodupb l && pins_subsetb l (wpins s w) && pins_subsetb (wpins s w) l) eqn:E; [|apply loc_refl].
  cbn. apply loc_set_wpins; [exact Hw|]. intros C p Hp. apply andb_true_iff in E as [E _]. apply andb_true_iff in E as [_ E].
  apply (rc_wpins _ _ C w p Hw). apply (proj1 (pins_subsetb_spec _ _) E p Hp).
Qed.

Lemma loc_connect_core s w p pos :
  P w -> pin_in P p ->
  Loc P s (set_pin_wire (set_wpins (emit s (EConnect w p)) w (py_insert pos p (wpins (emit s (EConnect w p)) w))) p (Some w)).
Proof.
  intros Hw Hp. eapply loc_trans; [apply loc_emit|]. eapply loc_trans; [|apply loc_set_pin_wire; [exact Hp|intros w0 H; injection H as <-; exact Hw]].
  apply loc_set_wpins; [exact Hw|]. intros C q Hq. apply py_insert_In in Hq as [->|Hq]; [exact Hp|apply (rc_wpins _ _ C w q Hw Hq)].
Qed.

Lemma loc_op_connect s w p pos : P w -> pin_in P p -> Loc P s (fst (op_connect s w p pos)).
Proof.
  intros Hw Hp. unfold op_connect, guard. destruct (_ && _); [|apply loc_refl].
  destruct p as [i|n i|]; [| |apply loc_refl].
  - destruct (ipwire s i); [apply loc_refl|]. apply loc_connect_core; assumption.
  - destruct (assoc i (ipins s n)) as [[w0|]|]; try apply loc_refl. apply loc_connect_core; assumption.
Qed.

Lemma loc_op_disconnect s w p : P w -> pin_in P p -> Loc P s (fst (op_disconnect s w p)).
Proof.
  intros Hw Hp. unfold op_disconnect, guard. destruct (_ && _); [|apply loc_refl].
  destruct (can_disconnect s w p); [|apply loc_refl].
  assert (Hr : forall s1, Loc P s1 (set_wpins s1 w (pin_remove_first p (wpins s1 w)))).
  { intro s1. apply loc_set_wpins; [exact Hw|]. intros C q Hq. apply pin_remove_first_sub in Hq. apply (rc_wpins _ _ C w q Hw Hq). }
  assert (Hn : forall s1, Loc P s1 (set_pin_wire s1 p None)) by (intro s1; apply loc_set_pin_wire; [exact Hp|intros; discriminate]).
  destruct p; cbn [fst ret].
  - eapply loc_trans; [eapply loc_trans; [apply Hr|apply loc_emit]|apply Hn].
  - eapply loc_trans; [eapply loc_trans; [eapply loc_trans; [apply loc_emit|apply Hr]|apply loc_emit]|apply Hn].
  - eapply loc_trans; [eapply loc_trans; [apply Hr|apply loc_emit]|apply Hn].
Qed.

Lemma loc_op_disconnect_from s w ps : P w -> (forall p, In p ps -> pin_in P p) -> Loc P s (fst (op_disconnect_from s w ps)).
Proof.
  intros Hw Hp. unfold op_disconnect_from, guard. destruct (_ && _); [|apply loc_refl].
  destruct (forallb _ ps); [|apply loc_refl]. cbn [fst ret]. cbn zeta.
  match goal with |- Loc P s (set_wpins ?s1 _ _) => apply (loc_trans P s s1) end.
  - apply loc_fold_left. intros s0 p Hin. apply pins_dedup_sub in Hin. pose proof (Hp p Hin) as Hpp.
    assert (Hn : forall s1, Loc P s1 (set_pin_wire s1 p None)) by (intro s1; apply loc_set_pin_wire; [exact Hpp|intros; discriminate]).
    destruct p; (eapply loc_trans; [|apply Hn]);
      [apply loc_emit|eapply loc_trans; [apply loc_emit|apply loc_emit]|apply loc_emit].
  - apply loc_set_wpins; [exact Hw|]. intros C q Hq. apply filter_In in Hq as [Hq _]. apply (rc_wpins _ _ C w q Hw Hq).
Qed.

(* ---- Instance.reference ---- *)
Lemma loc_rekey s n cn : P n -> Loc P s (fst (rekey s n cn)).
Proof.
  intro Hn. apply loc_use. intro C. unfold rekey. destruct cn as [cur new].
  destruct (assoc cur (ipins s n)) as [ow|] eqn:E; [|apply loc_refl]. cbn [fst ret].
  assert (H1 : Loc P s (set_ipins s n (assoc_set new ow (assoc_del cur (ipins s n))))).
  { apply loc_set_ipins; [exact Hn|]. intros C1 j w H. apply In_assoc_set in H as [H|H].
    - injection H as _ H. subst ow. apply (rc_ipins _ _ C1 n cur w Hn (assoc_In _ _ _ E)).
    - apply In_assoc_del in H. apply (rc_ipins _ _ C1 n j w Hn H). }
  destruct ow as [w|]; [|exact H1].
  pose proof (rc_ipins _ _ C n cur w Hn (assoc_In _ _ _ E)) as Hw.
  eapply loc_trans; [exact H1|]. apply loc_set_wpins; [exact Hw|]. intros C1 q Hq.
  apply in_map_iff in Hq as [q0 [<- Hq0]]. unfold rename_pin. destruct (pin_eqb q0 (POut n cur)); [exact Hn|apply (rc_wpins _ _ C1 w q0 Hw Hq0)].
Qed.

Lemma loc_unref s x d : Loc P s (fst (if memb x (drefs s d) then ret (set_drefs s d (remove_first x (drefs s d))) else raise s XStuck)).
Proof.
  destruct (memb x (drefs s d)); [|apply loc_refl]. cbn. apply loc_set_drefs. intros C Hd y Hy.
  apply remove_first_In_sub in Hy. apply (rc_drefs _ _ C d y Hd Hy).
Qed.

Lemma loc_op_set_reference s x v : P x -> (forall d, v = Some d -> P d) -> Loc P s (fst (op_set_reference s x v)).
Proof.
  intros Hx Hv. unfold op_set_reference, guard. destruct (_ && _); [|apply loc_refl].
  destruct (match v, iref s x with Some d', Some d => same_shape s d d' | _, _ => true end); [|apply loc_refl].
  cbn zeta. destruct v as [d'|].
  - pose proof (Hv d' eq_refl) as Hd'.
    apply (loc_bind_from P s (emit s (EReference x (Some d')))); [apply loc_emit| |].
    + destruct (iref _ x) as [d|]; [|cbn; apply loc_new_outers; exact Hx].
      apply loc_bind; [apply loc_unref|]. intro s2. apply loc_fold_pairsR. intros; apply loc_rekey; exact Hx.
    + intro s3. cbn. eapply loc_trans; [|apply loc_set_iref; exact Hx].
      apply loc_set_drefs. intros C _ y Hy. apply set_add_In in Hy as [->|Hy]; [exact Hx|apply (rc_drefs _ _ C d' y Hd' Hy)].
  - apply (loc_bind_from P s (emit s (EReference x None))); [apply loc_emit|apply loc_drop_outers; exact Hx|].
    intro s2. cbn zeta. apply (loc_bind_from P s2 (set_ipins s2 x [])).
    + apply loc_set_ipins; [exact Hx|intros _ i w []].
    + destruct (iref _ x) as [d|]; [apply loc_unref|apply loc_refl].
    + intro s4. cbn. apply loc_set_iref; exact Hx.
Qed.

(* ---- Netlist.top_instance ---- *)
Lemma loc_clear_old_top s n : P n -> Loc P s (clear_old_top s n).
Proof.
  intro Hn. apply loc_use. intro C. unfold clear_old_top. destruct (top s n) as [t|] eqn:E; [|apply loc_refl].
  apply loc_set_istop. apply (rc_top _ _ C n t Hn E).
Qed.

Lemma loc_op_set_top s n a :
  P n -> match a with TopInst x => P x | TopDef d => P d | TopNone => True end -> Loc P s (fst (op_set_top s n a)).
Proof.
  intros Hn Ha. unfold op_set_top, guard. destruct (_ && _); [|apply loc_refl]. cbn zeta.
  assert (H1 : forall ev, Loc P s (clear_old_top (emit s ev) n)) by (intro ev; eapply loc_trans; [apply loc_emit|apply loc_clear_old_top; exact Hn]).
  destruct a as [x|d|].
  - cbn. eapply loc_trans; [apply H1|]. eapply loc_trans; [|apply loc_set_istop; exact Ha]. apply loc_set_top; [exact Hn|intros _ t Ht; injection Ht as <-; exact Ha].
  - eapply loc_trans; [apply H1|]. apply loc_use. intro C1.
    match goal with |- context [construct ?s1 KInstance None []] =>
      destruct (loc_construct P s1 KInstance None []) as [Lc Pc]; specialize (Pc C1);
      destruct (construct s1 KInstance None []) as [r t] end.
    cbn [fst snd] in *. apply loc_bind; [exact Lc|]. intro s2.
    apply loc_bind; [apply loc_op_set_reference; [exact Pc|intros d0 H; injection H as <-; exact Ha]|].
    intro s3. cbn. eapply loc_trans; [apply loc_set_istop; exact Pc|]. eapply loc_trans; [apply loc_emit|].
    eapply loc_trans; [apply loc_clear_old_top; exact Hn|].
    eapply loc_trans; [|apply loc_set_istop; exact Pc]. apply loc_set_top; [exact Hn|intros _ t0 Ht; injection Ht as <-; exact Pc].
  - cbn. eapply loc_trans; [apply H1|]. apply loc_set_top; [exact Hn|intros; discriminate].
Qed.

(* ---- compound constructors ---- *)
Lemma loc_create_items r p n : P p -> forall s, Loc P s (fst (create_items s r p n)).
Proof.
  intro Hp. induction n as [|n IH]; intro s; cbn [create_items]; [apply loc_refl|].
  apply loc_use. intro C. destruct (loc_alloc P s (rel_child r)) as [La Pa]. specialize (Pa C).
  destruct (alloc s (rel_child r)) as [s0 x]. cbn [fst snd] in *.
  apply (loc_bind_from P s s0); [exact La|apply loc_op_add; assumption|exact IH].
Qed.

Lemma loc_create_and_add s r p nm props :
  P p -> Loc P s (fst (fst (create_and_add s r p nm props))) /\ (RClosed P s -> P (snd (create_and_add s r p nm props))).
Proof.
  intro Hp. unfold create_and_add. destruct (loc_construct P s (rel_child r) nm props) as [Lc Pc].
  destruct (construct s (rel_child r) nm props) as [res x]. cbn [fst snd] in *. split; [|exact Pc].
  apply loc_use. intro C. apply loc_bind; [exact Lc|]. intro s1. apply loc_op_add; [exact Hp|exact (Pc C)].
Qed.

(* ---- LOCALITY of every public editing call, whatever its outcome ---- *)
Theorem step_loc s o : op_in P o -> Loc P s (fst (step s o)).
Proof.
  destruct o; cbn [op_in step]; intro H.
  - apply (proj1 (loc_construct P s k nm props)).
  - destruct H as [Hp Hr]. unfold guard. destruct (_ && _); [|apply loc_refl].
    apply loc_use. intro C. destruct (loc_create_and_add s r p nm props Hp) as [Lc Pc]. specialize (Pc C).
    destruct (create_and_add s r p nm props) as [res x]. cbn [fst snd] in *.
    apply loc_bind; [exact Lc|]. intro s1.
    destruct r; try apply loc_refl; [apply loc_create_items; exact Pc|apply loc_create_items; exact Pc|apply loc_op_set_reference; assumption].
  - unfold guard. destruct (_ && _); [apply loc_create_items; exact H|apply loc_refl].
  - apply loc_op_add; apply H.
  - apply loc_op_remove; apply H.
  - destruct H as [H1 H2]. apply loc_op_remove_from; assumption.
  - apply loc_op_reorder; exact H.
  - apply loc_op_reorder_wire; exact H.
  - apply loc_op_connect; apply H.
  - apply loc_op_disconnect; apply H.
  - destruct H as [H1 H2]. apply loc_op_disconnect_from; assumption.
  - destruct H as [H1 H2]. apply loc_op_set_reference; assumption.
  - apply loc_op_set_top; apply H.
  - unfold guard. destruct (elem_has_data s e); [apply loc_op_set_name; exact H|apply loc_refl].
  - unfold guard. destruct (elem_has_data s e); [apply loc_op_del_name; exact H|apply loc_refl].
  - unfold guard. destruct (elem_has_data s e); [apply loc_dict_set; exact H|apply loc_refl].
  - unfold guard. destruct (elem_has_data s e); [apply loc_dict_del; exact H|apply loc_refl].
  - unfold guard. destruct (elem_has_data s e); [apply loc_dict_pop; exact H|apply loc_refl].
  - unfold guard. destruct (_ || _); [apply loc_set_bdownto; exact H|apply loc_refl].
  - unfold guard. destruct (_ || _); [|apply loc_refl]. destruct (negb _); [apply loc_set_bscalar; exact H|apply loc_refl].
  - unfold guard. destruct (_ || _); [apply loc_set_blower; exact H|apply loc_refl].
  - unfold guard. destruct (is_kind _ _ _); [apply loc_set_pdir; exact H|apply loc_refl].
  - apply loc_set_policy.
Qed.
End StepLoc.
