(* get_pins: the pins yielded by the loop of Query/Enum.v are exactly those named by the declarative
   specification Query/EnumSpec.v, once each, for every kind of root and both selections
   (query_pins_spec). *)
From Coq Require Import List Arith Bool Lia Relations.
From SV Require Import Base.Base IR.State IR.NS IR.Ops Proofs.Inv1a Proofs.Inv2a Proofs.InvW Proofs.AssocX
  Hier.Paths Hier.Enum Hier.Trace Proofs.KindD Query.Filter Query.Enum Query.EnumSpec
  Proofs.QueryEnumWL Proofs.QueryEnumBase Proofs.QueryEnumView Proofs.QueryEnumPorts.
Import ListNotations.

Lemma dedup_pins_In l : forall seen x, In x (dedup_pins_acc seen l) <-> In x l /\ ~ In x seen.
Proof.
  induction l as [|y l IH]; intros seen x; cbn [dedup_pins_acc].
  - cbn. tauto.
  - destruct (pin_memb y seen) eqn:E.
    + apply pin_memb_In in E. rewrite IH. cbn. split; [tauto|]. intros [[<-|H] Hn]; [contradiction|tauto].
    + assert (Hn : ~ In y seen) by (intro H; apply pin_memb_In in H; congruence).
      cbn. rewrite IH. cbn. split.
      * intros [<-|[H Hn']]; tauto.
      * intros [[<-|H] Hn']; [left; reflexivity|].
        destruct (pin_eqb y x) eqn:Ey; [apply pin_eqb_spec in Ey; left; exact Ey|right].
        split; [exact H|]. intros [->|H']; [rewrite pin_eqb_refl in Ey; discriminate|contradiction].
Qed.
Lemma dedup_pins_NoDup l : forall seen, NoDup (dedup_pins_acc seen l).
Proof.
  induction l as [|y l IH]; intro seen; cbn [dedup_pins_acc]; [constructor|].
  destruct (pin_memb y seen); [apply IH|]. constructor; [|apply IH]. rewrite dedup_pins_In. cbn. tauto.
Qed.

Lemma plain_pins s inside x : Forall plain (acts_pins s inside x).
Proof.
  destruct x as [x|n i| |h]; cbn [acts_pins].
  - destruct (kind_of s x) as [[]|]; try apply plain_push_ids; try apply plain_push_pins; try (repeat constructor; fail).
    + apply plain_flat_map. intro l. apply plain_push_ids.
    + apply plain_flat_map. intro l. apply plain_push_ids.
    + destruct inside; [repeat constructor|]. apply Forall_forall. intros a H. apply in_map_iff in H as (y & <- & _). exact I.
    + apply Forall_forall. intros a H. apply in_map_iff in H as (y & <- & _). exact I.
  - destruct inside; repeat constructor.
  - destruct inside; repeat constructor.
  - destruct (href_item s h) as [x|]; [|constructor].
    destruct (kind_of s x) as [[]|]; try (repeat constructor; fail).
    destruct inside; [repeat constructor|]. destruct h as [|a [|b [|c h']]]; repeat constructor.
Qed.

Section Pins.
Variable s : state.
Hypothesis W : QWF s.
Variable inside : bool.
Notation A := (acts_pins s inside).
Notation Em := (Emits A).

Lemma outer_opin n i : In n (outer_of s i) <-> opin_of s n i.
Proof.
  unfold outer_of, opin_of. destruct (par s RPins i) as [p|].
  - destruct (par s RPorts p) as [d|] eqn:Ed.
    + rewrite (drefs_iref s W). split; [intro H; exists d, p; auto|].
      intros (d' & p' & H1 & H2 & H3). injection H3 as <-. rewrite Ed in H2. injection H2 as <-. exact H1.
    + split; [intros []|]. intros (d' & p' & _ & H2 & H3). injection H3 as <-. congruence.
  - split; [intros []|]. intros (d' & p' & _ & _ & H3). discriminate.
Qed.

(* what one pin object yields *)
Lemma pin_yield q r : (forall i, q = PIn i -> kind_of s i = Some KPin) ->
  (Em (item_of_pin q) r <-> pin_side s inside q r).
Proof.
  intro Hq. unfold pin_side. destruct q as [i|n i|]; cbn [item_of_pin].
  - specialize (Hq i eq_refl).
    rewrite (emits_leaf A (IE i) r) by (unfold succs; cbn [acts_pins]; rewrite Hq; destruct inside; cbn; [reflexivity|];
      induction (outer_of s i); cbn; auto).
    unfold emits. cbn [acts_pins]. rewrite Hq. destruct inside; cbn.
    + split; [intros [<-|[]]; exists i; auto|intros (j & E & ->); injection E as <-; left; reflexivity].
    + rewrite in_flat_map. split.
      * intros (a & Ha & Hr). apply in_map_iff in Ha as (n & <- & Hn). cbn in Hr. destruct Hr as [<-|[]].
        exists n. split; [apply outer_opin; exact Hn|reflexivity].
      * intros (n & Hn & ->). exists (AOut (POut n i)). split; [apply in_map_iff; exists n; split; [reflexivity|apply outer_opin; exact Hn]|left; reflexivity].
  - rewrite (emits_leaf A (IO n i) r) by (unfold succs; cbn [acts_pins]; destruct inside; reflexivity).
    unfold emits. cbn [acts_pins]. destruct inside; cbn.
    + split; [intros [<-|[]]; exists i; auto|intros (j & E & ->); injection E as <-; left; reflexivity].
    + split; [intros [<-|[]]; reflexivity|intros ->; left; reflexivity].
  - rewrite (emits_leaf A IDet r) by (unfold succs; cbn [acts_pins]; destruct inside; reflexivity).
    unfold emits. cbn [acts_pins]. destruct inside; cbn.
    + split; [intros []|intros (j & E & _); discriminate].
    + split; [intros [<-|[]]; reflexivity|intros ->; left; reflexivity].
Qed.

Definition yields (x : id) (r : pin) : Prop := exists q, pins_elem s x q /\ pin_side s inside q r.

(* an element that only appends a list of items *)
Lemma through_list x (ys : list item) r :
  emits A (IE x) = [] -> succs A (IE x) = ys -> (Em (IE x) r <-> exists y, In y ys /\ Em y r).
Proof. intros E1 E2. rewrite (emits_through A _ _ E1), E2. tauto. Qed.

Ltac pview Hk := unfold emits, succs; cbn [acts_pins]; rewrite Hk;
  rewrite ?emit_push_ids, ?succ_push_ids, ?emit_push_pins, ?succ_push_pins; try reflexivity.

Lemma y_pin x r : kind_of s x = Some KPin -> (Em (IE x) r <-> yields x r).
Proof.
  intro Hk. rewrite (pin_yield (PIn x) r) by (intros i E; injection E as <-; exact Hk).
  unfold yields, pins_elem. rewrite Hk. split; [intro H; exists (PIn x); auto|intros (q & -> & H); exact H].
Qed.

Lemma y_port x r : kind_of s x = Some KPort -> (Em (IE x) r <-> yields x r).
Proof.
  intro Hk. rewrite (through_list x (map IE (kids s RPins x)) r) by pview Hk.
  unfold yields, pins_elem. rewrite Hk. split.
  - intros (y & Hy & H). apply in_map_iff in Hy as (i & <- & Hi).
    apply (pin_yield (PIn i) r) in H; [|intros j E; injection E as <-; apply (kid_kind s W _ _ _ Hi)].
    exists (PIn i). split; [exists i; split; [apply (kids_par s W); exact Hi|reflexivity]|exact H].
  - intros (q & (i & Hi & ->) & H). apply (kids_par s W) in Hi. exists (IE i). split; [apply in_map; exact Hi|].
    apply (pin_yield (PIn i) r); [intros j E; injection E as <-; apply (kid_kind s W _ _ _ Hi)|exact H].
Qed.

Lemma y_def x r : kind_of s x = Some KDefinition ->
  (Em (IE x) r <-> exists p i, par s RPorts p = Some x /\ par s RPins i = Some p /\ pin_side s inside (PIn i) r).
Proof.
  intro Hk. rewrite (through_list x (map IE (flat_map (fun p => kids s RPins p) (kids s RPorts x))) r).
  - split.
    + intros (y & Hy & H). apply in_map_iff in Hy as (i & <- & Hi). apply in_flat_map in Hi as (p & Hp & Hi).
      apply (pin_yield (PIn i) r) in H; [|intros j E; injection E as <-; apply (kid_kind s W _ _ _ Hi)].
      exists p, i. split; [apply (kids_par s W); exact Hp|split; [apply (kids_par s W); exact Hi|exact H]].
    + intros (p & i & Hp & Hi & H). apply (kids_par s W) in Hp, Hi. exists (IE i). split; [apply in_map, in_flat_map; exists p; auto|].
      apply (pin_yield (PIn i) r); [intros j E; injection E as <-; apply (kid_kind s W _ _ _ Hi)|exact H].
  - unfold emits. cbn [acts_pins]. rewrite Hk. rewrite flat_map_flat_map. apply flat_map_nil. intros p _. apply emit_push_ids.
  - unfold succs. cbn [acts_pins]. rewrite Hk. rewrite flat_map_flat_map.
    induction (kids s RPorts x) as [|p ps IH]; cbn; [reflexivity|]. rewrite map_app, succ_push_ids, IH. reflexivity.
Qed.

Lemma y_scope x r :
  kind_of s x = Some KDefinition \/ kind_of s x = Some KLibrary \/ kind_of s x = Some KNetlist ->
  (Em (IE x) r <-> exists d p i, scope_defs s x d /\ par s RPorts p = Some d /\ par s RPins i = Some p /\ pin_side s inside (PIn i) r).
Proof.
  intro Hk. rewrite (scope_through s W A).
  - split.
    + intros (d & Hd & H). apply (y_def d r (scope_kind s W x d Hd)) in H as (p & i & H). exists d, p, i. tauto.
    + intros (d & p & i & Hd & H). exists d. split; [exact Hd|]. apply (y_def d r (scope_kind s W x d Hd)). exists p, i. exact H.
  - intros l Hl. split; [pview Hl|pview Hl].
  - intros n Hn. destruct (net_defs_shape (T := pin) s n) as [E1 E2]. split; [pview Hn; exact E2|pview Hn; exact E1].
  - exact Hk.
Qed.

Lemma y_inst x r : kind_of s x = Some KInstance -> (Em (IE x) r <-> yields x r).
Proof.
  intro Hk. rewrite (through_list x (opins s x) r).
  - unfold yields, pins_elem. rewrite Hk. unfold opins. split.
    + intros (y & Hy & H). apply in_map_iff in Hy as ([i v] & <- & Hi). cbn [fst] in H.
      apply (pin_yield (POut x i) r) in H; [|intros j E; discriminate].
      exists (POut x i). split; [|exact H]. exists i. split; [|reflexivity].
      apply (k_keys _ (inv_k _ (q_inv _ W))). unfold keys. apply in_map_iff. exists (i, v). auto.
    + intros (q & (i & Hi & ->) & H). apply (k_keys _ (inv_k _ (q_inv _ W))) in Hi. unfold keys in Hi.
      apply in_map_iff in Hi as ([i' v] & E & Hi). cbn in E. subst i'. exists (IO x i).
      split; [apply in_map_iff; exists (i, v); auto|]. apply (pin_yield (POut x i) r); [intros j E; discriminate|exact H].
  - unfold emits. cbn [acts_pins]. rewrite Hk. induction (opins s x); cbn; auto.
  - unfold succs. cbn [acts_pins]. rewrite Hk. induction (opins s x) as [|a l IH]; cbn; [reflexivity|f_equal; exact IH].
Qed.

Lemma y_wire x r : kind_of s x = Some KWire -> (Em (IE x) r <-> yields x r).
Proof.
  intro Hk. rewrite (through_list x (map item_of_pin (wpins s x)) r) by pview Hk.
  unfold yields, pins_elem. rewrite Hk. split.
  - intros (y & Hy & H). apply in_map_iff in Hy as (q & <- & Hq). apply (wpins_pin_wire s W) in Hq.
    exists q. split; [exact Hq|]. apply pin_yield; [|exact H]. intros i ->.
    destruct (on_wire_kind s W x _ Hq) as (j & E & Hj). injection E as <-. exact Hj.
  - intros (q & Hq & H). exists (item_of_pin q). split; [apply in_map, (wpins_pin_wire s W); exact Hq|].
    apply pin_yield; [|exact H]. intros i ->. destruct (on_wire_kind s W x _ Hq) as (j & E & Hj). injection E as <-. exact Hj.
Qed.

Lemma y_cable x r : kind_of s x = Some KCable -> (Em (IE x) r <-> yields x r).
Proof.
  intro Hk. rewrite (through_list x (map IE (kids s RWires x)) r) by pview Hk.
  unfold yields at 1, pins_elem. rewrite Hk. split.
  - intros (y & Hy & H). apply in_map_iff in Hy as (w & <- & Hw).
    apply (y_wire w r (kid_kind s W _ _ _ Hw)) in H as (q & Hq & H). unfold pins_elem in Hq. rewrite (kid_kind s W _ _ _ Hw) in Hq. cbn in Hq.
    exists q. split; [exists w; split; [apply (kids_par s W); exact Hw|exact Hq]|exact H].
  - intros (q & (w & Hw & Hq) & H). apply (kids_par s W) in Hw. exists (IE w). split; [apply in_map; exact Hw|].
    apply (y_wire w r (kid_kind s W _ _ _ Hw)). exists q. split; [|exact H]. unfold pins_elem. rewrite (kid_kind s W _ _ _ Hw). exact Hq.
Qed.

Lemma y_elem x r : Em (IE x) r <-> yields x r.
Proof.
  destruct (kind_of s x) as [[]|] eqn:Hk.
  1-3: rewrite y_scope by tauto; unfold yields, pins_elem; rewrite Hk; split;
    [ intros (d & p & i & Hd & Hp & Hi & H); exists (PIn i); split; [exists d, p, i; auto|exact H]
    | intros (q & (d & p & i & Hd & Hp & Hi & ->) & H); exists d, p, i; auto ].
  - apply y_port, Hk.
  - apply y_cable, Hk.
  - apply y_wire, Hk.
  - apply y_pin, Hk.
  - apply y_inst, Hk.
  - unfold yields, pins_elem. rewrite Hk. split; [|intros (q & [] & _)]. intro H. apply emits_iff in H.
    unfold emits, succs in H. cbn [acts_pins] in H. rewrite Hk in H. destruct H as [[]|(y & [] & _)].
Qed.

(* a valid reference to an inner pin has a port and an instance above it *)
Lemma valid_pin_shape x rest : is_valid s (x :: rest) = true -> kind_of s x = Some KPin ->
  exists p n rest', rest = p :: n :: rest'.
Proof.
  intros Hv Hk. cbn [is_valid] in Hv. rewrite Hk in Hv. destruct rest as [|p rest]; [discriminate|].
  destruct (par s RPins x) as [q|] eqn:Eq; [|discriminate]. apply andb_true_iff in Hv as [Hpq Hv].
  apply Nat.eqb_eq in Hpq. subst q. pose proof (par_parent_kind s W _ _ _ Eq) as Hp. cbn [rel_parent] in Hp.
  cbn [is_valid] in Hv. rewrite Hp in Hv. destruct rest as [|n rest]; [discriminate Hv|]. exists p, n, rest. reflexivity.
Qed.

Lemma y_root it r : Em it r <-> reach_pins s inside it r.
Proof.
  unfold reach_pins. destruct it as [x|n i| |h]; cbn [pins_item].
  - apply y_elem.
  - rewrite (pin_yield (POut n i) r) by (intros j E; discriminate). split; [intro H; exists (POut n i); auto|intros (q & -> & H); exact H].
  - rewrite (pin_yield PDet r) by (intros j E; discriminate). split; [intro H; exists PDet; auto|intros (q & -> & H); exact H].
  - destruct (href_item s h) as [x|] eqn:Ex.
    + pose proof Ex as Ex'. apply (href_item_iff s W) in Ex'.
      assert (Hu : forall x', href_to s h x' -> x' = x).
      { intros x' [_ E']. destruct Ex' as [_ E]. congruence. }
      assert (Hpush : acts_pins s inside (IH h) = [APush (IE x)] -> (Em (IH h) r <-> Em (IE x) r)).
      { intro E. rewrite (emits_through A (IH h) r) by (unfold emits; rewrite E; reflexivity). unfold succs. rewrite E. cbn.
        split; [intros (y & [<-|[]] & H); exact H|intro H; exists (IE x); split; [left; reflexivity|exact H]]. }
      unfold kind_is. destruct (kind_of s x) as [k|] eqn:Hk.
      * destruct (kind_eqb k KPin) eqn:Ek.
        -- assert (k = KPin) by (destruct k; cbn in Ek; congruence). subst k.
           destruct h as [|x0 rest]; [destruct Ex' as [_ E]; discriminate|].
           assert (x0 = x) by (destruct Ex' as [_ E]; injection E as ->; reflexivity). subst x0.
           unfold href_item in Ex. destruct (is_valid s (x :: rest)) eqn:Ev; [|discriminate].
           destruct (valid_pin_shape x rest Ev Hk) as (p & n & rest' & ->).
           destruct (bool_cases inside) as [Hi|Hi].
           ++ rewrite Hpush by (cbn [acts_pins]; unfold href_item; rewrite Ev; cbn [hd_error]; rewrite Hk, Hi; reflexivity).
              rewrite (y_pin x r Hk). unfold yields, pins_elem. rewrite Hk. unfold pin_side. rewrite Hi. split.
              ** intros (q & -> & (j & E & ->)). cbn in E. injection E as <-. exists (POut n x).
                 split; [exists x; split; [exact Ex'|]; rewrite Hk; cbn; exists p, n, rest'; auto|exists x; auto].
              ** intros (q & (x' & Hx' & H) & (j & E & ->)). rewrite (Hu x' Hx'), Hk in H. cbn in H.
                 destruct H as (p' & n' & r' & E' & ->). cbn in E. injection E as <-. exists (PIn x). split; [reflexivity|exists x; auto].
           ++ rewrite (emits_leaf A (IH (x :: p :: n :: rest')) r) by
                (unfold succs; cbn [acts_pins]; unfold href_item; rewrite Ev; cbn [hd_error]; rewrite Hk, Hi; reflexivity).
              unfold emits. cbn [acts_pins]. unfold href_item. rewrite Ev. cbn [hd_error]. rewrite Hk, Hi. cbn.
              unfold pin_side. try rewrite Hi. cbn iota. split.
              ** intros [<-|[]]. exists (POut n x). split; [|reflexivity]. exists x. split; [exact Ex'|]. rewrite Hk. cbn. exists p, n, rest'. auto.
              ** intros (q & (x' & Hx' & H) & Hr). rewrite (Hu x' Hx'), Hk in H. cbn in H.
                 destruct H as (p' & n' & r' & E' & ->). injection E' as <- <- <-. left. symmetry. exact Hr.
        -- rewrite Hpush.
           ++ rewrite y_elem. unfold yields. split.
              ** intros (q & Hq & H). exists q. split; [exists x; split; [exact Ex'|]; rewrite Hk, Ek; exact Hq|exact H].
              ** intros (q & (x' & Hx' & Hq) & H). rewrite (Hu x' Hx'), Hk, Ek in Hq. exists q. auto.
           ++ cbn [acts_pins]. rewrite Ex, Hk. destruct k; cbn in Ek; try discriminate; reflexivity.
      * destruct (href_item_kind s W h x Ex') as [E|[E|[E|[E|E]]]]; congruence.
    + rewrite emits_iff. unfold emits, succs. cbn [acts_pins]. rewrite Ex. cbn.
      split; [intros [[]|(y & [] & _)]|]. intros (q & (x & Hx & _) & _). apply (href_item_iff s W) in Hx. congruence.
Qed.

(* the whole function: every pin the root leads to, once, the callback applied on top *)
Theorem query_pins_spec cb fuel it res :
  query_pins s cb fuel [it] inside = WOk res ->
  NoDup res /\ forall r, In r res <-> reach_pins s inside it r /\ cb r = true.
Proof.
  unfold query_pins. intro H.
  destruct (wl_run A (bad_pins s inside) fuel [it]) as [l| |] eqn:E; try discriminate H. cbn in H. injection H as <-.
  pose proof (run_one A _ fuel it l (plain_pins s inside) E) as Hem. split.
  - apply NoDup_filter, dedup_pins_NoDup.
  - intro r. rewrite filter_In, dedup_pins_In, Hem, y_root. cbn. tauto.
Qed.
End Pins.
