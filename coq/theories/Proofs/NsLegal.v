(* C10, legal form: an element whose own naming policy is EDIF never stores an illegal
   EDIF identifier - after any history. *)
From Coq Require Import List Arith Bool Setoid Lia.
From RecordUpdate Require Import RecordSet.
From SV Require Import Base.Base IR.State IR.NS IR.Ops Proofs.AssocX Proofs.Frame Proofs.Inv1a Proofs.Inv2a
  Proofs.InvP Proofs.InvW Proofs.Refused Proofs.Fresh Proofs.RefusedFull Proofs.NsSlot Proofs.Ident Proofs.NsInv.
Import ListNotations RecordSetNotations.

Definition LegalInv (s : state) : Prop :=
  forall e v, elem_pol s e = Some PolEdif -> get_str s e str_IDENT = Some v -> check_edif_identifier v = true.

(* a state whose EDIF elements were EDIF elements with the same identifier before *)
Lemma legal_mono s s' :
  (forall e, elem_pol s' e = Some PolEdif -> elem_pol s e = Some PolEdif /\ get_str s' e str_IDENT = get_str s e str_IDENT) ->
  LegalInv s -> LegalInv s'.
Proof. intros H L e v Hp Hv. destruct (H e Hp) as [A B]. rewrite B in Hv. apply (L e v A Hv). Qed.

Lemma legal_data s s' : data s' = data s -> LegalInv s -> LegalInv s'.
Proof. intros Hd. apply legal_mono. intros e Hp. unfold elem_pol, get_str in *. rewrite Hd in *. auto. Qed.

Lemma elem_pol_write_other s e k v c : str_eqb str_NS k = false -> elem_pol (data_write s e k v) c = elem_pol s c.
Proof.
  intro Hk. unfold elem_pol, data_write. cbn. unfold upd. destruct (Nat.eqb c e) eqn:E; [|reflexivity].
  apply Nat.eqb_eq in E. subst. rewrite sassoc_set_other; [reflexivity|]. intro; subst. rewrite str_eqb_refl in Hk. discriminate.
Qed.

Lemma elem_pol_erase_other s e k c : str_eqb str_NS k = false -> elem_pol (data_erase s e k) c = elem_pol s c.
Proof.
  intro Hk. unfold elem_pol, data_erase. cbn. unfold upd. destruct (Nat.eqb c e) eqn:E; [|reflexivity].
  apply Nat.eqb_eq in E. subst. rewrite sassoc_del_other; [reflexivity|]. intro; subst. rewrite str_eqb_refl in Hk. discriminate.
Qed.

(* erasing the policy key can only shrink the set of EDIF elements *)
Lemma legal_erase_ns s e : LegalInv s -> LegalInv (data_erase s e str_NS).
Proof.
  apply legal_mono. intros c Hp. unfold elem_pol, data_erase in Hp. cbn in Hp. unfold upd in Hp.
  split.
  - destruct (Nat.eqb c e) eqn:E; [apply Nat.eqb_eq in E; subst c; rewrite sassoc_del_same in Hp; discriminate|exact Hp].
  - rewrite get_str_erase, ident_ne_ns, andb_false_r. reflexivity.
Qed.

Lemma legal_fields s s' : (forall c, data s' c = data s c) -> LegalInv s -> LegalInv s'.
Proof. intro H. apply legal_mono. intros e Hp. unfold elem_pol, get_str in *. rewrite H in *. auto. Qed.

Lemma legal_drop_namespace s e : LegalInv s -> LegalInv (drop_namespace s e).
Proof.
  unfold drop_namespace. generalize (subtree s e) as xs. intro xs. revert s.
  induction xs as [|x xs IH]; intros s L; cbn [fold_left]; [exact L|]. apply IH.
  destruct (_ && _); [|apply (legal_fields s); [reflexivity|exact L]].
  apply legal_erase_ns. apply (legal_fields s); [reflexivity|exact L].
Qed.

(* is_compliant checks the identifier of every element of the subtree *)
Lemma def_valid pl s d : def_compliant pl s d = true -> forall y, In y (def_subtree s d) -> elem_valid pl s y = true.
Proof.
  intros Hc y Hy. unfold def_compliant in Hc.
  apply andb_true_iff in Hc as [Hc Hall]. apply andb_true_iff in Hc as [Hc _]. apply andb_true_iff in Hc as [Hc _].
  apply andb_true_iff in Hc as [Hd _]. rewrite forallb_forall in Hall.
  unfold def_subtree in Hy. destruct Hy as [<-|Hy]; [exact Hd|apply Hall; exact Hy].
Qed.

Lemma lib_valid pl s l : lib_compliant pl s l = true -> forall y, In y (lib_subtree s l) -> elem_valid pl s y = true.
Proof.
  intros Hc y Hy. unfold lib_compliant in Hc. apply andb_true_iff in Hc as [Hc Hall]. apply andb_true_iff in Hc as [Hl _].
  rewrite forallb_forall in Hall. unfold lib_subtree in Hy. destruct Hy as [<-|Hy]; [exact Hl|].
  apply in_flat_map in Hy as [d [Hd Hy]]. apply (def_valid pl s d (Hall d Hd) y Hy).
Qed.

Lemma net_valid pl s n : net_compliant pl s n = true -> forall y, In y (net_subtree s n) -> elem_valid pl s y = true.
Proof.
  intros Hc y Hy. unfold net_compliant in Hc. apply andb_true_iff in Hc as [Hc Hall]. apply andb_true_iff in Hc as [Hn _].
  rewrite forallb_forall in Hall. unfold net_subtree in Hy. destruct Hy as [<-|Hy]; [exact Hn|].
  apply in_flat_map in Hy as [l [Hl Hy]]. apply (lib_valid pl s l (Hall l Hl) y Hy).
Qed.

Lemma compliant_valid pl s e : is_compliant pl s e = true -> forall y, In y (subtree s e) -> elem_valid pl s y = true.
Proof.
  intros Hc y Hy. unfold is_compliant in Hc. unfold subtree in Hy.
  destruct (kind_of s e) as [[]|]; try (destruct Hy as [<-|[]]; exact Hc).
  - apply (net_valid pl s e Hc y Hy).
  - apply (lib_valid pl s e Hc y Hy).
  - apply (def_valid pl s e Hc y Hy).
Qed.

(* apply_namespace: elements of the subtree get the new policy, the others keep their data *)
Lemma apply_fold_pol pl s0 : forall xs s, gsame s0 s ->
  (forall y, ~ In y xs -> data (fold_left (apply_step pl) xs s) y = data s y) /\
  (forall y, In y xs -> elem_pol (fold_left (apply_step pl) xs s) y = Some pl) /\
  gsame s0 (fold_left (apply_step pl) xs s).
Proof.
  induction xs as [|x xs IH]; intros s G; cbn [fold_left]; [split; [reflexivity|split; [intros y []|exact G]]|].
  set (s1 := data_write (emit s (EDictSet x str_NS (VStr (pol_name pl)))) x str_NS (VStr (pol_name pl))).
  assert (G1 : gsame s0 s1).
  { intro c. destruct (gsame_write_ns s x (VStr (pol_name pl)) c) as [A B]. destruct (G c) as [A' B']. unfold s1. split; congruence. }
  assert (Hs2 : data (apply_step pl s x) = data s1) by (unfold apply_step; fold s1; destruct (fresh_table pl s1 x); reflexivity).
  assert (G2 : gsame s0 (apply_step pl s x)) by (intro c; unfold get_str; rewrite Hs2; apply G1).
  destruct (IH (apply_step pl s x) G2) as [A [B C]]. split; [|split; [|exact C]].
  - intros y Hy. rewrite A by (intro H; apply Hy; right; exact H). rewrite Hs2. unfold s1, data_write. cbn. unfold upd.
    destruct (Nat.eqb_spec y x) as [->|]; [exfalso; apply Hy; left; reflexivity|reflexivity].
  - intros y [<-|Hy].
    + destruct (in_dec Nat.eq_dec x xs) as [Hin|Hnin]; [apply B; exact Hin|].
      unfold elem_pol. rewrite (A x Hnin), Hs2. unfold s1, data_write. cbn. rewrite upd_same, sassoc_set_same. apply pol_of_val_name.
    + apply B. exact Hy.
Qed.

Lemma legal_apply_namespace pl s e :
  LegalInv s -> is_compliant pl s e = true -> LegalInv (apply_namespace pl s e).
Proof.
  intros L Hc. unfold apply_namespace. change (fold_left _ (subtree s e) s) with (fold_left (apply_step pl) (subtree s e) s).
  destruct (apply_fold_pol pl s (subtree s e) s) as [A [B G]]; [intro c; split; reflexivity|].
  intros y v Hp Hv. destruct (G y) as [_ Gi]. rewrite Gi in Hv.
  destruct (in_dec Nat.eq_dec y (subtree s e)) as [Hin|Hnin].
  - rewrite (B y Hin) in Hp. injection Hp as ->. pose proof (compliant_valid PolEdif s e Hc y Hin) as Hval.
    unfold elem_valid in Hval. rewrite Hv in Hval. exact Hval.
  - unfold elem_pol in Hp. rewrite (A y Hnin) in Hp. apply (L y v Hp Hv).
Qed.

Lemma val_eqb_eq a b : val_eqb a b = true -> a = b.
Proof.
  destruct a, b; cbn; try discriminate; intro H.
  - apply str_eqb_spec in H. congruence.
  - apply ZArith.BinInt.Z.eqb_eq in H. congruence.
  - apply Bool.eqb_prop in H. congruence.
  - reflexivity.
Qed.

(* the data-dictionary calls *)
Lemma legal_dict_set s e k v : LegalInv s -> LegalInv (fst (dict_set s e k v)).
Proof.
  intro L. unfold dict_set.
  destruct (ns_dictionary_set s e k v) as [s1 [x|]] eqn:E; cbn [bindR fst ret].
  - pose proof (ns_dictionary_set_refused s e k v) as Hr. rewrite E in Hr. cbn in Hr. rewrite Hr by discriminate. exact L.
  - unfold ns_dictionary_set in E. destruct (str_eqb k str_NS) eqn:Ens.
    + apply str_eqb_spec in Ens. subst k.
      destruct (match sassoc str_NS (data s e) with Some v0 => val_eqb v0 v | None => false end) eqn:Esame.
      * (* same value written again *)
        injection E as <-. destruct (sassoc str_NS (data s e)) as [v0|] eqn:E0; [|discriminate].
        assert (v0 = v) by (apply val_eqb_eq; exact Esame). subst v0.
        apply (legal_mono s); [|exact L]. intros c Hp. split.
        -- unfold elem_pol, data_write in Hp. cbn in Hp. unfold upd in Hp. destruct (Nat.eqb c e) eqn:Ece; [apply Nat.eqb_eq in Ece; subst c|exact Hp].
           rewrite sassoc_set_same in Hp. unfold elem_pol. rewrite E0. exact Hp.
        -- rewrite get_str_write, ident_ne_ns, andb_false_r. reflexivity.
      * destruct (ns_parent s e); [discriminate|]. destruct (pol_of_val v) as [pl|] eqn:Epv; [|discriminate].
        destruct (is_compliant pl s e) eqn:Hc; [|discriminate]. injection E as <-.
        pose proof (legal_apply_namespace pl s e L Hc) as L1.
        apply (legal_mono (apply_namespace pl s e)); [|exact L1]. intros c Hp. split.
        -- unfold elem_pol, data_write in Hp. cbn in Hp. unfold upd in Hp. destruct (Nat.eqb c e) eqn:Ece; [apply Nat.eqb_eq in Ece; subst c|exact Hp].
           rewrite sassoc_set_same in Hp. rewrite Epv in Hp. injection Hp as ->.
           destruct (apply_fold_pol PolEdif s (subtree s e) s) as [_ [B _]]; [intro c0; split; reflexivity|].
           apply B. apply subtree_head.
        -- rewrite get_str_write, ident_ne_ns, andb_false_r. reflexivity.
    + destruct (is_name_key k) eqn:Hk.
      * destruct v as [name| | |]; try discriminate.
        destruct (negb (match elem_pol s e with Some p => is_name_valid p k name | None => true end)) eqn:Hok; [discriminate|].
        apply negb_false_iff in Hok.
        assert (Hd1 : data s1 = data s).
        { destruct (ns_parent s e); [|injection E as <-; reflexivity]. destruct (kind_of s e); [|injection E as <-; reflexivity].
          destruct (nstab s _); [|injection E as <-; reflexivity]. destruct (ns_no_conflict _ _ _ _ _); [injection E as <-; reflexivity|discriminate]. }
        assert (Hns : str_eqb str_NS k = false).
        { destruct (is_name_key_cases k Hk) as [-> | ->]; reflexivity. }
        intros c w Hp Hw. rewrite elem_pol_write_other in Hp by exact Hns.
        assert (Hp' : elem_pol s c = Some PolEdif) by (unfold elem_pol in *; cbn in Hp; rewrite Hd1 in Hp; exact Hp).
        rewrite get_str_write in Hw. destruct (Nat.eqb_spec c e) as [->|Hne]; cbn [andb] in Hw.
        -- destruct (str_eqb str_IDENT k) eqn:Ek.
           ++ apply str_eqb_spec in Ek. subst k. injection Hw as <-. rewrite Hp' in Hok. unfold is_name_valid in Hok. rewrite str_eqb_refl in Hok. exact Hok.
           ++ apply (L e w Hp'). unfold get_str in *. cbn in Hw. rewrite Hd1 in Hw. exact Hw.
        -- apply (L c w Hp'). unfold get_str in *. cbn in Hw. rewrite Hd1 in Hw. exact Hw.
      * injection E as <-. assert (Hns : str_eqb str_NS k = false) by (destruct (str_eqb str_NS k) eqn:E1; [apply str_eqb_spec in E1; subst; rewrite str_eqb_refl in Ens; discriminate|reflexivity]).
        apply (legal_mono s); [|exact L]. intros c Hp. rewrite elem_pol_write_other in Hp by exact Hns. split; [exact Hp|].
        unfold is_name_key in Hk. apply orb_false_iff in Hk as [_ Hk2]. rewrite get_str_write.
        assert (E2 : str_eqb str_IDENT k = false) by (destruct (str_eqb str_IDENT k) eqn:E1; [apply str_eqb_spec in E1; subst; rewrite str_eqb_refl in Hk2; discriminate|reflexivity]).
        rewrite E2, andb_false_r. reflexivity.
Qed.

Lemma legal_erase_other s e k : str_eqb str_NS k = false -> LegalInv s -> LegalInv (data_erase s e k).
Proof.
  intros Hk L c v Hp Hv. rewrite elem_pol_erase_other in Hp by exact Hk.
  rewrite get_str_erase in Hv. destruct (Nat.eqb c e && str_eqb str_IDENT k); [discriminate|]. apply (L c v Hp Hv).
Qed.

Section DelPopLegal.
  Variable mk : id -> str -> event.
  Let del (s : state) (e : id) (k : str) : R :=
    ns_dictionary_delete s e k >>= fun s1 =>
    let s2 := emit s1 (mk e k) in
    if has_key s2 e k then ret (data_erase s2 e k) else raise s2 XKey.

  Lemma legal_del s e k : LegalInv s -> LegalInv (fst (del s e k)).
  Proof.
    intro L. unfold del, ns_dictionary_delete.
    destruct (str_eqb k str_NS) eqn:Ens.
    - apply str_eqb_spec in Ens. subst k. destruct (ns_parent s e); [exact L|].
      assert (L1 : LegalInv (if has_key s e str_NS then drop_namespace s e else s)) by (destruct (has_key s e str_NS); [apply legal_drop_namespace; exact L|exact L]).
      destruct (has_key s e str_NS); cbn [bindR ret];
        (match goal with |- context [if ?b then _ else _] => destruct b end; cbn [fst ret raise];
         [apply legal_erase_ns; apply (legal_fields _ _ (fun c => eq_refl)); exact L1|apply (legal_fields _ _ (fun c => eq_refl)); exact L1]).
    - assert (Hns : str_eqb str_NS k = false) by (destruct (str_eqb str_NS k) eqn:E1; [apply str_eqb_spec in E1; subst; rewrite str_eqb_refl in Ens; discriminate|reflexivity]).
      assert (L1 : LegalInv (if is_name_key k then ns_remove_key s e k else s)).
      { destruct (is_name_key k); [|exact L]. apply (legal_data s); [|exact L].
        unfold ns_remove_key. destruct (ns_parent s e); [|reflexivity]. destruct (kind_of s e); [|reflexivity]. destruct (nstab s _); reflexivity. }
      destruct (is_name_key k); cbn [bindR ret];
        (match goal with |- context [if ?b then _ else _] => destruct b end; cbn [fst ret raise];
         [apply legal_erase_other; [exact Hns|apply (legal_fields _ _ (fun c => eq_refl)); exact L1]|apply (legal_fields _ _ (fun c => eq_refl)); exact L1]).
  Qed.
End DelPopLegal.

Lemma legal_dict_del s e k : LegalInv s -> LegalInv (fst (dict_del s e k)).
Proof. exact (legal_del EDictDel s e k). Qed.
Lemma legal_dict_pop s e k : LegalInv s -> LegalInv (fst (dict_pop s e k)).
Proof. exact (legal_del EDictPop s e k). Qed.

Lemma legal_set_props e props : forall s, LegalInv s -> LegalInv (fst (set_props s e props)).
Proof.
  induction props as [|[k v] ps IH]; intros s L; cbn [set_props]; [exact L|].
  pose proof (legal_dict_set s e k v L) as L1. destruct (dict_set s e k v) as [s1 [x|]]; cbn [bindR fst] in *; [exact L1|apply IH; exact L1].
Qed.

Lemma legal_construct s k nm props : LegalInv s -> LegalInv (fst (fst (construct s k nm props))).
Proof.
  intro L. unfold construct, alloc. cbn zeta beta iota.
  set (s0 := s <| next := S (next s) |> <| kind_of ::= fun f => upd f (next s) (Some k) |>).
  assert (L0 : LegalInv s0) by (apply (legal_data s); [reflexivity|exact L]).
  destruct (has_data k); cbn [fst]; [|exact L0]. unfold ns_create.
  pose proof (legal_dict_set s0 (next s) str_NS (VStr (pol_name (policy s0))) L0) as L1.
  destruct (dict_set s0 (next s) str_NS (VStr (pol_name (policy s0)))) as [s1 [x|]]; cbn [bindR fst] in *; [exact L1|].
  assert (L2 : LegalInv (emit s1 (ECreate k (next s)))) by (apply (legal_data s1); [reflexivity|exact L1]).
  match goal with |- LegalInv (fst (?m >>= _)) => assert (L3 : LegalInv (fst m)); [|destruct m as [s3 [x|]]; cbn [bindR fst] in *; [exact L3|apply legal_set_props; exact L3]] end.
  destruct nm; [apply legal_dict_set; exact L2|exact L2].
Qed.

Lemma legal_ns_add s p c ck : LegalInv s -> LegalInv (fst (ns_add s p c ck)).
Proof.
  intro L. unfold ns_add. destruct (match nstab s p with Some _ => _ | None => false end); [exact L|].
  match goal with |- LegalInv (fst (?m >>= _)) => assert (L1 : LegalInv (fst m)) end.
  { destruct (sassoc str_NS (data s p)).
    - destruct (match sassoc str_NS (data s c) with Some _ => _ | None => _ end); [exact L|apply legal_dict_set; exact L].
    - destruct (has_key s c str_NS); [apply legal_dict_del; exact L|exact L]. }
  match goal with |- LegalInv (fst (?m >>= _)) => destruct m as [s1 [x|]] end; cbn [bindR fst] in *; [exact L1|].
  destruct (nstab s1 p); cbn [fst ret]; [apply (legal_data s1); [reflexivity|exact L1]|exact L1].
Qed.

Lemma legal_op_add s r p c pos : LegalInv s -> LegalInv (fst (op_add s r p c pos)).
Proof.
  intro L. unfold op_add, guard. destruct (_ && _); [|exact L]. destruct (add_guard1 s r p c); [|exact L].
  destruct (par s r c); [exact L|].
  set (res := if ns_rel r then ns_add s p c (rel_child r) else ret s).
  assert (L1 : LegalInv (fst res)) by (unfold res; destruct (ns_rel r); [apply legal_ns_add; exact L|exact L]).
  destruct res as [s1 [x|]]; cbn [bindR fst ret] in *; [exact L1|].
  apply (legal_data s1); [|exact L1]. rewrite (ds_add_post _ r p c). reflexivity.
Qed.

Lemma legal_dsame s s' : dsame s s' -> LegalInv s -> LegalInv s'.
Proof. intro H. apply legal_data. exact H. Qed.

Lemma legal_create_items r p : forall n s, LegalInv s -> LegalInv (fst (create_items s r p n)).
Proof.
  induction n as [|n IH]; intros s L; cbn [create_items]; [exact L|]. unfold alloc. cbn zeta.
  set (s0 := s <| next := S (next s) |> <| kind_of ::= fun f => upd f (next s) (Some (rel_child r)) |>).
  assert (L0 : LegalInv s0) by (apply (legal_data s); [reflexivity|exact L]).
  pose proof (legal_op_add s0 r p (next s) None L0) as L1.
  destruct (op_add s0 r p (next s) None) as [s1 [x|]]; cbn [bindR fst] in *; [exact L1|apply IH; exact L1].
Qed.

Theorem step_legal s o : LegalInv s -> LegalInv (fst (step s o)).
Proof.
  intro L. destruct o; cbn [step].
  - apply legal_construct; exact L.
  - unfold guard. destruct (_ && _); [|exact L]. unfold create_and_add.
    pose proof (legal_construct s (rel_child r) nm props L) as Lc.
    destruct (construct s (rel_child r) nm props) as [res x]. cbn [fst] in Lc.
    destruct res as [s1 [e|]]; cbn [bindR fst] in *; [exact Lc|].
    pose proof (legal_op_add s1 r p x None Lc) as La.
    destruct (op_add s1 r p x None) as [s2 [e|]]; cbn [bindR fst] in *; [exact La|].
    destruct r; try exact La; [apply legal_create_items; exact La|apply legal_create_items; exact La|].
    apply (legal_dsame s2); [apply ds_op_set_reference|exact La].
  - unfold guard. destruct (_ && _); [|exact L]. apply legal_create_items; exact L.
  - apply legal_op_add; exact L.
  - apply (legal_dsame s); [|exact L]. unfold op_remove. repeat (apply ds_guard; intro). apply ds_bind; [apply ds_remove_core|intro; reflexivity].
  - apply (legal_dsame s); [|exact L]. unfold op_remove_from. repeat (apply ds_guard; intro). apply ds_bind; [apply ds_fold_idsR; intros; apply ds_remove_core|intro; reflexivity].
  - apply (legal_dsame s); [|exact L]. unfold op_reorder. repeat (apply ds_guard; intro). reflexivity.
  - apply (legal_dsame s); [|exact L]. unfold op_reorder_wire. repeat (apply ds_guard; intro). reflexivity.
  - apply (legal_dsame s); [|exact L]. unfold op_connect. apply ds_guard; intro s1. destruct p as [i|n i|]; cbn; try reflexivity.
    + destruct (ipwire s1 i); reflexivity.
    + destruct (assoc i (ipins s1 n)) as [[w0|]|]; reflexivity.
  - apply (legal_dsame s); [|exact L]. unfold op_disconnect. repeat (apply ds_guard; intro). destruct p; reflexivity.
  - apply (legal_dsame s); [|exact L]. unfold op_disconnect_from. repeat (apply ds_guard; intro). cbn [fst ret].
    match goal with |- dsame ?sx (set_wpins (fold_left ?f ?l ?sx) _ _) =>
      apply (dsame_trans sx (fold_left f l sx)); [|reflexivity]; apply ds_fold_left; intros sq q; destruct q; reflexivity end.
  - apply (legal_dsame s); [apply ds_op_set_reference|exact L].
  - unfold op_set_top, guard. destruct (_ && _); [|exact L].
    set (s1 := clear_old_top (emit s (ETop n a)) n).
    assert (L1 : LegalInv s1) by (apply (legal_data s); [unfold s1, clear_old_top; destruct (top _ n); reflexivity|exact L]).
    destruct a as [x|d|].
    + apply (legal_data s1); [reflexivity|exact L1].
    + pose proof (legal_construct s1 KInstance None [] L1) as Lc.
      destruct (construct s1 KInstance None []) as [res t]. cbn [fst] in Lc.
      destruct res as [s2 [e|]]; cbn [bindR fst] in *; [exact Lc|].
      pose proof (ds_op_set_reference s2 t (Some d)) as Q.
      destruct (op_set_reference s2 t (Some d)) as [s3 [e|]]; cbn [bindR fst ret] in *; [apply (legal_dsame s2); assumption|].
      apply (legal_data s3); [unfold clear_old_top; cbn; destruct (top _ n); reflexivity|apply (legal_dsame s2); assumption].
    + apply (legal_data s1); [reflexivity|exact L1].
  - unfold guard. destruct (elem_has_data s e); [|exact L]. unfold op_set_name. destruct nm; [apply legal_dict_set; exact L|].
    destruct (has_key s e str_NAME); [apply legal_dict_del; exact L|exact L].
  - unfold guard. destruct (elem_has_data s e); [|exact L]. unfold op_del_name.
    destruct (has_key s e str_NAME); [apply legal_dict_del; exact L|exact L].
  - unfold guard. destruct (elem_has_data s e); [|exact L]. apply legal_dict_set; exact L.
  - unfold guard. destruct (elem_has_data s e); [|exact L]. apply legal_dict_del; exact L.
  - unfold guard. destruct (elem_has_data s e); [|exact L]. apply legal_dict_pop; exact L.
  - unfold guard. destruct (_ || _); [|exact L]. apply (legal_data s); [reflexivity|exact L].
  - unfold guard. destruct (_ || _); [|exact L]. destruct (negb _); [|exact L]. apply (legal_data s); [reflexivity|exact L].
  - unfold guard. destruct (_ || _); [|exact L]. apply (legal_data s); [reflexivity|exact L].
  - unfold guard. destruct (is_kind _ _ _); [|exact L]. apply (legal_data s); [reflexivity|exact L].
  - apply (legal_data s); [reflexivity|exact L].
Qed.

Theorem reachable_legal ops : LegalInv (run ops init).
Proof.
  assert (G : forall ops s, LegalInv s -> LegalInv (run ops s)).
  { induction ops0 as [|o ops0 IH]; intros s L; cbn [run fold_left]; [exact L|]. apply IH. apply step_legal. exact L. }
  apply G. intros e v Hp. discriminate.
Qed.
