(* One finished stage of a library / netlist clone keeps the pin-wire invariant. *)
From Coq Require Import List Arith Bool Lia.
From RecordUpdate Require Import RecordSet.
From SV Require Import Base.Base IR.State IR.NS IR.Ops Xform.Clone Proofs.AssocX Proofs.Frame Proofs.Inv1a Proofs.Inv2a
  Proofs.InvP Proofs.InvW Proofs.Fresh Proofs.NsInv Proofs.CloneInv Proofs.RefK Proofs.CloneRef Proofs.CloneT Proofs.FieldT
  Proofs.CloneMemo Proofs.CloneRR Proofs.CloneFaith Proofs.CloneInvP.
From SV Require Import Proofs.CloneMemoK Proofs.CloneFaithK Proofs.CloneStage.
Import ListNotations RecordSetNotations.

Lemma map_opt_all {A B} (f : A -> option B) : forall l l', map_opt f l = Some l' -> forall q, In q l -> exists p, f q = Some p.
Proof.
  induction l as [|x l IH]; cbn; intros l' E q Hq; [destruct Hq|].
  destruct (f x) as [y|] eqn:Ex; [|discriminate]. destruct (map_opt f l) as [r|] eqn:Er; [|discriminate].
  destruct Hq as [<-|Hq]; [exists y; exact Ex|apply (IH r eq_refl q Hq)].
Qed.
Lemma mget_key (m : memo) a b : mget m a = Some b -> In a (map fst m).
Proof. intro H. apply mget_in in H. apply in_map_iff. exists (a, b). split; [reflexivity|exact H]. Qed.

Section StageP.
  Variables (s0 s G : state) (m m' : memo) (K : list id).
  Hypothesis T : ST s0 s m.
  Hypothesis S : StageOut s0 s G m m' K.
  Hypothesis P0 : InvP s0.
  Hypothesis T0 : FT s0.
  Hypothesis F0 : Fresh s0.
  Hypothesis Ps : InvP s.

  Let k := next s.

  Lemma new_key a b : In (a, b) m' -> k <= b -> ~ In a (map fst m).
  Proof.
    intros H Hb Hin. apply in_map_iff in Hin as [[a1 b1] [E Hin]]. cbn in E. subst a1.
    pose proof (memo_fun m' a b b1 (so_fun _ _ _ _ _ _ S) H (so_sub _ _ _ _ _ _ S _ Hin)) as ->.
    destruct (st_rng _ _ _ T a b1 Hin) as [_ [_ Hlt]]. unfold k in Hb. lia.
  Qed.
  Lemma old_entry a b : In (a, b) m' -> b < k -> In (a, b) m.
  Proof. intros H Hb. destruct (in_memo_dec m a b) as [Hi|Hi]; [exact Hi|]. pose proof (so_new _ _ _ _ _ _ S a b H Hi). unfold k in Hb. lia. Qed.

  Lemma src_wire_of i w : ipwire s0 i = Some w -> i < next s0 /\ kind_of s0 i = Some KPin /\ w < next s0 /\ kind_of s0 w = Some KWire /\ In (PIn i) (wpins s0 w).
  Proof.
    intro H. destruct (old_of_wire s0 T0 F0 i w H) as [A B]. assert (Hin : In (PIn i) (wpins s0 w)) by (apply (p_pins _ P0); exact H).
    assert (Hne : wpins s0 w <> []) by (intro E; rewrite E in Hin; destruct Hin). destruct (old_of_wpins s0 T0 F0 w Hne) as [C D].
    repeat split; assumption.
  Qed.
  Lemma src_wire_of_outer n j w : assoc j (ipins s0 n) = Some (Some w) ->
    n < next s0 /\ kind_of s0 n = Some KInstance /\ w < next s0 /\ kind_of s0 w = Some KWire /\ In (POut n j) (wpins s0 w).
  Proof.
    intro H. assert (Hne : ipins s0 n <> []) by (intro E; rewrite E in H; discriminate). destruct (old_of_ipins s0 T0 F0 n Hne) as [A B].
    assert (Hin : In (POut n j) (wpins s0 w)) by (apply (p_pins _ P0); cbn; rewrite H; reflexivity).
    assert (Hnw : wpins s0 w <> []) by (intro E; rewrite E in Hin; destruct Hin). destruct (old_of_wpins s0 T0 F0 w Hnw) as [C D].
    repeat split; assumption.
  Qed.

  (* locality: what a copy made in this stage points at was made in this stage *)
  Lemma loc_pin i i' w : In (i, i') m' -> k <= i' -> kind_of s0 i = Some KPin -> ipwire G i' = Some w ->
    k <= w /\ exists w0, ipwire s0 i = Some w0 /\ In (w0, w) m'.
  Proof.
    intros H Hb Hk0 Hw. pose proof (so_pin _ _ _ _ _ _ S i i' H Hb Hk0) as Hp. rewrite Hw in Hp.
    destruct (mwire_some _ _ _ Hp) as [w0 [Hw0 Hm]]. split; [|exists w0; split; assumption].
    destruct (Nat.lt_ge_cases w k) as [Hlt|Hge]; [|exact Hge]. exfalso.
    pose proof (old_entry w0 w Hm Hlt) as Hold. destruct (src_wire_of i w0 Hw0) as [_ [_ [_ [Hkw Hin]]]].
    destruct (st_wire _ _ _ T w0 w Hold Hkw) as [lw Hlw]. destruct (map_opt_all _ _ _ Hlw (PIn i) Hin) as [p Hp']. cbn in Hp'.
    destruct (mget m i) as [i1|] eqn:E; [|discriminate]. apply (new_key i i' H Hb). apply (mget_key m i i1 E).
  Qed.

  Lemma loc_outer x x' j w : In (x, x') m' -> k <= x' -> kind_of s0 x = Some KInstance -> assoc j (ipins G x') = Some (Some w) ->
    k <= w /\ exists w0, assoc j (ipins s0 x) = Some (Some w0) /\ In (w0, w) m'.
  Proof.
    intros H Hb Hk0 Hw. destruct (so_inst _ _ _ _ _ _ S x x' H Hb Hk0) as [Hmap _].
    pose proof (imap_assoc m' _ _ Hmap j) as Ha. destruct (assoc j (ipins s0 x)) as [o|] eqn:Eo; [|rewrite Ha in Hw; discriminate].
    destruct Ha as [o' [Ho' Ha]]. rewrite Ha in Hw. injection Hw as ->. destruct (mwire_some _ _ _ Ho') as [w0 [-> Hm]].
    split; [|exists w0; split; [reflexivity|exact Hm]].
    destruct (Nat.lt_ge_cases w k) as [Hlt|Hge]; [|exact Hge]. exfalso.
    pose proof (old_entry w0 w Hm Hlt) as Hold. destruct (src_wire_of_outer x j w0 Eo) as [_ [_ [_ [Hkw Hin]]]].
    destruct (st_wire _ _ _ T w0 w Hold Hkw) as [lw Hlw]. destruct (map_opt_all _ _ _ Hlw (POut x j) Hin) as [p Hp']. cbn in Hp'.
    destruct (mget m x) as [x1|] eqn:E; [|discriminate]. apply (new_key x x' H Hb). apply (mget_key m x x1 E).
  Qed.

  (* the image of a source pin on a wire copied in this stage is a pin copied in this stage *)
  Lemma loc_image w0 w q p : In (w0, w) m' -> k <= w -> In q (wpins s0 w0) -> mpin s0 m' q = Some p ->
    match p with
    | PIn i' => exists i, q = PIn i /\ In (i, i') m' /\ k <= i' /\ kind_of s0 i = Some KPin
    | POut n' j => exists n, q = POut n j /\ In (n, n') m' /\ k <= n' /\ kind_of s0 n = Some KInstance
    | PDet => False
    end.
  Proof.
    intros Hm Hb Hq Hp. apply (p_pins _ P0) in Hq. destruct q as [i|n j|]; cbn in Hp; [| |discriminate].
    - destruct (mget m' i) as [i'|] eqn:Ei; cbn in Hp; [|discriminate]. injection Hp as <-. apply mget_in in Ei.
      cbn in Hq. destruct (src_wire_of i w0 Hq) as [_ [Hk0 _]]. exists i. split; [reflexivity|]. split; [exact Ei|]. split; [|exact Hk0].
      destruct (Nat.lt_ge_cases i' k) as [Hlt|Hge]; [|exact Hge]. exfalso.
      pose proof (old_entry i i' Ei Hlt) as Hold. destruct (st_pin _ _ _ T i i' Hold Hk0) as [v H]. rewrite Hq in H. cbn in H.
      destruct (mget m w0) as [w1|] eqn:E; [|discriminate]. apply (new_key w0 w Hm Hb). apply (mget_key m w0 w1 E).
    - destruct (mget m' n) as [n'|] eqn:En; [|discriminate]. destruct (assoc j (ipins s0 n)) as [ow|] eqn:Eo; [|discriminate]. injection Hp as <-.
      apply mget_in in En. cbn in Hq. rewrite Eo in Hq. subst ow. destruct (src_wire_of_outer n j w0 Eo) as [_ [Hk0 _]].
      exists n. split; [reflexivity|]. split; [exact En|]. split; [|exact Hk0].
      destruct (Nat.lt_ge_cases n' k) as [Hlt|Hge]; [|exact Hge]. exfalso.
      pose proof (old_entry n n' En Hlt) as Hold. destruct (st_inst _ _ _ T n n' Hold Hk0) as [li Hmap].
      pose proof (imap_assoc m _ _ Hmap j) as Ha. rewrite Eo in Ha. destruct Ha as [o' [Ho' _]]. cbn in Ho'.
      destruct (mget m w0) as [w1|] eqn:E; [|discriminate]. apply (new_key w0 w Hm Hb). apply (mget_key m w0 w1 E).
  Qed.

  (* pins below the watermark report what they reported *)
  Lemma pw_below p w : pin_wire s p = Some w -> pin_wire G p = Some w.
  Proof.
    destruct p as [i|n j|]; cbn; [| |discriminate].
    - intro H. assert (Hi : i < k). { destruct (Nat.lt_ge_cases i k) as [Hl|Hg]; [exact Hl|]. destruct (st_above _ _ _ T i Hg) as [_ [A _]]. rewrite A in H. discriminate. }
      rewrite (proj1 (so_old _ _ _ _ _ _ S i Hi)). exact H.
    - destruct (assoc j (ipins s n)) as [ow|] eqn:E; [|discriminate]. intro H.
      assert (Hn : n < k). { destruct (Nat.lt_ge_cases n k) as [Hl|Hg]; [exact Hl|]. destruct (st_above _ _ _ T n Hg) as [_ [_ [_ [A _]]]]. rewrite A in E. discriminate. }
      destruct (so_old _ _ _ _ _ _ S n Hn) as [_ [_ [-> _]]]. rewrite E. exact H.
  Qed.

  Lemma pw_stage p w : pin_wire G p = Some w ->
    pin_wire s p = Some w \/
    (k <= w /\ exists q w0, pin_wire s0 q = Some w0 /\ In (w0, w) m' /\ mpin s0 m' q = Some p).
  Proof.
    destruct p as [i|n j|]; cbn [pin_wire]; [| |discriminate].
    - intro H. destruct (Nat.lt_ge_cases i k) as [Hi|Hi]; [left; rewrite <- (proj1 (so_old _ _ _ _ _ _ S i Hi)); exact H|right].
      destruct (so_def _ _ _ _ _ _ S i Hi) as [D1 _].
      assert (Hk : kind_of G i = Some KPin). { destruct (kind_of G i) as [[]|] eqn:Ek; try reflexivity; rewrite D1 in H by discriminate; discriminate. }
      destruct (so_cov _ _ _ _ _ _ S i Hi (or_introl Hk)) as [a0 Ha0].
      assert (Hk0 : kind_of s0 a0 = Some KPin) by (rewrite <- (so_kind _ _ _ _ _ _ S a0 i Ha0); exact Hk).
      destruct (loc_pin a0 i w Ha0 Hi Hk0 H) as [Hw [w0 [Hw0 Hm]]]. split; [exact Hw|].
      exists (PIn a0), w0. split; [exact Hw0|]. split; [exact Hm|]. cbn. rewrite (in_mget m' a0 i (so_fun _ _ _ _ _ _ S) Ha0). reflexivity.
    - destruct (assoc j (ipins G n)) as [ow|] eqn:E; [|discriminate]. intro H. subst ow.
      destruct (Nat.lt_ge_cases n k) as [Hn|Hn].
      + left. destruct (so_old _ _ _ _ _ _ S n Hn) as [_ [_ [Hi _]]]. rewrite Hi in E. rewrite E. reflexivity.
      + right. destruct (so_def _ _ _ _ _ _ S n Hn) as [_ [_ D3]].
        assert (Hk : kind_of G n = Some KInstance).
        { destruct (kind_of G n) as [[]|] eqn:Ek; try reflexivity; rewrite (proj1 (D3 ltac:(discriminate))) in E; discriminate. }
        destruct (so_cov _ _ _ _ _ _ S n Hn (or_intror (or_intror Hk))) as [x Hx].
        assert (Hk0 : kind_of s0 x = Some KInstance) by (rewrite <- (so_kind _ _ _ _ _ _ S x n Hx); exact Hk).
        destruct (loc_outer x n j w Hx Hn Hk0 E) as [Hw [w0 [Hw0 Hm]]]. split; [exact Hw|].
        exists (POut x j), w0. split; [cbn; rewrite Hw0; reflexivity|]. split; [exact Hm|].
        cbn. rewrite (in_mget m' x n (so_fun _ _ _ _ _ _ S) Hx), Hw0. reflexivity.
  Qed.

  Lemma pw_image_stage q p w0 w : pin_wire s0 q = Some w0 -> In (w0, w) m' -> k <= w -> mpin s0 m' q = Some p -> pin_wire G p = Some w.
  Proof.
    intros Hq Hm Hb Hp. assert (Hin : In q (wpins s0 w0)) by (apply (p_pins _ P0); exact Hq).
    pose proof (loc_image w0 w q p Hm Hb Hin Hp) as HL. destruct p as [i'|n' j|]; [| |destruct HL].
    - destruct HL as [i [-> [Hi [Hib Hk0]]]]. cbn in Hq. pose proof (so_pin _ _ _ _ _ _ S i i' Hi Hib Hk0) as H. rewrite Hq in H. cbn in H.
      rewrite (in_mget m' w0 w (so_fun _ _ _ _ _ _ S) Hm) in H. cbn in H. injection H as H. cbn. symmetry. exact H.
    - destruct HL as [n [-> [Hn [Hnb Hk0]]]]. cbn in Hq. destruct (assoc j (ipins s0 n)) as [ow|] eqn:Eo; [|discriminate]. subst ow.
      destruct (so_inst _ _ _ _ _ _ S n n' Hn Hnb Hk0) as [Hmap _].
      pose proof (imap_assoc m' _ _ Hmap j) as Ha. rewrite Eo in Ha. destruct Ha as [o' [Ho' Ha]]. cbn in Ho'.
      rewrite (in_mget m' w0 w (so_fun _ _ _ _ _ _ S) Hm) in Ho'. cbn in Ho'. injection Ho' as <-. cbn. rewrite Ha. reflexivity.
  Qed.

  Lemma mpin_inj' q q' p : mpin s0 m' q = Some p -> mpin s0 m' q' = Some p -> q = q'.
  Proof.
    destruct q as [i|n i|], q' as [j|n2 j|]; cbn; try discriminate.
    - destruct (mget m' i) as [i'|] eqn:Ei; cbn; [|discriminate]. destruct (mget m' j) as [j'|] eqn:Ej; cbn; [|discriminate].
      intros H1 H2. injection H1 as <-. injection H2 as H2. subst j'. f_equal.
      apply (memo_inj m' i j i' (so_inj _ _ _ _ _ _ S)); apply mget_in; assumption.
    - destruct (mget m' i) as [i'|]; cbn; [|discriminate]. destruct (mget m' n2) as [n2'|]; [|discriminate]. destruct (assoc j (ipins s0 n2)); [|discriminate].
      intros H1 H2. rewrite <- H1 in H2. discriminate.
    - destruct (mget m' n) as [n'|]; [|discriminate]. destruct (assoc i (ipins s0 n)); [|discriminate]. destruct (mget m' j) as [j'|]; cbn; [|discriminate].
      intros H1 H2. rewrite <- H1 in H2. discriminate.
    - destruct (mget m' n) as [n'|] eqn:En; [|discriminate]. destruct (assoc i (ipins s0 n)); [|discriminate].
      destruct (mget m' n2) as [n2'|] eqn:En2; [|discriminate]. destruct (assoc j (ipins s0 n2)); [|discriminate].
      intros H1 H2. injection H1 as <-. injection H2 as H2 H3. subst n2' j. f_equal.
      apply (memo_inj m' n n2 n' (so_inj _ _ _ _ _ _ S)); apply mget_in; assumption.
  Qed.

  Theorem stage_invp : InvP G.
  Proof.
    assert (Hnowire : forall w p, k <= w -> kind_of G w <> Some KWire -> pin_wire G p = Some w -> False).
    { intros w p Hw Hkw H. destruct (pw_stage p w H) as [H0|[_ [q [w0 [Hq [Hm _]]]]]].
      - apply (p_pins _ Ps) in H0. destruct (st_above _ _ _ T w Hw) as [_ [_ [A _]]]. rewrite A in H0. destruct H0.
      - apply Hkw. rewrite (so_kind _ _ _ _ _ _ S w0 w Hm).
        assert (Hin : In q (wpins s0 w0)) by (apply (p_pins _ P0); exact Hq).
        assert (Hne : wpins s0 w0 <> []) by (intro E; rewrite E in Hin; destruct Hin). apply (old_of_wpins s0 T0 F0 w0 Hne). }
    constructor.
    - intros w p. destruct (Nat.lt_ge_cases w k) as [Hw|Hw].
      + destruct (so_old _ _ _ _ _ _ S w Hw) as [_ [Hwp _]]. rewrite Hwp. split.
        * intro Hin. apply pw_below. apply (p_pins _ Ps). exact Hin.
        * intro H. destruct (pw_stage p w H) as [H0|[Hge _]]; [apply (p_pins _ Ps); exact H0|unfold k in *; lia].
      + destruct (so_def _ _ _ _ _ _ S w Hw) as [_ [D2 _]].
        destruct (kind_of G w) as [kw|] eqn:Ekw.
        2:{ rewrite D2 by discriminate. split; [intros []|]. intro H. exfalso. apply (Hnowire w p Hw); [rewrite Ekw; discriminate|exact H]. }
        destruct (kind_eqb kw KWire) eqn:Eq.
        2:{ assert (Hnw : Some kw <> Some KWire) by (intro E; injection E as ->; discriminate Eq).
            rewrite D2 by exact Hnw. split; [intros []|]. intro H. exfalso. apply (Hnowire w p Hw); [rewrite Ekw; exact Hnw|exact H]. }
        assert (kw = KWire) by (destruct kw; try discriminate Eq; reflexivity). subst kw.
        destruct (so_cov _ _ _ _ _ _ S w Hw (or_intror (or_introl Ekw))) as [w0 Hm].
        assert (Hk0 : kind_of s0 w0 = Some KWire) by (rewrite <- (so_kind _ _ _ _ _ _ S w0 w Hm); exact Ekw).
        pose proof (so_wire _ _ _ _ _ _ S w0 w Hm Hw Hk0) as Hmap. split.
        * intro Hin. destruct (map_opt_in _ _ _ Hmap p Hin) as [q [Hq Hf]].
          apply (pw_image_stage q p w0 w); [apply (p_pins _ P0); exact Hq|exact Hm|exact Hw|exact Hf].
        * intro H. destruct (pw_stage p w H) as [H0|[_ [q [w1 [Hq [Hm' Hf]]]]]].
          -- exfalso. apply (p_pins _ Ps) in H0. destruct (st_above _ _ _ T w Hw) as [_ [_ [A _]]]. rewrite A in H0. destruct H0.
          -- assert (w1 = w0) by (apply (memo_inj m' w1 w0 w (so_inj _ _ _ _ _ _ S)); assumption). subst w1.
             apply (map_opt_fwd _ _ _ Hmap q p); [apply (p_pins _ P0); exact Hq|exact Hf].
    - intro w. destruct (Nat.lt_ge_cases w k) as [Hw|Hw].
      + destruct (so_old _ _ _ _ _ _ S w Hw) as [_ [-> _]]. apply (p_nodup _ Ps).
      + destruct (so_def _ _ _ _ _ _ S w Hw) as [_ [D2 _]].
        destruct (kind_of G w) as [kw|] eqn:Ekw; [|rewrite D2 by discriminate; constructor].
        destruct (kind_eqb kw KWire) eqn:Eq.
        2:{ rewrite D2; [constructor|]. intro E; injection E as ->; discriminate Eq. }
        assert (kw = KWire) by (destruct kw; try discriminate Eq; reflexivity). subst kw.
        destruct (so_cov _ _ _ _ _ _ S w Hw (or_intror (or_introl Ekw))) as [w0 Hm].
        assert (Hk0 : kind_of s0 w0 = Some KWire) by (rewrite <- (so_kind _ _ _ _ _ _ S w0 w Hm); exact Ekw).
        pose proof (so_wire _ _ _ _ _ _ S w0 w Hm Hw Hk0) as Hmap.
        apply (map_opt_nodup _ _ _ Hmap (p_nodup _ P0 w0)). intros q q' p _ _. apply mpin_inj'.
  Qed.
End StageP.

(* ... and the outer-pin tables *)
Section StageK.
  Variables (s0 s G : state) (m m' : memo) (K : list id).
  Hypothesis T : ST s0 s m.
  Hypothesis S : StageOut s0 s G m m' K.
  Hypothesis K0 : InvK s0.
  Hypothesis Ks : InvK s.
  Hypothesis F0 : Fresh s0.
  Hypothesis RK0 : RefK s0.
  Hypothesis RLs : forall n d, iref s n = Some d -> d < next s.
  Hypothesis Habs : Above s.
  Hypothesis Hkp : kpframe (next s) s G.
  Hypothesis Hnewpar : forall r y p, next s <= y -> par G r y = Some p -> next s <= p.
  Hypothesis Hpar_old : forall r y, y < next s0 -> par G r y = par s0 r y.
  Hypothesis Hpar_new : forall r y p, next s0 <= y -> par G r y = Some p -> next s0 <= p.

  Let k := next s.

  Lemma rhs_src d i : d < next s0 ->
    ((exists p, par G RPorts p = Some d /\ par G RPins i = Some p) <-> (exists p, par s0 RPorts p = Some d /\ par s0 RPins i = Some p)).
  Proof.
    intro Hd. split; intros [p [H1 H2]]; exists p.
    - assert (Hp : p < next s0).
      { destruct (Nat.lt_ge_cases p (next s0)) as [Hl|Hg]; [exact Hl|]. pose proof (Hpar_new RPorts p d Hg H1). lia. }
      assert (Hi : i < next s0).
      { destruct (Nat.lt_ge_cases i (next s0)) as [Hl|Hg]; [exact Hl|]. pose proof (Hpar_new RPins i p Hg H2). lia. }
      rewrite <- (Hpar_old RPorts p Hp), <- (Hpar_old RPins i Hi). split; assumption.
    - assert (Hp : p < next s0). { destruct (Nat.lt_ge_cases p (next s0)) as [Hl|Hg]; [exact Hl|]. rewrite (f_par _ F0 RPorts p Hg) in H1. discriminate. }
      assert (Hi : i < next s0). { destruct (Nat.lt_ge_cases i (next s0)) as [Hl|Hg]; [exact Hl|]. rewrite (f_par _ F0 RPins i Hg) in H2. discriminate. }
      rewrite (Hpar_old RPorts p Hp), (Hpar_old RPins i Hi). split; assumption.
  Qed.

  Lemma rhs_run d i : d < k ->
    ((exists p, par G RPorts p = Some d /\ par G RPins i = Some p) <-> (exists p, par s RPorts p = Some d /\ par s RPins i = Some p)).
  Proof.
    intro Hd. split; intros [p [H1 H2]]; exists p.
    - assert (Hp : p < k). { destruct (Nat.lt_ge_cases p k) as [Hl|Hg]; [exact Hl|]. pose proof (Hnewpar RPorts p d Hg H1). unfold k in *. lia. }
      assert (Hi : i < k). { destruct (Nat.lt_ge_cases i k) as [Hl|Hg]; [exact Hl|]. pose proof (Hnewpar RPins i p Hg H2). unfold k in *. lia. }
      rewrite <- (proj2 (Hkp RPorts p Hp)), <- (proj2 (Hkp RPins i Hi)). split; assumption.
    - assert (Hp : p < k). { destruct (Nat.lt_ge_cases p k) as [Hl|Hg]; [exact Hl|]. rewrite (proj2 (Habs RPorts p Hg)) in H1. discriminate. }
      assert (Hi : i < k). { destruct (Nat.lt_ge_cases i k) as [Hl|Hg]; [exact Hl|]. rewrite (proj2 (Habs RPins i Hg)) in H2. discriminate. }
      rewrite (proj2 (Hkp RPorts p Hp)), (proj2 (Hkp RPins i Hi)). split; assumption.
  Qed.

  Theorem stage_invk : InvK G.
  Proof.
    assert (Hcase : forall n, (n < k /\ keys G n = keys s n /\ iref G n = iref s n) \/
                              (exists x, keys G n = keys s0 x /\ iref G n = iref s0 x) \/ (keys G n = [] /\ iref G n = None)).
    { intro n. destruct (Nat.lt_ge_cases n k) as [Hn|Hn].
      - left. destruct (so_old _ _ _ _ _ _ S n Hn) as [_ [_ [Hi [_ Hr]]]]. unfold keys. rewrite Hi. repeat split; assumption.
      - right. destruct (so_def _ _ _ _ _ _ S n Hn) as [_ [_ D3]].
        destruct (kind_of G n) as [kn|] eqn:Ek; [|right; destruct (D3 ltac:(discriminate)) as [A B]; unfold keys; rewrite A; split; [reflexivity|exact B]].
        destruct (kind_eqb kn KInstance) eqn:Eq.
        + assert (kn = KInstance) by (destruct kn; try discriminate Eq; reflexivity). subst kn.
          destruct (so_cov _ _ _ _ _ _ S n Hn (or_intror (or_intror Ek))) as [x Hx].
          assert (Hk0 : kind_of s0 x = Some KInstance) by (rewrite <- (so_kind _ _ _ _ _ _ S x n Hx); exact Ek).
          destruct (so_inst _ _ _ _ _ _ S x n Hx Hn Hk0) as [Hmap Hr]. left. exists x. split; [unfold keys; apply (imap_keys m' _ _ Hmap)|exact Hr].
        + right. destruct D3 as [A B]; [intro E; injection E as ->; discriminate Eq|]. unfold keys. rewrite A. split; [reflexivity|exact B]. }
    constructor.
    - intros n i. destruct (Hcase n) as [[Hn [Hk Hr]]|[[x [Hk Hr]]|[Hk Hr]]].
      + rewrite Hk, Hr. destruct (iref s n) as [d|] eqn:Ed.
        * rewrite (k_keys _ Ks n i). split.
          -- intros [d0 [p [H0 [H1 H2]]]]. rewrite Ed in H0. injection H0 as <-. exists d.
             destruct (proj2 (rhs_run d i (RLs n d Ed)) (ex_intro _ p (conj H1 H2))) as [p' [A B]]. exists p'. repeat split; assumption.
          -- intros [d0 [p [H0 [H1 H2]]]]. injection H0 as <-.
             destruct (proj1 (rhs_run d i (RLs n d Ed)) (ex_intro _ p (conj H1 H2))) as [p' [A B]]. exists d, p'. repeat split; assumption.
        * split; [|intros [d0 [p [H0 _]]]; discriminate]. intro Hin. apply (k_keys _ Ks n i) in Hin as [d0 [p [H0 _]]]. rewrite Ed in H0. discriminate.
      + rewrite Hk, Hr. destruct (iref s0 x) as [d|] eqn:Ed.
        * rewrite (k_keys _ K0 x i). pose proof (ref_lt s0 x d RK0 F0 Ed) as Hd. split.
          -- intros [d0 [p [H0 [H1 H2]]]]. rewrite Ed in H0. injection H0 as <-. exists d.
             destruct (proj2 (rhs_src d i Hd) (ex_intro _ p (conj H1 H2))) as [p' [A B]]. exists p'. repeat split; assumption.
          -- intros [d0 [p [H0 [H1 H2]]]]. injection H0 as <-.
             destruct (proj1 (rhs_src d i Hd) (ex_intro _ p (conj H1 H2))) as [p' [A B]]. exists d, p'. repeat split; assumption.
        * split; [|intros [d0 [p [H0 _]]]; discriminate]. intro Hin. apply (k_keys _ K0 x i) in Hin as [d0 [p [H0 _]]]. rewrite Ed in H0. discriminate.
      + rewrite Hk, Hr. split; [intros []|intros [d0 [p [H0 _]]]; discriminate].
    - intro n. destruct (Hcase n) as [[_ [Hk _]]|[[x [Hk _]]|[Hk _]]]; rewrite Hk; [apply (k_nodup _ Ks)|apply (k_nodup _ K0)|constructor].
  Qed.
End StageK.
