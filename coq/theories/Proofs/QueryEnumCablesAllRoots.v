(* get_cables, selection ALL, for a COLLECTION of roots.  A mark set during the walk of one root
   suppresses the appends of the same mark in the walk of a later root, but the suppressed items were
   processed already and, the mark statements being determined by the marked element, recorded the same
   things: the run from a list of roots records exactly the union of what the roots lead to
   (det_exact_roots), and the final marks are the union of the marks the roots lead to
   (det_marks_roots).  For get_cables ALL: the parents and the cables are the unions over the roots of
   the single-root sets of Proofs/QueryEnumCablesAll.v (cands_cables_all_roots_exact), and so is the
   whole query (query_cables_all_roots_spec). *)
From Coq Require Import List Arith Bool Lia Relations.
From SV Require Import Base.Base IR.State IR.NS IR.Ops Proofs.Inv1a Proofs.Inv2a Proofs.InvW Proofs.AssocX
  Hier.Paths Hier.Enum Hier.Trace Proofs.KindD Query.Filter Query.Enum Query.EnumSpec Proofs.QueryFilter
  Proofs.FieldT Proofs.QueryEnumWL Proofs.QueryEnumBase Proofs.QueryEnumView Proofs.QueryEnumPorts Proofs.QueryEnumPins
  Proofs.QueryEnumCables Proofs.QueryEnumWires Proofs.QueryEnumWiresSpec Proofs.QueryEnumFull
  Proofs.QueryEnumWiresAll Proofs.QueryEnumCablesAll Proofs.QueryEnumAllFull.
Import ListNotations.

(* ---- tables whose marks are determined by the marked element, a stack of roots ---- *)
Section DetRoots.
Context {T : Type}.
Variable acts : item -> list (act T).
Variable bad : item -> bool.
Variable osf : id -> list T.
Variable ysf : id -> list item.
Hypothesis Hdet : forall y c os ys, In (AMark c os ys) (acts y) -> os = osf c /\ ys = ysf c.

Lemma det_done_stack st' stack : Forall (Done acts st') stack ->
  (forall c, In c (w_marks st') -> Fired acts st' stack c) ->
  forall x y, In x stack -> Reach acts x y -> Done acts st' y.
Proof.
  intros Hd HF x y Hx Hr. apply clos_rt_rtn1 in Hr. induction Hr as [|y z (a & Ha & Hz) Hr IH].
  - rewrite Forall_forall in Hd. apply Hd, Hx.
  - apply done_inv in IH as (D1 & _ & D3). destruct a as [z'|o|c os ys]; cbn in Hz.
    + destruct Hz as [<-|[]]. apply D1, Ha.
    + destruct Hz.
    + destruct (HF c (D3 c os ys Ha)) as (x0 & y' & os' & ys' & _ & _ & Ha' & _ & Hy).
      destruct (Hdet _ _ _ _ Ha) as [_ ->]. destruct (Hdet _ _ _ _ Ha') as [_ ->].
      rewrite Forall_forall in Hy. apply Hy, Hz.
Qed.

(* the final state of the loop started on a stack, from the empty state *)
Theorem det_wl_exact fuel stack st' : wl acts bad fuel stack (mkW [] []) = WOk st' ->
  (forall o, In o (w_outs st') <-> exists it, In it stack /\ Emits acts it o) /\
  (forall c, In c (w_marks st') <-> exists it, In it stack /\ Marks acts it c).
Proof.
  intro E. destruct (wl_closed acts bad fuel _ _ _ E) as (H1 & H2 & _ & _).
  destruct (wl_sound acts bad fuel _ _ _ E) as (H3 & H4). cbn in *.
  assert (HF : forall c, In c (w_marks st') -> Fired acts st' stack c) by (intros c Hc; destruct (H2 c Hc) as [[]|Hf]; exact Hf).
  split.
  - intro o. split.
    + intro Ho. destruct (H3 o Ho) as [[]|H]. exact H.
    + intros (it & Hit & y & a & Hr & Ha & Ho).
      pose proof (det_done_stack st' stack H1 HF it y Hit Hr) as Hdy. apply done_inv in Hdy as (_ & D2 & D3).
      destruct a as [z|o'|c os ys]; cbn in Ho.
      * destruct Ho.
      * destruct Ho as [<-|[]]. apply D2, Ha.
      * destruct (HF c (D3 c os ys Ha)) as (x0 & y' & os' & ys' & _ & _ & Ha' & Hos & _).
        apply Hos. destruct (Hdet _ _ _ _ Ha) as [Eo _]. destruct (Hdet _ _ _ _ Ha') as [-> _]. rewrite <- Eo. exact Ho.
  - intro c. split.
    + intro Hc. destruct (H4 c Hc) as [[]|H]. exact H.
    + intros (it & Hit & y & os & ys & Hr & Ha).
      pose proof (det_done_stack st' stack H1 HF it y Hit Hr) as Hdy. apply done_inv in Hdy as (_ & _ & D3). apply (D3 c os ys Ha).
Qed.

Theorem det_marks_roots fuel stack st' : wl acts bad fuel stack (mkW [] []) = WOk st' ->
  forall c, In c (w_marks st') <-> exists it, In it stack /\ Marks acts it c.
Proof. intro E. apply (proj2 (det_wl_exact fuel stack st' E)). Qed.

(* what a run from a list of roots records: the union over the roots *)
Theorem det_exact_roots fuel roots l : wl_run acts bad fuel roots = WOk l ->
  forall o, In o l <-> exists it, In it roots /\ Emits acts it o.
Proof.
  unfold wl_run. intros H o. destruct (wl acts bad fuel (rev roots) (mkW [] [])) as [st'| |] eqn:E; try discriminate H.
  injection H as <-. rewrite <- in_rev, (proj1 (det_wl_exact fuel _ st' E) o).
  split; intros (it & Hit & He); exists it; (split; [|exact He]); [apply in_rev; exact Hit|apply -> in_rev; exact Hit].
Qed.
End DetRoots.

Print Assumptions det_wl_exact.
Print Assumptions det_marks_roots.
Print Assumptions det_exact_roots.

(* ---- get_cables, selection ALL ---- *)
Section CabRoots.
Variable s : state.
Hypothesis W : QWF s.
Variable rec : bool.
Notation AA := (acts_cables s rec SAll).

(* what one root leads to, declaratively (no run needed) *)
Lemma emits_oth_all it c : Emits AA it (OOth c) <-> cables_all s it c.
Proof.
  rewrite <- (cable_all_iff s W rec it c), (emits_split AA (cab_of s) (wire_items s) (cab_marks_all s rec) it (OOth c)).
  unfold cable_all. split.
  - intros [(y & Hr & Ha)|(w & Hm & Hc)].
    + right. apply (ca_direct s rec) in Ha as (n & r & -> & Hk & Er & Hc). exists n, r. split; [exact Hk|].
      split; [apply (ca_direct_reach s W rec it n Hk Hr)|]. split; [exact Er|apply (kids_par s W); exact Hc].
    + left. exists w. split; [apply (searched_wire_decl s W rec), (searched_closure s W rec); exact Hm|]. unfold cab_of in Hc.
      destruct (par s RWires w) as [c'|]; [|destruct Hc]. destruct Hc as [E|[]]. injection E as ->. reflexivity.
  - intros [(w & Hs & Hc)|(m & r & Hk & Hr & Er & Hc)].
    + right. exists w. split; [apply (searched_closure s W rec), (searched_wire_decl s W rec); exact Hs|]. unfold cab_of. rewrite Hc. left. reflexivity.
    + left. exists (IE m). split; [apply preach_reach; exact Hr|]. apply (ca_direct s rec). exists m, r.
      split; [reflexivity|]. split; [exact Hk|]. split; [exact Er|apply (kids_par s W); exact Hc].
Qed.

Lemma emits_par_all it d : Emits AA it (OPar d) <-> lead_defs s it d.
Proof.
  rewrite (emits_split AA (cab_of s) (wire_items s) (cab_marks_all s rec) it (OPar d)). split.
  - intros [(y & Hr & Ha)|(w & _ & Hc)].
    + apply (ca_par s rec) in Ha as [-> Hk]. apply (ldef_item s W rec). split; [exact Hk|apply (ca_par_reach s W rec it d Hk Hr)].
    + unfold cab_of in Hc. destruct (par s RWires w); [destruct Hc as [E|[]]; discriminate E|destruct Hc].
  - intro Hl. apply (ldef_item s W rec) in Hl as [Hk Hr]. left. exists (IE d). split; [apply preach_reach; exact Hr|apply (ca_par s rec); auto].
Qed.

(* the candidates for a collection of roots: the unions over the roots *)
Theorem cands_cables_all_roots_exact fuel roots ps os :
  cands_cables s fuel roots rec SAll = WOk (ps, os) ->
  (forall d, In d ps <-> exists it, In it roots /\ lead_defs s it d) /\ NoDup os /\
  forall c, In c os <-> exists it, In it roots /\ cables_all s it c.
Proof.
  intro H. unfold cands_cables in H.
  destruct (wl_run AA (bad_cables s SAll) fuel roots) as [l| |] eqn:E; try discriminate H. cbn in H. injection H as <- <-.
  pose proof (det_exact_roots AA (bad_cables s SAll) (cab_of s) (wire_items s) (cab_marks_all s rec) fuel roots l E) as Hem.
  split; [|split]; [intro d|apply dedup_NoDup|intro c].
  - rewrite in_pars, (Hem (OPar d)). split; intros (it & Hit & Hx); exists it; (split; [exact Hit|apply emits_par_all; exact Hx]).
  - rewrite dedup_In, in_oths, (Hem (OOth c)). split; intros (it & Hit & Hx); exists it; (split; [exact Hit|apply emits_oth_all; exact Hx]).
Qed.

(* searched_wires at the end of the loop: the union of the closures *)
Theorem searched_wires_all_roots_final fuel stack st' :
  wl AA (bad_cables s SAll) fuel stack (mkW [] []) = WOk st' ->
  forall w, In w (w_marks st') <-> exists it, In it stack /\ reach_wire_all s it w.
Proof.
  intros E w. rewrite (det_marks_roots AA (bad_cables s SAll) (cab_of s) (wire_items s) (cab_marks_all s rec) fuel stack st' E w).
  split; intros (it & Hit & Hx); exists it; (split; [exact Hit|]).
  - apply (searched_wire_decl s W rec), (searched_closure s W rec); exact Hx.
  - apply (searched_closure s W rec), (searched_wire_decl s W rec); exact Hx.
Qed.
End CabRoots.

Print Assumptions emits_oth_all.
Print Assumptions emits_par_all.
Print Assumptions cands_cables_all_roots_exact.
Print Assumptions searched_wires_all_roots_final.

(* the recursive flag, the fuel and the order of the roots play no role *)
Corollary cands_cables_all_roots_rec s (W : QWF s) f1 f2 rec1 rec2 roots1 roots2 ps1 os1 ps2 os2 :
  (forall it, In it roots1 <-> In it roots2) ->
  cands_cables s f1 roots1 rec1 SAll = WOk (ps1, os1) -> cands_cables s f2 roots2 rec2 SAll = WOk (ps2, os2) ->
  (forall d, In d ps1 <-> In d ps2) /\ forall c, In c os1 <-> In c os2.
Proof.
  intros HR H1 H2. destruct (cands_cables_all_roots_exact s W rec1 f1 roots1 ps1 os1 H1) as (A1 & _ & B1).
  destruct (cands_cables_all_roots_exact s W rec2 f2 roots2 ps2 os2 H2) as (A2 & _ & B2). split.
  - intro d. rewrite (A1 d), (A2 d). split; intros (it & Hit & Hx); exists it; (split; [apply HR; exact Hit|exact Hx]).
  - intro c. rewrite (B1 c), (B2 c). split; intros (it & Hit & Hx); exists it; (split; [apply HR; exact Hit|exact Hx]).
Qed.
Print Assumptions cands_cables_all_roots_rec.

(* ---- the whole query ---- *)
Theorem query_cables_all_roots_spec s (W : QWF s) o fuel roots rec pats res :
  LookOK s (q_reg o) (q_key o) RCables -> ~ In [] pats ->
  query_cables s o fuel roots rec SAll pats = WOk res ->
  NoDup res /\
  forall e, In e res <->
    (exists it, In it roots /\ ((exists d, lead_defs s it d /\ par s RCables e = Some d) \/ cables_all s it e)) /\
    (sel_match (q_case o) (q_re o) (key_of s (q_key o)) (fold_of s (q_key o)) pats e = true /\ q_cb o e = true).
Proof.
  intros HL Hp H. unfold query_cables in H. destruct (two_stage_ok _ _ _ _ _ _ _ _ H) as (ps & os & E). rewrite E in H. split.
  - apply (two_stage_NoDup s o false BNames RCables ps os pats res). exact H.
  - intro e. rewrite (two_stage_spec s o false BNames RCables HL ps os pats res Hp H e).
    destruct (cands_cables_all_roots_exact s W rec fuel roots ps os E) as (HA & _ & HB).
    unfold candidate. rewrite keyok_false, HB.
    assert (HP : (exists p, In p ps /\ In e (kids s RCables p)) \/ (exists it, In it roots /\ cables_all s it e) <->
                 (exists it, In it roots /\ ((exists d, lead_defs s it d /\ par s RCables e = Some d) \/ cables_all s it e))).
    { split.
      - intros [(d & H1 & H2)|(it & Hit & Hc)].
        + apply HA in H1 as (it & Hit & Hl). exists it. split; [exact Hit|]. left. exists d. split; [exact Hl|apply (kids_par s W); exact H2].
        + exists it. split; [exact Hit|right; exact Hc].
      - intros (it & Hit & [(d & Hl & Hpar)|Hc]).
        + left. exists d. split; [apply HA; exists it; auto|apply (kids_par s W); exact Hpar].
        + right. exists it. auto. }
    rewrite <- HP. tauto.
Qed.
Print Assumptions query_cables_all_roots_spec.

(* ---- the netlist exa of QueryEnumWiresAll.v, two roots ---- *)
Example exa_cables_all_two :
  map (fun r => cands_cables exa 100 r false SAll) [[IE 9; IE 21]; [IE 21; IE 9]; [IE 2; IE 14]; [IE 13; IE 18]; []] =
  [WOk ([], [17; 19; 8]); WOk ([], [17; 8; 19]); WOk ([2], [8; 19; 17]); WOk ([13], [17; 8; 19]); WOk ([], [])].
Proof. vm_compute. reflexivity. Qed.

(* the second root (wire 9, popped last) finds its wires searched already: each wire is marked once *)
Example exa_cables_all_two_marks :
  wl (acts_cables exa false SAll) (bad_cables exa SAll) 100 [IE 21; IE 9] (mkW [] []) =
  WOk (mkW [20; 9; 21; 18] [OOth 19; OOth 8; OOth 19; OOth 17]).
Proof. vm_compute. reflexivity. Qed.

Example exa_cables_all_two_run : cands_cables exa 100 [IE 2; IE 14] false SAll = WOk ([2], [8; 19; 17]).
Proof. vm_compute. reflexivity. Qed.

(* hence the union of the single-root specifications names exactly these *)
Example exa_cables_two_spec c : (exists it, In it [IE 2; IE 14] /\ cables_all exa it c) <-> In c [8; 19; 17].
Proof.
  symmetry. destruct (cands_cables_all_roots_exact exa exa_qwf false 100 _ _ _ exa_cables_all_two_run) as (_ & _ & H). apply (H c).
Qed.
Example exa_parents_two_spec d : (exists it, In it [IE 2; IE 14] /\ lead_defs exa it d) <-> In d [2].
Proof.
  symmetry. destruct (cands_cables_all_roots_exact exa exa_qwf false 100 _ _ _ exa_cables_all_two_run) as (H & _ & _). apply (H d).
Qed.
Example exa_searched_two w : (exists it, In it [IE 21; IE 9] /\ reach_wire_all exa it w) <-> In w [20; 9; 21; 18].
Proof. symmetry. apply (searched_wires_all_roots_final exa exa_qwf false 100 _ _ exa_cables_all_two_marks w). Qed.

Print Assumptions exa_cables_two_spec.
Print Assumptions exa_searched_two.
