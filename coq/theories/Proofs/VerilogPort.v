(* Engine `verilog`: denotation of connection expressions (C06) and the inverse law of one written
   instance port (C04) *)
From Coq Require Import List ZArith Bool Lia Arith Permutation Sorted.
From SV Require Import Fmt.VBits Fmt.VExpr Proofs.VerilogLists Proofs.VerilogSlice.
Import ListNotations.
Open Scope Z_scope.

Lemma zup_length l h : length (zup l h) = Z.to_nat (h - l + 1).
Proof. unfold zup. rewrite map_length, seq_length. reflexivity. Qed.

Lemma zup_nth l h k : (k < Z.to_nat (h - l + 1))%nat -> nth_error (zup l h) k = Some (l + Z.of_nat k).
Proof.
  intro H. unfold zup. rewrite nth_error_map.
  rewrite (nth_error_nth' _ 0%nat) by (rewrite seq_length; lia). rewrite seq_nth by lia. reflexivity.
Qed.

Lemma zdown_rev h l : rev (zdown h l) = zup l h.
Proof.
  apply list_eq_nth_error.
  - rewrite rev_length, zdown_length, zup_length. reflexivity.
  - intros k Hk. rewrite rev_length, zdown_length in Hk.
    rewrite nth_error_rev_lt by (rewrite zdown_length; lia). rewrite zdown_length.
    rewrite zdown_nth by lia. rewrite zup_nth by lia. f_equal. lia.
Qed.

Lemma zup_rev l h : rev (zup l h) = zdown h l.
Proof. rewrite <- zdown_rev. apply rev_involutive. Qed.

Lemma cable_wires_zup c lo n : cable_wires c lo n = map (fun i => (c, i)) (zup lo (lo + Z.of_nat n - 1)).
Proof.
  unfold cable_wires, zup. rewrite map_map. replace (Z.to_nat (lo + Z.of_nat n - 1 - lo + 1)) with n by lia.
  reflexivity.
Qed.

Lemma rev_flat_map {A B} (f : A -> list B) l : rev (flat_map f l) = flat_map (fun x => rev (f x)) (rev l).
Proof.
  induction l as [|x l IH]; [reflexivity|]. cbn. rewrite rev_app_distr, IH, flat_map_app. cbn.
  rewrite app_nil_r. reflexivity.
Qed.

(* range named by an atom *)
Definition alo (e : env) (a : atom) : Z :=
  match a with AId c => fst (e c) | ABit _ i => i | APart _ _ l => l end.
Definition ahi (e : env) (a : atom) : Z :=
  match a with AId c => fst (e c) + Z.of_nat (snd (e c)) - 1 | ABit _ i => i | APart _ h _ => h end.

Lemma get_range_cable c lo n l h :
  lo <= l -> l <= h -> h <= lo + Z.of_nat n - 1 ->
  get_wires lo (cable_wires c lo n) (Some h) (Some l) = Some (map (fun i => (c, i)) (zdown h l)).
Proof.
  intros H1 H2 H3.
  destruct (get_range (cable_wires c lo n) lo l h H1 H2) as [t [Ht [Hlen Hnth]]];
    [rewrite cable_wires_length; lia|].
  rewrite Ht. f_equal. apply list_eq_nth_error.
  - rewrite map_length, zdown_length. exact Hlen.
  - intros k Hk. rewrite Hnth by exact Hk. rewrite nth_error_map, zdown_nth by lia.
    rewrite cable_wires_nth by lia. cbn. f_equal. f_equal. lia.
Qed.

Lemma atom_reader e a : atom_typed e a ->
  reader_atom e a = Some (map (fun i => (atom_cable a, i)) (zdown (ahi e a) (alo e a))).
Proof.
  intros [Hn Ht]. unfold reader_atom. destruct a as [c|c i|c h l]; cbn [atom_cable alo ahi] in *.
  - cbn [get_wires]. f_equal. rewrite cable_wires_zup, <- map_rev, zup_rev. reflexivity.
  - destruct (get_single (cable_wires c (fst (e c)) (snd (e c))) (fst (e c)) i) as [w [Hw Hg]];
      try rewrite cable_wires_length; try lia.
    rewrite Hg. rewrite cable_wires_nth in Hw by lia. inversion Hw; subst. rewrite zdown_single. cbn.
    f_equal. f_equal. f_equal. lia.
  - apply get_range_cable; lia.
Qed.

Lemma atom_bits_range e a : atom_bits e a = map (fun i => (atom_cable a, i)) (zup (alo e a) (ahi e a)).
Proof. destruct a; cbn; try reflexivity. unfold zup. replace (Z.to_nat (i - i + 1)) with 1%nat by lia. cbn. f_equal. f_equal. lia. Qed.

Lemma reader_cat_spec e l : Forall (atom_typed e) l ->
  reader_cat e l = Some (flat_map (fun a => map (fun i => (atom_cable a, i)) (zdown (ahi e a) (alo e a))) l).
Proof.
  induction 1 as [|a l Ha Hl IH]; [reflexivity|]. cbn [reader_cat flat_map].
  rewrite atom_reader by exact Ha. rewrite IH. rewrite sort_desc_id by apply zdown_sorted. reflexivity.
Qed.

(* the reader's wire list of any well-typed expression, reversed, is the expression's meaning *)
Theorem expr_denote_lemma : forall e x, expr_typed e x ->
  exists t, reader_expr e x = Some t /\ rev t = expr_bits e x.
Proof.
  intros e [a|l] H; cbn [reader_expr expr_bits expr_typed] in *.
  - eexists. split; [apply atom_reader; exact H|]. rewrite <- map_rev, zdown_rev. symmetry. apply atom_bits_range.
  - eexists. split; [apply reader_cat_spec; exact H|]. rewrite rev_flat_map. apply flat_map_ext.
    intro a. rewrite <- map_rev, zdown_rev. symmetry. apply atom_bits_range.
Qed.

(* C06, connection clause: bit k of the expression, counted from its least significant end, is joined to
   pin k of the port - for every expression shape, any port width >= the expression width, any order in
   which the instance lists its pins; and nothing else is joined *)
Theorem port_map_denote_lemma : forall e x (pins : list nat) (n : nat),
  expr_typed e x -> Permutation pins (seq 0 n) -> (length (expr_bits e x) <= n)%nat ->
  exists t calls, reader_expr e x = Some t /\ align Z.of_nat pins t = Some calls /\
    length calls = length (expr_bits e x) /\
    forall k w, nth_error (expr_bits e x) k = Some w -> In (w, k) calls.
Proof.
  intros e x pins n Ht Hp Hle. destruct (expr_denote_lemma e x Ht) as [t [Hr Hb]].
  assert (Hlen : length t = length (expr_bits e x)) by (rewrite <- Hb, rev_length; reflexivity).
  exists t. eexists. split; [exact Hr|]. split; [apply (lowend_align_lemma wire t pins n Hp); lia|]. split.
  - rewrite combine_length, rev_length, seq_length. lia.
  - intros k w Hk. assert (Hlt : (k < length t)%nat) by (rewrite Hlen; apply nth_error_Some; congruence).
    eapply nth_error_In. apply combine_rev_seq_nth; [exact Hlt|].
    rewrite <- Hb in Hk. rewrite nth_error_rev_lt in Hk by exact Hlt. exact Hk.
Qed.

(* ---------------- C04: one written instance port ---------------- *)
Lemma scan_nones name nn last r : nn = true -> concat_scan name nn last (repeat None r) = false.
Proof. intros ->. induction r; cbn; auto. Qed.

Definition consec (c0 : nat) (i0 : Z) (cs : list wire) : Prop :=
  cs = map (fun k => (c0, i0 + Z.of_nat k)) (seq 0 (length cs)).

Lemma scan_false_consec c0 : forall cs r li,
  concat_scan (Some c0) false (Some li) (map Some cs ++ repeat None r) = false -> consec c0 (li + 1) cs.
Proof.
  induction cs as [|[c i] cs IH]; intros r li H; [reflexivity|].
  cbn in H. destruct (Z.eqb_spec i (li + 1)) as [->|]; cbn in H; [|discriminate].
  destruct (Nat.eqb_spec c c0) as [->|]; cbn in H; [|discriminate].
  apply IH in H. unfold consec in *. cbn [length seq map]. f_equal; [f_equal; lia|].
  rewrite H at 1. rewrite <- seq_shift, map_map. apply map_ext. intro k. f_equal. lia.
Qed.

Lemma last_some_app_nones ws r : last_some (ws ++ repeat None r) = last_some ws.
Proof.
  induction ws as [|x ws IH]; cbn.
  - induction r; cbn; [reflexivity|]. rewrite IHr. reflexivity.
  - rewrite IH. reflexivity.
Qed.

Lemma last_some_nth (cs : list wire) : cs <> [] -> last_some (map Some cs) = nth_error cs (length cs - 1).
Proof.
  induction cs as [|x cs IH]; [congruence|]. intros _. destruct cs as [|y cs]; [reflexivity|].
  cbn [map last_some] in *. rewrite IH by congruence. cbn [length].
  replace (S (length cs) - 1)%nat with (length cs) by lia.
  replace (S (S (length cs)) - 1)%nat with (S (length cs)) by lia. cbn [nth_error].
  destruct (nth_error (y :: cs) (length cs)) eqn:E; [reflexivity|].
  apply nth_error_None in E. cbn in E. lia.
Qed.

Lemma consec_nth c0 i0 (cs : list wire) k : consec c0 i0 cs -> (k < length cs)%nat ->
  @nth_error wire cs k = Some ((c0, i0 + Z.of_nat k) : wire).
Proof.
  intros Hc Hk. unfold consec in Hc. rewrite Hc. rewrite nth_error_map.
  rewrite (nth_error_nth' _ 0%nat) by (rewrite seq_length; exact Hk). rewrite seq_nth by exact Hk. reflexivity.
Qed.

Lemma somes_rev_shape (cs : list wire) r : somes (rev (map Some cs ++ repeat None r)) = rev cs.
Proof.
  rewrite rev_app_distr.
  assert (G : forall (l1 l2 : list (option wire)), somes (l1 ++ l2) = somes l1 ++ somes l2).
  { induction l1 as [|[x|] l1 IH]; intros; cbn; rewrite ?IH; reflexivity. }
  rewrite G. assert (N : forall k, somes (rev (repeat (@None wire) k)) = []).
  { induction k; cbn; [reflexivity|]. rewrite G, IHk. reflexivity. }
  rewrite N. cbn. rewrite <- map_rev. induction (rev cs); cbn; [reflexivity|]. f_equal. assumption.
Qed.

Lemma plain_branch : forall (e : env) c0 i0 (cs : list wire) r,
  cs <> [] -> consec c0 i0 cs -> (forall c i, In (c, i) cs -> in_cable e c i) ->
  exists b t, write_plain_port e (map Some cs ++ repeat None r) = Some (c0, b) /\
    get_wires (fst (e c0)) (cable_wires c0 (fst (e c0)) (snd (e c0))) (fst (read_brackets b)) (snd (read_brackets b)) = Some t /\
    t = rev cs.
Proof.
  intros e c0 i0 cs r Hne Hc Hin.
  assert (Hn : (1 <= length cs)%nat) by (destruct cs; [congruence|cbn; lia]).
  set (hi := i0 + Z.of_nat (length cs) - 1).
  assert (Hk0 : (0 < length cs)%nat) by lia.
  assert (Hk1 : (length cs - 1 < length cs)%nat) by lia.
  assert (H0 := consec_nth c0 i0 cs 0%nat Hc Hk0). replace (i0 + Z.of_nat 0) with i0 in H0 by lia.
  assert (H1 := consec_nth c0 i0 cs (length cs - 1)%nat Hc Hk1).
  replace (i0 + Z.of_nat (length cs - 1)) with hi in H1 by (unfold hi; lia).
  assert (Hlast : last_some (map Some cs ++ repeat None r) = Some (c0, hi)).
  { rewrite last_some_app_nones, last_some_nth by exact Hne. exact H1. }
  assert (Hfirst : in_cable e c0 i0) by (apply Hin; eapply nth_error_In; exact H0).
  assert (Hend : in_cable e c0 hi) by (apply Hin; eapply nth_error_In; exact H1).
  destruct Hfirst as [F1 F2]. destruct Hend as [E1 E2].
  destruct (slice_inverse_lemma wire (cable_wires c0 (fst (e c0)) (snd (e c0))) (fst (e c0)) true i0 hi)
    as [b [t [Hb [Hg [Hlen Hnth]]]]]; try rewrite cable_wires_length; try lia; try (unfold hi; lia).
  rewrite cable_wires_length in Hb.
  exists b, t. split; [|split; [exact Hg|]].
  - unfold write_plain_port. rewrite Hlast.
    destruct cs as [|[c1 i1] cs']; [congruence|]. cbn in H0. inversion H0; subst c1 i1.
    cbn [map app]. rewrite Hb. reflexivity.
  - apply list_eq_nth_error.
    + rewrite rev_length, Hlen. unfold hi. lia.
    + intros k Hk. rewrite Hnth by exact Hk. rewrite Hlen in Hk. unfold hi in Hk.
      rewrite cable_wires_nth by (unfold hi; lia).
      rewrite nth_error_rev_lt by lia. symmetry.
      assert (Hk2 : (length cs - 1 - k < length cs)%nat) by lia.
      etransitivity; [exact (consec_nth c0 i0 cs _ Hc Hk2)|].
      f_equal. unfold hi. apply injective_projections; cbn [fst snd]; [reflexivity|lia].
Qed.

(* C04, port clause: for a port whose unconnected pins are at the high end (the shape every port of a
   netlist produced by the reader has), whatever wires its connected pins carry - one ascending run of one
   cable, a single bit, a whole cable, or any mix of cables, repeated wires, constants -, the text written by
   _write_instance_port is read back and aligned so that the wire of pin k is on pin k again, and nothing
   else is connected. *)
Theorem port_emit_inverse_lemma : forall (e : env) (cs : list wire) (r : nat) (pins : list nat),
  (forall c i, In (c, i) cs -> in_cable e c i) ->
  Permutation pins (seq 0 (length cs + r)) ->
  exists txt t,
    emit_port e (map Some cs ++ repeat None r) = Some txt /\ read_port e txt = Some t /\
    align Z.of_nat pins t = Some (combine (rev cs) (rev (seq 0 (length cs)))).
Proof.
  intros e cs r pins Hin Hp. unfold emit_port.
  set (ws := map Some cs ++ repeat None r).
  assert (Hal : forall t, t = rev cs -> align Z.of_nat pins t = Some (combine (rev cs) (rev (seq 0 (length cs))))).
  { intros t ->. rewrite (lowend_align_lemma wire (rev cs) pins (length cs + r) Hp) by (rewrite rev_length; lia).
    rewrite rev_length. reflexivity. }
  destruct (is_pinset_concatenated match ws with Some (c, _) :: _ => Some c | _ => None end ws) eqn:Ecat.
  - (* concatenation *)
    destruct (concat_inverse_lemma e (rev ws)) as [t [Hw Hr]].
    { intros c i Hi. apply in_rev in Hi. unfold ws in Hi. apply in_app_iff in Hi. destruct Hi as [Hi|Hi].
      - apply in_map_iff in Hi. destruct Hi as [[c' i'] [E Hi]]. inversion E; subst. apply Hin. exact Hi.
      - apply repeat_spec in Hi. discriminate. }
    rewrite Hw. exists (PConcat t). eexists. split; [reflexivity|]. split; [exact Hr|].
    apply Hal. unfold ws. apply somes_rev_shape.
  - destruct cs as [|[c0 i0] cs'].
    + (* no pin connected: ".p()" *)
      assert (Hws : match ws with Some _ :: _ => False | _ => True end) by (unfold ws; destruct r; exact I).
      destruct ws as [|[w|] ws']; try contradiction; exists PEmpty, []; repeat split; apply Hal; reflexivity.
    + (* plain slice *)
      assert (Hc : consec c0 i0 ((c0, i0) :: cs')).
      { unfold is_pinset_concatenated, ws in Ecat. cbn in Ecat. rewrite Nat.eqb_refl in Ecat. cbn in Ecat.
        apply scan_false_consec in Ecat. unfold consec in *. cbn [length seq map]. f_equal; [f_equal; lia|].
        rewrite Ecat at 1. rewrite <- seq_shift, map_map. apply map_ext. intro k. f_equal. lia. }
      destruct (plain_branch e c0 i0 ((c0, i0) :: cs') r ltac:(congruence) Hc Hin) as [b [t [Hw [Hg Ht]]]].
      unfold ws in *. cbn [map app] in Hw |- *. rewrite Hw.
      exists (PPlain c0 b), t. split; [reflexivity|]. split; [exact Hg|]. apply Hal. exact Ht.
Qed.
