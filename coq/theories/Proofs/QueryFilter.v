(* Whole queries of Query/Filter.v (stage A then stage B), the instance with patterns.py plugged in,
   and the concrete witnesses of the duplicate yields. *)
From Coq Require Import List NArith Arith Bool Lia Permutation String.
From SV Require Import Base.Base Query.Glob Query.Regex Query.Patterns Query.Filter
  Proofs.QueryGlob Proofs.QueryFilterA Proofs.QueryFilterB.
Import ListNotations.

Section Query.
Variable key : id -> option str.
Variable fold : id -> bool.
Variable mt : str -> str -> bool.
Variable ab : str -> bool.

Notation any_match := (any_match key fold mt ab).
Notation query := (query key fold mt ab).

(* the candidates of a query: the children of the parents reached (those carrying the key, for
   get_instances) and the other elements reached *)
Definition is_cand (nk : bool) (parents : list ((str -> list id) * list id)) (others : list id) (e : id) : Prop :=
  (In e (cands parents) /\ keyok key nk e) \/ In e others.

Definition parents_ok (nk : bool) (parents : list ((str -> list id) * list id)) : Prop :=
  Forall (fun pr => parent_ok key fold mt ab nk (fst pr) (snd pr)) parents.

Lemma good_pats_perm pats pats' : Permutation pats pats' -> good_pats ab pats -> good_pats ab pats'.
Proof.
  intros Hp Hg p Hi. apply Hg. eapply Permutation_in; [apply Permutation_sym; exact Hp|exact Hi].
Qed.

(* result = the candidates that match one of the patterns, as a set *)
Theorem query_spec nk bk parents others pats :
  parents_ok nk parents -> good_pats ab pats -> forall e,
  In e (query nk bk parents others pats) <-> is_cand nk parents others e /\ any_match pats e = true.
Proof.
  intros Hok Hg e. unfold Filter.query, is_cand. rewrite in_app_iff.
  pose proof (stageA_spec key fold mt ab nk parents pats Hok Hg [] e) as HA. cbn [In] in HA.
  destruct bk.
  - rewrite (stageB_found_spec key fold mt ab), HA. split.
    + intros [H|H]; tauto.
    + intros [[H|H] Hm]; [left; tauto|].
      destruct (in_dec Nat.eq_dec e (stageA key mt ab nk parents pats [])) as [Hi|Hi].
      * left. apply HA. exact Hi.
      * right. tauto.
  - rewrite (stageB_names_spec key fold mt ab), HA. split.
    + intros [H|H]; tauto.
    + intros [[H|H] Hm]; [left; tauto|].
      destruct (in_dec Nat.eq_dec e (stageA key mt ab nk parents pats [])) as [Hi|Hi].
      * left. apply HA. exact Hi.
      * right. tauto.
Qed.

(* nothing is yielded twice *)
Theorem query_NoDup nk bk parents others pats : NoDup (query nk bk parents others pats).
Proof.
  unfold Filter.query. apply NoDup_app_iff. split; [apply (stageA_NoDup key fold)|]. destruct bk.
  - split; [apply (stageB_found_NoDup key fold mt ab)|].
    intros x Hx Hb. apply (stageB_found_spec key fold mt ab) in Hb. tauto.
  - split; [apply (stageB_names_NoDup key fold mt ab)|].
    intros x Hx Hb. apply (stageB_names_spec key fold mt ab) in Hb. tauto.
Qed.

(* without stage-B elements (one root of the parent kind) nothing is yielded twice either *)
Theorem query_NoDup_stageA nk bk parents pats : NoDup (query nk bk parents [] pats).
Proof.
  unfold Filter.query. destruct bk; cbn; rewrite app_nil_r; apply (stageA_NoDup key fold).
Qed.

(* the order of the patterns does not matter (as a set) *)
Theorem query_perm nk bk parents others pats pats' :
  parents_ok nk parents -> good_pats ab pats -> Permutation pats pats' -> forall e,
  In e (query nk bk parents others pats) <-> In e (query nk bk parents others pats').
Proof.
  intros Hok Hg Hp e. rewrite (query_spec nk bk parents others pats Hok Hg e).
  rewrite (query_spec nk bk parents others pats' Hok (good_pats_perm _ _ Hp Hg) e).
  rewrite (any_match_perm key fold mt ab pats pats' e Hp). tauto.
Qed.

(* the registered fast lookup and the linear scan of global_service.lookup give the same result
   (the same list) when they answer alike *)
Theorem query_fast_eq_scan nk bk parents parents' others pats :
  Forall2 same_answers parents parents' ->
  query nk bk parents others pats = query nk bk parents' others pats.
Proof.
  intro H. unfold Filter.query. rewrite (stageA_ext key mt ab nk parents parents' pats H []). reflexivity.
Qed.

Definition with_scan (parents : list ((str -> list id) * list id)) : list ((str -> list id) * list id) :=
  map (fun pr => (scan_lookup key fold (snd pr), snd pr)) parents.

Lemma lookup_ok_same_answers parents :
  Forall (fun pr => lookup_ok key fold (fst pr) (snd pr)) parents -> Forall2 same_answers parents (with_scan parents).
Proof.
  induction 1 as [|[lk ch] rest H _ IH]; cbn; constructor; [|exact IH].
  split; [reflexivity|]. intro p. cbn. apply H.
Qed.

Lemma lookup_ok_parents_ok nk parents :
  Forall (fun pr => lookup_ok key fold (fst pr) (snd pr)) parents -> parents_ok nk parents.
Proof.
  unfold parents_ok. induction 1 as [|[lk ch] rest H1 _ IH]; constructor; [|exact IH].
  cbn [fst snd] in *. apply (lookup_ok_parent_ok key fold mt ab); assumption.
Qed.

End Query.

(* ------------------------------------------------------------------------------------------ *)
(* patterns.py plugged in *)

Lemma patterns_abs_eq ic ir p v : absolute_b ic ir p = true -> (matches_b ic ir p v = true <-> v = p).
Proof.
  unfold absolute_b, matches_b, value_matches. intro H.
  pose proof (absolute_match_eq p ic ir (Some v) H) as E. apply absolute_iff in H as (-> & -> & _).
  cbn [value_or_empty] in E. cbn iota. exact E.
Qed.

Lemma no_empty_good_pats ic ir pats : ~ In [] pats -> good_pats (absolute_b ic ir) pats.
Proof. intros H p Hp _ E. subst p. contradiction. Qed.

(* case-insensitive wildcard matching = matching of the lower-cased sides *)
Lemma matches_nocase p v : matches_b false false p v = matches_b true false (lower p) (lower v).
Proof.
  unfold matches_b, value_matches. rewrite !value_matches_glob_eq. reflexivity.
Qed.

(* ------------------------------------------------------------------------------------------ *)
(* witnesses: one element whose name is  a ; patterns  a  and  a*  (is_case, not is_re) *)

Definition w_key (e : id) : option str := match e with O => Some (s2l "a") | _ => None end.
Definition w_pats : list str := [s2l "a"; s2l "a*"].

(* the former witnesses of the duplicate yields (findings C13-K1, C13-K2), now yielded once:
   get_instances(instance, ['a', 'a*']) *)
Lemma witness_found_once : run_query true false w_key (fun _ => false) true BFound [] [0] w_pats = [0].
Proof. vm_compute. reflexivity. Qed.

(* get_instances(instance, ['a*', 'a']) and (instance, ['a', 'a']) *)
Lemma witness_found_once_rev :
  run_query true false w_key (fun _ => false) true BFound [] [0] [s2l "a*"; s2l "a"] = [0] /\
  run_query true false w_key (fun _ => false) true BFound [] [0] [s2l "a"; s2l "a"] = [0].
Proof. vm_compute. split; reflexivity. Qed.

(* get_definitions / get_ports / get_cables (instance, ['a', 'a*']): the name is consumed *)
Lemma witness_names_once : run_query true false w_key (fun _ => false) false BNames [] [0] w_pats = [0].
Proof. vm_compute. reflexivity. Qed.

(* get_instances([definition, instance-of-it], 'a*'): stage A finds the child, stage B leaves it alone *)
Lemma witness_found_not_reiterated :
  run_query true false w_key (fun _ => false) true BFound [(scan_lookup w_key (fun _ => false) [0], [0])] [0] [s2l "a*"] = [0].
Proof. vm_compute. reflexivity. Qed.

(* a non-trivial input satisfying the hypotheses of query_spec / query_perm / query_fast_eq_scan:
   a parent with children 1 2 3 named a, ab, b and two other elements 4 (a[0]) and 2 *)
Definition x_key (e : id) : option str :=
  match e with
  | 1 => Some (s2l "a") | 2 => Some (s2l "ab") | 3 => Some (s2l "b") | 4 => Some (s2l "a[0]")
  | _ => None
  end.
Definition x_parents : list ((str -> list id) * list id) := [(scan_lookup x_key (fun _ => false) [1; 2; 3], [1; 2; 3])].

Example x_uniq : uniq_keys x_key [1; 2; 3].
Proof.
  intros c1 c2 w H1 H2 K1 K2. cbn in H1, H2.
  destruct H1 as [<-|[<-|[<-|[]]]]; destruct H2 as [<-|[<-|[<-|[]]]]; try reflexivity;
    exfalso; rewrite <- K2 in K1; vm_compute in K1; discriminate K1.
Qed.

Example x_hyps :
  parents_ok x_key (fun _ => false) (matches_b true false) (absolute_b true false) false x_parents /\
  good_pats (absolute_b true false) [s2l "a[0]"; s2l "a*"].
Proof.
  split.
  - constructor; [|constructor]. cbn [fst snd].
    apply (scan_lookup_ok x_key (fun _ => false) (matches_b true false) (absolute_b true false)).
  - apply no_empty_good_pats. cbn. intros [H|[H|[]]]; discriminate.
Qed.

Example x_result :
  run_query true false x_key (fun _ => false) false BNames x_parents [4; 2] [s2l "a[0]"; s2l "a*"] = [1; 2; 4].
Proof. vm_compute. reflexivity. Qed.

(* ------------------------------------------------------------------------------------------ *)
(* the statements about the stages with patterns.py plugged in (run_query / run_netlists / run_hier) *)

Definition lookups_ok (key : id -> option str) (fold : id -> bool) (parents : list ((str -> list id) * list id)) : Prop :=
  Forall (fun pr => lookup_ok key fold (fst pr) (snd pr)) parents.

Definition sel_match (ic ir : bool) (key : id -> option str) (fold : id -> bool) (pats : list str) (e : id) : bool :=
  any_match key fold (matches_b ic ir) (absolute_b ic ir) pats e.

Lemma lookups_ok_fst key fold parents : lookups_ok key fold parents ->
  Forall (fun pr => lookup_ok key fold (fst pr) (snd pr)) parents.
Proof. intro H. exact H. Qed.

Theorem run_query_spec ic ir key fold nk bk parents others pats :
  lookups_ok key fold parents -> ~ In [] pats -> forall e,
  In e (run_query ic ir key fold nk bk parents others pats) <->
  is_cand key nk parents others e /\ sel_match ic ir key fold pats e = true.
Proof.
  intros Hl Hp. apply (query_spec key fold (matches_b ic ir) (absolute_b ic ir)).
  - apply (lookup_ok_parents_ok key fold (matches_b ic ir) (absolute_b ic ir)). exact Hl.
  - apply no_empty_good_pats, Hp.
Qed.

Theorem run_query_NoDup ic ir key fold nk bk parents others pats :
  NoDup (run_query ic ir key fold nk bk parents others pats).
Proof. apply (query_NoDup key fold (matches_b ic ir) (absolute_b ic ir)). Qed.

Theorem run_query_NoDup_stageA ic ir key fold nk bk parents pats :
  NoDup (run_query ic ir key fold nk bk parents [] pats).
Proof. apply query_NoDup_stageA. Qed.

Theorem run_query_perm ic ir key fold nk bk parents others pats pats' :
  lookups_ok key fold parents -> ~ In [] pats -> Permutation pats pats' -> forall e,
  In e (run_query ic ir key fold nk bk parents others pats) <-> In e (run_query ic ir key fold nk bk parents others pats').
Proof.
  intros Hl Hp HP. apply (query_perm key fold (matches_b ic ir) (absolute_b ic ir)); [|apply no_empty_good_pats, Hp|exact HP].
  apply (lookup_ok_parents_ok key fold (matches_b ic ir) (absolute_b ic ir)). exact Hl.
Qed.

Theorem run_query_fast_eq_scan ic ir key fold nk bk parents others pats :
  lookups_ok key fold parents ->
  run_query ic ir key fold nk bk parents others pats = run_query ic ir key fold nk bk (with_scan key fold parents) others pats.
Proof.
  intro Hl. apply query_fast_eq_scan. apply lookup_ok_same_answers, lookups_ok_fst, Hl.
Qed.

Theorem run_netlists_spec ic ir key fold objs pats : ~ In [] pats ->
  NoDup (run_netlists ic ir key fold objs pats) /\
  forall e, In e (run_netlists ic ir key fold objs pats) <-> In e objs /\ sel_match ic ir key fold pats e = true.
Proof.
  intro Hp. apply (stageB_netlists_spec key fold (matches_b ic ir) (absolute_b ic ir)). apply no_empty_good_pats, Hp.
Qed.

Theorem run_hier_spec ic ir hname refs in_yield pats : NoDup refs ->
  NoDup (run_hier ic ir hname refs in_yield pats) /\
  forall e, In e (run_hier ic ir hname refs in_yield pats) <->
            In e refs /\ ~ In e in_yield /\ existsb (fun p => matches_b ic ir p (hname e)) pats = true.
Proof. apply (stageB_hier_spec _ _ (patterns_abs_eq ic ir)). Qed.

(* the property at full strength on the two-stage queries: set equality with the filtered
   candidates, no duplicates, independence of the pattern order and of the lookup path *)
Definition filter_full_statement : Prop :=
  forall ic ir key fold nk bk parents others pats,
    lookups_ok key fold parents -> ~ In [] pats ->
    let r := run_query ic ir key fold nk bk parents others pats in
    (forall e, In e r <-> is_cand key nk parents others e /\ sel_match ic ir key fold pats e = true) /\
    NoDup r /\
    (forall pats', Permutation pats pats' -> forall e,
        In e r <-> In e (run_query ic ir key fold nk bk parents others pats')) /\
    r = run_query ic ir key fold nk bk (with_scan key fold parents) others pats.

Theorem filter_full : filter_full_statement.
Proof.
  intros ic ir key fold nk bk parents others pats Hl Hp r. unfold r. split; [|split; [|split]].
  - apply run_query_spec; assumption.
  - apply run_query_NoDup.
  - intros pats' HP. apply run_query_perm; assumption.
  - apply run_query_fast_eq_scan. exact Hl.
Qed.

(* the hypotheses of filter_full on a non-trivial input *)
Example x_lookups_ok : lookups_ok x_key (fun _ => false) x_parents /\ ~ In [] [s2l "a[0]"; s2l "a*"].
Proof.
  split.
  - constructor; [|constructor]. cbn [fst snd]. intro p. reflexivity.
  - cbn. intros [H|[H|[]]]; discriminate.
Qed.

(* further concrete inputs satisfying the hypotheses of the implications *)
Example x_no_wild : no_wild (s2l "a[0]!-]") /\ glob_match (s2l "a[0]!-]") (s2l "a[0]!-]") = true.
Proof.
  split; [|vm_compute; reflexivity]. apply no_wild_existsb. vm_compute. reflexivity.
Qed.

Example x_netlists :
  ~ In [] [s2l "n1"; s2l "N*"] /\
  run_netlists false false (fun e => match e with 0 => Some (s2l "n1") | 1 => Some (s2l "n2") | _ => None end)
               (fun _ => false) [0; 1; 0; 2] [s2l "n1"; s2l "N*"] = [0; 1].
Proof. split; [cbn; intros [H|[H|[]]]; discriminate|vm_compute; reflexivity]. Qed.

Example x_hier :
  NoDup [0; 1; 2] /\
  run_hier true false (fun e => match e with 0 => s2l "u0" | 1 => s2l "u0/c" | _ => s2l "u1" end)
           [0; 1; 2] [2] [s2l "u0"; s2l "u*"] = [0; 1].
Proof.
  split; [|vm_compute; reflexivity].
  repeat constructor; cbn; intuition discriminate.
Qed.

(* elements that compare case-insensitively (EDIF identifiers under the EDIF policy): 1 folds, 2 does not;
   both carry "Foo"; the exact pattern FOO selects 1 only - in stage B and through the scan of a parent *)
Definition f_key (e : id) : option str := match e with 1 | 2 => Some (s2l "Foo") | _ => None end.
Definition f_fold (e : id) : bool := match e with 1 => true | _ => false end.

Example x_fold :
  run_query true false f_key f_fold false BNames [] [1; 2] [s2l "FOO"] = [1] /\
  run_query true false f_key f_fold false BNames [(scan_lookup f_key f_fold [1; 2], [1; 2])] [] [s2l "FOO"] = [1] /\
  run_query true false f_key f_fold true BFound [] [1; 2] [s2l "FOO"] = [1] /\
  run_netlists true false f_key f_fold [1; 2] [s2l "FOO"] = [1].
Proof. vm_compute. repeat split; reflexivity. Qed.
