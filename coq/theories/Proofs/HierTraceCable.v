(* C12, CABLE starts: get_hwires(selection = ALL) from a hierarchical cable returns exactly the union
   of the connectivity classes of the wires of the cable, each wire occurrence once.

   The Cable branch of _get_hwires_raw re-queues one reference per wire; the Wire branch yields the
   wire and re-queues its hierarchical pins, which (when valid) end up in the start set of the
   closure. The model folds this into phase 1 (hw_phase1_wire); [phase1_cable_ALL] computes the fold. *)
From Coq Require Import List Arith Bool Lia Relations.
From SV Require Import Base.Base IR.State Proofs.Inv1a Proofs.Inv2a Hier.Paths Hier.Enum Hier.Trace Hier.Conn
  Proofs.HierValid Proofs.HierEnum Proofs.HierClosure Proofs.HierTrace Proofs.HierTracePort.
Import ListNotations.

(* the accumulation of phase 1 over the wires of a cable *)
Lemma fold_pair_app : forall (X T U : Type) (f : X -> list T * list U) (l : list X) (acc : list T * list U),
  fold_left (fun acc w => pair_app acc (f w)) l acc =
  (fst acc ++ flat_map (fun w => fst (f w)) l, snd acc ++ flat_map (fun w => snd (f w)) l).
Proof.
  intros X T U f. induction l as [|w l IH]; intros [a b]; cbn [fold_left flat_map fst snd].
  - rewrite !app_nil_r. reflexivity.
  - rewrite IH. unfold pair_app. cbn [fst snd]. rewrite !app_assoc. reflexivity.
Qed.

Lemma flat_map_ext_in : forall (X Y : Type) (f g : X -> list Y) (l : list X),
  (forall x, In x l -> f x = g x) -> flat_map f l = flat_map g l.
Proof.
  intros X Y f g. induction l as [|x l IH]; intro H; cbn; [reflexivity|].
  rewrite (H x (or_introl eq_refl)). f_equal. apply IH. intros y Hy. apply H. right; exact Hy.
Qed.

Lemma flat_map_single : forall (X Y : Type) (f : X -> Y) (l : list X),
  flat_map (fun x => [f x]) l = map f l.
Proof. intros X Y f. induction l as [|x l IH]; cbn; [reflexivity|]. rewrite IH. reflexivity. Qed.

Section CableStart.
  Variable s : state.
  Variable t : id.
  Hypothesis I1 : Inv1a s.
  Hypothesis I2 : Inv2a s.
  Hypothesis K : WFk s.
  Hypothesis C : WFc s.
  Hypothesis Hroot : is_root s t.

  Local Notation GA := (hpin_occ s t).
  Local Notation GB := (hwire_occ s t).
  Local Notation nbA := (nb_sel s SAll).
  Local Notation pinsB := (hpins_of_hwire s).
  Local Notation rch := (reach href href nbA pinsB).

  Lemma cable_occ_valid : forall c x p, is_rpath s t (x :: p) -> In c (cables_of s x) ->
    is_valid s (c :: x :: p) = true.
  Proof.
    intros c x p Hp Hc. apply (is_valid_iff s _ I1 I2 K).
    apply hr_cable with t; [split; assumption|assumption].
  Qed.

  Lemma cable_occ_kind : forall c x, In c (cables_of s x) -> kind_of s c = Some KCable.
  Proof.
    intros c x Hc. unfold cables_of in Hc. destruct (iref s x) as [d|]; [|destruct Hc].
    exact (wk_kids s K RCables d c Hc).
  Qed.

  Lemma cable_wire_occ : forall c x p w, is_rpath s t (x :: p) -> In c (cables_of s x) ->
    In w (kids s RWires c) -> GB (w :: c :: x :: p).
  Proof. intros c x p w Hp Hc Hw. exists w, c, x, p. auto. Qed.

  (* every hierarchical pin of a wire occurrence is valid: the Wire branch drops nothing *)
  Lemma wire_hpins_all_valid : forall b, GB b -> wire_hpins_valid s b = pinsB b.
  Proof.
    intros b G. unfold wire_hpins_valid. apply filter_all_true. intros a Ha.
    apply (GA_valid s t I1 I2 K Hroot). exact (g_pins s t I1 C b a G Ha).
  Qed.

  (* phase 1 of the Cable branch under ALL: the wires of the cable, and all of their pins *)
  Lemma phase1_cable_ALL : forall c x p, is_rpath s t (x :: p) -> In c (cables_of s x) ->
    fold_left (fun acc w => pair_app acc (hw_phase1_wire s SAll (w :: c :: x :: p)))
              (kids s RWires c) ([], []) =
    (map (fun w => w :: c :: x :: p) (kids s RWires c),
     flat_map (fun w => pinsB (w :: c :: x :: p)) (kids s RWires c)).
  Proof.
    intros c x p Hp Hc.
    rewrite (fold_pair_app id href href (fun w => hw_phase1_wire s SAll (w :: c :: x :: p))).
    cbn [fst snd app hw_phase1_wire]. rewrite flat_map_single.
    rewrite (flat_map_ext_in id href (fun w => wire_hpins_valid s (w :: c :: x :: p))
               (fun w => pinsB (w :: c :: x :: p))); [reflexivity|].
    intros w Hw. apply wire_hpins_all_valid. exact (cable_wire_occ c x p w Hp Hc Hw).
  Qed.

  Lemma cable_start_occ : forall c x p, is_rpath s t (x :: p) -> In c (cables_of s x) ->
    forall a, In a (flat_map (fun w => pinsB (w :: c :: x :: p)) (kids s RWires c)) -> GA a.
  Proof.
    intros c x p Hp Hc a Ha. apply in_flat_map in Ha as (w & Hw & Ha).
    exact (g_pins s t I1 C _ a (cable_wire_occ c x p w Hp Hc Hw) Ha).
  Qed.

  Lemma get_hwires_cable_run : forall usum c x p found,
    is_rpath s t (x :: p) -> In c (cables_of s x) ->
    hw_close s SAll (close_fuel usum (flat_map (fun w => pinsB (w :: c :: x :: p)) (kids s RWires c)))
             (flat_map (fun w => pinsB (w :: c :: x :: p)) (kids s RWires c)) = Some found ->
    get_hwires s SAll false usum (c :: x :: p) =
    Some (href_union (href_union [] (map (fun w => w :: c :: x :: p) (kids s RWires c))) (rev found)).
  Proof.
    intros usum c x p found Hp Hc E.
    unfold get_hwires. rewrite (cable_occ_valid c x p Hp Hc). cbn [negb].
    rewrite (cable_occ_kind c x Hc). cbn beta iota zeta.
    rewrite (phase1_cable_ALL c x p Hp Hc).
    unfold href in *. rewrite E. reflexivity.
  Qed.

  Theorem get_hwires_ALL_cable : forall n U c x p,
    acyclic s -> top s n = Some t -> all_hwires s n = Some U ->
    is_rpath s t (x :: p) -> In c (cables_of s x) ->
    exists l, get_hwires s SAll false (pin_weight s U) (c :: x :: p) = Some l /\ NoDup l /\
              (forall b, In b l <-> exists w, In w (kids s RWires c) /\
                                              Conn.conn s t (w :: c :: x :: p) b).
  Proof.
    intros n U c x p A Ht HU Hp Hc.
    pose proof (cable_start_occ c x p Hp Hc) as Hs.
    destruct (hw_close_ALL_reach s t I1 K C n U _ A Ht HU Hs) as (found & Ef & Nf & Sf).
    eexists. split; [exact (get_hwires_cable_run _ c x p found Hp Hc Ef)|].
    split; [apply result_nodup|].
    intro b. rewrite result_In, <- in_rev, Sf, reach_flat_map, in_map_iff. split.
    - intros [(w & E & Hw)|(w & Hw & Hr)]; exists w; (split; [exact Hw|]);
        apply (wire_reach_conn s t I1 C _ b (cable_wire_occ c x p w Hp Hc Hw));
        [left; symmetry; exact E|right; exact Hr].
    - intros (w & Hw & Hcn).
      apply (wire_reach_conn s t I1 C _ b (cable_wire_occ c x p w Hp Hc Hw)) in Hcn as [->|Hr].
      + left. exists w. auto.
      + right. exists w. auto.
  Qed.
End CableStart.

Print Assumptions get_hwires_ALL_cable.
