(* Exact connectivity of the copies: the pin-wire fields of every copied pin, wire and instance are
   the images of those of its source under the running memo. An instance copy keeps the keys of its
   source (the inner pins of the source definition) until its reference is redirected, at which
   point its outer pins are re-keyed to the images. *)
From Coq Require Import List Arith Bool Lia.
From RecordUpdate Require Import RecordSet.
From SV Require Import Base.Base IR.State IR.NS IR.Ops Xform.Clone Proofs.AssocX Proofs.Frame Proofs.Inv1a
  Proofs.InvP Proofs.InvW Proofs.Fresh Proofs.NsInv Proofs.CloneInv Proofs.RefK Proofs.CloneRef Proofs.CloneT Proofs.FieldT
  Proofs.CloneMemo Proofs.CloneRR Proofs.CloneFaith Proofs.CloneInvP Proofs.Repoint.
From SV Require Import Proofs.CloneMemoK Proofs.CloneFaithK Proofs.CloneStage Proofs.CloneStageP Proofs.CloneRekey.
Import ListNotations RecordSetNotations.

(* has the copy b had its reference redirected to a copied definition? *)
Definition rk (s0 s : state) (b : id) : bool :=
  match iref s b with Some e => Nat.leb (next s0) e | None => false end.
Definition kmap (m : memo) (f : bool) (k : id) : option id := if f then mget m k else Some k.
Definition imapk (m : memo) (f : bool) (kv : id * option id) : option (id * option id) :=
  match kmap m f (fst kv), mwire m (snd kv) with Some k', Some o => Some (k', o) | _, _ => None end.
Definition mpink (s0 s : state) (m : memo) (p : pin) : option pin :=
  match p with
  | PIn i => option_map PIn (mget m i)
  | POut n i =>
      match mget m n, assoc i (ipins s0 n) with
      | Some n', Some _ => option_map (POut n') (kmap m (rk s0 s n') i)
      | _, _ => None
      end
  | PDet => None
  end.

Record EX (s0 s : state) (m : memo) : Prop := mkEX {
  ex_pin : forall a b, In (a, b) m -> kind_of s0 a = Some KPin -> mwire m (ipwire s0 a) = Some (ipwire s b);
  ex_inst : forall a b, In (a, b) m -> kind_of s0 a = Some KInstance -> map_opt (imapk m (rk s0 s b)) (ipins s0 a) = Some (ipins s b);
  ex_wire : forall a b, In (a, b) m -> kind_of s0 a = Some KWire -> map_opt (mpink s0 s m) (wpins s0 a) = Some (wpins s b)
}.

Lemma ex_start s0 : EX s0 s0 [].
Proof. constructor; intros a b []. Qed.

Lemma imapk_false m kv : imapk m false kv = imap m kv.
Proof. unfold imapk, imap, kmap. destruct (mwire m (snd kv)); reflexivity. Qed.

Lemma kmap_mono (m m' : memo) f k k' : msub m m' -> NoDup (map fst m') -> kmap m f k = Some k' -> kmap m' f k = Some k'.
Proof. unfold kmap. destruct f; [apply mget_mono|intros _ _ H; exact H]. Qed.
Lemma imapk_mono (m m' : memo) f kv r : msub m m' -> NoDup (map fst m') -> imapk m f kv = Some r -> imapk m' f kv = Some r.
Proof.
  intros Hs Hn. unfold imapk. destruct (kmap m f (fst kv)) as [k'|] eqn:Ek; [|discriminate]. destruct (mwire m (snd kv)) as [o|] eqn:Eo; [|discriminate].
  rewrite (kmap_mono m m' f _ _ Hs Hn Ek), (mwire_mono m m' _ _ Hs Hn Eo). intro H. exact H.
Qed.
Lemma mpink_mono s0 s (m m' : memo) q p : msub m m' -> NoDup (map fst m') -> mpink s0 s m q = Some p -> mpink s0 s m' q = Some p.
Proof.
  intros Hs Hn. destruct q as [i|n i|]; cbn; [| |discriminate].
  - destruct (mget m i) as [i'|] eqn:E; [|discriminate]. rewrite (mget_mono m m' i i' Hs Hn E). intro H. exact H.
  - destruct (mget m n) as [n'|] eqn:E; [|discriminate]. rewrite (mget_mono m m' n n' Hs Hn E).
    destruct (assoc i (ipins s0 n)); [|discriminate]. destruct (kmap m (rk s0 s n') i) as [k'|] eqn:Ek; [|discriminate].
    rewrite (kmap_mono m m' _ _ _ Hs Hn Ek). intro H. exact H.
Qed.

(* the flags only depend on the references of the images *)
Lemma mpink_flags s0 s s' m q : (forall a b, In (a, b) m -> iref s' b = iref s b) -> mpink s0 s' m q = mpink s0 s m q.
Proof.
  intro H. destruct q as [i|n i|]; cbn; try reflexivity. destruct (mget m n) as [n'|] eqn:E; [|reflexivity].
  unfold rk. rewrite (H n n' (mget_in _ _ _ E)). reflexivity.
Qed.

(* a step that leaves the pin-wire fields and references of all images alone, and adds only entries that carry none *)
Lemma ex_grow s0 s s' m m' :
  EX s0 s m -> msub m m' -> NoDup (map fst m') ->
  (forall a b, In (a, b) m -> ipwire s' b = ipwire s b /\ wpins s' b = wpins s b /\ ipins s' b = ipins s b /\ iref s' b = iref s b) ->
  (forall a b, In (a, b) m' -> ~ In (a, b) m -> kind_of s0 a <> Some KPin /\ kind_of s0 a <> Some KWire /\ kind_of s0 a <> Some KInstance) ->
  EX s0 s' m'.
Proof.
  intros [P I W] Hs Hn Hf Hnew.
  assert (Hold : forall a b, In (a, b) m' -> (kind_of s0 a = Some KPin \/ kind_of s0 a = Some KWire \/ kind_of s0 a = Some KInstance) -> In (a, b) m).
  { intros a b H Hk. destruct (in_memo_dec m a b) as [Hi|Hi]; [exact Hi|]. destruct (Hnew a b H Hi) as [A [B C]]. destruct Hk as [Hk|[Hk|Hk]]; contradiction. }
  constructor.
  - intros a b H Hk. pose proof (Hold a b H (or_introl Hk)) as Hi. destruct (Hf a b Hi) as [-> _].
    apply (mwire_mono m m' _ _ Hs Hn). apply (P a b Hi Hk).
  - intros a b H Hk. pose proof (Hold a b H (or_intror (or_intror Hk))) as Hi. destruct (Hf a b Hi) as [_ [_ [E1 E2]]]. rewrite E1.
    unfold rk. rewrite E2. fold (rk s0 s b).
    apply (map_opt_mono (imapk m (rk s0 s b)) (imapk m' (rk s0 s b))); [intros kv r; apply (imapk_mono m m' _ kv r Hs Hn)|apply (I a b Hi Hk)].
  - intros a b H Hk. pose proof (Hold a b H (or_intror (or_introl Hk))) as Hi. destruct (Hf a b Hi) as [_ [E1 _]]. rewrite E1.
    apply (map_opt_mono (mpink s0 s m) (mpink s0 s' m')); [|apply (W a b Hi Hk)].
    intros q p Hq. apply (mpink_mono s0 s' m m' q p Hs Hn).
    rewrite (mpink_flags s0 s s' m q); [exact Hq|]. intros a0 b0 H0. apply (Hf a0 b0 H0).
Qed.

Lemma ex_same s0 s s' m :
  EX s0 s m -> NoDup (map fst m) -> ipwire s' = ipwire s -> wpins s' = wpins s -> ipins s' = ipins s -> iref s' = iref s -> EX s0 s' m.
Proof.
  intros E Hn A B C D. apply (ex_grow s0 s s' m m E (fun e H => H) Hn).
  - intros a b _. rewrite A, B, C, D. repeat split.
  - intros a b H Hno. contradiction.
Qed.

Lemma map_opt_ext_in {A B} (f g : A -> option B) l : (forall x, In x l -> f x = g x) -> map_opt f l = map_opt g l.
Proof.
  induction l as [|a l IH]; intro H; cbn; [reflexivity|]. rewrite (H a (or_introl eq_refl)), IH; [reflexivity|]. intros x Hx. apply H. right. exact Hx.
Qed.

(* ---- a finished stage (a definition, or a free-standing instance) ---- *)
Lemma ex_of_stage s0 s G m m' K :
  ST s0 s m -> EX s0 s m -> StageOut s0 s G m m' K -> InvP s0 -> FT s0 -> Fresh s0 -> RefK s0 -> EX s0 G m'.
Proof.
  intros T [P I W] S P0 FT0 F0 K0.
  assert (Hcase : forall a b, In (a, b) m' -> (In (a, b) m /\ b < next s) \/ next s <= b).
  { intros a b H. destruct (Nat.lt_ge_cases b (next s)) as [Hl|Hg]; [left; split; [apply (old_entry s0 s G m m' K S a b H Hl)|exact Hl]|right; exact Hg]. }
  assert (Hflag_old : forall a b, In (a, b) m -> rk s0 G b = rk s0 s b).
  { intros a b H. destruct (st_rng _ _ _ T a b H) as [_ [_ Hb]]. destruct (so_old _ _ _ _ _ _ S b Hb) as [_ [_ [_ [_ Hr]]]]. unfold rk. rewrite Hr. reflexivity. }
  assert (Hflag_new : forall a b, In (a, b) m' -> next s <= b -> kind_of s0 a = Some KInstance -> rk s0 G b = false).
  { intros a b H Hb Hk. destruct (so_inst _ _ _ _ _ _ S a b H Hb Hk) as [_ Hr]. unfold rk. rewrite Hr.
    destruct (iref s0 a) as [e|] eqn:Er; [|reflexivity]. pose proof (ref_lt s0 a e K0 F0 Er). apply Nat.leb_gt. exact H0. }
  pose proof (so_sub _ _ _ _ _ _ S) as Hs. pose proof (so_fun _ _ _ _ _ _ S) as Hn.
  constructor.
  - intros a b H Hk. destruct (Hcase a b H) as [[Hi Hb]|Hb]; [|apply (so_pin _ _ _ _ _ _ S a b H Hb Hk)].
    destruct (so_old _ _ _ _ _ _ S b Hb) as [-> _]. apply (mwire_mono m m' _ _ Hs Hn). apply (P a b Hi Hk).
  - intros a b H Hk. destruct (Hcase a b H) as [[Hi Hb]|Hb].
    + destruct (so_old _ _ _ _ _ _ S b Hb) as [_ [_ [-> _]]]. rewrite (Hflag_old a b Hi).
      apply (map_opt_mono (imapk m (rk s0 s b)) (imapk m' (rk s0 s b))); [intros kv r; apply (imapk_mono m m' _ kv r Hs Hn)|apply (I a b Hi Hk)].
    + rewrite (Hflag_new a b H Hb Hk). rewrite (map_opt_ext (imapk m' false) (imap m')) by (intro kv; apply imapk_false).
      apply (so_inst _ _ _ _ _ _ S a b H Hb Hk).
  - intros a b H Hk. destruct (Hcase a b H) as [[Hi Hb]|Hb].
    + destruct (so_old _ _ _ _ _ _ S b Hb) as [_ [-> _]].
      apply (map_opt_mono (mpink s0 s m) (mpink s0 G m')); [|apply (W a b Hi Hk)].
      intros q p Hq. apply (mpink_mono s0 G m m' q p Hs Hn). rewrite (mpink_flags s0 s G m q); [exact Hq|].
      intros a0 b0 H0. destruct (st_rng _ _ _ T a0 b0 H0) as [_ [_ Hb0]]. apply (so_old _ _ _ _ _ _ S b0 Hb0).
    + rewrite <- (so_wire _ _ _ _ _ _ S a b H Hb Hk). apply map_opt_ext_in. intros q Hq.
      destruct q as [i|n i|]; cbn; try reflexivity.
      destruct (mget m' n) as [n'|] eqn:En; [|reflexivity]. destruct (assoc i (ipins s0 n)) as [ow|] eqn:Eo; [|reflexivity].
      assert (Hpw : pin_wire s0 (POut n i) = Some a) by (apply (p_pins _ P0); exact Hq).
      cbn in Hpw. rewrite Eo in Hpw. subst ow.
      assert (Hkn : kind_of s0 n = Some KInstance) by (apply (ft_i _ FT0); intro E0; rewrite E0 in Eo; discriminate).
      assert (Hfl : rk s0 G n' = false).
      { destruct (Hcase n n' (mget_in _ _ _ En)) as [[Hi Hb']|Hb']; [|apply (Hflag_new n n' (mget_in _ _ _ En) Hb' Hkn)].
        exfalso. destruct (st_inst _ _ _ T n n' Hi Hkn) as [l Hl].
        destruct (map_opt_all _ _ _ Hl (i, Some a)) as [r Hr]; [apply assoc_Some_In; exact Eo|].
        unfold imap in Hr. cbn in Hr. destruct (mget m a) as [a'|] eqn:Ea; [|discriminate].
        apply (new_key s0 s G m m' K T S a b H Hb). apply (mget_key m a a' Ea). }
      rewrite Hfl. reflexivity.
Qed.

(* ---- re-keying the outer pins of one copied instance ---- *)
Definition rk1 (l : list (id * option id)) (cn : id * id) : list (id * option id) :=
  match assoc (fst cn) l with Some ow => assoc_set (snd cn) ow (assoc_del (fst cn) l) | None => l end.

Lemma rekey_ipins s x cn : ipins (fst (rekey s x cn)) x = rk1 (ipins s x) cn.
Proof.
  unfold rekey, rk1. destruct cn as [cur new]. cbn [fst snd]. destruct (assoc cur (ipins s x)) as [ow|]; [|reflexivity].
  cbn [fst ret]. destruct ow as [w|]; cbn; apply upd_same.
Qed.

Lemma fold_rekey_ipins x : forall ps s s', fold_pairsR (fun s cn => rekey s x cn) ps s = (s', None) -> ipins s' x = fold_left rk1 ps (ipins s x).
Proof.
  induction ps as [|cn ps IH]; intros s s' E; cbn [fold_pairsR fold_left] in *; [injection E as <-; reflexivity|].
  pose proof (rekey_ipins s x cn) as H1. destruct (rekey s x cn) as [s1 [e|]]; cbn [bindR fst] in *; [discriminate|].
  rewrite (IH s1 s' E), H1. reflexivity.
Qed.

Lemma assoc_del_notin {B} k (l : list (id * B)) : ~ In k (map fst l) -> assoc_del k l = l.
Proof.
  induction l as [|[k' v] l IH]; cbn; intro H; [reflexivity|]. destruct (Nat.eqb_spec k k') as [->|]; [exfalso; apply H; left; reflexivity|].
  rewrite IH; [reflexivity|]. intro Hin. apply H. right. exact Hin.
Qed.
Lemma assoc_set_notin {B} k (v : B) (l : list (id * B)) : ~ In k (map fst l) -> assoc_set k v l = l ++ [(k, v)].
Proof.
  induction l as [|[k' v'] l IH]; cbn; intro H; [reflexivity|]. destruct (Nat.eqb_spec k k') as [->|]; [exfalso; apply H; left; reflexivity|].
  rewrite IH; [reflexivity|]. intro Hin. apply H. right. exact Hin.
Qed.

Lemma nodup_snoc {A} (l : list A) x : NoDup l -> ~ In x l -> NoDup (l ++ [x]).
Proof.
  induction l as [|a l IH]; cbn; intros Hn Hx; [constructor; [intros []|constructor]|]. inversion Hn as [|? ? Ha Hn']; subst. constructor.
  - intro H. apply in_app_or in H as [H|[H|[]]]; [exact (Ha H)|apply Hx; left; symmetry; exact H].
  - apply IH; [exact Hn'|]. intro H. apply Hx. right. exact H.
Qed.

Lemma rk1_all (f : id -> id) : forall (rest acc : list (id * option id)),
  NoDup (map fst (rest ++ acc)) -> (forall k, In k (map fst rest) -> ~ In (f k) (map fst (rest ++ acc))) -> NoDup (map f (map fst rest)) ->
  fold_left rk1 (map (fun kv => (fst kv, f (fst kv))) rest) (rest ++ acc) = acc ++ map (fun kv => (f (fst kv), snd kv)) rest.
Proof.
  induction rest as [|[k v] rest IH]; intros acc Hnd Hnew Hinj; cbn [map fold_left app]; [rewrite app_nil_r; reflexivity|].
  cbn [map fst app] in Hnd, Hnew, Hinj. inversion Hnd as [|? ? Hk Hnd']; subst. inversion Hinj as [|? ? Hfk Hinj']; subst.
  unfold rk1 at 2. cbn [fst snd assoc]. rewrite Nat.eqb_refl. cbn [assoc_del]. rewrite Nat.eqb_refl.
  rewrite (assoc_del_notin k (rest ++ acc) Hk).
  assert (Hfk2 : ~ In (f k) (map fst (rest ++ acc))) by (intro H; apply (Hnew k (or_introl eq_refl)); right; exact H).
  rewrite (assoc_set_notin (f k) v (rest ++ acc) Hfk2). rewrite <- app_assoc.
  assert (Ekeys : map fst (rest ++ acc ++ [(f k, v)]) = map fst (rest ++ acc) ++ [f k]).
  { rewrite app_assoc, map_app. reflexivity. }
  rewrite (IH (acc ++ [(f k, v)])).
  - rewrite <- app_assoc. reflexivity.
  - rewrite Ekeys. apply nodup_snoc; [exact Hnd'|exact Hfk2].
  - intros k2 Hk2. rewrite Ekeys. intro Hin. apply in_app_or in Hin as [Hin|[Hin|[]]].
    + apply (Hnew k2 (or_intror Hk2)). right. exact Hin.
    + apply Hfk. rewrite Hin. apply in_map. exact Hk2.
  - exact Hinj'.
Qed.

Lemma pairs_of_keys (f : id -> id) : forall (l : list (id * option id)) (ps : list (id * id)),
  map fst ps = map fst l -> (forall k k', In (k, k') ps -> k' = f k) -> ps = map (fun kv => (fst kv, f (fst kv))) l.
Proof.
  induction l as [|[k v] l IH]; intros ps Hf Hs; destruct ps as [|[c n] ps]; cbn in *; try discriminate; [reflexivity|].
  injection Hf as -> Hf. rewrite (Hs k n (or_introl eq_refl)). f_equal. apply IH; [exact Hf|]. intros a b H. apply Hs. right. exact H.
Qed.

Lemma imapk_rekeyed m (f : id -> id) : forall l0 l1,
  map_opt (imapk m false) l0 = Some l1 -> (forall k, In k (map fst l0) -> mget m k = Some (f k)) ->
  map_opt (imapk m true) l0 = Some (map (fun kv => (f (fst kv), snd kv)) l1).
Proof.
  induction l0 as [|[k ow] l0 IH]; intros l1 H Hk; cbn [map_opt] in *; [injection H as <-; reflexivity|].
  unfold imapk at 1 in H. unfold imapk at 1. cbn [fst snd kmap] in *. rewrite (Hk k (or_introl eq_refl)).
  destruct (mwire m ow) as [o|]; [|discriminate]. destruct (map_opt (imapk m false) l0) as [r|] eqn:Er; [|discriminate]. injection H as <-.
  rewrite (IH r eq_refl) by (intros k2 H2; apply Hk; right; exact H2). reflexivity.
Qed.

Lemma imapk_keys_false m : forall l0 l1, map_opt (imapk m false) l0 = Some l1 -> map fst l1 = map fst l0.
Proof.
  induction l0 as [|[k ow] l0 IH]; intros l1 H; cbn [map_opt] in H; [injection H as <-; reflexivity|].
  unfold imapk at 1 in H. cbn [fst snd kmap] in H. destruct (mwire m ow) as [o|]; [|discriminate].
  destruct (map_opt (imapk m false) l0) as [r|] eqn:Er; [|discriminate]. injection H as <-. cbn. rewrite (IH r eq_refl). reflexivity.
Qed.

Lemma map_opt_map {A B} (f g : A -> option B) (h : B -> B) : forall l l', map_opt f l = Some l' ->
  (forall q p, In q l -> f q = Some p -> g q = Some (h p)) -> map_opt g l = Some (map h l').
Proof.
  induction l as [|a l IH]; intros l' H Hq; cbn [map_opt] in *; [injection H as <-; reflexivity|].
  destruct (f a) as [p|] eqn:Ea; [|discriminate]. destruct (map_opt f l) as [r|] eqn:Er; [|discriminate]. injection H as <-.
  rewrite (Hq a p (or_introl eq_refl) Ea), (IH r eq_refl) by (intros q p0 Hin; apply Hq; right; exact Hin). reflexivity.
Qed.

Section ExRemap.
  Variables (s0 s s' : state) (m : memo) (x x' e e' : id).
  Hypothesis E0 : EX s0 s m.
  Hypothesis T : ST s0 s m.
  Hypothesis P : InvP s.
  Hypothesis Knd : NoDup (keys s x').
  Hypothesis Hxx : In (x, x') m.
  Hypothesis Hkx : kind_of s0 x = Some KInstance.
  Hypothesis Hr : iref s x' = Some e.
  Hypothesis He : e < next s0.
  Hypothesis He' : next s0 <= e'.
  Hypothesis Hfresh : forall a b, In (a, b) m -> ~ In b (keys s x').
  Hypothesis Efold : rekey_all m (set_iref s x' (Some e')) x' = (s', None).
  Hypothesis Hw : ipwire s' = ipwire s.
  Hypothesis Hoth : forall n, n <> x' -> ipins s' n = ipins s n.
  Hypothesis Hwp : forall w, wpins s' w = map (fun q => match q with POut n c => if Nat.eqb n x' then match mget m c with Some c' => POut n c' | None => q end else q | _ => q end) (wpins s w).
  Hypothesis Fi : iref s' = upd (iref s) x' (Some e').

  Let f (k : id) : id := match mget m k with Some k' => k' | None => k end.

  Lemma ex_remap_keys : (forall k, In k (keys s x') -> mget m k = Some (f k)) /\ ipins s' x' = map (fun kv => (f (fst kv), snd kv)) (ipins s x').
  Proof.
    set (sa := set_iref s x' (Some e')) in *. rewrite rekey_all_unfold in Efold.
    destruct (rekey_look_fold m x' _ _ _ Efold) as [ps [Hfst [Hlook Ef]]]. change (keys sa x') with (keys s x') in Hfst.
    assert (Hall : forall k, In k (keys s x') -> mget m k = Some (f k)).
    { intros k Hk. rewrite <- Hfst in Hk. apply in_map_iff in Hk as [[k1 k1'] [E1 Hk]]. cbn in E1. subst k1. unfold f. rewrite (Hlook k k1' Hk). reflexivity. }
    split; [exact Hall|].
    assert (Eps : ps = map (fun kv => (fst kv, f (fst kv))) (ipins s x')).
    { apply pairs_of_keys; [exact Hfst|]. intros k k' H. unfold f. rewrite (Hlook k k' H). reflexivity. }
    rewrite (fold_rekey_ipins x' ps sa s' Ef). change (ipins sa x') with (ipins s x'). rewrite Eps.
    pose proof (rk1_all f (ipins s x') []) as H. rewrite app_nil_r in H. cbn [app] in H. apply H.
    - exact Knd.
    - intros k Hk Hin. pose proof (Hall k Hk) as Hm. apply (Hfresh k (f k) (mget_in _ _ _ Hm)). exact Hin.
    - (* the images of distinct keys are distinct *)
      clear H. fold (keys s x'). assert (Hsub : forall k, In k (keys s x') -> In k (keys s x')) by auto. revert Hsub Knd.
      generalize (keys s x') at 1 3 4. induction l as [|k l IHl]; intros Hsub Hn; cbn; [constructor|].
      inversion Hn as [|? ? Hk Hn']; subst. constructor; [|apply IHl; [intros k2 H2; apply Hsub; right; exact H2|exact Hn']].
      intro Hin. apply in_map_iff in Hin as [k2 [E2 Hk2]]. apply Hk.
      assert (k2 = k); [|subst k2; exact Hk2].
      apply (memo_inj m k2 k (f k) (st_inj _ _ _ T)); apply mget_in; [rewrite <- E2; apply Hall; apply Hsub; right; exact Hk2|apply Hall; apply Hsub; left; reflexivity].
  Qed.

  Theorem ex_remap : EX s0 s' m.
  Proof.
    destruct ex_remap_keys as [Hall Hip]. destruct E0 as [EP EI EW].
    assert (Hflag : forall b, b <> x' -> rk s0 s' b = rk s0 s b).
    { intros b Hb. unfold rk. rewrite Fi. unfold upd. apply Nat.eqb_neq in Hb. rewrite Hb. reflexivity. }
    assert (Hf0 : rk s0 s x' = false) by (unfold rk; rewrite Hr; apply Nat.leb_gt; exact He).
    assert (Hf1 : rk s0 s' x' = true) by (unfold rk; rewrite Fi, upd_same; apply Nat.leb_le; exact He').
    constructor.
    - intros a b H Hk. rewrite Hw. apply (EP a b H Hk).
    - intros a b H Hk. destruct (Nat.eq_dec b x') as [->|Hne].
      + assert (a = x) by (apply (memo_inj m a x x' (st_inj _ _ _ T) H Hxx)). subst a.
        pose proof (EI x x' Hxx Hkx) as H1. rewrite Hf0 in H1. rewrite Hf1, Hip.
        apply (imapk_rekeyed m f _ _ H1). intros k Hk0. apply Hall. unfold keys. rewrite (imapk_keys_false m _ _ H1). exact Hk0.
      + rewrite (Hoth b Hne), (Hflag b Hne). apply (EI a b H Hk).
    - intros a b H Hk. rewrite Hwp.
      apply (map_opt_map (mpink s0 s m) (mpink s0 s' m) _ _ _ (EW a b H Hk)).
      intros q p Hq Hp. destruct q as [i|n i|]; cbn in Hp |- *; [| |discriminate].
      + destruct (mget m i) as [i'|]; [|discriminate]. cbn in Hp. injection Hp as <-. reflexivity.
      + destruct (mget m n) as [n'|] eqn:En; [|discriminate]. destruct (assoc i (ipins s0 n)) as [ow|] eqn:Eo; [|discriminate].
        destruct (Nat.eq_dec n' x') as [->|Hne].
        * rewrite Hf0 in Hp. rewrite Hf1. cbn in Hp |- *. injection Hp as <-. rewrite Nat.eqb_refl.
          (* the outer pin is on the wire b, so its key is a current key of x' *)
          assert (Hin : In (POut x' i) (wpins s b)).
          { apply (map_opt_fwd _ _ _ (EW a b H Hk) (POut n i) (POut x' i) Hq). cbn. rewrite En, Eo, Hf0. reflexivity. }
          apply (p_pins _ P) in Hin. cbn in Hin. destruct (assoc i (ipins s x')) as [ow2|] eqn:E2; [|discriminate].
          assert (Hik : In i (keys s x')) by (apply assoc_In_fst; exists ow2; exact E2).
          rewrite (Hall i Hik). reflexivity.
        * rewrite (Hflag n' Hne). destruct (kmap m (rk s0 s n') i) as [k'|]; [|discriminate]. cbn in Hp |- *. injection Hp as <-.
          replace (Nat.eqb n' x') with false by (symmetry; apply Nat.eqb_neq; exact Hne). reflexivity.
  Qed.
End ExRemap.
