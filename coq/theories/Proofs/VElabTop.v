(* Engine `verilog`, document-level reader: the top clause on whole documents. The election state of the reader
   (VTop.v: candidates, instantiation pairs) is only touched by the first module that is not a `celldefine module
   (it becomes the candidate) and by instantiations of the current candidate. Hence: when that first module is
   instantiated by no module of the document, itself included, the reader returns it as the top - whatever else the
   document contains: it is the candidate found while parsing, and elect_top (end of file) keeps it since it is among
   the modules nobody instantiates. (The clause for a root anywhere in the file: VerilogTop.top_is_root_lemma.) *)
From Coq Require Import List ZArith Bool Arith Lia.
From SV Require Import Base.Base Fmt.VBits Fmt.VTop Fmt.VDoc Fmt.VElab Fmt.VSpec Fmt.VSem
  Proofs.VerilogLists Proofs.VerilogGrow Proofs.VElabBase Proofs.VElabInv Proofs.VElabWf Proofs.VElabExpr Proofs.VElabConn.
Import ListNotations.

(* a step that leaves the election alone and only appends held definitions *)
Record tstep (s s' : estate) : Prop := {
  ts_tops : st_tops s' = st_tops s;
  ts_ps : st_ps s' = st_ps s;
  ts_names : exists extra, names s' = names s ++ extra }.

Lemma tstep_refl s : tstep s s.
Proof. constructor; [reflexivity|reflexivity|exists []; rewrite app_nil_r; reflexivity]. Qed.

Lemma tstep_trans a b c : tstep a b -> tstep b c -> tstep a c.
Proof.
  intros [T1 P1 (e1 & N1)] [T2 P2 (e2 & N2)]. constructor; [congruence|congruence|].
  exists (e1 ++ e2). rewrite N2, N1, app_assoc. reflexivity.
Qed.

Lemma put_def_tstep k d s : dstep (get_def k s) d -> tstep s (put_def k d s).
Proof.
  intros [N _ _]. constructor; [reflexivity|reflexivity|]. exists []. rewrite app_nil_r. apply names_put. exact N.
Qed.

Lemma upd_def_tstep k f s : dstep (get_def k s) (f (get_def k s)) -> tstep s (upd_def k f s).
Proof.
  intros [N _ _]. constructor; [reflexivity|reflexivity|]. exists []. rewrite app_nil_r.
  unfold names, upd_def. cbn. apply nth_upd_map_at. intros x Hx. unfold get_def in N. rewrite (nth_default_error _ _ _ _ Hx) in N. exact N.
Qed.

Lemma lift_tstep cur f s s' : (forall d d', f d = Ok d' -> dstep d d') -> lift cur f s = Ok s' -> tstep s s'.
Proof.
  intros Hf H. unfold lift in H. apply bind_ok in H. destruct H as (d & H1 & H2). inversion H2; subst.
  apply put_def_tstep. apply Hf. exact H1.
Qed.

Lemma get_blackbox_tstep name s s' k : get_blackbox name s = (s', k) -> tstep s s'.
Proof.
  unfold get_blackbox. destruct (find_def name s); intro H; inversion H; subst; [apply tstep_refl|].
  constructor; [reflexivity|reflexivity|]. exists [name]. unfold names. cbn. rewrite map_app. reflexivity.
Qed.

Lemma fold_res_tstep {A} (f : A -> estate -> result estate) l :
  (forall x s s', f x s = Ok s' -> tstep s s') -> forall s s', fold_res f l s = Ok s' -> tstep s s'.
Proof. intro Hf. apply fold_res_rel; [apply tstep_refl|apply tstep_trans|]. intros x s s' _. apply Hf. Qed.

Lemma named_conn_tstep cur ii rk pc s s' : named_conn cur ii rk pc s = Ok s' -> tstep s s'.
Proof.
  unfold named_conn. destruct pc as [pname [e|]]; destruct (has_glob pname); try discriminate.
  - intro H. apply bind_ok in H. destruct H as ([d1 ws] & H1 & H).
    set (s1 := put_def cur d1 s) in *.
    pose proof (cou_port_dstep pname (Some (Z.of_nat (length ws) - 1)%Z) (Some 0%Z) None false (get_def rk s1)) as X.
    destruct (cou_port _ _ _ _ _ (get_def rk s1)) as [rd1 pk]. cbn [fst] in X.
    set (s2 := put_def rk rd1 s1) in *.
    apply bind_ok in H. destruct H as (calls & _ & H). apply bind_ok in H. destruct H as (d2 & H2 & H). inversion H; subst.
    eapply tstep_trans; [apply put_def_tstep; eapply expr_wires_dstep; exact H1|].
    eapply tstep_trans; [apply (put_def_tstep rk rd1 s1 X)|]. apply put_def_tstep. eapply connect_all_dstep. exact H2.
  - intro H. inversion H; subst. apply upd_def_tstep. apply cou_port_dstep.
Qed.

Lemma pos_conn_tstep cur ii rk fresh index oe s s' : pos_conn cur ii rk fresh index oe s = Ok s' -> tstep s s'.
Proof.
  unfold pos_conn. destruct oe as [e|].
  2:{ destruct fresh; intro H; inversion H; subst.
      - apply put_def_tstep; apply add_unnamed_port_dstep; apply new_bundle_wfb.
      - constructor; [reflexivity|reflexivity|exists []; rewrite app_nil_r; reflexivity]. }
  intro H.
  apply bind_ok in H. destruct H as ([d1 ws] & H1 & H).
  set (s1 := put_def cur d1 s) in *.
  assert (T1 : tstep s s1) by (apply put_def_tstep; eapply expr_wires_dstep; exact H1).
  destruct fresh.
  - set (s2 := put_def rk _ s1) in *.
    assert (T2 : tstep s1 s2) by (apply put_def_tstep; apply add_unnamed_port_dstep; apply new_bundle_wfb).
    apply bind_ok in H. destruct H as (calls & _ & H). apply bind_ok in H. destruct H as (d2 & H2 & H). inversion H; subst.
    eapply tstep_trans; [exact T1|]. eapply tstep_trans; [exact T2|]. apply put_def_tstep. eapply connect_all_dstep. exact H2.
  - apply bind_ok in H. destruct H as (calls & _ & H). apply bind_ok in H. destruct H as (d2 & H2 & H). inversion H; subst.
    eapply tstep_trans; [exact T1|]. apply put_def_tstep. eapply connect_all_dstep. exact H2.
Qed.

Lemma set_curinst_tstep s c : tstep s (set_curinst s c).
Proof. constructor; [reflexivity|reflexivity|exists []; rewrite app_nil_r; reflexivity]. Qed.
Lemma set_pending_tstep s c : tstep s (set_pending s c).
Proof. constructor; [reflexivity|reflexivity|exists []; rewrite app_nil_r; reflexivity]. Qed.
Lemma set_acount_tstep s c : tstep s (set_acount s c).
Proof. constructor; [reflexivity|reflexivity|exists []; rewrite app_nil_r; reflexivity]. Qed.

Lemma defparam_item_tstep cur i k v s s' : defparam_item cur i k v s = Ok s' -> tstep s s'.
Proof.
  unfold defparam_item. destruct (st_curinst s) as [[cd ci]|]; [|discriminate]. intro H.
  apply bind_ok in H. destruct H as (tgt & _ & H). inversion H; subst. apply upd_def_tstep. apply upd_inst_dstep; reflexivity.
Qed.

(* ---------- who is top ---------- *)
Definition TopIs (ir : nat) (rname : str) (s : estate) : Prop :=
  st_tops s = Some [ir] /\ (ir < length (st_defs s))%nat /\ ed_name (get_def ir s) = rname /\
  (forall p, In p (st_ps s) -> fst p <> ir).     (* and no instance of it has been created *)

Lemma names_prefix_get s s' extra k : names s' = names s ++ extra -> (k < length (st_defs s))%nat ->
  (k < length (st_defs s'))%nat /\ ed_name (get_def k s') = ed_name (get_def k s).
Proof.
  intros N Hk. assert (L : length (names s') = (length (names s) + length extra)%nat) by (rewrite N, app_length; reflexivity).
  unfold names in L. rewrite !map_length in L. assert (Hk' : (k < length (st_defs s'))%nat) by lia. split; [exact Hk'|].
  assert (E : nth_error (names s') k = nth_error (names s) k) by (rewrite N; apply nth_error_app1; unfold names; rewrite map_length; exact Hk).
  unfold names in E. rewrite !nth_error_map in E. unfold get_def.
  rewrite (nth_error_nth' (st_defs s) dummy_def Hk) in E. rewrite (nth_error_nth' (st_defs s') dummy_def Hk') in E. cbn in E. congruence.
Qed.

Lemma tstep_topis ir r s s' : tstep s s' -> TopIs ir r s -> TopIs ir r s'.
Proof.
  intros [T P (ex & N)] (A & B & C & D). destruct (names_prefix_get s s' ex ir N B) as [L E].
  split; [congruence|]. split; [exact L|]. split; [congruence|]. rewrite P. exact D.
Qed.

(* an instantiation of a module other than the top leaves the top alone *)
Lemma inst_item_topis ir r cur m i params attrs conns s s' : Inv s -> m <> r ->
  inst_item cur m i params attrs conns s = Ok s' -> TopIs ir r s -> TopIs ir r s'.
Proof.
  intros I Hm H T. unfold inst_item in H.
  destruct (get_blackbox m s) as [s1 rk] eqn:G.
  destruct (get_blackbox_inv _ _ _ _ G I) as (I1 & Hrk & Nrk & L1).
  assert (T1 : TopIs ir r s1) by (eapply tstep_topis; [eapply get_blackbox_tstep; exact G|exact T]).
  destruct (_ && _); [destruct (parents_of _ _); [destruct (forallb _ _)|]; discriminate|].
  assert (Hne : rk <> ir).
  { intro E. subst rk. destruct T1 as (_ & _ & C & _). congruence. }
  assert (T2 : TopIs ir r (elect_step cur rk s1)).
  { destruct T1 as (A & B & C & D). unfold elect_step. rewrite A. unfold step_inst. cbn [fst snd flat_map].
    destruct (Nat.eqb_spec ir rk); [congruence|]. cbn [app]. split; [reflexivity|]. split; [exact B|]. split; [exact C|].
    cbn [st_ps set_elect]. intros p Hp. apply in_app_iff in Hp. destruct Hp as [Hp|[<-|[]]]; [apply D; exact Hp|exact Hne]. }
  set (s2 := elect_step cur rk s1) in *.
  apply bind_ok in H. destruct H as ([d1 ii] & H1 & H).
  destruct (add_inst_inv _ _ _ _ H1) as (N1 & _).
  assert (T3 : tstep s2 (set_curinst (put_def cur d1 s2) (Some (cur, ii)))).
  { eapply tstep_trans; [|apply set_curinst_tstep]. constructor; [reflexivity|reflexivity|]. exists []. rewrite app_nil_r. apply names_put. exact N1. }
  apply bind_ok in H. destruct H as (s4 & H4 & H). inversion H; subst s'. clear H.
  assert (T4 : tstep (set_curinst (put_def cur d1 s2) (Some (cur, ii))) s4).
  { destruct conns as [l|l].
    - revert H4. apply fold_res_tstep. intros x a b. apply named_conn_tstep.
    - inversion H4; subst. apply set_pending_tstep. }
  eapply tstep_topis; [|exact T2]. eapply tstep_trans; [exact T3|]. eapply tstep_trans; [exact T4|].
  apply upd_def_tstep. apply upd_inst_dstep; reflexivity.
Qed.

(* no statement of the body instantiates module r *)
Definition item_no_inst (r : str) (it : vitem) : Prop := match it with IInst mn _ _ _ _ => mn <> r | _ => True end.
Definition body_no_inst (r : str) (b : list vitem) : Prop := Forall (item_no_inst r) b.

Lemma body_item_topis ir r cur it s s' : Inv s -> item_no_inst r it -> body_item cur it s = Ok s' -> TopIs ir r s -> TopIs ir r s'.
Proof.
  intros I Hn H T. destruct it as [dir ty rg nms at_|ty rg nms at_|m i ps at_ conns|i k v|lhs rhs|]; cbn [body_item] in H.
  - eapply tstep_topis; [|exact T]. eapply lift_tstep; [|exact H]. apply fold_res_dstep. intros x a b. apply port_decl_one_dstep.
  - eapply tstep_topis; [|exact T]. eapply lift_tstep; [|exact H]. intros a b. apply wire_decl_dstep.
  - eapply inst_item_topis; eassumption.
  - eapply tstep_topis; [|exact T]. eapply defparam_item_tstep. exact H.
  - apply bind_ok in H. destruct H as (s1 & H1 & H). inversion H; subst.
    eapply tstep_topis; [|exact T]. eapply tstep_trans; [|apply set_acount_tstep]. eapply lift_tstep; [|exact H1]. intros a b. apply assign_item_dstep.
  - discriminate.
Qed.

Lemma fold_body_topis ir r cur l : forall s s', Inv s -> (cur < length (st_defs s))%nat -> body_no_inst r l ->
  fold_res (body_item cur) l s = Ok s' -> TopIs ir r s -> TopIs ir r s'.
Proof.
  induction l as [|it l IH]; intros s s' I Hc Hn H T; cbn [fold_res] in H.
  - inversion H; subst. exact T.
  - apply bind_ok in H. destruct H as (s1 & H1 & H2). inversion Hn as [|? ? Hi Hl]; subst.
    destruct (body_item_inv _ _ _ _ H1 I Hc) as [I1 L1].
    assert (Hc1 : (cur < length (st_defs s1))%nat) by lia.
    apply (IH s1 s' I1 Hc1 Hl H2). exact (body_item_topis ir r cur it s s1 I Hi H1 T).
Qed.

Lemma cell_item_tstep cur it s s' : cell_item cur it s = Ok s' -> tstep s s'.
Proof.
  destruct it; cbn [cell_item]; intro H; try (inversion H; subst; apply tstep_refl).
  eapply lift_tstep; [|exact H]. apply fold_res_dstep. intros x a b. apply port_decl_one_dstep.
Qed.

(* the part of module_decl before the body: only the very first non-cell module touches the election *)
Lemma module_decl_shape m s s' : Inv s -> module_decl m s = Ok s' ->
  exists cur s4 s5 s6, (cur < length (st_defs s4))%nat /\ ed_name (get_def cur s4) = vm_name m /\ Inv s5 /\
    (cur < length (st_defs s5))%nat /\ tstep s4 s5 /\
    (exists extra, names s4 = names s ++ extra) /\ st_ps s4 = st_ps s /\
    st_tops s4 = (if vm_cell m then st_tops s else match st_tops s with None => Some [cur] | Some t => Some t end) /\
    (if vm_cell m then tstep s5 s6 else fold_res (body_item cur) (vm_body m) s5 = Ok s6) /\ tstep s6 s'.
Proof.
  unfold module_decl. intros I H.
  destruct (get_blackbox (vm_name m) s) as [s1 cur] eqn:G.
  destruct (get_blackbox_inv _ _ _ _ G I) as (I1 & Hc & Nc & _).
  pose proof (get_blackbox_tstep _ _ _ _ G) as [T1 P1 (ex1 & N1)].
  destruct (ed_lib (get_def cur s1)); [discriminate|].
  set (s2 := upd_def cur _ s1) in *.
  assert (I2 : Inv s2) by (apply upd_def_inv; [exact I1|apply set_meta_dstep]).
  assert (TS2 : tstep s1 s2) by (apply upd_def_tstep; apply set_meta_dstep).
  set (s3 := if vm_cell m then s2 else _) in *.
  assert (X3 : Inv s3 /\ names s3 = names s2 /\ st_ps s3 = st_ps s2 /\ length (st_defs s3) = length (st_defs s2) /\
               st_tops s3 = (if vm_cell m then st_tops s2 else match st_tops s2 with None => Some [cur] | Some t => Some t end)).
  { unfold s3. destruct (vm_cell m); [split; [exact I2|]; repeat split; reflexivity|].
    assert (L2 : length (st_defs s2) = length (st_defs s1)) by apply upd_def_length.
    destruct (st_tops s2) eqn:T; cbn.
    - split; [apply inv_set_acount; exact I2|]. repeat split; try reflexivity; try exact T.
    - split; [|repeat split; reflexivity]. apply inv_set_acount.
      assert (Hc2 : (cur < length (st_defs s2))%nat) by lia.
      destruct I2 as [A B C D E]. constructor; cbn; try assumption.
      intros l t Hl Ht. inversion Hl; subst. destruct Ht as [<-|[]]. exact Hc2. }
  destruct X3 as (I3 & N3 & P3 & L3 & T3).
  set (s4 := upd_def cur _ s3) in *.
  assert (I4 : Inv s4) by (apply upd_def_inv; [exact I3|apply set_meta_dstep]).
  assert (TS4 : tstep s3 s4) by (apply upd_def_tstep; apply set_meta_dstep).
  apply bind_ok in H. destruct H as (s5 & H5 & H).
  assert (I5 : Inv s5) by (eapply lift_inv; [|exact H5|exact I4]; apply fold_res_dstep; intros x a b; apply header_entry_dstep).
  assert (TS5 : tstep s4 s5) by (eapply lift_tstep; [|exact H5]; apply fold_res_dstep; intros x a b; apply header_entry_dstep).
  apply bind_ok in H. destruct H as (s6 & H6 & H).
  assert (L4 : length (st_defs s4) = length (st_defs s1)).
  { unfold s4. rewrite upd_def_length, L3. apply upd_def_length. }
  assert (L5 : length (st_defs s5) = length (st_defs s4)) by (eapply lift_length; exact H5).
  assert (N4 : names s4 = names s1).
  { destruct TS4 as [_ _ (e4 & E4)]. destruct TS2 as [_ _ (e2 & E2)]. rewrite E4, N3, E2.
    assert (LL : length (names s4) = length (names s1)) by (unfold names; rewrite !map_length; exact L4).
    rewrite E4, N3, E2, !app_length in LL. destruct e2; [|cbn in LL; lia]. destruct e4; [|cbn in LL; lia]. rewrite !app_nil_r. reflexivity. }
  exists cur, s4, s5, s6. split; [lia|]. split.
  { assert (N4' : names s4 = names s1 ++ []) by (rewrite app_nil_r; exact N4).
    destruct (names_prefix_get s1 s4 [] cur N4' Hc) as [_ E]. congruence. }
  split; [exact I5|]. split; [lia|]. split; [exact TS5|].
  split; [exists ex1; rewrite N4; exact N1|].
  split; [destruct TS4 as [_ P4 _]; destruct TS2 as [_ P2 _]; congruence|].
  split.
  { destruct TS4 as [T4 _ _]. destruct TS2 as [T2 _ _]. rewrite T4, T3, T2, T1. reflexivity. }
  split.
  - destruct (vm_cell m).
    + revert H6. apply fold_res_tstep. intros x a b. apply cell_item_tstep.
    + exact H6.
  - inversion H; subst. destruct (vm_attrs m); [apply tstep_refl|]. apply upd_def_tstep. apply set_meta_dstep.
Qed.

Lemma module_decl_cell_tstep m s s' : Inv s -> vm_cell m = true -> module_decl m s = Ok s' -> tstep s s'.
Proof.
  intros I Hc H. destruct (module_decl_shape m s s' I H) as (cur & s4 & s5 & s6 & _ & _ & _ & _ & T45 & (ex & N4) & P4 & T4 & B & T6).
  rewrite Hc in T4, B.
  eapply tstep_trans; [|exact T6]. eapply tstep_trans; [|exact B]. eapply tstep_trans; [|exact T45].
  constructor; [exact T4|exact P4|exists ex; exact N4].
Qed.

Lemma module_decl_later_topis ir r m s s' : Inv s -> (vm_cell m = false -> body_no_inst r (vm_body m)) ->
  module_decl m s = Ok s' -> TopIs ir r s -> TopIs ir r s'.
Proof.
  intros I Hb H T. destruct (vm_cell m) eqn:Hc.
  - eapply tstep_topis; [eapply module_decl_cell_tstep; eassumption|exact T].
  - destruct (module_decl_shape m s s' I H) as (cur & s4 & s5 & s6 & L4 & _ & I5 & L5 & T45 & (ex & N4) & P4 & T4 & B & T6).
    rewrite Hc in T4, B. destruct T as (A & Bn & C & D). rewrite A in T4.
    assert (TS4 : tstep s s4) by (constructor; [rewrite T4; symmetry; exact A|exact P4|exists ex; exact N4]).
    assert (X4 : TopIs ir r s4) by (eapply tstep_topis; [exact TS4|split; [exact A|split; [assumption|split; assumption]]]).
    assert (X5 : TopIs ir r s5) by (eapply tstep_topis; eassumption).
    eapply tstep_topis; [exact T6|]. eapply fold_body_topis; [exact I5|exact L5|apply Hb; reflexivity|exact B|exact X5].
Qed.

Lemma module_decl_root_topis m s s' : Inv s -> st_tops s = None -> st_ps s = [] -> vm_cell m = false -> body_no_inst (vm_name m) (vm_body m) ->
  module_decl m s = Ok s' -> exists ir, TopIs ir (vm_name m) s'.
Proof.
  intros I Tn Pn Hc Hb H.
  destruct (module_decl_shape m s s' I H) as (cur & s4 & s5 & s6 & L4 & N4c & I5 & L5 & T45 & _ & P4 & T4 & B & T6).
  rewrite Hc in T4, B. rewrite Tn in T4. exists cur.
  assert (X4 : TopIs cur (vm_name m) s4).
  { split; [exact T4|]. split; [assumption|]. split; [assumption|]. rewrite P4, Pn. intros p []. }
  assert (X5 : TopIs cur (vm_name m) s5) by (eapply tstep_topis; eassumption).
  eapply tstep_topis; [exact T6|]. eapply fold_body_topis; [exact I5|exact L5|exact Hb|exact B|exact X5].
Qed.

Lemma close_blackboxes_topis ir r s : TopIs ir r s -> TopIs ir r (close_blackboxes s).
Proof.
  intros (A & B & C & D). unfold close_blackboxes, TopIs. cbn [st_tops set_defs st_defs]. rewrite map_length.
  split; [exact A|]. split; [exact B|]. split; [|exact D]. unfold get_def in *. cbn [st_defs set_defs].
  destruct (nth_error (st_defs s) ir) as [x|] eqn:E; [|apply nth_error_None in E; lia].
  rewrite (nth_default_error _ _ _ _ E) in C.
  rewrite (nth_default_error _ ir dummy_def (match ed_lib x with None => set_meta x (Some true) true (ed_params x) (ed_attrs x) | Some _ => x end)).
  - destruct (ed_lib x); exact C.
  - rewrite nth_error_map, E. reflexivity.
Qed.

Lemma pending_one_tstep p s s' : pending_one p s = Ok s' -> tstep s s'.
Proof.
  destruct p as [[[cur ii] rk] l]. unfold pending_one. apply fold_res_tstep. intros x a b. apply pos_conn_tstep.
Qed.

(* the top clause of C06 on documents: when the first module that is not a `celldefine module is instantiated by
   nobody (itself included), it is the top *)
Theorem elab_top_root_first cells m rest n :
  Forall (fun c => vm_cell c = true) cells -> vm_cell m = false ->
  (forall m', In m' (m :: rest) -> vm_cell m' = false -> body_no_inst (vm_name m) (vm_body m')) ->
  elab (cells ++ m :: rest) = Ok n -> nv_top n = Some (vm_name m).
Proof.
  intros Hcells Hm Hno H. unfold elab in H. apply bind_ok in H. destruct H as (s & Hr & Ha).
  unfold run in Hr. apply bind_ok in Hr. destruct Hr as (s1 & H1 & H2).
  set (s0 := {| st_defs := []; st_tops := None; st_ps := []; st_acount := 0; st_curinst := None; st_pending := [] |}) in *.
  assert (I0 : Inv s0) by (constructor; cbn; try constructor; try contradiction; try discriminate).
  (* split the fold *)
  assert (Split : forall (l1 l2 : vdoc) a b, fold_res module_decl (l1 ++ l2) a = Ok b -> exists c, fold_res module_decl l1 a = Ok c /\ fold_res module_decl l2 c = Ok b).
  { induction l1 as [|x l1 IH]; intros l2 a b Hf; cbn [app fold_res] in *; [exists a; split; [reflexivity|exact Hf]|].
    apply bind_ok in Hf. destruct Hf as (a1 & Ha1 & Hf). destruct (IH l2 a1 b Hf) as (c & Hc1 & Hc2). exists c. split; [rewrite Ha1; exact Hc1|exact Hc2]. }
  destruct (Split cells (m :: rest) s0 s1 H1) as (sc & Hc1 & Hc2).
  assert (Xc : Inv sc /\ st_tops sc = None /\ st_ps sc = []).
  { eapply (fold_res_inv (fun x => Inv x /\ st_tops x = None /\ st_ps x = []) module_decl cells); [|split; [exact I0|split; reflexivity]|exact Hc1].
    intros x a b Hx (Ia & Ta & Pa) Hab. split; [eapply module_decl_inv; eassumption|].
    assert (Cx : vm_cell x = true) by (eapply (proj1 (Forall_forall _ _) Hcells); exact Hx).
    destruct (module_decl_cell_tstep x a b Ia Cx Hab) as [T P _]. split; congruence. }
  destruct Xc as (Ic & Tc & Pc). cbn [fold_res] in Hc2. apply bind_ok in Hc2. destruct Hc2 as (sm & Hm1 & Hm2).
  destruct (module_decl_root_topis m sc sm Ic Tc Pc Hm (Hno m (or_introl eq_refl) Hm) Hm1) as (ir & Tm).
  assert (Im : Inv sm) by (eapply module_decl_inv; eassumption).
  assert (X1 : Inv s1 /\ TopIs ir (vm_name m) s1).
  { eapply (fold_res_inv (fun x => Inv x /\ TopIs ir (vm_name m) x) module_decl rest); [|split; [exact Im|exact Tm]|exact Hm2].
    intros x a b Hx [Ia Ta] Hab. split; [eapply module_decl_inv; eassumption|].
    eapply module_decl_later_topis; [exact Ia| |exact Hab|exact Ta]. intro Cx. apply Hno; [right; exact Hx|exact Cx]. }
  destruct X1 as [I1 T1].
  assert (T2 : TopIs ir (vm_name m) s).
  { eapply (fold_res_inv (TopIs ir (vm_name m)) pending_one); [|apply close_blackboxes_topis; exact T1|exact H2].
    intros x a b _ Ta Hab. eapply tstep_topis; [eapply pending_one_tstep; exact Hab|exact Ta]. }
  unfold abs_state in Ha. apply bind_ok in Ha. destruct Ha as (t & Ht & Ha). inversion Ha; subst n. cbn [nv_top].
  destruct T2 as (A & B & C & D).
  assert (P : parsed_top s = Ok (Some (vm_name m))) by (unfold parsed_top; rewrite A; cbn; rewrite C; reflexivity).
  (* m is among the modules that no other module instantiates *)
  assert (R : In ir (root_defs (cells ++ m :: rest) s)).
  { unfold root_defs. apply filter_In. split; [apply in_seq; lia|]. apply andb_true_intro. split.
    - apply existsb_exists. exists m. split; [apply in_or_app; right; left; reflexivity|]. rewrite Hm, C. cbn. apply str_eqb_refl.
    - apply negb_true_iff. apply not_true_is_false. intro E. apply existsb_exists in E. destruct E as (p & Hp & E).
      apply andb_prop in E. destruct E as [E _]. apply Nat.eqb_eq in E. exact (D p Hp E). }
  unfold final_top in Ht. destruct (root_defs _ s) as [|k [|k2 l]]; [contradiction| |rewrite P in Ht; inversion Ht; reflexivity].
  destruct R as [<-|[]]. inversion Ht. rewrite C. reflexivity.
Qed.
