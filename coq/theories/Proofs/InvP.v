(* C01, pin-wire half: a wire lists exactly the (stored) pins that report it, once each.
   Abstract preservation lemmas, stated pointwise on the observables pin_wire / wpins. *)
From Coq Require Import List Arith Bool Permutation.
From SV Require Import Base.Base IR.State IR.NS IR.Ops Proofs.AssocX.
Import ListNotations.

Record InvP (s : state) : Prop := mkInvP {
  p_pins : forall w p, In p (wpins s w) <-> pin_wire s p = Some w;
  p_nodup : forall w, NoDup (wpins s w)
}.

Lemma invp_init : InvP init.
Proof. constructor; cbn; [intros w p; split; [tauto|destruct p; discriminate]|constructor]. Qed.

Lemma invp_same s s' :
  InvP s -> (forall q, pin_wire s' q = pin_wire s q) -> (forall w, wpins s' w = wpins s w) -> InvP s'.
Proof. intros [H1 H2] Hq Hw. constructor; intros; rewrite Hw, ?Hq; auto. Qed.

(* a pin that reported no wire is put on wire w *)
Lemma invp_link s s' w p pos :
  InvP s -> pin_wire s p = None ->
  (forall q, pin_wire s' q = if pin_eqb q p then Some w else pin_wire s q) ->
  (forall w0, wpins s' w0 = if Nat.eqb w0 w then py_insert pos p (wpins s w) else wpins s w0) ->
  InvP s'.
Proof.
  intros [H1 H2] Hp Hq Hw. constructor.
  - intros w0 q. rewrite Hw, Hq.
    destruct (Nat.eqb_spec w0 w) as [->|Hne]; destruct (pin_eqb q p) eqn:E.
    + apply pin_eqb_spec in E; subst q. rewrite py_insert_In. split; auto.
    + rewrite py_insert_In, H1. split; [intros [->|H]; [rewrite pin_eqb_refl in E; discriminate|assumption]|auto].
    + apply pin_eqb_spec in E; subst q. rewrite H1, Hp. split; [discriminate|intro H; inversion H; congruence].
    + apply H1.
  - intro w0. rewrite Hw. destruct (Nat.eqb w0 w); [|apply H2].
    apply py_insert_NoDup; [apply H2|]. rewrite H1, Hp. discriminate.
Qed.

(* pins that reported wire w are taken off it *)
Lemma invp_unlink_many s s' w (ps : list pin) :
  InvP s -> (forall p, In p ps -> pin_wire s p = Some w) ->
  (forall q, pin_wire s' q = if pin_memb q ps then None else pin_wire s q) ->
  (forall w0, wpins s' w0 = if Nat.eqb w0 w then filter (fun x => negb (pin_memb x ps)) (wpins s w) else wpins s w0) ->
  InvP s'.
Proof.
  intros [H1 H2] Hp Hq Hw. constructor.
  - intros w0 q. rewrite Hw, Hq.
    destruct (pin_memb q ps) eqn:E.
    + apply pin_memb_In in E. split; [|discriminate].
      destruct (Nat.eqb_spec w0 w) as [->|Hne].
      * rewrite filter_In, negb_true_iff. intros [_ H]. apply pin_memb_In in E. congruence.
      * rewrite H1, (Hp _ E). intro H; inversion H; congruence.
    + destruct (Nat.eqb_spec w0 w) as [->|Hne]; [|apply H1].
      rewrite filter_In, E, H1. cbn. tauto.
  - intro w0. rewrite Hw. destruct (Nat.eqb w0 w); [apply NoDup_filter|]; apply H2.
Qed.

Lemma pin_remove_first_as_filter p l :
  NoDup l -> pin_remove_first p l = filter (fun x => negb (pin_memb x [p])) l.
Proof.
  induction 1 as [|y l Hy Hl IH]; cbn; [reflexivity|].
  rewrite orb_false_r. destruct (pin_eqb p y) eqn:E.
  - apply pin_eqb_spec in E; subst y. rewrite pin_eqb_refl. cbn.
    clear IH. induction l as [|z l IHl]; cbn; [reflexivity|].
    inversion Hl; subst. rewrite orb_false_r.
    destruct (pin_eqb z p) eqn:Ez; cbn.
    + apply pin_eqb_spec in Ez; subst z. exfalso. apply Hy. left; reflexivity.
    + f_equal. apply IHl; [intro; apply Hy; right; assumption|assumption].
  - assert (E' : pin_eqb y p = false).
    { destruct (pin_eqb y p) eqn:E2; [apply pin_eqb_spec in E2; subst; rewrite pin_eqb_refl in E; discriminate|reflexivity]. }
    rewrite E'. cbn. f_equal. apply IH.
Qed.

Lemma invp_unlink s s' w p :
  InvP s -> pin_wire s p = Some w ->
  (forall q, pin_wire s' q = if pin_eqb q p then None else pin_wire s q) ->
  (forall w0, wpins s' w0 = if Nat.eqb w0 w then pin_remove_first p (wpins s w) else wpins s w0) ->
  InvP s'.
Proof.
  intros Hi Hp Hq Hw. apply (invp_unlink_many s s' w [p] Hi).
  - intros q [<-|[]]. assumption.
  - intro q. rewrite Hq. cbn. rewrite orb_false_r. reflexivity.
  - intro w0. rewrite Hw. destruct (Nat.eqb w0 w); [|reflexivity].
    apply pin_remove_first_as_filter, Hi.
Qed.

Lemma invp_permute s s' w l :
  InvP s -> NoDup l -> (forall x, In x (wpins s w) <-> In x l) ->
  (forall q, pin_wire s' q = pin_wire s q) ->
  (forall w0, wpins s' w0 = if Nat.eqb w0 w then l else wpins s w0) ->
  InvP s'.
Proof.
  intros [H1 H2] Hn Hs Hq Hw. constructor.
  - intros w0 q. rewrite Hw, Hq. destruct (Nat.eqb_spec w0 w) as [->|]; [rewrite <- Hs|]; apply H1.
  - intro w0. rewrite Hw. destruct (Nat.eqb w0 w); [assumption|apply H2].
Qed.

Lemma NoDup_map_inj_in {A B} (f : A -> B) l :
  (forall a b, In a l -> In b l -> f a = f b -> a = b) -> NoDup l -> NoDup (map f l).
Proof.
  intros Hinj Hn. induction Hn as [|x l Hx Hl IH]; cbn; [constructor|].
  constructor.
  - rewrite in_map_iff. intros [y [Hy Hin]]. apply Hx.
    rewrite (Hinj x y); [assumption|left; reflexivity|right; assumption|symmetry; assumption].
  - apply IH. intros a b Ha Hb. apply Hinj; right; assumption.
Qed.

(* the stored pin (n, cur) becomes (n, new), keeping its wire; (n, new) reported no wire before *)
Lemma invp_rekey s s' n cur new ow :
  InvP s -> pin_wire s (POut n cur) = ow -> (cur = new \/ pin_wire s (POut n new) = None) ->
  (forall q, pin_wire s' q = if pin_eqb q (POut n new) then ow
                             else if pin_eqb q (POut n cur) then None else pin_wire s q) ->
  (forall w0, wpins s' w0 = match ow with
                            | Some w => if Nat.eqb w0 w then map (rename_pin (POut n cur) (POut n new)) (wpins s w) else wpins s w0
                            | None => wpins s w0 end) ->
  InvP s'.
Proof.
  intros [H1 H2] Hcur Hnew Hq Hw.
  destruct (Nat.eqb_spec cur new) as [->|Hne].
  - (* identity re-key *)
    apply (invp_same s); [constructor; assumption| |].
    + intro q. rewrite Hq. destruct (pin_eqb q (POut n new)) eqn:E; [|reflexivity].
      apply pin_eqb_spec in E; subst q. symmetry; assumption.
    + intro w0. rewrite Hw. destruct ow as [w|]; [|reflexivity].
      destruct (Nat.eqb w0 w) eqn:E; [|reflexivity]. apply Nat.eqb_eq in E; subst w0.
      rewrite <- (map_id (wpins s w)) at 2. apply map_ext. intro a. unfold rename_pin.
      destruct (pin_eqb a (POut n new)) eqn:Ea; [apply pin_eqb_spec in Ea; congruence|reflexivity].
  - destruct Hnew as [Hnew|Hnew]; [contradiction|].
    assert (Hpne : POut n cur <> POut n new) by congruence.
    constructor.
    + intros w0 q. rewrite Hw, Hq.
      destruct (pin_eqb q (POut n new)) eqn:En.
      * apply pin_eqb_spec in En; subst q. destruct ow as [w|].
        -- destruct (Nat.eqb_spec w0 w) as [->|Hw0].
           ++ split; [reflexivity|]. intros _. apply in_map_iff. exists (POut n cur).
              unfold rename_pin. rewrite pin_eqb_refl. split; [reflexivity|]. apply H1. assumption.
           ++ rewrite H1, Hnew. split; [discriminate|intro H; inversion H; congruence].
        -- rewrite H1, Hnew. tauto.
      * destruct (pin_eqb q (POut n cur)) eqn:Ec.
        -- apply pin_eqb_spec in Ec; subst q. split; [|discriminate]. destruct ow as [w|].
           ++ destruct (Nat.eqb_spec w0 w) as [->|Hw0].
              ** rewrite in_map_iff. intros [a [Ha _]]. unfold rename_pin in Ha.
                 destruct (pin_eqb a (POut n cur)) eqn:Ea; [congruence|]. subst a. rewrite pin_eqb_refl in Ea. discriminate.
              ** rewrite H1, Hcur. intro H; inversion H; congruence.
           ++ rewrite H1, Hcur. discriminate.
        -- assert (Hqc : q <> POut n cur) by (intro; subst; rewrite pin_eqb_refl in Ec; discriminate).
           assert (Hqn : q <> POut n new) by (intro; subst; rewrite pin_eqb_refl in En; discriminate).
           destruct ow as [w|]; [|apply H1].
           destruct (Nat.eqb_spec w0 w) as [->|Hw0]; [|apply H1].
           rewrite <- H1, in_map_iff. split.
           ++ intros [a [Ha Hin]]. unfold rename_pin in Ha. destruct (pin_eqb a (POut n cur)); [congruence|subst; assumption].
           ++ intro Hin. exists q. split; [|assumption]. unfold rename_pin. rewrite Ec. reflexivity.
    + intro w0. rewrite Hw. destruct ow as [w|]; [|apply H2].
      destruct (Nat.eqb w0 w); [|apply H2].
      apply NoDup_map_inj_in; [|apply H2].
      intros a b Ha Hb Hab. unfold rename_pin in Hab.
      destruct (pin_eqb a (POut n cur)) eqn:Ea; destruct (pin_eqb b (POut n cur)) eqn:Eb.
      * apply pin_eqb_spec in Ea, Eb. congruence.
      * subst b. exfalso. apply H1 in Hb. rewrite Hnew in Hb. discriminate.
      * subst a. exfalso. apply H1 in Ha. rewrite Hnew in Ha. discriminate.
      * assumption.
Qed.
