(* Engine `verilog`: per-construct lemmas of the writer model (Fmt/VEmit.v), lifting the mechanism theorems of C04
   (Proofs/VerilogSlice.v, VerilogPort.v) to the document level: what emit writes for a cable declaration, a plain
   header port and one named port connection, and what the reader makes of it. Proofs only. *)
From Coq Require Import List ZArith Bool Arith Lia Permutation.
From SV Require Import Base.Base Fmt.VBits Fmt.VExpr Fmt.VDoc Fmt.VElab Fmt.VEmit
  Proofs.VerilogLists Proofs.VerilogSlice Proofs.VerilogPort.
Import ListNotations.
Open Scope Z_scope.

(* the document expression of the text of one instance port *)
Definition ptext_expr (d : nv_def) (t : ptext) : option dexpr :=
  match t with
  | PEmpty => None
  | PPlain c b => Some (DAtom (piece_atom d (c, b)))
  | PConcat l => Some (DCat (map (piece_atom d) l))
  end.

(* emit_conn is VExpr.emit_port on the wires of the instance's pins, with the cable numbers printed as names *)
Lemma emit_conn_is_emit_port d iname p nm txt :
  np_label p = LName nm -> (1 <= np_width p)%nat ->
  emit_port (def_env d) (pin_wires d (EInst iname (np_label p)) p) = Some txt ->
  emit_conn d iname p = WOk (nm, ptext_expr d txt).
Proof.
  intros Hl Hw He. unfold emit_conn, port_name. rewrite Hl in *. cbn [wbind].
  destruct (np_width p) eqn:W; [lia|]. cbv iota. rewrite He. destruct txt; reflexivity.
Qed.

(* one named port connection (lifting C04_port_emit_inverse): when the pins of the port, in port order, are on the
   wires cs (any cables, any order) with r unconnected pins at the high end, the connection emit writes is read
   back (VExpr.read_port) and aligned so that the wire of pin k is on pin k again, and nothing else is connected *)
Lemma conn_emit_inverse d iname p nm (cs : list wire) (r : nat) (pins : list nat) :
  np_label p = LName nm -> (1 <= np_width p)%nat ->
  pin_wires d (EInst iname (np_label p)) p = map Some cs ++ repeat None r ->
  (forall c i, In (c, i) cs -> in_cable (def_env d) c i) ->
  Permutation pins (seq 0 (length cs + r)) ->
  exists txt t,
    emit_conn d iname p = WOk (nm, ptext_expr d txt) /\ read_port (def_env d) txt = Some t /\
    align Z.of_nat pins t = Some (combine (rev cs) (rev (seq 0 (length cs)))).
Proof.
  intros Hl Hw Hp Hin Hperm.
  destruct (port_emit_inverse_lemma (def_env d) cs r pins Hin Hperm) as [txt [t [H1 [H2 H3]]]].
  exists txt, t. split; [|split; assumption].
  apply emit_conn_is_emit_port; try assumption. rewrite Hp. exact H1.
Qed.

(* header: a port of the class `writable` (direction, every pin on the cable of the port's own name, ascending) is
   written by its name alone - the form the reader's parse_module_header_port takes *)
Lemma header_plain d p :
  port_plain d p = true -> exists nm, np_label p = LName nm /\ emit_header_port d p = WOk (HPort None None nm).
Proof.
  unfold port_plain, emit_header_port, port_name. destruct (np_dir p); [|discriminate].
  destruct (np_label p) as [nm|k] eqn:L; [|discriminate].
  destruct (cable_idx d nm) as [k|] eqn:C; [|discriminate].
  intro H. apply andb_true_iff in H as [_ H]. apply negb_true_iff in H.
  exists nm. split; [reflexivity|]. simpl. rewrite C. rewrite H. reflexivity.
Qed.

(* declarations (lifting C04_decl_inverse): the range emit writes for a cable is read back by the reader's
   populate_new_cable (VBits.new_bundle) as the same lower index and the same number of wires *)
Lemma emit_cable_inverse c :
  (1 <= nc_width c)%nat ->
  exists rg, emit_cable c = WOk (IWire (nc_type c) rg [nc_name c] (nc_attrs c)) /\
    new_bundle (range_l rg) (range_r rg) 0 =
      {| b_lo := nc_lower c; b_items := seq 0 (nc_width c); b_next := nc_width c |}.
Proof.
  intro Hw. unfold emit_cable, decl_range.
  destruct (decl_inverse_lemma (nc_lower c) (Z.of_nat (nc_width c))) as [b [Hb Hp]]; [lia|].
  rewrite Hb. simpl. exists (brk_range b). split; [reflexivity|].
  assert (Hr : range_l (brk_range b) = fst (read_brackets b) /\ range_r (brk_range b) = snd (read_brackets b)).
  { unfold write_decl in Hb.
    destruct (Z.of_nat (nc_width c) =? 0); [discriminate|].
    destruct ((Z.of_nat (nc_width c) =? 1) && (nc_lower c =? 0)); inversion Hb; subst; simpl; split; reflexivity. }
  destruct Hr as [-> ->]. unfold new_bundle. rewrite Hp. rewrite Nat2Z.id. reflexivity.
Qed.

Lemma nth_upd_last {A} (f : A -> A) l x : nth_upd (length l) f (l ++ [x]) = l ++ [f x].
Proof. induction l as [|y l IH]; simpl; [reflexivity|]. now rewrite IH. Qed.

(* ... and at the level of the reader model: the reader's parse_cable_declaration (VElab.wire_decl) on the item emit
   writes for a cable, in a module that does not have the cable yet, creates exactly that cable: name, lower index,
   width, type and attributes *)
Lemma emit_cable_elab c d :
  (1 <= nc_width c)%nat -> has_glob (nc_name c) = false -> find_cable (nc_name c) d = None ->
  exists rg, emit_cable c = WOk (IWire (nc_type c) rg [nc_name c] (nc_attrs c)) /\
    wire_decl (nc_type c) rg (nc_attrs c) [nc_name c] d =
      Ok (set_cables d (ed_cables d ++
            [{| ec_name := nc_name c;
                ec_b := {| b_lo := nc_lower c; b_items := seq 0 (nc_width c); b_next := nc_width c |};
                ec_type := Some (nc_type c); ec_attrs := dict_of (nc_attrs c) |}])).
Proof.
  intros Hw Hg Hf. destruct (emit_cable_inverse c Hw) as [rg [He Hb]]. exists rg. split; [exact He|].
  unfold wire_decl, wire_decl_one. rewrite Hg. unfold cou_cable. rewrite Hf. rewrite Hb.
  cbn [bind fold_res]. unfold set_cable_attrs. cbn [ed_cables set_cables].
  rewrite nth_upd_last. reflexivity.
Qed.

(* ---------- the skeleton of a written module (for every netlist value) ---------- *)
Lemma wmap_Forall2 {A B} (f : A -> wres B) l l' : wmap f l = WOk l' -> Forall2 (fun x y => f x = WOk y) l l'.
Proof.
  revert l'. induction l as [|x l IH]; simpl; intros l' H.
  - inversion H. constructor.
  - destruct (f x) as [y| |] eqn:F; simpl in H; try discriminate.
    destruct (wmap f l) as [ys| |] eqn:W; simpl in H; try discriminate.
    inversion H; subst. constructor; [exact F|]. now apply IH.
Qed.

(* _write_module: name, `celldefine flag, parameters and attributes are those of the definition; the header has one
   entry per port, in port order, each written by _write_module_header_port; a primitive has port declarations only *)
Lemma emit_module_skeleton o n dd m :
  emit_module o n dd = WOk m ->
  vm_name m = nd_name dd /\ vm_cell m = is_prim dd /\ vm_params m = nd_params dd /\ vm_attrs m = nd_attrs dd /\
  Forall2 (fun p h => emit_header_port dd p = WOk h) (nd_ports dd) (vm_header m) /\
  (is_prim dd = true -> emit_body_ports dd (nd_ports dd) [] = WOk (vm_body m)).
Proof.
  unfold emit_module.
  destruct (negb (def_value_ok dd)); [discriminate|]. destruct (negb (def_names_ok dd)); [discriminate|].
  destruct (wmap (emit_header_port dd) (nd_ports dd)) as [hd| |] eqn:H; try discriminate.
  cbn [wbind]. destruct (emit_body_ports dd (nd_ports dd) []) as [ps| |] eqn:P; try discriminate.
  cbn [wbind]. destruct (is_prim dd) eqn:IP.
  - cbn [wbind]. intro E. inversion E; subst; simpl. repeat split; try reflexivity. now apply wmap_Forall2.
  - destruct (wmap emit_cable (rev (nd_cables dd))) as [cs| |]; try discriminate. cbn [wbind].
    destruct (wmap (emit_assign dd) (nd_assigns dd)) as [asg| |]; try discriminate. cbn [wbind].
    destruct (wmap (emit_inst o n dd) (nd_insts dd)) as [ins| |]; try discriminate. cbn [wbind].
    intro E. inversion E; subst; simpl. repeat split; try reflexivity; [now apply wmap_Forall2|discriminate].
Qed.

(* the header of a module of the class `writable` is the list of its port names *)
Lemma writable_header o n dd m :
  forallb (port_plain dd) (nd_ports dd) = true -> emit_module o n dd = WOk m ->
  Forall2 (fun p h => exists nm, np_label p = LName nm /\ h = HPort None None nm) (nd_ports dd) (vm_header m).
Proof.
  intros Hp He. destruct (emit_module_skeleton _ _ _ _ He) as [_ [_ [_ [_ [Hh _]]]]].
  rewrite forallb_forall in Hp.
  revert Hp Hh. generalize (vm_header m). induction (nd_ports dd) as [|p ps IH]; intros hs Hp Hh.
  - inversion Hh. constructor.
  - inversion Hh as [|? h ? hs' E1 E2]; subst. constructor.
    + destruct (header_plain dd p (Hp p (or_introl eq_refl))) as [nm [L Eh]]. exists nm. split; [exact L|].
      rewrite Eh in E1. now inversion E1.
    + apply IH; [intros x Hx; apply Hp; now right|exact E2].
Qed.

(* _compose: the document is the list of the written modules in the order of the _write_module calls (breadth first
   from the top, then library order), each module written from the definition of that name *)
Definition written_order (o : vopts) (n : nv) : list str :=
  filter (fun x => match find_ndef n x with Some d => is_written o d | None => true end) (module_order n).

Lemma emit_document o n d :
  emit o n = WOk d ->
  Forall2 (fun x m => exists dd, find_ndef n x = Some dd /\ emit_module o n dd = WOk m /\ vm_name m = x)
          (written_order o n) d.
Proof.
  unfold emit. destruct (negb (nodup_names (map nd_name (nv_defs n)))); [discriminate|].
  intro H. apply wmap_Forall2 in H. fold (written_order o n) in H.
  induction H as [|x m xs ms Hx _ IH]; constructor; [|exact IH].
  destruct (find_ndef n x) as [dd|] eqn:F; [|discriminate].
  exists dd. split; [reflexivity|]. split; [exact Hx|].
  destruct (emit_module_skeleton _ _ _ _ Hx) as [Hn _]. rewrite Hn.
  unfold find_ndef in F. apply find_some in F as [_ F]. now apply str_eqb_spec in F.
Qed.
