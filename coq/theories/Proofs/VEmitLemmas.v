(* Engine `verilog`: per-construct lemmas of the writer model (Fmt/VEmit.v), lifting the mechanism theorems of C04
   (Proofs/VerilogSlice.v, VerilogPort.v) to the document level: what emit writes for a cable declaration, a plain
   header port and one named port connection, and what the reader makes of it. Proofs only. *)
From Coq Require Import List ZArith Bool Arith Lia Permutation.
From SV Require Import Base.Base Fmt.VBits Fmt.VExpr Fmt.VDoc Fmt.VElab Fmt.VEmit
  Proofs.VerilogLists Proofs.VerilogSlice Proofs.VerilogPort.
Import ListNotations.
Open Scope Z_scope.

(* the document expression of the text of one instance port *)
Definition ptext_expr (d : nv_def) (t : ptext) : option dexpr :=
  match t with
  | PEmpty => None
  | PPlain c b => Some (DAtom (piece_atom d (c, b)))
  | PConcat l => Some (DCat (map (piece_atom d) l))
  end.

(* emit_conn is VExpr.emit_port on the wires of the instance's pins, with the cable numbers printed as names *)
Lemma emit_conn_is_emit_port d iname p nm txt :
  np_label p = LName nm -> (1 <= np_width p)%nat ->
  emit_port (def_env d) (pin_wires d (EInst iname (np_label p)) p) = Some txt ->
  emit_conn d iname p = WOk (nm, ptext_expr d txt).
Proof.
  intros Hl Hw He. unfold emit_conn, port_name. rewrite Hl in *. cbn [wbind].
  destruct (np_width p) eqn:W; [lia|]. cbv iota. rewrite He. destruct txt; reflexivity.
Qed.

(* one named port connection (lifting C04_port_emit_inverse): when the pins of the port, in port order, are on the
   wires cs (any cables, any order) with r unconnected pins at the high end, the connection emit writes is read
   back (VExpr.read_port) and aligned so that the wire of pin k is on pin k again, and nothing else is connected *)
Lemma conn_emit_inverse d iname p nm (cs : list wire) (r : nat) (pins : list nat) :
  np_label p = LName nm -> (1 <= np_width p)%nat ->
  pin_wires d (EInst iname (np_label p)) p = map Some cs ++ repeat None r ->
  (forall c i, In (c, i) cs -> in_cable (def_env d) c i) ->
  Permutation pins (seq 0 (length cs + r)) ->
  exists txt t,
    emit_conn d iname p = WOk (nm, ptext_expr d txt) /\ read_port (def_env d) txt = Some t /\
    align Z.of_nat pins t = Some (combine (rev cs) (rev (seq 0 (length cs)))).
Proof.
  intros Hl Hw Hp Hin Hperm.
  destruct (port_emit_inverse_lemma (def_env d) cs r pins Hin Hperm) as [txt [t [H1 [H2 H3]]]].
  exists txt, t. split; [|split; assumption].
  apply emit_conn_is_emit_port; try assumption. rewrite Hp. exact H1.
Qed.

(* header: a port of the class `writable` (direction, every pin on the cable of the port's own name, ascending) is
   written by its name alone - the form the reader's parse_module_header_port takes *)
Lemma header_plain d p :
  port_plain d p = true -> exists nm, np_label p = LName nm /\ emit_header_port d p = WOk (HPort None None nm).
Proof.
  unfold port_plain, emit_header_port, port_name. destruct (np_dir p); [|discriminate].
  destruct (np_label p) as [nm|k] eqn:L; [|discriminate].
  destruct (cable_idx d nm) as [k|] eqn:C; [|discriminate].
  intro H. apply andb_true_iff in H as [_ H]. apply negb_true_iff in H.
  exists nm. split; [reflexivity|]. simpl. rewrite C. rewrite H. reflexivity.
Qed.

(* declarations (lifting C04_decl_inverse): the range emit writes for a cable is read back by the reader's
   populate_new_cable (VBits.new_bundle) as the same lower index and the same number of wires *)
Lemma emit_cable_inverse c :
  (1 <= nc_width c)%nat ->
  exists rg, emit_cable c = WOk (IWire (nc_type c) rg [nc_name c] (nc_attrs c)) /\
    new_bundle (range_l rg) (range_r rg) 0 =
      {| b_lo := nc_lower c; b_items := seq 0 (nc_width c); b_next := nc_width c |}.
Proof.
  intro Hw. unfold emit_cable, decl_range.
  destruct (decl_inverse_lemma (nc_lower c) (Z.of_nat (nc_width c))) as [b [Hb Hp]]; [lia|].
  rewrite Hb. simpl. exists (brk_range b). split; [reflexivity|].
  assert (Hr : range_l (brk_range b) = fst (read_brackets b) /\ range_r (brk_range b) = snd (read_brackets b)).
  { unfold write_decl in Hb.
    destruct (Z.of_nat (nc_width c) =? 0); [discriminate|].
    destruct ((Z.of_nat (nc_width c) =? 1) && (nc_lower c =? 0)); inversion Hb; subst; simpl; split; reflexivity. }
  destruct Hr as [-> ->]. unfold new_bundle. rewrite Hp. rewrite Nat2Z.id. reflexivity.
Qed.

Lemma nth_upd_last {A} (f : A -> A) l x : nth_upd (length l) f (l ++ [x]) = l ++ [f x].
Proof. induction l as [|y l IH]; simpl; [reflexivity|]. now rewrite IH. Qed.

(* ... and at the level of the reader model: the reader's parse_cable_declaration (VElab.wire_decl) on the item emit
   writes for a cable, in a module that does not have the cable yet, creates exactly that cable: name, lower index,
   width, type and attributes *)
Lemma emit_cable_elab c d :
  (1 <= nc_width c)%nat -> has_glob (nc_name c) = false -> find_cable (nc_name c) d = None ->
  exists rg, emit_cable c = WOk (IWire (nc_type c) rg [nc_name c] (nc_attrs c)) /\
    wire_decl (nc_type c) rg (nc_attrs c) [nc_name c] d =
      Ok (set_cables d (ed_cables d ++
            [{| ec_name := nc_name c;
                ec_b := {| b_lo := nc_lower c; b_items := seq 0 (nc_width c); b_next := nc_width c |};
                ec_type := Some (nc_type c); ec_attrs := dict_of (nc_attrs c) |}])).
Proof.
  intros Hw Hg Hf. destruct (emit_cable_inverse c Hw) as [rg [He Hb]]. exists rg. split; [exact He|].
  unfold wire_decl, wire_decl_one. rewrite Hg. unfold cou_cable. rewrite Hf. rewrite Hb.
  cbn [bind fold_res]. unfold set_cable_attrs. cbn [ed_cables set_cables].
  rewrite nth_upd_last. reflexivity.
Qed.

(* ---------- the skeleton of a written module (for every netlist value) ---------- *)
Lemma wmap_Forall2 {A B} (f : A -> wres B) l l' : wmap f l = WOk l' -> Forall2 (fun x y => f x = WOk y) l l'.
Proof.
  revert l'. induction l as [|x l IH]; simpl; intros l' H.
  - inversion H. constructor.
  - destruct (f x) as [y| |] eqn:F; simpl in H; try discriminate.
    destruct (wmap f l) as [ys| |] eqn:W; simpl in H; try discriminate.
    inversion H; subst. constructor; [exact F|]. now apply IH.
Qed.

(* _write_module: name, `celldefine flag, parameters and attributes are those of the definition; the header has one
   entry per port, in port order, each written by _write_module_header_port; a primitive has port declarations only *)
Lemma emit_module_skeleton o n dd m :
  emit_module o n dd = WOk m ->
  vm_name m = nd_name dd /\ vm_cell m = is_prim dd /\ vm_params m = nd_params dd /\ vm_attrs m = nd_attrs dd /\
  Forall2 (fun p h => emit_header_port dd p = WOk h) (nd_ports dd) (vm_header m) /\
  (is_prim dd = true -> emit_body_ports dd (nd_ports dd) [] = WOk (vm_body m)).
Proof.
  unfold emit_module.
  destruct (negb (def_value_ok dd)); [discriminate|]. destruct (negb (def_names_ok dd)); [discriminate|].
  destruct (wmap (emit_header_port dd) (nd_ports dd)) as [hd| |] eqn:H; try discriminate.
  cbn [wbind]. destruct (emit_body_ports dd (nd_ports dd) []) as [ps| |] eqn:P; try discriminate.
  cbn [wbind]. destruct (is_prim dd) eqn:IP.
  - cbn [wbind]. intro E. inversion E; subst; simpl. repeat split; try reflexivity. now apply wmap_Forall2.
  - destruct (wmap emit_cable (rev (nd_cables dd))) as [cs| |]; try discriminate. cbn [wbind].
    destruct (wmap (emit_assign dd) (nd_assigns dd)) as [asg| |]; try discriminate. cbn [wbind].
    destruct (wmap (emit_inst o n dd) (nd_insts dd)) as [ins| |]; try discriminate. cbn [wbind].
    intro E. inversion E; subst; simpl. repeat split; try reflexivity; [now apply wmap_Forall2|discriminate].
Qed.

(* the header of a module of the class `writable` is the list of its port names *)
Lemma writable_header o n dd m :
  forallb (port_plain dd) (nd_ports dd) = true -> emit_module o n dd = WOk m ->
  Forall2 (fun p h => exists nm, np_label p = LName nm /\ h = HPort None None nm) (nd_ports dd) (vm_header m).
Proof.
  intros Hp He. destruct (emit_module_skeleton _ _ _ _ He) as [_ [_ [_ [_ [Hh _]]]]].
  rewrite forallb_forall in Hp.
  revert Hp Hh. generalize (vm_header m). induction (nd_ports dd) as [|p ps IH]; intros hs Hp Hh.
  - inversion Hh. constructor.
  - inversion Hh as [|? h ? hs' E1 E2]; subst. constructor.
    + destruct (header_plain dd p (Hp p (or_introl eq_refl))) as [nm [L Eh]]. exists nm. split; [exact L|].
      rewrite Eh in E1. now inversion E1.
    + apply IH; [intros x Hx; apply Hp; now right|exact E2].
Qed.

(* _compose: the document is the list of the written modules in the order of the _write_module calls (breadth first
   from the top, then library order), each module written from the definition of that name *)
Definition written_order (o : vopts) (n : nv) : list str :=
  filter (fun x => match find_ndef n x with Some d => is_written o d | None => true end) (module_order n).

Lemma emit_document o n d :
  emit o n = WOk d ->
  Forall2 (fun x m => exists dd, find_ndef n x = Some dd /\ emit_module o n dd = WOk m /\ vm_name m = x)
          (written_order o n) d.
Proof.
  unfold emit. destruct (negb (nodup_names (map nd_name (nv_defs n)))); [discriminate|].
  intro H. apply wmap_Forall2 in H. fold (written_order o n) in H.
  induction H as [|x m xs ms Hx _ IH]; constructor; [|exact IH].
  destruct (find_ndef n x) as [dd|] eqn:F; [|discriminate].
  exists dd. split; [reflexivity|]. split; [exact Hx|].
  destruct (emit_module_skeleton _ _ _ _ Hx) as [Hn _]. rewrite Hn.
  unfold find_ndef in F. apply find_some in F as [_ F]. now apply str_eqb_spec in F.
Qed.

(* ---------- assignment instances (lifting C04_assign_roundtrip to emit_assign) ---------- *)
From SV Require Import Proofs.VerilogAssign.

(* an assignment instance whose pins carry what the reader made of "assign lhs = rhs" (any widths, equal or not, any
   bases) is written by emit as one slice per side, and the reader makes of that text the same pins again *)
Lemma emit_assign_inverse d prs pins lhs rhs :
  prs <> [] -> assign_wires d prs = WOk pins ->
  atom_typed (def_env d) lhs -> atom_typed (def_env d) rhs ->
  read_assign (def_env d) lhs rhs = Some pins ->
  exists co bo ci bi,
    emit_assign d prs = WOk (IAssign (piece_atom d (co, bo)) (piece_atom d (ci, bi))) /\
    read_assign (def_env d) (brk_atom co bo) (brk_atom ci bi) = Some pins.
Proof.
  intros Hne Hw Hl Hr Hread.
  destruct (assign_roundtrip_lemma (def_env d) lhs rhs Hl Hr) as [pins' [co [bo [ci [bi [R1 [Wr R2]]]]]]].
  rewrite Hread in R1. inversion R1; subst pins'.
  exists co, bo, ci, bi. split; [|exact R2].
  unfold emit_assign. destruct prs as [|x r]; [contradiction|]. rewrite Hw. cbn [wbind]. rewrite Wr. reflexivity.
Qed.

(* the document atom emit prints is the reader's atom with the cable number printed as its name *)
Lemma piece_atom_name d c b :
  atom_name (piece_atom d (c, b)) = cable_name d (atom_cable (brk_atom c b)) /\
  atom_l (piece_atom d (c, b)) = fst (read_brackets b) /\ atom_r (piece_atom d (c, b)) = snd (read_brackets b).
Proof. destruct b; simpl; repeat split; reflexivity. Qed.

(* ---------- whatever the writer writes for an assignment instance, the reader reads as the same pins ---------- *)
Lemma write_brackets_atom e c l h b : l <= h ->
  write_brackets (fst (e c)) (Z.of_nat (snd (e c))) (Some l) (Some h) = Some b ->
  atom_typed e (brk_atom c b) /\ atom_cable (brk_atom c b) = c /\ alo e (brk_atom c b) = l /\ ahi e (brk_atom c b) = h.
Proof.
  intros Hlh. unfold write_brackets, atom_typed, opt_is, inb.
  set (lo := fst (e c)). set (n := snd (e c)).
  destruct (Z.eqb_spec (Z.of_nat n) 0) as [|Hn0]; [discriminate|].
  destruct (Z.eqb_spec (Z.of_nat n) 1) as [Hn1|Hn1].
  - destruct (Z.eqb_spec l lo) as [->|]; cbn [andb]; [|discriminate].
    destruct (Z.eqb_spec h (lo + Z.of_nat n - 1)) as [->|]; [|discriminate].
    intro H. inversion H; subst b. cbn [brk_atom atom_cable alo ahi]. fold lo n. repeat split; try lia.
  - destruct (Z.eqb_spec l lo) as [->|Hl]; cbn [andb].
    + destruct (Z.eqb_spec h (lo + Z.of_nat n - 1)) as [->|Hh].
      * intro H. inversion H; subst b. cbn [brk_atom atom_cable alo ahi]. fold lo n. repeat split; try lia.
      * destruct (Z.eqb_spec lo h) as [<-|Hne].
        -- destruct ((lo <=? lo) && (lo <=? lo + Z.of_nat n - 1)) eqn:I; [|discriminate].
           intro H. inversion H; subst b. cbn [brk_atom atom_cable alo ahi]. fold lo n.
           apply andb_true_iff in I as [I1 I2]. apply Z.leb_le in I1, I2. repeat split; try lia.
        -- destruct ((lo <=? lo) && (lo <=? lo + Z.of_nat n - 1) && ((lo <=? h) && (h <=? lo + Z.of_nat n - 1))) eqn:I; [|discriminate].
           intro H. inversion H; subst b. cbn [brk_atom atom_cable alo ahi]. fold lo n.
           apply andb_true_iff in I as [I1 I2]. apply andb_true_iff in I1 as [I1 I3]. apply andb_true_iff in I2 as [I2 I4].
           apply Z.leb_le in I1, I2, I3, I4. repeat split; try lia.
    + destruct (Z.eqb_spec l h) as [<-|Hne].
      * destruct ((lo <=? l) && (l <=? lo + Z.of_nat n - 1)) eqn:I; [|discriminate].
        intro H. inversion H; subst b. cbn [brk_atom atom_cable alo ahi]. fold lo n.
        apply andb_true_iff in I as [I1 I2]. apply Z.leb_le in I1, I2. repeat split; try lia.
      * destruct ((lo <=? l) && (l <=? lo + Z.of_nat n - 1) && ((lo <=? h) && (h <=? lo + Z.of_nat n - 1))) eqn:I; [|discriminate].
        intro H. inversion H; subst b. cbn [brk_atom atom_cable alo ahi]. fold lo n.
        apply andb_true_iff in I as [I1 I2]. apply andb_true_iff in I1 as [I1 I3]. apply andb_true_iff in I2 as [I2 I4].
        apply Z.leb_le in I1, I2, I3, I4. repeat split; try lia.
Qed.

Lemma not_concat_run c i0 (r : list wire) :
  is_pinset_concatenated (Some c) (map Some ((c, i0) :: r)) = false -> (c, i0) :: r = wrun c i0 (S (length r)).
Proof.
  unfold is_pinset_concatenated. cbn [map concat_scan]. rewrite Nat.eqb_refl. cbn [negb andb orb].
  intro H.
  assert (H' : concat_scan (Some c) false (Some i0) (map Some r ++ repeat None 0) = false)
    by (cbn [repeat]; rewrite app_nil_r; exact H).
  clear H. rename H' into H. apply scan_false_consec in H. rewrite wrun_S. f_equal. unfold consec in H. exact H.
Qed.

Lemma first_cable_of_run c c' i0 (r : list wire) :
  is_pinset_concatenated (Some c) (map Some ((c', i0) :: r)) = false -> c' = c.
Proof.
  unfold is_pinset_concatenated. cbn [map concat_scan]. destruct (Nat.eqb_spec c' c); [trivial|]. cbn. discriminate.
Qed.

Lemma combine_fst_snd {A B} (l : list (A * B)) : combine (map fst l) (map snd l) = l.
Proof. induction l as [|[a b] l IH]; cbn; [reflexivity|]. now rewrite IH. Qed.

(* for EVERY list of pins: when _write_assignment writes (does not raise), the two slices are read back by the
   reader's assign as exactly these pins, pin by pin (C04_assign_roundtrip without the premise that the pins come
   from a reading) *)
Lemma write_assign_reread e pins co bo ci bi :
  write_assign e pins = Some ((co, bo), (ci, bi)) ->
  read_assign e (brk_atom co bo) (brk_atom ci bi) = Some pins.
Proof.
  unfold write_assign. cbv zeta.
  destruct (map snd pins) as [|[ci' i0] ri] eqn:Ei; [discriminate|].
  destruct (map fst pins) as [|[co' o0] ro] eqn:Eo; [discriminate|].
  cbv beta iota.
  match goal with |- context [is_pinset_concatenated ?a ?b] => destruct (is_pinset_concatenated a b) eqn:Ni end; [discriminate|].
  match goal with |- context [is_pinset_concatenated ?a ?b] => destruct (is_pinset_concatenated a b) eqn:No end; [discriminate|].
  apply not_concat_run in Ni. apply not_concat_run in No.
  assert (Hlen : length ro = length ri).
  { assert (L1 : length (map fst pins) = length (map snd pins)) by (rewrite !map_length; reflexivity).
    rewrite Ei, Eo in L1. cbn in L1. lia. }
  assert (LLi : last ((ci', i0) :: ri) (ci', i0) = (ci', i0 + Z.of_nat (S (length ri)) - 1))
    by (rewrite Ni at 1; apply wrun_last; lia).
  assert (LLo : last ((co', o0) :: ro) (co', o0) = (co', o0 + Z.of_nat (S (length ro)) - 1))
    by (rewrite No at 1; apply wrun_last; lia).
  unfold wire in *. rewrite LLi, LLo. cbn [snd].
  destruct (write_brackets (fst (e co')) (Z.of_nat (snd (e co'))) (Some o0) (Some (o0 + Z.of_nat (S (length ro)) - 1))) as [bo'|] eqn:Wo; [|discriminate].
  destruct (write_brackets (fst (e ci')) (Z.of_nat (snd (e ci'))) (Some i0) (Some (i0 + Z.of_nat (S (length ri)) - 1))) as [bi'|] eqn:Wi; [|discriminate].
  intro H.
  inversion H; subst co' bo' ci' bi'.
  apply write_brackets_atom in Wo; [|lia]. apply write_brackets_atom in Wi; [|lia].
  destruct Wo as (To & Co & Lo & Ho). destruct Wi as (Ti & Ci & Li & Hi).
  rewrite (read_assign_run e _ _ To Ti). unfold awidth. rewrite Co, Ci, Lo, Li, Ho, Hi.
  replace (Z.to_nat (o0 + Z.of_nat (S (length ro)) - 1 - o0 + 1)) with (S (length ro)) by lia.
  replace (Z.to_nat (i0 + Z.of_nat (S (length ri)) - 1 - i0 + 1)) with (S (length ri)) by lia.
  rewrite Hlen, Nat.min_id. rewrite <- Ni. rewrite <- Hlen, <- No. rewrite <- Ei, <- Eo. f_equal. apply combine_fst_snd.
Qed.

(* ... and at the level of emit: every assignment instance emit writes is read back as the same pins *)
Lemma emit_assign_reread d prs lhs rhs :
  emit_assign d prs = WOk (IAssign lhs rhs) ->
  exists pins co bo ci bi,
    assign_wires d prs = WOk pins /\ lhs = piece_atom d (co, bo) /\ rhs = piece_atom d (ci, bi) /\
    read_assign (def_env d) (brk_atom co bo) (brk_atom ci bi) = Some pins.
Proof.
  unfold emit_assign. destruct prs as [|x r]; [discriminate|].
  destruct (assign_wires d (x :: r)) as [pins| |] eqn:W; try discriminate. cbn [wbind].
  destruct (write_assign (def_env d) pins) as [[[co bo] [ci bi]]|] eqn:Wr; [|discriminate].
  intro H. inversion H; subst. exists pins, co, bo, ci, bi. repeat split. now apply write_assign_reread.
Qed.
