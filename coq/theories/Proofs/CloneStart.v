(* Every state reachable by editing calls is a legitimate starting point for a clone (StartOK):
   identifiers at or above [next] have no children and no top instance, and wires list only pins
   of allocated instances. *)
From Coq Require Import List Arith Bool Lia.
From RecordUpdate Require Import RecordSet.
From SV Require Import Base.Base IR.State IR.NS IR.Ops Xform.Clone Proofs.AssocX Proofs.Frame Proofs.Inv1a Proofs.Inv2a
  Proofs.InvP Proofs.InvW Proofs.Fresh Proofs.RefusedFull Proofs.NsInv Proofs.C01_full Proofs.CloneFrame.
Import ListNotations RecordSetNotations.

Definition FreshT (s : state) : Prop := forall x, next s <= x -> top s x = None.

(* top is written by the top_instance setter only *)
Record tq (s s' : state) : Prop := mkTq { tq_top : top s' = top s; tq_next : next s <= next s' }.
Lemma tq_refl s : tq s s. Proof. constructor; [reflexivity|apply Nat.le_refl]. Qed.
Lemma tq_trans a b c : tq a b -> tq b c -> tq a c. Proof. intros [A1 A2] [B1 B2]. constructor; [congruence|lia]. Qed.
Lemma tq_bind r f s : tq s (fst r) -> (forall s1, tq s1 (fst (f s1))) -> tq s (fst (r >>= f)).
Proof. destruct r as [s1 [x|]]; cbn; intros H1 H2; [exact H1|]. eapply tq_trans; [exact H1|apply H2]. Qed.
Lemma tq_guard b x s k : (forall s1, tq s1 (fst (k s1))) -> tq s (fst (guard b x s k)).
Proof. intro H. unfold guard. destruct b; [apply H|apply tq_refl]. Qed.
Lemma tq_fold_idsR f l : (forall s x, tq s (fst (f s x))) -> forall s, tq s (fst (fold_idsR f l s)).
Proof. intro H. induction l as [|x l IH]; intro s; cbn; [apply tq_refl|]. apply tq_bind; [apply H|apply IH]. Qed.
Lemma tq_fold_pairsR f l : (forall s x, tq s (fst (f s x))) -> forall s, tq s (fst (fold_pairsR f l s)).
Proof. intro H. induction l as [|x l IH]; intro s; cbn; [apply tq_refl|]. apply tq_bind; [apply H|apply IH]. Qed.
Lemma tq_fold_ids f l : (forall s x, tq s (f s x)) -> forall s, tq s (fold_ids f l s).
Proof. intro H. induction l as [|x l IH]; intro s; cbn; [apply tq_refl|]. eapply tq_trans; [apply H|apply IH]. Qed.
Lemma tq_fold_left {A} (f : state -> A -> state) l : (forall s x, tq s (f s x)) -> forall s, tq s (fold_left f l s).
Proof. intro H. induction l as [|x l IH]; intro s; cbn; [apply tq_refl|]. eapply tq_trans; [apply H|apply IH]. Qed.
Lemma tq_struct s s' : struct_eq s s' -> tq s s'.
Proof. intro H. constructor; [apply (se_top _ _ H)|rewrite (se_next _ _ H); apply Nat.le_refl]. Qed.
Ltac tq_triv := constructor; [reflexivity|cbn; lia].

Lemma tq_drop_outer s n i : tq s (fst (drop_outer s n i)).
Proof. unfold drop_outer. destruct (assoc i (ipins s n)) as [[w|]|]; tq_triv. Qed.
Lemma tq_rekey s n cn : tq s (fst (rekey s n cn)).
Proof. unfold rekey. destruct cn. destruct (assoc _ _) as [[w|]|]; tq_triv. Qed.

Lemma tq_construct s k nm props : tq s (fst (fst (construct s k nm props))).
Proof.
  unfold construct, alloc. cbn zeta beta iota.
  set (s0 := s <| next := S (next s) |> <| kind_of ::= fun f => upd f (next s) (Some k) |>).
  assert (T0 : tq s s0) by tq_triv.
  destruct (has_data k); cbn [fst]; [|exact T0].
  eapply tq_trans; [exact T0|]. apply tq_bind; [apply tq_struct, se_ns_create|]. intro s1.
  apply tq_bind; [destruct nm; [eapply tq_trans; [|apply tq_struct, se_dict_set]; tq_triv|tq_triv]|].
  intro s3. apply tq_struct, se_set_props.
Qed.

Lemma tq_add_post s r p c : tq s (add_post s r p c).
Proof.
  unfold add_post. destruct r; try apply tq_refl.
  - apply tq_fold_ids. intros s0 n. apply tq_fold_ids. intros; tq_triv.
  - destruct (par s RPorts p); [|apply tq_refl]. apply tq_fold_ids. intros; tq_triv.
Qed.

Lemma tq_op_add s r p c pos : tq s (fst (op_add s r p c pos)).
Proof.
  unfold op_add. repeat (apply tq_guard; intro).
  apply tq_bind; [destruct (ns_rel r); [apply tq_struct, se_ns_add|apply tq_refl]|].
  intro sx. eapply tq_trans; [|apply tq_add_post]. tq_triv.
Qed.

Lemma tq_remove_core s r p c : tq s (fst (remove_core s r p c)).
Proof.
  unfold remove_core. apply tq_bind; [|intro; tq_triv].
  eapply tq_trans with (b := emit (if ns_rel r then ns_remove_child s p c (rel_child r) else s) (ERemove r p c)).
  - destruct (ns_rel r); [|tq_triv]. eapply tq_trans; [apply tq_struct, se_ns_remove_child|tq_triv].
  - destruct r; try apply tq_refl.
    + apply tq_fold_idsR. intros s0 n. apply tq_fold_idsR. intros; apply tq_drop_outer.
    + destruct (par _ RPorts p); [|apply tq_refl]. apply tq_fold_idsR. intros; apply tq_drop_outer.
Qed.

Lemma tq_op_set_reference s x v : tq s (fst (op_set_reference s x v)).
Proof.
  unfold op_set_reference. repeat (apply tq_guard; intro). destruct v as [d'|].
  - apply tq_bind; [|intro; tq_triv].
    destruct (iref _ x).
    + apply tq_bind; [destruct (memb _ _); tq_triv|]. intro. apply tq_fold_pairsR. intros; apply tq_rekey.
    + cbn [fst ret]. eapply tq_trans; [|apply tq_fold_ids; intros; tq_triv]. tq_triv.
  - apply tq_bind; [eapply tq_trans; [|apply tq_fold_idsR; intros; apply tq_drop_outer]; tq_triv|].
    intro sx. apply tq_bind; [destruct (iref _ x); [destruct (memb _ _)|]; tq_triv|intro; tq_triv].
Qed.

Lemma tq_create_items r p : forall n s, tq s (fst (create_items s r p n)).
Proof.
  induction n as [|n IH]; intro s; cbn [create_items]; [apply tq_refl|]. unfold alloc. cbn zeta.
  eapply tq_trans with (b := s <| next := S (next s) |> <| kind_of ::= fun f => upd f (next s) (Some (rel_child r)) |>); [tq_triv|].
  apply tq_bind; [apply tq_op_add|apply IH].
Qed.

Lemma fresht_tq s s' : tq s s' -> FreshT s -> FreshT s'.
Proof. intros [A B] F x Hx. rewrite A. apply F. lia. Qed.

Ltac viaq := match goal with FT : FreshT ?s |- _ => apply (fresht_tq s); [|exact FT] end.

Theorem step_fresht s o : Fresh s -> FreshT s -> FreshT (fst (step s o)).
Proof.
  intros F FT. destruct o; cbn [step].
  - viaq. apply tq_construct.
  - viaq. apply tq_guard. intro s1. unfold create_and_add.
    pose proof (tq_construct s1 (rel_child r) nm props) as Tc.
    destruct (construct s1 (rel_child r) nm props) as [res x]. cbn [fst] in Tc.
    apply tq_bind; [apply tq_bind; [exact Tc|intro; apply tq_op_add]|].
    intro s2. destruct r; try apply tq_refl; [apply tq_create_items|apply tq_create_items|apply tq_op_set_reference].
  - viaq. apply tq_guard. intro. apply tq_create_items.
  - viaq. apply tq_op_add.
  - viaq. unfold op_remove. repeat (apply tq_guard; intro). apply tq_bind; [apply tq_remove_core|intro; tq_triv].
  - viaq. unfold op_remove_from. repeat (apply tq_guard; intro). apply tq_bind; [apply tq_fold_idsR; intros; apply tq_remove_core|intro; tq_triv].
  - viaq. unfold op_reorder. repeat (apply tq_guard; intro). tq_triv.
  - viaq. unfold op_reorder_wire. repeat (apply tq_guard; intro). tq_triv.
  - viaq. unfold op_connect. apply tq_guard. intro s1. destruct p as [i|n i|]; cbn; try apply tq_refl.
    + destruct (ipwire s1 i); cbn; [apply tq_refl|tq_triv].
    + destruct (assoc i (ipins s1 n)) as [[w0|]|]; cbn; try apply tq_refl. tq_triv.
  - viaq. unfold op_disconnect. repeat (apply tq_guard; intro). destruct p; tq_triv.
  - viaq. unfold op_disconnect_from. repeat (apply tq_guard; intro). cbn [fst ret].
    match goal with |- tq ?sx (set_wpins (fold_left ?f ?l ?sx) _ _) =>
      apply (tq_trans sx (fold_left f l sx)); [|tq_triv]; apply tq_fold_left; intros sq q; destruct q; tq_triv end.
  - viaq. apply tq_op_set_reference.
  - (* the setter itself *)
    unfold op_set_top, guard. destruct (is_kind s n KNetlist && _) eqn:HG; [|exact FT].
    apply andb_true_iff in HG as [Hn _]. pose proof (is_kind_lt s n _ F Hn) as Hlt.
    set (s1 := clear_old_top (emit s (ETop n a)) n).
    assert (T1 : tq s s1) by (unfold s1, clear_old_top; destruct (top _ n); tq_triv).
    destruct a as [x|d|].
    + intros y Hy. cbn. unfold upd. destruct (Nat.eqb_spec y n) as [->|]; [cbn in Hy; unfold s1, clear_old_top in Hy; destruct (top _ n); cbn in Hy; lia|].
      rewrite (tq_top _ _ T1). apply FT. unfold s1, clear_old_top in Hy. destruct (top _ n); cbn in Hy; lia.
    + pose proof (tq_construct s1 KInstance None []) as Tc.
      destruct (construct s1 KInstance None []) as [res t]. cbn [fst] in Tc.
      destruct res as [s2 [e|]]; cbn [bindR fst] in *; [apply (fresht_tq s); [eapply tq_trans; eassumption|exact FT]|].
      pose proof (tq_op_set_reference s2 t (Some d)) as Tr.
      destruct (op_set_reference s2 t (Some d)) as [s3 [e|]]; cbn [bindR fst ret] in *;
        [apply (fresht_tq s); [eapply tq_trans; [exact T1|eapply tq_trans; eassumption]|exact FT]|].
      assert (T3 : tq s s3) by (eapply tq_trans; [exact T1|eapply tq_trans; eassumption]).
      set (s4 := s3 <| istop ::= fun f => upd f t true |>).
      set (s5 := clear_old_top (emit s4 (ETop n (TopInst t))) n).
      assert (E5 : next s5 = next s3 /\ top s5 = top s3) by (unfold s5, clear_old_top; destruct (top _ n); split; reflexivity).
      destruct E5 as [E5n E5t].
      intros y Hy. cbn in Hy. rewrite E5n in Hy. cbn. unfold upd. rewrite E5t.
      destruct (Nat.eqb_spec y n) as [->|]; [pose proof (tq_next _ _ T3); lia|].
      rewrite (tq_top _ _ T3). apply FT. pose proof (tq_next _ _ T3). lia.
    + intros y Hy. cbn. unfold upd. destruct (Nat.eqb_spec y n) as [->|]; [reflexivity|].
      rewrite (tq_top _ _ T1). apply FT. unfold s1, clear_old_top in Hy. destruct (top _ n); cbn in Hy; lia.
  - viaq. apply tq_guard. intro. apply tq_struct, se_op_set_name.
  - viaq. apply tq_guard. intro. apply tq_struct, se_op_del_name.
  - viaq. apply tq_guard. intro. apply tq_struct, se_dict_set.
  - viaq. apply tq_guard. intro. apply tq_struct, se_dict_del.
  - viaq. apply tq_guard. intro. apply tq_struct, se_dict_pop.
  - viaq. apply tq_guard. intro. tq_triv.
  - viaq. repeat (apply tq_guard; intro). tq_triv.
  - viaq. apply tq_guard. intro. tq_triv.
  - viaq. apply tq_guard. intro. tq_triv.
  - viaq. tq_triv.
Qed.

(* wires list only pins of allocated instances *)
Lemma wold_of_inv s : Inv s -> Fresh s -> WOld (next s) s.
Proof.
  intros HI F w n i _ Hin.
  apply (p_pins s (inv_p s HI)) in Hin. cbn in Hin.
  destruct (assoc i (ipins s n)) as [ow|] eqn:E; [|discriminate].
  assert (Hk : In i (keys s n)) by (apply assoc_In_fst; eexists; exact E).
  apply (k_keys s (inv_k s HI)) in Hk as [d [p [Hr _]]].
  destruct (Nat.lt_ge_cases n (next s)) as [H|H]; [exact H|]. rewrite (f_iref s F n H) in Hr. discriminate.
Qed.

Lemma fresht_init : FreshT init.
Proof. intros x _. reflexivity. Qed.

Theorem reachable_startok ops : StartOK (run ops init).
Proof.
  assert (G : forall ops s, Inv s -> Fresh s -> FreshT s -> Inv (run ops s) /\ Fresh (run ops s) /\ FreshT (run ops s)).
  { induction ops0 as [|o ops0 IH]; intros s HI F FT; cbn [run fold_left]; [split; [exact HI|split; [exact F|exact FT]]|].
    apply IH; [apply (step_inv s o HI)|apply step_fresh; exact F|apply step_fresht; assumption]. }
  destruct (G ops init inv_init fresh_init fresht_init) as [HI [F FT]].
  split; [apply (f_kids _ F)|split; [exact FT|apply wold_of_inv; assumption]].
Qed.

(* C07, frame and closure, for every kind of root, in every reachable state *)
Theorem clone_reachable ops e :
  let s := run ops init in CloneOK s (fst (fst (clone_any s e))).
Proof. cbn zeta. apply clone_any_ok. apply reachable_startok. Qed.
