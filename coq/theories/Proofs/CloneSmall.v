(* C07 for the two smallest roots: cloning a wire or an inner pin yields one fresh, detached,
   unconnected element and changes nothing else (frame). *)
From Coq Require Import List Arith NArith ZArith Bool.
From RecordUpdate Require Import RecordSet.
From SV Require Import Base.Base IR.State IR.NS IR.Ops Xform.Clone.
Import ListNotations RecordSetNotations.

Record frame_but (s s' : state) (x : id) : Prop := mkFrame {
  fb_next : next s' = S (next s);
  fb_kids : kids s' = kids s;
  fb_par : par s' = par s;
  fb_wpins : forall y, y <> x -> wpins s' y = wpins s y;
  fb_ipwire : forall y, y <> x -> ipwire s' y = ipwire s y;
  fb_iref : iref s' = iref s;
  fb_drefs : drefs s' = drefs s;
  fb_ipins : ipins s' = ipins s;
  fb_data : data s' = data s;
  fb_nstab : nstab s' = nstab s;
  fb_top : top s' = top s;
  fb_log : log s' = log s
}.

Theorem clone_wire_spec s w :
  let r := fst (clone_wire s w) in let w' := snd (clone_wire s w) in
  snd r = None /\ w' = next s /\ wpins (fst r) w' = [] /\ frame_but s (fst r) w'.
Proof.
  cbn. unfold upd. repeat split; try reflexivity.
  - rewrite Nat.eqb_refl. reflexivity.
  - intros y Hy. apply Nat.eqb_neq in Hy. unfold set_wpins, set_ipwire, upd. simpl. rewrite ?Hy. reflexivity.
Qed.

Theorem clone_pin_spec s i :
  let r := fst (clone_pin s i) in let i' := snd (clone_pin s i) in
  snd r = None /\ i' = next s /\ ipwire (fst r) i' = None /\ frame_but s (fst r) i'.
Proof.
  cbn. unfold upd. repeat split; try reflexivity.
  - rewrite Nat.eqb_refl. reflexivity.
  - intros y Hy. apply Nat.eqb_neq in Hy. unfold set_wpins, set_ipwire, upd. simpl. rewrite ?Hy. reflexivity.
Qed.

(* the memo used by the three-phase clone is a function: looking a cloned element up gives the
   copy recorded for it *)
Lemma mget_cons_same m x x' : mget ((x, x') :: m) x = Some x'.
Proof. unfold mget. cbn. rewrite Nat.eqb_refl. reflexivity. Qed.
