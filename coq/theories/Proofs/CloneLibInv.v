(* Library.clone keeps the structural invariant: Library._clone, then _clone_rip (the copied children
   are registered with the definitions they reference, the reference sets of the copied definitions
   keep only copies). No closedness hypothesis: references that leave the library stay and are
   registered with the outside definitions. *)
From Coq Require Import List Arith Bool Lia.
From RecordUpdate Require Import RecordSet.
From SV Require Import Base.Base IR.State IR.NS IR.Ops Xform.Clone Proofs.AssocX Proofs.Frame Proofs.Inv1a Proofs.Inv2a
  Proofs.InvP Proofs.InvW Proofs.Fresh Proofs.NsInv Proofs.Repoint Proofs.CloneInv Proofs.RefK Proofs.CloneRef Proofs.CloneT Proofs.FieldT
  Proofs.CloneMemo Proofs.CloneRR Proofs.CloneFaith Proofs.CloneInvP Proofs.CloneFull
  Proofs.CloneMemoK Proofs.CloneFaithK Proofs.CloneStage Proofs.CloneStageP Proofs.CloneRun Proofs.CloneEx Proofs.CloneRemap Proofs.CloneComm Proofs.CloneLib
  Proofs.SrcTree Proofs.CloneNet Proofs.CloneTop Proofs.CloneFin Proofs.KindD.
Import ListNotations RecordSetNotations.

(* ---- registering the children of one copied definition ---- *)
Lemma reg_fold_spec : forall L s s', fold_idsR register_child L s = (s', None) ->
  feqX s s' /\ (forall c, In c L -> iref s c <> None) /\
  (forall e n, In n (drefs s' e) <-> In n (drefs s e) \/ (In n L /\ iref s n = Some e)) /\
  (forall e, NoDup (drefs s e) -> NoDup (drefs s' e)).
Proof.
  induction L as [|c L IH]; intros s s' E; cbn [fold_idsR] in E.
  - injection E as <-. split; [apply feqx_refl|]. split; [intros c []|]. split; [intros e n; split; [intro H; left; exact H|intros [H|[[] _]]; exact H]|auto].
  - unfold register_child at 1 in E. destruct (iref s c) as [e0|] eqn:Er; [|cbn in E; discriminate]. cbn [bindR ret] in E.
    set (s1 := set_drefs s e0 (set_add c (drefs s e0))) in *.
    destruct (IH s1 s' E) as [F1 [H1 [H2 H3]]].
    assert (F0 : feqX s s1) by (constructor; reflexivity).
    split; [eapply feqx_trans; eassumption|]. split; [|split].
    + intros c0 [<-|Hc]; [rewrite Er; discriminate|]. apply (H1 c0 Hc).
    + intros e n. rewrite H2. change (iref s1 n) with (iref s n).
      assert (Hd1 : In n (drefs s1 e) <-> In n (drefs s e) \/ (n = c /\ e = e0)).
      { unfold s1. cbn. unfold upd. destruct (Nat.eqb_spec e e0) as [->|Hne].
        - rewrite set_add_In. split; [intros [->|H]; [right; split; reflexivity|left; exact H]|intros [H|[-> _]]; [right; exact H|left; reflexivity]].
        - split; [intro H; left; exact H|intros [H|[_ H]]; [exact H|contradiction]]. }
      rewrite Hd1. split.
      * intros [[H|[-> ->]]|[H Hr]]; [left; exact H|right; split; [left; reflexivity|exact Er]|right; split; [right; exact H|exact Hr]].
      * intros [H|[[<-|H] Hr]]; [left; left; exact H|left; right; split; [reflexivity|congruence]|right; split; assumption].
    + intros e Hn. apply H3. unfold s1. cbn. unfold upd. destruct (Nat.eqb e e0) eqn:Ee; [apply Nat.eqb_eq in Ee; subst e; apply set_add_NoDup; exact Hn|exact Hn].
Qed.

(* ---- _clone_rip over the copied definitions ---- *)
Definition rip_step (m : memo) (s : state) (d' : id) : R :=
  let newrefs := filter (mval m) (drefs s d') in
  fold_idsR register_child (kids s RChildren d') s >>= fun s1 => ret (set_drefs s1 d' newrefs).

Section Rip.
  Variables (m : memo) (s1 : state) (D : list id).
  Hypothesis HD : NoDup D.

  (* what is known of the reference sets while the definitions in P have been processed *)
  Record RJ (P : list id) (s : state) : Prop := mkRJ {
    rj_eq : feqX s1 s;
    rj_1 : forall e n, In n (drefs s e) -> iref s1 n = Some e \/ (In e D /\ ~ In e P /\ mval m n = false);
    rj_2 : forall n e, iref s1 n = Some e -> In n (drefs s e) \/ (~ In e D /\ exists d', In d' D /\ ~ In d' P /\ In n (kids s1 RChildren d'));
    rj_3 : forall e, NoDup (drefs s e)
  }.

  (* references to a copied definition come from copies *)
  Hypothesis Hnew : forall n e, iref s1 n = Some e -> In e D -> mval m n = true.
  (* the child lists of the copied definitions are disjoint *)
  Hypothesis Hdis : forall d1 d2 c, In d1 D -> In d2 D -> In c (kids s1 RChildren d1) -> In c (kids s1 RChildren d2) -> d1 = d2.

  Lemma rj_step P s d' s' : RJ P s -> In d' D -> ~ In d' P -> rip_step m s d' = (s', None) -> RJ (d' :: P) s'.
  Proof.
    intros [Fe J1 J2 J3] Hd Hp E. unfold rip_step in E.
    destruct (fold_idsR register_child (kids s RChildren d') s) as [sa [ex|]] eqn:Er; cbn [bindR ret] in E; [discriminate|]. injection E as <-.
    destruct (reg_fold_spec _ _ _ Er) as [Fa [Ha [Hb Hc]]].
    assert (Ek : kids s RChildren d' = kids s1 RChildren d') by (rewrite (fx_kids _ _ Fe); reflexivity).
    assert (Ei : iref s = iref s1) by apply (fx_iref _ _ Fe).
    rewrite Ek in *. rewrite Ei in *.
    assert (Hdr : forall e, drefs (set_drefs sa d' (filter (mval m) (drefs s d'))) e = if Nat.eqb e d' then filter (mval m) (drefs s d') else drefs sa e) by (intro e; reflexivity).
    constructor.
    - eapply feqx_trans; [exact Fe|]. eapply feqx_trans; [exact Fa|]. constructor; reflexivity.
    - intros e n. rewrite Hdr. destruct (Nat.eqb_spec e d') as [->|Hne].
      + rewrite filter_In. intros [Hin Hmv]. destruct (J1 d' n Hin) as [H|[_ [_ H]]]; [left; exact H|congruence].
      + rewrite Hb. intros [Hin|[_ Hr]]; [|left; exact Hr].
        destruct (J1 e n Hin) as [H|[A [B C]]]; [left; exact H|right]. split; [exact A|]. split; [|exact C]. intros [H|H]; [apply Hne; symmetry; exact H|exact (B H)].
    - intros n e Hr. rewrite Hdr. destruct (Nat.eqb_spec e d') as [->|Hne].
      + left. rewrite filter_In. split; [|apply (Hnew n d' Hr Hd)].
        destruct (J2 n d' Hr) as [H|[H _]]; [exact H|contradiction].
      + destruct (J2 n e Hr) as [H|[A [d2 [B [C Dd]]]]].
        * left. apply Hb. left. exact H.
        * destruct (Nat.eq_dec d2 d') as [->|Hd2].
          -- left. apply Hb. right. split; [exact Dd|exact Hr].
          -- right. split; [exact A|]. exists d2. split; [exact B|]. split; [|exact Dd]. intros [H|H]; [apply Hd2; symmetry; exact H|exact (C H)].
    - intro e. rewrite Hdr. destruct (Nat.eqb e d'); [apply NoDup_filter; apply J3|apply Hc; apply J3].
  Qed.

  Lemma rj_fold : forall L P s s', RJ P s -> NoDup L -> (forall d', In d' L -> In d' D /\ ~ In d' P) ->
    fold_idsR (rip_step m) L s = (s', None) -> RJ (rev L ++ P) s'.
  Proof.
    induction L as [|d' L IH]; intros P s s' J Hn HL E; cbn [fold_idsR] in E.
    - injection E as <-. exact J.
    - destruct (rip_step m s d') as [sa [ex|]] eqn:Es; cbn [bindR] in E; [discriminate|].
      inversion Hn as [|? ? Hd Hn']; subst. destruct (HL d' (or_introl eq_refl)) as [A B].
      pose proof (rj_step P s d' sa J A B Es) as J1.
      cbn [rev]. rewrite <- app_assoc. cbn [app]. apply (IH (d' :: P) sa s' J1 Hn'); [|exact E].
      intros d2 Hd2. destruct (HL d2 (or_intror Hd2)) as [A2 B2]. split; [exact A2|]. intros [H|H]; [subst d2; exact (Hd Hd2)|exact (B2 H)].
  Qed.
End Rip.

Lemma lib_objects_def s0 l y : Inv1a s0 -> InvT s0 -> In y (lib_objects s0 l) -> kind_of s0 l = Some KLibrary -> kind_of s0 y = Some KDefinition -> In y (kids s0 RDefs l).
Proof.
  intros I1 T0 [<-|Hy] Hkl Hk; [congruence|]. apply in_flat_map in Hy as [d [Hd Hy]].
  destruct (def_objects_kinds s0 T0 d y (proj1 (T0 _ _ _ Hd)) Hy) as [_ [_ He]]. rewrite (He Hk). exact Hd.
Qed.
Lemma lib_objects_inst s0 l y : Inv1a s0 -> InvT s0 -> In y (lib_objects s0 l) -> kind_of s0 l = Some KLibrary -> kind_of s0 y = Some KInstance ->
  exists d, In d (kids s0 RDefs l) /\ In y (kids s0 RChildren d).
Proof.
  intros I1 T0 [<-|Hy] Hkl Hk; [congruence|]. apply in_flat_map in Hy as [d [Hd Hy]]. exists d. split; [exact Hd|].
  apply def_objects_cases in Hy as [->|[[p [Hp [->|Hy]]]|[[p [Hp [->|Hy]]]|Hy]]]; [| | | | |exact Hy].
  - rewrite (proj1 (T0 _ _ _ Hd)) in Hk. discriminate.
  - rewrite (proj1 (T0 _ _ _ Hp)) in Hk. discriminate.
  - rewrite (proj1 (T0 _ _ _ Hy)) in Hk. discriminate.
  - rewrite (proj1 (T0 _ _ _ Hp)) in Hk. discriminate.
  - rewrite (proj1 (T0 _ _ _ Hy)) in Hk. discriminate.
Qed.

Theorem clone_library_inv s0 l :
  UF s0 -> (forall x e, iref s0 x = Some e -> kind_of s0 e = Some KDefinition) ->
  kind_of s0 l = Some KLibrary -> snd (fst (clone_library s0 l)) = None -> Inv (fst (fst (clone_library s0 l))).
Proof.
  intros U0 HRD Hkl. pose proof U0 as [I0 [T0 [F0 [FT0 K0]]]]. pose proof (inv_a _ I0) as I1. pose proof (inv_r _ I0) as I2.
  assert (Hl : l < next s0). { destruct (Nat.lt_ge_cases l (next s0)) as [H|H]; [exact H|]. rewrite (f_kind _ F0 l H) in Hkl. discriminate. }
  unfold clone_library. destruct (lib_clone1 (s0, []) l) as [[[s1 m] l'] [ex|]] eqn:E; [cbn; discriminate|].
  destruct (ry_lib s0 s0 [] l s1 m l' U0 HRD (ry_start s0 U0) Hl Hkl (lib_objects_nodup s0 I1 T0 l Hkl) (fun y _ H => H) E)
    as [Y [_ [Ky [HinL [Hl' [Hn [Hf [Hp [Hk [F2 FA]]]]]]]]]].
  pose proof (ry_rx _ _ _ Y) as X. pose proof (rx_ri _ _ _ X) as R. pose proof (ri_st _ _ _ R) as T.
  set (D := kids s1 RDefs l') in *.
  change (lib_rip m s1 l') with (fold_idsR (rip_step m) D s1).
  destruct (fold_idsR (rip_step m) D s1) as [s2 [ex|]] eqn:Er; [cbn; discriminate|]. cbn [bindR fst snd]. intros _.
  (* classification of the memo *)
  assert (Hobj : forall a b, In (a, b) m -> In a (lib_objects s0 l)).
  { intros a b H. assert (Ha : In a (map fst m)) by (apply in_map_iff; exists (a, b); split; [reflexivity|exact H]). apply Ky in Ha as [Ha|[]]. exact Ha. }
  assert (HdefD : forall d d', In (d, d') m -> kind_of s0 d = Some KDefinition -> In d (kids s0 RDefs l) /\ In d' D).
  { intros d d' H Hkd. pose proof (lib_objects_def s0 l d I1 T0 (Hobj d d' H) Hkl Hkd) as Hd. split; [exact Hd|].
    destruct (forall2_in_r _ _ _ F2 d Hd) as [d2 [Hd2 Hdd2]]. rewrite (memo_fun m d d' d2 (st_fun _ _ _ T) H Hdd2). exact Hd2. }
  assert (HDdef : forall d', In d' D -> exists d, In (d, d') m /\ kind_of s0 d = Some KDefinition).
  { intros d' Hd'. destruct (forall2_in_l _ _ _ F2 d' Hd') as [d [Hd Hdd]]. exists d. split; [exact Hdd|apply (proj1 (T0 _ _ _ Hd))]. }
  assert (Hinst : forall x n, In (x, n) m -> kind_of s0 x = Some KInstance -> exists d', In d' D /\ In n (kids s1 RChildren d') /\ FinX s0 m s1 n).
  { intros x n H Hkx. destruct (lib_objects_inst s0 l x I1 T0 (Hobj x n H) Hkl Hkx) as [d [Hd Hc]].
    destruct (forall2_in_r _ _ _ F2 d Hd) as [d' [Hd' Hdd]].
    destruct (di_children _ _ _ _ _ (rx_di _ _ _ X d d' Hdd (proj1 (T0 _ _ _ Hd))) x Hc) as [n2 [Hxn2 Hn2]].
    assert (n2 = n) by (apply (memo_fun m x n2 n (st_fun _ _ _ T)); assumption). subst n2.
    exists d'. split; [exact Hd'|]. split; [exact Hn2|apply (proj2 (FA d' Hd') n Hn2)]. }
  assert (Hnewref : forall n e, next s0 <= n -> iref s1 n = Some e -> exists x, In (x, n) m /\ kind_of s0 x = Some KInstance).
  { intros n e Hn0 Hr. destruct (st_def _ _ _ T n Hn0) as [_ [_ D3]].
    destruct (kind_of s1 n) as [kn|] eqn:Ek; [|rewrite (proj2 (D3 ltac:(discriminate))) in Hr; discriminate].
    destruct (kind_eqb kn KInstance) eqn:Eq; [|rewrite (proj2 (D3 ltac:(intro Xe; injection Xe as ->; discriminate Eq))) in Hr; discriminate].
    assert (kn = KInstance) by (destruct kn; try discriminate Eq; reflexivity). subst kn.
    destruct (st_cov _ _ _ T n Hn0 (or_intror (or_intror Ek))) as [x Hx]. exists x. split; [exact Hx|]. rewrite <- (st_kind _ _ _ T x n Hx). exact Ek. }
  assert (Hold : forall n, n < next s0 -> iref s1 n = iref s0 n) by (intros n Hn0; apply (st_old _ _ _ T n Hn0)).
  assert (HDnew : forall d', In d' D -> next s0 <= d').
  { intros d' Hd'. destruct (HDdef d' Hd') as [d [Hdd _]]. apply (st_rng _ _ _ T d d' Hdd). }
  assert (Hmv : forall n, mval m n = true -> next s0 <= n).
  { intros n H. apply mval_true in H as [a Ha]. apply (st_rng _ _ _ T a n Ha). }
  (* the invariant of the loop holds initially *)
  assert (J0 : RJ m s1 D [] s1).
  { constructor.
    - apply feqx_refl.
    - intros e n Hin. destruct (in_dec Nat.eq_dec e D) as [HeD|HeD].
      + destruct (HDdef e HeD) as [d [Hdd Hkd]]. destruct (ry_d1 _ _ _ Y d e Hdd Hkd n Hin) as [r [Hr [->|Hrn]]].
        * right. split; [exact HeD|]. split; [intros []|]. destruct (mval m r) eqn:Em; [|reflexivity].
          apply Hmv in Em. apply (i2_ref _ I2) in Hr. destruct (Nat.lt_ge_cases r (next s0)) as [Hlt|Hge]; [lia|]. rewrite (f_iref _ F0 r Hge) in Hr. discriminate.
        * left. apply (i2_ref _ I2) in Hr. assert (Hkr : kind_of s0 r = Some KInstance) by (apply (ft_r _ FT0); rewrite Hr; discriminate).
          destruct (Hinst r n Hrn Hkr) as [_ [_ [_ FX]]]. rewrite (FX r Hrn Hkr), Hr. cbn. rewrite (in_mget m d e (st_fun _ _ _ T) Hdd). reflexivity.
      + left. assert (Hno : forall d0, In (d0, e) m -> kind_of s0 d0 <> Some KDefinition).
        { intros d0 H0 Hk0. apply HeD. apply (HdefD d0 e H0 Hk0). }
        rewrite (ry_dn _ _ _ Y e Hno) in Hin. apply (i2_ref _ I2) in Hin.
        assert (Hn0 : n < next s0). { destruct (Nat.lt_ge_cases n (next s0)) as [Hlt|Hge]; [exact Hlt|]. rewrite (f_iref _ F0 n Hge) in Hin. discriminate. }
        rewrite (Hold n Hn0). exact Hin.
    - intros n e Hr. destruct (Nat.lt_ge_cases n (next s0)) as [Hlt|Hge].
      + left. rewrite (Hold n Hlt) in Hr. pose proof (ref_lt s0 n e K0 F0 Hr) as He.
        assert (Hno : forall d0, In (d0, e) m -> kind_of s0 d0 <> Some KDefinition).
        { intros d0 H0 _. destruct (st_rng _ _ _ T d0 e H0). lia. }
        rewrite (ry_dn _ _ _ Y e Hno). apply (i2_ref _ I2). exact Hr.
      + destruct (Hnewref n e Hge Hr) as [x [Hxn Hkx]]. destruct (Hinst x n Hxn Hkx) as [d0' [Hd0' [Hc FX]]].
        rewrite (FX x Hxn Hkx) in Hr. destruct (iref s0 x) as [e0|] eqn:Er0; [|discriminate]. cbn in Hr.
        destruct (mget m e0) as [e'|] eqn:Em.
        * injection Hr as <-. left. pose proof (mget_in _ _ _ Em) as Hee. pose proof (HRD x e0 Er0) as Hke.
          destruct (HdefD e0 e' Hee Hke) as [_ HeD]. destruct (FA e' HeD) as [[_ Hnk] _].
          assert (Hxd : In x (drefs s0 e0)) by (apply (i2_ref _ I2); exact Er0).
          destruct (ry_d2 _ _ _ Y e0 e' Hee Hke x Hxd) as [Hin|[n2 [Hxn2 Hin]]].
          -- exfalso. apply (Hnk x Hin). apply in_map_iff. exists (x, n). split; [reflexivity|exact Hxn].
          -- assert (n2 = n) by (apply (memo_fun m x n2 n (st_fun _ _ _ T)); assumption). subst n2. exact Hin.
        * injection Hr as <-. right. split; [|exists d0'; split; [exact Hd0'|split; [intros []|exact Hc]]].
          intro HeD. pose proof (HDnew e0 HeD). pose proof (ref_lt s0 x e0 K0 F0 Er0). lia.
    - intro e. destruct (in_dec Nat.eq_dec e D) as [HeD|HeD]; [apply (proj1 (proj1 (FA e HeD)))|].
      assert (Hno : forall d0, In (d0, e) m -> kind_of s0 d0 <> Some KDefinition).
      { intros d0 H0 Hk0. apply HeD. apply (HdefD d0 e H0 Hk0). }
      rewrite (ry_dn _ _ _ Y e Hno). apply (i2_nodup _ I2). }
  assert (HDnd : NoDup D) by (apply (proj2 (ri_1a _ _ _ R RDefs ltac:(discriminate)))).
  assert (Hnew : forall n e, iref s1 n = Some e -> In e D -> mval m n = true).
  { intros n e Hr HeD. pose proof (HDnew e HeD) as He. destruct (Nat.lt_ge_cases n (next s0)) as [Hlt|Hge].
    - rewrite (Hold n Hlt) in Hr. pose proof (ref_lt s0 n e K0 F0 Hr). lia.
    - destruct (Hnewref n e Hge Hr) as [x [Hxn _]]. apply mval_true. exists x. exact Hxn. }
  assert (Hdis : forall d1 d2 c, In d1 D -> In d2 D -> In c (kids s1 RChildren d1) -> In c (kids s1 RChildren d2) -> d1 = d2).
  { intros d1 d2 c _ _ H1 H2. pose proof (proj1 (ri_1a _ _ _ R RChildren ltac:(discriminate))) as Hc.
    apply Hc in H1. apply Hc in H2. congruence. }
  pose proof (rj_fold m s1 D Hnew D [] s1 s2 J0 HDnd (fun d' H => conj H (fun Fx => Fx)) Er) as [Fe J1 J2 J3].
  rewrite app_nil_r in J1, J2.
  pose proof (feq_reapply s2 l') as FEF. set (sF := fst (reapply s2 l')) in *.
  assert (EkF : kids sF = kids s1) by (rewrite (fe_kids _ _ FEF); apply (fx_kids _ _ Fe)).
  assert (EpF : par sF = par s1) by (rewrite (fe_par _ _ FEF); apply (fx_par _ _ Fe)).
  assert (ErF : iref sF = iref s1) by (rewrite (fe_iref _ _ FEF); apply (fx_iref _ _ Fe)).
  assert (EiF : ipins sF = ipins s1) by (rewrite (fe_ipins _ _ FEF); apply (fx_ipins _ _ Fe)).
  assert (EwF : wpins sF = wpins s1) by (rewrite (fe_wpins _ _ FEF); apply (fx_wpins _ _ Fe)).
  assert (EiwF : ipwire sF = ipwire s1) by (rewrite (fe_ipwire _ _ FEF); apply (fx_ipwire _ _ Fe)).
  pose proof (ls_lib_clone1 _ _ _ _ _ _ _ E) as LSl.
  constructor.
  - constructor.
    + intros r p x. rewrite EkF, EpF. destruct (rel_eq_dec r RLibs) as [->|Hr]; [|apply (proj1 (ri_1a _ _ _ R r Hr))].
      destruct (LSl p) as [A _]. destruct (LSl x) as [_ B]. rewrite A, B. apply (i1_kids _ I1).
    + intros r p. rewrite EkF. destruct (rel_eq_dec r RLibs) as [->|Hr]; [|apply (proj2 (ri_1a _ _ _ R r Hr))].
      destruct (LSl p) as [A _]. rewrite A. apply (i1_nodup _ I1).
  - constructor.
    + intros n d. rewrite ErF, (fe_drefs _ _ FEF). split.
      * intro Hin. destruct (J1 d n Hin) as [H|[A [B _]]]; [exact H|]. exfalso. apply B. apply in_rev in A. exact A.
      * intro Hr. destruct (J2 n d Hr) as [H|[_ [d2 [A [B _]]]]]; [exact H|]. exfalso. apply B. apply in_rev in A. exact A.
    + intro d. rewrite (fe_drefs _ _ FEF). apply J3.
  - apply (invp_same s1 sF (ri_p _ _ _ R)); [intro q; apply pw_ext; assumption|intro w; rewrite EwF; reflexivity].
  - apply (invk_same s1 sF (ri_k _ _ _ R)); [intro x; unfold keys; rewrite EiF; reflexivity|exact ErF|intro x; rewrite EpF; reflexivity|intro x; rewrite EpF; reflexivity].
Qed.

Theorem clone_library_reachable_inv ops l :
  let s := run ops init in
  kind_of s l = Some KLibrary -> snd (fst (clone_library s l)) = None -> Inv (fst (fst (clone_library s l))).
Proof.
  cbn zeta. intros Hk Hok. destruct (reachable_refd_topk ops) as [HD _].
  apply clone_library_inv; [apply reachable_uf|exact HD|exact Hk|exact Hok].
Qed.
