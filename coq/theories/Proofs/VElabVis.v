(* Engine `verilog`, document-level reader: the reachable-state invariant behind [visible] (Proofs/VElabStable.v), for
   ALL documents (no typing hypothesis). Every connection a definition holds joins a wire that exists in one of its
   cables to a pin that exists: a pin of one of its own ports, a pin of an assignment instance, or a pin of a port
   that the definition referenced by the instance has (conn_ok). Objects are only ever appended and bundles only ever
   gain items (dmono / smono), so a connection once good stays good; every construct makes good connections only. *)
From Coq Require Import List ZArith Bool Arith Lia Permutation.
From SV Require Import Base.Base Fmt.VBits Fmt.VTop Fmt.VDoc Fmt.VElab Fmt.VSpec Fmt.VSem
  Proofs.VerilogLists Proofs.VerilogGrow Proofs.VElabBase Proofs.VElabInv Proofs.VElabWf Proofs.VElabExpr Proofs.VElabConn
  Proofs.VElabAssign Proofs.VElabNets Proofs.VElabTop Proofs.VElabStable.
Import ListNotations.
Open Scope Z_scope.

Definition pin_in (ps : list eport) (pk ord : nat) : Prop := exists p, nth_error ps pk = Some p /\ In ord (b_items (ep_b p)).
Definition wire_in (d : edef) (w : ewire) : Prop := exists c, nth_error (ed_cables d) (fst w) = Some c /\ In (snd w) (b_items (ec_b c)).

(* pins a definition can vouch for by itself *)
Definition lpin (d : edef) (p : epin) : Prop :=
  match p with
  | PInner pk ord => pin_in (ed_ports d) pk ord
  | POuter ii _ _ => exists i w, nth_error (ed_insts d) ii = Some i /\ ei_ref i = RAssign w
  end.

Definition pin_ok (s : estate) (d : edef) (p : epin) : Prop :=
  match p with
  | PInner pk ord => pin_in (ed_ports d) pk ord
  | POuter ii pk ord => exists i, nth_error (ed_insts d) ii = Some i /\
      match ei_ref i with RAssign _ => True | RName n => pin_in (ref_ports s (RName n)) pk ord end
  end.

Definition conn_ok (s : estate) (d : edef) : Prop := forall p w, In (p, w) (ed_conn d) -> wire_in d w /\ pin_ok s d p.

(* the invariant *)
Definition Vis (s : estate) : Prop := forall k, conn_ok s (get_def k s).

Lemma lpin_pin_ok s d p : lpin d p -> pin_ok s d p.
Proof. destruct p as [pk o|ii pk o]; cbn; [auto|]. intros (i & w & Hi & Hr). exists i. rewrite Hr. auto. Qed.

Theorem conn_ok_visible s d : conn_ok s d -> visible s d.
Proof.
  intros C p w Hin. destruct (C p w Hin) as [(c & Hc & Ho) Hp]. split.
  - unfold wire_label. rewrite Hc. destruct (index_of_in _ _ Ho) as (k & ->). discriminate.
  - destruct p as [pk o|ii pk o]; cbn [pin_ok pin_endpoint] in Hp |- *.
    + left. destruct Hp as (p & P & Hi). unfold pin_bit. rewrite P. destruct (index_of_in _ _ Hi) as (k & ->). discriminate.
    + destruct Hp as (i & Hi & Hr). rewrite Hi. destruct (ei_ref i) as [n|wd] eqn:R; cbn [is_assign].
      * left. destruct Hr as (p & P & Ho'). unfold pin_bit. rewrite P. destruct (index_of_in _ _ Ho') as (k & ->). discriminate.
      * right. exists i, wd. split; [exact Hi|exact R].
Qed.

(* ---------- bundles only gain items ---------- *)
Lemma create_items_incl c b : incl (b_items b) (b_items (create_items c b)).
Proof. unfold create_items. cbn. apply incl_appl, incl_refl. Qed.

Lemma prepend_incl c b : incl (b_items b) (b_items (prepend c b)).
Proof.
  intros x Hx. unfold prepend, create_items. cbn. apply in_or_app. right.
  rewrite firstn_app, Nat.sub_diag, firstn_all. cbn. rewrite app_nil_r. exact Hx.
Qed.

Lemma grow_incl il iu b : incl (b_items b) (b_items (grow il iu b)).
Proof.
  unfold grow. destruct (il <? b_lo b); destruct (_ <? iu).
  - eapply incl_tran; [apply prepend_incl|apply create_items_incl].
  - apply prepend_incl.
  - apply create_items_incl.
  - apply incl_refl.
Qed.

Lemma rebase_items dfn il b : b_items (rebase dfn il b) = b_items b.
Proof. destruct dfn; reflexivity. Qed.

Lemma update_cable_incl l r dfn b : incl (b_items b) (b_items (update_cable l r dfn b)).
Proof.
  unfold update_cable. destruct (in_range l r) as [[il iu]|]; [|apply incl_refl].
  eapply incl_tran; [|apply grow_incl]. rewrite rebase_items. apply incl_refl.
Qed.

Lemma update_port_incl l r dfn b : incl (b_items b) (b_items (update_port l r dfn b)).
Proof.
  unfold update_port. destruct (in_range l r) as [[il iu]|]; [|apply incl_refl]. cbn zeta.
  destruct (_ =? _).
  - rewrite rebase_items. apply incl_refl.
  - eapply incl_tran; [|apply grow_incl]. rewrite rebase_items. apply incl_refl.
Qed.

Lemma firstn_incl {A} n (l : list A) : incl (firstn n l) l.
Proof.
  revert l. induction n as [|n IH]; intros l y H; cbn in H; [destruct H|].
  destruct l as [|x l]; [destruct H|]. destruct H as [<-|H]; [left; reflexivity|right; apply IH; exact H].
Qed.

Lemma skipn_incl {A} n (l : list A) : incl (skipn n l) l.
Proof.
  revert l. induction n as [|n IH]; intros l y H; cbn in H; [exact H|].
  destruct l as [|x l]; [destruct H|]. right. apply IH. exact H.
Qed.

Lemma get_wires_incl {A} lo (ws : list A) l r t : get_wires lo ws l r = Some t -> incl t ws.
Proof.
  unfold get_wires. destruct l as [l|]; destruct r as [r|].
  - intro H. inversion H; subst t. intros x Hx. apply in_rev in Hx. unfold py_slice in Hx.
    apply firstn_incl in Hx. apply skipn_incl in Hx. exact Hx.
  - unfold py_index. destruct (_ || _); [discriminate|]. destruct (nth_error ws _) as [w|] eqn:E; [|discriminate].
    intro H. inversion H; subst t. intros x [<-|[]]. eapply nth_error_In. exact E.
  - unfold py_index. destruct (_ || _); [discriminate|]. destruct (nth_error ws _) as [w|] eqn:E; [|discriminate].
    intro H. inversion H; subst t. intros x [<-|[]]. eapply nth_error_In. exact E.
  - intro H. inversion H; subst t. intros x Hx. apply in_rev. exact Hx.
Qed.

(* ---------- a definition only grows ---------- *)
Record dmono (d d' : edef) : Prop := {
  dm_ports : forall pk ord, pin_in (ed_ports d) pk ord -> pin_in (ed_ports d') pk ord;
  dm_cables : forall w, wire_in d w -> wire_in d' w;
  dm_insts : forall ii i, nth_error (ed_insts d) ii = Some i -> exists i', nth_error (ed_insts d') ii = Some i' /\ ei_ref i' = ei_ref i }.

Lemma dmono_refl d : dmono d d.
Proof. constructor; eauto. Qed.

Lemma dmono_trans a b c : dmono a b -> dmono b c -> dmono a c.
Proof.
  intros [P1 C1 I1] [P2 C2 I2]. constructor; auto.
  intros ii i Hi. destruct (I1 ii i Hi) as (i1 & H1 & R1). destruct (I2 ii i1 H1) as (i2 & H2 & R2). exists i2. split; [exact H2|congruence].
Qed.

Lemma lpin_mono d d' p : dmono d d' -> lpin d p -> lpin d' p.
Proof.
  intros [P _ I]. destruct p as [pk o|ii pk o]; cbn; [apply P|].
  intros (i & w & Hi & Hr). destruct (I ii i Hi) as (i' & Hi' & R). exists i', w. split; [exact Hi'|congruence].
Qed.

(* definition-level step: grows, and every new connection is good by the definition's own means *)
Record dvstep (d d' : edef) : Prop := {
  dv_mono : dmono d d';
  dv_conn : forall p w, In (p, w) (ed_conn d') -> In (p, w) (ed_conn d) \/ (wire_in d' w /\ lpin d' p) }.

Lemma dvstep_refl d : dvstep d d.
Proof. constructor; [apply dmono_refl|auto]. Qed.

Lemma dvstep_trans a b c : dvstep a b -> dvstep b c -> dvstep a c.
Proof.
  intros [M1 C1] [M2 C2]. constructor; [eapply dmono_trans; eassumption|].
  intros p w H. destruct (C2 p w H) as [H2|H2]; [|right; exact H2].
  destruct (C1 p w H2) as [H1|[H1 H1']]; [left; exact H1|right].
  split; [apply (dm_cables _ _ M2); exact H1|eapply lpin_mono; eassumption].
Qed.

Lemma dmono_dvstep d d' : dmono d d' -> ed_conn d' = ed_conn d -> dvstep d d'.
Proof. intros M E. constructor; [exact M|]. intros p w H. left. rewrite <- E. exact H. Qed.

Lemma nth_upd_grow {A} (items : A -> list nat) k (f : A -> A) l j x :
  (forall y, incl (items y) (items (f y))) -> nth_error l j = Some x ->
  exists x', nth_error (nth_upd k f l) j = Some x' /\ incl (items x) (items x').
Proof.
  intros Hf H. destruct (Nat.eq_dec j k) as [->|Hne].
  - rewrite (nth_upd_same _ _ _ _ H). eauto.
  - rewrite (nth_upd_other _ _ _ _ Hne). exists x. split; [exact H|apply incl_refl].
Qed.

Lemma nth_error_app_keep {A} (l l2 : list A) j x : nth_error l j = Some x -> nth_error (l ++ l2) j = Some x.
Proof. intro H. rewrite nth_error_app1; [exact H|]. apply nth_error_Some. congruence. Qed.

Lemma cou_port_dvstep name l r dir dfn d : dvstep d (fst (cou_port name l r dir dfn d)).
Proof.
  apply dmono_dvstep; [|unfold cou_port; destruct (find_port name d); reflexivity].
  unfold cou_port. destruct (find_port name d) as [k|]; cbn [fst]; constructor; cbn [ed_ports ed_cables ed_insts set_ports]; eauto.
  - intros pk ord (p & P & Ho).
    destruct (nth_upd_grow (fun p => b_items (ep_b p)) k
                (fun p => {| ep_name := ep_name p; ep_dir := or_else dir (ep_dir p); ep_b := update_port l r dfn (ep_b p) |})
                (ed_ports d) pk p) as (p' & P' & Hi); [intro y; cbn; apply update_port_incl|exact P|].
    exists p'. split; [exact P'|apply Hi; exact Ho].
  - intros pk ord (p & P & Ho). exists p. split; [apply nth_error_app_keep; exact P|exact Ho].
Qed.

Lemma cou_cable_dvstep name l r ty dfn d : dvstep d (fst (cou_cable name l r ty dfn d)).
Proof.
  apply dmono_dvstep; [|unfold cou_cable; destruct (find_cable name d); reflexivity].
  unfold cou_cable. destruct (find_cable name d) as [k|]; cbn [fst]; constructor; cbn [ed_ports ed_cables ed_insts set_cables]; eauto.
  - intros w (c & Hc & Ho). unfold wire_in. cbn [ed_cables set_cables].
    destruct (nth_upd_grow (fun c => b_items (ec_b c)) k
                (fun c => {| ec_name := ec_name c; ec_b := update_cable l r dfn (ec_b c); ec_type := or_else ty (ec_type c); ec_attrs := ec_attrs c |})
                (ed_cables d) (fst w) c) as (c' & C' & Hi); [intro y; cbn; apply update_cable_incl|exact Hc|].
    exists c'. split; [exact C'|apply Hi; exact Ho].
  - intros w (c & Hc & Ho). exists c. split; [cbn [ed_cables set_cables]; apply nth_error_app_keep; exact Hc|exact Ho].
Qed.

Lemma set_cable_attrs_dvstep k a d : dvstep d (set_cable_attrs k a d).
Proof.
  apply dmono_dvstep; [|reflexivity]. unfold set_cable_attrs. constructor; cbn [ed_ports ed_cables ed_insts set_cables]; eauto.
  intros w (c & Hc & Ho). unfold wire_in. cbn [ed_cables set_cables].
  destruct (nth_upd_grow (fun c => b_items (ec_b c)) k
              (fun c => {| ec_name := ec_name c; ec_b := ec_b c; ec_type := ec_type c; ec_attrs := a |})
              (ed_cables d) (fst w) c) as (c' & C' & Hi); [intro y; cbn; apply incl_refl|exact Hc|].
  exists c'. split; [exact C'|apply Hi; exact Ho].
Qed.

Lemma connect_all_dvstep l d d' : connect_all l d = Ok d' -> (forall w p, In (w, p) l -> wire_in d w /\ lpin d p) -> dvstep d d'.
Proof.
  intros H Hl. rewrite (connect_all_conn _ _ _ H). constructor.
  - constructor; cbn [ed_ports ed_cables ed_insts set_conn]; eauto.
  - cbn [ed_conn set_conn]. intros p w Hin. apply in_app_iff in Hin. destruct Hin as [Hin|Hin]; [left; exact Hin|right].
    apply in_map_iff in Hin. destruct Hin as ([w0 p0] & E & Hin). cbn in E. inversion E; subst. exact (Hl _ _ Hin).
Qed.

Lemma fold_res_dvstep {A} (f : A -> edef -> result edef) l :
  (forall x d d', f x d = Ok d' -> dvstep d d') -> forall d d', fold_res f l d = Ok d' -> dvstep d d'.
Proof.
  intro Hf. apply fold_res_rel; [apply dvstep_refl|apply dvstep_trans|]. intros x s s' _. apply Hf.
Qed.

Lemma fold_res_dvstep_Q {A} (f : A -> edef -> result edef) (Q : A -> edef -> Prop) :
  (forall x d d', Q x d -> f x d = Ok d' -> dvstep d d') -> (forall x d d', dvstep d d' -> Q x d -> Q x d') ->
  forall l d d', (forall x, In x l -> Q x d) -> fold_res f l d = Ok d' -> dvstep d d'.
Proof.
  intros Hf Hq. induction l as [|x l IH]; intros d d' HQ H; cbn in H.
  - inversion H; subst. apply dvstep_refl.
  - apply bind_ok in H. destruct H as (d1 & H1 & H2).
    assert (S1 : dvstep d d1) by (eapply Hf; [apply HQ; left; reflexivity|exact H1]).
    eapply dvstep_trans; [exact S1|]. eapply IH; [|exact H2]. intros y Hy. eapply Hq; [exact S1|]. apply HQ. right. exact Hy.
Qed.

(* ---------- where wires and pins come from ---------- *)
Lemma cable_bundle_in ck d o : In o (b_items (cable_bundle ck d)) -> wire_in d (ck, o).
Proof. unfold cable_bundle, wire_in. cbn [fst snd]. destruct (nth_error (ed_cables d) ck) as [c|]; [eauto|intros []]. Qed.

Lemma port_bundle_in pk d o : In o (b_items (port_bundle pk d)) -> pin_in (ed_ports d) pk o.
Proof. unfold port_bundle, pin_in. destruct (nth_error (ed_ports d) pk) as [c|]; [eauto|intros []]. Qed.

Lemma wires_from_in k l r d ws : wires_from k l r d = Ok ws -> forall w, In w ws -> wire_in d w.
Proof.
  unfold wires_from. destruct (get_wires _ _ l r) as [t|] eqn:G; [|discriminate]. intro H. inversion H; subst t.
  intros w Hw. apply (get_wires_incl _ _ _ _ _ G) in Hw. apply in_map_iff in Hw. destruct Hw as (o & <- & Ho).
  apply cable_bundle_in. exact Ho.
Qed.

Lemma var_inst_dvstep a d d' k : var_inst a d = Ok (d', k) -> dvstep d d'.
Proof.
  unfold var_inst. destruct (has_glob _); [discriminate|]. intro H. inversion H.
  pose proof (cou_cable_dvstep (atom_name a) (atom_l a) (atom_r a) None false d) as X.
  destruct (cou_cable _ _ _ _ _ d). cbn in X. inversion H; subst. exact X.
Qed.

Lemma atom_wires_dvstep a d d' ws : atom_wires a d = Ok (d', ws) -> dvstep d d' /\ forall w, In w ws -> wire_in d' w.
Proof.
  unfold atom_wires. intro H. apply bind_ok in H. destruct H as ([d1 k] & H1 & H2).
  apply bind_ok in H2. destruct H2 as (w & Hw & H3). inversion H3; subst. split; [eapply var_inst_dvstep; exact H1|].
  eapply wires_from_in. exact Hw.
Qed.

Lemma cat_wires_dvstep l : forall d d' ws, cat_wires l d = Ok (d', ws) -> dvstep d d' /\ forall w, In w ws -> wire_in d' w.
Proof.
  induction l as [|a l IH]; intros d d' ws H; cbn in H.
  - inversion H; subst. split; [apply dvstep_refl|intros w []].
  - apply bind_ok in H. destruct H as ([d1 w1] & H1 & H2). apply bind_ok in H2. destruct H2 as ([d2 w2] & H2 & H3).
    inversion H3; subst. destruct (atom_wires_dvstep _ _ _ _ H1) as [S1 W1]. destruct (IH _ _ _ H2) as [S2 W2].
    split; [eapply dvstep_trans; eassumption|]. intros w Hw. apply in_app_iff in Hw. destruct Hw as [Hw|Hw]; [|apply W2; exact Hw].
    apply (dm_cables _ _ (dv_mono _ _ S2)). apply W1.
    eapply Permutation_in; [symmetry; apply sort_desc_perm|exact Hw].
Qed.

Lemma expr_wires_dvstep e d d' ws : expr_wires e d = Ok (d', ws) -> dvstep d d' /\ forall w, In w ws -> wire_in d' w.
Proof.
  destruct e as [a|l]; cbn.
  - apply atom_wires_dvstep.
  - destruct l; [discriminate|]. apply cat_wires_dvstep.
Qed.

(* ---------- header ---------- *)
Lemma header_port_dvstep dir rg name d d' : header_port dir rg name d = Ok d' -> dvstep d d'.
Proof.
  unfold header_port. destruct (has_glob name); [discriminate|].
  pose proof (cou_port_dvstep name (range_l rg) (range_r rg) dir (match dir with Some _ => true | None => false end) d) as X1.
  destruct (cou_port _ _ _ _ _ d) as [d1 pk]. cbn [fst] in X1.
  set (lr := match rg with Some (h, lo) => _ | None => _ end). destruct lr as [l r].
  pose proof (cou_cable_dvstep name l r None (match dir with Some _ => true | None => false end) d1) as X2.
  destruct (cou_cable _ _ _ _ _ d1) as [d2 ck]. cbn [fst] in X2.
  destruct (negb _); [discriminate|]. intro H.
  eapply dvstep_trans; [exact X1|]. eapply dvstep_trans; [exact X2|]. eapply connect_all_dvstep; [exact H|].
  intros w p Hin. pose proof (in_combine_l _ _ _ _ Hin) as Hw. pose proof (in_combine_r _ _ _ _ Hin) as Hp.
  apply in_map_iff in Hw. destruct Hw as (o & <- & Ho). apply in_map_iff in Hp. destruct Hp as (o' & <- & Ho').
  split; [apply cable_bundle_in; exact Ho|]. cbn [lpin]. apply (dm_ports _ _ (dv_mono _ _ X2)). apply port_bundle_in. exact Ho'.
Qed.

Lemma header_alias_dvstep name e d d' : header_alias name e d = Ok d' -> dvstep d d'.
Proof.
  unfold header_alias. destruct (has_glob name); [discriminate|]. intro H.
  apply bind_ok in H. destruct H as ([d1 ws] & H1 & H2).
  pose proof (cou_port_dvstep name (Some (Z.of_nat (length ws) - 1)%Z) (Some 0%Z) None false d1) as X1.
  destruct (cou_port _ _ _ _ _ d1) as [d2 pk]. cbn [fst] in X1.
  destruct (negb _); [discriminate|]. destruct (expr_wires_dvstep _ _ _ _ H1) as [S1 W1].
  eapply dvstep_trans; [exact S1|]. eapply dvstep_trans; [exact X1|]. eapply connect_all_dvstep; [exact H2|].
  intros w p Hin. pose proof (in_combine_l _ _ _ _ Hin) as Hw. pose proof (in_combine_r _ _ _ _ Hin) as Hp.
  apply in_map_iff in Hp. destruct Hp as (o' & <- & Ho'). apply in_rev in Ho'.
  split; [apply (dm_cables _ _ (dv_mono _ _ X1)); apply W1; exact Hw|]. cbn [lpin]. apply port_bundle_in. exact Ho'.
Qed.

Lemma header_entry_dvstep h d d' : header_entry h d = Ok d' -> dvstep d d'.
Proof. destruct h; cbn; [apply header_port_dvstep|apply header_alias_dvstep]. Qed.

(* ---------- declarations ---------- *)
Lemma connect_dvstep w p d d' : connect w p d = Ok d' -> wire_in d w -> lpin d p -> dvstep d d'.
Proof.
  intros H Hw Hp. apply (connect_all_dvstep [(w, p)]); [cbn; rewrite H; reflexivity|].
  intros w0 p0 [E|[]]. inversion E; subst. split; assumption.
Qed.

Lemma connect_resized_dvstep ck pk d d' : connect_resized ck pk d = Ok d' -> dvstep d d'.
Proof.
  unfold connect_resized. destruct (negb _); [discriminate|].
  apply (fold_res_dvstep_Q _ (fun (wp : ewire * epin) a => wire_in a (fst wp) /\ lpin a (snd wp))).
  - intros [w p] a b [Qw Qp]. cbn [fst snd] in *. destruct (pin_wire p a).
    + intro H. inversion H; subst. apply dvstep_refl.
    + intro H. eapply connect_dvstep; eassumption.
  - intros x a b S [Qw Qp]. split; [apply (dm_cables _ _ (dv_mono _ _ S)); exact Qw|eapply lpin_mono; [apply (dv_mono _ _ S)|exact Qp]].
  - intros [w p] Hin. pose proof (in_combine_l _ _ _ _ Hin) as Hw. pose proof (in_combine_r _ _ _ _ Hin) as Hp.
    apply in_map_iff in Hw. destruct Hw as (o & <- & Ho). apply in_map_iff in Hp. destruct Hp as (o' & <- & Ho').
    cbn [fst snd]. split; [apply cable_bundle_in; exact Ho|apply port_bundle_in; exact Ho'].
Qed.

Lemma port_decl_one_dvstep dir ty rg name d d' : port_decl_one dir ty rg name d = Ok d' -> dvstep d d'.
Proof.
  unfold port_decl_one. destruct (has_glob name); [discriminate|].
  pose proof (cou_cable_dvstep name (range_l rg) (range_r rg) (vtype_wr ty) true d) as X1.
  destruct (cou_cable _ _ _ _ _ d) as [d1 ck]. cbn [fst] in X1.
  intro H. apply bind_ok in H. destruct H as (ws & _ & H).
  destruct (ports_on ws d1) as [|pk [|pk2 rest]].
  - discriminate.
  - destruct (port_name_of pk d1) as [pn|]; [|discriminate].
    pose proof (cou_port_dvstep pn (range_l rg) (range_r rg) (Some dir) true d1) as X2.
    destruct (cou_port _ _ _ _ _ d1) as [d2 pk']. cbn [fst] in X2.
    eapply dvstep_trans; [exact X1|]. eapply dvstep_trans; [exact X2|].
    destruct (_ <? _)%nat; [eapply connect_resized_dvstep; exact H|inversion H; subst; apply dvstep_refl].
  - destruct (_ <? _)%nat; [discriminate|].
    eapply dvstep_trans; [exact X1|]. revert H. apply fold_res_dvstep.
    intros x a b. destruct (port_name_of x a); [|discriminate]. intro H. inversion H; subst. apply cou_port_dvstep.
Qed.

Lemma wire_decl_one_dvstep ty rg attrs name d d' : wire_decl_one ty rg attrs name d = Ok d' -> dvstep d d'.
Proof.
  unfold wire_decl_one. destruct (has_glob name); [discriminate|].
  pose proof (cou_cable_dvstep name (range_l rg) (range_r rg) (Some ty) false d) as X1.
  destruct (cou_cable _ _ _ _ _ d) as [d1 ck]. cbn [fst] in X1. intro H. inversion H; subst.
  eapply dvstep_trans; [exact X1|apply set_cable_attrs_dvstep].
Qed.

Lemma wire_decl_dvstep ty rg attrs names d d' : wire_decl ty rg attrs names d = Ok d' -> dvstep d d'.
Proof.
  unfold wire_decl. destruct names as [|n rest]; [discriminate|]. intro H.
  apply bind_ok in H. destruct H as (d1 & H1 & H2).
  eapply dvstep_trans; [eapply wire_decl_one_dvstep; exact H1|]. revert H2. apply fold_res_dvstep.
  intros x a b. apply wire_decl_one_dvstep.
Qed.

(* ---------- assign ---------- *)
Lemma add_inst_dvstep i d d' k : add_inst i d = Ok (d', k) ->
  dvstep d d' /\ k = length (ed_insts d) /\ nth_error (ed_insts d') k = Some i /\ ed_cables d' = ed_cables d /\ ed_ports d' = ed_ports d.
Proof.
  unfold add_inst. destruct (find_inst _ d); [discriminate|]. intro H. inversion H; subst. clear H.
  split; [|split; [reflexivity|split; [cbn; apply nth_error_app_last|split; reflexivity]]].
  apply dmono_dvstep; [|reflexivity]. constructor; cbn [ed_ports ed_cables ed_insts set_insts]; eauto.
  intros ii i0 Hi. exists i0. split; [apply nth_error_app_keep; exact Hi|reflexivity].
Qed.

Lemma assign_item_dvstep lhs rhs n d d' : assign_item lhs rhs n d = Ok d' -> dvstep d d'.
Proof.
  unfold assign_item. intro H.
  apply bind_ok in H. destruct H as ([d1 kl] & H1 & H).
  apply bind_ok in H. destruct H as ([d2 kr] & H2 & H).
  apply bind_ok in H. destruct H as (outs & Ho & H).
  apply bind_ok in H. destruct H as (ins & Hi & H).
  apply bind_ok in H. destruct H as ([d3 ii] & H3 & H).
  destruct (add_inst_dvstep _ _ _ _ H3) as (S3 & _ & N3 & _).
  eapply dvstep_trans; [eapply var_inst_dvstep; exact H1|]. eapply dvstep_trans; [eapply var_inst_dvstep; exact H2|].
  eapply dvstep_trans; [exact S3|]. eapply connect_all_dvstep; [exact H|].
  intros w p Hin. apply in_interleave in Hin.
  assert (G : forall (ws : list ewire) pt m, (forall x, In x ws -> wire_in d2 x) ->
              In (w, p) (combine (firstn m (rev ws)) (map (POuter ii pt) (seq 0 m))) -> wire_in d3 w /\ lpin d3 p).
  { intros ws pt m Hws Hc. pose proof (in_combine_l _ _ _ _ Hc) as Hw. pose proof (in_combine_r _ _ _ _ Hc) as Hp.
    apply firstn_incl in Hw. apply in_rev in Hw. apply in_map_iff in Hp. destruct Hp as (o & <- & _).
    split; [apply (dm_cables _ _ (dv_mono _ _ S3)); apply Hws; exact Hw|]. cbn [lpin]. eexists; eexists. split; [exact N3|reflexivity]. }
  destruct Hin as [Hin|Hin]; eapply G; try exact Hin; eapply wires_from_in; eassumption.
Qed.

(* ================= the state ================= *)
Definition iref (s : estate) (cur ii rk : nat) : Prop :=
  (cur < length (st_defs s))%nat /\ (rk < length (st_defs s))%nat /\
  exists i, nth_error (ed_insts (get_def cur s)) ii = Some i /\ ei_ref i = RName (ed_name (get_def rk s)).

Definition pend_ok (s : estate) (e : nat * nat * nat * list (option dexpr)) : Prop :=
  let '(cur, ii, rk, _) := e in iref s cur ii rk.

Record smono (s s' : estate) : Prop := {
  sm_names : exists extra, names s' = names s ++ extra;
  sm_defs : forall k, dmono (get_def k s) (get_def k s') }.

Record vstep (s s' : estate) : Prop := {
  vs_mono : smono s s';
  vs_conn : forall k p w, In (p, w) (ed_conn (get_def k s')) ->
              In (p, w) (ed_conn (get_def k s)) \/ (wire_in (get_def k s') w /\ pin_ok s' (get_def k s') p);
  vs_pend : forall e, In e (st_pending s') -> In e (st_pending s) \/ pend_ok s' e }.

Definition VInv (s : estate) : Prop := Vis s /\ forall e, In e (st_pending s) -> pend_ok s e.

Lemma smono_refl s : smono s s.
Proof. constructor; [exists []; rewrite app_nil_r; reflexivity|intro k; apply dmono_refl]. Qed.

Lemma smono_trans a b c : smono a b -> smono b c -> smono a c.
Proof.
  intros [(e1 & N1) D1] [(e2 & N2) D2]. constructor.
  - exists (e1 ++ e2). rewrite N2, N1, app_assoc. reflexivity.
  - intro k. eapply dmono_trans; [apply D1|apply D2].
Qed.

Lemma smono_length s s' : smono s s' -> (length (st_defs s) <= length (st_defs s'))%nat.
Proof.
  intros [(e & N) _]. assert (L : length (names s') = length (names s ++ e)) by (rewrite N; reflexivity).
  unfold names in L. rewrite app_length, !map_length in L. lia.
Qed.

Lemma find_idx_names_prefix n : forall (l l' : list edef) extra j, map ed_name l' = map ed_name l ++ extra ->
  find_idx (fun d => str_eqb (ed_name d) n) l = Some j -> find_idx (fun d => str_eqb (ed_name d) n) l' = Some j.
Proof.
  induction l as [|x l IH]; intros l' extra j N F; cbn in F; [discriminate|].
  destruct l' as [|x' l']; [discriminate|]. cbn in N. injection N as Nx Nl. cbn. rewrite Nx.
  destruct (str_eqb (ed_name x) n); [exact F|].
  destruct (find_idx _ l) as [k|] eqn:Fk; [|discriminate]. rewrite (IH l' extra k Nl eq_refl). exact F.
Qed.

Lemma find_def_mono s s' n j : smono s s' -> find_def n s = Some j -> find_def n s' = Some j.
Proof. intros [(e & N) _] F. unfold find_def in *. eapply find_idx_names_prefix; [exact N|exact F]. Qed.

Lemma pin_ok_mono s s' k p : smono s s' -> pin_ok s (get_def k s) p -> pin_ok s' (get_def k s') p.
Proof.
  intros M. pose proof (sm_defs _ _ M k) as [P _ I]. destruct p as [pk o|ii pk o]; cbn [pin_ok]; [apply P|].
  intros (i & Hi & Hr). destruct (I ii i Hi) as (i' & Hi' & R). exists i'. split; [exact Hi'|]. rewrite R.
  destruct (ei_ref i) as [n|w]; [|exact Logic.I]. cbn [ref_ports] in *.
  destruct (find_def n s) as [j|] eqn:F; [|destruct Hr as (p & Hp & _); destruct pk; discriminate].
  rewrite (find_def_mono s s' n j M F). apply (dm_ports _ _ (sm_defs _ _ M j)). exact Hr.
Qed.

Lemma iref_mono s s' cur ii rk : smono s s' -> iref s cur ii rk -> iref s' cur ii rk.
Proof.
  intros M (Hc & Hr & i & Hi & R). pose proof (smono_length _ _ M) as L. destruct (sm_names _ _ M) as (e & N).
  split; [lia|]. split; [lia|]. destruct (dm_insts _ _ (sm_defs _ _ M cur) ii i Hi) as (i' & Hi' & R').
  exists i'. split; [exact Hi'|]. rewrite R', R. f_equal. symmetry. exact (proj2 (names_prefix_get s s' e rk N Hr)).
Qed.

Lemma pend_ok_mono s s' e : smono s s' -> pend_ok s e -> pend_ok s' e.
Proof. destruct e as [[[cur ii] rk] l]. apply iref_mono. Qed.

Lemma vstep_refl s : vstep s s.
Proof. constructor; [apply smono_refl|auto|auto]. Qed.

Lemma vstep_trans a b c : vstep a b -> vstep b c -> vstep a c.
Proof.
  intros [M1 C1 P1] [M2 C2 P2]. constructor; [eapply smono_trans; eassumption| |].
  - intros k p w H. destruct (C2 k p w H) as [H2|H2]; [|right; exact H2].
    destruct (C1 k p w H2) as [H1|[H1 H1']]; [left; exact H1|right].
    split; [apply (dm_cables _ _ (sm_defs _ _ M2 k)); exact H1|eapply pin_ok_mono; eassumption].
  - intros e H. destruct (P2 e H) as [H2|H2]; [|right; exact H2].
    destruct (P1 e H2) as [H1|H1]; [left; exact H1|right; eapply pend_ok_mono; eassumption].
Qed.

Theorem vinv_vstep s s' : VInv s -> vstep s s' -> VInv s'.
Proof.
  intros [V P] [M C Pn]. split.
  - intros k p w H. destruct (C k p w H) as [H0|H0]; [|exact H0]. destruct (V k p w H0) as [Hw Hp].
    split; [apply (dm_cables _ _ (sm_defs _ _ M k)); exact Hw|eapply pin_ok_mono; eassumption].
  - intros e H. destruct (Pn e H) as [H0|H0]; [|exact H0]. eapply pend_ok_mono; [exact M|apply P; exact H0].
Qed.

Lemma fold_res_vstep {A} (f : A -> estate -> result estate) (Q : estate -> Prop) l :
  (forall x s s', Q s -> f x s = Ok s' -> vstep s s' /\ Q s') ->
  forall s s', Q s -> fold_res f l s = Ok s' -> vstep s s' /\ Q s'.
Proof.
  intros Hf. induction l as [|x l IH]; intros s s' HQ H; cbn in H.
  - inversion H; subst. split; [apply vstep_refl|exact HQ].
  - apply bind_ok in H. destruct H as (s1 & H1 & H2). destruct (Hf _ _ _ HQ H1) as [S1 Q1].
    destruct (IH _ _ Q1 H2) as [S2 Q2]. split; [eapply vstep_trans; eassumption|exact Q2].
Qed.

(* steps that leave the definitions alone *)
Lemma vstep_same_defs s s' : st_defs s' = st_defs s -> (forall e, In e (st_pending s') -> In e (st_pending s) \/ pend_ok s' e) -> vstep s s'.
Proof.
  intros E Hp. assert (G : forall k, get_def k s' = get_def k s) by (intro k; unfold get_def; rewrite E; reflexivity).
  constructor; [constructor| |exact Hp].
  - exists []. unfold names. rewrite E, app_nil_r. reflexivity.
  - intro k. rewrite G. apply dmono_refl.
  - intros k p w H. left. rewrite <- G. exact H.
Qed.

Lemma put_def_out k d s : (length (st_defs s) <= k)%nat -> put_def k d s = s.
Proof. intro H. unfold put_def, upd_def. rewrite nth_upd_out by exact H. destruct s; reflexivity. Qed.

Lemma upd_def_put k f s : upd_def k f s = put_def k (f (get_def k s)) s.
Proof.
  unfold put_def, upd_def. f_equal. apply nth_upd_ext. intros x Hx. unfold get_def. rewrite (nth_default_error _ _ _ _ Hx). reflexivity.
Qed.

Lemma put_def_vstep k d' s : ed_name d' = ed_name (get_def k s) -> dvstep (get_def k s) d' -> vstep s (put_def k d' s).
Proof.
  intros Ds Dv. destruct (le_lt_dec (length (st_defs s)) k) as [Ho|Hk]; [rewrite put_def_out by exact Ho; apply vstep_refl|].
  assert (N : names (put_def k d' s) = names s) by (apply names_put; exact Ds).
  constructor; [constructor| |].
  - exists []. rewrite app_nil_r. exact N.
  - intro j. destruct (Nat.eq_dec j k) as [->|Hne]; [rewrite get_put_same by exact Hk; apply (dv_mono _ _ Dv)|].
    rewrite get_put_other by exact Hne. apply dmono_refl.
  - intros j p w H. destruct (Nat.eq_dec j k) as [->|Hne].
    + rewrite get_put_same in * by exact Hk. destruct (dv_conn _ _ Dv p w H) as [H0|[Hw Hp]]; [left; exact H0|right].
      split; [exact Hw|apply lpin_pin_ok; exact Hp].
    + rewrite get_put_other in H by exact Hne. left. exact H.
  - intros e H. left. exact H.
Qed.

Lemma upd_def_vstep k f s : ed_name (f (get_def k s)) = ed_name (get_def k s) -> dvstep (get_def k s) (f (get_def k s)) -> vstep s (upd_def k f s).
Proof. rewrite upd_def_put. apply put_def_vstep. Qed.

Lemma lift_vstep cur f s s' : (forall d d', f d = Ok d' -> dstep d d') -> (forall d d', f d = Ok d' -> dvstep d d') ->
  lift cur f s = Ok s' -> vstep s s'.
Proof.
  intros H1 H2 H. unfold lift in H. apply bind_ok in H. destruct H as (d & Hd & H). inversion H; subst.
  apply put_def_vstep; [apply (ds_name _ _ (H1 _ _ Hd))|eapply H2; exact Hd].
Qed.

Lemma set_meta_dvstep d lib prim params attrs : dvstep d (set_meta d lib prim params attrs).
Proof. apply dmono_dvstep; [|reflexivity]. constructor; cbn; eauto. Qed.

Lemma upd_inst_dvstep k f d : (forall i, ei_ref (f i) = ei_ref i) -> dvstep d (set_insts d (nth_upd k f (ed_insts d))).
Proof.
  intro Hr. apply dmono_dvstep; [|reflexivity]. constructor; cbn [ed_ports ed_cables ed_insts set_insts]; eauto.
  intros ii i Hi. destruct (Nat.eq_dec ii k) as [->|Hne].
  - rewrite (nth_upd_same _ _ _ _ Hi). eauto.
  - rewrite (nth_upd_other _ _ _ _ Hne). eauto.
Qed.

Lemma dmono_dummy d : dmono dummy_def d.
Proof.
  constructor; cbn.
  - intros pk o (p & P & _). destruct pk; discriminate.
  - intros w (c & C & _). cbn in C. destruct (fst w); discriminate.
  - intros ii i H. destruct ii; discriminate.
Qed.

Lemma get_blackbox_vstep name s s' k : get_blackbox name s = (s', k) -> vstep s s'.
Proof.
  unfold get_blackbox. destruct (find_def name s) as [j|]; intro H; inversion H; subst; [apply vstep_refl|].
  assert (G : forall j, (j < length (st_defs s))%nat -> get_def j (set_defs s (st_defs s ++ [empty_def name])) = get_def j s).
  { intros j Hj. unfold get_def. cbn. apply app_nth1. exact Hj. }
  constructor; [constructor| |].
  - exists [name]. unfold names. cbn. rewrite map_app. reflexivity.
  - intro j. destruct (lt_dec j (length (st_defs s))) as [Hj|Hj]; [rewrite G by exact Hj; apply dmono_refl|].
    unfold get_def at 1. rewrite nth_overflow by lia. apply dmono_dummy.
  - intros j p w Hin. left. destruct (lt_dec j (length (st_defs s))) as [Hj|Hj]; [rewrite G in Hin by exact Hj; exact Hin|].
    exfalso. unfold get_def in Hin. cbn in Hin. destruct (Nat.eq_dec j (length (st_defs s))) as [->|Hne].
    + rewrite app_nth2, Nat.sub_diag in Hin by lia. exact Hin.
    + rewrite nth_overflow in Hin by (rewrite app_length; cbn; lia). exact Hin.
  - intros e He. left. exact He.
Qed.

(* ---------- port maps ---------- *)
Lemma conn_tail_vstep cur ii rk pk s2 wires calls d2 :
  NoDup (names s2) -> iref s2 cur ii rk ->
  (forall w, In w wires -> wire_in (get_def cur s2) w) ->
  aligned (POuter ii pk) (b_items (port_bundle pk (get_def rk s2))) wires = Ok calls ->
  connect_all calls (get_def cur s2) = Ok d2 ->
  vstep s2 (put_def cur d2 s2) /\ names (put_def cur d2 s2) = names s2.
Proof.
  intros ND (Hc & Hr & i & Hi & R) Hw Ha Hd.
  destruct (aligned_spec _ _ _ _ Ha) as [L ->].
  pose proof (connect_all_conn _ _ _ Hd) as E.
  assert (N : names (put_def cur d2 s2) = names s2) by (apply names_put; rewrite E; reflexivity).
  split; [|exact N].
  constructor; [constructor| |].
  - exists []. rewrite app_nil_r. exact N.
  - intro j. destruct (Nat.eq_dec j cur) as [->|Hne].
    + rewrite get_put_same by exact Hc. rewrite E. constructor; cbn [ed_ports ed_cables ed_insts set_conn]; eauto.
    + rewrite get_put_other by exact Hne. apply dmono_refl.
  - intros j p w Hin. destruct (Nat.eq_dec j cur) as [->|Hne]; [|rewrite get_put_other in Hin by exact Hne; left; exact Hin].
    rewrite get_put_same in Hin |- * by exact Hc. rewrite E in Hin. cbn [ed_conn set_conn] in Hin.
    apply in_app_iff in Hin. destruct Hin as [Hin|Hin]; [left; exact Hin|right].
    apply in_map_iff in Hin. destruct Hin as ([w0 p0] & Ex & Hin). cbn in Ex. inversion Ex; subst w0 p0. clear Ex.
    pose proof (in_combine_l _ _ _ _ Hin) as Hw0. pose proof (in_combine_r _ _ _ _ Hin) as Hp0.
    apply in_map_iff in Hp0. destruct Hp0 as (k & <- & Hk). apply in_rev in Hk. apply in_seq in Hk.
    assert (Fi : ed_insts d2 = ed_insts (get_def cur s2)) by (rewrite E; reflexivity).
    assert (Fc : ed_cables d2 = ed_cables (get_def cur s2)) by (rewrite E; reflexivity).
    assert (Fp : ed_ports d2 = ed_ports (get_def cur s2)) by (rewrite E; reflexivity).
    split.
    + destruct (Hw w Hw0) as (c & C1 & C2). exists c. split; [rewrite Fc; exact C1|exact C2].
    + cbn [pin_ok]. rewrite Fi. exists i. split; [exact Hi|]. rewrite R.
      cbn [ref_ports]. rewrite (find_def_names _ _ _ N). rewrite (find_def_self rk s2 ND Hr).
      assert (Ep : ed_ports (get_def rk (put_def cur d2 s2)) = ed_ports (get_def rk s2)).
      { destruct (Nat.eq_dec rk cur) as [->|Hne]; [rewrite get_put_same by exact Hc; exact Fp|rewrite get_put_other by exact Hne; reflexivity]. }
      rewrite Ep. apply port_bundle_in. apply nth_In. lia.
  - intros e He. left. exact He.
Qed.

Lemma named_conn_vstep cur ii rk pc s s' : NoDup (names s) -> iref s cur ii rk -> named_conn cur ii rk pc s = Ok s' ->
  vstep s s' /\ names s' = names s.
Proof.
  unfold named_conn. destruct pc as [pname [e|]]; destruct (has_glob pname); try discriminate; intros ND IR H.
  - apply bind_ok in H. destruct H as ([d1 ws] & H1 & H).
    destruct (expr_wires_dvstep _ _ _ _ H1) as [Dv1 W1]. pose proof (expr_wires_dstep _ _ _ _ H1) as Ds1.
    set (s1 := put_def cur d1 s) in *.
    assert (V1 : vstep s s1) by (apply put_def_vstep; [apply (ds_name _ _ Ds1)|exact Dv1]).
    assert (N1 : names s1 = names s) by (apply names_put; apply (ds_name _ _ Ds1)).
    pose proof (cou_port_dstep pname (Some (Z.of_nat (length ws) - 1)%Z) (Some 0%Z) None false (get_def rk s1)) as X.
    pose proof (cou_port_dvstep pname (Some (Z.of_nat (length ws) - 1)%Z) (Some 0%Z) None false (get_def rk s1)) as Y.
    destruct (cou_port _ _ _ _ _ (get_def rk s1)) as [rd1 pk]. cbn [fst] in X, Y.
    set (s2 := put_def rk rd1 s1) in *.
    assert (V2 : vstep s1 s2) by (apply put_def_vstep; [apply (ds_name _ _ X)|exact Y]).
    assert (N2 : names s2 = names s1) by (apply names_put; apply (ds_name _ _ X)).
    apply bind_ok in H. destruct H as (calls & Ha & H). apply bind_ok in H. destruct H as (d2 & H2 & H). inversion H; subst s'. clear H.
    assert (IR2 : iref s2 cur ii rk) by (eapply iref_mono; [eapply smono_trans; [apply V1|apply V2]|exact IR]).
    assert (Hc : (cur < length (st_defs s))%nat) by apply IR.
    assert (G2 : get_def rk s2 = rd1). { apply get_put_same. unfold s1. rewrite put_def_length. apply IR. }
    rewrite <- G2 in Ha.
    destruct (conn_tail_vstep cur ii rk pk s2 ws calls d2) as [V3 N3]; [rewrite N2, N1; exact ND|exact IR2| |exact Ha|exact H2|].
    + intros w Hw. apply (dm_cables _ _ (sm_defs _ _ (vs_mono _ _ V2) cur)). unfold s1. rewrite get_put_same by exact Hc. apply W1. exact Hw.
    + split; [eapply vstep_trans; [exact V1|eapply vstep_trans; [exact V2|exact V3]]|congruence].
  - inversion H; subst. pose proof (cou_port_dstep pname (Some 0%Z) (Some 0%Z) None false (get_def rk s)) as X.
    split; [apply upd_def_vstep; [apply (ds_name _ _ X)|apply cou_port_dvstep]|].
    rewrite upd_def_put. apply names_put. apply (ds_name _ _ X).
Qed.

Lemma add_port_dvstep d p : dvstep d (set_ports d (ed_ports d ++ [p])).
Proof.
  apply dmono_dvstep; [|reflexivity]. constructor; cbn [ed_ports ed_cables ed_insts set_ports]; eauto.
  intros pk ord (p0 & P & Ho). exists p0. split; [apply nth_error_app_keep; exact P|exact Ho].
Qed.

Lemma pos_conn_vstep cur ii rk fresh index oe s s' : NoDup (names s) -> iref s cur ii rk -> pos_conn cur ii rk fresh index oe s = Ok s' ->
  vstep s s' /\ names s' = names s.
Proof.
  unfold pos_conn. intros ND IR H. destruct oe as [e|].
  - apply bind_ok in H. destruct H as ([d1 ws] & H1 & H).
    destruct (expr_wires_dvstep _ _ _ _ H1) as [Dv1 W1]. pose proof (expr_wires_dstep _ _ _ _ H1) as Ds1.
    set (s1 := put_def cur d1 s) in *.
    assert (V1 : vstep s s1) by (apply put_def_vstep; [apply (ds_name _ _ Ds1)|exact Dv1]).
    assert (N1 : names s1 = names s) by (apply names_put; apply (ds_name _ _ Ds1)).
    assert (Hc : (cur < length (st_defs s))%nat) by apply IR.
    assert (K : forall s2 pk, vstep s1 s2 -> names s2 = names s1 ->
              (let* calls := aligned (POuter ii pk) (b_items (port_bundle pk (get_def rk s2))) ws in
               let* d2 := connect_all calls (get_def cur s2) in Ok (put_def cur d2 s2)) = Ok s' -> vstep s s' /\ names s' = names s).
    { intros s2 pk V2 N2 H0. apply bind_ok in H0. destruct H0 as (calls & Ha & H0). apply bind_ok in H0. destruct H0 as (d2 & H2 & H0).
      inversion H0; subst s'. clear H0.
      assert (IR2 : iref s2 cur ii rk) by (eapply iref_mono; [eapply smono_trans; [apply V1|apply V2]|exact IR]).
      destruct (conn_tail_vstep cur ii rk pk s2 ws calls d2) as [V3 N3]; [rewrite N2, N1; exact ND|exact IR2| |exact Ha|exact H2|].
      + intros w Hw. apply (dm_cables _ _ (sm_defs _ _ (vs_mono _ _ V2) cur)). unfold s1. rewrite get_put_same by exact Hc. apply W1. exact Hw.
      + split; [eapply vstep_trans; [exact V1|eapply vstep_trans; [exact V2|exact V3]]|congruence]. }
    destruct fresh; cbv beta iota in H.
    + eapply K; [| |exact H].
      * apply put_def_vstep; [reflexivity|apply add_port_dvstep].
      * apply names_put. reflexivity.
    + eapply K; [apply vstep_refl|reflexivity|exact H].
  - destruct fresh; inversion H; subst; [|split; [apply vstep_refl|reflexivity]].
    split; [apply put_def_vstep; [reflexivity|apply add_port_dvstep]|apply names_put; reflexivity].
Qed.

(* ---------- items ---------- *)
Lemma inst_item_vstep cur m i params attrs conns s s' : Inv s -> (cur < length (st_defs s))%nat ->
  inst_item cur m i params attrs conns s = Ok s' -> vstep s s'.
Proof.
  unfold inst_item. intros I Hc H.
  destruct (get_blackbox m s) as [s1 rk] eqn:G.
  pose proof (get_blackbox_vstep _ _ _ _ G) as V0.
  destruct (get_blackbox_inv _ _ _ _ G I) as (I1 & Hrk & Nrk & L1).
  destruct (_ && _); [destruct (parents_of _ _); [destruct (forallb _ _)|]; discriminate|].
  set (s2 := elect_step cur rk s1) in *.
  assert (D2 : st_defs s2 = st_defs s1) by (unfold s2, elect_step; destruct (st_tops s1); reflexivity).
  assert (P2 : st_pending s2 = st_pending s1) by (unfold s2, elect_step; destruct (st_tops s1); reflexivity).
  assert (V2 : vstep s1 s2) by (apply vstep_same_defs; [exact D2|intros e He; left; rewrite <- P2; exact He]).
  apply bind_ok in H. destruct H as ([d1 ii] & H1 & H).
  destruct (add_inst_inv _ _ _ _ H1) as (N1 & _). destruct (add_inst_dvstep _ _ _ _ H1) as (Dv1 & _ & Hi1 & _).
  set (s3 := set_curinst (put_def cur d1 s2) (Some (cur, ii))) in *.
  assert (V3 : vstep s2 s3).
  { eapply vstep_trans; [apply (put_def_vstep cur d1 s2 N1 Dv1)|]. apply vstep_same_defs; [reflexivity|intros e He; left; exact He]. }
  assert (N3 : names s3 = names s1).
  { transitivity (names s2); [|unfold names; rewrite D2; reflexivity]. apply (names_put cur d1 s2 N1). }
  assert (L3 : length (st_defs s3) = length (st_defs s1)).
  { unfold s3. cbn. rewrite nth_upd_length, D2. reflexivity. }
  assert (Hc2 : (cur < length (st_defs s2))%nat) by (rewrite D2; lia).
  assert (IR3 : iref s3 cur ii rk).
  { split; [lia|]. split; [lia|]. exists {| ei_name := i; ei_ref := RName m; ei_params := []; ei_attrs := dict_of attrs |}. split.
    - change (get_def cur s3) with (get_def cur (put_def cur d1 s2)). rewrite get_put_same by exact Hc2. exact Hi1.
    - cbn [ei_ref]. rewrite (name_kept s1 s3 rk N3 Hrk), Nrk. reflexivity. }
  assert (ND3 : NoDup (names s3)) by (rewrite N3; apply (iv_names s1 I1)).
  apply bind_ok in H. destruct H as (s4 & H4 & H). inversion H; subst s'. clear H.
  assert (V4 : vstep s3 s4).
  { destruct conns as [l|l].
    - refine (proj1 (fold_res_vstep (named_conn cur ii rk) (fun x => NoDup (names x) /\ iref x cur ii rk) l _ s3 s4 (conj ND3 IR3) H4)).
      intros x a b [NDa IRa] Hx. destruct (named_conn_vstep _ _ _ _ _ _ NDa IRa Hx) as [Va Na].
      split; [exact Va|]. split; [rewrite Na; exact NDa|eapply iref_mono; [apply Va|exact IRa]].
    - inversion H4; subst s4. apply vstep_same_defs; [reflexivity|]. intros e He. cbn in He. apply in_app_iff in He.
      destruct He as [He|[<-|[]]]; [left; exact He|right; exact IR3]. }
  eapply vstep_trans; [exact V0|]. eapply vstep_trans; [exact V2|]. eapply vstep_trans; [exact V3|]. eapply vstep_trans; [exact V4|].
  apply upd_def_vstep; [reflexivity|apply upd_inst_dvstep; reflexivity].
Qed.

Lemma defparam_item_vstep cur i k v s s' : defparam_item cur i k v s = Ok s' -> vstep s s'.
Proof.
  unfold defparam_item. destruct (st_curinst s) as [[cd ci]|]; [|discriminate]. intros H.
  apply bind_ok in H. destruct H as (tgt & _ & H). inversion H; subst.
  apply upd_def_vstep; [reflexivity|apply upd_inst_dvstep; reflexivity].
Qed.

Lemma body_item_vstep cur it s s' : Inv s -> (cur < length (st_defs s))%nat -> body_item cur it s = Ok s' -> vstep s s'.
Proof.
  destruct it as [dir ty rg nms at_|ty rg nms at_|m i ps at_ conns|i k v|lhs rhs|]; cbn [body_item]; intros I Hc H.
  - eapply lift_vstep; [| |exact H].
    + apply fold_res_dstep. intros x a b. apply port_decl_one_dstep.
    + apply fold_res_dvstep. intros x a b. apply port_decl_one_dvstep.
  - eapply lift_vstep; [| |exact H]; intros a b; [apply wire_decl_dstep|apply wire_decl_dvstep].
  - eapply inst_item_vstep; eassumption.
  - eapply defparam_item_vstep; exact H.
  - apply bind_ok in H. destruct H as (s1 & H1 & H). inversion H; subst.
    eapply vstep_trans; [eapply lift_vstep; [| |exact H1]; intros a b; [apply assign_item_dstep|apply assign_item_dvstep]|].
    apply vstep_same_defs; [reflexivity|intros e He; left; exact He].
  - discriminate.
Qed.

Lemma cell_item_vstep cur it s s' : cell_item cur it s = Ok s' -> vstep s s'.
Proof.
  destruct it; cbn [cell_item]; intros H; try (inversion H; subst; apply vstep_refl).
  eapply lift_vstep; [| |exact H].
  - apply fold_res_dstep. intros x a b. apply port_decl_one_dstep.
  - apply fold_res_dvstep. intros x a b. apply port_decl_one_dvstep.
Qed.

Lemma fold_items_vstep (f : nat -> vitem -> estate -> result estate) cur l :
  (forall it s s', f cur it s = Ok s' -> Inv s -> (cur < length (st_defs s))%nat -> Inv s' /\ (length (st_defs s) <= length (st_defs s'))%nat) ->
  (forall it s s', Inv s -> (cur < length (st_defs s))%nat -> f cur it s = Ok s' -> vstep s s') ->
  forall s s', Inv s -> (cur < length (st_defs s))%nat -> fold_res (f cur) l s = Ok s' -> vstep s s'.
Proof.
  intros Hi Hv s s' I Hc H.
  refine (proj1 (fold_res_vstep (f cur) (fun x => Inv x /\ (cur < length (st_defs x))%nat) l _ s s' (conj I Hc) H)).
  intros x a b [Ia La] Hx. split; [eapply Hv; eassumption|]. destruct (Hi _ _ _ Hx Ia La) as [Ib Lb]. split; [exact Ib|lia].
Qed.

(* ---------- modules ---------- *)
Lemma module_decl_vstep m s s' : Inv s -> module_decl m s = Ok s' -> vstep s s'.
Proof.
  unfold module_decl. intros I H.
  destruct (get_blackbox (vm_name m) s) as [s1 cur] eqn:G.
  pose proof (get_blackbox_vstep _ _ _ _ G) as V1.
  destruct (get_blackbox_inv _ _ _ _ G I) as (I1 & Hc & _ & _).
  destruct (ed_lib (get_def cur s1)); [discriminate|].
  set (s2 := upd_def cur _ s1) in *.
  assert (I2 : Inv s2) by (apply upd_def_inv; [exact I1|apply set_meta_dstep]).
  assert (V2 : vstep s1 s2) by (apply upd_def_vstep; [reflexivity|apply set_meta_dvstep]).
  assert (L2 : length (st_defs s2) = length (st_defs s1)) by apply upd_def_length.
  set (s3 := if vm_cell m then s2 else _) in *.
  assert (I3 : Inv s3 /\ length (st_defs s3) = length (st_defs s2)).
  { unfold s3. destruct (vm_cell m); [split; [exact I2|reflexivity]|].
    split; [|destruct (st_tops s2); reflexivity]. apply inv_set_acount. destruct (st_tops s2) eqn:T; [exact I2|].
    assert (Hc2 : (cur < length (st_defs s2))%nat) by lia.
    destruct I2 as [A B C D E]. constructor; cbn; try assumption.
    intros l t Hl Ht. inversion Hl; subst. destruct Ht as [<-|[]]. exact Hc2. }
  assert (V3 : vstep s2 s3).
  { unfold s3. destruct (vm_cell m); [apply vstep_refl|].
    apply vstep_same_defs; [destruct (st_tops s2); reflexivity|]. intros e He. left. destruct (st_tops s2); exact He. }
  destruct I3 as [I3 L3].
  set (s4 := upd_def cur _ s3) in *.
  assert (I4 : Inv s4) by (apply upd_def_inv; [exact I3|apply set_meta_dstep]).
  assert (V4 : vstep s3 s4) by (apply upd_def_vstep; [reflexivity|apply set_meta_dvstep]).
  assert (L4 : length (st_defs s4) = length (st_defs s3)) by apply upd_def_length.
  apply bind_ok in H. destruct H as (s5 & H5 & H).
  assert (I5 : Inv s5) by (eapply lift_inv; [|exact H5|exact I4]; apply fold_res_dstep; intros x a b; apply header_entry_dstep).
  assert (V5 : vstep s4 s5).
  { eapply lift_vstep; [| |exact H5]; [apply fold_res_dstep; intros x a b; apply header_entry_dstep|apply fold_res_dvstep; intros x a b; apply header_entry_dvstep]. }
  assert (L5 : length (st_defs s5) = length (st_defs s4)) by (eapply lift_length; exact H5).
  apply bind_ok in H. destruct H as (s6 & H6 & H).
  assert (V6 : vstep s5 s6).
  { destruct (vm_cell m).
    - eapply (fold_items_vstep (fun c => cell_item c) cur (vm_body m)); [| |exact I5| |exact H6]; [| |lia].
      + intros it a b Hx Ia _. eapply cell_item_inv; eassumption.
      + intros it a b _ _ Hx. eapply cell_item_vstep; exact Hx.
    - eapply (fold_items_vstep (fun c => body_item c) cur (vm_body m)); [| |exact I5| |exact H6]; [| |lia].
      + intros it a b. apply body_item_inv.
      + intros it a b. apply body_item_vstep. }
  eapply vstep_trans; [exact V1|]. eapply vstep_trans; [exact V2|]. eapply vstep_trans; [exact V3|]. eapply vstep_trans; [exact V4|].
  eapply vstep_trans; [exact V5|]. eapply vstep_trans; [exact V6|].
  inversion H; subst. destruct (vm_attrs m); [apply vstep_refl|]. apply upd_def_vstep; [reflexivity|apply set_meta_dvstep].
Qed.

(* ---------- the end of the file ---------- *)
Lemma close_blackboxes_vstep s : vstep s (close_blackboxes s).
Proof.
  set (f := fun d => match ed_lib d with None => set_meta d (Some true) true (ed_params d) (ed_attrs d) | Some _ => d end).
  assert (Nm : names (close_blackboxes s) = names s).
  { unfold names, close_blackboxes. cbn. rewrite map_map. apply map_ext. intro d. destruct (ed_lib d); reflexivity. }
  assert (G : forall k, get_def k (close_blackboxes s) = get_def k s \/
                        get_def k (close_blackboxes s) = set_meta (get_def k s) (Some true) true (ed_params (get_def k s)) (ed_attrs (get_def k s))).
  { intro k. unfold get_def, close_blackboxes. cbn. fold f. destruct (lt_dec k (length (st_defs s))) as [Hk|Hk].
    - rewrite (nth_indep _ dummy_def (f dummy_def)) by (rewrite map_length; exact Hk). rewrite map_nth.
      unfold f. destruct (ed_lib (nth k (st_defs s) dummy_def)); [left; reflexivity|right; reflexivity].
    - left. rewrite !nth_overflow by (try rewrite map_length; lia). reflexivity. }
  constructor; [constructor| |].
  - exists []. rewrite app_nil_r. exact Nm.
  - intro k. destruct (G k) as [->| ->]; [apply dmono_refl|apply (dv_mono _ _ (set_meta_dvstep _ _ _ _ _))].
  - intros k p w H. left. destruct (G k) as [E|E]; rewrite E in H; exact H.
  - intros e He. left. exact He.
Qed.

Lemma pending_one_vstep p s s' : Inv s -> pend_ok s p -> pending_one p s = Ok s' -> vstep s s'.
Proof.
  destruct p as [[[cur ii] rk] l]. unfold pending_one, pend_ok. intros I IR H.
  refine (proj1 (fold_res_vstep _ (fun x => NoDup (names x) /\ iref x cur ii rk) (number l) _ s s' (conj (iv_names s I) IR) H)).
  intros x a b [NDa IRa] Hx. destruct (pos_conn_vstep _ _ _ _ _ _ _ _ NDa IRa Hx) as [Va Na].
  split; [exact Va|]. split; [rewrite Na; exact NDa|eapply iref_mono; [apply Va|exact IRa]].
Qed.

Theorem run_vinv doc s : run doc = Ok s -> VInv s.
Proof.
  unfold run. intro H. apply bind_ok in H. destruct H as (s1 & H1 & H2).
  set (s0 := {| st_defs := []; st_tops := None; st_ps := []; st_acount := 0; st_curinst := None; st_pending := [] |}) in *.
  assert (I0 : Inv s0) by (constructor; cbn; try constructor; try contradiction; try discriminate).
  assert (V0 : VInv s0).
  { split; [|intros e []]. intros k p w Hin. unfold get_def in Hin. cbn in Hin. destruct k; destruct Hin. }
  assert (X1 : vstep s0 s1 /\ Inv s1).
  { apply (fold_res_vstep module_decl Inv doc) with (s := s0); [|exact I0|exact H1].
    intros x a b Ia Hx. split; [eapply module_decl_vstep; eassumption|eapply module_decl_inv; eassumption]. }
  destruct X1 as [V1 I1].
  assert (VI1 : VInv s1) by (eapply vinv_vstep; eassumption).
  set (s2 := close_blackboxes s1) in *.
  assert (VI2 : VInv s2) by (eapply vinv_vstep; [exact VI1|apply close_blackboxes_vstep]).
  assert (I2 : Inv s2) by (apply close_blackboxes_inv; exact I1).
  assert (X : forall L a b, Inv a -> VInv a -> (forall e, In e L -> pend_ok a e) -> fold_res pending_one L a = Ok b -> VInv b).
  { induction L as [|e L IH]; intros a b Ia Va Pa Hf; cbn in Hf; [inversion Hf; subst; exact Va|].
    apply bind_ok in Hf. destruct Hf as (a1 & Ha1 & Hf).
    assert (S1 : vstep a a1) by (eapply pending_one_vstep; [exact Ia|apply Pa; left; reflexivity|exact Ha1]).
    eapply IH; [eapply pending_one_inv; eassumption|eapply vinv_vstep; eassumption| |exact Hf].
    intros e' He'. eapply pend_ok_mono; [apply S1|apply Pa; right; exact He']. }
  eapply X; [exact I2|exact VI2|apply VI2|exact H2].
Qed.

(* every connection of every definition of a state reached from a document shows in the netlist value *)
Theorem run_visible doc s k : run doc = Ok s -> visible s (get_def k s).
Proof. intro H. apply conn_ok_visible. apply (proj1 (run_vinv doc s H)). Qed.
