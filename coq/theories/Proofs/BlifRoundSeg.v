(* EBLIF engine, write-then-read: the reader segments the written file into exactly the statements the
   writer put there (no line is skipped, split or read in another mode), and so does the grammar. *)
From Coq Require Import List Arith NArith Bool Lia.
From SV Require Import Base.Base Fmt.Blif Fmt.BlifRead Fmt.BlifWrite Fmt.BlifSpec Proofs.BlifBase Proofs.BlifNetsSpec.
Import ListNotations.

(* ---------- the statements of the written file ---------- *)
Definition info_stmts (i : inst) : list stmt :=
  [SCname (match i_name i with Some x => x | None => [] end)]
  ++ map (fun kv => SAttr (fst kv) (snd kv)) (i_attr i)
  ++ map (fun kv => SParam (fst kv) (snd kv)) (i_param i).

Definition inst_stmts (ms : list model) (m : model) (ni : nat * inst) : list stmt :=
  let '(idx, i) := ni in
  match i_kind i with
  | KSub | KGate =>
    [SSub (match i_kind i with KGate => true | _ => false end) (i_ref i) (tl (tl (sub_line ms m idx i)))] ++ info_stmts i
  | KNames => [SNames (tl (names_line ms m idx i))] ++ map (fun c => SCover (fst c) (snd c)) (i_covers i) ++ info_stmts i
  | KLatch => [SLatch (tl (latch_line m idx i))] ++ info_stmts i
  end.

Definition model_stmts (ms : list model) (m : model) : list stmt :=
  match m_lib m with
  | LPrim => []
  | _ =>
    [SModel (m_name m);
     SInputs (flat_map (fun q => if is_in (p_dir q) then port_toks q else []) (m_ports m));
     SOutputs (flat_map (fun q => if is_out (p_dir q) then port_toks q else []) (m_ports m))]
    ++ match m_clock m with Some c => [SClock c] | None => [] end
    ++ flat_map (inst_stmts ms m) (written_insts m)
    ++ [SEnd]
  end.

Definition bb_stmts (m : model) : list stmt :=
  [SModel (m_name m);
   SInputs (map p_name (filter (fun q => dir_eqb (p_dir q) DIn) (m_ports m)));
   SOutputs (map p_name (filter (fun q => dir_eqb (p_dir q) DOut) (m_ports m)));
   SBlackbox; SEnd].

Definition written_bbs (n : bnv) : list str :=
  let ms := b_models n in
  let leafs := flat_map (fun nm =>
                 map i_ref (filter (fun i => (kind_is KSub i || kind_is KGate i) && is_leaf ms (i_ref i))
                                   (m_insts (get_model nm ms)))) (written_names n) in
  match b_top n with
  | None => []
  | Some _ => filter (fun nm => existsb (str_eqb nm) leafs && negb (contains k_logic nm)) (b_prim n)
  end.

Definition stmts_of (n : bnv) : list stmt :=
  map SComment (b_comments n) ++ [SComment (tl generated_by)] ++
  flat_map (fun nm => model_stmts (b_models n) (get_model nm (b_models n))) (written_names n) ++
  flat_map (fun nm => bb_stmts (get_model nm (b_models n))) (written_bbs n).

(* the only condition: truth-table rows start with a row token *)
Definition covers_ok (n : bnv) : bool := forallb (fun nm => rows_ok (get_model nm (b_models n))) (written_names n).

Lemma emit_eq n :
  emit n = map (fun c => k_hash :: c) (b_comments n) ++ [generated_by; []] ++
           flat_map (fun nm => model_lines (b_models n) (get_model nm (b_models n))) (written_names n) ++
           flat_map (fun nm => blackbox_lines (get_model nm (b_models n))) (written_bbs n).
Proof.
  unfold emit, written_bbs, written_names. destruct (b_top n) as [[tn tr]|]; [|reflexivity].
  cbn zeta. do 3 f_equal. symmetry. apply flat_map_filter.
Qed.

(* ---------- reading a block of lines ---------- *)
Definition reads (md : mode) (ls : list line) (ss : list stmt) (md' : mode) : Prop :=
  forall rest r, classify_from md' rest = Ok r -> classify_from md (ls ++ rest) = Ok (ss ++ r).

Lemma reads_nil md : reads md [] [] md.
Proof. intros rest r H. exact H. Qed.

Lemma reads_app md a sa md1 b sb md2 : reads md a sa md1 -> reads md1 b sb md2 -> reads md (a ++ b) (sa ++ sb) md2.
Proof. intros A B rest r H. rewrite <- !app_assoc. apply A. apply B. exact H. Qed.

Lemma reads_line md l s md' : cl_line md l = Ok (s, md') -> reads md [l] s md'.
Proof. intros H rest r Hr. cbn [app classify_from]. rewrite H. cbn [bind]. rewrite Hr. reflexivity. Qed.

Lemma reads_cons md l s md1 ls ss md2 :
  cl_line md l = Ok (s, md1) -> reads md1 ls ss md2 -> reads md (l :: ls) (s ++ ss) md2.
Proof. intros A B. apply (reads_app md [l] s md1 ls ss md2); [apply reads_line; exact A|exact B]. Qed.

(* a body mode: anything inside a model *)
Definition body_mode (md : mode) : Prop := match md with MTop => False | _ => True end.

Lemma cl_kw_plain md l s md' : body_mode md ->
  match l with t :: _ => (str_eqb t k_hash || str_eqb t k_inputs || str_eqb t k_outputs || str_eqb t k_clock || str_eqb t k_param ||
                          str_eqb t k_cname || str_eqb t k_attr || is_row_tok t) = false | [] => False end ->
  cl_plain l = Ok (s, md') -> cl_line md l = Ok (s, md').
Proof.
  intros Hb Hk H. destruct l as [|t rest]; [destruct Hk|].
  apply orb_false_iff in Hk as [Hk Hrow]. apply orb_false_iff in Hk as [Hk Hattr].
  apply orb_false_iff in Hk as [Hk Hcname]. apply orb_false_iff in Hk as [Hk Hparam].
  apply orb_false_iff in Hk as [Hk Hclock]. apply orb_false_iff in Hk as [Hk Hout]. apply orb_false_iff in Hk as [Hhash Hin].
  destruct md; cbn [cl_line]; try contradiction.
  - unfold cl_hdr. rewrite Hhash, Hin, Hout, Hclock. exact H.
  - exact H.
  - unfold cl_rows, cl_info. rewrite Hhash, Hrow, Hparam, Hcname, Hattr. exact H.
  - unfold cl_info. rewrite Hhash, Hparam, Hcname, Hattr. exact H.
Qed.

Lemma row_not_kw t kw : is_row_tok t = true -> is_row_tok kw = false -> str_eqb t kw = false.
Proof. intros H1 H2. apply str_eqb_false. intro E. subst. congruence. Qed.

(* ---------- single lines, reader ---------- *)
Lemma rd_sub md ms m idx i : body_mode md -> (kind_is KSub i || kind_is KGate i) = true ->
  cl_line md (sub_line ms m idx i) =
  Ok ([SSub (match i_kind i with KGate => true | _ => false end) (i_ref i) (tl (tl (sub_line ms m idx i)))], MInfo).
Proof.
  intros Hb Hk. unfold sub_line. destruct (i_kind i) eqn:E; unfold kind_is in Hk; rewrite E in Hk; try discriminate;
    (apply cl_kw_plain; [exact Hb|vm_compute; reflexivity|reflexivity]).
Qed.

Lemma rd_names md ms m idx i : body_mode md ->
  cl_line md (names_line ms m idx i) = Ok ([SNames (tl (names_line ms m idx i))], MRows).
Proof. intro Hb. unfold names_line. apply cl_kw_plain; [exact Hb|vm_compute; reflexivity|reflexivity]. Qed.

Lemma rd_latch md m idx i : body_mode md ->
  cl_line md (latch_line m idx i) = Ok ([SLatch (tl (latch_line m idx i))], MInfo).
Proof. intro Hb. unfold latch_line. apply cl_kw_plain; [exact Hb|vm_compute; reflexivity|reflexivity]. Qed.

Lemma rd_end md : body_mode md -> cl_line md [k_end] = Ok ([SEnd], MTop).
Proof. intro Hb. apply cl_kw_plain; [exact Hb|vm_compute; reflexivity|reflexivity]. Qed.

Lemma rd_blackbox md : body_mode md -> cl_line md [k_blackbox] = Ok ([SBlackbox], MPlain).
Proof. intro Hb. apply cl_kw_plain; [exact Hb|vm_compute; reflexivity|reflexivity]. Qed.

Lemma rd_cover c : is_row_tok (fst c) = true -> cl_line MRows (cover_line c) = Ok ([SCover (fst c) (snd c)], MRows).
Proof.
  intro H. destruct c as [a [b|]]; cbn [cover_line fst snd cl_line cl_rows] in *; rewrite H; reflexivity.
Qed.

Lemma reads_covers cs : forallb (fun c => is_row_tok (fst c)) cs = true ->
  reads MRows (map cover_line cs) (map (fun c => SCover (fst c) (snd c)) cs) MRows.
Proof.
  induction cs as [|c cs IH]; cbn [map forallb]; intro H; [apply reads_nil|].
  apply andb_true_iff in H as [H1 H2].
  apply (reads_cons MRows _ [SCover (fst c) (snd c)] MRows); [apply rd_cover; exact H1|apply IH; exact H2].
Qed.

Definition info_mode (md : mode) : Prop := md = MInfo \/ md = MRows.

Lemma rd_cname md x : info_mode md -> cl_line md [k_cname; x] = Ok ([SCname x], MInfo).
Proof. intros [->| ->]; reflexivity. Qed.
Lemma rd_attr k v : cl_line MInfo [k_attr; k; v] = Ok ([SAttr k v], MInfo).
Proof. reflexivity. Qed.
Lemma rd_param k v : cl_line MInfo [k_param; k; v] = Ok ([SParam k v], MInfo).
Proof. reflexivity. Qed.

Lemma reads_attrs l : reads MInfo (map (fun kv : str * str => [k_attr; fst kv; snd kv]) l) (map (fun kv => SAttr (fst kv) (snd kv)) l) MInfo.
Proof.
  induction l as [|kv l IH]; cbn [map]; [apply reads_nil|].
  apply (reads_cons MInfo _ [SAttr (fst kv) (snd kv)] MInfo); [apply rd_attr|exact IH].
Qed.

Lemma reads_params l : reads MInfo (map (fun kv : str * str => [k_param; fst kv; snd kv]) l) (map (fun kv => SParam (fst kv) (snd kv)) l) MInfo.
Proof.
  induction l as [|kv l IH]; cbn [map]; [apply reads_nil|].
  apply (reads_cons MInfo _ [SParam (fst kv) (snd kv)] MInfo); [apply rd_param|exact IH].
Qed.

Lemma reads_info md i : info_mode md -> reads md (info_lines i) (info_stmts i) MInfo.
Proof.
  intro Hm. unfold info_lines, info_stmts.
  apply (reads_app md _ _ MInfo); [apply reads_line; apply rd_cname; exact Hm|].
  apply (reads_app MInfo _ _ MInfo); [apply reads_attrs|apply reads_params].
Qed.

Lemma reads_inst md ms m ni :
  body_mode md -> forallb (fun c => is_row_tok (fst c)) (i_covers (snd ni)) = true ->
  reads md (inst_lines ms m ni) (inst_stmts ms m ni) MInfo.
Proof.
  intros Hb Hc. destruct ni as [idx i]. cbn [snd] in Hc. unfold inst_lines, inst_stmts.
  destruct (i_kind i) eqn:E.
  - pose proof (rd_sub md ms m idx i Hb) as R. unfold kind_is in R. rewrite E in R. specialize (R eq_refl).
    apply (reads_app md _ _ MInfo); [apply reads_line; exact R|apply reads_info; left; reflexivity].
  - pose proof (rd_sub md ms m idx i Hb) as R. unfold kind_is in R. rewrite E in R. specialize (R eq_refl).
    apply (reads_app md _ _ MInfo); [apply reads_line; exact R|apply reads_info; left; reflexivity].
  - apply (reads_app md _ _ MRows); [apply reads_line; apply rd_names; exact Hb|].
    apply (reads_app MRows _ _ MRows); [apply reads_covers; exact Hc|apply reads_info; right; reflexivity].
  - apply (reads_app md _ _ MInfo); [apply reads_line; apply rd_latch; exact Hb|apply reads_info; left; reflexivity].
Qed.

Lemma reads_insts ms m l : forall md, body_mode md ->
  forallb (fun ni => forallb (fun c => is_row_tok (fst c)) (i_covers (snd ni))) l = true ->
  exists md', body_mode md' /\ reads md (flat_map (inst_lines ms m) l) (flat_map (inst_stmts ms m) l) md'.
Proof.
  induction l as [|ni l IH]; intros md Hb Hc; cbn [flat_map forallb] in *.
  - exists md. split; [exact Hb|apply reads_nil].
  - apply andb_true_iff in Hc as [H1 H2]. destruct (IH MInfo I H2) as [md' [Hb' Hr]].
    exists md'. split; [exact Hb'|]. eapply reads_app; [apply reads_inst; assumption|exact Hr].
Qed.

Lemma written_insts_eq {B} (ms : list model) (m : model) (f : nat * inst -> list B) :
  flat_map (fun k => flat_map f (filter (fun ni => kind_is k (snd ni)) (indexed (m_insts m)))) [KSub; KGate; KNames; KLatch]
  = flat_map f (written_insts m).
Proof. unfold written_insts. cbn [flat_map]. rewrite !flat_map_app. reflexivity. Qed.

Lemma in_written_insts m ni : In ni (written_insts m) -> In (snd ni) (m_insts m).
Proof.
  unfold written_insts. intro H. apply in_flat_map in H as [k [_ H]]. apply filter_In in H as [H _].
  unfold indexed in H. destruct ni as [idx i]. apply in_combine_r in H. exact H.
Qed.

Lemma reads_model ms m :
  forallb (fun i => forallb (fun c => is_row_tok (fst c)) (i_covers i)) (m_insts m) = true ->
  reads MTop (model_lines ms m) (model_stmts ms m) MTop.
Proof.
  intro Hc. unfold model_lines, model_stmts. destruct (m_lib m); try apply reads_nil.
  - (* LNone *)
    assert (Hc' : forallb (fun ni => forallb (fun c => is_row_tok (fst c)) (i_covers (snd ni))) (written_insts m) = true).
    { apply forallb_forall. intros ni Hin. rewrite forallb_forall in Hc. apply Hc. apply in_written_insts. exact Hin. }
    rewrite (written_insts_eq ms m (inst_lines ms m)).
    apply (reads_cons MTop _ [SModel (m_name m)] (MHdr 0)); [reflexivity|].
    apply (reads_cons (MHdr 0) _ [SInputs _] (MHdr 0)); [reflexivity|].
    apply (reads_cons (MHdr 0) _ [SOutputs _] (MHdr 0)); [reflexivity|].
    destruct (m_clock m) as [c|]; cbn [app].
    + apply (reads_cons (MHdr 0) _ [SClock c] (MHdr 0)); [reflexivity|].
      destruct (reads_insts ms m (written_insts m) (MHdr 0) I Hc') as [md' [Hb' Hr]].
      eapply reads_app; [exact Hr|]. apply (reads_cons md' _ [SEnd] MTop); [apply rd_end; exact Hb'|].
      apply (reads_cons MTop [] [] MTop); [reflexivity|apply reads_nil].
    + destruct (reads_insts ms m (written_insts m) (MHdr 0) I Hc') as [md' [Hb' Hr]].
      eapply reads_app; [exact Hr|]. apply (reads_cons md' _ [SEnd] MTop); [apply rd_end; exact Hb'|].
      apply (reads_cons MTop [] [] MTop); [reflexivity|apply reads_nil].
  - (* LWork *)
    assert (Hc' : forallb (fun ni => forallb (fun c => is_row_tok (fst c)) (i_covers (snd ni))) (written_insts m) = true).
    { apply forallb_forall. intros ni Hin. rewrite forallb_forall in Hc. apply Hc. apply in_written_insts. exact Hin. }
    rewrite (written_insts_eq ms m (inst_lines ms m)).
    apply (reads_cons MTop _ [SModel (m_name m)] (MHdr 0)); [reflexivity|].
    apply (reads_cons (MHdr 0) _ [SInputs _] (MHdr 0)); [reflexivity|].
    apply (reads_cons (MHdr 0) _ [SOutputs _] (MHdr 0)); [reflexivity|].
    destruct (m_clock m) as [c|]; cbn [app].
    + apply (reads_cons (MHdr 0) _ [SClock c] (MHdr 0)); [reflexivity|].
      destruct (reads_insts ms m (written_insts m) (MHdr 0) I Hc') as [md' [Hb' Hr]].
      eapply reads_app; [exact Hr|]. apply (reads_cons md' _ [SEnd] MTop); [apply rd_end; exact Hb'|].
      apply (reads_cons MTop [] [] MTop); [reflexivity|apply reads_nil].
    + destruct (reads_insts ms m (written_insts m) (MHdr 0) I Hc') as [md' [Hb' Hr]].
      eapply reads_app; [exact Hr|]. apply (reads_cons md' _ [SEnd] MTop); [apply rd_end; exact Hb'|].
      apply (reads_cons MTop [] [] MTop); [reflexivity|apply reads_nil].
Qed.

Lemma reads_bb m : reads MTop (blackbox_lines m) (bb_stmts m) MTop.
Proof.
  unfold blackbox_lines, bb_stmts.
  apply (reads_cons MTop _ [SModel (m_name m)] (MHdr 0)); [reflexivity|].
  apply (reads_cons (MHdr 0) _ [SInputs _] (MHdr 0)); [reflexivity|].
  apply (reads_cons (MHdr 0) _ [SOutputs _] (MHdr 0)); [reflexivity|].
  apply (reads_cons (MHdr 0) _ [SBlackbox] MPlain); [reflexivity|].
  apply (reads_cons MPlain _ [SEnd] MTop); [reflexivity|].
  apply (reads_cons MTop [] [] MTop); [reflexivity|apply reads_nil].
Qed.

Lemma reads_flat {A} (f : A -> list line) (g : A -> list stmt) l :
  (forall x, In x l -> reads MTop (f x) (g x) MTop) -> reads MTop (flat_map f l) (flat_map g l) MTop.
Proof.
  induction l as [|x l IH]; intro H; cbn [flat_map]; [apply reads_nil|].
  eapply reads_app; [apply H; left; reflexivity|apply IH; intros y Hy; apply H; right; exact Hy].
Qed.

Lemma reads_comments cs : reads MTop (map (fun c => k_hash :: c) cs) (map SComment cs) MTop.
Proof.
  induction cs as [|c cs IH]; cbn [map]; [apply reads_nil|].
  apply (reads_cons MTop _ [SComment c] MTop); [reflexivity|exact IH].
Qed.

Theorem classify_emit n : covers_ok n = true -> tokenized (emit n) = true -> classify (emit n) = Ok (stmts_of n).
Proof.
  intros Hc Ht. unfold classify. rewrite Ht. rewrite emit_eq.
  assert (R : reads MTop (map (fun c => k_hash :: c) (b_comments n) ++ [generated_by; []] ++
           flat_map (fun nm => model_lines (b_models n) (get_model nm (b_models n))) (written_names n) ++
           flat_map (fun nm => blackbox_lines (get_model nm (b_models n))) (written_bbs n)) (stmts_of n) MTop).
  { unfold stmts_of. eapply reads_app; [apply reads_comments|].
    apply (reads_cons MTop _ [SComment (tl generated_by)] MTop); [reflexivity|].
    apply (reads_cons MTop [] [] MTop); [reflexivity|].
    eapply reads_app.
    - apply reads_flat. intros nm Hin. apply reads_model. unfold covers_ok in Hc. rewrite forallb_forall in Hc. apply Hc. exact Hin.
    - apply reads_flat. intros nm _. apply reads_bb. }
  specialize (R [] [] eq_refl). rewrite !app_nil_r in R. exact R.
Qed.

(* ====================================================================== the grammar on the written file *)
Definition greads (g : gmode) (ls : list line) (ss : list stmt) (g' : gmode) : Prop :=
  forall rest r, grammar_from g' rest = Some r -> grammar_from g (ls ++ rest) = Some (ss ++ r).

Lemma greads_nil g : greads g [] [] g.
Proof. intros rest r H. exact H. Qed.

Lemma greads_app g a sa g1 b sb g2 : greads g a sa g1 -> greads g1 b sb g2 -> greads g (a ++ b) (sa ++ sb) g2.
Proof. intros A B rest r H. rewrite <- !app_assoc. apply A. apply B. exact H. Qed.

Lemma greads_line g l s g' : g_line g l = Some (s, g') -> greads g [l] s g'.
Proof. intros H rest r Hr. cbn [app grammar_from]. rewrite H, Hr. reflexivity. Qed.

Lemma greads_cons g l s g1 ls ss g2 :
  g_line g l = Some (s, g1) -> greads g1 ls ss g2 -> greads g (l :: ls) (s ++ ss) g2.
Proof. intros A B. apply (greads_app g [l] s g1 ls ss g2); [apply greads_line; exact A|exact B]. Qed.

Lemma gr_sub rows ms m idx i : (kind_is KSub i || kind_is KGate i) = true ->
  g_line (GBody rows) (sub_line ms m idx i) =
  Some ([SSub (match i_kind i with KGate => true | _ => false end) (i_ref i) (tl (tl (sub_line ms m idx i)))], GBody false).
Proof.
  intro Hk. unfold sub_line. destruct (i_kind i) eqn:E; unfold kind_is in Hk; rewrite E in Hk; try discriminate; reflexivity.
Qed.

Lemma gr_cover c : is_row_tok (fst c) = true -> g_line (GBody true) (cover_line c) = Some ([SCover (fst c) (snd c)], GBody true).
Proof.
  intro H. assert (K : forall kw, is_row_tok kw = false -> str_eqb (fst c) kw = false) by (intros kw Hk; apply row_not_kw; assumption).
  destruct c as [a [b|]]; cbn [cover_line fst snd g_line] in *;
    rewrite !K by (vm_compute; reflexivity); cbn [orb andb]; rewrite H; reflexivity.
Qed.

Lemma greads_covers cs : forallb (fun c => is_row_tok (fst c)) cs = true ->
  greads (GBody true) (map cover_line cs) (map (fun c => SCover (fst c) (snd c)) cs) (GBody true).
Proof.
  induction cs as [|c cs IH]; cbn [map forallb]; intro H; [apply greads_nil|].
  apply andb_true_iff in H as [H1 H2].
  apply (greads_cons (GBody true) _ [SCover (fst c) (snd c)] (GBody true)); [apply gr_cover; exact H1|apply IH; exact H2].
Qed.

Lemma greads_attrs l : greads (GBody false) (map (fun kv : str * str => [k_attr; fst kv; snd kv]) l) (map (fun kv => SAttr (fst kv) (snd kv)) l) (GBody false).
Proof.
  induction l as [|kv l IH]; cbn [map]; [apply greads_nil|].
  apply (greads_cons (GBody false) _ [SAttr (fst kv) (snd kv)] (GBody false)); [reflexivity|exact IH].
Qed.

Lemma greads_params l : greads (GBody false) (map (fun kv : str * str => [k_param; fst kv; snd kv]) l) (map (fun kv => SParam (fst kv) (snd kv)) l) (GBody false).
Proof.
  induction l as [|kv l IH]; cbn [map]; [apply greads_nil|].
  apply (greads_cons (GBody false) _ [SParam (fst kv) (snd kv)] (GBody false)); [reflexivity|exact IH].
Qed.

Lemma greads_info rows i : greads (GBody rows) (info_lines i) (info_stmts i) (GBody false).
Proof.
  unfold info_lines, info_stmts.
  apply (greads_app (GBody rows) _ _ (GBody false)); [apply greads_line; reflexivity|].
  apply (greads_app (GBody false) _ _ (GBody false)); [apply greads_attrs|apply greads_params].
Qed.

Lemma greads_inst rows ms m ni :
  forallb (fun c => is_row_tok (fst c)) (i_covers (snd ni)) = true ->
  greads (GBody rows) (inst_lines ms m ni) (inst_stmts ms m ni) (GBody false).
Proof.
  intros Hc. destruct ni as [idx i]. cbn [snd] in Hc. unfold inst_lines, inst_stmts.
  destruct (i_kind i) eqn:E.
  - pose proof (gr_sub rows ms m idx i) as R. unfold kind_is in R. rewrite E in R. specialize (R eq_refl).
    apply (greads_app (GBody rows) _ _ (GBody false)); [apply greads_line; exact R|apply greads_info].
  - pose proof (gr_sub rows ms m idx i) as R. unfold kind_is in R. rewrite E in R. specialize (R eq_refl).
    apply (greads_app (GBody rows) _ _ (GBody false)); [apply greads_line; exact R|apply greads_info].
  - apply (greads_app (GBody rows) _ _ (GBody true)); [apply greads_line; reflexivity|].
    apply (greads_app (GBody true) _ _ (GBody true)); [apply greads_covers; exact Hc|apply greads_info].
  - apply (greads_app (GBody rows) _ _ (GBody false)); [apply greads_line; reflexivity|apply greads_info].
Qed.

Lemma greads_insts ms m l : forall rows,
  forallb (fun ni => forallb (fun c => is_row_tok (fst c)) (i_covers (snd ni))) l = true ->
  exists rows', greads (GBody rows) (flat_map (inst_lines ms m) l) (flat_map (inst_stmts ms m) l) (GBody rows').
Proof.
  induction l as [|ni l IH]; intros rows Hc; cbn [flat_map forallb] in *.
  - exists rows. apply greads_nil.
  - apply andb_true_iff in Hc as [H1 H2]. destruct (IH false H2) as [rows' Hr].
    exists rows'. eapply greads_app; [apply greads_inst; assumption|exact Hr].
Qed.

Lemma greads_model ms m :
  forallb (fun i => forallb (fun c => is_row_tok (fst c)) (i_covers i)) (m_insts m) = true ->
  greads GTop (model_lines ms m) (model_stmts ms m) GTop.
Proof.
  intro Hc. unfold model_lines, model_stmts.
  assert (Hc' : forallb (fun ni => forallb (fun c => is_row_tok (fst c)) (i_covers (snd ni))) (written_insts m) = true).
  { apply forallb_forall. intros ni Hin. rewrite forallb_forall in Hc. apply Hc. apply in_written_insts. exact Hin. }
  assert (Hmain : greads GTop
     ([[k_model; m_name m];
       k_inputs :: flat_map (fun q => if is_in (p_dir q) then port_toks q else []) (m_ports m);
       k_outputs :: flat_map (fun q => if is_out (p_dir q) then port_toks q else []) (m_ports m)] ++
      match m_clock m with Some c => [k_clock :: c] | None => [] end ++
      flat_map (fun k => flat_map (inst_lines ms m) (filter (fun ni => kind_is k (snd ni)) (indexed (m_insts m))))
        [KSub; KGate; KNames; KLatch] ++ [[k_end]; []])
     ([SModel (m_name m);
       SInputs (flat_map (fun q => if is_in (p_dir q) then port_toks q else []) (m_ports m));
       SOutputs (flat_map (fun q => if is_out (p_dir q) then port_toks q else []) (m_ports m))] ++
      match m_clock m with Some c => [SClock c] | None => [] end ++
      flat_map (inst_stmts ms m) (written_insts m) ++ [SEnd]) GTop).
  { rewrite (written_insts_eq ms m (inst_lines ms m)).
    apply (greads_cons GTop _ [SModel (m_name m)] (GBody false)); [reflexivity|].
    apply (greads_cons (GBody false) _ [SInputs _] (GBody false)); [reflexivity|].
    apply (greads_cons (GBody false) _ [SOutputs _] (GBody false)); [reflexivity|].
    destruct (greads_insts ms m (written_insts m) false Hc') as [rows' Hr].
    destruct (m_clock m) as [c|]; cbn [app].
    + apply (greads_cons (GBody false) _ [SClock c] (GBody false)); [reflexivity|].
      eapply greads_app; [exact Hr|]. apply (greads_cons (GBody rows') _ [SEnd] GTop); [reflexivity|].
      apply (greads_cons GTop [] [] GTop); [reflexivity|apply greads_nil].
    + eapply greads_app; [exact Hr|]. apply (greads_cons (GBody rows') _ [SEnd] GTop); [reflexivity|].
      apply (greads_cons GTop [] [] GTop); [reflexivity|apply greads_nil]. }
  destruct (m_lib m); [exact Hmain|exact Hmain|apply greads_nil].
Qed.

Lemma greads_bb m : greads GTop (blackbox_lines m) (bb_stmts m) GTop.
Proof.
  unfold blackbox_lines, bb_stmts.
  apply (greads_cons GTop _ [SModel (m_name m)] (GBody false)); [reflexivity|].
  apply (greads_cons (GBody false) _ [SInputs _] (GBody false)); [reflexivity|].
  apply (greads_cons (GBody false) _ [SOutputs _] (GBody false)); [reflexivity|].
  apply (greads_cons (GBody false) _ [SBlackbox] (GBody false)); [reflexivity|].
  apply (greads_cons (GBody false) _ [SEnd] GTop); [reflexivity|].
  apply (greads_cons GTop [] [] GTop); [reflexivity|apply greads_nil].
Qed.

Lemma greads_flat {A} (f : A -> list line) (g : A -> list stmt) l :
  (forall x, In x l -> greads GTop (f x) (g x) GTop) -> greads GTop (flat_map f l) (flat_map g l) GTop.
Proof.
  induction l as [|x l IH]; intro H; cbn [flat_map]; [apply greads_nil|].
  eapply greads_app; [apply H; left; reflexivity|apply IH; intros y Hy; apply H; right; exact Hy].
Qed.

Lemma greads_comments cs : greads GTop (map (fun c => k_hash :: c) cs) (map SComment cs) GTop.
Proof.
  induction cs as [|c cs IH]; cbn [map]; [apply greads_nil|].
  apply (greads_cons GTop _ [SComment c] GTop); [reflexivity|exact IH].
Qed.

Theorem grammar_emit n : covers_ok n = true -> grammar (emit n) = Some (stmts_of n).
Proof.
  intro Hc. unfold grammar. rewrite emit_eq.
  assert (R : greads GTop (map (fun c => k_hash :: c) (b_comments n) ++ [generated_by; []] ++
           flat_map (fun nm => model_lines (b_models n) (get_model nm (b_models n))) (written_names n) ++
           flat_map (fun nm => blackbox_lines (get_model nm (b_models n))) (written_bbs n)) (stmts_of n) GTop).
  { unfold stmts_of. eapply greads_app; [apply greads_comments|].
    apply (greads_cons GTop _ [SComment (tl generated_by)] GTop); [reflexivity|].
    apply (greads_cons GTop [] [] GTop); [reflexivity|].
    eapply greads_app.
    - apply greads_flat. intros nm Hin. apply greads_model. unfold covers_ok in Hc. rewrite forallb_forall in Hc. apply Hc. exact Hin.
    - apply greads_flat. intros nm _. apply greads_bb. }
  specialize (R [] [] eq_refl). rewrite !app_nil_r in R. exact R.
Qed.
