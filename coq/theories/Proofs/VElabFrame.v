(* Engine `verilog`, document-level reader: frames. Every construct that does not RE-BASE a bundle (everything except
   a "defining" declaration: a port declaration in a body, an ANSI header port) is label-stable: in every definition,
   every pin keeps its port bit, every wire its net bit, every instance its name and reference, and connections are
   only appended (lmono / lstep). Hence whatever was connected - in the module being read or in any other definition -
   shows in the netlist value with the same meaning after any sequence of such constructs: wire declarations, assigns,
   instance creation with named or positional port maps (also of the definition itself or of a definition referenced
   elsewhere), defparams, the end of a module, add_blackbox_definitions and the deferred positional maps. *)
From Coq Require Import List ZArith Bool Arith Lia Permutation.
From SV Require Import Base.Base Fmt.VBits Fmt.VTop Fmt.VDoc Fmt.VElab Fmt.VSpec Fmt.VSem
  Proofs.VerilogLists Proofs.VerilogGrow Proofs.VElabBase Proofs.VElabInv Proofs.VElabWf Proofs.VElabExpr Proofs.VElabConn
  Proofs.VElabAssign Proofs.VElabNets Proofs.VElabTop Proofs.VElabStable Proofs.VElabVis.
Import ListNotations.
Open Scope Z_scope.

Record lmono (d d' : edef) : Prop := {
  lm_ports : forall pk o x, pin_bit (ed_ports d) pk o = Some x -> pin_bit (ed_ports d') pk o = Some x;
  lm_cables : forall w r, wire_label d w = Some r -> wire_label d' w = Some r;
  lm_insts : forall ii i, nth_error (ed_insts d) ii = Some i ->
               exists i', nth_error (ed_insts d') ii = Some i' /\ ei_ref i' = ei_ref i /\ ei_name i' = ei_name i;
  lm_conn : exists new, ed_conn d' = ed_conn d ++ new }.

Lemma lmono_refl d : lmono d d.
Proof. constructor; eauto. exists []. rewrite app_nil_r. reflexivity. Qed.

Lemma lmono_trans a b c : lmono a b -> lmono b c -> lmono a c.
Proof.
  intros [P1 C1 I1 (n1 & N1)] [P2 C2 I2 (n2 & N2)]. constructor; auto.
  - intros ii i Hi. destruct (I1 ii i Hi) as (i1 & H1 & R1 & M1). destruct (I2 ii i1 H1) as (i2 & H2 & R2 & M2).
    exists i2. split; [exact H2|split; congruence].
  - exists (n1 ++ n2). rewrite N2, N1, app_assoc. reflexivity.
Qed.

(* definition-level label-stable step *)
Definition lstepd (d d' : edef) : Prop := ed_name d' = ed_name d /\ (DInv d -> DInv d' /\ lmono d d').

Lemma lstepd_refl d : lstepd d d.
Proof. split; [reflexivity|]. intro I. split; [exact I|apply lmono_refl]. Qed.

Lemma lstepd_trans a b c : lstepd a b -> lstepd b c -> lstepd a c.
Proof.
  intros [N1 H1] [N2 H2]. split; [congruence|]. intro I. destruct (H1 I) as [I1 M1]. destruct (H2 I1) as [I2 M2].
  split; [exact I2|eapply lmono_trans; eassumption].
Qed.

Lemma lstepd_of_dstep d d' : dstep d d' -> (DInv d -> lmono d d') -> lstepd d d'.
Proof. intros [N I _] H. split; [exact N|]. intro Id. split; [apply I; exact Id|apply H; exact Id]. Qed.

Lemma fold_res_lstepd {A} (f : A -> edef -> result edef) l :
  (forall x d d', f x d = Ok d' -> lstepd d d') -> forall d d', fold_res f l d = Ok d' -> lstepd d d'.
Proof.
  intro Hf. apply fold_res_rel; [apply lstepd_refl|apply lstepd_trans|]. intros x s s' _. apply Hf.
Qed.

Lemma wire_label_blabel d w : wire_label d w =
  match nth_error (ed_cables d) (fst w) with
  | Some c => match blabel (ec_b c) (snd w) with Some i => Some (ec_name c, i) | None => None end
  | None => None end.
Proof. unfold wire_label, blabel. destruct (nth_error _ _) as [c|]; [|reflexivity]. destruct (index_of _ _); reflexivity. Qed.

Lemma pin_bit_blabel ps pk o : pin_bit ps pk o =
  match nth_error ps pk with
  | Some p => match blabel (ep_b p) o with Some i => Some (port_label pk p, i) | None => None end
  | None => None end.
Proof. unfold pin_bit, blabel. destruct (nth_error _ _) as [c|]; [|reflexivity]. destruct (index_of _ _); reflexivity. Qed.

Lemma cou_cable_lmono name l r ty d : DInv d -> lmono d (fst (cou_cable name l r ty false d)).
Proof.
  intro I. unfold cou_cable. destruct (find_cable name d) as [k|]; cbn [fst]; constructor; cbn [ed_ports ed_cables ed_insts ed_conn set_cables]; eauto;
    try (exists []; rewrite app_nil_r; reflexivity).
  - intros w r0. rewrite !wire_label_blabel. cbn [ed_cables set_cables].
    destruct (nth_error (ed_cables d) (fst w)) as [c|] eqn:C; [|discriminate].
    destruct (Nat.eq_dec (fst w) k) as [E|Hne].
    + rewrite E in *. rewrite (nth_upd_same _ _ _ _ C). cbn [ec_b ec_name].
      destruct (blabel (ec_b c) (snd w)) as [i|] eqn:B; [|discriminate].
      assert (W : wfb (ec_b c)) by (eapply (proj1 (Forall_forall _ _) (di_cables d I)); eapply nth_error_In; exact C).
      rewrite (blabel_extends _ _ _ _ W (update_cable_extends l r _ W) B). auto.
    + rewrite (nth_upd_other _ _ _ _ Hne), C. auto.
  - intros w r0. unfold wire_label. cbn [ed_cables set_cables].
    destruct (nth_error (ed_cables d) (fst w)) as [c|] eqn:C; [|discriminate]. rewrite (nth_error_app_keep _ _ _ _ C). auto.
Qed.

Lemma cou_port_lmono name l r dir d : DInv d -> lmono d (fst (cou_port name l r dir false d)).
Proof.
  intro I. unfold cou_port. destruct (find_port name d) as [k|]; cbn [fst]; constructor; cbn [ed_ports ed_cables ed_insts ed_conn set_ports]; eauto;
    try (exists []; rewrite app_nil_r; reflexivity).
  - intros pk o x. rewrite !pin_bit_blabel.
    destruct (nth_error (ed_ports d) pk) as [p|] eqn:P; [|discriminate].
    destruct (Nat.eq_dec pk k) as [E|Hne].
    + rewrite E in *. rewrite (nth_upd_same _ _ _ _ P). cbn [ep_b].
      destruct (blabel (ep_b p) o) as [i|] eqn:B; [|discriminate].
      assert (W : wfb (ep_b p)) by (eapply (proj1 (Forall_forall _ _) (di_ports d I)); eapply nth_error_In; exact P).
      rewrite (blabel_extends _ _ _ _ W (update_port_extends l r _ W) B). auto.
    + rewrite (nth_upd_other _ _ _ _ Hne), P. auto.
  - intros pk o x. unfold pin_bit.
    destruct (nth_error (ed_ports d) pk) as [p|] eqn:P; [|discriminate]. rewrite (nth_error_app_keep _ _ _ _ P). auto.
Qed.

Lemma add_port_lmono d p : lmono d (set_ports d (ed_ports d ++ [p])).
Proof.
  constructor; cbn [ed_ports ed_cables ed_insts ed_conn set_ports]; eauto; [|exists []; rewrite app_nil_r; reflexivity].
  intros pk o x. unfold pin_bit.
  destruct (nth_error (ed_ports d) pk) as [p0|] eqn:P; [|discriminate]. rewrite (nth_error_app_keep _ _ _ _ P). auto.
Qed.

Lemma set_cable_attrs_lmono k a d : lmono d (set_cable_attrs k a d).
Proof.
  unfold set_cable_attrs. constructor; cbn [ed_ports ed_cables ed_insts ed_conn set_cables]; eauto; [|exists []; rewrite app_nil_r; reflexivity].
  intros w r0. unfold wire_label. cbn [ed_cables set_cables].
  destruct (nth_error (ed_cables d) (fst w)) as [c|] eqn:C; [|discriminate].
  destruct (Nat.eq_dec (fst w) k) as [E|Hne].
  - rewrite E in *. rewrite (nth_upd_same _ _ _ _ C). cbn [ec_b ec_name]. auto.
  - rewrite (nth_upd_other _ _ _ _ Hne), C. auto.
Qed.

Lemma set_meta_lmono d lib prim params attrs : lmono d (set_meta d lib prim params attrs).
Proof. constructor; cbn; eauto. exists []. rewrite app_nil_r. reflexivity. Qed.

Lemma upd_inst_lmono k f d : (forall i, ei_name (f i) = ei_name i) -> (forall i, ei_ref (f i) = ei_ref i) ->
  lmono d (set_insts d (nth_upd k f (ed_insts d))).
Proof.
  intros Hn Hr. constructor; cbn [ed_ports ed_cables ed_insts ed_conn set_insts]; eauto; [|exists []; rewrite app_nil_r; reflexivity].
  intros ii i Hi. destruct (Nat.eq_dec ii k) as [->|Hne].
  - rewrite (nth_upd_same _ _ _ _ Hi). eauto.
  - rewrite (nth_upd_other _ _ _ _ Hne). eauto.
Qed.

Lemma connect_all_lmono l d d' : connect_all l d = Ok d' -> lmono d d'.
Proof.
  intro H. rewrite (connect_all_conn _ _ _ H). constructor; cbn [ed_ports ed_cables ed_insts ed_conn set_conn]; eauto.
Qed.

Lemma add_inst_lstepd i d d' k : add_inst i d = Ok (d', k) -> lstepd d d'.
Proof.
  intro H. destruct (add_inst_inv _ _ _ _ H) as (N & I & _ & _ & E). split; [exact N|]. intro Id. split; [apply I; exact Id|].
  unfold add_inst in H. destruct (find_inst _ d); [discriminate|]. inversion H; subst.
  constructor; cbn [ed_ports ed_cables ed_insts ed_conn set_insts]; eauto; [|exists []; rewrite app_nil_r; reflexivity].
  intros ii i0 Hi. exists i0. split; [apply nth_error_app_keep; exact Hi|auto].
Qed.

Lemma cou_cable_lstepd name l r ty d : lstepd d (fst (cou_cable name l r ty false d)).
Proof. apply lstepd_of_dstep; [apply cou_cable_dstep|apply cou_cable_lmono]. Qed.

Lemma cou_port_lstepd name l r dir d : lstepd d (fst (cou_port name l r dir false d)).
Proof. apply lstepd_of_dstep; [apply cou_port_dstep|apply cou_port_lmono]. Qed.

Lemma connect_all_lstepd l d d' : connect_all l d = Ok d' -> lstepd d d'.
Proof. intro H. apply lstepd_of_dstep; [eapply connect_all_dstep; exact H|intros _; eapply connect_all_lmono; exact H]. Qed.

Lemma var_inst_lstepd a d d' k : var_inst a d = Ok (d', k) -> lstepd d d'.
Proof.
  unfold var_inst. destruct (has_glob _); [discriminate|]. intro H. inversion H.
  pose proof (cou_cable_lstepd (atom_name a) (atom_l a) (atom_r a) None d) as X.
  destruct (cou_cable _ _ _ _ _ d). cbn in X. inversion H; subst. exact X.
Qed.

Lemma atom_wires_lstepd a d d' ws : atom_wires a d = Ok (d', ws) -> lstepd d d'.
Proof.
  unfold atom_wires. intro H. apply bind_ok in H. destruct H as ([d1 k] & H1 & H2).
  apply bind_ok in H2. destruct H2 as (w & _ & H3). inversion H3; subst. eapply var_inst_lstepd. exact H1.
Qed.

Lemma cat_wires_lstepd l : forall d d' ws, cat_wires l d = Ok (d', ws) -> lstepd d d'.
Proof.
  induction l as [|a l IH]; intros d d' ws H; cbn in H.
  - inversion H; subst. apply lstepd_refl.
  - apply bind_ok in H. destruct H as ([d1 w1] & H1 & H2). apply bind_ok in H2. destruct H2 as ([d2 w2] & H2 & H3).
    inversion H3; subst. eapply lstepd_trans; [eapply atom_wires_lstepd; exact H1|eapply IH; exact H2].
Qed.

Lemma expr_wires_lstepd e d d' ws : expr_wires e d = Ok (d', ws) -> lstepd d d'.
Proof.
  destruct e as [a|l]; cbn.
  - apply atom_wires_lstepd.
  - destruct l; [discriminate|]. apply cat_wires_lstepd.
Qed.

Lemma wire_decl_one_lstepd ty rg attrs name d d' : wire_decl_one ty rg attrs name d = Ok d' -> lstepd d d'.
Proof.
  unfold wire_decl_one. destruct (has_glob name); [discriminate|].
  pose proof (cou_cable_lstepd name (range_l rg) (range_r rg) (Some ty) d) as X1.
  destruct (cou_cable _ _ _ _ _ d) as [d1 ck]. cbn [fst] in X1. intro H. inversion H; subst.
  eapply lstepd_trans; [exact X1|]. apply lstepd_of_dstep; [apply set_cable_attrs_dstep|intros _; apply set_cable_attrs_lmono].
Qed.

Lemma wire_decl_lstepd ty rg attrs names d d' : wire_decl ty rg attrs names d = Ok d' -> lstepd d d'.
Proof.
  unfold wire_decl. destruct names as [|n rest]; [discriminate|]. intro H.
  apply bind_ok in H. destruct H as (d1 & H1 & H2).
  eapply lstepd_trans; [eapply wire_decl_one_lstepd; exact H1|]. revert H2. apply fold_res_lstepd.
  intros x a b. apply wire_decl_one_lstepd.
Qed.

Lemma assign_item_lstepd lhs rhs n d d' : assign_item lhs rhs n d = Ok d' -> lstepd d d'.
Proof.
  unfold assign_item. intro H.
  apply bind_ok in H. destruct H as ([d1 kl] & H1 & H).
  apply bind_ok in H. destruct H as ([d2 kr] & H2 & H).
  apply bind_ok in H. destruct H as (outs & _ & H).
  apply bind_ok in H. destruct H as (ins & _ & H).
  apply bind_ok in H. destruct H as ([d3 ii] & H3 & H).
  eapply lstepd_trans; [eapply var_inst_lstepd; exact H1|]. eapply lstepd_trans; [eapply var_inst_lstepd; exact H2|].
  eapply lstepd_trans; [eapply add_inst_lstepd; exact H3|]. eapply connect_all_lstepd; exact H.
Qed.
