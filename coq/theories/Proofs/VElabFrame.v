(* Engine `verilog`, document-level reader: frames. Every construct that does not RE-BASE a bundle (everything except
   a "defining" declaration: a port declaration in a body, an ANSI header port) is label-stable: in every definition,
   every pin keeps its port bit, every wire its net bit, every instance its name and reference, and connections are
   only appended (lmono / lstep). Hence whatever was connected - in the module being read or in any other definition -
   shows in the netlist value with the same meaning after any sequence of such constructs: wire declarations, assigns,
   instance creation with named or positional port maps (also of the definition itself or of a definition referenced
   elsewhere), defparams, the end of a module, add_blackbox_definitions and the deferred positional maps. *)
From Coq Require Import List ZArith Bool Arith Lia Permutation.
From SV Require Import Base.Base Fmt.VBits Fmt.VTop Fmt.VDoc Fmt.VElab Fmt.VSpec Fmt.VSem
  Proofs.VerilogLists Proofs.VerilogGrow Proofs.VElabBase Proofs.VElabInv Proofs.VElabWf Proofs.VElabExpr Proofs.VElabConn
  Proofs.VElabAssign Proofs.VElabNets Proofs.VElabTop Proofs.VElabStable Proofs.VElabVis.
Import ListNotations.
Open Scope Z_scope.

Record lmono (d d' : edef) : Prop := {
  lm_ports : forall pk o x, pin_bit (ed_ports d) pk o = Some x -> pin_bit (ed_ports d') pk o = Some x;
  lm_cables : forall w r, wire_label d w = Some r -> wire_label d' w = Some r;
  lm_insts : forall ii i, nth_error (ed_insts d) ii = Some i ->
               exists i', nth_error (ed_insts d') ii = Some i' /\ ei_ref i' = ei_ref i /\ ei_name i' = ei_name i;
  lm_conn : exists new, ed_conn d' = ed_conn d ++ new }.

Lemma lmono_refl d : lmono d d.
Proof. constructor; eauto. exists []. rewrite app_nil_r. reflexivity. Qed.

Lemma lmono_trans a b c : lmono a b -> lmono b c -> lmono a c.
Proof.
  intros [P1 C1 I1 (n1 & N1)] [P2 C2 I2 (n2 & N2)]. constructor; auto.
  - intros ii i Hi. destruct (I1 ii i Hi) as (i1 & H1 & R1 & M1). destruct (I2 ii i1 H1) as (i2 & H2 & R2 & M2).
    exists i2. split; [exact H2|split; congruence].
  - exists (n1 ++ n2). rewrite N2, N1, app_assoc. reflexivity.
Qed.

(* definition-level label-stable step *)
Definition lstepd (d d' : edef) : Prop := ed_name d' = ed_name d /\ (DInv d -> DInv d' /\ lmono d d').

Lemma lstepd_refl d : lstepd d d.
Proof. split; [reflexivity|]. intro I. split; [exact I|apply lmono_refl]. Qed.

Lemma lstepd_trans a b c : lstepd a b -> lstepd b c -> lstepd a c.
Proof.
  intros [N1 H1] [N2 H2]. split; [congruence|]. intro I. destruct (H1 I) as [I1 M1]. destruct (H2 I1) as [I2 M2].
  split; [exact I2|eapply lmono_trans; eassumption].
Qed.

Lemma lstepd_of_dstep d d' : dstep d d' -> (DInv d -> lmono d d') -> lstepd d d'.
Proof. intros [N I _] H. split; [exact N|]. intro Id. split; [apply I; exact Id|apply H; exact Id]. Qed.

Lemma fold_res_lstepd {A} (f : A -> edef -> result edef) l :
  (forall x d d', f x d = Ok d' -> lstepd d d') -> forall d d', fold_res f l d = Ok d' -> lstepd d d'.
Proof.
  intro Hf. apply fold_res_rel; [apply lstepd_refl|apply lstepd_trans|]. intros x s s' _. apply Hf.
Qed.

Lemma wire_label_blabel d w : wire_label d w =
  match nth_error (ed_cables d) (fst w) with
  | Some c => match blabel (ec_b c) (snd w) with Some i => Some (ec_name c, i) | None => None end
  | None => None end.
Proof. unfold wire_label, blabel. destruct (nth_error _ _) as [c|]; [|reflexivity]. destruct (index_of _ _); reflexivity. Qed.

Lemma pin_bit_blabel ps pk o : pin_bit ps pk o =
  match nth_error ps pk with
  | Some p => match blabel (ep_b p) o with Some i => Some (port_label pk p, i) | None => None end
  | None => None end.
Proof. unfold pin_bit, blabel. destruct (nth_error _ _) as [c|]; [|reflexivity]. destruct (index_of _ _); reflexivity. Qed.

Lemma cou_cable_lmono name l r ty d : DInv d -> lmono d (fst (cou_cable name l r ty false d)).
Proof.
  intro I. unfold cou_cable. destruct (find_cable name d) as [k|]; cbn [fst]; constructor; cbn [ed_ports ed_cables ed_insts ed_conn set_cables]; eauto;
    try (exists []; rewrite app_nil_r; reflexivity).
  - intros w r0. rewrite !wire_label_blabel. cbn [ed_cables set_cables].
    destruct (nth_error (ed_cables d) (fst w)) as [c|] eqn:C; [|discriminate].
    destruct (Nat.eq_dec (fst w) k) as [E|Hne].
    + rewrite E in *. rewrite (nth_upd_same _ _ _ _ C). cbn [ec_b ec_name].
      destruct (blabel (ec_b c) (snd w)) as [i|] eqn:B; [|discriminate].
      assert (W : wfb (ec_b c)) by (eapply (proj1 (Forall_forall _ _) (di_cables d I)); eapply nth_error_In; exact C).
      rewrite (blabel_extends _ _ _ _ W (update_cable_extends l r _ W) B). auto.
    + rewrite (nth_upd_other _ _ _ _ Hne), C. auto.
  - intros w r0. unfold wire_label. cbn [ed_cables set_cables].
    destruct (nth_error (ed_cables d) (fst w)) as [c|] eqn:C; [|discriminate]. rewrite (nth_error_app_keep _ _ _ _ C). auto.
Qed.

Lemma cou_port_lmono name l r dir d : DInv d -> lmono d (fst (cou_port name l r dir false d)).
Proof.
  intro I. unfold cou_port. destruct (find_port name d) as [k|]; cbn [fst]; constructor; cbn [ed_ports ed_cables ed_insts ed_conn set_ports]; eauto;
    try (exists []; rewrite app_nil_r; reflexivity).
  - intros pk o x. rewrite !pin_bit_blabel.
    destruct (nth_error (ed_ports d) pk) as [p|] eqn:P; [|discriminate].
    destruct (Nat.eq_dec pk k) as [E|Hne].
    + rewrite E in *. rewrite (nth_upd_same _ _ _ _ P). cbn [ep_b].
      destruct (blabel (ep_b p) o) as [i|] eqn:B; [|discriminate].
      assert (W : wfb (ep_b p)) by (eapply (proj1 (Forall_forall _ _) (di_ports d I)); eapply nth_error_In; exact P).
      rewrite (blabel_extends _ _ _ _ W (update_port_extends l r _ W) B). auto.
    + rewrite (nth_upd_other _ _ _ _ Hne), P. auto.
  - intros pk o x. unfold pin_bit.
    destruct (nth_error (ed_ports d) pk) as [p|] eqn:P; [|discriminate]. rewrite (nth_error_app_keep _ _ _ _ P). auto.
Qed.

Lemma add_port_lmono d p : lmono d (set_ports d (ed_ports d ++ [p])).
Proof.
  constructor; cbn [ed_ports ed_cables ed_insts ed_conn set_ports]; eauto; [|exists []; rewrite app_nil_r; reflexivity].
  intros pk o x. unfold pin_bit.
  destruct (nth_error (ed_ports d) pk) as [p0|] eqn:P; [|discriminate]. rewrite (nth_error_app_keep _ _ _ _ P). auto.
Qed.

Lemma set_cable_attrs_lmono k a d : lmono d (set_cable_attrs k a d).
Proof.
  unfold set_cable_attrs. constructor; cbn [ed_ports ed_cables ed_insts ed_conn set_cables]; eauto; [|exists []; rewrite app_nil_r; reflexivity].
  intros w r0. unfold wire_label. cbn [ed_cables set_cables].
  destruct (nth_error (ed_cables d) (fst w)) as [c|] eqn:C; [|discriminate].
  destruct (Nat.eq_dec (fst w) k) as [E|Hne].
  - rewrite E in *. rewrite (nth_upd_same _ _ _ _ C). cbn [ec_b ec_name]. auto.
  - rewrite (nth_upd_other _ _ _ _ Hne), C. auto.
Qed.

Lemma set_meta_lmono d lib prim params attrs : lmono d (set_meta d lib prim params attrs).
Proof. constructor; cbn; eauto. exists []. rewrite app_nil_r. reflexivity. Qed.

Lemma upd_inst_lmono k f d : (forall i, ei_name (f i) = ei_name i) -> (forall i, ei_ref (f i) = ei_ref i) ->
  lmono d (set_insts d (nth_upd k f (ed_insts d))).
Proof.
  intros Hn Hr. constructor; cbn [ed_ports ed_cables ed_insts ed_conn set_insts]; eauto; [|exists []; rewrite app_nil_r; reflexivity].
  intros ii i Hi. destruct (Nat.eq_dec ii k) as [->|Hne].
  - rewrite (nth_upd_same _ _ _ _ Hi). eauto.
  - rewrite (nth_upd_other _ _ _ _ Hne). eauto.
Qed.

Lemma connect_all_lmono l d d' : connect_all l d = Ok d' -> lmono d d'.
Proof.
  intro H. rewrite (connect_all_conn _ _ _ H). constructor; cbn [ed_ports ed_cables ed_insts ed_conn set_conn]; eauto.
Qed.

Lemma add_inst_lstepd i d d' k : add_inst i d = Ok (d', k) -> lstepd d d'.
Proof.
  intro H. destruct (add_inst_inv _ _ _ _ H) as (N & I & _ & _ & E). split; [exact N|]. intro Id. split; [apply I; exact Id|].
  unfold add_inst in H. destruct (find_inst _ d); [discriminate|]. inversion H; subst.
  constructor; cbn [ed_ports ed_cables ed_insts ed_conn set_insts]; eauto; [|exists []; rewrite app_nil_r; reflexivity].
  intros ii i0 Hi. exists i0. split; [apply nth_error_app_keep; exact Hi|auto].
Qed.

Lemma cou_cable_lstepd name l r ty d : lstepd d (fst (cou_cable name l r ty false d)).
Proof. apply lstepd_of_dstep; [apply cou_cable_dstep|apply cou_cable_lmono]. Qed.

Lemma cou_port_lstepd name l r dir d : lstepd d (fst (cou_port name l r dir false d)).
Proof. apply lstepd_of_dstep; [apply cou_port_dstep|apply cou_port_lmono]. Qed.

Lemma connect_all_lstepd l d d' : connect_all l d = Ok d' -> lstepd d d'.
Proof. intro H. apply lstepd_of_dstep; [eapply connect_all_dstep; exact H|intros _; eapply connect_all_lmono; exact H]. Qed.

Lemma var_inst_lstepd a d d' k : var_inst a d = Ok (d', k) -> lstepd d d'.
Proof.
  unfold var_inst. destruct (has_glob _); [discriminate|]. intro H. inversion H.
  pose proof (cou_cable_lstepd (atom_name a) (atom_l a) (atom_r a) None d) as X.
  destruct (cou_cable _ _ _ _ _ d). cbn in X. inversion H; subst. exact X.
Qed.

Lemma atom_wires_lstepd a d d' ws : atom_wires a d = Ok (d', ws) -> lstepd d d'.
Proof.
  unfold atom_wires. intro H. apply bind_ok in H. destruct H as ([d1 k] & H1 & H2).
  apply bind_ok in H2. destruct H2 as (w & _ & H3). inversion H3; subst. eapply var_inst_lstepd. exact H1.
Qed.

Lemma cat_wires_lstepd l : forall d d' ws, cat_wires l d = Ok (d', ws) -> lstepd d d'.
Proof.
  induction l as [|a l IH]; intros d d' ws H; cbn in H.
  - inversion H; subst. apply lstepd_refl.
  - apply bind_ok in H. destruct H as ([d1 w1] & H1 & H2). apply bind_ok in H2. destruct H2 as ([d2 w2] & H2 & H3).
    inversion H3; subst. eapply lstepd_trans; [eapply atom_wires_lstepd; exact H1|eapply IH; exact H2].
Qed.

Lemma expr_wires_lstepd e d d' ws : expr_wires e d = Ok (d', ws) -> lstepd d d'.
Proof.
  destruct e as [a|l]; cbn.
  - apply atom_wires_lstepd.
  - destruct l; [discriminate|]. apply cat_wires_lstepd.
Qed.

Lemma wire_decl_one_lstepd ty rg attrs name d d' : wire_decl_one ty rg attrs name d = Ok d' -> lstepd d d'.
Proof.
  unfold wire_decl_one. destruct (has_glob name); [discriminate|].
  pose proof (cou_cable_lstepd name (range_l rg) (range_r rg) (Some ty) d) as X1.
  destruct (cou_cable _ _ _ _ _ d) as [d1 ck]. cbn [fst] in X1. intro H. inversion H; subst.
  eapply lstepd_trans; [exact X1|]. apply lstepd_of_dstep; [apply set_cable_attrs_dstep|intros _; apply set_cable_attrs_lmono].
Qed.

Lemma wire_decl_lstepd ty rg attrs names d d' : wire_decl ty rg attrs names d = Ok d' -> lstepd d d'.
Proof.
  unfold wire_decl. destruct names as [|n rest]; [discriminate|]. intro H.
  apply bind_ok in H. destruct H as (d1 & H1 & H2).
  eapply lstepd_trans; [eapply wire_decl_one_lstepd; exact H1|]. revert H2. apply fold_res_lstepd.
  intros x a b. apply wire_decl_one_lstepd.
Qed.

Lemma assign_item_lstepd lhs rhs n d d' : assign_item lhs rhs n d = Ok d' -> lstepd d d'.
Proof.
  unfold assign_item. intro H.
  apply bind_ok in H. destruct H as ([d1 kl] & H1 & H).
  apply bind_ok in H. destruct H as ([d2 kr] & H2 & H).
  apply bind_ok in H. destruct H as (outs & _ & H).
  apply bind_ok in H. destruct H as (ins & _ & H).
  apply bind_ok in H. destruct H as ([d3 ii] & H3 & H).
  eapply lstepd_trans; [eapply var_inst_lstepd; exact H1|]. eapply lstepd_trans; [eapply var_inst_lstepd; exact H2|].
  eapply lstepd_trans; [eapply add_inst_lstepd; exact H3|]. eapply connect_all_lstepd; exact H.
Qed.

(* ================= the state ================= *)
Record lstep (s s' : estate) : Prop := {
  ls_names : exists extra, names s' = names s ++ extra;
  ls_defs : forall k, lmono (get_def k s) (get_def k s') }.

Lemma lstep_refl s : lstep s s.
Proof. constructor; [exists []; rewrite app_nil_r; reflexivity|intro k; apply lmono_refl]. Qed.

Lemma lstep_trans a b c : lstep a b -> lstep b c -> lstep a c.
Proof.
  intros [(e1 & N1) D1] [(e2 & N2) D2]. constructor.
  - exists (e1 ++ e2). rewrite N2, N1, app_assoc. reflexivity.
  - intro k. eapply lmono_trans; [apply D1|apply D2].
Qed.

(* a pin that shows as a port bit keeps showing as that port bit *)
Theorem pin_endpoint_lstep s s' k p e : lstep s s' ->
  pin_endpoint s (get_def k s) p = Some e -> pin_endpoint s' (get_def k s') p = Some e.
Proof.
  intros [(ex & N) D] H. pose proof (D k) as [P _ I _]. destruct p as [pk o|ii pk o]; cbn [pin_endpoint] in *.
  - destruct (pin_bit (ed_ports (get_def k s)) pk o) as [[lb i]|] eqn:B; [|discriminate]. rewrite (P _ _ _ B). exact H.
  - destruct (nth_error (ed_insts (get_def k s)) ii) as [i|] eqn:Hi; [|discriminate].
    destruct (I ii i Hi) as (i' & Hi' & R & M). rewrite Hi', R, M.
    destruct (ei_ref i) as [n|w]; cbn [is_assign ref_ports] in *; [|discriminate].
    destruct (find_def n s) as [j|] eqn:F; [|destruct pk; discriminate].
    unfold find_def in *. rewrite (find_idx_names_prefix n _ _ ex j N F).
    destruct (pin_bit (ed_ports (get_def j s)) pk o) as [[lb b]|] eqn:B; [|discriminate].
    rewrite (lm_ports _ _ (D j) _ _ _ B). exact H.
Qed.

Theorem lconn_lstep s s' k e r : lstep s s' ->
  In (Some e, Some r) (lconn s (get_def k s)) -> In (Some e, Some r) (lconn s' (get_def k s')).
Proof.
  intros L H. unfold lconn in *. apply in_map_iff in H. destruct H as ([p w] & E & Hin). cbn [fst snd] in E. injection E as E1 E2.
  apply in_map_iff. exists (p, w). cbn [fst snd]. split.
  - rewrite (pin_endpoint_lstep s s' k p e L E1), (lm_cables _ _ (ls_defs _ _ L k) w r E2). reflexivity.
  - destruct (lm_conn _ _ (ls_defs _ _ L k)) as (new & ->). apply in_app_iff. left. exact Hin.
Qed.

Definition AllD (s : estate) : Prop := forall k, DInv (get_def k s).

Lemma inv_alld s : Inv s -> AllD s.
Proof. intros I k. apply get_def_dinv. exact I. Qed.

(* in the netlist value: an endpoint on a net bit stays on that net bit *)
Theorem nets_lstep s s' k r e : AllD s -> AllD s' -> lstep s s' ->
  In e (net_of r (abs_def s (get_def k s))) -> In e (net_of r (abs_def s' (get_def k s'))).
Proof.
  intros A A' L H. rewrite (net_of_lconn s' _ r e (A' k)). rewrite (net_of_lconn s _ r e (A k)) in H.
  eapply lconn_lstep; eassumption.
Qed.

Definition LS (s s' : estate) : Prop := AllD s -> lstep s s' /\ AllD s'.

Lemma LS_refl s : LS s s.
Proof. intro A. split; [apply lstep_refl|exact A]. Qed.

Lemma LS_trans a b c : LS a b -> LS b c -> LS a c.
Proof. intros H1 H2 A. destruct (H1 A) as [L1 A1]. destruct (H2 A1) as [L2 A2]. split; [eapply lstep_trans; eassumption|exact A2]. Qed.

Lemma fold_res_LS {A} (f : A -> estate -> result estate) l :
  (forall x s s', In x l -> f x s = Ok s' -> LS s s') -> forall s s', fold_res f l s = Ok s' -> LS s s'.
Proof. apply fold_res_rel; [apply LS_refl|apply LS_trans]. Qed.

Lemma same_defs_LS s s' : st_defs s' = st_defs s -> LS s s'.
Proof.
  intros E A. assert (G : forall k, get_def k s' = get_def k s) by (intro k; unfold get_def; rewrite E; reflexivity).
  split; [constructor|].
  - exists []. unfold names. rewrite E, app_nil_r. reflexivity.
  - intro k. rewrite G. apply lmono_refl.
  - intro k. rewrite G. apply A.
Qed.

Lemma put_def_LS k d' s : lstepd (get_def k s) d' -> LS s (put_def k d' s).
Proof.
  intros [Nm H] A. destruct (le_lt_dec (length (st_defs s)) k) as [Ho|Hk]; [rewrite put_def_out by exact Ho; split; [apply lstep_refl|exact A]|].
  destruct (H (A k)) as [I' M]. split; [constructor|].
  - exists []. rewrite app_nil_r. apply names_put. exact Nm.
  - intro j. destruct (Nat.eq_dec j k) as [->|Hne]; [rewrite get_put_same by exact Hk; exact M|].
    rewrite get_put_other by exact Hne. apply lmono_refl.
  - intro j. destruct (Nat.eq_dec j k) as [->|Hne]; [rewrite get_put_same by exact Hk; exact I'|].
    rewrite get_put_other by exact Hne. apply A.
Qed.

Lemma upd_def_LS k f s : lstepd (get_def k s) (f (get_def k s)) -> LS s (upd_def k f s).
Proof. rewrite upd_def_put. apply put_def_LS. Qed.

Lemma lift_LS cur f s s' : (forall d d', f d = Ok d' -> lstepd d d') -> lift cur f s = Ok s' -> LS s s'.
Proof.
  intros H1 H. unfold lift in H. apply bind_ok in H. destruct H as (d & Hd & H). inversion H; subst.
  apply put_def_LS. eapply H1. exact Hd.
Qed.

Lemma lmono_dummy d : lmono dummy_def d -> True.
Proof. auto. Qed.

Lemma get_blackbox_LS name s s' k : get_blackbox name s = (s', k) -> LS s s'.
Proof.
  unfold get_blackbox. destruct (find_def name s) as [j|]; intro H; inversion H; subst; [apply LS_refl|]. intro A.
  assert (G : forall j, (j < length (st_defs s))%nat -> get_def j (set_defs s (st_defs s ++ [empty_def name])) = get_def j s).
  { intros j Hj. unfold get_def. cbn. apply app_nth1. exact Hj. }
  assert (G2 : forall j, (length (st_defs s) <= j)%nat -> get_def j s = dummy_def) by (intros j Hj; unfold get_def; apply nth_overflow; exact Hj).
  assert (G3 : forall j, (length (st_defs s) <= j)%nat -> ed_conn (get_def j (set_defs s (st_defs s ++ [empty_def name]))) = [] /\
                 DInv (get_def j (set_defs s (st_defs s ++ [empty_def name])))).
  { intros j Hj. unfold get_def. cbn. destruct (Nat.eq_dec j (length (st_defs s))) as [->|Hne].
    - rewrite app_nth2, Nat.sub_diag by lia. cbn. split; [reflexivity|apply dinv_empty].
    - rewrite nth_overflow by (rewrite app_length; cbn; lia). split; [reflexivity|apply dinv_empty]. }
  split; [constructor|].
  - exists [name]. unfold names. cbn. rewrite map_app. reflexivity.
  - intro j. destruct (lt_dec j (length (st_defs s))) as [Hj|Hj]; [rewrite G by exact Hj; apply lmono_refl|].
    rewrite (G2 j) by lia. constructor; cbn.
    + intros pk o x Hx. destruct pk; discriminate.
    + intros w r Hx. unfold wire_label in Hx. cbn in Hx. destruct (fst w); discriminate.
    + intros ii i Hx. destruct ii; discriminate.
    + exists []. cbn [app]. apply (proj1 (G3 j ltac:(lia))).
  - intro j. destruct (lt_dec j (length (st_defs s))) as [Hj|Hj]; [rewrite G by exact Hj; apply A|apply (G3 j); lia].
Qed.

(* ---------- port maps: any instance, any referenced definition (the definition itself included) ---------- *)
Lemma named_conn_LS cur ii rk pc s s' : named_conn cur ii rk pc s = Ok s' -> LS s s'.
Proof.
  unfold named_conn. destruct pc as [pname [e|]]; destruct (has_glob pname); try discriminate; intros H.
  - apply bind_ok in H. destruct H as ([d1 ws] & H1 & H).
    set (s1 := put_def cur d1 s) in *.
    pose proof (cou_port_lstepd pname (Some (Z.of_nat (length ws) - 1)%Z) (Some 0%Z) None (get_def rk s1)) as X.
    destruct (cou_port _ _ _ _ _ (get_def rk s1)) as [rd1 pk]. cbn [fst] in X.
    set (s2 := put_def rk rd1 s1) in *.
    apply bind_ok in H. destruct H as (calls & _ & H). apply bind_ok in H. destruct H as (d2 & H2 & H). inversion H; subst s'. clear H.
    eapply LS_trans; [apply put_def_LS; eapply expr_wires_lstepd; exact H1|].
    eapply LS_trans; [apply (put_def_LS rk rd1 s1 X)|]. apply put_def_LS. eapply connect_all_lstepd. exact H2.
  - inversion H; subst. apply upd_def_LS. apply cou_port_lstepd.
Qed.

Lemma add_port_lstepd d b : wfb b -> lstepd d (set_ports d (ed_ports d ++ [{| ep_name := None; ep_dir := None; ep_b := b |}])).
Proof. intro W. apply lstepd_of_dstep; [apply add_unnamed_port_dstep; exact W|intros _; apply add_port_lmono]. Qed.

Lemma pos_conn_LS cur ii rk fresh index oe s s' : pos_conn cur ii rk fresh index oe s = Ok s' -> LS s s'.
Proof.
  unfold pos_conn. intros H. destruct oe as [e|].
  - apply bind_ok in H. destruct H as ([d1 ws] & H1 & H).
    set (s1 := put_def cur d1 s) in *.
    assert (K : forall s2 pk, LS s1 s2 ->
              (let* calls := aligned (POuter ii pk) (b_items (port_bundle pk (get_def rk s2))) ws in
               let* d2 := connect_all calls (get_def cur s2) in Ok (put_def cur d2 s2)) = Ok s' -> LS s s').
    { intros s2 pk V2 H0. apply bind_ok in H0. destruct H0 as (calls & _ & H0). apply bind_ok in H0. destruct H0 as (d2 & H2 & H0).
      inversion H0; subst s'. clear H0.
      eapply LS_trans; [apply put_def_LS; eapply expr_wires_lstepd; exact H1|]. eapply LS_trans; [exact V2|].
      apply put_def_LS. eapply connect_all_lstepd. exact H2. }
    destruct fresh; cbv beta iota in H.
    + eapply K; [|exact H]. apply put_def_LS. apply add_port_lstepd. apply new_bundle_wfb.
    + eapply K; [apply LS_refl|exact H].
  - destruct fresh; inversion H; subst; [|apply LS_refl]. apply put_def_LS. apply add_port_lstepd. apply new_bundle_wfb.
Qed.

Lemma inst_item_LS cur m i params attrs conns s s' : inst_item cur m i params attrs conns s = Ok s' -> LS s s'.
Proof.
  unfold inst_item. intros H.
  destruct (get_blackbox m s) as [s1 rk] eqn:G.
  destruct (_ && _); [destruct (parents_of _ _); [destruct (forallb _ _)|]; discriminate|].
  set (s2 := elect_step cur rk s1) in *.
  assert (D2 : st_defs s2 = st_defs s1) by (unfold s2, elect_step; destruct (st_tops s1); reflexivity).
  apply bind_ok in H. destruct H as ([d1 ii] & H1 & H).
  set (s3 := set_curinst (put_def cur d1 s2) (Some (cur, ii))) in *.
  apply bind_ok in H. destruct H as (s4 & H4 & H). inversion H; subst s'. clear H.
  assert (V4 : LS s3 s4).
  { destruct conns as [l|l].
    - revert H4. apply fold_res_LS. intros x a b _. apply named_conn_LS.
    - inversion H4; subst s4. apply same_defs_LS. reflexivity. }
  eapply LS_trans; [eapply get_blackbox_LS; exact G|]. eapply LS_trans; [apply same_defs_LS; exact D2|].
  eapply LS_trans; [apply (put_def_LS cur d1 s2); eapply add_inst_lstepd; exact H1|].
  eapply LS_trans; [apply (same_defs_LS (put_def cur d1 s2) s3); reflexivity|].
  eapply LS_trans; [exact V4|]. apply upd_def_LS. apply lstepd_of_dstep; [apply upd_inst_dstep; reflexivity|intros _; apply upd_inst_lmono; reflexivity].
Qed.

Lemma defparam_item_LS cur i k v s s' : defparam_item cur i k v s = Ok s' -> LS s s'.
Proof.
  unfold defparam_item. destruct (st_curinst s) as [[cd ci]|]; [|discriminate]. intros H.
  apply bind_ok in H. destruct H as (tgt & _ & H). inversion H; subst.
  apply upd_def_LS. apply lstepd_of_dstep; [apply upd_inst_dstep; reflexivity|intros _; apply upd_inst_lmono; reflexivity].
Qed.

(* every item of a module body except a port declaration *)
Definition not_port_decl (it : vitem) : Prop := match it with IPortDecl _ _ _ _ _ => False | _ => True end.

Theorem body_item_LS cur it s s' : not_port_decl it -> body_item cur it s = Ok s' -> LS s s'.
Proof.
  destruct it as [dir ty rg nms at_|ty rg nms at_|m i ps at_ conns|i k v|lhs rhs|]; cbn [body_item not_port_decl]; intros NP H.
  - contradiction.
  - eapply lift_LS; [|exact H]. intros a b. apply wire_decl_lstepd.
  - eapply inst_item_LS; exact H.
  - eapply defparam_item_LS; exact H.
  - apply bind_ok in H. destruct H as (s1 & H1 & H). inversion H; subst.
    eapply LS_trans; [eapply lift_LS; [|exact H1]; intros a b; apply assign_item_lstepd|]. apply same_defs_LS. reflexivity.
  - discriminate.
Qed.

Theorem body_LS cur items s s' : Forall not_port_decl items -> fold_res (body_item cur) items s = Ok s' -> LS s s'.
Proof.
  intros F. apply fold_res_LS. intros x a b Hx. apply body_item_LS. eapply (proj1 (Forall_forall _ _) F). exact Hx.
Qed.

(* ---------- the end of the file ---------- *)
Lemma close_blackboxes_LS s : LS s (close_blackboxes s).
Proof.
  intro A.
  set (f := fun d => match ed_lib d with None => set_meta d (Some true) true (ed_params d) (ed_attrs d) | Some _ => d end).
  assert (Nm : names (close_blackboxes s) = names s).
  { unfold names, close_blackboxes. cbn. rewrite map_map. apply map_ext. intro d. destruct (ed_lib d); reflexivity. }
  assert (G : forall k, get_def k (close_blackboxes s) = get_def k s \/
                        get_def k (close_blackboxes s) = set_meta (get_def k s) (Some true) true (ed_params (get_def k s)) (ed_attrs (get_def k s))).
  { intro k. unfold get_def, close_blackboxes. cbn. fold f. destruct (lt_dec k (length (st_defs s))) as [Hk|Hk].
    - rewrite (nth_indep _ dummy_def (f dummy_def)) by (rewrite map_length; exact Hk). rewrite map_nth.
      unfold f. destruct (ed_lib (nth k (st_defs s) dummy_def)); [left; reflexivity|right; reflexivity].
    - left. rewrite !nth_overflow by (try rewrite map_length; lia). reflexivity. }
  split; [constructor|].
  - exists []. rewrite app_nil_r. exact Nm.
  - intro k. destruct (G k) as [->| ->]; [apply lmono_refl|apply set_meta_lmono].
  - intro k. destruct (G k) as [->| ->]; [apply A|apply (ds_inv _ _ (set_meta_dstep _ _ _ _ _)); apply A].
Qed.

Lemma pending_one_LS p s s' : pending_one p s = Ok s' -> LS s s'.
Proof.
  destruct p as [[[cur ii] rk] l]. unfold pending_one. apply fold_res_LS. intros x a b _. apply pos_conn_LS.
Qed.

(* add_blackbox_definitions and connect_implicitly_mapped_ports: from the state after the last module to the final one *)
Theorem run_tail_LS s1 s : fold_res pending_one (st_pending (close_blackboxes s1)) (close_blackboxes s1) = Ok s -> LS s1 s.
Proof.
  intro H. eapply LS_trans; [apply close_blackboxes_LS|]. revert H. apply fold_res_LS. intros x a b _. apply pending_one_LS.
Qed.

(* read off the netlist value *)
Theorem LS_nets s s' k r e : Inv s -> LS s s' ->
  In e (net_of r (abs_def s (get_def k s))) -> In e (net_of r (abs_def s' (get_def k s'))).
Proof. intros I L. destruct (L (inv_alld s I)) as [L' A']. apply nets_lstep; [apply inv_alld; exact I|exact A'|exact L']. Qed.

Theorem body_nets_persist cur items s s' k r e : Inv s -> Forall not_port_decl items ->
  fold_res (body_item cur) items s = Ok s' ->
  In e (net_of r (abs_def s (get_def k s))) -> In e (net_of r (abs_def s' (get_def k s'))).
Proof. intros I F H. eapply LS_nets; [exact I|eapply body_LS; eassumption]. Qed.

Theorem end_of_file_nets_persist s1 s k r e : Inv s1 ->
  fold_res pending_one (st_pending (close_blackboxes s1)) (close_blackboxes s1) = Ok s ->
  In e (net_of r (abs_def s1 (get_def k s1))) -> In e (net_of r (abs_def s (get_def k s))).
Proof. intros I H. eapply LS_nets; [exact I|eapply run_tail_LS; exact H]. Qed.
