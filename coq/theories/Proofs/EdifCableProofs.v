(* Proofs about Fmt/EdifCable.v:
   (1) EdifParser.multibit_add_cable assembles the one-wire nets "name[i]" of a bus into one
       cable whose wire at position i - lower is the net of bit i, whatever the order of the bits
       and whichever bits are missing, PROVIDED the bit indices are distinct;
   (2) the (member port x) index written by the EDIF composer is the position of the pin in
       port.pins, which is what the reader's port.pins[x] inverts. *)
From Coq Require Import List Arith NArith ZArith Bool Lia Permutation.
From SV Require Import Base.Base Fmt.EdifCable.
Import ListNotations.

(* ------------------------------------------------------------------------------------------ *)
(* Specification vocabulary                                                                    *)

Definition idxs {P} (bits : list (N * list P)) : list N := map fst bits.

Definition min_idx (l : list N) : N :=
  match l with [] => 0%N | x :: t => fold_left N.min t x end.
Definition max_idx (l : list N) : N :=
  match l with [] => 0%N | x :: t => fold_left N.max t x end.

Fixpoint lookup {P} (i : N) (bits : list (N * list P)) : list P :=
  match bits with
  | [] => []
  | (j, w) :: bits' => if (j =? i)%N then w else lookup i bits'
  end.

(* the pins of ALL nets given for bit i, in file order (a bit may be given by several nets) *)
Fixpoint gather {P} (i : N) (bits : list (N * list P)) : list P :=
  match bits with
  | [] => []
  | (j, w) :: bits' => if (j =? i)%N then w ++ gather i bits' else gather i bits'
  end.

(* ------------------------------------------------------------------------------------------ *)
(* min / max                                                                                   *)

Lemma fold_min_spec t : forall x,
  (fold_left N.min t x = x \/ In (fold_left N.min t x) t) /\
  (fold_left N.min t x <= x)%N /\ (forall j, In j t -> (fold_left N.min t x <= j)%N).
Proof.
  induction t as [|a t IH]; intros x; simpl.
  - split; [auto|]. split; [lia|]. intros j [].
  - destruct (IH (N.min x a)) as (Hin & Hle & Hall). split; [|split].
    + destruct Hin as [E|Hin]; [|auto]. rewrite E.
      destruct (N.min_spec x a) as [[_ E']|[_ E']]; rewrite E'; auto.
    + lia.
    + intros j [<-|Hj]; [lia|auto].
Qed.

Lemma fold_max_spec t : forall x,
  (fold_left N.max t x = x \/ In (fold_left N.max t x) t) /\
  (x <= fold_left N.max t x)%N /\ (forall j, In j t -> (j <= fold_left N.max t x)%N).
Proof.
  induction t as [|a t IH]; intros x; simpl.
  - split; [auto|]. split; [lia|]. intros j [].
  - destruct (IH (N.max x a)) as (Hin & Hle & Hall). split; [|split].
    + destruct Hin as [E|Hin]; [|auto]. rewrite E.
      destruct (N.max_spec x a) as [[_ E']|[_ E']]; rewrite E'; auto.
    + lia.
    + intros j [<-|Hj]; [lia|auto].
Qed.

Lemma min_idx_spec l : l <> [] ->
  In (min_idx l) l /\ forall j, In j l -> (min_idx l <= j)%N.
Proof.
  destruct l as [|x t]; [congruence|]. intros _. unfold min_idx.
  destruct (fold_min_spec t x) as (Hin & Hle & Hall). split.
  - destruct Hin as [E|Hin]; [left; auto|right; auto].
  - intros j [<-|Hj]; auto.
Qed.

Lemma max_idx_spec l : l <> [] ->
  In (max_idx l) l /\ forall j, In j l -> (j <= max_idx l)%N.
Proof.
  destruct l as [|x t]; [congruence|]. intros _. unfold max_idx.
  destruct (fold_max_spec t x) as (Hin & Hle & Hall). split.
  - destruct Hin as [E|Hin]; [left; auto|right; auto].
  - intros j [<-|Hj]; auto.
Qed.

Lemma min_idx_unique l m : In m l -> (forall j, In j l -> (m <= j)%N) -> min_idx l = m.
Proof.
  intros Hin Hall. assert (Hne : l <> []) by (intros ->; destruct Hin).
  destruct (min_idx_spec l Hne) as (Hin' & Hall').
  specialize (Hall _ Hin'). specialize (Hall' _ Hin). lia.
Qed.

Lemma max_idx_unique l m : In m l -> (forall j, In j l -> (j <= m)%N) -> max_idx l = m.
Proof.
  intros Hin Hall. assert (Hne : l <> []) by (intros ->; destruct Hin).
  destruct (max_idx_spec l Hne) as (Hin' & Hall').
  specialize (Hall _ Hin'). specialize (Hall' _ Hin). lia.
Qed.

Lemma min_idx_perm l l' : Permutation l l' -> min_idx l = min_idx l'.
Proof.
  intros Hp. destruct l as [|x t].
  - apply Permutation_nil in Hp. subst. reflexivity.
  - assert (Hne : x :: t <> []) by congruence.
    destruct (min_idx_spec _ Hne) as (Hin & Hall). symmetry. apply min_idx_unique.
    + eapply Permutation_in; eauto.
    + intros j Hj. apply Hall. eapply Permutation_in; [apply Permutation_sym|]; eauto.
Qed.

Lemma max_idx_perm l l' : Permutation l l' -> max_idx l = max_idx l'.
Proof.
  intros Hp. destruct l as [|x t].
  - apply Permutation_nil in Hp. subst. reflexivity.
  - assert (Hne : x :: t <> []) by congruence.
    destruct (max_idx_spec _ Hne) as (Hin & Hall). symmetry. apply max_idx_unique.
    + eapply Permutation_in; eauto.
    + intros j Hj. apply Hall. eapply Permutation_in; [apply Permutation_sym|]; eauto.
Qed.

(* ------------------------------------------------------------------------------------------ *)
(* lookup                                                                                      *)

Section Lookup.
Context {P : Type}.
Implicit Types bits pre : list (N * list P).

Lemma lookup_notin i bits : ~ In i (idxs bits) -> lookup i bits = [].
Proof.
  induction bits as [|[j w] t IH]; simpl; intros H; [reflexivity|].
  destruct (N.eqb_spec j i); [exfalso; auto|]. apply IH. auto.
Qed.

Lemma lookup_in i w bits : NoDup (idxs bits) -> In (i, w) bits -> lookup i bits = w.
Proof.
  induction bits as [|[j v] t IH]; simpl; intros Hnd Hin; [destruct Hin|].
  inversion Hnd as [|? ? Hnot Hnd']; subst.
  destruct Hin as [E|Hin].
  - inversion E; subst. rewrite N.eqb_refl. reflexivity.
  - destruct (N.eqb_spec j i) as [->|Hne]; [|auto].
    exfalso. apply Hnot. change i with (fst (i, w)). apply in_map. exact Hin.
Qed.

Lemma lookup_snoc k i w pre : ~ In i (idxs pre) ->
  lookup k (pre ++ [(i, w)]) = if (k =? i)%N then w else lookup k pre.
Proof.
  induction pre as [|[j v] t IH]; simpl; intros Hnot.
  - rewrite (N.eqb_sym i k). destruct (k =? i)%N; reflexivity.
  - destruct (N.eqb_spec j k) as [->|Hne].
    + destruct (N.eqb_spec k i) as [->|]; [exfalso; auto|reflexivity].
    + apply IH. auto.
Qed.

Lemma lookup_perm i bits bits' :
  NoDup (idxs bits) -> Permutation bits bits' -> lookup i bits = lookup i bits'.
Proof.
  intros Hnd Hp.
  assert (Hnd' : NoDup (idxs bits')).
  { eapply Permutation_NoDup; [|exact Hnd]. apply Permutation_map. exact Hp. }
  destruct (in_dec N.eq_dec i (idxs bits)) as [Hin|Hnot].
  - unfold idxs in Hin. apply in_map_iff in Hin. destruct Hin as ([j w] & E & Hin).
    simpl in E. subst j.
    rewrite (lookup_in i w bits Hnd Hin).
    symmetry. apply lookup_in; [exact Hnd'|]. eapply Permutation_in; eauto.
  - rewrite (lookup_notin i bits Hnot). symmetry. apply lookup_notin.
    intros Hin. apply Hnot. eapply Permutation_in; [|exact Hin].
    apply Permutation_sym. apply Permutation_map. exact Hp.
Qed.

Lemma gather_notin i bits : ~ In i (idxs bits) -> gather i bits = [].
Proof.
  induction bits as [|[j w] t IH]; simpl; intros H; [reflexivity|].
  destruct (N.eqb_spec j i); [exfalso; auto|]. apply IH. auto.
Qed.

(* when every bit is given once, gather is lookup *)
Lemma gather_lookup i bits : NoDup (idxs bits) -> gather i bits = lookup i bits.
Proof.
  induction bits as [|[j w] t IH]; simpl; intros Hnd; [reflexivity|].
  inversion Hnd as [|? ? Hnot Hnd']; subst.
  destruct (N.eqb_spec j i) as [->|Hne]; [|auto].
  rewrite gather_notin by exact Hnot. apply app_nil_r.
Qed.

Lemma gather_snoc k i w pre :
  gather k (pre ++ [(i, w)]) = if (k =? i)%N then gather k pre ++ w else gather k pre.
Proof.
  induction pre as [|[j v] t IH]; simpl.
  - rewrite (N.eqb_sym i k). destruct (k =? i)%N; [apply app_nil_r|reflexivity].
  - rewrite IH. destruct (j =? k)%N; destruct (k =? i)%N; try reflexivity. apply app_assoc.
Qed.
End Lookup.

(* ------------------------------------------------------------------------------------------ *)
(* list helpers                                                                                *)

Lemma nth_replace {A} (l : list A) : forall k x d n, (k < length l)%nat ->
  nth n (firstn k l ++ x :: skipn (S k) l) d = if Nat.eqb n k then x else nth n l d.
Proof.
  induction l as [|a l IH]; intros k x d n H; simpl in H; [lia|].
  destruct k; simpl.
  - destruct n; reflexivity.
  - destruct n; simpl; [reflexivity|]. apply IH. lia.
Qed.

Lemma length_replace {A} (l : list A) k x : (k < length l)%nat ->
  length (firstn k l ++ x :: skipn (S k) l) = length l.
Proof.
  intros H. rewrite app_length. cbn [length]. rewrite firstn_length, skipn_length. lia.
Qed.

Lemma NoDup_app_l {A} (l r : list A) : NoDup (l ++ r) -> NoDup l.
Proof.
  induction l as [|a l IH]; simpl; intros H; [constructor|].
  inversion H as [|? ? Hnot Hnd]; subst. constructor; [|auto].
  intros Hin. apply Hnot. apply in_or_app. left. exact Hin.
Qed.

Lemma nth_repeat_app {A} (d : A) m : forall n l,
  nth n (repeat d m ++ l) d = if Nat.ltb n m then d else nth (n - m) l d.
Proof.
  induction m as [|m IH]; intros n l; simpl.
  - rewrite Nat.sub_0_r. reflexivity.
  - destruct n; [reflexivity|]. rewrite IH. reflexivity.
Qed.

(* ------------------------------------------------------------------------------------------ *)
(* One merge step                                                                              *)

Section Merge.
Context {P : Type}.
Implicit Types c : cab P.

(* the wire of every bit after one merge: only bit [index] changes - the pins of the new net are
   added to whatever that bit holds already (nothing, when the position is a gap or outside) *)
Lemma mb_merge_wire c i w k :
  wire_of (mb_merge c i w) k = if (k =? i)%N then wire_of c i ++ w else wire_of c k.
Proof.
  destruct c as [lo a ws]. unfold mb_merge, wire_of. cbn [c_lower c_wires c_array].
  destruct (N.leb_spec lo i) as [Hle|Hgt].
  - destruct (N.ltb_spec i lo) as [|_]; [lia|].
    destruct (N.ltb_spec i (lo + N.of_nat (length ws))) as [Hin|Hout];
      cbn [c_lower c_wires c_array].
    + (* inside the range *)
      destruct (N.ltb_spec k lo) as [Hk|Hk].
      * destruct (N.eqb_spec k i); [lia|reflexivity].
      * rewrite nth_replace by lia.
        destruct (Nat.eqb_spec (N.to_nat (k - lo)) (N.to_nat (i - lo))) as [E|E];
          destruct (N.eqb_spec k i); try reflexivity; lia.
    + (* above the range: fill, then append *)
      rewrite (nth_overflow ws (n := N.to_nat (i - lo))) by lia. cbn [app].
      destruct (N.ltb_spec k lo) as [Hk|Hk].
      * destruct (N.eqb_spec k i); [lia|reflexivity].
      * destruct (Nat.lt_ge_cases (N.to_nat (k - lo)) (length ws)) as [Hl|Hl].
        -- rewrite app_nth1 by exact Hl.
           destruct (N.eqb_spec k i); [lia|reflexivity].
        -- rewrite app_nth2 by exact Hl. rewrite nth_repeat_app.
           rewrite (nth_overflow ws) by exact Hl.
           destruct (Nat.ltb_spec (N.to_nat (k - lo) - length ws)
                                  (N.to_nat (i - lo - N.of_nat (length ws)))) as [Hm|Hm].
           ++ destruct (N.eqb_spec k i); [lia|reflexivity].
           ++ destruct (N.eqb_spec k i) as [->|Hki].
              ** replace (N.to_nat (i - lo) - length ws
                          - N.to_nat (i - lo - N.of_nat (length ws)))%nat with 0%nat by lia.
                 reflexivity.
              ** apply nth_overflow. simpl. lia.
  - (* below the range: prepend, fill *)
    assert (Hlt : (i < lo)%N) by lia. cbn [c_lower c_wires c_array].
    destruct (N.ltb_spec i lo) as [_|]; [|lia]. cbn [app].
    destruct (N.ltb_spec k i) as [Hk|Hk].
    + destruct (N.eqb_spec k i); [lia|].
      destruct (N.ltb_spec k lo); [reflexivity|lia].
    + destruct (N.eqb_spec k i) as [->|Hki].
      * rewrite N.sub_diag. reflexivity.
      * assert (E : N.to_nat (k - i) = S (N.to_nat (k - i - 1))) by lia.
        rewrite E. cbn [nth]. rewrite nth_repeat_app.
        destruct (Nat.ltb_spec (N.to_nat (k - i - 1)) (N.to_nat (lo - i - 1))) as [Hm|Hm].
        -- destruct (N.ltb_spec k lo); [reflexivity|lia].
        -- destruct (N.ltb_spec k lo); [lia|].
           f_equal. lia.
Qed.

Lemma mb_merge_array c i w : c_array (mb_merge c i w) = c_array c.
Proof.
  unfold mb_merge. destruct (_ <=? _)%N; [destruct (_ <? _)%N|]; reflexivity.
Qed.

(* lower index and length after one merge (len >= 1) *)
Lemma mb_merge_bounds c i w :
  let lo := c_lower c in
  let len := N.of_nat (length (c_wires c)) in
  let c' := mb_merge c i w in
  let lo' := c_lower c' in
  let len' := N.of_nat (length (c_wires c')) in
  (1 <= len)%N ->
  lo' = N.min lo i /\ (lo' + len' - 1 = N.max (lo + len - 1) i)%N /\ (1 <= len')%N.
Proof.
  destruct c as [lo a ws]. unfold mb_merge. cbn [c_lower c_wires c_array]. cbv zeta.
  intros Hlen.
  destruct (N.leb_spec lo i) as [Hlt|Hge].
  - destruct (N.ltb_spec i (lo + N.of_nat (length ws))) as [Hin|Hout];
      cbn [c_lower c_wires c_array].
    + rewrite length_replace by lia. lia.
    + rewrite !app_length, repeat_length. cbn [length]. lia.
  - cbn [c_lower c_wires c_array]. cbn [length]. rewrite app_length, repeat_length. lia.
Qed.
End Merge.

(* ------------------------------------------------------------------------------------------ *)
(* Invariant of assemble_from over the processed prefix                                        *)

Section Assemble.
Context {P : Type}.
Implicit Types (c : cab P) (bits pre rest : list (N * list P)).

Definition cab_inv c pre : Prop :=
  c_array c = true /\
  In (c_lower c) (idxs pre) /\
  In (c_lower c + N.of_nat (length (c_wires c)) - 1)%N (idxs pre) /\
  (forall j, In j (idxs pre) ->
     (c_lower c <= j < c_lower c + N.of_nat (length (c_wires c)))%N) /\
  (forall k, wire_of c k = gather k pre).

Lemma idxs_app pre rest : idxs (pre ++ rest) = idxs pre ++ idxs rest.
Proof. apply map_app. Qed.

Lemma cab_inv_init i w : cab_inv (mkcab i true [w]) [(i, w)].
Proof.
  unfold cab_inv. cbn [c_lower c_array c_wires idxs map fst length].
  split; [reflexivity|]. split; [left; reflexivity|]. split; [left; lia|]. split.
  - intros j [<-|[]]. lia.
  - intros k. unfold wire_of. cbn [c_lower c_wires gather].
    destruct (N.ltb_spec k i) as [Hk|Hk]; destruct (N.eqb_spec i k) as [->|Hne]; try lia.
    + reflexivity.
    + rewrite N.sub_diag, app_nil_r. reflexivity.
    + apply nth_overflow. simpl. lia.
Qed.

Lemma cab_inv_step c pre i w :
  cab_inv c pre -> cab_inv (mb_merge c i w) (pre ++ [(i, w)]).
Proof.
  intros (Harr & Hlo & Hhi & Hrng & Hw).
  assert (Hlen : (1 <= N.of_nat (length (c_wires c)))%N) by (specialize (Hrng _ Hlo); lia).
  destruct (mb_merge_bounds c i w Hlen) as (Elo & Ehi & Hlen').
  unfold cab_inv. rewrite mb_merge_array, idxs_app. cbn [idxs map fst].
  split; [exact Harr|]. split; [|split; [|split]].
  - rewrite Elo. apply in_or_app.
    destruct (N.min_spec (c_lower c) i) as [[_ E]|[_ E]]; rewrite E; [left; auto|right; left; auto].
  - rewrite Ehi. apply in_or_app.
    destruct (N.max_spec (c_lower c + N.of_nat (length (c_wires c)) - 1) i) as [[_ E]|[_ E]];
      rewrite E; [right; left; auto|left; auto].
  - intros j Hj. apply in_app_or in Hj.
    assert (Hj' : (c_lower c <= j < c_lower c + N.of_nat (length (c_wires c)))%N \/ j = i).
    { destruct Hj as [Hj|[<-|[]]]; [left; auto|right; reflexivity]. }
    lia.
  - intros k. rewrite (mb_merge_wire c i w k), gather_snoc, !Hw.
    destruct (N.eqb_spec k i) as [->|]; reflexivity.
Qed.

Lemma assemble_from_inv rest : forall c pre,
  cab_inv c pre -> cab_inv (assemble_from c rest) (pre ++ rest).
Proof.
  induction rest as [|[i w] rest IH]; intros c pre Hinv; simpl.
  - rewrite app_nil_r. exact Hinv.
  - replace (pre ++ (i, w) :: rest) with ((pre ++ [(i, w)]) ++ rest)
      by (rewrite <- app_assoc; reflexivity).
    apply IH. apply cab_inv_step. exact Hinv.
Qed.

Lemma assemble_inv bits c : assemble bits = Some c -> cab_inv c bits.
Proof.
  destruct bits as [|[i w] rest]; simpl; intros H; [discriminate|].
  inversion H; subst. apply (assemble_from_inv rest _ [(i, w)]). apply cab_inv_init.
Qed.
End Assemble.

(* ------------------------------------------------------------------------------------------ *)
(* assemble is the iteration of mb_add (multibit_add_cable) over the bits of one bus: the first *)
(* bit creates an array cable, every later bit takes the merge branch (never MbSeparate).      *)

Lemma mb_add_first {P} i (w : list P) : mb_add None (Some i) w = MbCable (mkcab i true [w]).
Proof. reflexivity. Qed.

Lemma mb_add_merge {P} (c : cab P) i w :
  c_array c = true -> mb_add (Some c) (Some i) w = MbCable (mb_merge c i w).
Proof.
  intros H. unfold mb_add, cab_is_array. rewrite H, orb_true_r. reflexivity.
Qed.

Lemma assemble_from_array {P} (bits : list (N * list P)) : forall c,
  c_array c = true -> c_array (assemble_from c bits) = true.
Proof.
  induction bits as [|[i w] t IH]; intros c H; simpl; [exact H|].
  apply IH. rewrite mb_merge_array. exact H.
Qed.

(* ------------------------------------------------------------------------------------------ *)
(* 1. The assembled cable                                                                      *)

(* ANY list of bits, a bit may be given by several nets: bit i holds the pins of all its nets *)
Theorem multibit_assemble_all : forall P (bits : list (N * list P)) c,
  assemble bits = Some c ->
     c_lower c = min_idx (idxs bits)
  /\ N.of_nat (length (c_wires c)) = (max_idx (idxs bits) - min_idx (idxs bits) + 1)%N
  /\ c_array c = true
  /\ forall i, wire_of c i = gather i bits.
Proof.
  intros P bits c Hasm.
  destruct (assemble_inv bits c Hasm) as (Harr & Hlo & Hhi & Hrng & Hw).
  assert (Emin : min_idx (idxs bits) = c_lower c).
  { apply min_idx_unique; [exact Hlo|]. intros j Hj. apply Hrng in Hj. lia. }
  assert (Emax : max_idx (idxs bits) = (c_lower c + N.of_nat (length (c_wires c)) - 1)%N).
  { apply max_idx_unique; [exact Hhi|]. intros j Hj. apply Hrng in Hj. lia. }
  assert (Hlen := Hrng _ Hlo).
  rewrite Emin, Emax. split; [reflexivity|]. split; [lia|]. split; [exact Harr|exact Hw].
Qed.

(* every bit given once: bit i holds the pins of its net *)
Theorem multibit_assemble : forall P (bits : list (N * list P)) c,
  NoDup (idxs bits) -> assemble bits = Some c ->
     c_lower c = min_idx (idxs bits)
  /\ N.of_nat (length (c_wires c)) = (max_idx (idxs bits) - min_idx (idxs bits) + 1)%N
  /\ c_array c = true
  /\ forall i, wire_of c i = lookup i bits.
Proof.
  intros P bits c Hnd Hasm.
  destruct (multibit_assemble_all P bits c Hasm) as (H1 & H2 & H3 & Hw).
  repeat split; auto. intro i. rewrite Hw. apply gather_lookup. exact Hnd.
Qed.

Theorem assemble_nonempty : forall P bits, bits <> [] -> exists c, @assemble P bits = Some c.
Proof.
  intros P [|[i w] rest] H; [congruence|]. simpl. eauto.
Qed.

(* the position form: the net of bit i is at position i - lower; positions of missing bits
   hold an empty wire *)
Corollary multibit_assemble_nth : forall P (bits : list (N * list P)) c,
  NoDup (idxs bits) -> assemble bits = Some c ->
  forall n, (n < length (c_wires c))%nat ->
    nth n (c_wires c) [] = lookup (c_lower c + N.of_nat n) bits.
Proof.
  intros P bits c Hnd Hasm n Hn.
  destruct (multibit_assemble P bits c Hnd Hasm) as (_ & _ & _ & Hw).
  rewrite <- Hw. unfold wire_of.
  destruct (N.ltb_spec (c_lower c + N.of_nat n) (c_lower c)); [lia|].
  f_equal. lia.
Qed.

(* ------------------------------------------------------------------------------------------ *)
(* 2. The order of the bits in the file is irrelevant                                          *)

Theorem multibit_order_irrelevant : forall P (bits bits' : list (N * list P)) c c',
  NoDup (idxs bits) -> Permutation bits bits' ->
  assemble bits = Some c -> assemble bits' = Some c' -> c = c'.
Proof.
  intros P bits bits' c c' Hnd Hp Hc Hc'.
  assert (Hpi : Permutation (idxs bits) (idxs bits')) by (apply Permutation_map; exact Hp).
  assert (Hnd' : NoDup (idxs bits')) by (eapply Permutation_NoDup; eauto).
  destruct (multibit_assemble P bits c Hnd Hc) as (Hlo & Hlen & Harr & _).
  destruct (multibit_assemble P bits' c' Hnd' Hc') as (Hlo' & Hlen' & Harr' & _).
  assert (Elo : c_lower c = c_lower c').
  { rewrite Hlo, Hlo'. apply min_idx_perm. exact Hpi. }
  assert (Elen : length (c_wires c) = length (c_wires c')).
  { rewrite (min_idx_perm _ _ Hpi), (max_idx_perm _ _ Hpi) in Hlen. lia. }
  assert (Ews : c_wires c = c_wires c').
  { apply (nth_ext _ _ [] []); [exact Elen|]. intros n Hn.
    rewrite (multibit_assemble_nth P bits c Hnd Hc n Hn).
    rewrite (multibit_assemble_nth P bits' c' Hnd' Hc' n) by lia.
    rewrite Elo. apply lookup_perm; assumption. }
  destruct c as [lo a ws], c' as [lo' a' ws']. cbn [c_lower c_array c_wires] in *.
  rewrite Elo, Harr, Harr', Ews. reflexivity.
Qed.

(* ------------------------------------------------------------------------------------------ *)
(* 3. Any subset of the bits of a bus                                                          *)

(* bits' is a sub-multiset of the full bus: full is a permutation of bits' ++ rest *)
Theorem multibit_subset : forall P (full bits' rest : list (N * list P)) c,
  NoDup (idxs full) -> Permutation full (bits' ++ rest) -> assemble bits' = Some c ->
     c_lower c = min_idx (idxs bits')
  /\ N.of_nat (length (c_wires c)) = (max_idx (idxs bits') - min_idx (idxs bits') + 1)%N
  /\ (forall i w, In (i, w) bits' ->
        (c_lower c <= i)%N /\ (N.to_nat (i - c_lower c) < length (c_wires c))%nat /\
        nth (N.to_nat (i - c_lower c)) (c_wires c) [] = w /\ lookup i full = w)
  /\ (forall i, (min_idx (idxs bits') <= i <= max_idx (idxs bits'))%N ->
        ~ In i (idxs bits') -> nth (N.to_nat (i - c_lower c)) (c_wires c) [] = []).
Proof.
  intros P full bits' rest c Hndf Hp Hasm.
  assert (Hnda : NoDup (idxs (bits' ++ rest))).
  { eapply Permutation_NoDup; [|exact Hndf]. apply Permutation_map. exact Hp. }
  assert (Hnd : NoDup (idxs bits')).
  { rewrite idxs_app in Hnda. apply NoDup_app_l in Hnda. exact Hnda. }
  destruct (multibit_assemble P bits' c Hnd Hasm) as (Hlo & Hlen & _ & Hw).
  split; [exact Hlo|]. split; [exact Hlen|]. split.
  - intros i w Hin.
    assert (Hi : In i (idxs bits')) by (change i with (fst (i, w)); apply in_map; exact Hin).
    assert (Hne : idxs bits' <> []) by (intros E; rewrite E in Hi; destruct Hi).
    destruct (min_idx_spec _ Hne) as (_ & Hmin). destruct (max_idx_spec _ Hne) as (_ & Hmax).
    specialize (Hmin _ Hi). specialize (Hmax _ Hi).
    split; [lia|]. split; [lia|]. split.
    + specialize (Hw i). unfold wire_of in Hw.
      destruct (N.ltb_spec i (c_lower c)); [lia|]. rewrite Hw. apply lookup_in; assumption.
    + apply lookup_in; [exact Hndf|]. eapply Permutation_in; [apply Permutation_sym; exact Hp|].
      apply in_or_app. left. exact Hin.
  - intros i Hrng Hnot. specialize (Hw i). unfold wire_of in Hw.
    destruct (N.ltb_spec i (c_lower c)); [lia|]. rewrite Hw. apply lookup_notin. exact Hnot.
Qed.

(* ------------------------------------------------------------------------------------------ *)
(* 4. A bit given twice (repaired K11; seen on bundled float_demo.edf): the second net for    *)
(*    bit 2 - the current lower index - joins wire 0; nothing moves, the width stays 2.       *)
(*    Before the repair the wire was PREPENDED: [[12]; [10]; [11]], every bit shifted by one. *)

Example multibit_duplicate_lower_joins :
  let bits := [(2%N, [10]); (3%N, [11]); (2%N, [12])] in
     assemble bits = Some (mkcab 2%N true [[10; 12]; [11]])
  /\ (forall c, assemble bits = Some c ->
        wire_of c 2 = [10; 12] /\ wire_of c 3 = [11] /\ wire_of c 4 = []
     /\ N.of_nat (length (c_wires c)) = (max_idx (idxs bits) - min_idx (idxs bits) + 1)%N)
  /\ ~ NoDup (idxs bits).
Proof.
  cbv zeta. split; [vm_compute; reflexivity|]. split.
  - intros c H. vm_compute in H. inversion H; subst. vm_compute.
    repeat split; reflexivity.
  - intros H. inversion H as [|? ? Hnot _]; subst. apply Hnot. simpl. auto.
Qed.

(* ------------------------------------------------------------------------------------------ *)
(* 6. A concrete bus: bits arrive as 5, 2, 7, 3; bits 4 and 6 are missing                      *)

Example multibit_example :
  let bits := [(5%N, [50]); (2%N, [20; 21]); (7%N, [70]); (3%N, [30])] in
     NoDup (idxs bits)
  /\ assemble bits = Some (mkcab 2%N true [[20; 21]; [30]; []; [50]; []; [70]])
  /\ min_idx (idxs bits) = 2%N /\ max_idx (idxs bits) = 7%N
  /\ (forall c, assemble bits = Some c ->
        c_lower c = 2%N /\ length (c_wires c) = 6%nat /\
        wire_of c 2 = [20; 21] /\ wire_of c 3 = [30] /\ wire_of c 4 = [] /\
        wire_of c 5 = [50] /\ wire_of c 6 = [] /\ wire_of c 7 = [70]).
Proof.
  cbv zeta. split; [|split; [|split; [|split]]].
  - cbn [idxs map fst].
    repeat (constructor; [simpl; intros H; repeat (destruct H as [H|H]; [discriminate H|]); exact H|]).
    constructor.
  - vm_compute. reflexivity.
  - vm_compute. reflexivity.
  - vm_compute. reflexivity.
  - intros c H. vm_compute in H. inversion H; subst. vm_compute. repeat split.
Qed.

(* ------------------------------------------------------------------------------------------ *)
(* 5. (member port x): the index written is the POSITION of the pin in port.pins; the reader   *)
(*    inverts it with port.pins[x]. Neither port.lower_index nor port.is_downto enters the     *)
(*    computation (composer.py:472-474 and 491-505 index port.pins directly; parser.py reads   *)
(*    port.pins[index]).                                                                       *)

Lemma positions_of_notin p pins : forall x, ~ In p pins -> positions_of p pins x = [].
Proof.
  induction pins as [|q pins IH]; intros x H; simpl; [reflexivity|].
  destruct (Nat.eqb_spec q p) as [->|Hne]; [exfalso; apply H; left; reflexivity|].
  simpl. apply IH. intros Hin. apply H. right. exact Hin.
Qed.

Lemma positions_of_in p pins : forall x, NoDup pins -> In p pins ->
  exists k, positions_of p pins x = [(x + k)%nat] /\ nth_error pins k = Some p.
Proof.
  induction pins as [|q pins IH]; intros x Hnd Hin; [destruct Hin|].
  inversion Hnd as [|? ? Hnot Hnd']; subst. simpl.
  destruct (Nat.eqb_spec q p) as [->|Hne].
  - exists 0%nat. rewrite positions_of_notin by exact Hnot. rewrite Nat.add_0_r. auto.
  - destruct Hin as [E|Hin]; [congruence|].
    destruct (IH (S x) Hnd' Hin) as (k & E & Hk). exists (S k). simpl. rewrite E.
    split; [f_equal; lia|exact Hk].
Qed.

Lemma portref_go_in haswire p pins : forall x, In p pins -> haswire p = true ->
  exists k, portref_go haswire p pins x = Some (x + k)%nat /\ nth_error pins k = Some p.
Proof.
  induction pins as [|q pins IH]; intros x Hin Hw; [destruct Hin|]. simpl.
  destruct (Nat.eqb_spec q p) as [->|Hne].
  - rewrite Hw. simpl. exists 0%nat. rewrite Nat.add_0_r. auto.
  - rewrite andb_false_r. destruct Hin as [E|Hin]; [congruence|].
    destruct (IH (S x) Hin Hw) as (k & E & Hk). exists (S k).
    destruct pins as [|q' pins']; [destruct Hin|]. rewrite E.
    split; [f_equal; lia|exact Hk].
Qed.

Theorem member_inverse_outer : forall pins p, NoDup pins -> In p pins ->
  exists k, member_outer pins p = [k] /\ member_read pins k = Some p.
Proof.
  intros pins p Hnd Hin. destruct (positions_of_in p pins 0 Hnd Hin) as (k & E & Hk).
  exists k. split; assumption.
Qed.

Theorem member_inverse_inner : forall haswire pins p,
  In p pins -> haswire p = true -> NoDup pins ->
  exists k, member_inner haswire pins p = Some k /\ member_read pins k = Some p.
Proof.
  intros haswire pins p Hin Hw _. destruct (portref_go_in haswire p pins 0 Hin Hw) as (k & E & Hk).
  exists k. split; assumption.
Qed.

Theorem member_index_inverse : forall haswire pins k p,
  NoDup pins -> member_read pins k = Some p -> haswire p = true ->
  member_inner haswire pins p = Some k /\ member_outer pins p = [k].
Proof.
  intros haswire pins k p Hnd Hk Hw. unfold member_read in Hk.
  assert (Hin : In p pins) by (eapply nth_error_In; eauto).
  assert (Hlt : (k < length pins)%nat) by (apply nth_error_Some; congruence).
  assert (Huniq : forall k', nth_error pins k' = Some p -> k' = k).
  { intros k' Hk'. symmetry. apply (proj1 (NoDup_nth_error pins) Hnd); [exact Hlt|congruence]. }
  destruct (member_inverse_inner haswire pins p Hin Hw Hnd) as (k1 & E1 & H1).
  destruct (member_inverse_outer pins p Hnd Hin) as (k2 & E2 & H2).
  apply Huniq in H1. apply Huniq in H2. subst. auto.
Qed.

(* the same over a port record: lower index and direction are not consulted *)
Record port := mkport { p_pins : list nat; p_lower : N; p_downto : bool }.

Theorem member_inverse : forall haswire pt k p,
  NoDup (p_pins pt) -> member_read (p_pins pt) k = Some p -> haswire p = true ->
     member_inner haswire (p_pins pt) p = Some k
  /\ member_outer (p_pins pt) p = [k]
  /\ forall lo dt,   (* any other lower_index / is_downto gives the same indices *)
       let pt' := mkport (p_pins pt) lo dt in
       member_inner haswire (p_pins pt') p = Some k /\ member_outer (p_pins pt') p = [k] /\
       member_read (p_pins pt') k = Some p.
Proof.
  intros haswire pt k p Hnd Hk Hw.
  destruct (member_index_inverse haswire (p_pins pt) k p Hnd Hk Hw) as (Hi & Ho).
  split; [exact Hi|]. split; [exact Ho|]. intros lo dt. cbv zeta. cbn [p_pins]. auto.
Qed.

(* a pin WITHOUT a wire: every iteration hits "continue", the loop ends without "break" and the
   LAST index is written. Unreachable in the writer: _output_port_ref_ is only called for pins
   found on a wire. Duplicated pins: the FIRST position is written. *)
Example member_inner_unwired :
  let pins := [5; 6; 7]%nat in
  let haswire := fun q => negb (Nat.eqb q 6) in
     member_inner haswire pins 6 = Some 2%nat           (* position of 6 is 1 *)
  /\ member_read pins 2 = Some 7%nat
  /\ member_inner (fun _ => true) pins 6 = Some 1%nat
  /\ member_inner haswire [] 6 = None.                   (* no pins: x is unbound (NameError) *)
Proof. vm_compute. repeat split. Qed.

Print Assumptions multibit_assemble.
Print Assumptions assemble_nonempty.
Print Assumptions multibit_order_irrelevant.
Print Assumptions multibit_subset.
Print Assumptions member_inverse_outer.
Print Assumptions member_inverse_inner.
Print Assumptions member_index_inverse.
Print Assumptions member_inverse.
Print Assumptions multibit_duplicate_lower_joins.
Print Assumptions multibit_assemble_all.
Print Assumptions multibit_example.
Print Assumptions member_inner_unwired.
