(* Engine `verilog`: the assign clause. connect_wires_for_assign puts bit k (from the low end) of each side on
   pin k of the assignment instance (repair of V06-assign-msb-first), _write_assignment writes such an instance
   back as one slice per side, and reading that text gives the same instance (repair of V04-assign-compose-assert). *)
From Coq Require Import List ZArith Bool Lia Arith.
From SV Require Import Fmt.VBits Fmt.VExpr Proofs.VerilogLists Proofs.VerilogSlice Proofs.VerilogPort.
Import ListNotations.
Open Scope Z_scope.

(* n consecutive wires of cable c from index l upwards *)
Definition wrun (c : nat) (l : Z) (n : nat) : list wire := map (fun k => (c, l + Z.of_nat k)) (seq 0 n).
Definition awidth (e : env) (a : atom) : nat := Z.to_nat (ahi e a - alo e a + 1).

Lemma firstn_seq_le w : forall s n, (w <= n)%nat -> firstn w (seq s n) = seq s w.
Proof. induction w as [|w IH]; intros s n H; [reflexivity|]. destruct n; [lia|]. cbn. f_equal. apply IH. lia. Qed.

Lemma wrun_length c l n : length (wrun c l n) = n.
Proof. unfold wrun. rewrite map_length, seq_length. reflexivity. Qed.

Lemma wrun_firstn c l n w : (w <= n)%nat -> firstn w (wrun c l n) = wrun c l w.
Proof. intro H. unfold wrun. rewrite firstn_map, firstn_seq_le by exact H. reflexivity. Qed.

Lemma wrun_zup c l h : map (fun i => (c, i)) (zup l h) = wrun c l (Z.to_nat (h - l + 1)).
Proof. unfold zup, wrun. rewrite map_map. reflexivity. Qed.

Lemma wrun_S c l n : wrun c l (S n) = (c, l) :: wrun c (l + 1) n.
Proof.
  unfold wrun. cbn [seq map]. f_equal; [f_equal; lia|].
  rewrite <- seq_shift, map_map. apply map_ext. intro k. f_equal. lia.
Qed.

Lemma wrun_nth c l n k : (k < n)%nat -> nth_error (wrun c l n) k = Some (c, l + Z.of_nat k).
Proof.
  intro H. unfold wrun. rewrite nth_error_map. rewrite (nth_error_nth' _ 0%nat) by (rewrite seq_length; lia).
  rewrite seq_nth by lia. reflexivity.
Qed.

Lemma wrun_last c l n d : (1 <= n)%nat -> last (wrun c l n) d = (c, l + Z.of_nat n - 1).
Proof.
  intro H. destruct n as [|n]; [lia|]. unfold wrun. rewrite seq_S, map_app. cbn [map]. rewrite last_last.
  f_equal. lia.
Qed.

Lemma wrun_scan c : forall n l li, l = li + 1 -> concat_scan (Some c) false (Some li) (map Some (wrun c l n)) = false.
Proof.
  induction n as [|n IH]; intros l li E; [reflexivity|]. rewrite wrun_S. cbn [map concat_scan].
  destruct (Z.eqb_spec l (li + 1)); [|lia]. rewrite Nat.eqb_refl. cbn [negb andb orb]. apply IH. reflexivity.
Qed.

Lemma wrun_not_concat c l n : is_pinset_concatenated (Some c) (map Some (wrun c l n)) = false.
Proof.
  destruct n as [|n]; [reflexivity|]. rewrite wrun_S. unfold is_pinset_concatenated. cbn [map concat_scan].
  rewrite Nat.eqb_refl. cbn [negb andb orb]. apply wrun_scan. reflexivity.
Qed.

Lemma map_fst_combine {A B} (a : list A) : forall (b : list B), length a = length b -> map fst (combine a b) = a.
Proof. induction a as [|x a IH]; intros [|y b] H; cbn in *; try reflexivity; try discriminate. f_equal. apply IH. lia. Qed.
Lemma map_snd_combine {A B} (a : list A) : forall (b : list B), length a = length b -> map snd (combine a b) = b.
Proof. induction a as [|x a IH]; intros [|y b] H; cbn in *; try reflexivity; try discriminate. f_equal. apply IH. lia. Qed.

Lemma nth_error_combine {A B} (l1 : list A) : forall (l2 : list B) i a b,
  nth_error l1 i = Some a -> nth_error l2 i = Some b -> nth_error (combine l1 l2) i = Some (a, b).
Proof.
  induction l1 as [|x l1 IH]; intros l2' i a b Ha Hb; destruct i; destruct l2'; cbn in *; try discriminate.
  - inversion Ha; inversion Hb; reflexivity.
  - apply IH; assumption.
Qed.

(* ---------- the reader ---------- *)
Lemma atom_range e a : atom_typed e a ->
  fst (e (atom_cable a)) <= alo e a /\ alo e a <= ahi e a /\ ahi e a <= fst (e (atom_cable a)) + Z.of_nat (snd (e (atom_cable a))) - 1.
Proof. intros [Hn Ht]. destruct a; cbn [atom_cable alo ahi] in *; lia. Qed.

Lemma atom_bits_run e a : atom_bits e a = wrun (atom_cable a) (alo e a) (awidth e a).
Proof. rewrite atom_bits_range, wrun_zup. reflexivity. Qed.

(* whatever the two sides read as (cl[hl:ll], cr[hr:lr], most significant first), pin k gets bit k of both *)
Lemma read_assign_of_readers e lhs rhs cl hl ll cr hr lr :
  reader_atom e lhs = Some (map (fun i => (cl, i)) (zdown hl ll)) ->
  reader_atom e rhs = Some (map (fun i => (cr, i)) (zdown hr lr)) ->
  let w := Nat.min (Z.to_nat (hl - ll + 1)) (Z.to_nat (hr - lr + 1)) in
  read_assign e lhs rhs = Some (combine (wrun cl ll w) (wrun cr lr w)).
Proof.
  intros Hl Hr w. unfold read_assign. rewrite Hl, Hr. rewrite !map_length, !zdown_length. fold w.
  rewrite <- !map_rev, !zdown_rev, !wrun_zup. rewrite !wrun_firstn by (unfold w; lia). reflexivity.
Qed.

Lemma read_assign_run e lhs rhs : atom_typed e lhs -> atom_typed e rhs ->
  let w := Nat.min (awidth e lhs) (awidth e rhs) in
  read_assign e lhs rhs = Some (combine (wrun (atom_cable lhs) (alo e lhs) w) (wrun (atom_cable rhs) (alo e rhs) w)).
Proof. intros Hl Hr. apply read_assign_of_readers; apply atom_reader; assumption. Qed.

(* C06, assign clause: pin k of the assignment instance carries bit k (from the low end) of both sides; the
   instance is as wide as the narrower side *)
Theorem assign_pins_lsb_lemma : forall e lhs rhs, atom_typed e lhs -> atom_typed e rhs ->
  let w := Nat.min (awidth e lhs) (awidth e rhs) in
  exists pins, read_assign e lhs rhs = Some pins /\ length pins = w /\
    forall k, (k < w)%nat ->
      nth_error pins k = Some ((atom_cable lhs, alo e lhs + Z.of_nat k), (atom_cable rhs, alo e rhs + Z.of_nat k)) /\
      nth_error (atom_bits e lhs) k = Some (atom_cable lhs, alo e lhs + Z.of_nat k) /\
      nth_error (atom_bits e rhs) k = Some (atom_cable rhs, alo e rhs + Z.of_nat k).
Proof.
  intros e lhs rhs Hl Hr w. eexists. split; [apply read_assign_run; assumption|]. fold w. split.
  - rewrite combine_length, !wrun_length. lia.
  - intros k Hk. split; [apply nth_error_combine; apply wrun_nth; exact Hk|].
    rewrite !atom_bits_run. split; apply wrun_nth; unfold w in Hk; lia.
Qed.

(* ---------- the writer, and the reader on what it wrote ---------- *)
Lemma brk_atom_reader e c b :
  reader_atom e (brk_atom c b) =
  get_wires (fst (e c)) (cable_wires c (fst (e c)) (snd (e c))) (fst (read_brackets b)) (snd (read_brackets b)).
Proof. destruct b; reflexivity. Qed.

Lemma slice_reread : forall e c l h, piece_ok e (c, l, h) ->
  exists b, write_brackets (fst (e c)) (Z.of_nat (snd (e c))) (Some l) (Some h) = Some b /\
            reader_atom e (brk_atom c b) = Some (map (fun i => (c, i)) (zdown h l)).
Proof.
  intros e c l h [[H1 H2] [[H3 H4] H5]].
  destruct (slice_inverse_lemma wire (cable_wires c (fst (e c)) (snd (e c))) (fst (e c)) true l h)
    as [b [t [Hb [Hg [Hlen Hnth]]]]]; try rewrite cable_wires_length; try lia.
  rewrite cable_wires_length in Hb. exists b. split; [exact Hb|].
  rewrite brk_atom_reader, Hg. f_equal. apply list_eq_nth_error.
  - rewrite map_length, zdown_length. exact Hlen.
  - intros k Hk. rewrite Hnth by exact Hk. rewrite nth_error_map, zdown_nth by lia.
    rewrite cable_wires_nth by lia. cbn. f_equal. f_equal. lia.
Qed.

Lemma write_assign_runs e co lo ci li w : (1 <= w)%nat ->
  write_assign e (combine (wrun co lo w) (wrun ci li w)) =
  match write_brackets (fst (e co)) (Z.of_nat (snd (e co))) (Some lo) (Some (lo + Z.of_nat w - 1)),
        write_brackets (fst (e ci)) (Z.of_nat (snd (e ci))) (Some li) (Some (li + Z.of_nat w - 1)) with
  | Some bo, Some bi => Some ((co, bo), (ci, bi))
  | _, _ => None
  end.
Proof.
  intro H. unfold write_assign.
  rewrite map_fst_combine, map_snd_combine by (rewrite !wrun_length; reflexivity).
  pose proof (wrun_not_concat co lo w) as No. pose proof (wrun_not_concat ci li w) as Ni.
  pose proof (wrun_last co lo w (co, lo) H) as Lo. pose proof (wrun_last ci li w (ci, li) H) as Li.
  assert (Ho : exists r, wrun co lo w = (co, lo) :: r) by (destruct w; [lia|]; rewrite wrun_S; eauto).
  assert (Hi : exists r, wrun ci li w = (ci, li) :: r) by (destruct w; [lia|]; rewrite wrun_S; eauto).
  destruct Ho as [ro Ho]. destruct Hi as [ri Hi].
  rewrite Ho in *. rewrite Hi in *. cbv zeta. cbv iota. rewrite No, Ni, Lo, Li. reflexivity.
Qed.

(* C04, assign clause: EVERY assign the reader accepts (any two atoms - identifier, bit, part-select - of any
   cables, any bases, equal or different widths) is written back as one slice per side, and reading that text gives
   the same pins again, pin by pin *)
Theorem assign_roundtrip_lemma : forall e lhs rhs, atom_typed e lhs -> atom_typed e rhs ->
  exists pins co bo ci bi,
    read_assign e lhs rhs = Some pins /\
    write_assign e pins = Some ((co, bo), (ci, bi)) /\
    read_assign e (brk_atom co bo) (brk_atom ci bi) = Some pins.
Proof.
  intros e lhs rhs Hl Hr. pose proof (read_assign_run e lhs rhs Hl Hr) as R. cbv zeta in R.
  set (w := Nat.min (awidth e lhs) (awidth e rhs)) in *.
  destruct (atom_range e lhs Hl) as (L1 & L2 & L3). destruct (atom_range e rhs Hr) as (R1 & R2 & R3).
  assert (W1 : (1 <= w)%nat) by (unfold w, awidth; lia).
  assert (Wl : (w <= awidth e lhs)%nat) by (unfold w; lia). assert (Wr : (w <= awidth e rhs)%nat) by (unfold w; lia).
  unfold awidth in Wl, Wr.
  destruct (slice_reread e (atom_cable lhs) (alo e lhs) (alo e lhs + Z.of_nat w - 1)) as (bo & Wo & Ro);
    [unfold piece_ok, in_cable; lia|].
  destruct (slice_reread e (atom_cable rhs) (alo e rhs) (alo e rhs + Z.of_nat w - 1)) as (bi & Wi & Ri);
    [unfold piece_ok, in_cable; lia|].
  exists (combine (wrun (atom_cable lhs) (alo e lhs) w) (wrun (atom_cable rhs) (alo e rhs) w)), (atom_cable lhs), bo, (atom_cable rhs), bi.
  split; [exact R|]. split.
  - rewrite write_assign_runs by exact W1. rewrite Wo, Wi. reflexivity.
  - rewrite (read_assign_of_readers e _ _ _ _ _ _ _ _ Ro Ri).
    replace (Z.to_nat (alo e lhs + Z.of_nat w - 1 - alo e lhs + 1)) with w by lia.
    replace (Z.to_nat (alo e rhs + Z.of_nat w - 1 - alo e rhs + 1)) with w by lia.
    rewrite Nat.min_id. reflexivity.
Qed.

(* single-bit assigns are written and read back unchanged *)
Theorem assign_single_bit_lemma : forall e c i c2 i2,
  atom_typed e (ABit c i) -> atom_typed e (ABit c2 i2) ->
  exists pins bo bi, read_assign e (ABit c i) (ABit c2 i2) = Some pins /\ pins = [((c, i), (c2, i2))] /\
    write_assign e pins = Some ((c, bo), (c2, bi)) /\
    read_piece e c bo = Some [(c, i)] /\ read_piece e c2 bi = Some [(c2, i2)].
Proof.
  intros e c i c2 i2 H1 H2.
  assert (R : read_assign e (ABit c i) (ABit c2 i2) = Some [((c, i), (c2, i2))]).
  { unfold read_assign. rewrite (atom_reader e _ H1), (atom_reader e _ H2). cbn [atom_cable ahi alo].
    rewrite !zdown_single. reflexivity. }
  destruct H1 as [N1 [A1 B1]]. destruct H2 as [N2 [A2 B2]]. cbn [atom_cable] in *.
  destruct (read_piece_ok e c i i) as [bo [Wo Ro]]; [cbn; unfold in_cable; lia|].
  destruct (read_piece_ok e c2 i2 i2) as [bi [Wi Ri]]; [cbn; unfold in_cable; lia|].
  exists [((c, i), (c2, i2))], bo, bi. split; [exact R|]. split; [reflexivity|].
  cbn [expand_piece] in Ro, Ri. rewrite zdown_single in Ro, Ri. cbn [map] in Ro, Ri.
  split; [|split; assumption].
  unfold write_assign. cbn [map fst snd last]. unfold is_pinset_concatenated. cbn [concat_scan].
  rewrite !Nat.eqb_refl. cbn [negb andb orb]. rewrite Wo, Wi. reflexivity.
Qed.

(* The assign clauses of C04 / C06 as the properties state them. Both were refuted by the model of the reader
   that wired the most significant bit to pin 0 (former findings V04-assign-compose-assert, V06-assign-msb-first;
   regression witness: assign a[1:0] = b[1:0], corpus/verilog/a1-multi-bit-assign.json, c04-multi-bit-assign.json) *)
Definition assign_writable : Prop := forall e lhs rhs pins,
  atom_typed e lhs -> atom_typed e rhs -> read_assign e lhs rhs = Some pins -> write_assign e pins <> None.

Definition assign_lsb_pins : Prop := forall e c h l c2 h2 l2 pins k,
  atom_typed e (APart c h l) -> atom_typed e (APart c2 h2 l2) -> h - l = h2 - l2 ->
  read_assign e (APart c h l) (APart c2 h2 l2) = Some pins -> 0 <= k <= h - l ->
  nth_error pins (Z.to_nat k) = Some ((c, l + k), (c2, l2 + k)).

Theorem assign_writable_holds_lemma : assign_writable.
Proof.
  intros e lhs rhs pins Hl Hr R. destruct (assign_roundtrip_lemma e lhs rhs Hl Hr) as (p & co & bo & ci & bi & R' & Wr & _).
  rewrite R in R'. inversion R'; subst. rewrite Wr. discriminate.
Qed.

Theorem assign_lsb_pins_holds_lemma : assign_lsb_pins.
Proof.
  intros e c h l c2 h2 l2 pins k Hl Hr Hw R Hk.
  destruct (assign_pins_lsb_lemma e _ _ Hl Hr) as (p & R' & _ & N). rewrite R in R'. inversion R'; subst p.
  destruct Hl as (_ & ? & ? & ?). destruct Hr as (_ & ? & ? & ?).
  destruct (N (Z.to_nat k)) as (N1 & _); [unfold awidth; cbn [alo ahi]; lia|].
  rewrite N1. cbn [atom_cable alo]. repeat f_equal; lia.
Qed.

Definition wit_env : env := fun _ => (0, 2%nat).

Lemma wit_typed c : atom_typed wit_env (APart c 1 0).
Proof. unfold atom_typed. cbn. lia. Qed.
