(* Engine `verilog`: the assign clause - what the faithful model says about multi-bit assigns *)
From Coq Require Import List ZArith Bool Lia Arith.
From SV Require Import Fmt.VBits Fmt.VExpr Proofs.VerilogLists Proofs.VerilogSlice Proofs.VerilogPort.
Import ListNotations.
Open Scope Z_scope.

Lemma zdown_two h l : l < h -> exists r, zdown h l = h :: (h - 1) :: r.
Proof.
  intro H. unfold zdown. destruct (Z.to_nat (h - l + 1)) as [|[|n]] eqn:E; try lia.
  exists (map (fun k => h - Z.of_nat k) (seq 2 n)). cbn [seq map].
  replace (h - Z.of_nat 0) with h by lia. replace (h - Z.of_nat 1) with (h - 1) by lia. reflexivity.
Qed.

(* the reader puts the MOST significant bit of a multi-bit assign on pin 0 *)
Lemma read_assign_part e c h l c2 h2 l2 :
  atom_typed e (APart c h l) -> atom_typed e (APart c2 h2 l2) -> h - l = h2 - l2 ->
  read_assign e (APart c h l) (APart c2 h2 l2) =
    Some (combine (map (fun i => (c, i)) (zdown h l)) (map (fun i => (c2, i)) (zdown h2 l2))).
Proof.
  intros H1 H2 Hw. unfold read_assign. rewrite (atom_reader e _ H1), (atom_reader e _ H2). cbn [atom_cable ahi alo].
  rewrite !map_length, !zdown_length. replace (h2 - l2 + 1) with (h - l + 1) by lia. rewrite Nat.min_id.
  rewrite !firstn_all2 by (rewrite map_length, zdown_length; lia). reflexivity.
Qed.

(* ... and the writer then refuses to write the netlist: descending indices look like a concatenation *)
Theorem assign_multibit_unwritable_lemma : forall e c h l c2 h2 l2,
  atom_typed e (APart c h l) -> atom_typed e (APart c2 h2 l2) -> h - l = h2 - l2 -> l < h ->
  exists pins, read_assign e (APart c h l) (APart c2 h2 l2) = Some pins /\ write_assign e pins = None.
Proof.
  intros e c h l c2 h2 l2 H1 H2 Hw Hlt. eexists. split; [apply read_assign_part; assumption|].
  destruct (zdown_two h l Hlt) as [r Hr]. destruct (zdown_two h2 l2 ltac:(lia)) as [r2 Hr2].
  rewrite Hr, Hr2. cbn [map combine]. unfold write_assign. cbn [map fst snd].
  unfold is_pinset_concatenated. cbn [concat_scan]. rewrite Nat.eqb_refl. cbn [negb andb orb].
  destruct (Z.eqb_spec (h2 - 1) (h2 + 1)); [lia|]. reflexivity.
Qed.

(* pin k of the assignment instance carries bit (w-1-k) of both sides, not bit k *)
Theorem assign_pins_msb_first_lemma : forall e c h l c2 h2 l2 k,
  atom_typed e (APart c h l) -> atom_typed e (APart c2 h2 l2) -> h - l = h2 - l2 -> 0 <= k <= h - l ->
  exists pins, read_assign e (APart c h l) (APart c2 h2 l2) = Some pins /\
    nth_error pins (Z.to_nat k) = Some ((c, h - k), (c2, h2 - k)).
Proof.
  intros e c h l c2 h2 l2 k H1 H2 Hw Hk. eexists. split; [apply read_assign_part; assumption|].
  assert (G : forall (A B : Type) (l1 : list A) (l2 : list B) i a b, nth_error l1 i = Some a -> nth_error l2 i = Some b ->
              nth_error (combine l1 l2) i = Some (a, b)).
  { induction l1 as [|x l1 IH]; intros l2' i a b Ha Hb; destruct i; destruct l2'; cbn in *; try discriminate.
    - inversion Ha; inversion Hb; reflexivity.
    - apply IH; assumption. }
  apply G; rewrite nth_error_map, zdown_nth by lia; cbn; f_equal; f_equal; lia.
Qed.

(* single-bit assigns are written and read back unchanged *)
Theorem assign_single_bit_lemma : forall e c i c2 i2,
  atom_typed e (ABit c i) -> atom_typed e (ABit c2 i2) ->
  exists pins bo bi, read_assign e (ABit c i) (ABit c2 i2) = Some pins /\ pins = [((c, i), (c2, i2))] /\
    write_assign e pins = Some ((c, bo), (c2, bi)) /\
    read_piece e c bo = Some [(c, i)] /\ read_piece e c2 bi = Some [(c2, i2)].
Proof.
  intros e c i c2 i2 H1 H2.
  assert (R : read_assign e (ABit c i) (ABit c2 i2) = Some [((c, i), (c2, i2))]).
  { unfold read_assign. rewrite (atom_reader e _ H1), (atom_reader e _ H2). cbn [atom_cable ahi alo].
    rewrite !zdown_single. reflexivity. }
  destruct H1 as [N1 [A1 B1]]. destruct H2 as [N2 [A2 B2]]. cbn [atom_cable] in *.
  destruct (read_piece_ok e c i i) as [bo [Wo Ro]]; [cbn; unfold in_cable; lia|].
  destruct (read_piece_ok e c2 i2 i2) as [bi [Wi Ri]]; [cbn; unfold in_cable; lia|].
  exists [((c, i), (c2, i2))], bo, bi. split; [exact R|]. split; [reflexivity|].
  cbn [expand_piece] in Ro, Ri. rewrite zdown_single in Ro, Ri. cbn [map] in Ro, Ri.
  split; [|split; assumption].
  unfold write_assign. cbn [map fst snd last]. unfold is_pinset_concatenated. cbn [concat_scan].
  rewrite !Nat.eqb_refl. cbn [negb andb orb]. rewrite Wo, Wi. reflexivity.
Qed.

(* The assign clauses of C04 / C06 as the properties state them, and their refutation by the faithful model
   (witness: assign a[1:0] = b[1:0]; replayed on the implementation by corpus/verilog/a1-multi-bit-assign.json
   and c04-multi-bit-assign.json) *)
Definition assign_writable : Prop := forall e lhs rhs pins,
  atom_typed e lhs -> atom_typed e rhs -> read_assign e lhs rhs = Some pins -> write_assign e pins <> None.

Definition assign_lsb_pins : Prop := forall e c h l c2 h2 l2 pins k,
  atom_typed e (APart c h l) -> atom_typed e (APart c2 h2 l2) -> h - l = h2 - l2 ->
  read_assign e (APart c h l) (APart c2 h2 l2) = Some pins -> 0 <= k <= h - l ->
  nth_error pins (Z.to_nat k) = Some ((c, l + k), (c2, l2 + k)).

Definition wit_env : env := fun _ => (0, 2%nat).

Lemma wit_typed c : atom_typed wit_env (APart c 1 0).
Proof. unfold atom_typed. cbn. lia. Qed.

Theorem assign_writable_refuted_lemma : ~ assign_writable.
Proof.
  intro H.
  destruct (assign_multibit_unwritable_lemma wit_env 0%nat 1 0 1%nat 1 0 (wit_typed _) (wit_typed _) eq_refl ltac:(lia))
    as [pins [Hr Hw]].
  exact (H wit_env _ _ pins (wit_typed _) (wit_typed _) Hr Hw).
Qed.

Theorem assign_lsb_pins_refuted_lemma : ~ assign_lsb_pins.
Proof.
  intro H.
  destruct (assign_pins_msb_first_lemma wit_env 0%nat 1 0 1%nat 1 0 0 (wit_typed _) (wit_typed _) eq_refl ltac:(lia))
    as [pins [Hr Hn]].
  specialize (H wit_env 0%nat 1 0 1%nat 1 0 pins 0 (wit_typed _) (wit_typed _) eq_refl Hr ltac:(lia)).
  rewrite Hn in H. discriminate.
Qed.
