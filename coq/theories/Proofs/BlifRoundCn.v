(* EBLIF engine: an instance that carries a .cname is called by it - in every netlist the reader returns *)
From Coq Require Import List Arith NArith Bool Lia.
From SV Require Import Base.Base Fmt.Blif Fmt.BlifRead Fmt.BlifSpec Proofs.BlifBase Proofs.BlifWF Proofs.BlifExec.
Import ListNotations.

Definition cn_inst (i : inst) : Prop := forall c, i_cname i = Some c -> i_name i = Some c.
Definition CNm (m : model) : Prop := forall i, In i (m_insts m) -> cn_inst i.
Definition CN (ms : list model) : Prop := forall m, In m ms -> CNm m.

Lemma CN_upd_model r f ms : CN ms -> (forall m, CNm m -> CNm (f m)) -> CN (upd_model r f ms).
Proof.
  intros H Hf m' Hm'. apply In_upd_model in Hm' as [m [Hm ->]]. destruct (str_eqb (m_name m) r); auto.
Qed.

Lemma CN_add_pins r new ms : CN ms -> CN (add_pins_refs r new ms).
Proof.
  intros H m' Hm'. rewrite add_pins_refs_eq in Hm'. apply in_map_iff in Hm' as [m [<- Hm]].
  intros i Hi. cbn in Hi. apply in_map_iff in Hi as [i0 [<- Hi0]]. specialize (H m Hm i0 Hi0).
  unfold bump. destruct (str_eqb _ _); exact H.
Qed.

Lemma CN_ports r g ms : CN ms -> (forall m, m_insts (g m) = m_insts m) -> CN (upd_model r g ms).
Proof. intros H Hg. apply CN_upd_model; [exact H|]. intros m Hm i Hi. rewrite Hg in Hi. auto. Qed.

Lemma CN_add_port r q ms : CN ms -> CN (add_port r q ms).
Proof. intro H. unfold add_port. apply CN_add_pins. apply CN_ports; auto. Qed.

Lemma CN_grow_port r p w ms : CN ms -> CN (grow_port r p w ms).
Proof.
  intro H. unfold grow_port. destruct (find_model r ms); [|exact H]. destruct (Nat.ltb _ _); [|exact H].
  apply CN_add_pins. apply CN_ports; auto.
Qed.

Lemma CN_ensure nm ms : CN ms -> CN (ensure_model nm ms).
Proof.
  intro H. unfold ensure_model. destruct (find_model nm ms); [exact H|].
  intros m Hm. apply in_app_iff in Hm as [Hm|[<-|[]]]; [auto|]. intros i [].
Qed.

Lemma CN_ensure_port r q ms : CN ms -> CN (ensure_port r q ms).
Proof. intro H. unfold ensure_port. destruct (find_port _ _); [exact H|apply CN_add_port; exact H]. Qed.

Lemma CN_fold_ensure_port {X} r (g : X -> port) l : forall ms, CN ms -> CN (fold_left (fun ms x => ensure_port r (g x) ms) l ms).
Proof. induction l as [|x l IH]; intros ms H; cbn; [exact H|]. apply IH. apply CN_ensure_port. exact H. Qed.

Lemma CN_upd_res cur f ms ms' :
  CN ms -> upd_model_res cur f ms = Ok ms' -> (forall m m', CNm m -> f m = Ok m' -> CNm m') -> CN ms'.
Proof.
  intros H Hu Hf. unfold upd_model_res in Hu. destruct (find_model cur ms) as [m|] eqn:E; [|discriminate].
  apply bind_ok in Hu as [m' [H1 H2]]. inversion H2; subst ms'. apply CN_upd_model; [exact H|].
  intros x Hx. apply (Hf m m'); [|exact H1]. apply H. apply find_model_In in E. tauto.
Qed.

Lemma CNm_insts m m' : m_insts m' = m_insts m -> CNm m -> CNm m'.
Proof. intros E H i Hi. rewrite E in Hi. auto. Qed.

Lemma CN_connect al cur pr c k ms ms' : CN ms -> upd_model_res cur (connect_to al pr c k) ms = Ok ms' -> CN ms'.
Proof.
  intros H Hu. eapply CN_upd_res; [exact H|exact Hu|]. intros m m' Hm Hc. unfold connect_to in Hc.
  destruct (connected m pr); [discriminate|]. inversion Hc. apply (CNm_insts m); auto.
Qed.

Lemma CNm_upd_inst idx f m : CNm m -> (forall i, cn_inst i -> cn_inst (f i)) -> CNm (upd_inst idx f m).
Proof.
  intros H Hf i Hi. unfold upd_inst in Hi. cbn in Hi. apply In_upd_nth in Hi as [Hi|[x [Hx ->]]]; auto.
Qed.

(* naming the instance at [idx]: it has no .cname yet, or this very one *)
Lemma CNm_set_name idx name m m' :
  CNm m -> set_inst_name idx name m = Ok m' ->
  (forall i, nth_error (m_insts m) idx = Some i -> i_cname i = None \/ i_cname i = Some name) -> CNm m'.
Proof.
  intros H Hs Hc. unfold set_inst_name in Hs. destruct (name_taken _ _ _); [discriminate|]. inversion Hs; subst m'.
  intros i Hi. unfold upd_inst in Hi. cbn in Hi.
  assert (G : forall l k, (forall x, In x l -> cn_inst x) ->
              (forall x, nth_error l k = Some x -> i_cname x = None \/ i_cname x = Some name) ->
              forall y, In y (upd_nth k (fun i0 => set_iname i0 (Some name)) l) -> cn_inst y).
  { induction l as [|x l IH]; intros k Hl Hk y Hy; [destruct k; destruct Hy|].
    destruct k as [|k]; cbn in Hy.
    - destruct Hy as [<-|Hy]; [|apply Hl; right; exact Hy].
      intros c Hcn. cbn in Hcn |- *. destruct (Hk x eq_refl) as [E|E]; congruence.
    - destruct Hy as [<-|Hy]; [apply Hl; left; reflexivity|].
      apply (IH k); [intros z Hz; apply Hl; right; exact Hz|intros z Hz; apply Hk; exact Hz|exact Hy]. }
  apply (G (m_insts m) idx); auto.
Qed.

Lemma CN_conn_one al cur ref idx ms fa ms' : CN ms -> conn_one al cur ref idx (Ok ms) fa = Ok ms' -> CN ms'.
Proof.
  intros H Hc. unfold conn_one in Hc. cbn [bind] in Hc.
  destruct (pni (snd fa)) as [[c k]|]; [|discriminate]. cbn [bind] in Hc.
  destruct (pni (fst fa)) as [[p i]|]; [|discriminate]. cbn [bind] in Hc.
  destruct (str_eqb c k_unconn).
  - inversion Hc; subst ms'. apply CN_upd_model; [exact H|]. intros m Hm. apply CNm_upd_inst; [exact Hm|].
    intros x Hx. exact Hx.
  - destruct (find_port _ _); [|discriminate]. eapply CN_connect; [|exact Hc]. apply CN_grow_port. exact H.
Qed.

Lemma CN_connect_pins al cur ref idx info : forall ms ms', CN ms -> connect_instance_pins al cur ref idx info ms = Ok ms' -> CN ms'.
Proof.
  unfold connect_instance_pins. intros ms ms' H Hf.
  apply (fold_res_inv (conn_one al cur ref idx) CN) with (l := info) (a := ms) (a' := ms'); auto.
  intros a x a' Ha Hx. eapply CN_conn_one; eauto.
Qed.

Lemma CN_finish_inst s ref idx nm0 info ms s' :
  CN ms ->
  (forall m i, find_model (s_cur s) ms = Some m -> nth_error (m_insts m) idx = Some i -> i_cname i = None) ->
  finish_inst s ref idx nm0 info ms = Ok s' -> CN (st_models s').
Proof.
  intros H Hnew Hf. unfold finish_inst in Hf.
  destruct (match nm0 with Some x => _ | None => _ end) as [name tbl].
  apply bind_ok in Hf as [ms1 [H1 Hf]]. apply bind_ok in Hf as [ms2 [H2 Hf]]. inversion Hf; subst s'. clear Hf.
  cbn [st_models s_nl b_models set_models]. eapply CN_connect_pins; [|exact H2].
  unfold upd_model_res in H1. destruct (find_model (s_cur s) ms) as [m|] eqn:E; [|discriminate].
  apply bind_ok in H1 as [m' [H1 H3]]. inversion H3; subst ms1. apply CN_upd_model; [exact H|]. intros _ _.
  eapply CNm_set_name; [|exact H1|].
  - apply H. apply find_model_In in E. tauto.
  - intros i Hi. left. eapply Hnew; eauto.
Qed.

Lemma CN_inst_tail s ref k nm0 info ms s' :
  CN ms ->
  finish_inst s ref (length (m_insts (get_model (s_cur s) ms))) nm0 info (add_child (s_cur s) ref k ms) = Ok s' ->
  CN (st_models s').
Proof.
  intros H Hf. eapply CN_finish_inst; [| |exact Hf].
  - unfold add_child. apply CN_upd_model; [exact H|]. intros m Hm i Hi. cbn in Hi.
    apply in_app_iff in Hi as [Hi|[<-|[]]]; [auto|]. intros c Hc. discriminate.
  - intros m i Hm Hi. unfold add_child in Hm. rewrite find_model_upd in Hm by (intros x Hx; exact Hx).
    destruct (find_model (s_cur s) ms) as [m0|] eqn:E; [|discriminate].
    pose proof (find_model_In _ _ _ E) as [_ En]. rewrite En, str_eqb_refl in Hm. inversion Hm; subst m. clear Hm.
    rewrite (get_model_find _ _ _ E) in Hi. cbn in Hi. rewrite nth_error_app2 in Hi by lia.
    rewrite Nat.sub_diag in Hi. inversion Hi. reflexivity.
Qed.

Lemma cn_cname_list nm : forall l k, (forall x, In x l -> cn_inst x) ->
  forall y, In y (upd_nth k (fun i => set_iname i (Some nm)) (upd_nth k (fun i => set_icname i (Some nm)) l)) -> cn_inst y.
Proof.
  induction l as [|x l IH]; intros k Hl y Hy; [destruct k; destruct Hy|].
  destruct k as [|k]; cbn in Hy.
  - destruct Hy as [<-|Hy]; [|apply Hl; right; exact Hy]. intros c Hc. cbn in Hc |- *. exact Hc.
  - destruct Hy as [<-|Hy]; [apply Hl; left; reflexivity|]. apply (IH k); [intros z Hz; apply Hl; right; exact Hz|exact Hy].
Qed.

Lemma fold_do_pair_CN ref pairs : forall a a', CN (fst a) -> fold_left (do_pair ref) pairs (Ok a) = Ok a' -> CN (fst a').
Proof.
  intros a a' H Hf.
  apply (fold_res_inv (do_pair ref) (fun b => CN (fst b))) with (l := pairs) (a := a) (a' := a'); auto.
  intros [ms info] tok [ms' info'] Hb Hx. cbn [fst] in *. unfold do_pair in Hx. cbn [bind] in Hx.
  destruct (split_eq tok) as [formal actual]. destruct (pni formal) as [[p i]|]; [|discriminate]. cbn [bind] in Hx.
  set (ms1 := match find_port _ _ with None => _ | Some _ => ms end) in Hx.
  assert (H1 : CN ms1) by (unfold ms1; destruct (find_port _ _); [exact Hb|apply CN_add_port; exact Hb]).
  destruct (Nat.leb _ _); inversion Hx; subst; [apply CN_grow_port|]; exact H1.
Qed.

Lemma exec_CN s x s' : CN (st_models s) -> exec s x = Ok s' -> CN (st_models s').
Proof.
  intros H Hx. destruct x; cbn [exec] in Hx.
  - inversion Hx; subst s'. exact H.
  - assert (E3 : st_models s' = upd_model nm (fun m => set_defined m true) (ensure_model nm (st_models s))).
    { destruct (b_top (s_nl s)); inversion Hx; subst s'; cbn; auto. }
    rewrite E3. apply CN_ports; [apply CN_ensure; exact H|reflexivity].
  - apply bind_ok in Hx as [ms [H1 H2]]. inversion H2; subst s'. rewrite st_models_set_ms.
    apply (fold_res_inv (do_input (s_merged s) (s_cur s)) CN) with (l := l) (a := st_models s) (a' := ms); auto.
    intros a t a' Ha Ht. unfold do_input in Ht. cbn [bind] in Ht. destruct (pni t) as [[p i]|]; [|discriminate]. cbn [bind] in Ht.
    destruct (input_io (s_cur s) p a); [inversion Ht; subst; apply CN_grow_port; apply CN_ports; auto|].
    eapply CN_connect; [|exact Ht]. apply CN_grow_port. destruct (find_port _ _); [apply CN_ports; auto|apply CN_add_port; exact Ha].
  - apply bind_ok in Hx as [ms [H1 H2]]. inversion H2; subst s'. rewrite st_models_set_ms.
    apply (fold_res_inv (do_output (s_merged s) (s_cur s)) CN) with (l := l) (a := st_models s) (a' := ms); auto.
    intros a t a' Ha Ht. unfold do_output in Ht. cbn [bind] in Ht. destruct (pni t) as [[p i]|]; [|discriminate]. cbn [bind] in Ht.
    set (ms1 := match find_port _ _ with None => _ | Some _ => a end) in Ht.
    assert (A1 : CN ms1) by (unfold ms1; destruct (find_port _ _); [exact Ha|apply CN_add_port; exact Ha]).
    assert (A3 : CN (grow_port (s_cur s) p (S i) (upd_model (s_cur s) (fun m => set_ports m
               (upd_port p (fun q => set_pdir q (if dir_eqb (port_dir p (get_model (s_cur s) ms1)) DIn || dir_eqb (port_dir p (get_model (s_cur s) ms1)) DInout then DInout else DOut)) (m_ports m))) ms1)))
      by (apply CN_grow_port; apply CN_ports; auto).
    destruct (_ || _); [inversion Ht; subst; exact A3|eapply CN_connect; [exact A3|exact Ht]].
  - inversion Hx; subst s'. rewrite st_models_set_ms. apply CN_ports; auto.
  - apply bind_ok in Hx as [s1 [H1 Hx]]. destruct (check_hierarchy_models _ _ _ H1) as [E1 E2].
    apply bind_ok in Hx as [[ms1 info] [H2 Hx]].
    eapply CN_inst_tail; [|exact Hx].
    pose proof (fold_do_pair_CN ref pairs (ensure_model ref (st_models s1), []) (ms1, info)) as A. cbn [fst] in A.
    apply A; [rewrite E1; apply CN_ensure; exact H|exact H2].
  - destruct (rev nets) as [|lastnet _]; [discriminate|].
    eapply CN_inst_tail; [|exact Hx]. apply (CN_fold_ensure_port _ (fun q => q)). apply CN_ensure. exact H.
  - unfold upd_cur_inst in Hx. destruct (s_curinst s); [|discriminate]. inversion Hx; subst s'. rewrite st_models_set_ms.
    apply CN_upd_model; [exact H|]. intros m Hm. apply CNm_upd_inst; [exact Hm|]. intros i Hi. exact Hi.
  - set (ms0 := ensure_model k_latch_def (st_models s)) in *.
    set (ms1 := match m_ports (get_model k_latch_def ms0) with [] => _ | _ => ms0 end) in Hx.
    assert (A : CN ms1).
    { unfold ms1. destruct (m_ports (get_model k_latch_def ms0)); [|apply CN_ensure; exact H].
      apply (CN_fold_ensure_port _ (fun kv : str * str => latch_port (fst kv))). apply CN_ensure. exact H. }
    destruct (sassoc k_output _); [|discriminate]. eapply CN_inst_tail; [exact A|exact Hx].
  - unfold upd_cur_inst in Hx. destruct (s_curinst s); [|discriminate]. inversion Hx; subst s'. rewrite st_models_set_ms.
    apply CN_upd_model; [exact H|]. intros m Hm. apply CNm_upd_inst; [exact Hm|]. intros i Hi. exact Hi.
  - destruct (s_curinst s) as [idx|]; [|discriminate]. apply bind_ok in Hx as [ms1 [H1 H2]]. inversion H2; subst s'.
    rewrite st_models_set_ms. unfold upd_model_res in H1.
    rewrite find_model_upd in H1 by (intros y Hy; exact Hy).
    destruct (find_model (s_cur s) (st_models s)) as [m|] eqn:E; [|discriminate].
    pose proof (find_model_In _ _ _ E) as [Hin En]. rewrite En, str_eqb_refl in H1.
    apply bind_ok in H1 as [m' [H1 H3]]. inversion H3; subst ms1. clear H3.
    assert (Cm' : CNm m').
    { unfold set_inst_name in H1. destruct (name_taken _ _ _); [discriminate|]. inversion H1; subst m'.
      intros i Hi. unfold upd_inst in Hi. cbn in Hi. eapply cn_cname_list; [|exact Hi]. apply H. exact Hin. }
    intros mm Hmm. apply In_upd_model in Hmm as [m1 [Hm1 ->]]. apply In_upd_model in Hm1 as [m0 [Hm0 ->]].
    destruct (str_eqb (m_name m0) (s_cur s)) eqn:E0.
    + cbn [upd_inst set_insts m_name]. rewrite E0. exact Cm'.
    + rewrite E0. apply H. exact Hm0.
  - unfold upd_cur_inst in Hx. destruct (s_curinst s); [|discriminate]. inversion Hx; subst s'. rewrite st_models_set_ms.
    apply CN_upd_model; [exact H|]. intros m Hm. apply CNm_upd_inst; [exact Hm|]. intros i Hi. exact Hi.
  - destruct (pni a) as [[an ai]|]; [|discriminate]. cbn [bind] in Hx.
    destruct (pni b) as [[bn bi]|]; [|discriminate]. cbn [bind] in Hx.
    apply bind_ok in Hx as [ms [H1 H2]]. inversion H2; subst s'. rewrite st_models_set_merged, st_models_set_ms.
    eapply CN_upd_res; [exact H|exact H1|]. intros m m' Hm Hc. unfold do_conn in Hc.
    destruct (nb_eqb _ _); inversion Hc; apply (CNm_insts m); auto.
  - inversion Hx; subst s'. cbn [st_models s_nl b_models set_models]. apply CN_ports; auto.
  - destruct (m_lib (cur_model s)); try discriminate. inversion Hx; subst s'. cbn [st_models s_nl b_models set_nl].
    apply CN_ports; auto.
  - discriminate.
Qed.

Lemma exec_all_CN l : forall s s', CN (st_models s) -> exec_all s l = Ok s' -> CN (st_models s').
Proof.
  induction l as [|x l IH]; intros s s' H Hx; cbn in Hx; [inversion Hx; subst; exact H|].
  apply bind_ok in Hx as [s1 [H1 H2]]. eapply IH; [|exact H2]. eapply exec_CN; eauto.
Qed.

Lemma wants_conv_cname i : wants_conv i = true -> i_cname i = None.
Proof. unfold wants_conv. destruct (i_kind i), (i_cname i); try discriminate; reflexivity. Qed.

Lemma conv_model_CN ms todo : forall m m', CNm m -> conv_model ms todo m = Ok m' -> CNm m'.
Proof.
  induction todo as [|idx todo IH]; intros m m' H Hc; cbn in Hc; [inversion Hc; subst; exact H|].
  destruct (nth_error (m_insts m) idx) as [i|] eqn:E; [|inversion Hc; subst; exact H].
  destruct (wants_conv i) eqn:Ew; [|eapply IH; eauto].
  destruct (conv_name ms m idx i) as [nm|]; [|eapply IH; eauto].
  apply bind_ok in Hc as [m1 [H1 H2]]. eapply IH; [|exact H2]. eapply CNm_set_name; [exact H|exact H1|].
  intros i0 Hi0. left. rewrite E in Hi0. inversion Hi0; subst. apply wants_conv_cname. exact Ew.
Qed.

Lemma finish_CN s n : CN (st_models s) -> finish s = Ok n -> CN (b_models n).
Proof.
  intros H Hf. unfold finish in Hf. apply bind_ok in Hf as [ms [H1 H2]]. inversion H2; subst n. cbn [b_models]. clear H2.
  unfold st_models in H. revert ms H1 H. generalize (b_models (s_nl s)) at 1 as ms0. intro ms0.
  induction (b_models (s_nl s)) as [|x l IH]; intros ms H1 H; cbn in H1.
  - inversion H1; subst. intros m [].
  - apply bind_ok in H1 as [x' [A H1]]. apply bind_ok in H1 as [rest [B C]]. inversion C; subst ms. clear C.
    intros m Hm. cbn [map] in Hm. destruct Hm as [<-|Hm].
    + assert (Cx : CNm x') by (eapply conv_model_CN; [apply H; left; reflexivity|exact A]).
      destruct (m_defined x'); [exact Cx|]. intros i Hi. cbn in Hi. apply Cx. exact Hi.
    + apply (IH rest B); [intros y Hy; apply H; right; exact Hy|exact Hm].
Qed.

(* in every netlist the reader returns, an instance with a .cname is called by it *)
Theorem elab_CN d n : elab d = Ok n -> CN (b_models n).
Proof.
  unfold elab, elab_stmts. intro H. apply bind_ok in H as [ss [H1 H]]. apply bind_ok in H as [s [H2 H3]].
  eapply finish_CN; [|exact H3]. eapply exec_all_CN; [|exact H2]. intros m [].
Qed.
