(* The whole query functions of Query/Enum.v (candidate enumeration, then the filter stages, then the
   callback): the statement of property C13 per function. *)
From Coq Require Import List Arith NArith Bool Lia Relations Permutation.
From SV Require Import Base.Base IR.State IR.NS IR.Ops Proofs.Inv1a Proofs.Inv2a Proofs.InvW
  Hier.Paths Hier.Enum Hier.Trace Query.Glob Query.Regex Query.Patterns Query.Filter Query.Enum Query.EnumSpec
  Proofs.QueryGlob Proofs.QueryFilterA Proofs.QueryFilterB Proofs.QueryFilter
  Proofs.QueryEnumWL Proofs.QueryEnumBase Proofs.QueryEnumView Proofs.QueryEnumInst Proofs.QueryEnumPorts
  Proofs.QueryEnumNetl Proofs.QueryEnumPins Proofs.QueryEnumDefs Proofs.QueryEnumLibs Proofs.QueryEnumCables.
Import ListNotations.

(* C10's invariant as seen by the queries: under key k, what global_service.lookup answers for a
   parent agrees with the linear scan of its children (every child carrying the value) *)
Definition LookOK (s : state) (reg : bool) (k : str) (r : rel) : Prop :=
  forall p, lookup_ok (key_of s k) (fold_of s k) (lk_of s reg k r p) (kids s r p).

Lemma lookok_parents s reg k r ps : LookOK s reg k r -> lookups_ok (key_of s k) (fold_of s k) (parents_of s reg k r ps).
Proof. intro H. unfold lookups_ok, parents_of. apply Forall_forall. intros pr Hp. apply in_map_iff in Hp as (p & <- & _). apply H. Qed.

Lemma cands_parents s reg k r ps e : In e (cands (parents_of s reg k r ps)) <-> exists p, In p ps /\ In e (kids s r p).
Proof.
  unfold cands, parents_of. rewrite map_map. cbn [snd]. rewrite <- flat_map_concat_map, in_flat_map. tauto.
Qed.

(* the unfiltered call: no pattern means "*", case sensitive, not a regular expression *)
Definition star_pat : list str := [[STAR]].
Definition unfiltered (o : qopts) : qopts := mkQ (q_reg o) true false (q_key o) (q_cb o).

Lemma star_matches v : matches_b true false [STAR] v = true.
Proof.
  unfold matches_b, value_matches. cbn [value_or_empty]. rewrite value_matches_glob_eq. cbn [value_or_empty].
  apply glob_star. exists v, []. split; [rewrite app_nil_r; reflexivity|reflexivity].
Qed.
Lemma star_sel key fold e : sel_match true false key fold star_pat e = true.
Proof. unfold sel_match, any_match, star_pat. cbn [existsb]. unfold sm. change (absolute_b true false [STAR]) with false. cbv iota. unfold em. rewrite star_matches. reflexivity. Qed.
Lemma star_good : ~ In [] star_pat.
Proof. intros [E|[]]. discriminate E. Qed.

Section TwoStage.
Variable s : state.
Variable o : qopts.
Variables (nk : bool) (bk : bkind) (r : rel).
Notation key := (key_of s (q_key o)).
Notation fold := (fold_of s (q_key o)).
Hypothesis HL : LookOK s (q_reg o) (q_key o) r.

(* who is a candidate: a child (carrying the key, for get_instances) of a parent reached, or an
   element reached for the name-map stage *)
Definition candidate (ps os : list id) (e : id) : Prop :=
  ((exists p, In p ps /\ In e (kids s r p)) /\ keyok key nk e) \/ In e os.

Theorem two_stage_spec ps os pats res : ~ In [] pats ->
  two_stage s o nk bk r (WOk (ps, os)) pats = WOk res ->
  forall e, In e res <->
    candidate ps os e /\ sel_match (q_case o) (q_re o) key fold pats e = true /\ q_cb o e = true.
Proof.
  intros Hp H e. unfold two_stage, wmap in H. cbn [fst snd] in H. injection H as <-. rewrite filter_In.
  rewrite (run_query_spec _ _ key fold nk bk _ os pats (lookok_parents s _ _ r ps HL) Hp e).
  unfold is_cand, candidate. rewrite cands_parents. tauto.
Qed.

(* the result for a pattern list = the unfiltered result restricted to the matching elements *)
Theorem two_stage_filters_unfiltered ps os pats res ures : ~ In [] pats ->
  two_stage s o nk bk r (WOk (ps, os)) pats = WOk res ->
  two_stage s (unfiltered o) nk bk r (WOk (ps, os)) star_pat = WOk ures ->
  forall e, In e res <-> In e ures /\ sel_match (q_case o) (q_re o) key fold pats e = true.
Proof.
  intros Hp H1 H2 e. rewrite (two_stage_spec ps os pats res Hp H1 e).
  unfold two_stage, wmap in H2. cbn [fst snd unfiltered q_cb q_case q_re q_key q_reg] in H2. injection H2 as <-. rewrite filter_In.
  rewrite (run_query_spec true false key fold nk bk _ os star_pat (lookok_parents s _ _ r ps HL) star_good e).
  unfold is_cand, candidate. rewrite cands_parents, star_sel. tauto.
Qed.

(* the order of the patterns does not matter *)
Theorem two_stage_perm ps os pats pats' res res' : ~ In [] pats -> Permutation pats pats' ->
  two_stage s o nk bk r (WOk (ps, os)) pats = WOk res ->
  two_stage s o nk bk r (WOk (ps, os)) pats' = WOk res' ->
  forall e, In e res <-> In e res'.
Proof.
  intros Hp HP H1 H2 e. unfold two_stage, wmap in H1, H2. cbn [fst snd] in H1, H2. injection H1 as <-. injection H2 as <-. rewrite !filter_In.
  rewrite (run_query_perm _ _ key fold nk bk _ os pats pats' (lookok_parents s _ _ r ps HL) Hp HP e). tauto.
Qed.

(* nothing is yielded twice *)
Theorem two_stage_NoDup ps os pats res :
  two_stage s o nk bk r (WOk (ps, os)) pats = WOk res -> NoDup res.
Proof.
  intros H. unfold two_stage, wmap in H. cbn [fst snd] in H. injection H as <-. apply NoDup_filter.
  apply run_query_NoDup.
Qed.
End TwoStage.

(* with and without the registered fast lookup: the same list *)
Theorem two_stage_fast_eq_scan s o nk bk r c pats :
  LookOK s (q_reg o) (q_key o) r ->
  two_stage s o nk bk r c pats =
  two_stage s (mkQ false (q_case o) (q_re o) (q_key o) (q_cb o)) nk bk r c pats.
Proof.
  intro HL. destruct c as [[ps os]| |]; [|reflexivity|reflexivity]. unfold two_stage, wmap. cbn [fst snd q_cb q_case q_re q_key q_reg]. f_equal. f_equal.
  rewrite (run_query_fast_eq_scan _ _ (key_of s (q_key o)) (fold_of s (q_key o)) nk bk _ os pats (lookok_parents s _ _ r ps HL)).
  f_equal. unfold with_scan, parents_of. rewrite map_map. reflexivity.
Qed.

Lemma two_stage_ok s o nk bk r c pats res :
  two_stage s o nk bk r c pats = WOk res -> exists ps os, c = WOk (ps, os).
Proof. destruct c as [[ps os]| |]; [intros _; exists ps, os; reflexivity|discriminate|discriminate]. Qed.

Lemma keyok_true key e : keyok key true e <-> Filter.has_key key e = true.
Proof. unfold keyok. cbn. tauto. Qed.
Lemma keyok_false key e : keyok key false e <-> True.
Proof. unfold keyok. cbn. tauto. Qed.

Lemma nil_of_no_member (l : list id) : (forall e, ~ In e l) -> l = [].
Proof. destruct l as [|x l]; [reflexivity|]. intro H. exfalso. apply (H x). left. reflexivity. Qed.

Section PerFunction.
Variable s : state.
Hypothesis W : QWF s.
Variable o : qopts.
Notation key := (key_of s (q_key o)).
Notation fold := (fold_of s (q_key o)).
Notation matching pats e := (sel_match (q_case o) (q_re o) key fold pats e = true /\ q_cb o e = true).

(* ---- get_instances ---- *)
Theorem query_instances_spec fuel it rec inside pats res :
  LookOK s (q_reg o) (q_key o) RChildren -> ~ In [] pats ->
  query_instances s o fuel [it] rec inside pats = WOk res ->
  forall e, In e res <->
    ((reachA_instances s rec inside it e /\ Filter.has_key key e = true) \/ reachB_instances s rec inside it e) /\
    matching pats e.
Proof.
  intros HL Hp H e. unfold query_instances in H. destruct (two_stage_ok _ _ _ _ _ _ _ _ H) as (ps & os & E). rewrite E in H.
  rewrite (two_stage_spec s o true BFound RChildren HL ps os pats res Hp H e).
  destruct (cands_instances_spec s W rec inside fuel it ps os E) as [HA HB]. unfold candidate. rewrite HA, HB, keyok_true. tauto.
Qed.

Theorem query_instances_NoDup fuel roots rec inside pats res :
  query_instances s o fuel roots rec inside pats = WOk res -> NoDup res.
Proof.
  intros H. unfold query_instances in H. destruct (two_stage_ok _ _ _ _ _ _ _ _ H) as (ps & os & E). rewrite E in H.
  apply (two_stage_NoDup s o true BFound RChildren ps os pats res). exact H.
Qed.

(* ---- get_definitions ---- *)
Theorem query_definitions_spec fuel it rec inside pats res :
  LookOK s (q_reg o) (q_key o) RDefs -> ~ In [] pats ->
  query_definitions s o fuel [it] rec inside pats = WOk res ->
  forall e, In e res <->
    (reachA_definitions s inside it e \/ reachB_definitions s rec inside it e) /\ matching pats e.
Proof.
  intros HL Hp H e. unfold query_definitions in H. destruct (two_stage_ok _ _ _ _ _ _ _ _ H) as (ps & os & E). rewrite E in H.
  rewrite (two_stage_spec s o false BNames RDefs HL ps os pats res Hp H e).
  destruct (cands_definitions_spec s W rec inside fuel it ps os E) as (HA & HB & _). unfold candidate. rewrite HA, HB, keyok_false. tauto.
Qed.

Theorem query_definitions_NoDup fuel roots rec inside pats res :
  query_definitions s o fuel roots rec inside pats = WOk res -> NoDup res.
Proof.
  intros H. unfold query_definitions in H. destruct (two_stage_ok _ _ _ _ _ _ _ _ H) as (ps & os & E). rewrite E in H.
  apply (two_stage_NoDup s o false BNames RDefs ps os pats res). exact H.
Qed.

(* ---- get_libraries ---- *)
Theorem query_libraries_spec fuel it rec inside pats res :
  LookOK s (q_reg o) (q_key o) RLibs -> ~ In [] pats ->
  query_libraries s o fuel [it] rec inside pats = WOk res ->
  forall e, In e res <->
    (reachA_libraries s it e \/ reachB_libraries s rec inside it e) /\ matching pats e.
Proof.
  intros HL Hp H e. unfold query_libraries in H. destruct (two_stage_ok _ _ _ _ _ _ _ _ H) as (ps & os & E). rewrite E in H.
  rewrite (two_stage_spec s o false BFound RLibs HL ps os pats res Hp H e).
  destruct (cands_libraries_spec s W rec inside fuel it ps os E) as (HA & HB & _). unfold candidate. rewrite HA, HB, keyok_false. tauto.
Qed.

(* from an instance with selection OUTSIDE (the case in which recursive used to be ignored): the
   library of the definition the instance sits in and, recursive, of every definition above it *)
Theorem query_libraries_instance_outside fuel it x rec pats res :
  LookOK s (q_reg o) (q_key o) RLibs -> ~ In [] pats ->
  item_owner s it x -> kind_of s x = Some KInstance ->
  query_libraries s o fuel [it] rec false pats = WOk res ->
  forall e, In e res <->
    (exists p d', par s RChildren x = Some p /\ star (used_by s) rec p d' /\ par s RDefs d' = Some e) /\ matching pats e.
Proof.
  intros HL Hp Hx Hk H e. unfold query_libraries in H. destruct (two_stage_ok _ _ _ _ _ _ _ _ H) as (ps & os & E). rewrite E in H.
  rewrite (two_stage_spec s o false BFound RLibs HL ps os pats res Hp H e).
  destruct (cands_libraries_code s W rec false fuel it ps os E) as (HA & _ & _).
  pose proof (libraries_instance_outside_recursive s W rec false fuel it ps os x E eq_refl Hx Hk) as HB.
  unfold candidate. rewrite HA, HB, keyok_false. unfold reachA_libraries. split; [|tauto].
  intros [[[(x' & Hx' & Hk' & _) _]|H1] H2]; [|tauto]. exfalso.
  assert (x' = x).
  { destruct it as [y|n i| |h]; cbn [item_owner] in *; try congruence; [contradiction|]. destruct Hx as [_ E1]. destruct Hx' as [_ E2]. congruence. }
  congruence.
Qed.

Theorem query_libraries_NoDup fuel roots rec inside pats res :
  query_libraries s o fuel roots rec inside pats = WOk res -> NoDup res.
Proof.
  intros H. unfold query_libraries in H. destruct (two_stage_ok _ _ _ _ _ _ _ _ H) as (ps & os & E). rewrite E in H.
  apply (two_stage_NoDup s o false BFound RLibs ps os pats res). exact H.
Qed.

(* ---- get_ports ---- *)
Theorem query_ports_spec fuel it pats res :
  LookOK s (q_reg o) (q_key o) RPorts -> ~ In [] pats ->
  query_ports s o fuel [it] pats = WOk res ->
  NoDup res /\
  forall e, In e res <-> (reachA_ports s it e \/ reachB_ports s it e) /\ matching pats e.
Proof.
  intros HL Hp H. unfold query_ports in H. destruct (two_stage_ok _ _ _ _ _ _ _ _ H) as (ps & os & E). rewrite E in H. split.
  - apply (two_stage_NoDup s o false BNames RPorts ps os pats res). exact H.
  - intro e. rewrite (two_stage_spec s o false BNames RPorts HL ps os pats res Hp H e).
    destruct (cands_ports_spec s W fuel it ps os E) as (HA & HB & _). unfold candidate. rewrite HA, HB, keyok_false. tauto.
Qed.

(* ---- get_cables, selections INSIDE / OUTSIDE / BOTH ---- *)
Theorem query_cables_spec fuel it rec x pats res :
  sel_all x = false -> LookOK s (q_reg o) (q_key o) RCables -> ~ In [] pats ->
  query_cables s o fuel [it] rec x pats = WOk res ->
  NoDup res /\
  forall e, In e res <-> (reachA_cables s x it e \/ reachB_cables s rec x it e) /\ matching pats e.
Proof.
  intros Hx HL Hp H. unfold query_cables in H. destruct (two_stage_ok _ _ _ _ _ _ _ _ H) as (ps & os & E). rewrite E in H. split.
  - apply (two_stage_NoDup s o false BNames RCables ps os pats res). exact H.
  - intro e. rewrite (two_stage_spec s o false BNames RCables HL ps os pats res Hp H e).
    destruct (cands_cables_spec s W rec x fuel it ps os Hx E) as (HA & HB & _). unfold candidate. rewrite HA, HB, keyok_false. tauto.
Qed.

(* ---- get_netlists ---- *)
Theorem query_netlists_spec fuel it pats res : ~ In [] pats ->
  query_netlists s o fuel [it] pats = WOk res ->
  NoDup res /\ forall n, In n res <-> reach_netlists s it n /\ matching pats n.
Proof.
  intros Hp H. unfold query_netlists in H. destruct (cands_netlists s fuel [it]) as [objs| |] eqn:E; try discriminate H.
  cbn [wmap] in H. injection H as <-.
  destruct (run_netlists_spec (q_case o) (q_re o) key fold objs pats Hp) as [Hn Hs]. split; [apply NoDup_filter, Hn|].
  intro n. rewrite filter_In, Hs, (cands_netlists_spec s W fuel it objs E n). tauto.
Qed.
End PerFunction.

(* ---- every two-stage function: pattern = filter of the unfiltered result, order of the patterns,
        fast lookup = scan. Stated on [two_stage] of the function's own candidates. ---- *)
Section Generic.
Variable s : state.
Variable o : qopts.

Definition fn_result (nk : bool) (bk : bkind) (r : rel) (c : wres (list id * list id)) (o' : qopts) (pats : list str) :=
  two_stage s o' nk bk r c pats.

Theorem filters_unfiltered nk bk r c pats res ures :
  LookOK s (q_reg o) (q_key o) r -> ~ In [] pats ->
  fn_result nk bk r c o pats = WOk res -> fn_result nk bk r c (unfiltered o) star_pat = WOk ures ->
  forall e, In e res <-> In e ures /\ sel_match (q_case o) (q_re o) (key_of s (q_key o)) (fold_of s (q_key o)) pats e = true.
Proof.
  intros HL Hp H1 H2. unfold fn_result in *. destruct (two_stage_ok _ _ _ _ _ _ _ _ H1) as (ps & os & ->).
  apply (two_stage_filters_unfiltered s o nk bk r HL ps os pats res ures Hp H1 H2).
Qed.

Theorem pattern_order_irrelevant nk bk r c pats pats' res res' :
  LookOK s (q_reg o) (q_key o) r -> ~ In [] pats -> Permutation pats pats' ->
  fn_result nk bk r c o pats = WOk res -> fn_result nk bk r c o pats' = WOk res' ->
  forall e, In e res <-> In e res'.
Proof.
  intros HL Hp HP H1 H2. unfold fn_result in *. destruct (two_stage_ok _ _ _ _ _ _ _ _ H1) as (ps & os & ->).
  apply (two_stage_perm s o nk bk r HL ps os pats pats' res res' Hp HP H1 H2).
Qed.
End Generic.

(* ---- C10 gives the lookup hypothesis for the key .NAME: in a state whose namespace tables are
        exact (every reachable state), if every container that has members carries a table ---- *)
From SV Require Import Proofs.NsInv.

Lemma find_ext {A} (f g : A -> bool) l : (forall x, f x = g x) -> find f l = find g l.
Proof. intro H. induction l as [|a l IH]; cbn; [reflexivity|]. rewrite H, IH. reflexivity. Qed.

(* the first hit is the only hit when the list has no repetition and at most one element satisfies f *)
Lemma find_is_filter (f : id -> bool) l : NoDup l ->
  (forall a b, In a l -> In b l -> f a = true -> f b = true -> a = b) ->
  opt_list (find f l) = filter f l.
Proof.
  induction l as [|x l IH]; intros Hnd Hu; cbn [find filter]; [reflexivity|].
  inversion Hnd as [|? ? Hx Hl]; subst. destruct (f x) eqn:Ex.
  - cbn [opt_list]. f_equal. symmetry.
    assert (Hnone : forall y, In y l -> f y = false).
    { intros y Hy. destruct (f y) eqn:Ey; [|reflexivity]. exfalso. apply Hx.
      rewrite (Hu x y (or_introl eq_refl) (or_intror Hy) Ex Ey). exact Hy. }
    clear -Hnone. induction l as [|y l IH]; cbn [filter]; [reflexivity|].
    rewrite (Hnone y (or_introl eq_refl)). apply IH. intros z Hz. apply Hnone. right. exact Hz.
  - apply IH; [exact Hl|]. intros a b Ha Hb. apply Hu; right; assumption.
Qed.

Lemma scan_lookup_same s xs v : NoDup xs ->
  (forall c1 c2 w, In c1 xs -> In c2 xs -> key_of s str_NAME c1 = Some w -> key_of s str_NAME c2 = Some w -> c1 = c2) ->
  opt_list (NS.scan_lookup s xs str_NAME v) = Filter.scan_lookup (key_of s str_NAME) (fold_of s str_NAME) xs v.
Proof.
  intros Hnd Hu. unfold NS.scan_lookup, Filter.scan_lookup.
  rewrite (find_ext _ (fun c => has_key (key_of s str_NAME) c && xeq (key_of s str_NAME) (fold_of s str_NAME) v c)).
  - apply find_is_filter; [exact Hnd|]. intros a b Ha Hb Fa Fb.
    unfold has_key, xeq, Filter.val, fold_of in Fa, Fb. change (str_eqb str_NAME str_IDENT) with false in Fa, Fb. cbn [andb] in Fa, Fb.
    destruct (key_of s str_NAME a) as [wa|] eqn:Ka; [|discriminate]. destruct (key_of s str_NAME b) as [wb|] eqn:Kb; [|discriminate].
    cbn [value_or_empty andb] in Fa, Fb.
    apply str_eqb_spec in Fa. apply str_eqb_spec in Fb. subst wa wb. apply (Hu a b v Ha Hb Ka Kb).
  - intro x. unfold has_key, xeq, Filter.val, fold_of, key_of, get_str. change (str_eqb str_NAME str_IDENT) with false. cbn [andb].
    destruct (sassoc str_NAME (data s x)) as [[w| | |]|]; reflexivity.
Qed.

(* under .NAME the namespace table answers like the scan: sibling names are pairwise different (C10)
   and no child is listed twice (C01); a parent without a table is scanned *)
Theorem lookok_name s reg r :
  NsInv s -> ns_rel r = true -> (forall p, NoDup (kids s r p)) -> LookOK s reg str_NAME r.
Proof.
  intros HN Hr Hnd p v. unfold lk_of. destruct (reg && registered_key str_NAME); [|reflexivity].
  destruct (nstab s p) as [t|] eqn:Et; [|reflexivity].
  assert (Hi : ns_indexes t str_NAME = true) by (unfold ns_indexes; destruct (ns_pol t); [apply str_eqb_refl|reflexivity]).
  rewrite Hi. rewrite (lookup_is_scan_name s p t r v HN Et Hr). apply scan_lookup_same; [apply Hnd|].
  intros c1 c2 w H1 H2 K1 K2. apply (names_unique s p t r c1 c2 w HN Et Hr H1 H2 K1 K2).
Qed.

(* under the DEFAULT policy the namespaces keep no index for any other key (EDIF.identifier): the
   registered lookup answers NotImplemented and global_service.lookup scans (finding C13-K3 repaired:
   it used to answer "nothing") *)
Theorem lookok_default_policy s reg k r :
  (forall p t, nstab s p = Some t -> ns_pol t = PolDefault) -> str_eqb k str_NAME = false -> LookOK s reg k r.
Proof.
  intros Hd Hk p v. unfold lk_of. destruct (reg && registered_key k); [|reflexivity].
  destruct (nstab s p) as [t|] eqn:Et; [|reflexivity].
  unfold ns_indexes. rewrite (Hd p t Et), Hk. reflexivity.
Qed.

(* a key for which no fast lookup is registered (user keys), or any key with the lookups deregistered:
   global_service.lookup is the scan - no hypothesis on the values (since the repair of finding C13-K5) *)
Theorem lookok_scan s reg k r : reg && registered_key k = false -> LookOK s reg k r.
Proof. intros H p v. unfold lk_of. rewrite H. reflexivity. Qed.

(* ---- the clauses of C13 that hold for every two-stage function, stated per function ---- *)
Section Clauses.
Variable s : state.
Variable o : qopts.
Notation key := (key_of s (q_key o)).
Notation fold := (fold_of s (q_key o)).
Notation o_scan := (mkQ false (q_case o) (q_re o) (q_key o) (q_cb o)).

Theorem instances_filters_unfiltered fuel roots rec inside pats res ures :
  LookOK s (q_reg o) (q_key o) RChildren -> ~ In [] pats ->
  query_instances s o fuel roots rec inside pats = WOk res ->
  query_instances s (unfiltered o) fuel roots rec inside star_pat = WOk ures ->
  forall e, In e res <-> In e ures /\ sel_match (q_case o) (q_re o) key fold pats e = true.
Proof. apply filters_unfiltered. Qed.
Theorem instances_pattern_order fuel roots rec inside pats pats' res res' :
  LookOK s (q_reg o) (q_key o) RChildren -> ~ In [] pats -> Permutation pats pats' ->
  query_instances s o fuel roots rec inside pats = WOk res ->
  query_instances s o fuel roots rec inside pats' = WOk res' -> forall e, In e res <-> In e res'.
Proof. apply pattern_order_irrelevant. Qed.
Theorem instances_fast_eq_scan fuel roots rec inside pats :
  LookOK s (q_reg o) (q_key o) RChildren ->
  query_instances s o fuel roots rec inside pats = query_instances s o_scan fuel roots rec inside pats.
Proof. apply two_stage_fast_eq_scan. Qed.

Theorem definitions_filters_unfiltered fuel roots rec inside pats res ures :
  LookOK s (q_reg o) (q_key o) RDefs -> ~ In [] pats ->
  query_definitions s o fuel roots rec inside pats = WOk res ->
  query_definitions s (unfiltered o) fuel roots rec inside star_pat = WOk ures ->
  forall e, In e res <-> In e ures /\ sel_match (q_case o) (q_re o) key fold pats e = true.
Proof. apply filters_unfiltered. Qed.
Theorem definitions_pattern_order fuel roots rec inside pats pats' res res' :
  LookOK s (q_reg o) (q_key o) RDefs -> ~ In [] pats -> Permutation pats pats' ->
  query_definitions s o fuel roots rec inside pats = WOk res ->
  query_definitions s o fuel roots rec inside pats' = WOk res' -> forall e, In e res <-> In e res'.
Proof. apply pattern_order_irrelevant. Qed.
Theorem definitions_fast_eq_scan fuel roots rec inside pats :
  LookOK s (q_reg o) (q_key o) RDefs ->
  query_definitions s o fuel roots rec inside pats = query_definitions s o_scan fuel roots rec inside pats.
Proof. apply two_stage_fast_eq_scan. Qed.

Theorem libraries_filters_unfiltered fuel roots rec inside pats res ures :
  LookOK s (q_reg o) (q_key o) RLibs -> ~ In [] pats ->
  query_libraries s o fuel roots rec inside pats = WOk res ->
  query_libraries s (unfiltered o) fuel roots rec inside star_pat = WOk ures ->
  forall e, In e res <-> In e ures /\ sel_match (q_case o) (q_re o) key fold pats e = true.
Proof. apply filters_unfiltered. Qed.
Theorem libraries_pattern_order fuel roots rec inside pats pats' res res' :
  LookOK s (q_reg o) (q_key o) RLibs -> ~ In [] pats -> Permutation pats pats' ->
  query_libraries s o fuel roots rec inside pats = WOk res ->
  query_libraries s o fuel roots rec inside pats' = WOk res' -> forall e, In e res <-> In e res'.
Proof. apply pattern_order_irrelevant. Qed.
Theorem libraries_fast_eq_scan fuel roots rec inside pats :
  LookOK s (q_reg o) (q_key o) RLibs ->
  query_libraries s o fuel roots rec inside pats = query_libraries s o_scan fuel roots rec inside pats.
Proof. apply two_stage_fast_eq_scan. Qed.

Theorem ports_filters_unfiltered fuel roots pats res ures :
  LookOK s (q_reg o) (q_key o) RPorts -> ~ In [] pats ->
  query_ports s o fuel roots pats = WOk res ->
  query_ports s (unfiltered o) fuel roots star_pat = WOk ures ->
  forall e, In e res <-> In e ures /\ sel_match (q_case o) (q_re o) key fold pats e = true.
Proof. apply filters_unfiltered. Qed.
Theorem ports_pattern_order fuel roots pats pats' res res' :
  LookOK s (q_reg o) (q_key o) RPorts -> ~ In [] pats -> Permutation pats pats' ->
  query_ports s o fuel roots pats = WOk res ->
  query_ports s o fuel roots pats' = WOk res' -> forall e, In e res <-> In e res'.
Proof. apply pattern_order_irrelevant. Qed.
Theorem ports_fast_eq_scan fuel roots pats :
  LookOK s (q_reg o) (q_key o) RPorts ->
  query_ports s o fuel roots pats = query_ports s o_scan fuel roots pats.
Proof. apply two_stage_fast_eq_scan. Qed.
Theorem ports_NoDup fuel roots pats res : query_ports s o fuel roots pats = WOk res -> NoDup res.
Proof.
  intro H. unfold query_ports in H. destruct (two_stage_ok _ _ _ _ _ _ _ _ H) as (ps & os & E). rewrite E in H.
  apply (two_stage_NoDup s o false BNames RPorts ps os pats res). exact H.
Qed.

Theorem cables_filters_unfiltered fuel roots rec x pats res ures :
  LookOK s (q_reg o) (q_key o) RCables -> ~ In [] pats ->
  query_cables s o fuel roots rec x pats = WOk res ->
  query_cables s (unfiltered o) fuel roots rec x star_pat = WOk ures ->
  forall e, In e res <-> In e ures /\ sel_match (q_case o) (q_re o) key fold pats e = true.
Proof. apply filters_unfiltered. Qed.
Theorem cables_pattern_order fuel roots rec x pats pats' res res' :
  LookOK s (q_reg o) (q_key o) RCables -> ~ In [] pats -> Permutation pats pats' ->
  query_cables s o fuel roots rec x pats = WOk res ->
  query_cables s o fuel roots rec x pats' = WOk res' -> forall e, In e res <-> In e res'.
Proof. apply pattern_order_irrelevant. Qed.
Theorem cables_fast_eq_scan fuel roots rec x pats :
  LookOK s (q_reg o) (q_key o) RCables ->
  query_cables s o fuel roots rec x pats = query_cables s o_scan fuel roots rec x pats.
Proof. apply two_stage_fast_eq_scan. Qed.
Theorem cables_NoDup fuel roots rec x pats res : query_cables s o fuel roots rec x pats = WOk res -> NoDup res.
Proof.
  intro H. unfold query_cables in H. destruct (two_stage_ok _ _ _ _ _ _ _ _ H) as (ps & os & E). rewrite E in H.
  apply (two_stage_NoDup s o false BNames RCables ps os pats res). exact H.
Qed.
End Clauses.

(* ---- the hierarchical queries get_hinstances / get_hports / get_hpins / get_hcables / get_hwires:
        the filter law over whatever references the function finds for its roots (the candidate
        enumeration of these five is the hier engine's, Hier/*.v). [refs] = the unfiltered result
        (duplicate-free), [hname] = the hierarchical name the patterns are matched against; nothing is
        yielded before the patterns are looked at (in_yield = []): since the repair of finding C13-K6
        this holds for every kind of root and every selection, not only for netlist / instance-reference
        roots. Result for a pattern = unfiltered result restricted to the matches; no duplicates. ---- *)
Theorem hier_filters_unfiltered ic ir hname refs pats : NoDup refs ->
  NoDup (run_hier ic ir hname refs [] pats) /\
  forall e, In e (run_hier ic ir hname refs [] pats) <->
            In e (run_hier true false hname refs [] star_pat) /\ existsb (fun p => matches_b ic ir p (hname e)) pats = true.
Proof.
  intros Hn. destruct (run_hier_spec ic ir hname refs [] pats Hn) as [Hd Hs]. split; [exact Hd|].
  destruct (run_hier_spec true false hname refs [] star_pat Hn) as [_ Hu].
  intro e. rewrite Hs, Hu. unfold star_pat. cbn [existsb]. rewrite star_matches. cbn. tauto.
Qed.

Theorem hier_unfiltered hname refs : NoDup refs ->
  forall e, In e (run_hier true false hname refs [] star_pat) <-> In e refs.
Proof.
  intros Hn e. destruct (run_hier_spec true false hname refs [] star_pat Hn) as [_ Hu]. rewrite Hu.
  unfold star_pat. cbn [existsb]. rewrite star_matches. cbn. tauto.
Qed.
