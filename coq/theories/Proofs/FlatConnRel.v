(* C09, connectivity: the electrical partition read off a pin -> wire map, and what dissolving one
   instance-pin boundary (flatten._redo_connections for one pin) does to it. Pure: no model state. *)
From Coq Require Import List Arith Bool Relations.
From SV Require Import Base.Base IR.State.
Import ListNotations.

Definition pwmap := pin -> option id.

(* _redo_connections(inst, port) for the inner pin i, on the pin -> wire map: both pins of the boundary
   come off their wires; if both were wired, everything on the inner wire goes to the outer wire *)
Definition dissolve (pw : pwmap) (inst i : id) : pwmap :=
  fun p => if pin_eqb p (POut inst i) || pin_eqb p (PIn i) then None
           else match pw (POut inst i), pw (PIn i) with
                | Some ow, Some iw => match pw p with Some w => Some (if Nat.eqb w iw then ow else w) | None => None end
                | _, _ => pw p
                end.

Lemma out_ne_in n j i : POut n j <> PIn i. Proof. discriminate. Qed.
Lemma in_ne_out n j i : PIn j <> POut n i. Proof. discriminate. Qed.

Section Rel.
  (* the instances whose port boundaries count (those of the design) *)
  Variable D : id -> Prop.

  (* wire u (holding the instance pin (n, j)) is tied to wire v (holding the port pin j inside n) *)
  Definition wl (pw : pwmap) (u v : id) : Prop := exists n j, D n /\ pw (POut n j) = Some u /\ pw (PIn j) = Some v.
  Definition wconn (pw : pwmap) : id -> id -> Prop := clos_refl_sym_trans id (wl pw).
  (* two pins are electrically connected: both are wired and their wires are tied *)
  Definition E (pw : pwmap) (p q : pin) : Prop := exists u v, pw p = Some u /\ pw q = Some v /\ wconn pw u v.

  Lemma wl_ext pw pw' : (forall p, pw' p = pw p) -> forall u v, wl pw' u v <-> wl pw u v.
  Proof.
    intros H u v. split; intros [n [j [Hd [A B]]]]; exists n, j.
    - rewrite !H in A, B. auto.
    - rewrite !H. auto.
  Qed.

  Lemma wconn_incl (R R' : id -> id -> Prop) :
    (forall u v, R u v -> clos_refl_sym_trans id R' u v) -> forall u v, clos_refl_sym_trans id R u v -> clos_refl_sym_trans id R' u v.
  Proof.
    intros H u v. induction 1 as [u v Huv|u|u v _ IH|u v w _ IH1 _ IH2]; [apply H; exact Huv|apply rst_refl|apply rst_sym; exact IH|].
    eapply rst_trans; eassumption.
  Qed.

  Lemma E_ext pw pw' : (forall p, pw' p = pw p) -> forall p q, E pw' p q <-> E pw p q.
  Proof.
    intros H p q. split; intros [u [v [A [B C]]]]; exists u, v.
    - rewrite H in A, B. split; [exact A|split; [exact B|]].
      eapply wconn_incl; [|exact C]. intros a b Hab. apply rst_step. apply (wl_ext pw pw' H). exact Hab.
    - rewrite !H. split; [exact A|split; [exact B|]].
      eapply wconn_incl; [|exact C]. intros a b Hab. apply rst_step. apply (wl_ext pw pw' H). exact Hab.
  Qed.

  Lemma E_sym pw p q : E pw p q -> E pw q p.
  Proof. intros [u [v [A [B C]]]]. exists v, u. split; [exact B|split; [exact A|apply rst_sym; exact C]]. Qed.

  Lemma E_trans pw p q r : E pw p q -> E pw q r -> E pw p r.
  Proof.
    intros [u [v [A [B C]]]] [v' [w [B' [C' F]]]]. assert (v' = v) by congruence. subst v'.
    exists u, w. split; [exact A|split; [exact C'|eapply rst_trans; eassumption]].
  Qed.

  (* when no boundary is wired on both sides, connected = on the same wire *)
  Lemma E_no_links pw :
    (forall n j, D n -> pw (POut n j) = None \/ pw (PIn j) = None) ->
    forall p q, E pw p q <-> exists w, pw p = Some w /\ pw q = Some w.
  Proof.
    intros H p q. split.
    - intros [u [v [A [B C]]]]. assert (u = v); [|subst v; exists u; split; assumption].
      clear A B. induction C as [u v [n [j [Hd [X Y]]]]|u|u v _ IH|u v w _ IH1 _ IH2]; try congruence.
      destruct (H n j Hd) as [Z|Z]; congruence.
    - intros [w [A B]]. exists w, w. split; [exact A|split; [exact B|apply rst_refl]].
  Qed.

  (* dissolving the boundary (inst, i) keeps the partition of all other pins *)
  Theorem dissolve_keeps inst i pw :
    D inst -> (forall n, D n -> n <> inst -> pw (POut n i) = None) ->
    forall p q, p <> POut inst i -> p <> PIn i -> q <> POut inst i -> q <> PIn i ->
      (E (dissolve pw inst i) p q <-> E pw p q).
  Proof.
    intros Hd Hu.
    assert (Hoff : forall p, p <> POut inst i -> p <> PIn i -> pin_eqb p (POut inst i) || pin_eqb p (PIn i) = false).
    { intros p H1 H2. apply orb_false_iff. split.
      - destruct (pin_eqb p (POut inst i)) eqn:X; [apply pin_eqb_spec in X; contradiction|reflexivity].
      - destruct (pin_eqb p (PIn i)) eqn:X; [apply pin_eqb_spec in X; contradiction|reflexivity]. }
    (* a boundary other than (inst, i) that is wired on the outside does not involve the two pins *)
    assert (Hother : forall n j u, D n -> pw (POut n j) = Some u -> (n, j) <> (inst, i) -> POut n j <> POut inst i /\ PIn j <> PIn i).
    { intros n j u Dn Hn Hne. split; [intro X; injection X as -> ->; apply Hne; reflexivity|].
      intro X. injection X as ->. assert (n <> inst) by (intros ->; apply Hne; reflexivity).
      rewrite (Hu n Dn H) in Hn. discriminate. }
    destruct (pw (POut inst i)) as [ow|] eqn:Eo; [destruct (pw (PIn i)) as [iw|] eqn:Ei|].
    - (* both wired: the inner wire is merged into the outer one *)
      set (f := fun w => if Nat.eqb w iw then ow else w).
      assert (Hd' : forall p, p <> POut inst i -> p <> PIn i -> dissolve pw inst i p = option_map f (pw p)).
      { intros p H1 H2. unfold dissolve. rewrite (Hoff p H1 H2), Eo, Ei. destruct (pw p); reflexivity. }
      assert (Hlink : wconn pw ow iw) by (apply rst_step; exists inst, i; auto).
      assert (Hf : forall w, wconn pw w (f w)).
      { intro w. unfold f. destruct (Nat.eqb_spec w iw) as [->|]; [apply rst_sym; exact Hlink|apply rst_refl]. }
      assert (Hfwd : forall u v, wconn pw u v -> wconn (dissolve pw inst i) (f u) (f v)).
      { apply (wconn_incl (wl pw) (fun a b => wl (dissolve pw inst i) (f a) (f b))) with (R' := fun a b => wl (dissolve pw inst i) (f a) (f b)) || idtac.
        intros u v C. induction C as [u v [n [j [Dn [X Y]]]]|u|u v _ IH|u v w _ IH1 _ IH2];
          [|apply rst_refl|apply rst_sym; exact IH|eapply rst_trans; eassumption].
        destruct (Nat.eq_dec n inst) as [->|Hn]; [destruct (Nat.eq_dec j i) as [->|Hj]|].
        - assert (u = ow) by congruence. assert (v = iw) by congruence. subst u v.
          unfold f. rewrite Nat.eqb_refl. destruct (Nat.eqb ow iw); apply rst_refl.
        - destruct (Hother inst j u Dn X (fun Z => Hj (f_equal snd Z))) as [N1 N2].
          apply rst_step. exists inst, j. split; [exact Dn|]. rewrite (Hd' _ N1 (out_ne_in _ _ _)), (Hd' _ (in_ne_out _ _ _) N2), X, Y. split; reflexivity.
        - destruct (Hother n j u Dn X (fun Z => Hn (f_equal fst Z))) as [N1 N2].
          apply rst_step. exists n, j. split; [exact Dn|]. rewrite (Hd' _ N1 (out_ne_in _ _ _)), (Hd' _ (in_ne_out _ _ _) N2), X, Y. split; reflexivity. }
      assert (Hbwd : forall u v, wconn (dissolve pw inst i) u v -> wconn pw u v).
      { apply wconn_incl. intros u v [n [j [Dn [X Y]]]].
        assert (N1 : POut n j <> POut inst i /\ POut n j <> PIn i).
        { split; [|discriminate]. intro Z. rewrite Z in X. unfold dissolve in X. rewrite pin_eqb_refl in X. discriminate X. }
        assert (N2 : PIn j <> POut inst i /\ PIn j <> PIn i).
        { split; [discriminate|]. intro Z. rewrite Z in Y. unfold dissolve in Y. rewrite pin_eqb_refl, orb_true_r in Y. discriminate Y. }
        rewrite (Hd' _ (proj1 N1) (proj2 N1)) in X. rewrite (Hd' _ (proj1 N2) (proj2 N2)) in Y.
        destruct (pw (POut n j)) as [u0|] eqn:X0; [|discriminate X]. destruct (pw (PIn j)) as [v0|] eqn:Y0; [|discriminate Y].
        injection X as <-. injection Y as <-.
        eapply rst_trans; [apply rst_sym, Hf|]. eapply rst_trans; [|apply Hf]. apply rst_step. exists n, j. auto. }
      intros p q P1 P2 Q1 Q2. split.
      + intros [u [v [A [B C]]]]. rewrite (Hd' p P1 P2) in A. rewrite (Hd' q Q1 Q2) in B.
        destruct (pw p) as [u0|] eqn:A0; [|discriminate A]. destruct (pw q) as [v0|] eqn:B0; [|discriminate B].
        injection A as <-. injection B as <-. exists u0, v0. split; [exact A0|split; [exact B0|]].
        eapply rst_trans; [apply Hf|]. eapply rst_trans; [apply Hbwd; exact C|apply rst_sym, Hf].
      + intros [u [v [A [B C]]]]. exists (f u), (f v). rewrite (Hd' p P1 P2), (Hd' q Q1 Q2), A, B.
        split; [reflexivity|split; [reflexivity|apply Hfwd; exact C]].
    - (* only the outer side wired: the two pins just come off *)
      assert (Hd' : forall p, p <> POut inst i -> p <> PIn i -> dissolve pw inst i p = pw p).
      { intros p H1 H2. unfold dissolve. rewrite (Hoff p H1 H2), Eo, Ei. reflexivity. }
      assert (Hsame : forall u v, wl (dissolve pw inst i) u v <-> wl pw u v).
      { intros u v. split; intros [n [j [Dn [X Y]]]].
        - assert (N1 : POut n j <> POut inst i) by (intro Z; rewrite Z in X; unfold dissolve in X; rewrite pin_eqb_refl in X; discriminate X).
          assert (N2 : PIn j <> PIn i) by (intro Z; rewrite Z in Y; unfold dissolve in Y; rewrite pin_eqb_refl, orb_true_r in Y; discriminate Y).
          rewrite (Hd' _ N1 (out_ne_in _ _ _)) in X. rewrite (Hd' _ (in_ne_out _ _ _) N2) in Y. exists n, j. auto.
        - assert (Hne : (n, j) <> (inst, i)) by (intro Z; injection Z as -> ->; congruence).
          destruct (Hother n j u Dn X Hne) as [N1 N2]. exists n, j. rewrite (Hd' _ N1 (out_ne_in _ _ _)), (Hd' _ (in_ne_out _ _ _) N2). auto. }
      intros p q P1 P2 Q1 Q2. unfold E. rewrite (Hd' p P1 P2), (Hd' q Q1 Q2).
      split; intros [u [v [A [B C]]]]; exists u, v; (split; [exact A|split; [exact B|]]);
        (eapply wconn_incl; [|exact C]); intros a b Hab; apply rst_step; apply Hsame; exact Hab.
    - assert (Hd' : forall p, p <> POut inst i -> p <> PIn i -> dissolve pw inst i p = pw p).
      { intros p H1 H2. unfold dissolve. rewrite (Hoff p H1 H2), Eo. reflexivity. }
      assert (Hsame : forall u v, wl (dissolve pw inst i) u v <-> wl pw u v).
      { intros u v. split; intros [n [j [Dn [X Y]]]].
        - assert (N1 : POut n j <> POut inst i) by (intro Z; rewrite Z in X; unfold dissolve in X; rewrite pin_eqb_refl in X; discriminate X).
          assert (N2 : PIn j <> PIn i) by (intro Z; rewrite Z in Y; unfold dissolve in Y; rewrite pin_eqb_refl, orb_true_r in Y; discriminate Y).
          rewrite (Hd' _ N1 (out_ne_in _ _ _)) in X. rewrite (Hd' _ (in_ne_out _ _ _) N2) in Y. exists n, j. auto.
        - assert (Hne : (n, j) <> (inst, i)) by (intro Z; injection Z as -> ->; congruence).
          destruct (Hother n j u Dn X Hne) as [N1 N2]. exists n, j. rewrite (Hd' _ N1 (out_ne_in _ _ _)), (Hd' _ (in_ne_out _ _ _) N2). auto. }
      intros p q P1 P2 Q1 Q2. unfold E. rewrite (Hd' p P1 P2), (Hd' q Q1 Q2).
      split; intros [u [v [A [B C]]]]; exists u, v; (split; [exact A|split; [exact B|]]);
        (eapply wconn_incl; [|exact C]); intros a b Hab; apply rst_step; apply Hsame; exact Hab.
  Qed.
End Rel.
