(* clone() of any element keeps the structural invariant, in every state reachable by editing calls. *)
From Coq Require Import List Arith Bool Lia.
From SV Require Import Base.Base IR.State IR.NS IR.Ops Xform.Clone Proofs.Inv1a Proofs.Inv2a Proofs.InvP Proofs.InvW Proofs.Fresh Proofs.NsInv
  Proofs.RefK Proofs.FieldT Proofs.CloneFull Proofs.KindD Proofs.CloneSmallInv Proofs.CloneLibInv Proofs.CloneNetInv.
Import ListNotations.

Theorem clone_any_reachable_inv ops e :
  let s := run ops init in
  (kind_of s e = Some KNetlist -> Closed s e) ->
  snd (fst (clone_any s e)) = None -> Inv (fst (fst (clone_any s e))).
Proof.
  cbn zeta. intros Hcl. destruct (reachable_uf ops) as [HI [HT [F [FT0 K0]]]]. destruct (reachable_refd_topk ops) as [HD HTop].
  unfold clone_any. destruct (kind_of (run ops init) e) as [k|] eqn:Hk; [|cbn; discriminate].
  assert (He : e < next (run ops init)).
  { destruct (Nat.lt_ge_cases e (next (run ops init))) as [H|H]; [exact H|]. rewrite (f_kind _ F e H) in Hk. discriminate. }
  destruct k.
  - apply clone_netlist_reachable_inv; [exact Hk|apply Hcl; reflexivity].
  - apply clone_library_reachable_inv. exact Hk.
  - apply clone_definition_inv; assumption.
  - intros _. apply clone_port_inv; assumption.
  - intros _. apply clone_cable_inv; assumption.
  - intros _. apply clone_wire_inv; assumption.
  - intros _. apply clone_pin_inv; assumption.
  - apply clone_instance_inv; assumption.
Qed.
