(* Tools for reasoning about one dispatch table of Query/Enum.v: tables without marks, the one-step
   view (what an item records / appends), closures of relations, and the correspondence between
   reachability in the loop and reflexive-transitive closures of heap relations. *)
From Coq Require Import List Arith Bool Lia Relations.
From SV Require Import Base.Base IR.State IR.NS IR.Ops Proofs.Inv1a Proofs.Inv2a Proofs.InvW
  Hier.Paths Hier.Enum Hier.Trace Proofs.KindD Query.Filter Query.Enum Query.EnumSpec
  Proofs.QueryEnumWL Proofs.QueryEnumBase.
Import ListNotations.

(* acts without marks *)
Definition plain {T} (a : act T) : Prop := match a with AMark _ _ _ => False | _ => True end.

Lemma plain_push_ids {T} l : Forall (@plain T) (push_ids l).
Proof. apply Forall_forall. intros a H. apply in_push_ids in H as (x & _ & ->). exact I. Qed.
Lemma plain_oth_ids l : Forall plain (oth_ids l).
Proof. apply Forall_forall. intros a H. apply in_oth_ids in H as (x & _ & ->). exact I. Qed.
Lemma plain_push_opt {T} o : Forall (@plain T) (push_opt o).
Proof. apply Forall_forall. intros a H. apply in_push_opt in H as (x & _ & ->). exact I. Qed.
Lemma plain_flat_map {T A} (f : A -> list (act T)) l : (forall x, Forall plain (f x)) -> Forall plain (flat_map f l).
Proof.
  intro H. apply Forall_forall. intros a Ha. apply in_flat_map in Ha as (x & _ & Hx).
  specialize (H x). rewrite Forall_forall in H. apply H, Hx.
Qed.
Lemma plain_no_marks {T} (acts : item -> list (act T)) : (forall x, Forall plain (acts x)) -> no_marks acts.
Proof. intros H x c os ys Hin. specialize (H x). rewrite Forall_forall in H. apply (H _ Hin). Qed.


(* one-step view of a dispatch table *)
Section View.
Context {T : Type}.
Variable acts : item -> list (act T).
Definition succs (x : item) : list item := flat_map succ_of (acts x).
Definition emits (x : item) : list T := flat_map emit_of (acts x).
Lemma step_succs x y : step acts x y <-> In y (succs x).
Proof. unfold step, succs. rewrite in_flat_map. tauto. Qed.
Lemma emits_iff x o :
  Emits acts x o <-> In o (emits x) \/ exists y, In y (succs x) /\ Emits acts y o.
Proof.
  rewrite emits_unfold. unfold emits. rewrite in_flat_map.
  split; (intros [H|(y & Hy & He)]; [left; exact H|right; exists y; split; [apply step_succs; exact Hy|exact He]]).
Qed.
(* an item whose statements only append: it leads to what the appended items lead to *)
Lemma emits_through x o :
  emits x = [] -> (Emits acts x o <-> exists y, In y (succs x) /\ Emits acts y o).
Proof. intro E. rewrite emits_iff, E. cbn. tauto. Qed.
Lemma emits_leaf x o : succs x = [] -> (Emits acts x o <-> In o (emits x)).
Proof. intro E. rewrite emits_iff, E. cbn. split; [intros [H|(y & [] & _)]; exact H|auto]. Qed.
End View.

Lemma succ_push_ids {T} l : flat_map (@succ_of T) (push_ids l) = map IE l.
Proof. induction l as [|x l IH]; cbn; [reflexivity|f_equal; exact IH]. Qed.
Lemma emit_push_ids {T} l : flat_map (@emit_of T) (push_ids l) = [].
Proof. induction l as [|x l IH]; cbn; [reflexivity|exact IH]. Qed.
Lemma succ_oth_ids l : flat_map succ_of (oth_ids l) = [].
Proof. induction l as [|x l IH]; cbn; [reflexivity|exact IH]. Qed.
Lemma emit_oth_ids l : flat_map emit_of (oth_ids l) = map OOth l.
Proof. induction l as [|x l IH]; cbn; [reflexivity|f_equal; exact IH]. Qed.
Lemma succ_push_opt {T} o : flat_map (@succ_of T) (push_opt o) = match o with Some x => [IE x] | None => [] end.
Proof. destruct o; reflexivity. Qed.
Lemma emit_push_opt {T} o : flat_map (@emit_of T) (push_opt o) = [].
Proof. destruct o; reflexivity. Qed.
Lemma flat_map_flat_map {A B C} (f : B -> list C) (g : A -> list B) l :
  flat_map f (flat_map g l) = flat_map (fun x => flat_map f (g x)) l.
Proof. induction l as [|x l IH]; cbn; [reflexivity|]. rewrite flat_map_app, IH. reflexivity. Qed.
Lemma flat_map_nil {A B} (f : A -> list B) l : (forall x, In x l -> f x = []) -> flat_map f l = [].
Proof. induction l as [|x l IH]; intro H; cbn; [reflexivity|]. rewrite (H x (or_introl eq_refl)). apply IH. intros y Hy. apply H. right. exact Hy. Qed.


(* ---- closures ---- *)
Section Rel.
Context {A : Type}.
Variable R : A -> A -> Prop.
Lemma rt_flip x y : clos_refl_trans A (fun a b => R b a) x y <-> clos_refl_trans A R y x.
Proof.
  split; intro H; induction H as [a b H|a|a b c _ IH1 _ IH2];
    try (apply rt_step; exact H); try apply rt_refl; eapply rt_trans; eassumption.
Qed.
Lemma t_flip x y : clos_trans A (fun a b => R b a) x y <-> clos_trans A R y x.
Proof.
  split; intro H; induction H as [a b H|a b c _ IH1 _ IH2];
    try (apply t_step; exact H); eapply t_trans; eassumption.
Qed.
Lemma t_rt x y : clos_trans A R x y -> clos_refl_trans A R x y.
Proof. induction 1 as [a b H|a b c _ IH1 _ IH2]; [apply rt_step; exact H|eapply rt_trans; eassumption]. Qed.
Lemma t_split_l x y : clos_trans A R x y <-> exists c, R x c /\ clos_refl_trans A R c y.
Proof.
  split.
  - intro H. apply clos_trans_t1n in H. destruct H as [y H|c y H Hr].
    + exists y. split; [exact H|apply rt_refl].
    + exists c. split; [exact H|]. apply t_rt, clos_t1n_trans. exact Hr.
  - intros (c & H & Hr). apply clos_rt_rt1n in Hr. revert x H.
    induction Hr as [c|c d y Hcd _ IH]; intros x H; [apply t_step; exact H|].
    eapply t_trans; [apply t_step; exact H|apply IH; exact Hcd].
Qed.
Lemma t_split_r x y : clos_trans A R x y <-> exists c, clos_refl_trans A R x c /\ R c y.
Proof.
  split.
  - intro H. apply clos_trans_tn1 in H. destruct H as [y H|c y H Hr].
    + exists x. split; [apply rt_refl|exact H].
    + exists c. split; [apply t_rt, clos_tn1_trans; exact Hr|exact H].
  - intros (c & Hr & H). apply clos_rt_rtn1 in Hr. revert y H.
    induction Hr as [|c d Hcd _ IH]; intros y H; [apply t_step; exact H|].
    eapply t_trans; [apply IH; exact Hcd|apply t_step; exact H].
Qed.
End Rel.

Section Closure.
Context {T : Type}.
Variable acts : item -> list (act T).
(* a property of the start that every step keeps holds of everything reached *)
Lemma reach_invariant (P : item -> Prop) x y :
  P x -> (forall a b, P a -> In b (succs acts a) -> P b) -> Reach acts x y -> P y.
Proof.
  intros Hx Hs Hr. apply clos_rt_rtn1 in Hr. induction Hr as [|b c Hbc _ IH]; [exact Hx|].
  apply (Hs b c IH). apply step_succs. exact Hbc.
Qed.
(* a relation on ids whose steps are steps of the loop (on items f a with Q a) *)
Lemma reach_of_rt (f : id -> item) (R : id -> id -> Prop) (Q : id -> Prop) :
  (forall a b, Q a -> R a b -> In (f b) (succs acts (f a)) /\ Q b) ->
  forall d p, Q d -> clos_refl_trans id R d p -> Reach acts (f d) (f p).
Proof.
  intros Hs d p Hd Hr. apply clos_rt_rt1n in Hr. induction Hr as [d|d r p Hdr _ IH]; [apply reach_refl|].
  destruct (Hs d r Hd Hdr) as [Hin Hq]. eapply reach_step; [apply step_succs; exact Hin|apply IH; exact Hq].
Qed.
Lemma emits_at x y o : Reach acts x y -> In o (emits acts y) -> Emits acts x o.
Proof.
  intros Hr Ho. unfold emits in Ho. apply in_flat_map in Ho as (a & Ha & Ho). exists y, a. auto.
Qed.
Lemma emits_inv x o : Emits acts x o -> exists y, Reach acts x y /\ In o (emits acts y).
Proof.
  intros (y & a & Hr & Ha & Ho). exists y. split; [exact Hr|]. unfold emits. apply in_flat_map. exists a. auto.
Qed.
End Closure.

Lemma star_cases {A} (R : A -> A -> Prop) rec a b :
  star R rec a b -> (rec = true /\ clos_refl_trans A R a b) \/ (rec = false /\ a = b).
Proof. unfold star. destruct rec; auto. Qed.
Lemma star_refl {A} (R : A -> A -> Prop) rec a : star R rec a a.
Proof. unfold star. destruct rec; [apply rt_refl|reflexivity]. Qed.
Lemma star_rt {A} (R : A -> A -> Prop) rec a b : rec = true -> clos_refl_trans A R a b -> star R rec a b.
Proof. intros ->. exact (fun H => H). Qed.
Lemma star_snoc {A} (R : A -> A -> Prop) rec a b c : rec = true -> star R rec a b -> R b c -> star R rec a c.
Proof. intros ->. cbn. intros H1 H2. eapply rt_trans; [exact H1|apply rt_step; exact H2]. Qed.
Lemma star_mono {A} (R R' : A -> A -> Prop) rec a b : (forall x y, R x y -> R' x y) -> star R rec a b -> star R' rec a b.
Proof.
  intro H. unfold star. destruct rec; [|auto]. induction 1 as [x y Hxy|x|x y z _ IH1 _ IH2];
    [apply rt_step, H, Hxy|apply rt_refl|eapply rt_trans; eassumption].
Qed.
Lemma plus_cases {A} (R : A -> A -> Prop) rec a b :
  plus R rec a b -> (rec = true /\ clos_trans A R a b) \/ (rec = false /\ R a b).
Proof. unfold plus. destruct rec; auto. Qed.


Lemma plus_ext {A} (R R' : A -> A -> Prop) rec a b :
  (forall x y, R x y <-> R' x y) -> (plus R rec a b <-> plus R' rec a b).
Proof.
  intro H. unfold plus. destruct rec; [|apply H].
  split; induction 1 as [x y Hxy|x y z _ IH1 _ IH2]; try (apply t_step, H, Hxy); eapply t_trans; eassumption.
Qed.
Lemma plus_flip {A} (R : A -> A -> Prop) rec a b : plus (fun x y => R y x) rec a b <-> plus R rec b a.
Proof. unfold plus. destruct rec; [apply t_flip|tauto]. Qed.


Lemma bool_cases (b : bool) : b = true \/ b = false.
Proof. destruct b; auto. Qed.


(* ---- roots that stand for the definitions in their scope ---- *)
Section Scope.
Context {T : Type}.
Variable s : state.
Hypothesis W : QWF s.
Variable acts : item -> list (act T).
(* a library appends its definitions, a netlist the definitions of its libraries *)
Hypothesis HL : forall l, kind_of s l = Some KLibrary ->
  emits acts (IE l) = [] /\ succs acts (IE l) = map IE (kids s RDefs l).
Hypothesis HN : forall n, kind_of s n = Some KNetlist ->
  emits acts (IE n) = [] /\ succs acts (IE n) = map IE (flat_map (fun l => kids s RDefs l) (kids s RLibs n)).

Lemma scope_kind x d : scope_defs s x d -> kind_of s d = Some KDefinition.
Proof.
  unfold scope_defs. destruct (kind_of s x) as [[]|] eqn:Hk; try contradiction.
  - intros (l & H & _). apply (par_kind s W _ _ _ H).
  - intro H. apply (par_kind s W _ _ _ H).
  - intros ->. exact Hk.
Qed.
Lemma scope_root_kind x d : scope_defs s x d ->
  kind_of s x = Some KDefinition \/ kind_of s x = Some KLibrary \/ kind_of s x = Some KNetlist.
Proof. unfold scope_defs. destruct (kind_of s x) as [[]|]; try contradiction; auto. Qed.

Lemma scope_through x o :
  kind_of s x = Some KDefinition \/ kind_of s x = Some KLibrary \/ kind_of s x = Some KNetlist ->
  (Emits acts (IE x) o <-> exists d, scope_defs s x d /\ Emits acts (IE d) o).
Proof.
  intros [Hk|[Hk|Hk]]; unfold scope_defs; rewrite Hk.
  - split; [intro H; exists x; auto|intros (d & -> & H); exact H].
  - destruct (HL x Hk) as [E1 E2]. rewrite (emits_through acts _ _ E1), E2. split.
    + intros (y & Hy & H). apply in_map_iff in Hy as (d & <- & Hd). exists d.
      split; [apply (kids_par s W); exact Hd|exact H].
    + intros (d & Hd & H). exists (IE d). split; [apply in_map, (kids_par s W); exact Hd|exact H].
  - destruct (HN x Hk) as [E1 E2]. rewrite (emits_through acts _ _ E1), E2. split.
    + intros (y & Hy & H). apply in_map_iff in Hy as (d & <- & Hd). apply in_flat_map in Hd as (l & Hl & Hd). exists d.
      split; [exists l; split; apply (kids_par s W); assumption|exact H].
    + intros (d & (l & Hd & Hl) & H). exists (IE d). split; [|exact H]. apply in_map, in_flat_map. exists l.
      split; apply (kids_par s W); assumption.
Qed.
End Scope.

Lemma net_defs_shape {T} s (n : id) :
  flat_map (@succ_of T) (flat_map (fun l => push_ids (kids s RDefs l)) (kids s RLibs n)) =
  map IE (flat_map (fun l => kids s RDefs l) (kids s RLibs n)) /\
  flat_map (@emit_of T) (flat_map (fun l => push_ids (kids s RDefs l)) (kids s RLibs n)) = [].
Proof.
  rewrite !flat_map_flat_map. split.
  - induction (kids s RLibs n) as [|l ls IH]; cbn; [reflexivity|]. rewrite map_app, succ_push_ids, IH. reflexivity.
  - apply flat_map_nil. intros l _. apply emit_push_ids.
Qed.

(* exactness of a run from one root, for a table without marks *)
Lemma run_one {T} (acts : item -> list (act T)) bad fuel it l :
  (forall x, Forall plain (acts x)) -> wl_run acts bad fuel [it] = WOk l ->
  forall o, In o l <-> Emits acts it o.
Proof.
  intros Hp E o. rewrite (wl_run_exact acts bad fuel [it] l (plain_no_marks acts Hp) E).
  split; [intros (x & [<-|[]] & H); exact H|intro H; exists it; split; [left; reflexivity|exact H]].
Qed.

(* a run from one root, for a table with marks: the final state is closed and sound *)
Lemma run_marks {T} (acts : item -> list (act T)) bad fuel it l :
  wl_run acts bad fuel [it] = WOk l ->
  exists st', l = rev (w_outs st') /\ Done acts st' it /\
    (forall c, In c (w_marks st') -> Fired acts st' [it] c /\ Marks acts it c) /\
    (forall o, In o (w_outs st') -> Emits acts it o).
Proof.
  unfold wl_run. cbn [rev app]. intro H.
  destruct (wl acts bad fuel [it] (mkW [] [])) as [st'| |] eqn:E; try discriminate H. injection H as <-.
  exists st'. split; [reflexivity|].
  destruct (wl_closed acts bad fuel _ _ _ E) as (H1 & H2 & _ & _).
  destruct (wl_sound acts bad fuel _ _ _ E) as (H3 & H4). cbn in *.
  split; [inversion H1; assumption|]. split.
  - intros c Hc. split.
    + destruct (H2 c Hc) as [[]|Hf]. exact Hf.
    + destruct (H4 c Hc) as [[]|(x & [<-|[]] & Hm)]. exact Hm.
  - intros o Ho. destruct (H3 o Ho) as [[]|(x & [<-|[]] & Hm)]. exact Hm.
Qed.

Section Chains.
Context {T : Type}.
Variable acts : item -> list (act T).
(* ---- roots that only hand over to another item: inner pin -> port, wire -> cable, outer pin ->
        instance, valid reference -> item ---- *)
Inductive Chain : item -> id -> Prop :=
| chain_here x : Chain (IE x) x
| chain_push it y x : acts it = [APush y] -> Chain y x -> Chain it x.

Lemma chain_done st' it x : Chain it x -> Done acts st' it -> Done acts st' (IE x).
Proof.
  induction 1 as [x|it y x E _ IH]; intro H; [exact H|]. apply IH. apply done_inv in H as (D1 & _ & _). apply D1. rewrite E. left. reflexivity.
Qed.

Lemma chain_reach it x z : Chain it x -> Reach acts it z -> Reach acts (IE x) z \/ exists y, acts z = [APush y].
Proof.
  induction 1 as [x|it y x E _ IH]; intro H; [left; exact H|].
  apply reach_inv in H as [<-|(y' & (a & Ha & Hy) & Hr)]; [right; exists y; exact E|].
  rewrite E in Ha. destruct Ha as [<-|[]]. cbn in Hy. destruct Hy as [<-|[]]. apply IH, Hr.
Qed.

Lemma chain_marks it x c : Chain it x -> (Marks acts it c <-> Marks acts (IE x) c).
Proof.
  induction 1 as [x|it y x E _ IH]; [tauto|]. rewrite <- IH, (marks_unfold acts it c). unfold step. rewrite E. split.
  - intros [(os & ys & [H|[]])|(y' & (a & [<-|[]] & Hy) & H)]; [discriminate H|]. cbn in Hy. destruct Hy as [<-|[]]. exact H.
  - intro H. right. exists y. split; [exists (APush y); split; [left; reflexivity|left; reflexivity]|exact H].
Qed.

Lemma chain_emits it x o : Chain it x -> (Emits acts it o <-> Emits acts (IE x) o).
Proof.
  induction 1 as [x|it y x E _ IH]; [tauto|]. rewrite <- IH, (emits_unfold acts it o). unfold step. rewrite E. split.
  - intros [(a & [<-|[]] & Ho)|(y' & (a & [<-|[]] & Hy) & H)]; [destruct Ho|]. cbn in Hy. destruct Hy as [<-|[]]. exact H.
  - intro H. right. exists y. split; [exists (APush y); split; [left; reflexivity|left; reflexivity]|exact H].
Qed.

Lemma chain_snoc it x y : Chain it x -> acts (IE x) = [APush (IE y)] -> Chain it y.
Proof.
  induction 1 as [x|it z x E _ IH]; intro H.
  - eapply chain_push; [exact H|apply chain_here].
  - eapply chain_push; [exact E|apply IH, H].
Qed.

End Chains.

(* Tables whose marks never append anything below the root (the marks only suppress repeated
   records): what is recorded is exactly what the root leads to, as for tables without marks. *)
Section Flat.
Context {T : Type}.
Variable acts : item -> list (act T).
Variable bad : item -> bool.
Variable it : item.
(* below [it], a mark appends nothing and what it records is determined by the marked element *)
Hypothesis Hflat : forall y c os ys, Reach acts it y -> In (AMark c os ys) (acts y) -> ys = [].
Hypothesis Hdet : forall y y' c os os' ys ys', Reach acts it y -> Reach acts it y' ->
  In (AMark c os ys) (acts y) -> In (AMark c os' ys') (acts y') -> os = os'.

Lemma flat_done st' y : Done acts st' it -> Reach acts it y -> Done acts st' y.
Proof.
  intros Hd Hr. apply clos_rt_rtn1 in Hr. induction Hr as [|y z (a & Ha & Hz) Hr IH]; [exact Hd|].
  apply clos_rtn1_rt in Hr. apply done_inv in IH as (D1 & _ & _). destruct a as [z'|o|c os ys]; cbn in Hz.
  - destruct Hz as [<-|[]]. apply D1, Ha.
  - destruct Hz.
  - rewrite (Hflat y c os ys Hr Ha) in Hz. destruct Hz.
Qed.

Theorem flat_exact fuel l : wl_run acts bad fuel [it] = WOk l -> forall o, In o l <-> Emits acts it o.
Proof.
  intros H o. apply run_marks in H as (st' & -> & HD & HM & HE). rewrite <- in_rev. split; [apply HE|].
  intros (y & a & Hr & Ha & Ho). pose proof (flat_done st' y HD Hr) as Hdy. apply done_inv in Hdy as (_ & D2 & D3).
  destruct a as [z|o'|c os ys]; cbn in Ho.
  - destruct Ho.
  - destruct Ho as [<-|[]]. apply D2, Ha.
  - pose proof (D3 c os ys Ha) as Hc. destruct (HM c Hc) as [(x0 & y' & os' & ys' & [<-|[]] & Hr' & Ha' & Hos & _) _].
    apply Hos. rewrite <- (Hdet y y' c os os' ys ys' Hr Hr' Ha Ha'). exact Ho.
Qed.
End Flat.
