(* C14 (and the no-phantom clause of C19) for the calls that do not allocate: a refused call
   returns exactly the state it started from - including the announcement log. *)
From Coq Require Import List Arith NArith ZArith Bool.
From RecordUpdate Require Import RecordSet.
From SV Require Import Base.Base IR.State IR.NS IR.Ops.
Import ListNotations RecordSetNotations.

Definition refusal (r : R) : Prop := exists x, snd r = Some x /\ x <> XStuck.

Lemma guard_refused b x s k :
  (forall s1, refusal (k s1) -> fst (k s1) = s1) -> x <> XStuck \/ True ->
  refusal (guard b x s k) -> fst (guard b x s k) = s.
Proof. intros H _. unfold guard. destruct b; [apply H|reflexivity]. Qed.

Lemma ns_dictionary_set_refused s e k v :
  snd (ns_dictionary_set s e k v) <> None -> fst (ns_dictionary_set s e k v) = s.
Proof.
  unfold ns_dictionary_set, ret, raise.
  repeat match goal with
         | |- context [if ?b then _ else _] => destruct b
         | |- context [match ?x with _ => _ end] => destruct x
         end; cbn; congruence.
Qed.

Lemma dict_set_refused s e k v : snd (dict_set s e k v) <> None -> fst (dict_set s e k v) = s.
Proof.
  unfold dict_set. pose proof (ns_dictionary_set_refused s e k v) as H.
  destruct (ns_dictionary_set s e k v) as [s1 [x|]]; cbn in *; [intros _; apply H; discriminate|congruence].
Qed.

Lemma data_fold_left {A} (f : state -> A -> state) l e :
  (forall s x, data (f s x) e = data s e) -> forall s, data (fold_left f l s) e = data s e.
Proof.
  intro H. induction l as [|x l IH]; intro s; cbn; [reflexivity|]. rewrite IH. apply H.
Qed.

Lemma drop_namespace_own_data s e : data (drop_namespace s e) e = data s e.
Proof.
  unfold drop_namespace. apply data_fold_left. intros s0 x.
  destruct (negb (Nat.eqb x e) && has_key (set_nstab s0 x None) x str_NS) eqn:E; cbn; [|reflexivity].
  apply andb_true_iff in E as [E _]. apply negb_true_iff in E.
  unfold upd. rewrite Nat.eqb_sym, E. reflexivity.
Qed.

Lemma ns_dictionary_delete_refused s e k :
  snd (ns_dictionary_delete s e k) <> None -> fst (ns_dictionary_delete s e k) = s.
Proof.
  unfold ns_dictionary_delete, ret, raise.
  repeat match goal with
         | |- context [if ?b then _ else _] => destruct b
         | |- context [match ?x with _ => _ end] => destruct x
         end; cbn; congruence.
Qed.

(* del child['.NS'] inside NamespaceManager.add cannot raise KeyError: the key was just tested *)
Lemma ns_dictionary_delete_NS_data s e :
  data (fst (ns_dictionary_delete s e str_NS)) e = data s e.
Proof.
  unfold ns_dictionary_delete. rewrite str_eqb_refl.
  destruct (ns_parent s e); [reflexivity|].
  destruct (has_key s e str_NS); [apply drop_namespace_own_data|reflexivity].
Qed.

Lemma dict_del_NS_present s e :
  has_key s e str_NS = true -> snd (dict_del s e str_NS) <> None -> fst (dict_del s e str_NS) = s.
Proof.
  intro Hk. unfold dict_del.
  pose proof (ns_dictionary_delete_refused s e str_NS) as H.
  pose proof (ns_dictionary_delete_NS_data s e) as Hd.
  destruct (ns_dictionary_delete s e str_NS) as [s1 [x|]]; cbn [fst snd bindR] in *; [intros _; apply H; discriminate|].
  unfold has_key in *. cbn [data emit]. 
  replace (data (emit s1 (EDictDel e str_NS)) e) with (data s e) by (rewrite <- Hd; reflexivity).
  destruct (sassoc str_NS (data s e)); [cbn; congruence|discriminate].
Qed.

Lemma ns_add_refused s p c ck : snd (ns_add s p c ck) <> None -> fst (ns_add s p c ck) = s.
Proof.
  unfold ns_add.
  destruct (match nstab s p with Some _ => _ | None => _ end); [reflexivity|].
  match goal with |- context [?m >>= _] => set (mid := m) end.
  assert (Hm : snd mid <> None -> fst mid = s).
  { unfold mid. destruct (sassoc str_NS (data s p)).
    - destruct (match sassoc str_NS (data s c) with Some _ => _ | None => _ end); [cbn; congruence|apply dict_set_refused].
    - destruct (has_key s c str_NS) eqn:Hk; [apply dict_del_NS_present; assumption|cbn; congruence]. }
  destruct mid as [s1 [x|]]; cbn in *; [intros _; apply Hm; discriminate|].
  destruct (nstab s1 p); cbn; congruence.
Qed.

Lemma fold_drop_outer_only_stuck n : forall l s0,
  match snd (fold_idsR (fun s i => drop_outer s n i) l s0) with Some x => x = XStuck | None => True end.
Proof.
  induction l as [|i l IH]; intro s0; cbn; [exact I|].
  unfold drop_outer at 1. destruct (assoc i (ipins s0 n)); cbn; [apply IH|reflexivity].
Qed.

Definition only_stuck (r : R) : Prop := match snd r with Some x => x = XStuck | None => True end.

Lemma only_stuck_bind r f : only_stuck r -> (forall s, only_stuck (f s)) -> only_stuck (r >>= f).
Proof. destruct r as [s [x|]]; cbn; auto. Qed.

Lemma only_stuck_fold_idsR f l : (forall s x, only_stuck (f s x)) -> forall s, only_stuck (fold_idsR f l s).
Proof.
  intro H. induction l as [|x l IH]; intro s; cbn; [exact I|]. apply only_stuck_bind; [apply H|apply IH].
Qed.

Lemma only_stuck_fold_pairsR f l : (forall s x, only_stuck (f s x)) -> forall s, only_stuck (fold_pairsR f l s).
Proof.
  intro H. induction l as [|x l IH]; intro s; cbn; [exact I|]. apply only_stuck_bind; [apply H|apply IH].
Qed.

Lemma only_stuck_drop_outer s n i : only_stuck (drop_outer s n i).
Proof. unfold drop_outer, only_stuck. destruct (assoc i (ipins s n)); cbn; auto. Qed.

Lemma only_stuck_rekey s n cn : only_stuck (rekey s n cn).
Proof. unfold rekey, only_stuck. destruct cn. destruct (assoc _ _); cbn; auto. Qed.

Lemma only_stuck_remove_core s r p c : only_stuck (remove_core s r p c).
Proof.
  unfold remove_core. apply only_stuck_bind; [|intro; exact I].
  destruct r; try exact I.
  - apply only_stuck_fold_idsR. intros. apply only_stuck_fold_idsR. intros; apply only_stuck_drop_outer.
  - destruct (par _ RPorts p); [|exact I]. apply only_stuck_fold_idsR. intros; apply only_stuck_drop_outer.
Qed.

Lemma refusal_not_only_stuck r : refusal r -> only_stuck r -> False.
Proof. intros [x [H1 H2]] H. unfold only_stuck in H. rewrite H1 in H. contradiction. Qed.

Lemma op_add_refused s r p c pos : refusal (op_add s r p c pos) -> fst (op_add s r p c pos) = s.
Proof.
  unfold op_add, guard.
  destruct (_ && _); [|reflexivity].
  destruct (add_guard1 s r p c); [|reflexivity].
  destruct (par s r c); [reflexivity|].
  pose proof (ns_add_refused s p c (rel_child r)) as H.
  destruct (ns_rel r).
  - destruct (ns_add s p c (rel_child r)) as [s1 [x|]]; cbn in *.
    + intros _. apply H. discriminate.
    + intros [x [Hx _]]. discriminate.
  - cbn. intros [x [Hx _]]. discriminate.
Qed.

Lemma op_remove_refused s r p c : refusal (op_remove s r p c) -> fst (op_remove s r p c) = s.
Proof.
  unfold op_remove, guard.
  destruct (_ && _); [|reflexivity].
  destruct (par_is s r c p); [|reflexivity].
  intro Hr. exfalso. apply (refusal_not_only_stuck _ Hr).
  apply only_stuck_bind; [apply only_stuck_remove_core|intro; exact I].
Qed.

Lemma op_remove_from_refused s r p cs : refusal (op_remove_from s r p cs) -> fst (op_remove_from s r p cs) = s.
Proof.
  unfold op_remove_from, guard.
  destruct (_ && _); [|reflexivity].
  destruct (forallb _ cs); [|reflexivity].
  intro Hr. exfalso. apply (refusal_not_only_stuck _ Hr).
  apply only_stuck_bind; [|intro; exact I].
  apply only_stuck_fold_idsR. intros; apply only_stuck_remove_core.
Qed.

Lemma op_set_reference_refused s x v : refusal (op_set_reference s x v) -> fst (op_set_reference s x v) = s.
Proof.
  unfold op_set_reference, guard.
  destruct (_ && _); [|reflexivity].
  destruct (match v, iref s x with Some d', Some d => same_shape s d d' | _, _ => true end); [|reflexivity].
  intro Hr. exfalso. apply (refusal_not_only_stuck _ Hr).
  destruct v as [d'|].
  - apply only_stuck_bind; [|intro; exact I].
    destruct (iref _ x); [|exact I].
    apply only_stuck_bind.
    + destruct (memb _ _); cbn; [exact I|reflexivity].
    + intro. apply only_stuck_fold_pairsR. intros; apply only_stuck_rekey.
  - apply only_stuck_bind; [apply only_stuck_fold_idsR; intros; apply only_stuck_drop_outer|].
    intro s3. apply only_stuck_bind; [|intro; exact I].
    destruct (iref _ x); [destruct (memb _ _); cbn; [exact I|reflexivity]|exact I].
Qed.

Lemma op_connect_refused s w p pos : refusal (op_connect s w p pos) -> fst (op_connect s w p pos) = s.
Proof.
  unfold op_connect, guard. destruct (_ && _); [|reflexivity].
  destruct p as [i|n i|]; cbn; [| |reflexivity].
  - destruct (ipwire s i); cbn; [reflexivity|]. intros [x [Hx _]]. discriminate.
  - destruct (assoc i (ipins s n)) as [[w0|]|]; cbn; try reflexivity. intros [x [Hx _]]. discriminate.
Qed.

Lemma simple_refused (b : bool) x s (s' : state) :
  refusal (guard b x s (fun _ => ret s')) -> fst (guard b x s (fun _ => ret s')) = s.
Proof. unfold guard. destruct b; cbn; [intros [y [Hy _]]; discriminate|reflexivity]. Qed.

(* the calls that neither allocate nor delete dictionary entries *)
Definition plain_op (o : op) : bool :=
  match o with
  | OAdd _ _ _ _ | ORemove _ _ _ | ORemoveFrom _ _ _ | OReorder _ _ _ | OReorderWire _ _
  | OConnect _ _ _ | ODisconnect _ _ | ODisconnectFrom _ _ | OSetReference _ _
  | ODSet _ _ _ | OSetName _ (Some _) | OSetDownto _ _ | OSetScalar _ _ | OSetLower _ _
  | OSetDirection _ _ | OSetPolicy _ => true
  | OSetTop _ (TopInst _) | OSetTop _ TopNone => true
  | _ => false
  end.

Theorem refused_changes_nothing s o :
  plain_op o = true -> refusal (step s o) -> fst (step s o) = s.
Proof.
  destruct o; cbn [plain_op step]; try discriminate; intros Hp.
  - apply op_add_refused.
  - apply op_remove_refused.
  - apply op_remove_from_refused.
  - unfold op_reorder, guard. destruct (is_kind _ _ _); [|reflexivity].
    destruct (_ && _); cbn; [intros [y [Hy _]]; discriminate|reflexivity].
  - unfold op_reorder_wire, guard. destruct (is_kind _ _ _); [|reflexivity].
    destruct (_ && _); cbn; [intros [y [Hy _]]; discriminate|reflexivity].
  - apply op_connect_refused.
  - unfold op_disconnect, guard. destruct (_ && _); [|reflexivity].
    destruct (can_disconnect _ _ _); [|reflexivity]. destruct p; cbn; intros [y [Hy _]]; discriminate.
  - unfold op_disconnect_from, guard. destruct (_ && _); [|reflexivity].
    destruct (forallb _ _); cbn; [intros [y [Hy _]]; discriminate|reflexivity].
  - apply op_set_reference_refused.
  - unfold op_set_top, guard. destruct a; try discriminate Hp;
      (destruct (_ && _); [|reflexivity]); cbn; intros [y [Hy _]]; discriminate.
  - destruct nm as [nm|]; [|discriminate]. unfold guard. destruct (elem_has_data s e); [|reflexivity].
    cbn [op_set_name]. intros [y [Hy _]]. apply dict_set_refused. congruence.
  - unfold guard. destruct (elem_has_data s e); [|reflexivity].
    intros [y [Hy _]]. apply dict_set_refused. congruence.
  - unfold guard. destruct (_ || _); cbn; [intros [y [Hy _]]; discriminate|reflexivity].
  - unfold guard. destruct (_ || _); [|reflexivity].
    destruct (negb _); cbn; [intros [y [Hy _]]; discriminate|reflexivity].
  - unfold guard. destruct (_ || _); cbn; [intros [y [Hy _]]; discriminate|reflexivity].
  - unfold guard. destruct (is_kind _ _ _); cbn; [intros [y [Hy _]]; discriminate|reflexivity].
  - cbn. intros [y [Hy _]]. discriminate.
Qed.
