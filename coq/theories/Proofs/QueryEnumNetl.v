(* get_netlists: the netlists collected by the loop of Query/Enum.v are exactly those named by the
   declarative specification Query/EnumSpec.v, for every kind of root (cands_netlists_spec). *)
From Coq Require Import List Arith Bool Lia Relations.
From SV Require Import Base.Base IR.State IR.NS IR.Ops Proofs.Inv1a Proofs.Inv2a Proofs.InvW
  Hier.Paths Hier.Enum Hier.Trace Proofs.KindD Query.Filter Query.Enum Query.EnumSpec
  Proofs.QueryEnumWL Proofs.QueryEnumBase Proofs.QueryEnumView.
Import ListNotations.

Lemma plain_netlists s x : Forall plain (acts_netlists s x).
Proof.
  destruct x as [x|n i| |h]; cbn [acts_netlists].
  - destruct (kind_of s x) as [[]|]; try apply plain_push_opt; repeat constructor.
  - repeat constructor.
  - constructor.
  - apply plain_push_opt.
Qed.

Section Netl.
Variable s : state.
Hypothesis W : QWF s.
Notation A := (acts_netlists s).
Notation Em := (Emits A).

(* an element that only appends its owner (or nothing) *)
Lemma n_up x (o : option id) n :
  emits A (IE x) = [] -> succs A (IE x) = match o with Some y => [IE y] | None => [] end ->
  (Em (IE x) n <-> exists y, o = Some y /\ Em (IE y) n).
Proof.
  intros E1 E2. rewrite (emits_through A _ _ E1), E2. destruct o as [y|].
  - split; [intros (z & [<-|[]] & H); exists y; auto|intros (z & E & H); injection E as <-; exists (IE y); split; [left; reflexivity|exact H]].
  - split; [intros (z & [] & _)|intros (z & E & _); discriminate].
Qed.

Ltac view x Hk := unfold emits, succs; cbn [acts_netlists]; rewrite Hk; rewrite ?emit_push_opt, ?succ_push_opt; reflexivity.

Lemma n_net x n : kind_of s x = Some KNetlist -> (Em (IE x) n <-> n = x).
Proof.
  intro Hk. rewrite (emits_leaf A (IE x) n) by (unfold succs; cbn [acts_netlists]; rewrite Hk; reflexivity).
  unfold emits. cbn [acts_netlists]. rewrite Hk. cbn. split; [intros [<-|[]]; reflexivity|intros ->; left; reflexivity].
Qed.
Lemma n_lib x n : kind_of s x = Some KLibrary -> (Em (IE x) n <-> par s RLibs x = Some n).
Proof.
  intro Hk. rewrite (n_up x (par s RLibs x) n) by view x Hk. split.
  - intros (y & Hy & H). apply (n_net y n (par_parent_kind s W _ _ _ Hy)) in H. subst. exact Hy.
  - intro H. exists n. split; [exact H|]. apply (n_net n n (par_parent_kind s W _ _ _ H)). reflexivity.
Qed.
Lemma n_def x n : kind_of s x = Some KDefinition -> (Em (IE x) n <-> def_netlist s x n).
Proof.
  intro Hk. rewrite (n_up x (par s RDefs x) n) by view x Hk. unfold def_netlist. split.
  - intros (l & Hl & H). apply (n_lib l n (par_parent_kind s W _ _ _ Hl)) in H. exists l. auto.
  - intros (l & Hl & H). exists l. split; [exact Hl|]. apply (n_lib l n (par_parent_kind s W _ _ _ Hl)). exact H.
Qed.
Lemma n_inst x n : kind_of s x = Some KInstance -> (Em (IE x) n <-> exists d, iref s x = Some d /\ def_netlist s d n).
Proof.
  intro Hk. rewrite (n_up x (iref s x) n) by view x Hk.
  split; intros (d & Hd & H); exists d; (split; [exact Hd|]); apply (n_def d n (iref_def_kind s W _ _ Hd)); exact H.
Qed.
Lemma n_port x n : kind_of s x = Some KPort -> (Em (IE x) n <-> exists d, par s RPorts x = Some d /\ def_netlist s d n).
Proof.
  intro Hk. rewrite (n_up x (par s RPorts x) n) by view x Hk.
  split; intros (d & Hd & H); exists d; (split; [exact Hd|]); apply (n_def d n (par_parent_kind s W _ _ _ Hd)); exact H.
Qed.
Lemma n_cable x n : kind_of s x = Some KCable -> (Em (IE x) n <-> exists d, par s RCables x = Some d /\ def_netlist s d n).
Proof.
  intro Hk. rewrite (n_up x (par s RCables x) n) by view x Hk.
  split; intros (d & Hd & H); exists d; (split; [exact Hd|]); apply (n_def d n (par_parent_kind s W _ _ _ Hd)); exact H.
Qed.
Lemma n_pin x n : kind_of s x = Some KPin ->
  (Em (IE x) n <-> exists d, (exists p, par s RPins x = Some p /\ par s RPorts p = Some d) /\ def_netlist s d n).
Proof.
  intro Hk. rewrite (n_up x (par s RPins x) n) by view x Hk. split.
  - intros (p & Hp & H). apply (n_port p n (par_parent_kind s W _ _ _ Hp)) in H as (d & Hd & H). exists d. split; [exists p; auto|exact H].
  - intros (d & (p & Hp & Hd) & H). exists p. split; [exact Hp|]. apply (n_port p n (par_parent_kind s W _ _ _ Hp)). exists d. auto.
Qed.
Lemma n_wire x n : kind_of s x = Some KWire ->
  (Em (IE x) n <-> exists d, (exists c, par s RWires x = Some c /\ par s RCables c = Some d) /\ def_netlist s d n).
Proof.
  intro Hk. rewrite (n_up x (par s RWires x) n) by view x Hk. split.
  - intros (p & Hp & H). apply (n_cable p n (par_parent_kind s W _ _ _ Hp)) in H as (d & Hd & H). exists d. split; [exists p; auto|exact H].
  - intros (d & (p & Hp & Hd) & H). exists p. split; [exact Hp|]. apply (n_cable p n (par_parent_kind s W _ _ _ Hp)). exists d. auto.
Qed.

Lemma n_elem x n : Em (IE x) n <-> netl_elem s x n.
Proof.
  unfold netl_elem, home. destruct (kind_of s x) as [[]|] eqn:Hk.
  - apply n_net, Hk.
  - apply n_lib, Hk.
  - apply n_def, Hk.
  - apply n_port, Hk.
  - apply n_cable, Hk.
  - apply n_wire, Hk.
  - apply n_pin, Hk.
  - apply n_inst, Hk.
  - split; [|intros []]. intro H. apply emits_iff in H. unfold emits, succs in H. cbn [acts_netlists] in H. rewrite Hk in H.
    destruct H as [[]|(y & [] & _)].
Qed.

Lemma n_root it n : Em it n <-> reach_netlists s it n.
Proof.
  unfold reach_netlists. destruct it as [x|m i| |h]; cbn [item_elem].
  - rewrite n_elem. split; [intro H; exists x; auto|intros (y & -> & H); exact H].
  - rewrite (emits_through A (IO m i) n eq_refl). cbn. split.
    + intros (y & [<-|[]] & H). exists i. split; [reflexivity|apply n_elem; exact H].
    + intros (y & -> & H). exists (IE i). split; [left; reflexivity|apply n_elem; exact H].
  - split; [|intros (y & [] & _)]. intro H. apply emits_iff in H. cbn in H. destruct H as [[]|(y & [] & _)].
  - rewrite (emits_through A (IH h) n) by (unfold emits; cbn [acts_netlists]; apply emit_push_opt).
    unfold succs. cbn [acts_netlists]. rewrite succ_push_opt. destruct (href_item s h) as [x|] eqn:Ex.
    + apply (href_item_iff s W) in Ex. split.
      * intros (y & [<-|[]] & H). exists x. split; [exact Ex|apply n_elem; exact H].
      * intros (y & Hy & H). destruct Ex as [_ E]. destruct Hy as [_ E']. rewrite E in E'. injection E' as <-.
        exists (IE x). split; [left; reflexivity|apply n_elem; exact H].
    + split; [intros (y & [] & _)|]. intros (y & Hy & _). apply (href_item_iff s W) in Hy. congruence.
Qed.

Theorem cands_netlists_spec fuel it objs :
  cands_netlists s fuel [it] = WOk objs -> forall n, In n objs <-> reach_netlists s it n.
Proof.
  unfold cands_netlists. intros E n. rewrite (run_one A no_bad fuel it objs (plain_netlists s) E). apply n_root.
Qed.
End Netl.
