(* get_cables with selection ALL, the whole query: the candidates of Proofs/QueryEnumCablesAll.v
   (the cables of the definitions the root stands for - first stage - and cables_all: the cables of
   the wires in the cross-hierarchy closure from the pins the root leads to, and the cables inside the
   instances it leads to - name-map stage) through the two filter stages. *)
From Coq Require Import List Arith Bool Lia Relations.
From SV Require Import Base.Base IR.State IR.NS IR.Ops Hier.Paths Hier.Enum Hier.Trace
  Query.Filter Query.Enum Query.EnumSpec Proofs.QueryFilter
  Proofs.QueryEnumWL Proofs.QueryEnumBase Proofs.QueryEnumView Proofs.QueryEnumFull
  Proofs.QueryEnumWiresAll Proofs.QueryEnumCablesAll.
Import ListNotations.

Theorem query_cables_all_spec s (W : QWF s) o fuel it rec pats res :
  LookOK s (q_reg o) (q_key o) RCables -> ~ In [] pats ->
  query_cables s o fuel [it] rec SAll pats = WOk res ->
  NoDup res /\
  forall e, In e res <->
    ((exists d, lead_defs s it d /\ par s RCables e = Some d) \/ cables_all s it e) /\
    (sel_match (q_case o) (q_re o) (key_of s (q_key o)) (fold_of s (q_key o)) pats e = true /\ q_cb o e = true).
Proof.
  intros HL Hp H. unfold query_cables in H. destruct (two_stage_ok _ _ _ _ _ _ _ _ H) as (ps & os & E). rewrite E in H. split.
  - apply (two_stage_NoDup s o false BNames RCables ps os pats res). exact H.
  - intro e. rewrite (two_stage_spec s o false BNames RCables HL ps os pats res Hp H e).
    destruct (cands_cables_all_exact s W rec fuel it ps os E) as (_ & HB).
    pose proof (cands_cables_all_parents s W rec fuel it ps os E) as HA.
    unfold candidate. rewrite keyok_false, HB.
    assert (HP : (exists p, In p ps /\ In e (kids s RCables p)) <-> (exists d, lead_defs s it d /\ par s RCables e = Some d)).
    { split; intros (d & H1 & H2); exists d; (split; [apply HA; exact H1|apply (kids_par s W); exact H2]). }
    rewrite HP. tauto.
Qed.
Print Assumptions query_cables_all_spec.

Theorem cands_cables_all_candidates s (W : QWF s) rec fuel root ps os :
  cands_cables s fuel [root] rec SAll = WOk (ps, os) ->
  (forall d, In d ps <-> lead_defs s root d) /\ NoDup os /\ forall c, In c os <-> cables_all s root c.
Proof.
  intro E. exact (conj (cands_cables_all_parents s W rec fuel root ps os E) (cands_cables_all_exact s W rec fuel root ps os E)).
Qed.
