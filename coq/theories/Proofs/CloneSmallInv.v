(* The clones of the small elements (pin, wire, port, cable, instance) keep the structural invariant. *)
From Coq Require Import List Arith Bool Lia.
From RecordUpdate Require Import RecordSet.
From SV Require Import Base.Base IR.State IR.NS IR.Ops Xform.Clone Proofs.AssocX Proofs.Frame Proofs.Inv1a Proofs.Inv2a
  Proofs.InvP Proofs.InvW Proofs.Fresh Proofs.NsInv Proofs.Repoint Proofs.CloneInv Proofs.RefK Proofs.CloneRef Proofs.CloneT Proofs.FieldT
  Proofs.CloneMemo Proofs.CloneRR Proofs.CloneFaith Proofs.CloneInvP Proofs.CloneFull
  Proofs.CloneMemoK Proofs.CloneFaithK Proofs.CloneStage Proofs.CloneStageP Proofs.CloneRun.
Import ListNotations RecordSetNotations.

(* a closed fragment of fresh objects that carry no pin-wire link and no reference *)
Lemma inv_extend_unlinked s s' :
  Inv s -> Fresh s -> FT s -> RefK s ->
  kpframe (next s) s s' -> Frag (next s) (next s') s' -> Above s' -> next s <= next s' ->
  (forall y, y < next s -> ipwire s' y = ipwire s y /\ wpins s' y = wpins s y /\ ipins s' y = ipins s y /\ iref s' y = iref s y) ->
  (forall y, next s <= y -> ipwire s' y = None /\ wpins s' y = [] /\ ipins s' y = [] /\ iref s' y = None) ->
  drefs s' = drefs s -> Inv s'.
Proof.
  intros HI F FT0 K0 Hf Hg Ab' Hn Hold Hnew Hd.
  pose proof (above_of_fresh s F) as Ab.
  assert (Hall : forall y, ipwire s' y = ipwire s y /\ wpins s' y = wpins s y /\ ipins s' y = ipins s y /\ iref s' y = iref s y).
  { intro y. destruct (Nat.lt_ge_cases y (next s)) as [Hl|Hge]; [apply (Hold y Hl)|].
    destruct (Hnew y Hge) as [-> [-> [-> ->]]]. destruct (ft_above s FT0 F y Hge) as [-> [-> ->]]. rewrite (f_iref _ F y Hge). repeat split. }
  constructor.
  - apply (inv1a_extend s s' (inv_a _ HI) Ab Hf Hg Ab' Hn).
  - destruct (inv_r _ HI) as [R1 R2]. constructor; [|intro d; rewrite Hd; apply R2].
    intros n d. rewrite Hd, (proj2 (proj2 (proj2 (Hall n)))). apply R1.
  - apply (invp_same s s' (inv_p _ HI)); [|intro w; apply (Hall w)].
    intro q. destruct q as [i|n j|]; cbn; [apply (Hall i)|rewrite (proj1 (proj2 (proj2 (Hall n)))); reflexivity|reflexivity].
  - destruct (inv_k _ HI) as [K1 K2]. destruct Hg as [G1 G2 G3 G4].
    assert (Hkeys : forall n, keys s' n = keys s n) by (intro n; unfold keys; rewrite (proj1 (proj2 (proj2 (Hall n)))); reflexivity).
    constructor; [|intro n; rewrite Hkeys; apply K2].
    intros n i. rewrite Hkeys, (proj2 (proj2 (proj2 (Hall n)))), K1. split.
    + intros [d [p [A [B C]]]]. exists d, p. split; [exact A|].
      assert (Hp : p < next s). { destruct (Nat.lt_ge_cases p (next s)) as [Hl|Hge]; [exact Hl|]. rewrite (proj2 (Ab RPorts p Hge)) in B. discriminate. }
      assert (Hi : i < next s). { destruct (Nat.lt_ge_cases i (next s)) as [Hl|Hge]; [exact Hl|]. rewrite (proj2 (Ab RPins i Hge)) in C. discriminate. }
      rewrite (proj2 (Hf RPorts p Hp)), (proj2 (Hf RPins i Hi)). split; assumption.
    + intros [d [p [A [B C]]]]. exists d, p. split; [exact A|]. pose proof (ref_lt s n d K0 F A) as Hdl.
      assert (Hp : p < next s).
      { destruct (Nat.lt_ge_cases p (next s)) as [Hl|Hge]; [exact Hl|]. destruct (Nat.lt_ge_cases p (next s')) as [Hl2|Hge2].
        - pose proof (G4 RPorts p d (conj Hge Hl2) B). lia.
        - rewrite (proj2 (Ab' RPorts p Hge2)) in B. discriminate. }
      assert (Hi : i < next s).
      { destruct (Nat.lt_ge_cases i (next s)) as [Hl|Hge]; [exact Hl|]. destruct (Nat.lt_ge_cases i (next s')) as [Hl2|Hge2].
        - pose proof (G4 RPins i p (conj Hge Hl2) C). lia.
        - rewrite (proj2 (Ab' RPins i Hge2)) in C. discriminate. }
      rewrite <- (proj2 (Hf RPorts p Hp)), <- (proj2 (Hf RPins i Hi)). split; assumption.
Qed.

(* ---- pin and wire ---- *)
Theorem clone_pin_inv s i : Inv s -> Fresh s -> FT s -> RefK s -> Inv (fst (fst (clone_pin s i))).
Proof.
  intros HI F FT0 K0. pose proof (above_of_fresh s F) as Ab. pose proof (parlt_of_inv1a s (inv_a _ HI) Ab) as Pl.
  unfold clone_pin, pin_clone1. destruct (clone_alloc s KPin) as [s1 x] eqn:Ea. cbn [fst snd ret].
  destruct (clone_alloc_fields _ _ _ _ Ea) as [Hx [N1 [Kd1 [Kk1 [W1 [P1 [I1 R1]]]]]]].
  destruct (clone_alloc_kp _ _ _ _ Ea) as [_ [_ [_ Pp1]]].
  pose proof (rd_clone_alloc s KPin) as [_ Rd]. rewrite Ea in Rd. cbn [fst] in Rd. subst x.
  apply (inv_extend_unlinked s _ HI F FT0 K0).
  - intros r y _. cbn. rewrite Kk1, Pp1. split; reflexivity.
  - apply (frag_of_above _ _ s _ Ab Pl (Nat.le_refl _)); [exact Kk1|exact Pp1].
  - intros r y Hy. cbn in Hy |- *. rewrite Kk1, Pp1. apply Ab. lia.
  - cbn. lia.
  - intros y Hy. cbn. unfold upd. replace (Nat.eqb y (next s)) with false by (symmetry; apply Nat.eqb_neq; lia). rewrite W1, P1, I1, R1. repeat split.
  - intros y Hy. cbn. rewrite P1, I1, R1. destruct (ft_above s FT0 F y Hy) as [A [B C]]. rewrite B, C, (f_iref _ F y Hy).
    unfold upd. destruct (Nat.eqb y (next s)); [repeat split|]. rewrite W1, A. repeat split.
  - exact Rd.
Qed.

Theorem clone_wire_inv s w : Inv s -> Fresh s -> FT s -> RefK s -> Inv (fst (fst (clone_wire s w))).
Proof.
  intros HI F FT0 K0. pose proof (above_of_fresh s F) as Ab. pose proof (parlt_of_inv1a s (inv_a _ HI) Ab) as Pl.
  unfold clone_wire, wire_clone1. destruct (clone_alloc s KWire) as [s1 x] eqn:Ea. cbn [fst snd ret].
  destruct (clone_alloc_fields _ _ _ _ Ea) as [Hx [N1 [Kd1 [Kk1 [W1 [P1 [I1 R1]]]]]]].
  destruct (clone_alloc_kp _ _ _ _ Ea) as [_ [_ [_ Pp1]]].
  pose proof (rd_clone_alloc s KWire) as [_ Rd]. rewrite Ea in Rd. cbn [fst] in Rd. subst x.
  apply (inv_extend_unlinked s _ HI F FT0 K0).
  - intros r y _. cbn. rewrite Kk1, Pp1. split; reflexivity.
  - apply (frag_of_above _ _ s _ Ab Pl (Nat.le_refl _)); [exact Kk1|exact Pp1].
  - intros r y Hy. cbn in Hy |- *. rewrite Kk1, Pp1. apply Ab. lia.
  - cbn. lia.
  - intros y Hy. cbn. unfold upd. replace (Nat.eqb y (next s)) with false by (symmetry; apply Nat.eqb_neq; lia). rewrite W1, P1, I1, R1. repeat split.
  - intros y Hy. cbn. rewrite W1, I1, R1. destruct (ft_above s FT0 F y Hy) as [A [B C]]. rewrite A, C, (f_iref _ F y Hy).
    unfold upd. destruct (Nat.eqb y (next s)); [repeat split|]. rewrite P1, B. repeat split.
  - exact Rd.
Qed.

(* ---- port and cable: the copied bundle and its items, then the side connections are cut ---- *)
Section Bundle.
  Variables (f : SM -> id -> SM * id) (kd lk : kind) (rl : rel).
  Hypothesis Hstep : forall s0 sk, StepOKk s0 sk f (Kb s0 rl) (PreBundle s0 kd lk rl) (ImgOK s0 rl).
  Hypothesis Hbun : BundleSpec f.
  Hypothesis Hkd : kd <> KPin /\ kd <> KWire /\ kd <> KInstance.

  Lemma bundle_facts s p s1 m1 p' :
    Inv s -> Fresh s -> FT s -> InvT s -> p < next s -> kind_of s p = Some kd -> rel_parent rl = kd -> rel_child rl = lk ->
    f (s, []) p = ((s1, m1), p') ->
    p' = next s /\ next s < next s1 /\ kpframe (next s) s s1 /\ Frag (next s) (next s1) s1 /\ (forall r, par s1 r p' = None) /\ Above s1 /\
    (forall y, y < next s -> ipwire s1 y = ipwire s y /\ wpins s1 y = wpins s y /\ ipins s1 y = ipins s y /\ iref s1 y = iref s y) /\
    (forall y, next s <= y -> (kind_of s1 y <> Some KPin -> ipwire s1 y = None) /\ (kind_of s1 y <> Some KWire -> wpins s1 y = []) /\
                              (kind_of s1 y <> Some KInstance -> ipins s1 y = [] /\ iref s1 y = None)) /\
    (forall y k, next s <= y -> kind_of s1 y = Some k -> (k = KPin \/ k = KWire \/ k = KInstance) -> k = lk /\ In y (kids s1 rl p')) /\
    Forall2 (fun i i' => In (i, i') m1) (kids s rl p) (kids s1 rl p') /\
    (forall y, next s1 <= y -> kind_of s1 y = None) /\ (forall y, y < next s -> kind_of s1 y = kind_of s y).
  Proof.
    intros HI F FT0 T0 Hp Hkp Hrp Hrc E. pose proof (inv_a _ HI) as I1.
    pose proof (above_of_fresh s F) as Ab. pose proof (parlt_of_inv1a s I1 Ab) as Pl.
    destruct (Hbun s [] p s1 m1 p' Ab Pl E) as [A [B [C [D [P1 [Ab1 Pl1]]]]]].
    assert (Hpre : PreBundle s kd lk rl p).
    { split; [exact Hp|]. split; [exact Hkp|]. intros i Hi. split; [apply (src_lt s I1 F _ _ _ Hi)|rewrite <- Hrc; apply (proj1 (T0 _ _ _ Hi))]. }
    assert (Hnd : NoDup (Kb s rl p)).
    { unfold Kb. constructor; [|apply (i1_nodup _ I1)]. intro Hin. pose proof (proj1 (T0 _ _ _ Hin)) as Hk. rewrite Hrc in Hk.
      destruct Hkd as [K1 [K2 K3]]. rewrite Hkp in Hk. injection Hk as Hk. subst lk.
      (* the kind of a bundle is not the kind of its items *)
      destruct rl; cbn in Hrp, Hin; subst kd; cbn in *; try discriminate; congruence. }
    destruct (Hstep s s s [] p s1 m1 p' (pk_of_st s s [] (st_start s FT0 F)) Hpre Hnd (fun y _ H => H) E) as [PK1 [Ky [_ [Hpp [_ Himg]]]]].
    split; [exact A|]. split; [exact B|]. split; [exact C|]. split; [exact D|]. split; [exact P1|]. split; [exact Ab1|].
    split; [intros y Hy; destruct (pk_old _ _ _ _ PK1 y Hy) as [X1 [X2 [X3 [_ X5]]]]; repeat split; assumption|].
    split; [intros y Hy; apply (pk_def _ _ _ _ PK1 y Hy)|]. split; [|split; [apply (proj2 (proj2 Himg))|split; [intros y Hy; apply (pk_fresh _ _ _ _ PK1 y Hy)|intros y Hy; apply (pk_old _ _ _ _ PK1 y Hy)]]].
    intros y k Hy Hk Hk3.
    assert (Hlt : y < next s1). { destruct (Nat.lt_ge_cases y (next s1)) as [Hl|Hge]; [exact Hl|]. rewrite (pk_fresh _ _ _ _ PK1 y Hge) in Hk. discriminate. }
    assert (Hcov : exists a, In (a, y) m1).
    { apply (pk_cov _ _ _ _ PK1 y (conj Hy Hlt)). rewrite Hk. destruct Hk3 as [E3|[E3|E3]]; rewrite E3; [left|right; left|right; right]; reflexivity. }
    destruct Hcov as [a Ha]. pose proof (pk_kind _ _ _ _ PK1 a y Ha) as Hka. rewrite Hk in Hka.
    assert (Hak : In a (Kb s rl p)). { assert (H1 : In a (map fst m1)) by (apply in_map_iff; exists (a, y); split; [reflexivity|exact Ha]). apply Ky in H1 as [H1|[]]. exact H1. }
    destruct Hak as [<-|Hak].
    - exfalso. rewrite Hkp in Hka. injection Hka as <-. destruct Hkd as [K1 [K2 K3]]. destruct Hk3 as [H|[H|H]]; congruence.
    - pose proof (proj1 (T0 _ _ _ Hak)) as Hk0. rewrite Hrc, <- Hka in Hk0. injection Hk0 as ->. split; [reflexivity|].
      destruct (proj1 Himg a Hak) as [i' [Hai Hi']]. rewrite (memo_fun m1 a y i' (pk_fun _ _ _ _ PK1) Ha Hai). exact Hi'.
  Qed.
End Bundle.

Lemma fold_cut_ipwire : forall L s,
  let s' := fold_ids (fun s i' => set_ipwire s i' None) L s in
  kids s' = kids s /\ par s' = par s /\ next s' = next s /\ wpins s' = wpins s /\ ipins s' = ipins s /\ iref s' = iref s /\ drefs s' = drefs s /\
  (forall y, ipwire s' y = if memb y L then None else ipwire s y).
Proof.
  induction L as [|c L IH]; intro s; cbn [fold_ids]; [repeat split|].
  destruct (IH (set_ipwire s c None)) as [A [B [C [D [E [F [G H]]]]]]]. cbn zeta in *.
  split; [rewrite A; reflexivity|]. split; [rewrite B; reflexivity|]. split; [rewrite C; reflexivity|]. split; [rewrite D; reflexivity|].
  split; [rewrite E; reflexivity|]. split; [rewrite F; reflexivity|]. split; [rewrite G; reflexivity|].
  intro y. rewrite H. cbn [memb]. destruct (memb y L); [rewrite orb_true_r; reflexivity|]. rewrite orb_false_r. cbn. unfold upd. destruct (Nat.eqb y c); reflexivity.
Qed.

Lemma fold_cut_wpins : forall L s,
  let s' := fold_ids (fun s w' => set_wpins s w' []) L s in
  kids s' = kids s /\ par s' = par s /\ next s' = next s /\ ipwire s' = ipwire s /\ ipins s' = ipins s /\ iref s' = iref s /\ drefs s' = drefs s /\
  (forall y, wpins s' y = if memb y L then [] else wpins s y).
Proof.
  induction L as [|c L IH]; intro s; cbn [fold_ids]; [repeat split|].
  destruct (IH (set_wpins s c [])) as [A [B [C [D [E [F [G H]]]]]]]. cbn zeta in *.
  split; [rewrite A; reflexivity|]. split; [rewrite B; reflexivity|]. split; [rewrite C; reflexivity|]. split; [rewrite D; reflexivity|].
  split; [rewrite E; reflexivity|]. split; [rewrite F; reflexivity|]. split; [rewrite G; reflexivity|].
  intro y. rewrite H. cbn [memb]. destruct (memb y L); [rewrite orb_true_r; reflexivity|]. rewrite orb_false_r. cbn. unfold upd. destruct (Nat.eqb y c); reflexivity.
Qed.

Lemma rd_of_RDf (f : SM -> id -> SM * id) : RDf f -> forall s m x s' m' x', f (s, m) x = ((s', m'), x') -> drefs s' = drefs s.
Proof. intros H s m x s' m' x' E. apply (H s m x s' m' x' E). Qed.

Theorem clone_port_inv s p :
  Inv s -> Fresh s -> FT s -> RefK s -> InvT s -> p < next s -> kind_of s p = Some KPort -> Inv (fst (fst (clone_port s p))).
Proof.
  intros HI F FT0 K0 T0 Hp Hk. unfold clone_port. destruct (port_clone1 (s, []) p) as [[s1 m1] p'] eqn:E. cbn [fst snd ret].
  destruct (bundle_facts port_clone1 KPort KPin RPins (fun s0 sk => step_portK s0 sk) port_clone1_bundle
              ltac:(repeat split; discriminate) s p s1 m1 p' HI F FT0 T0 Hp Hk eq_refl eq_refl E)
    as [Hp' [Hn [Hf [Hg [Hpar [Ab1 [Hold [Hdef [Hcov _]]]]]]]]].
  pose proof (rd_of_RDf port_clone1 rd_port_clone1 _ _ _ _ _ _ E) as Hd.
  destruct (fold_cut_ipwire (kids s1 RPins p') s1) as [A [B [C [D [E1 [F1 [G1 H1]]]]]]]. cbn zeta in *.
  set (sF := fold_ids (fun s i' => set_ipwire s i' None) (kids s1 RPins p') s1) in *.
  apply (inv_extend_unlinked s sF HI F FT0 K0).
  - intros r y Hy. rewrite A, B. apply Hf. exact Hy.
  - destruct Hg as [G1' G2 G3 G4]. constructor; rewrite ?A, ?B, ?C; assumption.
  - intros r y Hy. rewrite A, B. rewrite C in Hy. apply Ab1. exact Hy.
  - rewrite C. lia.
  - intros y Hy. rewrite H1, D, E1, F1. destruct (Hold y Hy) as [X1 [X2 [X3 X4]]].
    destruct (memb y (kids s1 RPins p')) eqn:Em; [|repeat split; assumption].
    exfalso. apply memb_In in Em. destruct Hg as [_ _ G3 _]. assert (Hpn : next s <= p' < next s1) by lia. pose proof (G3 RPins p' y Hpn Em). lia.
  - intros y Hy. rewrite H1, D, E1, F1. destruct (Hdef y Hy) as [D1 [D2 D3]].
    assert (Hnw : kind_of s1 y <> Some KWire). { intro Hkw. destruct (Hcov y KWire Hy Hkw (or_intror (or_introl eq_refl))) as [Hc _]. discriminate. }
    assert (Hni : kind_of s1 y <> Some KInstance). { intro Hki. destruct (Hcov y KInstance Hy Hki (or_intror (or_intror eq_refl))) as [Hc _]. discriminate. }
    split; [|split; [apply D2; exact Hnw|apply D3; exact Hni]].
    destruct (memb y (kids s1 RPins p')) eqn:Em; [reflexivity|]. apply D1. intro Hkp.
    destruct (Hcov y KPin Hy Hkp (or_introl eq_refl)) as [_ Hin]. apply memb_In in Hin. congruence.
  - rewrite G1. exact Hd.
Qed.

Theorem clone_cable_inv s c :
  Inv s -> Fresh s -> FT s -> RefK s -> InvT s -> c < next s -> kind_of s c = Some KCable -> Inv (fst (fst (clone_cable s c))).
Proof.
  intros HI F FT0 K0 T0 Hp Hk. unfold clone_cable. destruct (cable_clone1 (s, []) c) as [[s1 m1] p'] eqn:E. cbn [fst snd ret].
  destruct (bundle_facts cable_clone1 KCable KWire RWires (fun s0 sk => step_cableK s0 sk) cable_clone1_bundle
              ltac:(repeat split; discriminate) s c s1 m1 p' HI F FT0 T0 Hp Hk eq_refl eq_refl E)
    as [Hp' [Hn [Hf [Hg [Hpar [Ab1 [Hold [Hdef [Hcov _]]]]]]]]].
  pose proof (rd_of_RDf cable_clone1 rd_cable_clone1 _ _ _ _ _ _ E) as Hd.
  destruct (fold_cut_wpins (kids s1 RWires p') s1) as [A [B [C [D [E1 [F1 [G1 H1]]]]]]]. cbn zeta in *.
  set (sF := fold_ids (fun s w' => set_wpins s w' []) (kids s1 RWires p') s1) in *.
  apply (inv_extend_unlinked s sF HI F FT0 K0).
  - intros r y Hy. rewrite A, B. apply Hf. exact Hy.
  - destruct Hg as [G1' G2 G3 G4]. constructor; rewrite ?A, ?B, ?C; assumption.
  - intros r y Hy. rewrite A, B. rewrite C in Hy. apply Ab1. exact Hy.
  - rewrite C. lia.
  - intros y Hy. rewrite H1, D, E1, F1. destruct (Hold y Hy) as [X1 [X2 [X3 X4]]].
    destruct (memb y (kids s1 RWires p')) eqn:Em; [|repeat split; assumption].
    exfalso. apply memb_In in Em. destruct Hg as [_ _ G3 _]. assert (Hpn : next s <= p' < next s1) by lia. pose proof (G3 RWires p' y Hpn Em). lia.
  - intros y Hy. rewrite H1, D, E1, F1. destruct (Hdef y Hy) as [D1 [D2 D3]].
    assert (Hnp : kind_of s1 y <> Some KPin). { intro Hkw. destruct (Hcov y KPin Hy Hkw (or_introl eq_refl)) as [Hc _]. discriminate. }
    assert (Hni : kind_of s1 y <> Some KInstance). { intro Hki. destruct (Hcov y KInstance Hy Hki (or_intror (or_intror eq_refl))) as [Hc _]. discriminate. }
    split; [apply D1; exact Hnp|]. split; [|apply D3; exact Hni].
    destruct (memb y (kids s1 RWires p')) eqn:Em; [reflexivity|]. apply D2. intro Hkp.
    destruct (Hcov y KWire Hy Hkp (or_intror (or_introl eq_refl))) as [_ Hin]. apply memb_In in Hin. congruence.
  - rewrite G1. exact Hd.
Qed.

(* ---- instance: outer pins kept with their keys, wires cut, the copy registered with its definition ---- *)
Lemma keys_cut (l : list (id * option id)) : map fst (map (fun kv => (fst kv, @None id)) l) = map fst l.
Proof. induction l as [|[k v] l IH]; cbn; [reflexivity|rewrite IH; reflexivity]. Qed.
Lemma assoc_cut (l : list (id * option id)) j : match assoc j (map (fun kv => (fst kv, @None id)) l) with Some ow => ow | None => None end = @None id.
Proof. induction l as [|[k v] l IH]; cbn; [reflexivity|]. destruct (Nat.eqb j k); [reflexivity|exact IH]. Qed.

Theorem clone_instance_inv s x :
  Inv s -> Fresh s -> FT s -> RefK s -> x < next s ->
  snd (fst (clone_instance s x)) = None -> Inv (fst (fst (clone_instance s x))).
Proof.
  intros HI F FT0 K0 Hx. unfold clone_instance, inst_clone1. destruct (clone_alloc s KInstance) as [s1 x'] eqn:Ea.
  destruct (clone_alloc_fields _ _ _ _ Ea) as [Hx' [N1 [Kd1 [Kk1 [W1 [P1 [I1 R1]]]]]]].
  destruct (clone_alloc_kp _ _ _ _ Ea) as [_ [_ [_ Pp1]]].
  pose proof (rd_clone_alloc s KInstance) as [_ Rd]. rewrite Ea in Rd. cbn [fst] in Rd. subst x'.
  set (n := next s) in *. cbn [fst snd].
  set (s2 := set_ipins (copy_data (set_iref (set_ipins s1 n (ipins s1 x)) n (iref s1 x)) x n) n
               (map (fun kv => (fst kv, None)) (ipins (copy_data (set_iref (set_ipins s1 n (ipins s1 x)) n (iref s1 x)) x n) n))).
  assert (Hi2 : forall y, ipins s2 y = if Nat.eqb y n then map (fun kv => (fst kv, None)) (ipins s x) else ipins s y).
  { intro y. unfold s2. cbn. rewrite I1, !upd_same. unfold upd. destruct (Nat.eqb y n); reflexivity. }
  assert (Hr2 : forall y, iref s2 y = if Nat.eqb y n then iref s x else iref s y).
  { intro y. unfold s2. cbn. rewrite R1. unfold upd. destruct (Nat.eqb y n); reflexivity. }
  assert (Hk2 : kids s2 = kids s) by exact Kk1. assert (Hp2 : par s2 = par s) by exact Pp1.
  assert (Hw2 : wpins s2 = wpins s) by exact P1. assert (Hiw2 : ipwire s2 = ipwire s) by exact W1. assert (Hd2 : drefs s2 = drefs s) by exact Rd.
  clearbody s2. unfold register_child. rewrite (Hr2 n), Nat.eqb_refl.
  destruct (iref s x) as [e|] eqn:Er; [|cbn; discriminate]. cbn [fst snd ret]. intros _.
  set (sF := set_drefs s2 e (set_add n (drefs s2 e))).
  destruct (ft_above s FT0 F n (Nat.le_refl _)) as [Hwn [Hpn Hin]].
  assert (Hnr : iref s n = None) by (apply (f_iref _ F); apply Nat.le_refl).
  constructor.
  - apply (inv1a_cont s sF); [split; [exact Hk2|exact Hp2]|apply (inv_a _ HI)].
  - destruct (inv_r _ HI) as [R1' R2']. constructor.
    + intros m d. change (iref sF m) with (iref s2 m). rewrite Hr2. unfold sF. cbn. unfold upd. rewrite Hd2.
      destruct (Nat.eqb_spec d e) as [->|Hne].
      * rewrite set_add_In, R1'. destruct (Nat.eqb_spec m n) as [->|Hmn]. { split; [reflexivity|left; reflexivity]. } split; [intros [H|H]; [contradiction|exact H]|intro H; right; exact H].
      * rewrite R1'. destruct (Nat.eqb_spec m n) as [->|Hmn]; [|tauto]. rewrite Hnr. split; [discriminate|intro H; injection H as H; congruence].
    + intro d. unfold sF. cbn. unfold upd. rewrite Hd2. destruct (Nat.eqb d e); [apply set_add_NoDup|]; apply R2'.
  - apply (invp_same s sF (inv_p _ HI)); [|intro w; change (wpins sF w) with (wpins s2 w); rewrite Hw2; reflexivity].
    intro q. destruct q as [i|m j|]; cbn; [change (ipwire sF i) with (ipwire s2 i); rewrite Hiw2; reflexivity| |reflexivity].
    change (ipins sF m) with (ipins s2 m). rewrite Hi2. destruct (Nat.eqb_spec m n) as [->|]; [|reflexivity].
    rewrite Hin. cbn. apply assoc_cut.
  - destruct (inv_k _ HI) as [K1 K2].
    assert (Hkeys : forall m, keys sF m = if Nat.eqb m n then keys s x else keys s m).
    { intro m. unfold keys. change (ipins sF m) with (ipins s2 m). rewrite Hi2. destruct (Nat.eqb m n); [apply keys_cut|reflexivity]. }
    constructor.
    + intros m i. rewrite Hkeys. change (iref sF m) with (iref s2 m). change (par sF) with (par s2). rewrite Hr2, Hp2.
      destruct (Nat.eqb m n); [rewrite <- Er; apply K1|apply K1].
    + intro m. rewrite Hkeys. destruct (Nat.eqb m n); apply K2.
Qed.
