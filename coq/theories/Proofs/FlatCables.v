(* C09: cables after flatten of a uniquified design. Every cable of the definition of a hierarchical
   instance below the top ends up in the top definition (same object), renamed by the flat name of
   that instance; all other cables stay in their definition; wires, ports and pins keep their owner. *)
From Coq Require Import List Arith NArith Bool Lia.
From SV Require Import Base.Base IR.State IR.NS IR.Ops Xform.Clone Xform.Strs Xform.Xform Hier.Paths
  Proofs.Inv1a Proofs.Inv2a Proofs.InvW Proofs.CloneFull Proofs.FlatLeaf Proofs.FlatEff Proofs.FlatPaths Proofs.FlatWalk
  Proofs.FlatNames.
Import ListNotations.

(* cb belongs to the definition of a non-leaf instance strictly below the top instance *)
Definition MovedCable (s : state) (t cb : id) : Prop :=
  exists y d, Below s t y /\ iref s y = Some d /\ is_leaf_def s d = false /\ par s RCables cb = Some d.

Section Results.
  Variables (fuel : nat) (x : xstate) (n : id) (x' : xstate) (t topd : id).
  Hypothesis U0 : UF (st x).
  Hypothesis Hu : Uniquified (st x) t.
  Hypothesis Htop : top (st x) n = Some t.
  Hypothesis Ht : iref (st x) t = Some topd.
  Hypothesis E : flatten fuel x n = (x', None).

  Lemma moved_iff done : FlatSpec (st x) t topd done (st x') -> forall cb, mcb (st x) done cb = true <-> MovedCable (st x) t cb.
  Proof.
    intros F cb. rewrite mcb_spec. split; intros [y [d [H1 H2]]]; exists y, d; (split; [apply (fs_done _ _ _ _ _ F); exact H1|exact H2]).
  Qed.

  (* where every cable is afterwards *)
  Theorem flatten_cable_parent cb :
    (MovedCable (st x) t cb -> par (st x') RCables cb = Some topd) /\
    (~ MovedCable (st x) t cb -> par (st x') RCables cb = par (st x) RCables cb).
  Proof.
    destruct (flatten_spec fuel x n x' t topd U0 Hu Htop Ht E) as [done [F _]].
    rewrite (fs_parc _ _ _ _ _ F). split; intro H.
    - apply (moved_iff done F) in H. rewrite H. reflexivity.
    - destruct (mcb (st x) done cb) eqn:Em; [|reflexivity]. exfalso. apply H, (moved_iff done F), Em.
  Qed.

  (* the cables of the top definition: its own, and those that came up *)
  Theorem flatten_top_cables cb :
    In cb (kids (st x') RCables topd) <-> par (st x) RCables cb = Some topd \/ MovedCable (st x) t cb.
  Proof.
    destruct (flatten_spec fuel x n x' t topd U0 Hu Htop Ht E) as [done [F _]].
    pose proof (inv_a _ (proj1 (fs_uf _ _ _ _ _ F))) as J1.
    rewrite (i1_kids _ J1), (fs_parc _ _ _ _ _ F). destruct (mcb (st x) done cb) eqn:Em.
    - split; [intros _; right; apply (moved_iff done F), Em|reflexivity].
    - split; [intro H; left; exact H|]. intros [H|H]; [exact H|]. apply (moved_iff done F) in H. congruence.
  Qed.

  (* the cables of any other definition: those that did not move *)
  Theorem flatten_other_cables d cb : d <> topd ->
    (In cb (kids (st x') RCables d) <-> In cb (kids (st x) RCables d) /\ ~ MovedCable (st x) t cb).
  Proof.
    intro Hd. destruct (flatten_spec fuel x n x' t topd U0 Hu Htop Ht E) as [done [F _]].
    pose proof (inv_a _ (proj1 (fs_uf _ _ _ _ _ F))) as J1. pose proof (inv_a _ (proj1 U0)) as I1.
    rewrite (i1_kids _ J1), (i1_kids _ I1), (fs_parc _ _ _ _ _ F). destruct (mcb (st x) done cb) eqn:Em.
    - split; [intro H; injection H as H; congruence|]. intros [_ H]. exfalso. apply H, (moved_iff done F), Em.
    - split; [|intros [H _]; exact H]. intro H. split; [exact H|]. intro Hm. apply (moved_iff done F) in Hm. congruence.
  Qed.

  (* a definition that no hierarchical instance below the top instantiates keeps its cable list as a set *)
  Corollary flatten_cables_stay d : d <> topd -> (forall y, Below (st x) t y -> iref (st x) y <> Some d) ->
    forall cb, In cb (kids (st x') RCables d) <-> In cb (kids (st x) RCables d).
  Proof.
    intros Hd Hn cb. rewrite (flatten_other_cables d cb Hd). split; [intros [H _]; exact H|]. intro H. split; [exact H|].
    intros [y [d' [Hb [Hr [_ Hp]]]]]. pose proof (inv_a _ (proj1 U0)) as I1. apply (i1_kids _ I1) in H.
    assert (d' = d) by congruence. subst d'. apply (Hn y Hb Hr).
  Qed.

  (* wires keep their cable, pins their port, ports their definition - lists and back pointers *)
  Theorem flatten_wires_ports r y : r <> RChildren -> r <> RCables ->
    par (st x') r y = par (st x) r y /\ kids (st x') r y = kids (st x) r y.
  Proof. destruct (flatten_spec fuel x n x' t topd U0 Hu Htop Ht E) as [done [F _]]. apply (fs_paro _ _ _ _ _ F). Qed.

  (* the name of a cable that came up: flat name of its instance, "/", its own name (a missing name
     counting as the empty string on either side) *)
  Theorem flatten_cable_name y z p d cb :
    is_rpath (st x) t (y :: z :: p) -> iref (st x) y = Some d -> is_leaf_def (st x) d = false ->
    par (st x) RCables cb = Some d ->
    get_str (st x') cb str_NAME = Some (oe (fname (st x) (y :: z :: p)) ++ str_slash ++ oe (get_str (st x) cb str_NAME)).
  Proof.
    intros Hp Hr Hl Hpc. destruct (flatten_spec fuel x n x' t topd U0 Hu Htop Ht E) as [done [F _]].
    rewrite (fs_namec _ _ _ _ _ F y z p d cb Hp Hr Hl Hpc), pname_cons2. reflexivity.
  Qed.

  (* ... so a named cable below instances that all have names is called by the slash-joined path *)
  Theorem flatten_cable_name_joined y z p d cb l nm :
    is_rpath (st x) t (y :: z :: p) -> iref (st x) y = Some d -> is_leaf_def (st x) d = false ->
    par (st x) RCables cb = Some d -> onames (st x) (y :: z :: p) = Some l -> get_str (st x) cb str_NAME = Some nm ->
    get_str (st x') cb str_NAME = Some (join_slash (l ++ [nm])).
  Proof.
    intros Hp Hr Hl Hpc Ho Hn. rewrite (flatten_cable_name y z p d cb Hp Hr Hl Hpc), Hn.
    pose proof (onames_nonempty _ _ _ _ _ Ho) as Hne.
    rewrite (fname_join _ _ _ Ho Hne), (join_slash_snoc l nm Hne). reflexivity.
  Qed.

  (* objects that are neither instances below the top nor moved cables keep their whole dictionary *)
  Theorem flatten_untouched_data y : ~ Below (st x) t y -> ~ MovedCable (st x) t y -> data (st x') y = data (st x) y.
  Proof.
    intros H1 H2. destruct (flatten_spec fuel x n x' t topd U0 Hu Htop Ht E) as [done [F _]].
    apply (fs_data _ _ _ _ _ F).
    - apply memb_false. intro H. apply H1, (fs_done _ _ _ _ _ F), H.
    - destruct (mcb (st x) done y) eqn:Em; [|reflexivity]. exfalso. apply H2, (moved_iff done F), Em.
  Qed.
End Results.
