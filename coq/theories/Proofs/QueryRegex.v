(* Proofs about Query/Regex.v: the derivative matcher decides the declarative meaning [RM] of a
   regular expression; what re.escape(s) and re.escape(s) + ".*" denote; the parser reads the text
   produced by re.escape back as the literal expression. *)
From Coq Require Import List NArith Bool Lia.
From SV Require Import Base.Base Query.Regex.
Import ListNotations.

(* ------------------------------------------------------------------------------------------ *)
(* declarative meaning                                                                         *)

Inductive RM (ci : bool) : re -> str -> Prop :=
| RM_eps : RM ci Eps []
| RM_chr : forall a c, leaf_chr ci a c = true -> RM ci (Chr a) [c]
| RM_any : forall c, c <> NL -> RM ci Any [c]
| RM_cls : forall neg items c, leaf_cls ci neg items c = true -> RM ci (Cls neg items) [c]
| RM_cat : forall a b v1 v2, RM ci a v1 -> RM ci b v2 -> RM ci (Cat a b) (v1 ++ v2)
| RM_altl : forall a b v, RM ci a v -> RM ci (Alt a b) v
| RM_altr : forall a b v, RM ci b v -> RM ci (Alt a b) v
| RM_star0 : forall a, RM ci (Star a) []
| RM_star1 : forall a v1 v2, RM ci a v1 -> RM ci (Star a) v2 -> RM ci (Star a) (v1 ++ v2).

Section Deriv.
Variable ci : bool.

Lemma RM_cat_inv a b v : RM ci (Cat a b) v -> exists v1 v2, v = v1 ++ v2 /\ RM ci a v1 /\ RM ci b v2.
Proof. intro H. inversion H; subst. eauto. Qed.

Lemma RM_alt_inv a b v : RM ci (Alt a b) v -> RM ci a v \/ RM ci b v.
Proof. intro H. inversion H; subst; auto. Qed.

Lemma nullable_iff r : nullable r = true <-> RM ci r [].
Proof.
  induction r as [| |a| |neg items|r1 IHr1 r2 IHr2|r1 IHr1 r2 IHr2|r IHr]; cbn.
  - split; [discriminate|]. intro H. inversion H.
  - split; [constructor|reflexivity].
  - split; [discriminate|]. intro H. inversion H.
  - split; [discriminate|]. intro H. inversion H.
  - split; [discriminate|]. intro H. inversion H.
  - rewrite andb_true_iff, IHr1, IHr2. split.
    + intros [H1 H2]. change (@nil N) with (@nil N ++ []). constructor; assumption.
    + intro H. apply RM_cat_inv in H as (v1 & v2 & E & H1 & H2).
      symmetry in E. apply app_eq_nil in E as [-> ->]. auto.
  - rewrite orb_true_iff, IHr1, IHr2. split.
    + intros [H|H]; [apply RM_altl|apply RM_altr]; assumption.
    + apply RM_alt_inv.
  - split; [constructor|reflexivity].
Qed.

Lemma star_cons_inv a c v :
  RM ci (Star a) (c :: v) -> exists v1 v2, v = v1 ++ v2 /\ RM ci a (c :: v1) /\ RM ci (Star a) v2.
Proof.
  intro H. remember (Star a) as r eqn:Er. remember (c :: v) as w eqn:Ew.
  revert c v Ew. induction H; try discriminate; intros c0 v0 Ew.
  inversion Er; subst a0. destruct v1 as [|x v1].
  - cbn in Ew. apply IHRM2; auto.
  - cbn in Ew. inversion Ew; subst. exists v1, v2. auto.
Qed.

Lemma deriv_iff r : forall c v, RM ci (deriv ci c r) v <-> RM ci r (c :: v).
Proof.
  induction r as [| |a| |neg items|r1 IHr1 r2 IHr2|r1 IHr1 r2 IHr2|r IHr]; intros c v; cbn [deriv].
  - split; intro H; inversion H.
  - split; intro H; inversion H.
  - destruct (leaf_chr ci a c) eqn:E; split; intro H; inversion H; subst.
    + constructor. exact E.
    + constructor.
    + congruence.
  - destruct (N.eqb c NL) eqn:E; split; intro H; inversion H; subst.
    + apply N.eqb_eq in E. contradiction.
    + constructor. apply N.eqb_neq. exact E.
    + constructor.
  - destruct (leaf_cls ci neg items c) eqn:E; split; intro H; inversion H; subst.
    + constructor. exact E.
    + constructor.
    + congruence.
  - destruct (nullable r1) eqn:En.
    + split; intro H.
      * apply RM_alt_inv in H as [H|H].
        -- apply RM_cat_inv in H as (v1 & v2 & -> & H1 & H2). apply IHr1 in H1.
           change (c :: v1 ++ v2) with ((c :: v1) ++ v2). constructor; assumption.
        -- apply IHr2 in H. apply nullable_iff in En.
           change (c :: v) with ([] ++ c :: v). constructor; assumption.
      * apply RM_cat_inv in H as (v1 & v2 & E & H1 & H2). destruct v1 as [|x v1].
        -- cbn in E. subst v2. apply RM_altr. apply IHr2. exact H2.
        -- cbn in E. inversion E; subst. apply RM_altl. constructor; [apply IHr1|]; assumption.
    + split; intro H.
      * apply RM_cat_inv in H as (v1 & v2 & -> & H1 & H2). apply IHr1 in H1.
        change (c :: v1 ++ v2) with ((c :: v1) ++ v2). constructor; assumption.
      * apply RM_cat_inv in H as (v1 & v2 & E & H1 & H2). destruct v1 as [|x v1].
        -- apply nullable_iff in H1. congruence.
        -- cbn in E. inversion E; subst. constructor; [apply IHr1|]; assumption.
  - split; intro H.
    + apply RM_alt_inv in H as [H|H]; [apply RM_altl, IHr1|apply RM_altr, IHr2]; exact H.
    + apply RM_alt_inv in H as [H|H]; [apply RM_altl, IHr1|apply RM_altr, IHr2]; exact H.
  - split; intro H.
    + apply RM_cat_inv in H as (v1 & v2 & -> & H1 & H2). apply IHr in H1.
      change (c :: v1 ++ v2) with ((c :: v1) ++ v2). constructor; assumption.
    + apply star_cons_inv in H as (v1 & v2 & -> & H1 & H2). constructor; [apply IHr|]; assumption.
Qed.

(* the derivative matcher is sound and complete *)
Theorem rmatch_iff v : forall r, rmatch ci r v = true <-> RM ci r v.
Proof.
  induction v as [|c v IH]; intro r; cbn [rmatch].
  - apply nullable_iff.
  - rewrite IH. apply deriv_iff.
Qed.

(* a literal prefix followed by anything *)
Lemma RM_seq_lit s tail : forall v,
  RM ci (seq_re (map Chr s ++ tail)) v <->
  exists u w, v = u ++ w /\ Forall2 (fun a c => leaf_chr ci a c = true) s u /\ RM ci (seq_re tail) w.
Proof.
  induction s as [|a s IH]; intro v; cbn [map app].
  - split.
    + intro H. exists [], v. repeat split; [constructor|exact H].
    + intros (u & w & -> & F & H). inversion F; subst. exact H.
  - unfold seq_re. cbn [fold_right]. fold (seq_re (map Chr s ++ tail)). split.
    + intro H. apply RM_cat_inv in H as (v1 & v2 & -> & H1 & H2). inversion H1; subst.
      apply IH in H2 as (u & w & -> & F & H). exists (c :: u), w. repeat split; [constructor|]; assumption.
    + intros (u & w & -> & F & H). inversion F as [|a' c s' u' Hc F']; subst.
      change ((c :: u') ++ w) with ([c] ++ (u' ++ w)). constructor; [constructor; exact Hc|].
      apply IH. exists u', w. auto.
Qed.

End Deriv.

(* ------------------------------------------------------------------------------------------ *)
(* re.escape(s) matches exactly s; with IGNORECASE exactly the strings equal up to ASCII case   *)

Lemma Forall2_eqb s u : Forall2 (fun a c => leaf_chr false a c = true) s u <-> u = s.
Proof.
  split.
  - induction 1 as [|a c s u H _ IH]; [reflexivity|]. cbn in H. apply N.eqb_eq in H. congruence.
  - intros ->. induction s; constructor; [apply N.eqb_refl|assumption].
Qed.

Lemma Forall2_lower s u : Forall2 (fun a c => leaf_chr true a c = true) s u <-> lower u = lower s.
Proof.
  split.
  - induction 1 as [|a c s u H _ IH]; [reflexivity|]. cbn in H. apply N.eqb_eq in H.
    cbn. f_equal; [congruence|exact IH].
  - revert u. induction s as [|a s IH]; intros [|c u] H; try discriminate; constructor.
    + cbn in H. inversion H. cbn. apply N.eqb_eq. congruence.
    + apply IH. cbn in H. inversion H. unfold lower. assumption.
Qed.

Lemma RM_eps_inv ci w : RM ci (seq_re []) w <-> w = [].
Proof. cbn. split; [intro H; inversion H; reflexivity|intros ->; constructor]. Qed.

Theorem regex_escape_spec s v : rmatch false (regex_escape s) v = true <-> v = s.
Proof.
  rewrite rmatch_iff. unfold regex_escape. rewrite <- (app_nil_r (map Chr s)), RM_seq_lit. split.
  - intros (u & w & -> & F & H). apply RM_eps_inv in H. apply Forall2_eqb in F. subst.
    apply app_nil_r.
  - intros ->. exists s, []. rewrite app_nil_r. repeat split; [apply Forall2_eqb; reflexivity|].
    apply RM_eps_inv. reflexivity.
Qed.

Theorem regex_escape_nocase s v : rmatch true (regex_escape s) v = true <-> lower v = lower s.
Proof.
  rewrite rmatch_iff. unfold regex_escape. rewrite <- (app_nil_r (map Chr s)), RM_seq_lit. split.
  - intros (u & w & -> & F & H). apply RM_eps_inv in H. apply Forall2_lower in F. subst.
    rewrite app_nil_r. exact F.
  - intro E. exists v, []. rewrite app_nil_r. repeat split; [apply Forall2_lower; exact E|].
    apply RM_eps_inv. reflexivity.
Qed.

(* ".*" : any sequence without a newline (re.fullmatch is called without DOTALL) *)
Lemma RM_star_any ci w : RM ci (Star Any) w <-> ~ In NL w.
Proof.
  split.
  - intro H. remember (Star Any) as r eqn:Er. induction H; try discriminate.
    + intros [].
    + inversion Er; subst a. inversion H; subst. intros [E|E]; [congruence|]. apply IHRM2; auto.
  - induction w as [|c w IH]; intro H; [constructor|].
    change (c :: w) with ([c] ++ w). constructor.
    + constructor. intro E. apply H. left. congruence.
    + apply IH. intro E. apply H. right. exact E.
Qed.

Theorem regex_prefix_spec s v :
  rmatch false (regex_prefix s) v = true <-> exists w, v = s ++ w /\ ~ In NL w.
Proof.
  rewrite rmatch_iff. unfold regex_prefix. rewrite RM_seq_lit. split.
  - intros (u & w & -> & F & H). apply Forall2_eqb in F. subst u. exists w. split; [reflexivity|].
    cbn in H. apply RM_cat_inv in H as (v1 & v2 & -> & H1 & H2). inversion H2; subst.
    rewrite app_nil_r. apply RM_star_any in H1. exact H1.
  - intros (w & -> & H). exists s, w. repeat split; [apply Forall2_eqb; reflexivity|].
    cbn. rewrite <- (app_nil_r w). constructor; [apply RM_star_any; exact H|constructor].
Qed.

(* ------------------------------------------------------------------------------------------ *)
(* the parser reads re.escape(s) as the literal expression                                     *)

Definition push_lits (f : frame) (s : str) : frame := fold_left (fun f c => push_atom f (Chr c)) s f.

Lemma special_not_alnum c : is_re_special c = true -> is_alnum c = false.
Proof.
  unfold is_re_special. rewrite existsb_exists. intros (k & Hk & E). apply N.eqb_eq in E. subst k.
  unfold re_specials in Hk. cbn in Hk.
  repeat (destruct Hk as [<-|Hk]; [reflexivity|]). contradiction.
Qed.

Lemma nonspecial_neq c k : is_re_special c = false -> In k re_specials -> N.eqb c k = false.
Proof.
  unfold is_re_special. intros H Hk. destruct (N.eqb c k) eqn:E; [|reflexivity].
  assert (existsb (N.eqb c) re_specials = true) by (apply existsb_exists; exists k; auto). congruence.
Qed.

Lemma step_nonspecial f stk c : is_re_special c = false ->
  step (mkP f stk MNorm) c = Some (mkP (push_atom f (Chr c)) stk MNorm).
Proof.
  intro H. unfold step. cbn [md cur stack].
  rewrite !(nonspecial_neq c _ H) by (unfold re_specials; cbn; tauto). reflexivity.
Qed.

Lemma step_special f stk c rest : is_re_special c = true ->
  run (mkP f stk MNorm) (BSLASH :: c :: rest) = run (mkP (push_atom f (Chr c)) stk MNorm) rest.
Proof.
  intro H. cbn [run]. unfold step at 1. cbn [md cur stack]. change (N.eqb BSLASH 92) with true. cbn iota.
  unfold step at 1. cbn [md cur stack]. rewrite (special_not_alnum c H). reflexivity.
Qed.

Lemma run_escape s : forall f stk rest,
  run (mkP f stk MNorm) (re_escape_str s ++ rest) = run (mkP (push_lits f s) stk MNorm) rest.
Proof.
  induction s as [|c s IH]; intros f stk rest; [reflexivity|].
  unfold push_lits. cbn [re_escape_str fold_left]. fold (push_lits (push_atom f (Chr c)) s). destruct (is_re_special c) eqn:E.
  - cbn [app]. rewrite (step_special f stk c _ E). apply IH.
  - cbn [app run]. rewrite (step_nonspecial f stk c E). apply IH.
Qed.

Lemma push_lits_alts s : forall f, f_alts (push_lits f s) = f_alts f.
Proof.
  induction s as [|c s IH]; intro f; [reflexivity|]. unfold push_lits. cbn [fold_left].
  fold (push_lits (push_atom f (Chr c)) s). rewrite IH. reflexivity.
Qed.

Lemma push_lits_seq s : forall f, f_seq (push_lits f s) = rev (map Chr s) ++ f_seq f.
Proof.
  induction s as [|c s IH]; intro f; [reflexivity|]. unfold push_lits. cbn [fold_left map rev].
  fold (push_lits (push_atom f (Chr c)) s). rewrite IH. cbn. rewrite <- app_assoc. reflexivity.
Qed.

Theorem parse_escape s : parse_re (re_escape_str s) = Some (regex_escape s).
Proof.
  unfold parse_re, init_pst. rewrite <- (app_nil_r (re_escape_str s)), run_escape. cbn [run].
  unfold finish. cbn [md stack cur]. unfold frame_re. rewrite push_lits_alts. cbn [f_alts empty_frame].
  rewrite push_lits_seq. cbn [f_seq empty_frame]. rewrite app_nil_r, rev_involutive. reflexivity.
Qed.

Lemma push_lits_q s f : f_q (push_lits f s) = match s with [] => f_q f | _ => true end.
Proof.
  revert f. induction s as [|c s IH]; intro f; [reflexivity|]. unfold push_lits. cbn [fold_left].
  fold (push_lits (push_atom f (Chr c)) s). rewrite IH. destruct s; reflexivity.
Qed.

(* re.escape(s) + ".*" *)
Theorem parse_escape_dotstar s :
  parse_re (re_escape_str s ++ [46; 42]%N) = Some (regex_prefix s).
Proof.
  unfold parse_re, init_pst. rewrite run_escape. cbn [run]. unfold step at 1. cbn [md cur stack].
  change (N.eqb 46 92) with false. change (N.eqb 46 46) with true. cbn iota.
  unfold step at 1. cbn [md cur stack]. cbn [N.eqb Pos.eqb].
  unfold quantify, push_atom. cbn [f_q f_seq f_alts]. unfold finish. cbn [md stack cur].
  unfold frame_re. cbn [f_alts f_seq]. rewrite push_lits_alts. cbn [f_alts empty_frame].
  rewrite push_lits_seq. cbn [f_seq empty_frame]. rewrite app_nil_r. cbn [rev].
  rewrite rev_involutive. reflexivity.
Qed.
