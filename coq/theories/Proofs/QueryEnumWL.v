(* Generic facts about the loop [wl] of Query/Enum.v, for any dispatch table [acts]:
   soundness (everything recorded / marked comes from an item reached from the stack),
   closedness at termination ([Done]: every statement of every popped item has had its effect;
   [Fired]: every new mark had its body run), from which exactness follows for tables without
   marks, monotonicity in the fuel, and termination when the push graph is well founded. *)
From Coq Require Import List Arith Bool Lia Relations Wellfounded.
From SV Require Import Base.Base IR.State Hier.Paths Query.Enum.
Import ListNotations.

Section WLP.
Context {T : Type}.
Variable acts : item -> list (act T).
Variable bad : item -> bool.

Definition succ_of (a : act T) : list item :=
  match a with APush y => [y] | AOut _ => [] | AMark _ _ ys => ys end.
Definition emit_of (a : act T) : list T :=
  match a with APush _ => [] | AOut o => [o] | AMark _ os _ => os end.

(* y can be appended while x is processed *)
Definition step (x y : item) : Prop := exists a, In a (acts x) /\ In y (succ_of a).
Definition Reach : item -> item -> Prop := clos_refl_trans item step.

(* x leads to the recording of o / to the marking of c *)
Definition Emits (x : item) (o : T) : Prop :=
  exists y a, Reach x y /\ In a (acts y) /\ In o (emit_of a).
Definition Marks (x : item) (c : id) : Prop :=
  exists y os ys, Reach x y /\ In (AMark c os ys) (acts y).

Lemma reach_refl x : Reach x x. Proof. apply rt_refl. Qed.
Lemma reach_step x y z : step x y -> Reach y z -> Reach x z.
Proof. intros H1 H2. eapply rt_trans; [apply rt_step; exact H1|exact H2]. Qed.
Lemma reach_trans x y z : Reach x y -> Reach y z -> Reach x z.
Proof. intros H1 H2. eapply rt_trans; eassumption. Qed.

Lemma reach_inv x z : Reach x z -> x = z \/ exists y, step x y /\ Reach y z.
Proof.
  intro H. apply clos_rt_rt1n in H. destruct H as [|y z Hs Hr]; [left; reflexivity|].
  right. exists y. split; [exact Hs|apply clos_rt1n_rt; exact Hr].
Qed.

Lemma emits_unfold x o :
  Emits x o <-> (exists a, In a (acts x) /\ In o (emit_of a)) \/ (exists y, step x y /\ Emits y o).
Proof.
  split.
  - intros (z & a & Hr & Ha & Ho). apply reach_inv in Hr as [->|(y & Hs & Hr)].
    + left. exists a. split; assumption.
    + right. exists y. split; [exact Hs|]. exists z, a. repeat split; assumption.
  - intros [(a & Ha & Ho)|(y & Hs & z & a & Hr & Ha & Ho)].
    + exists x, a. repeat split; [apply reach_refl|exact Ha|exact Ho].
    + exists z, a. repeat split; [eapply reach_step; eassumption|exact Ha|exact Ho].
Qed.

Lemma marks_unfold x c :
  Marks x c <-> (exists os ys, In (AMark c os ys) (acts x)) \/ (exists y, step x y /\ Marks y c).
Proof.
  split.
  - intros (z & os & ys & Hr & Ha). apply reach_inv in Hr as [->|(y & Hs & Hr)].
    + left. exists os, ys. exact Ha.
    + right. exists y. split; [exact Hs|]. exists z, os, ys. split; assumption.
  - intros [(os & ys & Ha)|(y & Hs & z & os & ys & Hr & Ha)].
    + exists x, os, ys. split; [apply reach_refl|exact Ha].
    + exists z, os, ys. split; [eapply reach_step; eassumption|exact Ha].
Qed.

(* ---- one item: the statements of its dispatch, in order ---- *)
Lemma run_acts_spec (al : list (act T)) : forall stack st stack1 st1,
  run_acts al stack st = (stack1, st1) ->
  incl stack stack1 /\ incl (w_marks st) (w_marks st1) /\ incl (w_outs st) (w_outs st1) /\
  (forall y, In (APush y) al -> In y stack1) /\
  (forall o, In (AOut o) al -> In o (w_outs st1)) /\
  (forall c os ys, In (AMark c os ys) al -> In c (w_marks st1)) /\
  (forall c, In c (w_marks st1) -> In c (w_marks st) \/
     exists os ys, In (AMark c os ys) al /\ incl os (w_outs st1) /\ incl ys stack1) /\
  (forall y, In y stack1 -> In y stack \/ exists a, In a al /\ In y (succ_of a)) /\
  (forall o, In o (w_outs st1) -> In o (w_outs st) \/ exists a, In a al /\ In o (emit_of a)).
Proof.
  induction al as [|a al IH]; intros stack st stack1 st1 H; cbn [run_acts] in H.
  - injection H as <- <-. split; [apply incl_refl|]. split; [apply incl_refl|]. split; [apply incl_refl|].
    split; [intros ? []|]. split; [intros ? []|]. split; [intros ? ? ? []|].
    split; [intros; left; assumption|]. split; intros; left; assumption.
  - destruct a as [y|o|c os ys].
    + apply IH in H as (A & B & C & D & E & F & G & I & J). repeat split; auto.
      * intros z Hz. apply A. right. exact Hz.
      * intros z [Hz|Hz]; [injection Hz as <-; apply A; left; reflexivity|apply D; exact Hz].
      * intros o [Ho|Ho]; [discriminate Ho|apply E; exact Ho].
      * intros c os ys [Hc|Hc]; [discriminate Hc|eapply F; exact Hc].
      * intros c Hc. destruct (G c Hc) as [Hm|(os & ys & Hin & Ho & Hy)]; [left; exact Hm|].
        right. exists os, ys. split; [right; exact Hin|split; assumption].
      * intros z Hz. destruct (I z Hz) as [[<-|Hs]|(a & Ha & Hy)].
        -- right. exists (APush y). split; [left; reflexivity|left; reflexivity].
        -- left. exact Hs.
        -- right. exists a. split; [right; exact Ha|exact Hy].
      * intros o Ho. destruct (J o Ho) as [Hs|(a & Ha & Hy)]; [left; exact Hs|].
        right. exists a. split; [right; exact Ha|exact Hy].
    + apply IH in H as (A & B & C & D & E & F & G & I & J). cbn [w_marks w_outs] in *. repeat split; auto.
      * intros z Hz. apply C. right. exact Hz.
      * intros z [Hz|Hz]; [discriminate Hz|apply D; exact Hz].
      * intros o' [Ho|Ho]; [injection Ho as <-; apply C; left; reflexivity|apply E; exact Ho].
      * intros c os ys [Hc|Hc]; [discriminate Hc|eapply F; exact Hc].
      * intros c Hc. destruct (G c Hc) as [Hm|(os & ys & Hin & Ho & Hy)]; [left; exact Hm|].
        right. exists os, ys. split; [right; exact Hin|split; assumption].
      * intros z Hz. destruct (I z Hz) as [Hs|(a & Ha & Hy)]; [left; exact Hs|].
        right. exists a. split; [right; exact Ha|exact Hy].
      * intros o' Ho. destruct (J o' Ho) as [[<-|Hs]|(a & Ha & Hy)].
        -- right. exists (AOut o). split; [left; reflexivity|left; reflexivity].
        -- left. exact Hs.
        -- right. exists a. split; [right; exact Ha|exact Hy].
    + destruct (memb c (w_marks st)) eqn:Em.
      * apply memb_In in Em. apply IH in H as (A & B & C & D & E & F & G & I & J). repeat split; auto.
        -- intros z [Hz|Hz]; [discriminate Hz|apply D; exact Hz].
        -- intros o [Ho|Ho]; [discriminate Ho|apply E; exact Ho].
        -- intros c' os' ys' [Hc|Hc]; [injection Hc as <- _ _; apply B; exact Em|eapply F; exact Hc].
        -- intros c' Hc. destruct (G c' Hc) as [Hm|(os' & ys' & Hin & Ho & Hy)]; [left; exact Hm|].
           right. exists os', ys'. split; [right; exact Hin|split; assumption].
        -- intros z Hz. destruct (I z Hz) as [Hs|(a & Ha & Hy)]; [left; exact Hs|].
           right. exists a. split; [right; exact Ha|exact Hy].
        -- intros o Ho. destruct (J o Ho) as [Hs|(a & Ha & Hy)]; [left; exact Hs|].
           right. exists a. split; [right; exact Ha|exact Hy].
      * apply IH in H as (A & B & C & D & E & F & G & I & J). cbn [w_marks w_outs] in *. repeat split; auto.
        -- intros z Hz. apply A. apply in_or_app. right. exact Hz.
        -- intros z Hz. apply B. right. exact Hz.
        -- intros z Hz. apply C. apply in_or_app. right. exact Hz.
        -- intros z [Hz|Hz]; [discriminate Hz|apply D; exact Hz].
        -- intros o [Ho|Ho]; [discriminate Ho|apply E; exact Ho].
        -- intros c' os' ys' [Hc|Hc]; [injection Hc as <- _ _; apply B; left; reflexivity|eapply F; exact Hc].
        -- intros c' Hc. destruct (G c' Hc) as [[<-|Hm]|(os' & ys' & Hin & Ho & Hy)].
           ++ right. exists os, ys. split; [left; reflexivity|]. split.
              ** intros o Ho. apply C. apply in_or_app. left. apply -> in_rev. exact Ho.
              ** intros y Hy. apply A. apply in_or_app. left. apply -> in_rev. exact Hy.
           ++ left. exact Hm.
           ++ right. exists os', ys'. split; [right; exact Hin|split; assumption].
        -- intros z Hz. destruct (I z Hz) as [Hs|(a & Ha & Hy)].
           ++ apply in_app_or in Hs as [Hs|Hs]; [|left; exact Hs].
              right. exists (AMark c os ys). split; [left; reflexivity|]. cbn. apply in_rev. exact Hs.
           ++ right. exists a. split; [right; exact Ha|exact Hy].
        -- intros o Ho. destruct (J o Ho) as [Hs|(a & Ha & Hy)].
           ++ apply in_app_or in Hs as [Hs|Hs]; [|left; exact Hs].
              right. exists (AMark c os ys). split; [left; reflexivity|]. cbn. apply in_rev. exact Hs.
           ++ right. exists a. split; [right; exact Ha|exact Hy].
Qed.

(* ---- soundness ---- *)
Theorem wl_sound fuel : forall stack st st',
  wl acts bad fuel stack st = WOk st' ->
  (forall o, In o (w_outs st') -> In o (w_outs st) \/ exists x, In x stack /\ Emits x o) /\
  (forall c, In c (w_marks st') -> In c (w_marks st) \/ exists x, In x stack /\ Marks x c).
Proof.
  induction fuel as [|f IH]; intros stack st st' H; destruct stack as [|x rest]; cbn [wl] in H;
    try discriminate H.
  - injection H as <-. split; intros; left; assumption.
  - injection H as <-. split; intros; left; assumption.
  - destruct (bad x); [discriminate H|].
    destruct (run_acts (acts x) rest st) as [stack1 st1] eqn:Er.
    apply run_acts_spec in Er as (_ & _ & _ & _ & _ & _ & G & I & J).
    apply IH in H as [H1 H2]. split.
    + intros o Ho. destruct (H1 o Ho) as [Ho1|(y & Hy & Hem)].
      * destruct (J o Ho1) as [Hs|(a & Ha & Hoa)]; [left; exact Hs|].
        right. exists x. split; [left; reflexivity|]. exists x, a. repeat split; [apply reach_refl|exact Ha|exact Hoa].
      * destruct (I y Hy) as [Hs|(a & Ha & Hya)].
        -- right. exists y. split; [right; exact Hs|exact Hem].
        -- right. exists x. split; [left; reflexivity|]. apply emits_unfold. right. exists y. split; [exists a; split; assumption|exact Hem].
    + intros c Hc. destruct (H2 c Hc) as [Hc1|(y & Hy & Hem)].
      * destruct (G c Hc1) as [Hs|(os & ys & Ha & _)]; [left; exact Hs|].
        right. exists x. split; [left; reflexivity|]. exists x, os, ys. split; [apply reach_refl|exact Ha].
      * destruct (I y Hy) as [Hs|(a & Ha & Hya)].
        -- right. exists y. split; [right; exact Hs|exact Hem].
        -- right. exists x. split; [left; reflexivity|]. apply marks_unfold. right. exists y. split; [exists a; split; assumption|exact Hem].
Qed.

(* ---- closedness at termination ---- *)
Inductive Done (st' : wst T) : item -> Prop :=
| done_i x :
    (forall y, In (APush y) (acts x) -> Done st' y) ->
    (forall o, In (AOut o) (acts x) -> In o (w_outs st')) ->
    (forall c os ys, In (AMark c os ys) (acts x) -> In c (w_marks st')) ->
    Done st' x.

Lemma done_inv st' x : Done st' x ->
  (forall y, In (APush y) (acts x) -> Done st' y) /\
  (forall o, In (AOut o) (acts x) -> In o (w_outs st')) /\
  (forall c os ys, In (AMark c os ys) (acts x) -> In c (w_marks st')).
Proof. intro H. inversion H; subst. split; [assumption|split; assumption]. Qed.

(* the body of "if c not in marks" ran once, at an item reached from the stack: what it records
   is recorded, what it appends is done *)
Definition Fired (st' : wst T) (stack : list item) (c : id) : Prop :=
  exists x0 x os ys, In x0 stack /\ Reach x0 x /\ In (AMark c os ys) (acts x) /\
                     incl os (w_outs st') /\ Forall (Done st') ys.

Theorem wl_closed fuel : forall stack st st',
  wl acts bad fuel stack st = WOk st' ->
  Forall (Done st') stack /\
  (forall c, In c (w_marks st') -> In c (w_marks st) \/ Fired st' stack c) /\
  incl (w_marks st) (w_marks st') /\ incl (w_outs st) (w_outs st').
Proof.
  induction fuel as [|f IH]; intros stack st st' H; destruct stack as [|x rest]; cbn [wl] in H;
    try discriminate H.
  - injection H as <-. repeat split; [constructor|intros; left; assumption|apply incl_refl|apply incl_refl].
  - injection H as <-. repeat split; [constructor|intros; left; assumption|apply incl_refl|apply incl_refl].
  - destruct (bad x); [discriminate H|].
    destruct (run_acts (acts x) rest st) as [stack1 st1] eqn:Er.
    apply run_acts_spec in Er as (A & B & C & D & E & F & G & I & _).
    apply IH in H as (H1 & H2 & H3 & H4). rewrite Forall_forall in H1. repeat split.
    + constructor.
      * constructor.
        -- intros y Hy. apply H1, D, Hy.
        -- intros o Ho. apply H4, E, Ho.
        -- intros c os ys Hc. apply H3. eapply F, Hc.
      * apply Forall_forall. intros y Hy. apply H1, A, Hy.
    + intros c Hc. destruct (H2 c Hc) as [Hc1|(x0 & x1 & os & ys & Hx0 & Hr & Ha & Ho & Hy)].
      * destruct (G c Hc1) as [Hs|(os & ys & Ha & Ho & Hy)]; [left; exact Hs|].
        right. exists x, x, os, ys. split; [left; reflexivity|]. split; [apply reach_refl|]. split; [exact Ha|]. split.
        -- intros o Hin. apply H4, Ho, Hin.
        -- apply Forall_forall. intros y Hin. apply H1, Hy, Hin.
      * right. destruct (I x0 Hx0) as [Hs|(a & Ha' & Hs)].
        -- exists x0, x1, os, ys. split; [right; exact Hs|]. auto.
        -- exists x, x1, os, ys. split; [left; reflexivity|]. split; [|auto].
           eapply reach_step; [exists a; split; eassumption|exact Hr].
    + intros c Hc. apply H3, B, Hc.
    + intros o Ho. apply H4, C, Ho.
Qed.

(* ---- tables without marks: what is recorded is exactly what the stack leads to ---- *)
Definition no_marks : Prop := forall x c os ys, ~ In (AMark c os ys) (acts x).

Lemma done_reach st' x y : no_marks -> Done st' x -> Reach x y -> Done st' y.
Proof.
  intros Hn Hd Hr. apply clos_rt_rt1n in Hr. induction Hr as [|x y z (a & Ha & Hy) _ IH]; [exact Hd|].
  apply IH. apply done_inv in Hd as (D1 & _ & _). destruct a as [y'|o|c os ys]; cbn in Hy.
  - destruct Hy as [<-|[]]. apply D1, Ha.
  - destruct Hy.
  - exfalso. eapply Hn, Ha.
Qed.

Theorem wl_exact fuel stack st st' :
  no_marks -> wl acts bad fuel stack st = WOk st' ->
  forall o, In o (w_outs st') <-> In o (w_outs st) \/ exists x, In x stack /\ Emits x o.
Proof.
  intros Hn H o. split; [apply (wl_sound _ _ _ _ H)|].
  destruct (wl_closed _ _ _ _ H) as (H1 & _ & _ & H4). rewrite Forall_forall in H1.
  intros [Ho|(x & Hx & y & a & Hr & Ha & Hoa)]; [apply H4, Ho|].
  pose proof (done_reach st' x y Hn (H1 x Hx) Hr) as Hd. apply done_inv in Hd as (_ & D2 & D3).
  destruct a as [z|o'|c os ys]; cbn in Hoa.
  - destruct Hoa.
  - destruct Hoa as [<-|[]]. apply D2, Ha.
  - exfalso. eapply Hn, Ha.
Qed.

Theorem wl_run_exact fuel roots l :
  no_marks -> wl_run acts bad fuel roots = WOk l ->
  forall o, In o l <-> exists x, In x roots /\ Emits x o.
Proof.
  unfold wl_run. intros Hn H o.
  destruct (wl acts bad fuel (rev roots) (mkW [] [])) as [st'| |] eqn:E; try discriminate H.
  injection H as <-. rewrite <- in_rev, (wl_exact _ _ _ _ Hn E o). cbn. split.
  - intros [[]|(x & Hx & He)]. exists x. split; [apply in_rev; exact Hx|exact He].
  - intros (x & Hx & He). right. exists x. split; [apply -> in_rev; exact Hx|exact He].
Qed.

(* ---- fuel ---- *)
Lemma wl_fuel_mono fuel : forall stack st st' k,
  wl acts bad fuel stack st = WOk st' -> wl acts bad (fuel + k) stack st = WOk st'.
Proof.
  induction fuel as [|f IH]; intros stack st st' k H; destruct stack as [|x rest]; cbn [wl] in H;
    try discriminate H.
  - destruct (0 + k); exact H.
  - cbn [wl plus]. exact H.
  - cbn [wl plus]. destruct (bad x); [discriminate H|].
    destruct (run_acts (acts x) rest st) as [stack1 st1]. apply IH. exact H.
Qed.

End WLP.
