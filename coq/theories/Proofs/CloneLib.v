(* Library._clone as a sequence of stages: the running invariant with the bookkeeping needed for the
   reference sets. *)
From Coq Require Import List Arith Bool Lia.
From RecordUpdate Require Import RecordSet.
From SV Require Import Base.Base IR.State IR.NS IR.Ops Xform.Clone Proofs.AssocX Proofs.Frame Proofs.Inv1a Proofs.Inv2a
  Proofs.InvP Proofs.InvW Proofs.Fresh Proofs.NsInv Proofs.Repoint Proofs.CloneInv Proofs.RefK Proofs.CloneRef Proofs.CloneT Proofs.FieldT
  Proofs.CloneMemo Proofs.CloneRR Proofs.CloneFaith Proofs.CloneInvP Proofs.CloneFull
  Proofs.CloneMemoK Proofs.CloneFaithK Proofs.CloneStage Proofs.CloneStageP Proofs.CloneRun Proofs.CloneEx Proofs.CloneRemap.
Import ListNotations RecordSetNotations.

Lemma defimg_stable s0 d d' s m s2 m2 :
  DefImg s0 d d' s m -> (forall r p c, In c (kids s r p) -> c < next s /\ p < next s) -> d' < next s -> msub m m2 -> kstable s s2 -> DefImg s0 d d' s2 m2.
Proof.
  intros [A B C D F O1 O2 O3] KL Hd Hm Hk. pose proof Hk as [_ Hk']. constructor.
  6:{ rewrite Hk' by exact Hd. revert O1. apply forall2_mono. intros a b H. apply Hm. exact H. }
  6:{ rewrite Hk' by exact Hd. revert O2. apply forall2_mono. intros a b H. apply Hm. exact H. }
  6:{ rewrite Hk' by exact Hd. revert O3. apply forall2_mono. intros a b H. apply Hm. exact H. }
  - intros p Hp. destruct (A p Hp) as [p' [H1 [H2 H3]]]. exists p'. split; [apply Hm; exact H1|]. split; [rewrite Hk' by exact Hd; exact H2|].
    apply (imgok_stable s0 RPins p p' s m s2 m2 H3); [apply (KL RPorts d' p' H2)|exact Hm|exact Hk].
  - intros p Hp. destruct (B p Hp) as [p' [H1 [H2 H3]]]. exists p'. split; [apply Hm; exact H1|]. split; [rewrite Hk' by exact Hd; exact H2|].
    apply (imgok_stable s0 RWires p p' s m s2 m2 H3); [apply (KL RCables d' p' H2)|exact Hm|exact Hk].
  - intros p Hp. destruct (C p Hp) as [p' [H1 H2]]. exists p'. split; [apply Hm; exact H1|rewrite Hk' by exact Hd; exact H2].
  - intros p' Hp'. rewrite Hk' in Hp' by exact Hd. destruct (D p' Hp') as [p [H1 H2]]. exists p. split; [apply Hm; exact H1|exact H2].
  - intros p' Hp'. rewrite Hk' in Hp' by exact Hd. destruct (F p' Hp') as [p [H1 H2]]. exists p. split; [apply Hm; exact H1|exact H2].
Qed.

Lemma dedup_keep_In x l : In x (dedup_keep l) <-> In x l.
Proof.
  induction l as [|a l IH]; cbn; [tauto|]. rewrite filter_In, IH. split.
  - intros [H|[H _]]; [left; exact H|right; exact H].
  - intros [H|H]; [left; exact H|]. destruct (Nat.eq_dec x a) as [->|Hne]; [left; reflexivity|right].
    split; [exact H|]. apply negb_true_iff. apply Nat.eqb_neq. exact Hne.
Qed.
Lemma dedup_keep_NoDup l : NoDup (dedup_keep l).
Proof.
  induction l as [|a l IH]; cbn; [constructor|]. constructor.
  - rewrite filter_In. intros [_ H]. rewrite Nat.eqb_refl in H. discriminate.
  - apply NoDup_filter. exact IH.
Qed.

(* the running invariant with the bookkeeping for references and reference sets *)
Record RY (s0 s : state) (m : memo) : Prop := mkRY {
  ry_rx : RX s0 s m;
  ry_ir : forall x x', In (x, x') m -> kind_of s0 x = Some KInstance ->
            iref s x' = iref s0 x \/ (exists e e', iref s0 x = Some e /\ In (e, e') m /\ iref s x' = Some e');
  ry_d1 : forall d d', In (d, d') m -> kind_of s0 d = Some KDefinition ->
            forall n, In n (drefs s d') -> exists r, In r (drefs s0 d) /\ (n = r \/ In (r, n) m);
  ry_d2 : forall d d', In (d, d') m -> kind_of s0 d = Some KDefinition ->
            forall r, In r (drefs s0 d) -> In r (drefs s d') \/ exists n, In (r, n) m /\ In n (drefs s d');
  ry_dn : forall y, (forall d, In (d, y) m -> kind_of s0 d <> Some KDefinition) -> drefs s y = drefs s0 y
}.

Lemma ry_start s0 : UF s0 -> RY s0 s0 [].
Proof.
  intro U. constructor.
  - constructor; [apply ri_start; exact U|intros d d' []|apply ex_start].
  - intros x x' [].
  - intros d d' [].
  - intros d d' [].
  - intros y _. reflexivity.
Qed.

(* kinds of the objects of a definition *)
Lemma def_objects_kind s0 d y : InvT s0 -> In y (def_objects s0 d) -> y = d \/ (kind_of s0 y <> Some KDefinition).
Proof.
  intros HT [<-|H]; [left; reflexivity|right]. apply in_app_or in H. destruct H as [H|H].
  - destruct (bundles_kinds s0 HT RPorts RPins d y H) as [E|E]; rewrite E; discriminate.
  - apply in_app_or in H. destruct H as [H|H].
    + destruct (bundles_kinds s0 HT RCables RWires d y H) as [E|E]; rewrite E; discriminate.
    + rewrite (src_kind_child s0 HT _ _ _ H). discriminate.
Qed.

Section RYDef.
  Variables (s0 s G : state) (m m' : memo) (d d' : id).
  Hypothesis U0 : UF s0.
  Hypothesis Y : RY s0 s m.
  Hypothesis Hd : d < next s0.
  Hypothesis Hkd : kind_of s0 d = Some KDefinition.
  Hypothesis Hfree : forall y, In y (def_objects s0 d) -> ~ In y (map fst m).
  Hypothesis E : def_clone1 (s, m) d = ((G, m', d'), None).

  Theorem ry_def_stage :
    RY s0 G m' /\ d' = next s /\ In (d, d') m' /\ msub m m' /\ keys_ext m m' (def_objects s0 d) /\ kstable s G /\
    next s < next G /\ (forall r, par G r d' = None) /\ kpframe (next s) s G.
  Proof.
    pose proof (ry_rx _ _ _ Y) as X. pose proof (rx_ri _ _ _ X) as R.
    destruct (def_stage s0 s G m m' d d' U0 R Hd Hkd Hfree E) as [RG [SO [DI [Hd' [Hin [Hn [Hf [Hpd [Hdr [Hdo Hks]]]]]]]]]].
    pose proof (ri_st _ _ _ R) as ST0. destruct U0 as [I0 [T0 [F0' [FT0' K0']]]].
    assert (Hentry : forall a b, In (a, b) m' -> kind_of s0 a = Some KDefinition -> In (a, b) m \/ (a = d /\ b = d')).
    { intros a b H Hk. destruct (in_memo_dec m a b) as [Hi|Hi]; [left; exact Hi|right].
      assert (Ha : In a (map fst m')) by (apply in_map_iff; exists (a, b); split; [reflexivity|exact H]).
      apply (so_keys _ _ _ _ _ _ SO) in Ha. destruct Ha as [Ha|Ha].
      - destruct (def_objects_kind s0 d a T0 Ha) as [->|Hne]; [|contradiction]. split; [reflexivity|].
        apply (memo_fun m' d b d' (so_fun _ _ _ _ _ _ SO) H Hin).
      - exfalso. apply in_map_iff in Ha as [[a1 b1] [E1 Ha]]. cbn in E1. subst a1.
        pose proof (memo_fun m' a b b1 (so_fun _ _ _ _ _ _ SO) H (so_sub _ _ _ _ _ _ SO _ Ha)) as ->. contradiction. }
    split; [|split; [exact Hd'|split; [exact Hin|split; [apply (so_sub _ _ _ _ _ _ SO)|split; [apply (so_keys _ _ _ _ _ _ SO)|split; [exact Hks|split; [exact Hn|split; [exact Hpd|exact Hf]]]]]]]].
    constructor.
    - constructor; [exact RG| |].
      + intros a b H Hk. destruct (Hentry a b H Hk) as [Hi|[-> ->]]; [|exact DI].
        apply (defimg_stable s0 a b s m G m' (rx_di _ _ _ X a b Hi Hk) (ri_kl _ _ _ R)); [apply (st_rng _ _ _ ST0 a b Hi)|apply (so_sub _ _ _ _ _ _ SO)|exact Hks].
      + apply (ex_of_stage s0 s G m m' _ ST0 (rx_ex _ _ _ X) SO (inv_p _ I0) FT0' F0' K0').
    - intros x x' H Hk. destruct (in_memo_dec m x x') as [Hi|Hi].
      + destruct (st_rng _ _ _ ST0 x x' Hi) as [_ [_ Hlt]]. destruct (so_old _ _ _ _ _ _ SO x' Hlt) as [_ [_ [_ [_ Hir]]]]. rewrite Hir.
        destruct (ry_ir _ _ _ Y x x' Hi Hk) as [H1|[e [e' [A [B C]]]]]; [left; exact H1|right; exists e, e'; split; [exact A|split; [apply (so_sub _ _ _ _ _ _ SO); exact B|exact C]]].
      + left. apply (so_inst _ _ _ _ _ _ SO x x' H (so_new _ _ _ _ _ _ SO x x' H Hi) Hk).
    - intros a b H Hk n Hnn. destruct (Hentry a b H Hk) as [Hi|[-> ->]].
      + rewrite (Hdo b) in Hnn by (destruct (st_rng _ _ _ ST0 a b Hi); lia).
        destruct (ry_d1 _ _ _ Y a b Hi Hk n Hnn) as [r [A [B|B]]]; exists r; (split; [exact A|]); [left; exact B|right; apply (so_sub _ _ _ _ _ _ SO); exact B].
      + rewrite Hdr in Hnn. exists n. split; [exact Hnn|left; reflexivity].
    - intros a b H Hk r Hr. destruct (Hentry a b H Hk) as [Hi|[-> ->]].
      + rewrite (Hdo b) by (destruct (st_rng _ _ _ ST0 a b Hi); lia).
        destruct (ry_d2 _ _ _ Y a b Hi Hk r Hr) as [A|[n [A B]]]; [left; exact A|right; exists n; split; [apply (so_sub _ _ _ _ _ _ SO); exact A|exact B]].
      + rewrite Hdr. left. exact Hr.
    - intros y Hy. assert (Hyd : y <> d') by (intros ->; apply (Hy d Hin Hkd)).
      rewrite (Hdo y Hyd). apply (ry_dn _ _ _ Y). intros a Ha. apply Hy. apply (so_sub _ _ _ _ _ _ SO). exact Ha.
  Qed.
End RYDef.

(* ---- attaching copied definitions to the copied library (and libraries to the netlist) ---- *)
Definition attach (s : state) (r : rel) (p : id) (L : list id) : state :=
  fold_ids (fun s c => set_par s r c (Some p)) L (set_kids s r p L).

Lemma attach_fields s r p L :
  kids (attach s r p L) = upd2 (kids s) r p L /\
  (forall r0 y, par (attach s r p L) r0 y = if rel_eqb r0 r && memb y L then Some p else par s r0 y) /\
  next (attach s r p L) = next s /\ kind_of (attach s r p L) = kind_of s /\ iref (attach s r p L) = iref s /\
  drefs (attach s r p L) = drefs s /\ ipins (attach s r p L) = ipins s /\ wpins (attach s r p L) = wpins s /\
  ipwire (attach s r p L) = ipwire s.
Proof.
  unfold attach. destruct (fold_set_par_spec r p L (set_kids s r p L)) as [A [B C]].
  destruct (fields_fold_set_par r (Some p) L (set_kids s r p L)) as [F1 [F2 [F3 F4]]].
  split; [rewrite A; reflexivity|]. split; [exact C|]. split; [exact B|]. split; [exact (kind_fold_set_par r (Some p) L (set_kids s r p L))|]. split; [exact F4|].
  split; [exact (proj2 (rd_fold_set_par r (Some p) L (set_kids s r p L)))|]. split; [exact F3|]. split; [exact F2|exact F1].
Qed.

Lemma imgok_inner s0 rl p p' s s' m : kids s' rl p' = kids s rl p' -> ImgOK s0 rl p p' s m -> ImgOK s0 rl p p' s' m.
Proof. intros Hk [A [B C]]. split; [intros i Hi; destruct (A i Hi) as [i' H]; exists i'; rewrite Hk; exact H|split; [intros i' Hi'; rewrite Hk in Hi'; apply B; exact Hi'|rewrite Hk; exact C]]. Qed.

Lemma defimg_inner s0 d d' s s' m :
  (forall r y, r <> RDefs -> r <> RLibs -> kids s' r y = kids s r y) -> DefImg s0 d d' s m -> DefImg s0 d d' s' m.
Proof.
  intros Hk [A B C D F O1 O2 O3].
  assert (K1 : forall y, kids s' RPorts y = kids s RPorts y) by (intro y; apply Hk; discriminate).
  assert (K2 : forall y, kids s' RCables y = kids s RCables y) by (intro y; apply Hk; discriminate).
  assert (K3 : forall y, kids s' RChildren y = kids s RChildren y) by (intro y; apply Hk; discriminate).
  assert (K4 : forall y, kids s' RPins y = kids s RPins y) by (intro y; apply Hk; discriminate).
  assert (K5 : forall y, kids s' RWires y = kids s RWires y) by (intro y; apply Hk; discriminate).
  constructor.
  - intros p Hp. destruct (A p Hp) as [p' [H1 [H2 H3]]]. exists p'. rewrite K1. split; [exact H1|split; [exact H2|apply (imgok_inner _ _ _ _ s s' m (K4 p') H3)]].
  - intros p Hp. destruct (B p Hp) as [p' [H1 [H2 H3]]]. exists p'. rewrite K2. split; [exact H1|split; [exact H2|apply (imgok_inner _ _ _ _ s s' m (K5 p') H3)]].
  - intros p Hp. destruct (C p Hp) as [p' H]. exists p'. rewrite K3. exact H.
  - intros p' Hp'. rewrite K1 in Hp'. apply D. exact Hp'.
  - intros p' Hp'. rewrite K3 in Hp'. apply F. exact Hp'.
  - rewrite K1. exact O1.
  - rewrite K2. exact O2.
  - rewrite K3. exact O3.
Qed.

Lemma memb_true_In x l : memb x l = true <-> In x l.
Proof. split; [apply memb_In|]. intro H. destruct (memb x l) eqn:E; [reflexivity|]. apply memb_false in E. contradiction. Qed.

Section Attach.
  Variables (s0 s : state) (m : memo) (r : rel) (p : id) (L : list id).
  Hypothesis Y : RY s0 s m.
  Hypothesis Hr : r = RDefs.
  Hypothesis Hp0 : next s0 <= p.
  Hypothesis Hpn : p < next s.
  Hypothesis Hkp : kind_of s p = Some (rel_parent r).
  Hypothesis Hpk : kids s r p = [].
  Hypothesis HL : forall c, In c L -> next s0 <= c /\ c < next s /\ kind_of s c = Some (rel_child r) /\ par s r c = None.
  Hypothesis HLnd : NoDup L.

  Let t := attach s r p L.

  Theorem attach_ry : RY s0 t m /\ kids t = upd2 (kids s) r p L /\ next t = next s /\ iref t = iref s /\ drefs t = drefs s /\ kind_of t = kind_of s.
  Proof.
    destruct (attach_fields s r p L) as [Fk [Fp [Fn [Fkd [Fr [Fd [Fi [Fw Fiw]]]]]]]]. fold t in Fk, Fp, Fn, Fkd, Fr, Fd, Fi, Fw, Fiw.
    pose proof (ry_rx _ _ _ Y) as X. pose proof (rx_ri _ _ _ X) as R. pose proof (ri_st _ _ _ R) as ST0.
    assert (Hrc : r <> RChildren /\ r <> RPorts /\ r <> RPins /\ r <> RCables /\ r <> RWires) by (rewrite Hr; repeat split; discriminate).
    assert (HrL : r <> RLibs) by (rewrite Hr; discriminate).
    assert (Hkin : forall r0 y, (r0 <> r \/ y <> p) -> kids t r0 y = kids s r0 y).
    { intros r0 y H. rewrite Fk, kids_upd2_ns. destruct (rel_eqb r0 r) eqn:Er; cbn [andb]; [|reflexivity].
      apply rel_eqb_spec in Er. destruct (Nat.eqb_spec y p) as [->|]; [|reflexivity]. destruct H as [H|H]; contradiction. }
    assert (Hkp' : kids t r p = L) by (rewrite Fk; apply upd2_same).
    assert (Hpin : forall r0 y, (r0 <> r \/ ~ In y L) -> par t r0 y = par s r0 y).
    { intros r0 y H. rewrite Fp. destruct (rel_eqb r0 r) eqn:Er; cbn [andb]; [|reflexivity]. apply rel_eqb_spec in Er.
      destruct (memb y L) eqn:Em; [|reflexivity]. apply memb_In in Em. destruct H as [H|H]; contradiction. }
    assert (Hpl : forall y, In y L -> par t r y = Some p).
    { intros y Hy. rewrite Fp, rel_eqb_refl. apply memb_true_In in Hy. rewrite Hy. reflexivity. }
    split; [|repeat split; assumption].
    constructor; [constructor|..].
    - (* RI *) constructor.
      + destruct ST0 as [a b c d e f g h i j k l0 n]. constructor; rewrite ?Fn, ?Fkd, ?Fiw, ?Fw, ?Fi, ?Fr; try assumption.
        intros r0 y Hy. rewrite Hkin by (right; lia). apply g. exact Hy.
      + (* containment *) intros r0 Hr0. split.
        * intros q x. destruct (rel_eq_dec r0 r) as [->|Hne].
          -- pose proof (ri_1a _ _ _ R r HrL) as [I1k _]. destruct (Nat.eq_dec q p) as [->|Hqp].
             ++ rewrite Hkp'. split; [apply Hpl|]. intro Hx. destruct (memb x L) eqn:Em; [apply memb_In; exact Em|].
                rewrite Hpin in Hx by (right; intro H; apply memb_true_In in H; congruence).
                apply I1k in Hx. rewrite Hpk in Hx. destruct Hx.
             ++ rewrite Hkin by (right; exact Hqp). split.
                ** intro Hx. assert (Hnl : ~ In x L). { intro H. destruct (HL x H) as [_ [_ [_ Hpx]]]. apply I1k in Hx. congruence. }
                   rewrite Hpin by (right; exact Hnl). apply I1k. exact Hx.
                ** intro Hx. destruct (memb x L) eqn:Em.
                   --- apply memb_In in Em. rewrite (Hpl x Em) in Hx. injection Hx as Hx. congruence.
                   --- rewrite Hpin in Hx by (right; intro H; apply memb_true_In in H; congruence). apply I1k. exact Hx.
          -- rewrite Hkin, Hpin by (left; exact Hne). apply (proj1 (ri_1a _ _ _ R r0 Hr0)).
        * intros q. destruct (rel_eq_dec r0 r) as [->|Hne]; [destruct (Nat.eq_dec q p) as [->|Hqp]|].
          -- rewrite Hkp'. exact HLnd.
          -- rewrite Hkin by (right; exact Hqp). apply (proj2 (ri_1a _ _ _ R r HrL)).
          -- rewrite Hkin by (left; exact Hne). apply (proj2 (ri_1a _ _ _ R r0 Hr0)).
      + (* members and parents are allocated *) intros r0 q x Hx. rewrite Fn. destruct (rel_eq_dec r0 r) as [->|Hne]; [destruct (Nat.eq_dec q p) as [->|Hqp]|].
        * rewrite Hkp' in Hx. destruct (HL x Hx) as [_ [Hxn _]]. split; assumption.
        * rewrite Hkin in Hx by (right; exact Hqp). apply (ri_kl _ _ _ R _ _ _ Hx).
        * rewrite Hkin in Hx by (left; exact Hne). apply (ri_kl _ _ _ R _ _ _ Hx).
      + (* typing *) intros r0 q x Hx. rewrite Fkd. destruct (rel_eq_dec r0 r) as [->|Hne]; [destruct (Nat.eq_dec q p) as [->|Hqp]|].
        * rewrite Hkp' in Hx. destruct (HL x Hx) as [_ [_ [Hk _]]]. split; [exact Hk|exact Hkp].
        * rewrite Hkin in Hx by (right; exact Hqp). apply (ri_t _ _ _ R). exact Hx.
        * rewrite Hkin in Hx by (left; exact Hne). apply (ri_t _ _ _ R). exact Hx.
      + apply (invp_same s t (ri_p _ _ _ R)); [intro q; apply pw_ext; assumption|intro w; rewrite Fw; reflexivity].
      + apply (invk_same s t (ri_k _ _ _ R)); [intro n; unfold keys; rewrite Fi; reflexivity|exact Fr|intro x; apply Hpin; left; intro Eq; apply (proj1 (proj2 Hrc)); symmetry; exact Eq|intro x; apply Hpin; left; intro Eq; apply (proj1 (proj2 (proj2 Hrc))); symmetry; exact Eq].
      + intros r0 y Hy. rewrite Fn in Hy. split.
        * rewrite Hkin by (right; lia). apply (ri_ab _ _ _ R r0 y Hy).
        * rewrite Hpin by (right; intro H; destruct (HL y H) as [_ [H1 _]]; lia). apply (ri_ab _ _ _ R r0 y Hy).
      + intros r0 y q Hq. rewrite Fn. rewrite Fp in Hq. destruct (rel_eqb r0 r && memb y L); [injection Hq as <-; exact Hpn|apply (ri_pl _ _ _ R r0 y q Hq)].
      + intros r0 y Hy. rewrite Hpin by (right; intro H; destruct (HL y H); lia). apply (ri_po _ _ _ R r0 y Hy).
      + intros r0 y q Hy Hq. rewrite Fp in Hq. destruct (rel_eqb r0 r && memb y L); [injection Hq as <-; exact Hp0|apply (ri_pn _ _ _ R r0 y q Hy Hq)].
      + intros n d Hn. rewrite Fr in Hn. rewrite Fn. apply (ri_rl _ _ _ R n d Hn).
      + intros x j w Hx Hw. rewrite Fi in Hw. apply (ri_nw _ _ _ R x j w Hx Hw).
      + intros d Hd. rewrite Fd. apply (ri_dr _ _ _ R d Hd).
    - intros d d' Hdd Hk. apply (defimg_inner s0 d d' s t m); [|apply (rx_di _ _ _ X d d' Hdd Hk)].
      intros r0 y H1 H2. apply Hkin. left. rewrite Hr. exact H1.
    - apply (ex_same s0 s t m (rx_ex _ _ _ X) (st_fun _ _ _ ST0)); assumption.
    - intros x x' H Hk. rewrite Fr. apply (ry_ir _ _ _ Y x x' H Hk).
    - intros d d' H Hk n. rewrite Fd. apply (ry_d1 _ _ _ Y d d' H Hk n).
    - intros d d' H Hk n. rewrite Fd. apply (ry_d2 _ _ _ Y d d' H Hk n).
    - intros y Hy. rewrite Fd. apply (ry_dn _ _ _ Y y Hy).
  Qed.
End Attach.

(* ---- allocation of the copy of a library / netlist ---- *)
Lemma ry_plain_stage s0 s m x K s1 x' :
  RY s0 s m -> x < next s0 -> ~ In x (map fst m) -> kind_of s0 x = Some K ->
  (K = KLibrary \/ K = KNetlist) ->
  clone_alloc s K = (s1, x') ->
  let s' := copy_data s1 x x' in
  RY s0 s' ((x, x') :: m) /\ x' = next s /\ next s' = S (next s) /\ kids s' = kids s /\ par s' = par s /\ kind_of s' x' = Some K.
Proof.
  intros Y Hx Hn Hk HK Ea. cbn zeta. pose proof (ry_rx _ _ _ Y) as X. pose proof (rx_ri _ _ _ X) as R.
  assert (K1 : kind_eqb K KPin = false /\ kind_eqb K KWire = false /\ kind_eqb K KInstance = false) by (destruct HK as [-> | ->]; repeat split; reflexivity).
  destruct K1 as [K1 [K2 K3]].
  destruct (plain_stage s0 s m x K s1 x' R Hx Hn Hk K1 K2 K3 Ea) as [R' [Hx' [Hn' [Hkd [Hp [Hd [Hi Hkk]]]]]]].
  assert (Hsub : msub m ((x, x') :: m)) by (intros e He; right; exact He).
  assert (Hks : kstable s (copy_data s1 x x')) by (split; [cbn in *; lia|intros r y _; rewrite Hkd; reflexivity]).
  assert (Hnd : forall a b, In (a, b) ((x, x') :: m) -> (kind_of s0 a = Some KDefinition \/ kind_of s0 a = Some KInstance) -> In (a, b) m).
  { intros a b [E|H] Hka; [|exact H]. injection E as <- <-. rewrite Hk in Hka. destruct HK as [-> | ->]; destruct Hka as [Q|Q]; discriminate Q. }
  split; [|repeat split; assumption].
  constructor.
  - constructor; [exact R'| |].
    + intros d d' H Hkd0. pose proof (Hnd d d' H (or_introl Hkd0)) as Hi0.
      apply (defimg_stable s0 d d' s m _ _ (rx_di _ _ _ X d d' Hi0 Hkd0) (ri_kl _ _ _ R)); [apply (st_rng _ _ _ (ri_st _ _ _ R) d d' Hi0)|exact Hsub|exact Hks].
    + destruct (clone_alloc_fields _ _ _ _ Ea) as [_ [_ [_ [_ [W1 [P1 [I1 R1]]]]]]].
      apply (ex_grow s0 s _ m ((x, x') :: m) (rx_ex _ _ _ X) Hsub (st_fun _ _ _ (ri_st _ _ _ R'))).
      * intros a b _. cbn. rewrite W1, P1, I1, R1. repeat split.
      * intros a b [E|H] Hno; [|contradiction]. injection E as <- <-. rewrite Hk. destruct HK as [-> | ->]; repeat split; discriminate.
  - intros a b H Hka. pose proof (Hnd a b H (or_intror Hka)) as Hi0. rewrite Hi.
    destruct (ry_ir _ _ _ Y a b Hi0 Hka) as [H1|[e [e' [A [B C]]]]]; [left; exact H1|right; exists e, e'; split; [exact A|split; [right; exact B|exact C]]].
  - intros d d' H Hkd0 n Hnn. pose proof (Hnd d d' H (or_introl Hkd0)) as Hi0. rewrite Hd in Hnn.
    destruct (ry_d1 _ _ _ Y d d' Hi0 Hkd0 n Hnn) as [r [A [B|B]]]; exists r; (split; [exact A|]); [left; exact B|right; right; exact B].
  - intros d d' H Hkd0 r Hr. pose proof (Hnd d d' H (or_introl Hkd0)) as Hi0. rewrite Hd.
    destruct (ry_d2 _ _ _ Y d d' Hi0 Hkd0 r Hr) as [A|[n [A B]]]; [left; exact A|right; exists n; split; [right; exact A|exact B]].
  - intros y Hy. rewrite Hd. apply (ry_dn _ _ _ Y). intros a Ha. apply Hy. right. exact Ha.
Qed.

(* ---- the redirect loop on one copied definition ---- *)
Lemma ry_def_rr s0 s s' m d d' :
  UF s0 -> RY s0 s m -> In (d, d') m -> kind_of s0 d = Some KDefinition ->
  (forall x e, In x (kids s0 RChildren d) -> iref s0 x = Some e -> In e (map fst m) -> kind_of s0 e = Some KDefinition) ->
  def_rr m s d' = (s', None) ->
  RY s0 s' m /\ kids s' = kids s /\ par s' = par s /\ next s' = next s /\ kind_of s' = kind_of s /\
  (forall y, ~ In y (kids s RChildren d') -> iref s' y = iref s y) /\
  (forall y, In y (kids s RChildren d') -> iref s' y = remap_ref m (iref s y)) /\
  drefs s' = upd (drefs s) d' (dedup_keep (map (fun r => match mget m r with Some r' => r' | None => r end) (drefs s d'))).
Proof.
  intros U0 Y Hdd Hkd Hcl E. pose proof (ry_rx _ _ _ Y) as X. pose proof (rx_ri _ _ _ X) as R. pose proof (ri_st _ _ _ R) as ST0.
  destruct (st_rng _ _ _ ST0 d d' Hdd) as [Hd0 [Hd'0 Hd'n]].
  pose proof (rx_di _ _ _ X d d' Hdd Hkd) as DI.
  assert (Hvals : forall a b, In (a, b) m -> ~ In b (map fst m)).
  { intros a b H Hin. apply in_map_iff in Hin as [[a1 b1] [E1 Hin]]. cbn in E1. subst a1. destruct (st_rng _ _ _ ST0 a b H). destruct (st_rng _ _ _ ST0 b b1 Hin). lia. }
  assert (HL : forall x', In x' (kids s RChildren d') -> next s0 <= x' /\
             forall e, iref s x' = Some e -> In e (map fst m) -> kind_of s0 e = Some KDefinition).
  { intros x' Hx'. destruct (di_children_rev _ _ _ _ _ DI x' Hx') as [x [Hxx Hx]].
    split; [apply (st_rng _ _ _ ST0 x x' Hxx)|]. intros e Hr He.
    assert (Hkx : kind_of s0 x = Some KInstance) by (destruct U0 as [_ [T0 _]]; apply (src_kind_child s0 T0 _ _ _ Hx)).
    destruct (ry_ir _ _ _ Y x x' Hxx Hkx) as [H1|[e0 [e0' [A [B C]]]]].
    - rewrite H1 in Hr. apply (Hcl x e Hx Hr He).
    - rewrite C in Hr. injection Hr as <-. exfalso. apply (Hvals e0 e0' B He). }
  destruct (def_rr_spec s0 s s' m d' U0 X Hd'0 HL E) as [X' [A [B [C [D [Hdr [F G]]]]]]].
  split; [|split; [exact A|split; [exact B|split; [exact C|split; [exact D|split; [exact F|split; [exact G|exact Hdr]]]]]]].
  constructor; [exact X'| | | |].
  - intros x x' Hxx Hkx. destruct (in_dec Nat.eq_dec x' (kids s RChildren d')) as [Hin|Hout].
    + rewrite (G x' Hin). destruct (ry_ir _ _ _ Y x x' Hxx Hkx) as [H1|[e0 [e0' [P [Q S]]]]].
      * rewrite H1. destruct (iref s0 x) as [e|] eqn:Er; [|left; reflexivity]. cbn. destruct (mget m e) as [e'|] eqn:Em; [|left; reflexivity].
        right. exists e, e'. split; [reflexivity|split; [apply mget_in; exact Em|reflexivity]].
      * rewrite S. cbn. destruct (mget m e0') as [z|] eqn:Em; [exfalso; apply (Hvals e0 e0' Q); apply (mget_key m e0' z Em)|].
        right. exists e0, e0'. repeat split; assumption.
    + rewrite (F x' Hout). apply (ry_ir _ _ _ Y x x' Hxx Hkx).
  - intros a b H Hk n Hn. rewrite Hdr in Hn. unfold upd in Hn. destruct (Nat.eqb_spec b d') as [->|Hne].
    + assert (a = d) by (apply (memo_inj m a d d' (st_inj _ _ _ ST0) H Hdd)). subst a.
      apply (proj1 (dedup_keep_In _ _)) in Hn. apply in_map_iff in Hn as [y [Ey Hy]].
      destruct (ry_d1 _ _ _ Y d d' Hdd Hkd y Hy) as [r [Hr [->|Hry]]].
      * exists r. split; [exact Hr|]. destruct (mget m r) as [r'|] eqn:Em; [right; subst n; apply mget_in; exact Em|left; symmetry; exact Ey].
      * exists r. split; [exact Hr|]. right. destruct (mget m y) as [z|] eqn:Em; [exfalso; apply (Hvals r y Hry); apply (mget_key m y z Em)|]. subst n. exact Hry.
    + apply (ry_d1 _ _ _ Y a b H Hk n Hn).
  - intros a b H Hk r Hr. rewrite Hdr. unfold upd. destruct (Nat.eqb_spec b d') as [->|Hne].
    + assert (a = d) by (apply (memo_inj m a d d' (st_inj _ _ _ ST0) H Hdd)). subst a.
      destruct (ry_d2 _ _ _ Y d d' Hdd Hkd r Hr) as [Hin|[n [Hrn Hin]]].
      * destruct (mget m r) as [r'|] eqn:Em.
        -- right. exists r'. split; [apply mget_in; exact Em|]. apply dedup_keep_In. apply in_map_iff. exists r. rewrite Em. split; [reflexivity|exact Hin].
        -- left. apply dedup_keep_In. apply in_map_iff. exists r. rewrite Em. split; [reflexivity|exact Hin].
      * right. exists n. split; [exact Hrn|]. apply dedup_keep_In. apply in_map_iff. exists n.
        destruct (mget m n) as [z|] eqn:Em; [exfalso; apply (Hvals r n Hrn); apply (mget_key m n z Em)|]. split; [reflexivity|exact Hin].
    + apply (ry_d2 _ _ _ Y a b H Hk r Hr).
  - intros y Hy. assert (Hyd : y <> d') by (intros ->; apply (Hy d Hdd Hkd)).
    rewrite Hdr. unfold upd. apply Nat.eqb_neq in Hyd. rewrite Hyd. apply (ry_dn _ _ _ Y y Hy).
Qed.

(* ---- finality: after the pass with the final memo, references and reference sets are settled ---- *)
Definition FinX (s0 : state) (M : memo) (s : state) (x' : id) : Prop :=
  forall x, In (x, x') M -> kind_of s0 x = Some KInstance -> iref s x' = remap_ref M (iref s0 x).
Definition FinD (M : memo) (s : state) (d' : id) : Prop :=
  NoDup (drefs s d') /\ forall n, In n (drefs s d') -> ~ In n (map fst M).

Lemma vals_not_keys s0 s M a b : ST s0 s M -> In (a, b) M -> ~ In b (map fst M).
Proof.
  intros T H Hin. apply in_map_iff in Hin as [[a1 b1] [E1 Hin]]. cbn in E1. subst a1.
  destruct (st_rng _ _ _ T a b H). destruct (st_rng _ _ _ T b b1 Hin). lia.
Qed.

Lemma remap_ref_idem s0 s M o : ST s0 s M -> remap_ref M (remap_ref M o) = remap_ref M o.
Proof.
  intro T. destruct o as [e|]; [|reflexivity]. cbn. destruct (mget M e) as [e'|] eqn:Em; cbn; [|rewrite Em; reflexivity].
  destruct (mget M e') as [z|] eqn:Ez; [|reflexivity]. exfalso. apply (vals_not_keys s0 s M e e' T (mget_in _ _ _ Em)). apply (mget_key M e' z Ez).
Qed.

Lemma fin_def_rr s0 s s' M d d' :
  UF s0 -> (forall x e, iref s0 x = Some e -> kind_of s0 e = Some KDefinition) ->
  RY s0 s M -> In (d, d') M -> kind_of s0 d = Some KDefinition -> def_rr M s d' = (s', None) ->
  RY s0 s' M /\ kids s' = kids s /\ par s' = par s /\ next s' = next s /\ kind_of s' = kind_of s /\
  FinD M s' d' /\ (forall x', In x' (kids s RChildren d') -> FinX s0 M s' x') /\
  (forall y, FinX s0 M s y -> FinX s0 M s' y) /\ (forall y, y <> d' -> drefs s' y = drefs s y).
Proof.
  intros U0 HRD Y Hdd Hkd E.
  destruct (ry_def_rr s0 s s' M d d' U0 Y Hdd Hkd (fun x e _ Hr _ => HRD x e Hr) E) as [Y' [A [B [C [D [F [G Hdr]]]]]]].
  pose proof (ri_st _ _ _ (rx_ri _ _ _ (ry_rx _ _ _ Y))) as T.
  split; [exact Y'|]. split; [exact A|]. split; [exact B|]. split; [exact C|]. split; [exact D|]. split; [|split; [|split]].
  - unfold FinD. rewrite Hdr, upd_same. split; [apply dedup_keep_NoDup|]. intros n Hn. apply (proj1 (dedup_keep_In _ _)) in Hn.
    apply in_map_iff in Hn as [y [Ey Hy]]. destruct (mget M y) as [y'|] eqn:Em.
    + subst n. apply (vals_not_keys s0 s M y y' T (mget_in _ _ _ Em)).
    + subst n. intro Hin. apply assoc_In_fst in Hin as [v Hv]. unfold mget in Em. rewrite Hv in Em. discriminate.
  - intros x' Hx' x Hxx Hkx. rewrite (G x' Hx').
    destruct (ry_ir _ _ _ Y x x' Hxx Hkx) as [H1|[e [e' [P [Q S]]]]].
    + rewrite H1. reflexivity.
    + rewrite S, P. cbn. rewrite (in_mget M e e' (st_fun _ _ _ T) Q).
      destruct (mget M e') as [z|] eqn:Ez; [exfalso; apply (vals_not_keys s0 s M e e' T Q); apply (mget_key M e' z Ez)|reflexivity].
  - intros y Hy x Hxx Hkx. destruct (in_dec Nat.eq_dec y (kids s RChildren d')) as [Hin|Hout].
    + rewrite (G y Hin), (Hy x Hxx Hkx). apply (remap_ref_idem s0 s M _ T).
    + rewrite (F y Hout). apply (Hy x Hxx Hkx).
  - intros y Hy. rewrite Hdr. unfold upd. apply Nat.eqb_neq in Hy. rewrite Hy. reflexivity.
Qed.

Lemma fin_defs s0 M : UF s0 -> (forall x e, iref s0 x = Some e -> kind_of s0 e = Some KDefinition) ->
  forall ds ds' s s',
  RY s0 s M -> Forall2 (fun d d' => In (d, d') M) ds ds' -> (forall d, In d ds -> kind_of s0 d = Some KDefinition) ->
  fold_idsR (def_rr M) ds' s = (s', None) ->
  RY s0 s' M /\ kids s' = kids s /\ par s' = par s /\ next s' = next s /\ kind_of s' = kind_of s /\
  (forall d', In d' ds' -> FinD M s' d' /\ forall x', In x' (kids s RChildren d') -> FinX s0 M s' x') /\
  (forall y, FinX s0 M s y -> FinX s0 M s' y) /\ (forall y, FinD M s y -> FinD M s' y) /\
  (forall y, ~ In y ds' -> drefs s' y = drefs s y).
Proof.
  intros U0 HRD. induction ds as [|d ds IH]; intros ds' s s' Y F2 Hk E; inversion F2 as [|? d' ? ds2 Hdd F2']; subst; cbn [fold_idsR] in E.
  - injection E as <-. split; [exact Y|split; [reflexivity|split; [reflexivity|split; [reflexivity|split; [reflexivity|split; [intros z []|split; [auto|split; [auto|auto]]]]]]]].
  - destruct (def_rr M s d') as [s1 [e|]] eqn:E1; cbn [bindR] in E; [discriminate|].
    destruct (fin_def_rr s0 s s1 M d d' U0 HRD Y Hdd (Hk d (or_introl eq_refl)) E1) as [Y1 [A [B [C [D [FD [FX [PX PD]]]]]]]].
    destruct (IH ds2 s1 s' Y1 F2' (fun z Hz => Hk z (or_intror Hz)) E) as [Y2 [A2 [B2 [C2 [D2 [FA [PX2 [PD2 PO2]]]]]]]].
    assert (PDs : forall y, FinD M s y -> FinD M s1 y).
    { intros y Hy. destruct (Nat.eq_dec y d') as [->|Hne]; [exact FD|]. unfold FinD in *. rewrite (PD y Hne). exact Hy. }
    split; [exact Y2|]. split; [congruence|]. split; [congruence|]. split; [congruence|]. split; [congruence|]. split; [|split; [|split]].
    + intros z [<-|Hz].
      * split; [apply PD2; exact FD|]. intros x' Hx'. apply PX2. apply FX. exact Hx'.
      * destruct (FA z Hz) as [H1 H2]. split; [exact H1|]. intros x' Hx'. apply H2. rewrite A. exact Hx'.
    + intros y Hy. apply PX2, PX, Hy.
    + intros y Hy. apply PD2, PDs, Hy.
    + intros y Hy. rewrite PO2 by (intro H; apply Hy; right; exact H). apply PD. intros ->. apply Hy. left. reflexivity.
Qed.

(* ---- the definitions of one library ---- *)
Definition DefPre (s0 : state) (d : id) : Prop := d < next s0 /\ kind_of s0 d = Some KDefinition.

Lemma ry_defs s0 : UF s0 -> forall l s m s' m' l',
  RY s0 s m -> (forall d, In d l -> DefPre s0 d) -> NoDup (flat_map (def_objects s0) l) ->
  (forall y, In y (flat_map (def_objects s0) l) -> ~ In y (map fst m)) ->
  defs_clone1 l (s, m) = (((s', m'), l'), None) ->
  RY s0 s' m' /\ msub m m' /\ keys_ext m m' (flat_map (def_objects s0) l) /\ kstable s s' /\ kpframe (next s) s s' /\
  Forall2 (fun d d' => In (d, d') m') l l' /\ NoDup l' /\
  (forall d', In d' l' -> next s <= d' /\ d' < next s' /\ forall r, par s' r d' = None).
Proof.
  intro U0. induction l as [|d l IH]; intros s m s' m' l' Y Hpre Hnd Hfree E; cbn [defs_clone1] in E.
  - injection E as <- <- <-. split; [exact Y|]. split; [intros e H; exact H|]. split; [intro y; cbn; tauto|]. split; [apply kstable_refl|].
    split; [apply kpframe_refl|]. split; [constructor|]. split; [constructor|intros d' []].
  - destruct (def_clone1 (s, m) d) as [[[s1 m1] d'] [e|]] eqn:E1; [discriminate|].
    destruct (defs_clone1 l (s1, m1)) as [[[s2 m2] r] e2] eqn:E2. injection E as <- <- <- ->.
    cbn [flat_map] in Hnd, Hfree. destruct (Hpre d (or_introl eq_refl)) as [Hd Hkd].
    destruct (ry_def_stage s0 s s1 m m1 d d' U0 Y Hd Hkd (fun y Hy => Hfree y (in_or_app _ _ _ (or_introl Hy))) E1)
      as [Y1 [Hd' [Hin [Sb1 [Ky1 [Ks1 [Hn1 [Hpd1 Hf1]]]]]]]].
    assert (Hfree1 : forall y, In y (flat_map (def_objects s0) l) -> ~ In y (map fst m1)).
    { intros y Hy Hin1. apply Ky1 in Hin1 as [Hin1|Hin1]; [apply (nodup_app_disj _ _ y Hnd Hin1 Hy)|apply (Hfree y (in_or_app _ _ _ (or_intror Hy)) Hin1)]. }
    destruct (IH s1 m1 s2 m2 r Y1 (fun z Hz => Hpre z (or_intror Hz)) (nodup_app_r _ _ Hnd) Hfree1 E2)
      as [Y2 [Sb2 [Ky2 [Ks2 [Hf2 [F2 [N2 P2]]]]]]].
    split; [exact Y2|]. split; [intros e0 He0; apply Sb2, Sb1, He0|]. split; [|split; [eapply kstable_trans; eassumption|]].
    + intro y. cbn [flat_map]. split.
      * intro H. apply Ky2 in H as [H|H]; [left; apply in_or_app; right; exact H|]. apply Ky1 in H as [H|H]; [left; apply in_or_app; left; exact H|right; exact H].
      * intros [H|H]; apply Ky2; [apply in_app_or in H as [H|H]; [right; apply Ky1; left; exact H|left; exact H]|right; apply Ky1; right; exact H].
    + split; [eapply kpframe_trans; [exact Hf1|apply (kpframe_weaken (next s1)); [lia|exact Hf2]]|].
      split; [constructor; [apply Sb2; exact Hin|exact F2]|]. split.
      * constructor; [|exact N2]. intro Hin2. destruct (P2 d' Hin2) as [Hge _]. lia.
      * intros z [<-|Hz].
        -- split; [lia|]. destruct Ks2 as [Hn2 _]. split; [lia|]. intro r0. rewrite (proj2 (Hf2 r0 d' ltac:(lia))). apply Hpd1.
        -- destruct (P2 z Hz) as [A [B C]]. split; [lia|split; assumption].
Qed.

(* the plain redirect loop over the copied definitions of a library *)
Lemma ry_rr_fold s0 m : UF s0 -> forall ds ds' s s',
  RY s0 s m -> Forall2 (fun d d' => In (d, d') m) ds ds' -> (forall d, In d ds -> kind_of s0 d = Some KDefinition) ->
  (forall d x e, In d ds -> In x (kids s0 RChildren d) -> iref s0 x = Some e -> In e (map fst m) -> kind_of s0 e = Some KDefinition) ->
  fold_idsR (def_rr m) ds' s = (s', None) ->
  RY s0 s' m /\ kids s' = kids s /\ par s' = par s /\ next s' = next s /\ kind_of s' = kind_of s.
Proof.
  intro U0. induction ds as [|d ds IH]; intros ds' s s' Y F2 Hk Hcl E; inversion F2 as [|? d' ? ds2 Hdd F2']; subst; cbn [fold_idsR] in E.
  - injection E as <-. split; [exact Y|]. repeat split.
  - destruct (def_rr m s d') as [s1 [e|]] eqn:E1; cbn [bindR] in E; [discriminate|].
    destruct (ry_def_rr s0 s s1 m d d' U0 Y Hdd (Hk d (or_introl eq_refl)) (fun x e Hx => Hcl d x e (or_introl eq_refl) Hx) E1) as [Y1 [A [B [C [D _]]]]].
    destruct (IH ds2 s1 s' Y1 F2' (fun z Hz => Hk z (or_intror Hz)) (fun z x e Hz => Hcl z x e (or_intror Hz)) E) as [Y2 [A2 [B2 [C2 D2]]]].
    split; [exact Y2|]. repeat split; congruence.
Qed.

From SV Require Import Proofs.CloneRemap.
From SV Require Import Proofs.CloneComm.

(* ---- one library ---- *)
Definition lib_objects (s0 : state) (l : id) : list id := l :: flat_map (def_objects s0) (kids s0 RDefs l).

Theorem ry_lib s0 s m l sF mF l' :
  UF s0 -> (forall x e, iref s0 x = Some e -> kind_of s0 e = Some KDefinition) ->
  RY s0 s m -> l < next s0 -> kind_of s0 l = Some KLibrary -> NoDup (lib_objects s0 l) ->
  (forall y, In y (lib_objects s0 l) -> ~ In y (map fst m)) ->
  lib_clone1 (s, m) l = ((sF, mF, l'), None) ->
  RY s0 sF mF /\ msub m mF /\ keys_ext m mF (lib_objects s0 l) /\ In (l, l') mF /\ l' = next s /\ next s < next sF /\
  kpframe (next s) s sF /\ (forall r, par sF r l' = None) /\ kind_of sF l' = Some KLibrary /\
  Forall2 (fun d d' => In (d, d') mF) (kids s0 RDefs l) (kids sF RDefs l') /\
  (forall d', In d' (kids sF RDefs l') -> FinD mF sF d' /\ forall x', In x' (kids sF RChildren d') -> FinX s0 mF sF x').
Proof.
  intros U0 HRD Y Hl Hkl Hnd Hfree E. unfold lib_clone1 in E.
  destruct (clone_alloc s KLibrary) as [s1 x] eqn:Ea.
  destruct (ry_plain_stage s0 s m l KLibrary s1 x Y Hl (Hfree l (or_introl eq_refl)) Hkl (or_introl eq_refl) Ea) as [Y1 [Hx [Hn1 [Hk1 [Hp1 Hkx]]]]].
  cbn zeta in Y1, Hn1, Hk1, Hp1, Hkx.
  set (s1c := copy_data s1 l x) in *.
  pose proof (ry_rx _ _ _ Y) as X0. pose proof (rx_ri _ _ _ X0) as R0.
  assert (Hkd1 : kids s1c RDefs l = kids s0 RDefs l) by (rewrite Hk1; apply (st_kids _ _ _ (ri_st _ _ _ R0) RDefs l Hl)).
  rewrite Hkd1 in E.
  match type of E with context [defs_clone1 ?a ?b] => destruct (defs_clone1 a b) as [[[s2 m2] defs'] [e|]] eqn:Ed end; [discriminate|].
  destruct U0 as [I0 [T0 [F0 [FT0 K0]]]]. pose proof (inv_a _ I0) as I1.
  assert (U0 : UF s0) by (split; [exact I0|split; [exact T0|split; [exact F0|split; assumption]]]).
  unfold lib_objects in Hnd, Hfree. apply NoDup_cons_iff in Hnd as [Hln HndD].
  assert (Hpre : forall d, In d (kids s0 RDefs l) -> DefPre s0 d).
  { intros d Hd. split; [apply (src_lt s0 I1 F0 _ _ _ Hd)|apply (src_kind_child s0 T0 _ _ _ Hd)]. }
  assert (Hfree1 : forall y, In y (flat_map (def_objects s0) (kids s0 RDefs l)) -> ~ In y (map fst ((l, x) :: m))).
  { intros y Hy [Hly|Hin]; [cbn in Hly; subst y; apply Hln; exact Hy|apply (Hfree y (or_intror Hy) Hin)]. }
  destruct (ry_defs s0 U0 _ _ _ _ _ _ Y1 Hpre HndD Hfree1 Ed) as [Y2 [Sb2 [Ky2 [Ks2 [Hf2 [F2 [N2 P2]]]]]]].
  (* the redirect loop, disentangled from the parent pointers *)
  assert (NR : RDefs <> RChildren) by discriminate.
  destruct (interleaved_fold m2 RDefs (Some x) NR defs' (fun s => set_kids s RDefs x defs') s2
              (commok_set_kids (fun s => s) RDefs x defs' commok_id NR)) as [Hsnd Hfst].
  cbn zeta in Hsnd, Hfst.
  destruct (fold_idsR (def_rr m2) defs' s2) as [sP [eP|]] eqn:EP.
  { cbn [snd] in Hsnd. rewrite Hsnd in E. discriminate. }
  cbn [fst snd] in Hsnd, Hfst. specialize (Hfst eq_refl).
  injection E as <- <- <- Esnd.
  destruct (fin_defs s0 m2 U0 HRD (kids s0 RDefs l) defs' s2 sP Y2 F2 (fun d Hd => proj2 (Hpre d Hd)) EP) as [YP [Ak [Ap [An [Akd [FA _]]]]]].
  pose proof (ry_rx _ _ _ Y1) as X1. pose proof (rx_ri _ _ _ X1) as R1.
  pose proof (ry_rx _ _ _ YP) as XP. pose proof (rx_ri _ _ _ XP) as RP.
  destruct Ks2 as [Hn2 Hkk2].
  assert (Hxs : x = next s) by exact Hx.
  assert (Hx0 : next s0 <= x) by (rewrite Hxs; apply (st_n0 _ _ _ (ri_st _ _ _ R0))).
  assert (Hx1 : x < next s1c) by lia.
  assert (HkxP : kind_of sP x = Some KLibrary).
  { rewrite Akd. rewrite (st_kind _ _ _ (ri_st _ _ _ (rx_ri _ _ _ (ry_rx _ _ _ Y2))) l x (Sb2 _ (or_introl eq_refl))). exact Hkl. }
  assert (HkidsP : kids sP RDefs x = []).
  { rewrite Ak, (Hkk2 RDefs x Hx1), Hk1. apply (proj1 (ri_ab _ _ _ R0 RDefs x ltac:(lia))). }
  fold (attach sP RDefs x defs') in Hfst.
  destruct (attach_ry s0 sP m2 RDefs x defs' YP eq_refl Hx0 ltac:(lia) HkxP HkidsP) as [YF [Fk [Fn [Fr [Fd Fkd]]]]].
  { intros c Hc. destruct (P2 c Hc) as [A [B C]]. split; [lia|]. split; [lia|]. split; [|rewrite Ap; apply C].
    destruct (forall2_in_l _ _ _ F2 c Hc) as [d [Hd Hdc]]. rewrite Akd.
    rewrite (st_kind _ _ _ (ri_st _ _ _ (rx_ri _ _ _ (ry_rx _ _ _ Y2))) d c Hdc). apply (proj2 (Hpre d Hd)). }
  { exact N2. }
  rewrite <- Hfst in YF, Fk, Fn, Fr, Fd, Fkd.
  split; [exact YF|]. split; [intros e0 He0; apply Sb2; right; exact He0|]. split; [|split; [apply Sb2; left; reflexivity|split; [exact Hxs|]]].
  - intro y. unfold lib_objects. split.
    + intro H. apply Ky2 in H as [H|[H|H]]; [left; right; exact H|left; left; exact H|right; exact H].
    + intros [[<-|H]|H]; apply Ky2; [right; left; reflexivity|left; exact H|right; right; exact H].
  - split; [rewrite Fn, An; lia|]. split; [|split].
    + intros r y Hy. rewrite Fk. rewrite kids_upd2_ns. replace (Nat.eqb y x) with false by (symmetry; apply Nat.eqb_neq; lia). rewrite andb_false_r.
      destruct (attach_fields sP RDefs x defs') as [_ [Fp _]]. rewrite Hfst, Fp.
      assert (Hny : memb y defs' = false). { destruct (memb y defs') eqn:Em; [|reflexivity]. apply memb_In in Em. destruct (P2 y Em) as [A _]. lia. }
      rewrite Hny, andb_false_r, Ak, Ap. destruct (Hf2 r y ltac:(lia)) as [-> ->]. rewrite Hk1, Hp1. split; reflexivity.
    + intro r. destruct (attach_fields sP RDefs x defs') as [_ [Fp _]]. rewrite Hfst, Fp.
      assert (Hnx : memb x defs' = false). { destruct (memb x defs') eqn:Em; [|reflexivity]. apply memb_In in Em. destruct (P2 x Em) as [A _]. lia. }
      rewrite Hnx, andb_false_r, Ap. rewrite (proj2 (Hf2 r x Hx1)), Hp1. apply (proj2 (ri_ab _ _ _ R0 r x ltac:(lia))).
    + split; [rewrite Fkd; exact HkxP|]. split; [rewrite Fk, upd2_same; exact F2|].
      intros d' Hd'. rewrite Fk, upd2_same in Hd'. destruct (FA d' Hd') as [FD FXs]. split.
      * unfold FinD. rewrite Fd. exact FD.
      * intros x' Hx'. rewrite Fk in Hx'. change (upd2 (kids sP) RDefs x defs' RChildren d') with (kids sP RChildren d') in Hx'. rewrite Ak in Hx'.
        intros x0 Hxx Hkx0. rewrite Fr. apply (FXs x' Hx' x0 Hxx Hkx0).
Qed.
