(* EBLIF engine, connectivity clause of C18: the abstract reading of one section ([nst], [step_n]) and
   the relation [R] between the model called [nm] and that reading.  [R] says: the number of
   instances, the direction of every port name, the library, the declared flag are what the statements
   read so far give, and - outside black boxes - wire (c, k) of every cable no .conn has touched
   holds exactly the pins the statements attached to net bit (c, k) [B1]; once a .conn was read,
   two pins share a wire exactly when they are attached to equal or .conn-joined net bits [B2]. *)
From Coq Require Import List Arith NArith Bool Lia Permutation.
From SV Require Import Base.Base Fmt.Blif Fmt.BlifRead Fmt.BlifSpec
  Proofs.BlifBase Proofs.BlifWF Proofs.BlifExec Proofs.BlifNetsBase Proofs.BlifNetsView.
Import ListNotations.

Record nst := mkNst {
  n_idx : nat;                           (* instance statements read *)
  n_ins : list str;                      (* the [ins] argument of spec_attach *)
  n_inn : list str;                      (* port names of .inputs tokens *)
  n_outn : list str;                     (* port names of .outputs tokens *)
  n_att : list (pinref * netbit);        (* spec_attach so far *)
  n_conns : list (netbit * netbit);      (* spec_conns so far *)
  n_bb : bool;                           (* .blackbox read *)
  n_lib : lib;
  n_def : bool }.

Definition st0 : nst := mkNst 0 [] [] [] [] [] false LNone false.

Definition mem (p : str) (l : list str) : bool := existsb (str_eqb p) l.
Definition dirf (i o : bool) : dir :=
  match i, o with true, true => DInout | true, false => DIn | false, true => DOut | false, false => DUndef end.

Definition tok_port (t : str) : str := match nb_of t with Some (p, _) => p | None => [] end.
Definition tok_named (t : str) : list str := match nb_of t with Some (p, _) => [p] | None => [] end.
Definition att_in (t : str) : list (pinref * netbit) :=
  match nb_of t with Some (p, i) => [(PTop p i, (p, i))] | None => [] end.
Definition out_keep (ins : list str) (t : str) : bool :=
  match nb_of t with Some (p, _) => negb (existsb (str_eqb p) ins) | None => false end.

Definition add_att (st : nst) (a : list (pinref * netbit)) : nst :=
  mkNst (n_idx st) (n_ins st) (n_inn st) (n_outn st) (n_att st ++ a) (n_conns st) (n_bb st) (n_lib st) (n_def st).
Definition add_inst (st : nst) (a : list (pinref * netbit)) : nst :=
  mkNst (S (n_idx st)) (n_ins st) (n_inn st) (n_outn st) (n_att st ++ a) (n_conns st) (n_bb st) (n_lib st) (n_def st).
Definition in_tok (st : nst) (t : str) : nst :=
  mkNst (n_idx st) (n_ins st ++ [tok_port t]) (n_inn st ++ tok_named t) (n_outn st) (n_att st ++ att_in t)
        (n_conns st) (n_bb st) (n_lib st) (n_def st).
(* [ins]: the input names when the .outputs line starts *)
Definition out_tok (ins : list str) (st : nst) (t : str) : nst :=
  mkNst (n_idx st) (n_ins st) (n_inn st) (n_outn st ++ tok_named t)
        (n_att st ++ (if out_keep ins t then att_in t else [])) (n_conns st) (n_bb st) (n_lib st) (n_def st).

Definition step_n (x : stmt) (st : nst) : nst :=
  match x with
  | SInputs l => fold_left in_tok l st
  | SOutputs l => fold_left (out_tok (n_ins st)) l st
  | SSub _ _ pairs => add_inst st (attach_pairs (n_idx st) (pairs_of pairs))
  | SNames nets => add_inst st (attach_pairs (n_idx st) (zip (names_port_names (length nets - 1)) nets))
  | SLatch toks => add_inst st (attach_pairs (n_idx st) (zip latch_order toks))
  | SConn a b =>
    match nb_of a, nb_of b with
    | Some x, Some y => mkNst (n_idx st) (n_ins st) (n_inn st) (n_outn st) (n_att st) (n_conns st ++ [(x, y)])
                              (n_bb st) (n_lib st) (n_def st)
    | _, _ => st
    end
  | SBlackbox => mkNst (n_idx st) (n_ins st) (n_inn st) (n_outn st) (n_att st) (n_conns st) true (n_lib st) (n_def st)
  | SEnd => mkNst (n_idx st) (n_ins st) (n_inn st) (n_outn st) (n_att st) (n_conns st) (n_bb st)
                  (if n_bb st then LPrim else LWork) (n_def st)
  | _ => st
  end.

Definition set_def (st : nst) : nst :=
  mkNst (n_idx st) (n_ins st) (n_inn st) (n_outn st) (n_att st) (n_conns st) (n_bb st) (n_lib st) true.

(* the reading of the model called [nm] advances on the statements read while it is current *)
Definition step_g (nm cur : str) (x : stmt) (st : nst) : nst :=
  match x with
  | SModel c => if str_eqb nm c then set_def st else st
  | SComment _ => st
  | _ => if str_eqb nm cur then step_n x st else st
  end.

Definition next_c (cur : str) (x : stmt) : str := match x with SModel c => c | _ => cur end.

Fixpoint run_g (nm cur : str) (ss : list stmt) (st : nst) : nst :=
  match ss with
  | [] => st
  | x :: r => run_g nm (next_c cur x) r (step_g nm cur x st)
  end.

(* cables the .conn statements read so far have consumed or created *)
Definition touched (cs : list (netbit * netbit)) : list str :=
  flat_map (fun xy => [fst (fst xy); fst (snd xy);
                       merge_name (fst (fst xy)) (snd (fst xy)) (fst (snd xy)) (snd (snd xy))]) cs.

Definition B1 (cs : list cable) (att : list (pinref * netbit)) (tch : list str) : Prop :=
  forall c, ~ In c tch -> forall pr k, In pr (wire_at c k cs) <-> In (pr, (c, k)) att.

Definition same_wire_c (cs : list cable) (a b : pinref) : Prop :=
  exists c w, In c cs /\ In w (c_wires c) /\ In a w /\ In b w.

Definition B2 (cs : list cable) (att : list (pinref * netbit)) (conns : list (netbit * netbit)) : Prop :=
  forall a b, same_wire_c cs a b <->
    exists x y, In (a, x) att /\ In (b, y) att /\ same_bit conns x y.

Record R (nm : str) (m : model) (st : nst) : Prop := {
  r_idx : length (m_insts m) = n_idx st;
  r_dir : reserved nm = false -> forall p, port_dir p m = dirf (mem p (n_inn st)) (mem p (n_outn st));
  r_ins : forall p, mem p (n_ins st) = mem p (n_inn st);
  r_lib : m_lib m = n_lib st;
  r_def : n_def st = true -> m_defined m = true;
  r_net : n_bb st = false -> B1 (m_cables m) (n_att st) (touched (n_conns st));
  r_b2 : n_bb st = false -> n_conns st <> [] -> B2 (m_cables m) (n_att st) (n_conns st);
  r_cab0 : n_att st = [] -> n_conns st = [] -> m_cables m = [];
  r_bb : n_bb st = true -> m_cables m = [] }.

Lemma R_veq nm m m' st : veq m m' -> R nm m st -> R nm m' st.
Proof.
  intros [[V1 [V2 [V3 V4]]] V5] [R1 R2 R3 R4 R5 R6 R7 R8 R9].
  constructor; rewrite ?V1, ?V2, ?V3, ?V4; auto. intros Hr p. rewrite V5. apply R2. exact Hr.
Qed.

Lemma R_vcore nm m m' st : reserved nm = true -> vcore m m' -> R nm m st -> R nm m' st.
Proof.
  intros Hres [V1 [V2 [V3 V4]]] [R1 R2 R3 R4 R5 R6 R7 R8 R9].
  constructor; rewrite ?V1, ?V2, ?V3, ?V4; auto. intro Hr. congruence.
Qed.

Lemma R_geq nm m m' st : geq m m' -> R nm m st -> R nm m' st.
Proof. intro H. apply R_veq. apply geq_veq. exact H. Qed.

Lemma R_eq nm m m' st : m' = m -> R nm m st -> R nm m' st.
Proof. intros ->. auto. Qed.

Lemma R_st0 nm : R nm (new_model nm) st0.
Proof.
  constructor; cbn; auto; try discriminate.
  - intros _ c _ pr k. unfold wire_at. cbn. tauto.
  - intros _ H. contradiction.
Qed.

(* ---------- B2 from B1 while no .conn was read ---------- *)
Lemma b2_of_b1 cs att : NoDup (map c_name cs) -> B1 cs att [] -> B2 cs att [].
Proof.
  intros Hnd H1 a b. split.
  - intros [c [w [Hc [Hw [Ha Hb]]]]]. destruct (wire_is_wire_at cs c w Hnd Hc Hw) as [k Hk].
    exists (c_name c, k), (c_name c, k). subst w. repeat split.
    + apply (H1 (c_name c) (fun f => f)). exact Ha.
    + apply (H1 (c_name c) (fun f => f)). exact Hb.
    + left. reflexivity.
  - intros [x [y [Ha [Hb Hs]]]]. destruct Hs as [<-|[[]|[]]]. destruct x as [c k].
    apply (H1 c (fun f => f)) in Ha. apply (H1 c (fun f => f)) in Hb.
    destruct (wire_at_is_wire _ _ _ _ Ha) as [xc [Hx Hw]]. exists xc, (wire_at c k cs). auto.
Qed.

(* ---------- one pin joined to a net bit ---------- *)
Lemma B1_connect pr c k m m' att :
  connect pr c k m = Ok m' -> B1 (m_cables m) att [] -> B1 (m_cables m') (att ++ [(pr, (c, k))]) [].
Proof.
  intros H H1 c' _ pr' k'. rewrite (wire_at_connect _ _ _ _ _ c' k' H), !in_app_iff, (H1 c' (fun f => f)).
  cbn [In]. destruct (str_eqb c' c) eqn:E1; cbn [andb].
  - apply str_eqb_spec in E1. subst c'. destruct (Nat.eqb k' k) eqn:E2.
    + apply Nat.eqb_eq in E2. subst k'. cbn [In]. split; intros [A|[A|[]]]; auto; [subst; auto|inversion A; auto].
    + apply Nat.eqb_neq in E2. cbn [In]. split; [intros [A|[]]; auto|intros [A|[A|[]]]; auto]. inversion A. congruence.
  - apply str_eqb_false in E1. cbn [In]. split; [intros [A|[]]; auto|intros [A|[A|[]]]; auto]. inversion A. congruence.
Qed.

Lemma R_connect nm pr c k m m' st :
  connect pr c k m = Ok m' -> n_conns st = [] -> n_bb st = false -> R nm m st ->
  R nm m' (add_att st [(pr, (c, k))]).
Proof.
  intros H Hc Hb [R1 R2 R3 R4 R5 R6 R7 R8 R9].
  destruct (connect_fields _ _ _ _ _ H) as [F1 [F2 [F3 [F4 [F5 [F6 F7]]]]]].
  constructor; cbn [add_att n_idx n_ins n_inn n_outn n_att n_conns n_bb n_lib n_def]; rewrite ?F3, ?F6, ?F7; auto.
  - intros Hr p. unfold port_dir. rewrite F2. apply R2. exact Hr.
  - intros _. rewrite Hc in *. cbn [touched flat_map] in *. apply (B1_connect _ _ _ _ _ _ H). apply R6. exact Hb.
  - intros _ Hn. contradiction.
  - intro Hn. apply app_eq_nil in Hn as [_ Hn]. discriminate.
  - congruence.
Qed.
